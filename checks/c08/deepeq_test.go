package c08

import (
	"fmt"
	"math"
	"math/big"
	"reflect"
	"sort"
	"unsafe"
)

var (
	bigIntT   = reflect.TypeOf(big.Int{})
	bigFloatT = reflect.TypeOf(big.Float{})
)

// deepDiff compares two values structurally (exported and unexported fields, nil slice/map == empty slice/map,
// capacities ignored, big numbers by value). It returns "" when equal, else the path of the first difference.
func deepDiff(a, b any) string {
	return diffVal(reflect.ValueOf(a), reflect.ValueOf(b), "")
}

func addrOf(v reflect.Value) unsafe.Pointer {
	if v.CanAddr() {
		return unsafe.Pointer(v.UnsafeAddr())
	}
	return nil
}

func diffVal(a, b reflect.Value, path string) string {
	if a.IsValid() != b.IsValid() {
		return path + ":validity"
	}
	if !a.IsValid() {
		return ""
	}
	if a.Type() != b.Type() {
		return fmt.Sprintf("%s:type %v vs %v", path, a.Type(), b.Type())
	}
	switch a.Kind() {
	case reflect.Ptr:
		if a.IsNil() || b.IsNil() {
			if a.IsNil() != b.IsNil() {
				return fmt.Sprintf("%s:nil=%v vs nil=%v", path, a.IsNil(), b.IsNil())
			}
			return ""
		}
		if a.Pointer() == b.Pointer() {
			return ""
		}
		return diffVal(a.Elem(), b.Elem(), path)
	case reflect.Interface:
		if a.IsNil() || b.IsNil() {
			if a.IsNil() != b.IsNil() {
				return path + ":nil-interface"
			}
			return ""
		}
		return diffVal(a.Elem(), b.Elem(), path)
	case reflect.Struct:
		if a.Type() == bigIntT {
			pa, pb := addrOf(a), addrOf(b)
			if pa != nil && pb != nil {
				if (*big.Int)(pa).Cmp((*big.Int)(pb)) != 0 {
					return fmt.Sprintf("%s:big.Int %v vs %v", path, (*big.Int)(pa), (*big.Int)(pb))
				}
				return ""
			}
		}
		if a.Type() == bigFloatT {
			pa, pb := addrOf(a), addrOf(b)
			if pa != nil && pb != nil {
				fa, fb := (*big.Float)(pa), (*big.Float)(pb)
				if fa.Cmp(fb) != 0 {
					return fmt.Sprintf("%s:big.Float %s vs %s", path, fa.Text('g', 45), fb.Text('g', 45))
				}
				return ""
			}
		}
		for i := 0; i < a.NumField(); i++ {
			if d := diffVal(a.Field(i), b.Field(i), path+"."+a.Type().Field(i).Name); d != "" {
				return d
			}
		}
		return ""
	case reflect.Slice, reflect.Array:
		if a.Len() != b.Len() {
			return fmt.Sprintf("%s:len %d vs %d", path, a.Len(), b.Len())
		}
		for i := 0; i < a.Len(); i++ {
			if d := diffVal(a.Index(i), b.Index(i), path+"[]"); d != "" {
				return d
			}
		}
		return ""
	case reflect.Map:
		if a.Len() != b.Len() {
			return fmt.Sprintf("%s:maplen %d vs %d", path, a.Len(), b.Len())
		}
		keys := a.MapKeys()
		sort.Slice(keys, func(i, j int) bool { return fmt.Sprint(keys[i]) < fmt.Sprint(keys[j]) })
		for _, k := range keys {
			bv := b.MapIndex(k)
			if !bv.IsValid() {
				return fmt.Sprintf("%s:missing-key", path)
			}
			if d := diffVal(a.MapIndex(k), bv, path+"{}"); d != "" {
				return d
			}
		}
		return ""
	case reflect.Bool:
		if a.Bool() != b.Bool() {
			return fmt.Sprintf("%s:%v vs %v", path, a.Bool(), b.Bool())
		}
	case reflect.Int, reflect.Int8, reflect.Int16, reflect.Int32, reflect.Int64:
		if a.Int() != b.Int() {
			return fmt.Sprintf("%s:%d vs %d", path, a.Int(), b.Int())
		}
	case reflect.Uint, reflect.Uint8, reflect.Uint16, reflect.Uint32, reflect.Uint64, reflect.Uintptr:
		if a.Uint() != b.Uint() {
			return fmt.Sprintf("%s:%d vs %d", path, a.Uint(), b.Uint())
		}
	case reflect.Float32, reflect.Float64:
		if math.Float64bits(a.Float()) != math.Float64bits(b.Float()) {
			return fmt.Sprintf("%s:%v vs %v", path, a.Float(), b.Float())
		}
	case reflect.String:
		if a.String() != b.String() {
			return fmt.Sprintf("%s:%q vs %q", path, a.String(), b.String())
		}
	case reflect.Func, reflect.Chan, reflect.UnsafePointer:
		// not part of any serialized state
	default:
		return fmt.Sprintf("%s:unsupported kind %v", path, a.Kind())
	}
	return ""
}

// diffField strips the values from a difference so that it can be part of a stable failure key.
func diffField(d string) string {
	for i := 0; i < len(d); i++ {
		if d[i] == ':' {
			return d[:i]
		}
	}
	return d
}

// libEqual calls the library's own Equal method when the type has one (pointer or value argument, possibly promoted
// from an embedded field). ok=false when there is none. A panic inside Equal (lattigo's Equal methods index the
// other operand without checking its shape) counts as "not equal".
func libEqual(a, b any) (eq bool, ok bool) {
	defer func() {
		if r := recover(); r != nil {
			eq, ok = false, true
		}
	}()
	m := reflect.ValueOf(a).MethodByName("Equal")
	if !m.IsValid() || m.Type().NumIn() != 1 || m.Type().NumOut() != 1 || m.Type().Out(0).Kind() != reflect.Bool {
		return false, false
	}
	in := m.Type().In(0)
	bv := reflect.ValueOf(b)
	var arg reflect.Value
	switch {
	case in == bv.Type():
		arg = bv
	case bv.Kind() == reflect.Ptr && in == bv.Type().Elem():
		arg = bv.Elem()
	case bv.Kind() == reflect.Ptr && bv.Elem().Kind() == reflect.Struct:
		// promoted method of an embedded field
		arg = findEmbedded(bv.Elem(), in)
		if !arg.IsValid() {
			return false, false
		}
	default:
		return false, false
	}
	return m.Call([]reflect.Value{arg})[0].Bool(), true
}

func findEmbedded(s reflect.Value, want reflect.Type) reflect.Value {
	for i := 0; i < s.NumField(); i++ {
		f := s.Type().Field(i)
		if !f.Anonymous {
			continue
		}
		fv := s.Field(i)
		if fv.Type() == want {
			return fv
		}
		if fv.CanAddr() && fv.Addr().Type() == want {
			return fv.Addr()
		}
		if fv.Kind() == reflect.Struct {
			if r := findEmbedded(fv, want); r.IsValid() {
				return r
			}
		}
	}
	return reflect.Value{}
}
