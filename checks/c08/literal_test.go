package c08

import (
	"bytes"
	"encoding/json"
	"fmt"
	"math"
	"math/big"
	"sync"
	"testing"

	"verif/internal/h"

	"github.com/tuneinsight/lattigo/v6/circuits/ckks/bootstrapping"
	"github.com/tuneinsight/lattigo/v6/circuits/ckks/dft"
	"github.com/tuneinsight/lattigo/v6/circuits/ckks/mod1"
	"github.com/tuneinsight/lattigo/v6/core/rlwe"
	"github.com/tuneinsight/lattigo/v6/ring"
	"github.com/tuneinsight/lattigo/v6/schemes/bgv"
	"github.com/tuneinsight/lattigo/v6/schemes/ckks"
	"pgregory.net/rapid"
)

// LiteralCase covers the JSON-backed types without stream interface: bootstrapping.ParametersLiteral / Parameters,
// dft.MatrixLiteral, mod1.ParametersLiteral, ring.Ring and the rlwe/bgv/ckks ParametersLiteral JSON codecs.
type LiteralCase struct {
	Kind  string `json:"kind"`
	Seed  uint64 `json:"seed"`
	Dirty bool   `json:"dirty"`
	DSeed uint64 `json:"dseed,omitempty"`
	JSON  bool   `json:"json"`  // encoding/json entry points instead of MarshalBinary/UnmarshalBinary
	Trunc int    `json:"trunc"` // >= 0: additionally decode the encoding cut to Trunc % len bytes, which must fail
}

var literalKinds = []string{
	"bootstrapping.ParametersLiteral", "bootstrapping.Parameters", "dft.MatrixLiteral", "mod1.ParametersLiteral", "ring.Ring",
	"rlwe.ParametersLiteral", "bgv.ParametersLiteral", "ckks.ParametersLiteral", "ring.Type",
}

func genLiteral(t *rapid.T) LiteralCase {
	var c LiteralCase
	c.Kind = rapid.SampledFrom(literalKinds).Draw(t, "kind")
	c.Seed = rapid.Uint64().Draw(t, "seed")
	c.Dirty = rapid.Bool().Draw(t, "dirty")
	if c.Dirty {
		c.DSeed = rapid.Uint64().Draw(t, "dseed")
	}
	c.JSON = rapid.Bool().Draw(t, "json")
	c.Trunc = -1
	if rapid.IntRange(0, 3).Draw(t, "cut") == 0 {
		c.Trunc = rapid.IntRange(0, 1<<16).Draw(t, "trunc")
	}
	return c
}

// binCodec is what these types offer.
type binCodec interface {
	MarshalBinary() ([]byte, error)
	UnmarshalBinary([]byte) error
}

func optInt(rng *h.SplitMix, lo, hi int) *int {
	if rng.Intn(3) == 0 {
		return nil
	}
	v := lo + rng.Intn(hi-lo+1)
	return &v
}

func genDist(rng *h.SplitMix) ring.DistributionParameters {
	switch rng.Intn(4) {
	case 0:
		return ring.Ternary{H: 1 + rng.Intn(192)}
	case 1:
		return ring.Ternary{P: 0.5}
	case 2:
		return ring.DiscreteGaussian{Sigma: 3.2, Bound: 19.2}
	}
	return nil
}

func genBtpLiteral(seed uint64) (*bootstrapping.ParametersLiteral, string) {
	rng := h.NewSplitMix(seed)
	p := &bootstrapping.ParametersLiteral{}
	p.LogN = optInt(rng, 9, 16)
	if rng.Intn(2) == 0 {
		p.LogP = []int{61, 61}[:1+rng.Intn(2)]
	}
	cls := "dist=nil"
	if rng.Intn(2) == 0 {
		p.Xs, p.Xe = genDist(rng), genDist(rng)
		if p.Xs != nil || p.Xe != nil {
			cls = "dist=set"
		}
	}
	p.LogSlots = optInt(rng, 1, 15)
	if rng.Intn(2) == 0 {
		p.CoeffsToSlotsFactorizationDepthAndLogScales = [][]int{{56}, {56, 56}, {28, 28}}[:1+rng.Intn(3)]
		p.SlotsToCoeffsFactorizationDepthAndLogScales = [][]int{{39}, {30, 30}}[:1+rng.Intn(2)]
	}
	p.EvalModLogScale = optInt(rng, 50, 60)
	p.EphemeralSecretWeight = optInt(rng, 0, 64)
	if rng.Intn(2) == 0 {
		p.IterationsParameters = &bootstrapping.IterationsParameters{BootstrappingPrecision: []float64{25.5, 30}[:1+rng.Intn(2)], ReservedPrimeBitSize: 20 + rng.Intn(20)}
	}
	p.Mod1Type = mod1.Type(rng.Intn(3))
	p.LogMessageRatio = optInt(rng, 4, 12)
	p.K = optInt(rng, 8, 32)
	p.Mod1Degree = optInt(rng, 20, 63)
	p.DoubleAngle = optInt(rng, 0, 4)
	p.Mod1InvDegree = optInt(rng, 0, 7)
	return p, cls
}

func genMatrixLiteral(seed uint64) (*dft.MatrixLiteral, string) {
	rng := h.NewSplitMix(seed)
	d := &dft.MatrixLiteral{Type: dft.Type(rng.Intn(2)), LogSlots: 1 + rng.Intn(15), LevelQ: rng.Intn(20), LevelP: rng.Intn(4) - 1,
		Format: dft.Format(rng.Intn(3)), BitReversed: rng.Intn(2) == 0, LogBSGSRatio: rng.Intn(4)}
	if rng.Intn(4) != 0 {
		d.Levels = []int{1, 1, 2, 1}[:1+rng.Intn(4)]
	}
	cls := "scaling=nil"
	switch rng.Intn(4) {
	case 1:
		d.Scaling, cls = new(big.Float).SetFloat64(1), "scaling=1"
	case 2:
		d.Scaling, cls = new(big.Float).SetFloat64(math.Ldexp(float64(rng.Uint64()>>11), -40-rng.Intn(20))), "scaling=float64"
	case 3:
		// a value that needs more than 64 bits of mantissa
		f := new(big.Float).SetPrec(128).SetUint64(rng.Uint64() | 1)
		d.Scaling, cls = f.Quo(f, new(big.Float).SetPrec(128).SetUint64(3)), "scaling=prec128"
	}
	return d, cls
}

func genMod1Literal(seed uint64) (*mod1.ParametersLiteral, string) {
	rng := h.NewSplitMix(seed)
	return &mod1.ParametersLiteral{LevelQ: rng.Intn(24), LogScale: 40 + rng.Intn(21), Mod1Type: mod1.Type(rng.Intn(3)),
		Scaling: []float64{0, 1, 0.5, math.Ldexp(float64(rng.Uint64()>>11), -60)}[rng.Intn(4)], LogMessageRatio: 4 + rng.Intn(8), K: 8 + rng.Intn(24),
		Mod1Degree: 20 + rng.Intn(44), DoubleAngle: rng.Intn(4), Mod1InvDegree: rng.Intn(8)}, ""
}

// small fixed pools of primes (found once with the harness search) for the parameter-carrying kinds
var (
	litOnce   sync.Once
	litPrimes []uint64 // NTT-friendly for N <= 2^10 (congruent to 1 mod 2^11), 30..55 bits
)

func litPool() []uint64 {
	litOnce.Do(func() {
		for _, b := range []int{30, 36, 45, 50, 55} {
			litPrimes = append(litPrimes, h.Primes(b, 1<<11, 3, false)...)
		}
	})
	return litPrimes
}

func pick(rng *h.SplitMix, n int) []uint64 {
	pool := litPool()
	start := rng.Intn(len(pool))
	out := make([]uint64, n)
	for i := range out {
		out[i] = pool[(start+i*4)%len(pool)] // step 4 is coprime to 15: distinct for n <= 15
	}
	return out
}

func genRlweLiteral(seed uint64) (rlwe.ParametersLiteral, string) {
	rng := h.NewSplitMix(seed)
	var l rlwe.ParametersLiteral
	l.LogN = 4 + rng.Intn(6)
	cls := "explicit-primes"
	if rng.Intn(2) == 0 {
		qp := pick(rng, 4)
		l.Q = qp[:1+rng.Intn(3)]
		if rng.Intn(2) == 0 {
			l.P = qp[3:]
		}
	} else {
		cls = "log-primes"
		l.LogQ = []int{40, 30, 30}[:1+rng.Intn(3)]
		if rng.Intn(2) == 0 {
			l.LogP = []int{45}
		}
	}
	l.Xs, l.Xe = genDist(rng), genDist(rng)
	l.RingType = ring.Type(rng.Intn(2))
	if rng.Intn(3) == 0 {
		l.LogNthRoot = l.LogN + 1 + rng.Intn(2)
		cls += ",lognthroot"
	}
	l.NTTFlag = rng.Intn(2) == 0
	if rng.Intn(2) == 0 {
		l.DefaultScale = rlwe.NewScale(math.Exp2(float64(20 + rng.Intn(30))))
	}
	return l, cls
}

var (
	btpMu    sync.Mutex
	btpCache = map[int]*bootstrapping.Parameters{}
)

// genBtpParams builds one of a few small bootstrapping parameter sets (cached: construction generates ~25 primes).
func genBtpParams(seed uint64) (*bootstrapping.Parameters, string, error) {
	v := int(seed % 4)
	btpMu.Lock()
	defer btpMu.Unlock()
	if p, ok := btpCache[v]; ok {
		cp := *p
		return &cp, fmt.Sprintf("variant=%d", v), nil
	}
	res, err := ckks.NewParametersFromLiteral(ckks.ParametersLiteral{LogN: 9, LogQ: []int{55, 45}, LogP: []int{61}, LogDefaultScale: 45, LogNthRoot: 11})
	if err != nil {
		return nil, "", err
	}
	logN, slots := 10, 3+v
	lit := bootstrapping.ParametersLiteral{LogN: &logN, LogSlots: &slots}
	if v&1 == 1 {
		lit.IterationsParameters = &bootstrapping.IterationsParameters{BootstrappingPrecision: []float64{25}, ReservedPrimeBitSize: 28}
	}
	if v&2 == 2 {
		w := 16
		lit.EphemeralSecretWeight = &w
		lit.Mod1Type = mod1.SinContinuous
		da := 0
		lit.DoubleAngle = &da
	}
	p, err := bootstrapping.NewParametersFromLiteral(res, lit)
	if err != nil {
		return nil, "", err
	}
	btpCache[v] = &p
	cp := p
	return &cp, fmt.Sprintf("variant=%d", v), nil
}

func genRing(seed uint64) (*ring.Ring, string, error) {
	rng := h.NewSplitMix(seed)
	logN := 4 + rng.Intn(6)
	q := pick(rng, 1+rng.Intn(4))
	var r *ring.Ring
	var err error
	ci := rng.Intn(3) == 0
	if ci {
		r, err = ring.NewRingConjugateInvariant(1<<logN, q)
	} else {
		r, err = ring.NewRing(1<<logN, q)
	}
	if err != nil {
		return nil, "", err
	}
	// Only full rings: a level view (r.AtLevel(l)) is encoded with ALL its sub-rings and decodes to the full ring; the
	// doc comments do not say that the level is part of the encoding, so this is recorded as an observation only.
	lvl := len(q) - 1
	return r, fmt.Sprintf("ci=%v,primes=%d,level=%d", ci, len(q), lvl), nil
}

// roundTrip encodes orig, decodes into recv (fresh or dirty), and compares.
func litRoundTrip(kind string, orig, recv any, c LiteralCase, rec *h.Rec) error {
	enc := func(v any) ([]byte, error) {
		if c.JSON {
			return json.Marshal(v)
		}
		bc, ok := v.(binCodec)
		if !ok {
			return json.Marshal(v) // the *.ParametersLiteral of rlwe/bgv/ckks only have JSON codecs
		}
		return bc.MarshalBinary()
	}
	dec := func(b []byte, v any) error {
		if c.JSON {
			return json.Unmarshal(b, v)
		}
		bc, ok := v.(binCodec)
		if !ok {
			return json.Unmarshal(b, v)
		}
		return bc.UnmarshalBinary(b)
	}
	entry := map[bool]string{false: "binary", true: "json"}[c.JSON]
	state := map[bool]string{false: "fresh", true: "dirty"}[c.Dirty]
	fail := func(key, format string, a ...any) error {
		msg := fmt.Sprintf(format, a...)
		if rec.Known(key, msg) {
			rec.Class("known=" + key)
			return nil
		}
		return h.Failf(key, "%s (%s, %s receiver): %s", kind, entry, state, msg)
	}
	var b []byte
	err, pm := guarded(func() (e error) { b, e = enc(orig); return })
	if pm != "" {
		return fail("C08:literal:"+kind+":encode-panic", "%s", pm)
	}
	if err != nil {
		return fail("C08:literal:"+kind+":encode-error", "%v", err)
	}
	if c.Trunc >= 0 && len(b) > 0 {
		k := c.Trunc % len(b)
		scratch := newLike(orig)
		err, pm := guarded(func() error { return dec(b[:k], scratch) })
		if pm != "" {
			return fail("C08:literal:"+kind+":trunc-panic", "cut at %d of %d: %s", k, len(b), pm)
		}
		if err == nil {
			if e := fail("C08:literal:"+kind+":trunc-accepted", "the first %d of %d bytes (%q) decode without error", k, len(b), string(b[:k])); e != nil {
				return e
			}
		}
		rec.Class("trunc-checked")
	}
	err, pm = guarded(func() error { return dec(b, recv) })
	if pm != "" {
		return fail("C08:literal:"+kind+":decode-panic", "%s on %s", pm, string(b))
	}
	if err != nil {
		return fail("C08:literal:"+kind+":decode-error", "%v on its own encoding %s", err, string(b))
	}
	// dft.MatrixLiteral.Scaling is a *big.Float carried as JSON text and decoded at big.Float's default 64-bit
	// precision: it is compared to float64 accuracy (relative 2^-52), not bit for bit.
	approx := false
	switch o := orig.(type) {
	case *dft.MatrixLiteral:
		approx = normScaling(o, recv.(*dft.MatrixLiteral))
	case *bootstrapping.Parameters:
		r := recv.(*bootstrapping.Parameters)
		a1 := normScaling(&o.SlotsToCoeffsParameters, &r.SlotsToCoeffsParameters)
		a2 := normScaling(&o.CoeffsToSlotsParameters, &r.CoeffsToSlotsParameters)
		approx = a1 || a2
	}
	if approx {
		rec.Class("scaling-compared-to-2^-52")
	}
	if d := deepDiff(orig, recv); d != "" {
		return fail("C08:literal:"+kind+":"+state+":differs"+diffField(d), "%s after decoding %s", d, string(b))
	}
	b2, err := enc(recv)
	if err != nil || (!approx && !bytes.Equal(b, b2)) {
		return fail("C08:literal:"+kind+":re-encoding-differs", "err=%v: %s vs %s", err, string(b), string(b2))
	}
	if eq, ok := libEqual(orig, recv); ok && !eq {
		if self, _ := libEqual(orig, orig); self {
			return fail("C08:literal:"+kind+":Equal-false", "structurally identical but Equal is false")
		}
	}
	return nil
}

// normScaling replaces r.Scaling by o.Scaling when both are set and agree to a relative 2^-52; it reports whether the
// two were not bit-identical.
func normScaling(o, r *dft.MatrixLiteral) bool {
	if o.Scaling == nil || r.Scaling == nil || o.Scaling.Cmp(r.Scaling) == 0 {
		return false
	}
	diff := new(big.Float).SetPrec(256).Sub(o.Scaling, r.Scaling)
	diff.Abs(diff)
	bound := new(big.Float).SetPrec(256).Abs(o.Scaling)
	bound.SetMantExp(bound, -52)
	if diff.Cmp(bound) <= 0 {
		r.Scaling = new(big.Float).Copy(o.Scaling)
		return true
	}
	return false
}

func newLike(v any) any {
	switch v.(type) {
	case *bootstrapping.ParametersLiteral:
		return &bootstrapping.ParametersLiteral{}
	case *bootstrapping.Parameters:
		return &bootstrapping.Parameters{}
	case *dft.MatrixLiteral:
		return &dft.MatrixLiteral{}
	case *mod1.ParametersLiteral:
		return &mod1.ParametersLiteral{}
	case *ring.Ring:
		return &ring.Ring{}
	case *rlwe.ParametersLiteral:
		return &rlwe.ParametersLiteral{}
	case *bgv.ParametersLiteral:
		return &bgv.ParametersLiteral{}
	case *ckks.ParametersLiteral:
		return &ckks.ParametersLiteral{}
	case *ring.Type:
		return new(ring.Type)
	}
	panic("newLike: unknown type")
}

func runLiteral(c LiteralCase, rec *h.Rec) error {
	rec.Class("kind=" + c.Kind)
	rec.Classf("json=%v", c.JSON)
	rec.Classf("dirty=%v", c.Dirty)
	var orig, recv any
	var cls string
	var err error
	build := func(seed uint64) (any, string, error) {
		switch c.Kind {
		case "bootstrapping.ParametersLiteral":
			v, s := genBtpLiteral(seed)
			return v, s, nil
		case "bootstrapping.Parameters":
			return genBtpParams(seed)
		case "dft.MatrixLiteral":
			v, s := genMatrixLiteral(seed)
			return v, s, nil
		case "mod1.ParametersLiteral":
			v, s := genMod1Literal(seed)
			return v, s, nil
		case "ring.Ring":
			return genRing(seed)
		case "ring.Type":
			v := ring.Type(seed % 2)
			return &v, v.String(), nil
		case "rlwe.ParametersLiteral":
			v, s := genRlweLiteral(seed)
			return &v, s, nil
		case "bgv.ParametersLiteral":
			l, s := genRlweLiteral(seed)
			return &bgv.ParametersLiteral{LogN: l.LogN, LogNthRoot: l.LogNthRoot, Q: l.Q, P: l.P, LogQ: l.LogQ, LogP: l.LogP, Xs: l.Xs, Xe: l.Xe, PlaintextModulus: 65537}, s, nil
		case "ckks.ParametersLiteral":
			l, s := genRlweLiteral(seed)
			return &ckks.ParametersLiteral{LogN: l.LogN, LogNthRoot: l.LogNthRoot, Q: l.Q, P: l.P, LogQ: l.LogQ, LogP: l.LogP, Xs: l.Xs, Xe: l.Xe, RingType: l.RingType, LogDefaultScale: 20 + int(seed%30)}, s, nil
		}
		return nil, "", fmt.Errorf("unknown kind %q", c.Kind)
	}
	if orig, cls, err = build(c.Seed); err != nil {
		return h.Failf("C08:harness:literal-build", "%s: %v", c.Kind, err)
	}
	rec.Class(c.Kind + ":" + cls)
	if c.Dirty {
		if recv, _, err = build(c.DSeed); err != nil {
			return h.Failf("C08:harness:literal-build", "%s: %v", c.Kind, err)
		}
	} else {
		recv = newLike(orig)
	}
	if err := litRoundTrip(c.Kind, orig, recv, c, rec); err != nil {
		return err
	}
	if c.Dirty || c.Trunc >= 0 {
		rec.NonTrivial(fmt.Sprintf("%s;%s;json=%v;dirty=%v;trunc=%v", c.Kind, cls, c.JSON, c.Dirty, c.Trunc >= 0))
	}
	return nil
}

var propLiteral = h.NewProp("TestPropLiteral", h.Budget{Quick: 800, Thorough: 24000}, genLiteral, runLiteral)

func TestPropLiteral(t *testing.T) { propLiteral.Check(t) }
