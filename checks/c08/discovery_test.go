package c08

import (
	"go/ast"
	"go/parser"
	"go/token"
	"os"
	"path/filepath"
	"sort"
	"strings"

	"verif/internal/h"
)

// Discovery: a syntactic scan of the lattigo sources (go/parser; go/packages is not available offline) that lists every
// exported type whose method set - own methods plus methods promoted from embedded struct fields - contains
// WriteTo+ReadFrom, MarshalBinary+UnmarshalBinary or MarshalJSON+UnmarshalJSON, and reports the ones no property of this
// package generates. The result goes into the evidence (extra "unregistered_types"); it is a warning, not a failure.

type discType struct {
	own      map[string]bool // methods declared on the type itself
	methods  map[string]bool
	embeds   []string // qualified names of embedded types
	exported bool
}

func baseName(t string) string {
	if i := strings.Index(t, "["); i >= 0 {
		t = t[:i]
	}
	return t
}

func typeExprName(pkg string, e ast.Expr) string {
	switch x := e.(type) {
	case *ast.StarExpr:
		return typeExprName(pkg, x.X)
	case *ast.Ident:
		return pkg + "." + x.Name
	case *ast.SelectorExpr:
		if id, ok := x.X.(*ast.Ident); ok {
			return id.Name + "." + x.Sel.Name // import alias == package name for all lattigo packages
		}
	case *ast.IndexExpr:
		return typeExprName(pkg, x.X)
	case *ast.IndexListExpr:
		return typeExprName(pkg, x.X)
	}
	return ""
}

func discover(repo string) (serializable []string, ownCodec map[string]bool, err error) {
	ownCodec = map[string]bool{}
	types := map[string]*discType{}
	get := func(n string) *discType {
		if types[n] == nil {
			types[n] = &discType{methods: map[string]bool{}, own: map[string]bool{}}
		}
		return types[n]
	}
	fset := token.NewFileSet()
	err = filepath.Walk(repo, func(path string, info os.FileInfo, err error) error {
		if err != nil {
			return nil
		}
		if info.IsDir() {
			if n := info.Name(); n == ".git" || n == "examples" || n == "testdata" {
				return filepath.SkipDir
			}
			return nil
		}
		if !strings.HasSuffix(path, ".go") || strings.HasSuffix(path, "_test.go") {
			return nil
		}
		f, perr := parser.ParseFile(fset, path, nil, parser.SkipObjectResolution)
		if perr != nil {
			return nil
		}
		pkg := f.Name.Name
		for _, d := range f.Decls {
			switch d := d.(type) {
			case *ast.FuncDecl:
				if d.Recv == nil || len(d.Recv.List) != 1 {
					continue
				}
				if n := typeExprName(pkg, d.Recv.List[0].Type); n != "" {
					get(n).methods[d.Name.Name] = true
					get(n).own[d.Name.Name] = true
				}
			case *ast.GenDecl:
				for _, s := range d.Specs {
					ts, ok := s.(*ast.TypeSpec)
					if !ok {
						continue
					}
					t := get(pkg + "." + ts.Name.Name)
					t.exported = ts.Name.IsExported()
					if st, ok := ts.Type.(*ast.StructType); ok {
						for _, fld := range st.Fields.List {
							if len(fld.Names) == 0 {
								if n := typeExprName(pkg, fld.Type); n != "" {
									t.embeds = append(t.embeds, n)
								}
							}
						}
					}
				}
			}
		}
		return nil
	})
	// promote methods of embedded types to a fixpoint
	for changed := true; changed; {
		changed = false
		for _, t := range types {
			for _, e := range t.embeds {
				if et := types[e]; et != nil {
					for m := range et.methods {
						if !t.methods[m] {
							t.methods[m] = true
							changed = true
						}
					}
				}
			}
		}
	}
	for n, t := range types {
		m := t.methods
		if t.exported && ((m["WriteTo"] && m["ReadFrom"]) || (m["MarshalBinary"] && m["UnmarshalBinary"]) || (m["MarshalJSON"] && m["UnmarshalJSON"])) {
			serializable = append(serializable, n)
			o := t.own
			// the type declares at least one of the codec methods itself (not only through an embedded field)
			ownCodec[n] = o["WriteTo"] || o["ReadFrom"] || o["MarshalBinary"] || o["UnmarshalBinary"] || o["MarshalJSON"] || o["UnmarshalJSON"]
		}
	}
	sort.Strings(serializable)
	return
}

// coveredTypes are the types some property of this package generates values of.
func coveredTypes() map[string]bool {
	c := map[string]bool{"rlwe.Scale": true, "bgv.Parameters": true, "ckks.Parameters": true}
	for _, n := range regNames {
		c[baseName(n)] = true
	}
	for _, n := range literalKinds {
		c[n] = true
	}
	return c
}

// recordDiscovery stores the registry audit in the evidence of the given prop.
func recordDiscovery(prop string) {
	repo := os.Getenv("VERIF_REPO")
	if repo == "" {
		repo = "/repo"
	}
	all, own, err := discover(repo)
	if err != nil {
		h.SetExtra(prop, "discovery_error", err.Error())
		return
	}
	cov := coveredTypes()
	missing, promoted := []string{}, []string{}
	for _, n := range all {
		switch {
		case cov[n]:
		case own[n]:
			missing = append(missing, n)
		default:
			promoted = append(promoted, n)
		}
	}
	h.SetExtra(prop, "discovered_serializable_types", len(all))
	h.SetExtra(prop, "unregistered_types", missing)                        // have a codec of their own and are not generated
	h.SetExtra(prop, "unregistered_types_promoted_methods_only", promoted) // only embed a serializable type
}
