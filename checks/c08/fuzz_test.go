package c08

import (
	"encoding/json"
	"fmt"
	"os"
	"os/exec"
	"path/filepath"
	"regexp"
	"strconv"
	"strings"
	"testing"
	"time"

	"verif/internal/h"

	"pgregory.net/rapid"
)

// Byte-level decoding of arbitrary input. Two drivers share one oracle (judgeDamaged):
//   - FuzzDecode, a native go fuzz target (coverage guided), seeded with one valid encoding per registered type;
//   - TestPropNativeFuzz, which (a) in every tier runs a few rapid-generated multi-byte damages so that the FuzzCase
//     replay format is exercised, and (b) in the thorough tier, on shard 0, executes
//     `go test -run=^$ -fuzz=^FuzzDecode$ -fuzztime=...` in this package and turns a crasher into a FuzzCase replay.

// FuzzCase is the replay form of a fuzz input: raw bytes decoded as the given registered type.
type FuzzCase struct {
	T      string `json:"t"`
	Data   []byte `json:"data"`   // base64 in JSON
	Reader string `json:"reader"` // "buffer" | "unmarshal" | "bufio"
}

// seedSpec: the fixed parameters the seed corpus is built with (N=16, two Q primes, one P prime).
func seedSpec() h.RLWESpec {
	return h.RLWESpec{LogN: 4, NTT: true, Xs: h.DefaultXs, Xe: h.DefaultXe,
		Q: append(h.Primes(30, 32, 1, false), h.Primes(40, 32, 1, false)...), P: h.Primes(45, 32, 1, false)}
}

// validEncoding returns a valid encoding of a value of the registered type.
func validEncoding(T string, seed uint64, k [4]int) ([]byte, error) {
	p, err := seedSpec().Build()
	if err != nil {
		return nil, err
	}
	_, b, err := encode(p, ObjSpec{T: T, Seed: seed, K: k})
	return b, err
}

func rawReq(c FuzzCase) DecodeReq {
	r := ReaderSpec{Kind: c.Reader, Size: 4096, Chunk: ChunkSpec{Mode: "all"}}
	if r.Kind == "" {
		r.Kind = "buffer"
	}
	return DecodeReq{RawType: c.T, Raw: c.Data, Reader: r, Trunc: -1, Corrupt: &CorruptSpec{}}
}

func runFuzzCase(c FuzzCase, rec *h.Rec) error {
	if registry[c.T] == nil {
		return h.Failf("C08:harness", "unknown type %q", c.T)
	}
	rec.Class("type=" + c.T)
	res := inChild(rawReq(c))
	if res.Err != "" {
		return h.Failf("C08:harness", "%s", res.Err)
	}
	if err := judgeDamaged(c.T, fmt.Sprintf("%s, %d raw bytes, reader %s", c.T, len(c.Data), c.Reader), res, rec); err != nil {
		return err
	}
	rec.NonTrivial(c.T + ";" + c.Reader)
	return nil
}

// genFuzzCase: a valid encoding with 1-4 drawn byte edits, truncations or appended bytes.
func genFuzzCase(t *rapid.T) FuzzCase {
	var c FuzzCase
	c.T = rapid.SampledFrom(regNames).Draw(t, "type")
	c.Reader = rapid.SampledFrom([]string{"buffer", "unmarshal", "bufio"}).Draw(t, "reader")
	var k [4]int
	for i := range k {
		k[i] = rapid.IntRange(0, 11).Draw(t, "k")
	}
	b, err := validEncoding(c.T, rapid.Uint64().Draw(t, "seed"), k)
	if err != nil {
		t.Fatalf("seed encoding of %s: %v", c.T, err)
	}
	b = append([]byte(nil), b...)
	for i, n := 0, rapid.IntRange(1, 4).Draw(t, "edits"); i < n && len(b) > 0; i++ {
		switch rapid.IntRange(0, 5).Draw(t, "edit") {
		case 0:
			b = b[:rapid.IntRange(0, len(b)-1).Draw(t, "cut")]
		case 1:
			b = append(b, byte(rapid.IntRange(0, 255).Draw(t, "extra")))
		default:
			pos := rapid.IntRange(0, len(b)-1).Draw(t, "pos")
			if rapid.Bool().Draw(t, "early") && len(b) > 48 {
				pos %= 48
			}
			b[pos] = byte(rapid.IntRange(0, 255).Draw(t, "val"))
		}
	}
	c.Data = b
	return c
}

var propNativeFuzz = h.NewProp("TestPropNativeFuzz", h.Budget{Quick: 120, Thorough: 2400}, genFuzzCase, runFuzzCase)

// FuzzDecode is the native target. Each input first goes through the resource-limited child (a decoder that dies with
// an unrecoverable runtime error must not take the fuzz worker with it); inputs the child survives are decoded a second
// time in-process so that the coverage guidance sees the decoder.
func FuzzDecode(f *testing.F) {
	for i, T := range regNames {
		for _, k := range [][4]int{{0, 0, 0, 0}, {1, 1, 2, 1}, {3, 2, 3, 0}} {
			if b, err := validEncoding(T, uint64(i), k); err == nil {
				f.Add(byte(i), b)
			}
		}
	}
	f.Fuzz(func(t *testing.T, typeIdx byte, data []byte) {
		if len(data) > 1<<16 {
			return
		}
		c := FuzzCase{T: regNames[int(typeIdx)%len(regNames)], Data: data, Reader: "buffer"}
		req := rawReq(c)
		res := inChild(req)
		if res.Err != "" {
			t.Skip(res.Err)
		}
		if harnessOutcome(res) != nil {
			t.Skip(res.Died) // unjudgeable (overloaded machine, child killed from outside): never a crasher
		}
		rec := &h.Rec{}
		if err := judgeDamaged(c.T, fmt.Sprintf("%s, %d raw bytes", c.T, len(data)), res, rec); err != nil {
			t.Fatalf("%v", err)
		}
		if res.Died == "" && len(res.Steps) == 1 && res.Steps[0].Alloc < 8<<20 {
			runDecode(req)
		}
	})
}

var crasherRe = regexp.MustCompile(`(?m)^\s*Failing input written to (\S+)`)

// parseCorpusFile reads a go fuzz corpus file with the signature (byte, []byte).
func parseCorpusFile(path string) (byte, []byte, error) {
	raw, err := os.ReadFile(path)
	if err != nil {
		return 0, nil, err
	}
	lines := strings.Split(strings.TrimSpace(string(raw)), "\n")
	if len(lines) != 3 || !strings.HasPrefix(lines[0], "go test fuzz v1") {
		return 0, nil, fmt.Errorf("unexpected corpus file format")
	}
	inner := func(l, prefix string) (string, error) {
		l = strings.TrimSpace(l)
		if !strings.HasPrefix(l, prefix+"(") || !strings.HasSuffix(l, ")") {
			return "", fmt.Errorf("unexpected corpus line %q", l)
		}
		return l[len(prefix)+1 : len(l)-1], nil
	}
	bs, err := inner(lines[1], "byte")
	if err != nil {
		return 0, nil, err
	}
	var idx byte
	if r, _, _, e := strconv.UnquoteChar(strings.Trim(bs, "'"), '\''); e == nil {
		idx = byte(r)
	} else if v, e2 := strconv.ParseUint(bs, 0, 8); e2 == nil {
		idx = byte(v)
	} else {
		return 0, nil, fmt.Errorf("cannot parse %q", bs)
	}
	ds, err := inner(lines[2], "[]byte")
	if err != nil {
		return 0, nil, err
	}
	data, err := strconv.Unquote(ds)
	if err != nil {
		return 0, nil, err
	}
	return idx, []byte(data), nil
}

func fuzzTime() time.Duration {
	d := 10 * time.Minute
	if s := os.Getenv("C08_FUZZTIME"); s != "" {
		if v, err := time.ParseDuration(s); err == nil {
			return v
		}
	}
	if s := os.Getenv("VERIF_SCALE"); s != "" {
		if f, err := strconv.ParseFloat(s, 64); err == nil && f > 0 {
			d = time.Duration(float64(d) * f)
		}
	}
	if d < 5*time.Second {
		d = 5 * time.Second
	}
	return d
}

// runNativeFuzz executes the go fuzz engine on FuzzDecode; it returns the replay file of a crasher ("" if none).
func runNativeFuzz(t *testing.T) {
	root := h.Root()
	pkg := "./checks/c08"
	args := []string{"test", "-run=^$", "-fuzz=^FuzzDecode$", "-fuzztime=" + fuzzTime().String(), "-parallel=4", "-tags", "verif", "-vet=off"}
	if repo := os.Getenv("VERIF_REPO"); repo != "" && repo != "/repo" {
		// scratch copy of lattigo: temporary modfile whose replace points at it (as the driver does for the build)
		mod, err := os.ReadFile(filepath.Join(root, "go.mod"))
		if err != nil {
			t.Fatalf("go.mod: %v", err)
		}
		mf := filepath.Join(root, ".run", fmt.Sprintf("c08-fuzz-%d.mod", os.Getpid()))
		_ = os.MkdirAll(filepath.Dir(mf), 0o755)
		_ = os.WriteFile(mf, []byte(strings.Replace(string(mod), "=> /repo", "=> "+repo, 1)), 0o644)
		if sum, err := os.ReadFile(filepath.Join(root, "go.sum")); err == nil {
			_ = os.WriteFile(strings.TrimSuffix(mf, ".mod")+".sum", sum, 0o644)
		}
		defer os.Remove(mf)
		defer os.Remove(strings.TrimSuffix(mf, ".mod") + ".sum")
		args = append(args, "-modfile", mf)
	}
	args = append(args, pkg)
	cmd := exec.Command("go", args...)
	cmd.Dir = root
	env := []string{}
	for _, e := range os.Environ() {
		// the evidence file, shard numbers and GOMAXPROCS of this process are not for the nested run
		if strings.HasPrefix(e, "VERIF_EVIDENCE_OUT=") || strings.HasPrefix(e, "GOMAXPROCS=") || strings.HasPrefix(e, "GOFLAGS=") {
			continue
		}
		env = append(env, e)
	}
	cmd.Env = append(env, "GOFLAGS=-mod=mod", "GOPROXY=off", "GOSUMDB=off", "GOTOOLCHAIN=local", "VERIF_ROOT="+root)
	start := time.Now()
	out, err := cmd.CombinedOutput()
	h.SetExtra("TestPropNativeFuzz", "native_fuzz", map[string]any{"fuzztime": fuzzTime().String(), "wall_s": time.Since(start).Seconds(), "tail": lastLines(string(out), 4)})
	if err == nil {
		return
	}
	m := crasherRe.FindStringSubmatch(string(out))
	if m == nil {
		// not a crasher: build problem, missing toolchain, ... => inconclusive, never a violation
		t.Logf("native fuzzing could not run (inconclusive): %v\n%s", err, lastLines(string(out), 30))
		h.SetExtra("TestPropNativeFuzz", "native_fuzz_inconclusive", lastLines(string(out), 10))
		return
	}
	crasher := m[1]
	if !filepath.IsAbs(crasher) {
		crasher = filepath.Join(root, "checks", "c08", crasher)
	}
	idx, data, perr := parseCorpusFile(crasher)
	if perr != nil {
		t.Errorf("native fuzzing found a crasher (%s) that could not be converted: %v\n%s", crasher, perr, lastLines(string(out), 30))
		return
	}
	c := FuzzCase{T: regNames[int(idx)%len(regNames)], Data: data, Reader: "buffer"}
	// only a saved crasher whose semantic failure reproduces here is a violation; a worker that was killed or timed
	// out by the fuzz engine (overloaded machine) leaves a "crasher" that passes on re-execution
	ferr, ok := runFuzzCase(c, &h.Rec{}).(*h.Failure)
	if !ok || strings.HasPrefix(ferr.Key, "C08:harness") {
		_ = os.Remove(crasher)
		h.SetExtra("TestPropNativeFuzz", "native_fuzz_inconclusive", "the fuzz engine saved an input that does not reproduce a failure: "+lastLines(string(out), 6))
		t.Logf("native fuzzing: saved input does not reproduce (inconclusive)\n%s", lastLines(string(out), 20))
		return
	}
	key, msg := ferr.Key, ferr.Msg
	cj, _ := json.Marshal(c)
	rec := map[string]any{"property": "C08", "prop": "TestPropNativeFuzz", "key": key, "msg": msg, "case": json.RawMessage(cj)}
	b, _ := json.MarshalIndent(rec, "", " ")
	name := "fuzz-" + filepath.Base(crasher) + ".json"
	file := filepath.Join(os.Getenv("VERIF_FAIL_DIR"), name)
	if os.Getenv("VERIF_FAIL_DIR") == "" {
		file = filepath.Join(root, ".run", "C08", "fail", name)
	}
	_ = os.MkdirAll(filepath.Dir(file), 0o755)
	_ = os.WriteFile(file, b, 0o644)
	// crashers become regression replays
	_ = os.WriteFile(filepath.Join(root, "replays", "C08", name), b, 0o644)
	_ = os.Remove(crasher) // the corpus entry would make every later `go test` of the package fail before triage
	fmt.Printf("FAILCASE property=%s prop=%s key=%q file=%s\n", "C08", "TestPropNativeFuzz", key, file)
	t.Errorf("native fuzzing: %s: %s", key, msg)
}

func lastLines(s string, n int) string {
	l := strings.Split(strings.TrimRight(s, "\n"), "\n")
	if len(l) > n {
		l = l[len(l)-n:]
	}
	return strings.Join(l, "\n")
}

func TestPropNativeFuzz(t *testing.T) {
	propNativeFuzz.Check(t)
	stopChild()
	if h.Thorough() && os.Getenv("VERIF_SHARD") == "0" && !t.Failed() {
		runNativeFuzz(t)
	}
}
