package c08

import (
	"bufio"
	"bytes"
	"encoding/json"
	"fmt"
	"io"
	"os"
	"os/exec"
	"runtime"
	"runtime/debug"
	"strconv"
	"strings"
	"sync"
	"syscall"
	"time"

	"verif/internal/h"
)

// Decoding damaged input (and, on this tree, some undamaged input) can end in `fatal error: stack overflow` or
// `fatal error: out of memory`, which cannot be recovered in-process. Such experiments run in a child: the test
// binary re-executed with C08_CHILD=1, an address-space limit and a small maximum stack. It serves DecodeReq lines on
// stdin and answers DecodeRes lines on stdout; when it dies the parent records the first line of the fatal message and
// starts a new one.

const (
	childAS       = 256 << 20 // address space the child may add to what it has at start (RLIMIT_AS)
	childMaxStack = 16 << 20  // a decoder that needs more than 16 MiB of stack for a < 1 MiB input is looping
)

func childMain() {
	debug.SetMaxStack(childMaxStack)
	// the Go runtime reserves address space at start-up: the limit is what the process has now plus childAS
	as := uint64(childAS) + vmSize()
	lim := syscall.Rlimit{Cur: as, Max: as}
	_ = syscall.Setrlimit(syscall.RLIMIT_AS, &lim)
	in := bufio.NewReaderSize(os.Stdin, 1<<20)
	out := bufio.NewWriter(os.Stdout)
	for {
		line, err := in.ReadBytes('\n')
		if len(line) > 0 {
			var req DecodeReq
			var res DecodeRes
			if e := json.Unmarshal(line, &req); e != nil {
				res.Err = "child: bad request: " + e.Error()
			} else {
				res = runDecode(req)
			}
			b, _ := json.Marshal(res)
			out.Write(b)
			out.WriteByte('\n')
			out.Flush()
		}
		if err != nil {
			return
		}
	}
}

// vmSize returns the current virtual size of the process in bytes (a default when /proc is unavailable).
func vmSize() uint64 {
	b, err := os.ReadFile("/proc/self/statm")
	if err != nil {
		return 2 << 30
	}
	var pages uint64
	fmt.Sscan(string(b), &pages)
	return pages * uint64(os.Getpagesize())
}

type childProc struct {
	cmd    *exec.Cmd
	stdin  io.WriteCloser
	stdout *bufio.Reader
	stderr *bytes.Buffer
}

var (
	childMu sync.Mutex
	child   *childProc
	// childSpawns / childDeaths are reported in the evidence notes
	childSpawns, childDeaths int
)

func startChild() (*childProc, error) {
	cmd := exec.Command(os.Args[0])
	cmd.Env = append(os.Environ(), "C08_CHILD=1", "GOMAXPROCS=2", "GOTRACEBACK=single")
	stdin, err := cmd.StdinPipe()
	if err != nil {
		return nil, err
	}
	stdout, err := cmd.StdoutPipe()
	if err != nil {
		return nil, err
	}
	c := &childProc{cmd: cmd, stdin: stdin, stdout: bufio.NewReaderSize(stdout, 1<<20), stderr: &bytes.Buffer{}}
	cmd.Stderr = c.stderr
	if err := cmd.Start(); err != nil {
		return nil, err
	}
	childSpawns++
	return c, nil
}

func stopChild() {
	childMu.Lock()
	defer childMu.Unlock()
	if child != nil {
		child.stdin.Close()
		done := make(chan struct{})
		go func() { child.cmd.Wait(); close(done) }()
		select {
		case <-done:
		case <-time.After(2 * time.Second):
			child.cmd.Process.Kill()
			<-done
		}
		child = nil
	}
}

func fatalSummary(stderr string) string {
	for _, l := range strings.Split(stderr, "\n") {
		if strings.HasPrefix(l, "fatal error:") || strings.HasPrefix(l, "runtime: goroutine stack exceeds") || strings.HasPrefix(l, "panic:") {
			return strings.TrimSpace(l)
		}
	}
	if len(stderr) > 200 {
		stderr = stderr[:200]
	}
	return strings.TrimSpace(stderr)
}

// fatalSite extracts the first lattigo frame of the fatal traceback.
func fatalSite(stderr string) string {
	for _, l := range strings.Split(stderr, "\n") {
		if i := strings.Index(l, "tuneinsight/lattigo/v6/"); i >= 0 && !strings.HasPrefix(l, "\t") {
			s := l[i+len("tuneinsight/lattigo/v6/"):]
			if j := strings.Index(s, "("); j >= 0 {
				// keep "pkg.Func" (generic instantiations print as Func[...])
				k := strings.LastIndex(s, "(")
				if strings.Contains(s[:k], ".") {
					s = s[:k]
				}
			}
			return s
		}
	}
	return ""
}

// Wall-clock policy (a slow machine must never turn into a violation):
//   - the worst generated case decodes in well under 0.5 s on an idle machine (a 256 MiB allocation is the slowest);
//     the FIRST timeout is 60 s (> 100x that);
//   - on expiry the parent keeps waiting, up to childHardLimit in total; an answer that arrives in that time is used
//     normally (DecodeRes.Slow, class "slow-but-answered");
//   - only a child that is still silent at the hard limit is killed. If the 1-minute load average then exceeds
//     3 x NumCPU the outcome is a harness outcome (key C08:harness:child-timeout-under-load => INCONCLUSIVE), else it is a
//     hang finding;
//   - after the first hard-limit expiry in a process later requests fail fast (same outcome) after
//     max(5 s, 20 x the slowest answer seen so far), so that shrinking and the remaining budget stay within the wall
//     ceiling of the driver;
//   - a child that dies WITHOUT a Go runtime message on stderr was killed from outside (OOM killer, operator): the
//     request is repeated once in a fresh child and, if the death repeats, reported under C08:harness:child-killed;
//     a death WITH a runtime message is repeated once as well and only counts when it reproduces.
const (
	childSoftTimeout = 60 * time.Second
	childHardLimit   = 480 * time.Second
)

var (
	childHangSeen   bool          // a hard-limit expiry happened in this process
	childSlowestAns time.Duration // slowest answered request so far
)

func loadAverage1() float64 {
	b, err := os.ReadFile("/proc/loadavg")
	if err != nil {
		return 0
	}
	var l float64
	fmt.Sscan(string(b), &l)
	return l
}

// overloaded: 1-minute load average above 3 x NumCPU (the factor can be changed with C08_LOAD_FACTOR to exercise the
// hang path on a busy machine).
func overloaded() bool {
	f := 3.0
	if v, err := strconv.ParseFloat(os.Getenv("C08_LOAD_FACTOR"), 64); err == nil && v > 0 {
		f = v
	}
	return loadAverage1() > f*float64(runtime.NumCPU())
}

// preJudge books a slow answer and returns the harness failure, if any, that makes the experiment unjudgeable.
func preJudge(res DecodeRes, rec *h.Rec) error {
	if res.Slow {
		rec.Class("slow-but-answered")
		rec.Note("slow", res.Note)
	}
	return harnessOutcome(res)
}

// harnessOutcome returns a C08:harness failure when the experiment could not be judged (timeout under load, child
// killed from outside); nil otherwise.
func harnessOutcome(res DecodeRes) error {
	switch {
	case strings.HasPrefix(res.Died, "timeout-under-load"):
		return h.Failf("C08:harness:child-timeout-under-load", "%s", res.Died)
	case strings.HasPrefix(res.Died, "killed-externally"):
		return h.Failf("C08:harness:child-killed", "%s", res.Died)
	}
	return nil
}

// inChild runs the experiment in the child process (see the wall-clock policy above).
func inChild(req DecodeReq) DecodeRes {
	childMu.Lock()
	defer childMu.Unlock()
	res := inChildOnce(req)
	if res.Died != "" && !strings.HasPrefix(res.Died, "hang") && !strings.HasPrefix(res.Died, "timeout-under-load") {
		// a death must reproduce in a fresh child before it is blamed on the decoder
		res2 := inChildOnce(req)
		if res2.Died == "" {
			res2.Slow = true
			res2.Note = "first attempt died (" + res.Died + "), the repetition answered"
			return res2
		}
		if strings.HasPrefix(res2.Died, "killed-externally") && !strings.HasPrefix(res.Died, "killed-externally") {
			return res // keep the death that carries a runtime message
		}
		return res2
	}
	return res
}

func inChildOnce(req DecodeReq) DecodeRes {
	var err error
	if child == nil {
		if child, err = startChild(); err != nil {
			return DecodeRes{Err: "cannot start child: " + err.Error()}
		}
	}
	c := child
	b, _ := json.Marshal(req)
	b = append(b, '\n')
	type reply struct {
		line []byte
		err  error
	}
	ch := make(chan reply, 1)
	go func() {
		if _, e := c.stdin.Write(b); e != nil {
			ch <- reply{nil, e}
			return
		}
		l, e := c.stdout.ReadBytes('\n')
		ch <- reply{l, e}
	}()
	soft, hard := childSoftTimeout, childHardLimit
	if childHangSeen {
		// fail fast after the first full wait
		hard = 20 * childSlowestAns
		if hard < 5*time.Second {
			hard = 5 * time.Second
		}
		if hard > childSoftTimeout {
			hard = childSoftTimeout
		}
		soft = hard
	}
	start := time.Now()
	var rp reply
	hung, slow := false, false
	select {
	case rp = <-ch:
	case <-time.After(soft):
		slow = true
		select {
		case rp = <-ch:
		case <-time.After(hard - soft):
			hung = true
			c.cmd.Process.Kill()
			rp = <-ch
		}
	}
	waited := time.Since(start)
	if !hung && rp.err == nil && len(rp.line) > 0 {
		var res DecodeRes
		if e := json.Unmarshal(rp.line, &res); e == nil {
			if waited > childSlowestAns {
				childSlowestAns = waited
			}
			if slow {
				res.Slow = true
				res.Note = fmt.Sprintf("answered after %v (first timeout %v)", waited.Round(time.Second), soft)
			}
			return res
		} else {
			rp.err = e
		}
	}
	// the child is gone
	c.stdin.Close()
	c.cmd.Wait()
	child = nil
	childDeaths++
	se := c.stderr.String()
	var res DecodeRes
	res.Rest = -1
	switch {
	case hung:
		load := loadAverage1()
		if overloaded() {
			res.Died = fmt.Sprintf("timeout-under-load: no answer within %v, 1-minute load average %.0f on %d CPUs", waited.Round(time.Second), load, runtime.NumCPU())
		} else {
			res.Died = fmt.Sprintf("hang: no answer within %v (1-minute load average %.1f on %d CPUs)", waited.Round(time.Second), load, runtime.NumCPU())
		}
		childHangSeen = true
	default:
		res.Died = fatalSummary(se)
		if res.Died == "" || !(strings.Contains(res.Died, "fatal error") || strings.Contains(res.Died, "stack exceeds") || strings.HasPrefix(res.Died, "panic:")) {
			// no Go runtime message: the process was killed from outside
			res.Died = "killed-externally: the child ended without a runtime message (" + fmt.Sprint(rp.err) + "; stderr: " + res.Died + ")"
			break
		}
		if s := fatalSite(se); s != "" {
			res.Died += " @ " + s
		}
	}
	return res
}

// diedClass maps the fatal message to a stable word for failure keys.
func diedClass(d string) string {
	switch {
	case strings.Contains(d, "stack overflow") || strings.Contains(d, "stack exceeds"):
		return "fatal-stack-overflow"
	case strings.Contains(d, "out of memory") || strings.Contains(d, "cannot allocate"):
		return "fatal-out-of-memory"
	case strings.HasPrefix(d, "hang"):
		return "hang"
	}
	return "child-died"
}
