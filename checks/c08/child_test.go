package c08

import (
	"bufio"
	"bytes"
	"encoding/json"
	"fmt"
	"io"
	"os"
	"os/exec"
	"runtime/debug"
	"strings"
	"sync"
	"syscall"
	"time"
)

// Decoding damaged input (and, on this tree, some undamaged input) can end in `fatal error: stack overflow` or
// `fatal error: out of memory`, which cannot be recovered in-process. Such experiments run in a child: the test
// binary re-executed with C08_CHILD=1, an address-space limit and a small maximum stack. It serves DecodeReq lines on
// stdin and answers DecodeRes lines on stdout; when it dies the parent records the first line of the fatal message and
// starts a new one.

const (
	childAS       = 256 << 20 // address space the child may add to what it has at start (RLIMIT_AS)
	childMaxStack = 16 << 20  // a decoder that needs more than 16 MiB of stack for a < 1 MiB input is looping
	childTimeout  = 30 * time.Second
)

func childMain() {
	debug.SetMaxStack(childMaxStack)
	// the Go runtime reserves address space at start-up: the limit is what the process has now plus childAS
	as := uint64(childAS) + vmSize()
	lim := syscall.Rlimit{Cur: as, Max: as}
	_ = syscall.Setrlimit(syscall.RLIMIT_AS, &lim)
	in := bufio.NewReaderSize(os.Stdin, 1<<20)
	out := bufio.NewWriter(os.Stdout)
	for {
		line, err := in.ReadBytes('\n')
		if len(line) > 0 {
			var req DecodeReq
			var res DecodeRes
			if e := json.Unmarshal(line, &req); e != nil {
				res.Err = "child: bad request: " + e.Error()
			} else {
				res = runDecode(req)
			}
			b, _ := json.Marshal(res)
			out.Write(b)
			out.WriteByte('\n')
			out.Flush()
		}
		if err != nil {
			return
		}
	}
}

// vmSize returns the current virtual size of the process in bytes (a default when /proc is unavailable).
func vmSize() uint64 {
	b, err := os.ReadFile("/proc/self/statm")
	if err != nil {
		return 2 << 30
	}
	var pages uint64
	fmt.Sscan(string(b), &pages)
	return pages * uint64(os.Getpagesize())
}

type childProc struct {
	cmd    *exec.Cmd
	stdin  io.WriteCloser
	stdout *bufio.Reader
	stderr *bytes.Buffer
}

var (
	childMu sync.Mutex
	child   *childProc
	// childSpawns / childDeaths are reported in the evidence notes
	childSpawns, childDeaths int
)

func startChild() (*childProc, error) {
	cmd := exec.Command(os.Args[0])
	cmd.Env = append(os.Environ(), "C08_CHILD=1", "GOMAXPROCS=2", "GOTRACEBACK=single")
	stdin, err := cmd.StdinPipe()
	if err != nil {
		return nil, err
	}
	stdout, err := cmd.StdoutPipe()
	if err != nil {
		return nil, err
	}
	c := &childProc{cmd: cmd, stdin: stdin, stdout: bufio.NewReaderSize(stdout, 1<<20), stderr: &bytes.Buffer{}}
	cmd.Stderr = c.stderr
	if err := cmd.Start(); err != nil {
		return nil, err
	}
	childSpawns++
	return c, nil
}

func stopChild() {
	childMu.Lock()
	defer childMu.Unlock()
	if child != nil {
		child.stdin.Close()
		done := make(chan struct{})
		go func() { child.cmd.Wait(); close(done) }()
		select {
		case <-done:
		case <-time.After(2 * time.Second):
			child.cmd.Process.Kill()
			<-done
		}
		child = nil
	}
}

func fatalSummary(stderr string) string {
	for _, l := range strings.Split(stderr, "\n") {
		if strings.HasPrefix(l, "fatal error:") || strings.HasPrefix(l, "runtime: goroutine stack exceeds") || strings.HasPrefix(l, "panic:") {
			return strings.TrimSpace(l)
		}
	}
	if len(stderr) > 200 {
		stderr = stderr[:200]
	}
	return strings.TrimSpace(stderr)
}

// fatalSite extracts the first lattigo frame of the fatal traceback.
func fatalSite(stderr string) string {
	for _, l := range strings.Split(stderr, "\n") {
		if i := strings.Index(l, "tuneinsight/lattigo/v6/"); i >= 0 && !strings.HasPrefix(l, "\t") {
			s := l[i+len("tuneinsight/lattigo/v6/"):]
			if j := strings.Index(s, "("); j >= 0 {
				// keep "pkg.Func" (generic instantiations print as Func[...])
				k := strings.LastIndex(s, "(")
				if strings.Contains(s[:k], ".") {
					s = s[:k]
				}
			}
			return s
		}
	}
	return ""
}

// inChild runs the experiment in the child process.
func inChild(req DecodeReq) DecodeRes {
	childMu.Lock()
	defer childMu.Unlock()
	var err error
	if child == nil {
		if child, err = startChild(); err != nil {
			return DecodeRes{Err: "cannot start child: " + err.Error()}
		}
	}
	c := child
	b, _ := json.Marshal(req)
	b = append(b, '\n')
	type reply struct {
		line []byte
		err  error
	}
	ch := make(chan reply, 1)
	go func() {
		if _, e := c.stdin.Write(b); e != nil {
			ch <- reply{nil, e}
			return
		}
		l, e := c.stdout.ReadBytes('\n')
		ch <- reply{l, e}
	}()
	var rp reply
	hung := false
	select {
	case rp = <-ch:
	case <-time.After(childTimeout):
		hung = true
		c.cmd.Process.Kill()
		rp = <-ch
	}
	if rp.err == nil && len(rp.line) > 0 {
		var res DecodeRes
		if e := json.Unmarshal(rp.line, &res); e == nil {
			return res
		} else {
			rp.err = e
		}
	}
	// the child is gone
	c.stdin.Close()
	c.cmd.Wait()
	child = nil
	childDeaths++
	se := c.stderr.String()
	var res DecodeRes
	res.Rest = -1
	switch {
	case hung:
		res.Died = fmt.Sprintf("hang: no answer within %v", childTimeout)
	default:
		res.Died = fatalSummary(se)
		if res.Died == "" {
			res.Died = "child exited: " + fmt.Sprint(rp.err)
		}
		if s := fatalSite(se); s != "" {
			res.Died += " @ " + s
		}
	}
	return res
}

// diedClass maps the fatal message to a stable word for failure keys.
func diedClass(d string) string {
	switch {
	case strings.Contains(d, "stack overflow") || strings.Contains(d, "stack exceeds"):
		return "fatal-stack-overflow"
	case strings.Contains(d, "out of memory") || strings.Contains(d, "cannot allocate"):
		return "fatal-out-of-memory"
	case strings.HasPrefix(d, "hang"):
		return "hang"
	}
	return "child-died"
}
