package c08

import (
	"bytes"
	"encoding/json"
	"fmt"
	"testing"

	"verif/internal/h"

	"github.com/tuneinsight/lattigo/v6/core/rlwe"
	"github.com/tuneinsight/lattigo/v6/schemes/bgv"
	"github.com/tuneinsight/lattigo/v6/schemes/ckks"
	"pgregory.net/rapid"
)

// CodecCase covers the types that only have MarshalBinary/UnmarshalBinary and/or JSON codecs (no stream interface):
// rlwe.Scale, bgv.Parameters, ckks.Parameters.
type CodecCase struct {
	Kind     string     `json:"kind"` // "rlwe.Scale" | "bgv.Parameters" | "ckks.Parameters"
	Params   h.RLWESpec `json:"params"`
	T        uint64     `json:"t,omitempty"`
	LogScale int        `json:"logscale,omitempty"`
	Seed     uint64     `json:"seed"`
	Dirty    bool       `json:"dirty"`
	DSeed    uint64     `json:"dseed,omitempty"`
	JSON     bool       `json:"json"`           // JSON entry points instead of the binary ones
	Huge     bool       `json:"huge,omitempty"` // rlwe.Scale: a value outside the range of the fixed-size encoding
}

func genCodec(t *rapid.T) CodecCase {
	var c CodecCase
	c.Kind = rapid.SampledFrom([]string{"rlwe.Scale", "rlwe.Scale", "bgv.Parameters", "ckks.Parameters"}).Draw(t, "kind")
	c.Seed = rapid.Uint64().Draw(t, "seed")
	c.Dirty = rapid.Bool().Draw(t, "dirty")
	c.DSeed = rapid.Uint64().Draw(t, "dseed")
	c.JSON = rapid.Bool().Draw(t, "json")
	if c.Kind == "rlwe.Scale" {
		c.Huge = rapid.IntRange(0, 7).Draw(t, "huge") == 0
	}
	switch c.Kind {
	case "bgv.Parameters":
		c.Params = h.GenRLWESpec(t, h.RLWEOpts{MinLogN: 4, MaxLogN: 6, MinQ: 1, MaxQ: 3, MinP: 0, MaxP: 2, MinBits: 30, MaxBits: 60, DefaultDists: rapid.Bool().Draw(t, "dd")})
		c.Params.CI, c.Params.NTT = false, true
		avoid := map[uint64]bool{}
		for _, q := range append(append([]uint64{}, c.Params.Q...), c.Params.P...) {
			avoid[q] = true
		}
		c.T = h.GenPlainModulus(t, c.Params.LogN, rapid.IntRange(c.Params.LogN+2, 28).Draw(t, "tbits"), avoid)
	case "ckks.Parameters":
		c.Params = h.GenRLWESpec(t, h.RLWEOpts{MinLogN: 4, MaxLogN: 6, MinQ: 1, MaxQ: 3, MinP: 0, MaxP: 2, MinBits: 30, MaxBits: 60, AllowCI: true, DefaultDists: rapid.Bool().Draw(t, "dd")})
		c.Params.NTT = true
		c.LogScale = rapid.IntRange(10, 50).Draw(t, "logscale")
	}
	return c
}

func runCodec(c CodecCase, rec *h.Rec) error {
	rec.Class("kind=" + c.Kind)
	rec.Classf("json=%v", c.JSON)
	rec.Classf("dirty=%v", c.Dirty)
	switch c.Kind {
	case "rlwe.Scale":
		s, cls := genScale(&rngs{SplitMix: h.NewSplitMix(c.Seed), huge: c.Huge})
		rec.Class(cls)
		if c.Huge {
			// cannot be carried by the fixed-size encoding: both encoders must refuse it
			b1, e1 := s.MarshalBinary()
			b2, e2 := json.Marshal(s)
			if e1 == nil || e2 == nil {
				msg := fmt.Sprintf("scale %s: BinarySize()=%d, MarshalBinary: %d bytes err=%v, MarshalJSON: %d bytes err=%v", s.Value.Text('g', 6), s.BinarySize(), len(b1), e1, len(b2), e2)
				if rec.Known(scaleRangeKey, msg) {
					rec.Class("known=" + scaleRangeKey)
					return nil
				}
				return h.Failf(scaleRangeKey, "%s", msg)
			}
			rec.NonTrivial("scale;huge")
			return nil
		}
		var recv rlwe.Scale
		dcls := "fresh"
		if c.Dirty {
			recv, dcls = genScale(&rngs{SplitMix: h.NewSplitMix(c.DSeed)})
		}
		var b []byte
		var err error
		if c.JSON {
			if b, err = json.Marshal(s); err == nil {
				err = json.Unmarshal(b, &recv)
			}
		} else {
			if b, err = s.MarshalBinary(); err == nil {
				if len(b) != s.BinarySize() {
					return h.Failf("C08:size:rlwe.Scale:BinarySize!=len(MarshalBinary)", "BinarySize()=%d, len=%d for %s", s.BinarySize(), len(b), string(b))
				}
				err = recv.UnmarshalBinary(b)
			}
		}
		if err != nil {
			return h.Failf("C08:codec:rlwe.Scale:error", "%v", err)
		}
		if d := deepDiff(&s, &recv); d != "" {
			key := "C08:codec:rlwe.Scale:json:" + map[bool]string{false: "fresh", true: "dirty"}[c.Dirty] + ":differs" + diffField(d)
			if !c.JSON {
				key = "C08:codec:rlwe.Scale:UnmarshalBinary:no-effect"
			}
			msg := fmt.Sprintf("decoded %s into a %s receiver (%s): %s", string(b), dcls, map[bool]string{false: "binary", true: "json"}[c.JSON], d)
			if rec.Known(key, msg) {
				rec.Class("known=" + key)
			} else {
				return h.Failf(key, "%s", msg)
			}
		}
		if c.Dirty {
			rec.NonTrivial(fmt.Sprintf("scale;%s;into;%s;json=%v", cls, dcls, c.JSON))
		}
		return nil

	case "bgv.Parameters":
		p, err := h.BGVSpec{RLWESpec: c.Params, T: c.T}.Build()
		if err != nil {
			rec.Class("params-rejected")
			return nil
		}
		var recv bgv.Parameters
		if c.Dirty {
			recv, _ = bgv.NewParametersFromLiteral(bgv.ParametersLiteral{LogN: 5, LogQ: []int{30}, PlaintextModulus: 65537})
		}
		var b []byte
		if c.JSON {
			if b, err = json.Marshal(p); err == nil {
				err = json.Unmarshal(b, &recv)
			}
		} else {
			if b, err = p.MarshalBinary(); err == nil {
				err = recv.UnmarshalBinary(b)
			}
		}
		if err != nil {
			return h.Failf("C08:codec:bgv.Parameters:error", "%v (%s)", err, string(b))
		}
		if !p.Equal(&recv) {
			return h.Failf("C08:codec:bgv.Parameters:Equal-false", "%s", string(b))
		}
		if d := deepDiff(p.ParametersLiteral(), recv.ParametersLiteral()); d != "" {
			return h.Failf("C08:codec:bgv.Parameters:literal-differs", "%s (%s)", d, string(b))
		}
		b2, _ := recv.MarshalBinary()
		b1, _ := p.MarshalBinary()
		if !bytes.Equal(b1, b2) {
			return h.Failf("C08:codec:bgv.Parameters:re-encoding-differs", "%s vs %s", b1, b2)
		}
	case "ckks.Parameters":
		p, err := h.CKKSSpec{RLWESpec: c.Params, LogScale: c.LogScale}.Build()
		if err != nil {
			rec.Class("params-rejected")
			return nil
		}
		var recv ckks.Parameters
		if c.Dirty {
			recv, _ = ckks.NewParametersFromLiteral(ckks.ParametersLiteral{LogN: 5, LogQ: []int{40}, LogDefaultScale: 20})
		}
		var b []byte
		if c.JSON {
			if b, err = json.Marshal(p); err == nil {
				err = json.Unmarshal(b, &recv)
			}
		} else {
			if b, err = p.MarshalBinary(); err == nil {
				err = recv.UnmarshalBinary(b)
			}
		}
		if err != nil {
			return h.Failf("C08:codec:ckks.Parameters:error", "%v (%s)", err, string(b))
		}
		if !p.Equal(&recv) {
			return h.Failf("C08:codec:ckks.Parameters:Equal-false", "%s", string(b))
		}
		if d := deepDiff(p.ParametersLiteral(), recv.ParametersLiteral()); d != "" {
			return h.Failf("C08:codec:ckks.Parameters:literal-differs", "%s (%s)", d, string(b))
		}
		b2, _ := recv.MarshalBinary()
		b1, _ := p.MarshalBinary()
		if !bytes.Equal(b1, b2) {
			return h.Failf("C08:codec:ckks.Parameters:re-encoding-differs", "%s vs %s", b1, b2)
		}
	}
	if c.Dirty {
		rec.NonTrivial(fmt.Sprintf("%s;logN=%d;nQ=%d;nP=%d;ci=%v;json=%v;xs=%s", c.Kind, c.Params.LogN, len(c.Params.Q), len(c.Params.P), c.Params.CI, c.JSON, c.Params.Xs.Kind))
	}
	return nil
}

var propCodec = h.NewProp("TestPropCodec", h.Budget{Quick: 400, Thorough: 8000}, genCodec, runCodec)

func TestPropCodec(t *testing.T) { propCodec.Check(t) }
