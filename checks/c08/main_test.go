package c08

import (
	"os"
	"strings"
	"testing"

	"verif/internal/h"

	"pgregory.net/rapid"
)

func TestMain(m *testing.M) {
	if os.Getenv("C08_CHILD") == "1" {
		childMain()
		os.Exit(0)
	}
	// h.Main exits the process; the child (if any) sees EOF on its stdin and terminates by itself.
	h.Main(m, "C08")
}

func TestReplay(t *testing.T) { h.ReplayAll(t); stopChild() }

// genParams draws small RLWE parameters (N = 16..64, 1-3 Q primes, 0-2 P primes). Serialization does not depend on
// the arithmetic, only on degrees, levels and decomposition sizes.
func genParams(t *rapid.T) h.RLWESpec {
	return h.GenRLWESpec(t, h.RLWEOpts{MinLogN: 4, MaxLogN: 6, MinQ: 1, MaxQ: 3, MinP: 0, MaxP: 2, MinBits: 20, MaxBits: 60, DefaultDists: true})
}

func genObj(t *rapid.T, label string, typ string) ObjSpec {
	var s ObjSpec
	if typ == "" {
		typ = rapid.SampledFrom(regNames).Draw(t, label+"_type")
	}
	s.T = typ
	s.Seed = rapid.Uint64().Draw(t, label+"_seed")
	for i := range s.K {
		s.K[i] = rapid.IntRange(0, 11).Draw(t, label+"_k")
	}
	return s
}

// pathTail keeps the last two field names of a difference path (without indices): it names the stale/wrong field
// independently of the type that embeds it.
func pathTail(d string) string {
	d = diffField(d)
	d = strings.NewReplacer("[]", "", "{}", "").Replace(d)
	parts := strings.Split(strings.Trim(d, "."), ".")
	if len(parts) > 2 {
		parts = parts[len(parts)-2:]
	}
	return strings.Join(parts, ".")
}

// safeInProcess reports whether the experiment is known not to be able to end in an unrecoverable runtime error.
func safeInProcess(req DecodeReq) bool {
	if req.Trunc >= 0 || req.Corrupt != nil {
		return false
	}
	if req.Reader.Kind == "bufio" && req.Reader.Size%8 != 0 {
		return false
	}
	return true
}

func execDecode(req DecodeReq) DecodeRes {
	if safeInProcess(req) {
		return runDecode(req)
	}
	return inChild(req)
}
