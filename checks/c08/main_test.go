package c08

import (
	"fmt"
	"os"
	"strings"
	"testing"
	"time"

	"verif/internal/h"

	"pgregory.net/rapid"
)

func TestMain(m *testing.M) {
	if os.Getenv("C08_CHILD") == "1" {
		childMain()
		os.Exit(0)
	}
	// h.Main exits the process; the child (if any) sees EOF on its stdin and terminates by itself.
	h.Main(m, "C08")
}

func TestReplay(t *testing.T) { h.ReplayAll(t); stopChild() }

// genParams draws small RLWE parameters (N = 16..64, 1-3 Q primes, 0-2 P primes). Serialization does not depend on
// the arithmetic, only on degrees, levels and decomposition sizes.
func genParams(t *rapid.T) h.RLWESpec {
	return h.GenRLWESpec(t, h.RLWEOpts{MinLogN: 4, MaxLogN: 6, MinQ: 1, MaxQ: 3, MinP: 0, MaxP: 2, MinBits: 20, MaxBits: 60, DefaultDists: true})
}

func genObj(t *rapid.T, label string, typ string) ObjSpec {
	var s ObjSpec
	if typ == "" {
		typ = rapid.SampledFrom(regNames).Draw(t, label+"_type")
	}
	s.T = typ
	s.Seed = rapid.Uint64().Draw(t, label+"_seed")
	for i := range s.K {
		s.K[i] = rapid.IntRange(0, 11).Draw(t, label+"_k")
	}
	return s
}

// pathTail keeps the last two field names of a difference path (without indices): it names the stale/wrong field
// independently of the type that embeds it.
func pathTail(d string) string {
	d = diffField(d)
	d = strings.NewReplacer("[]", "", "{}", "").Replace(d)
	parts := strings.Split(strings.Trim(d, "."), ".")
	if len(parts) > 2 {
		parts = parts[len(parts)-2:]
	}
	return strings.Join(parts, ".")
}

// safeInProcess reports whether the experiment is known not to be able to end in an unrecoverable runtime error.
func safeInProcess(req DecodeReq) bool {
	if req.Trunc >= 0 || req.Corrupt != nil {
		return false
	}
	if req.Reader.Kind == "bufio" && req.Reader.Size%8 != 0 {
		return false
	}
	return true
}

// inProcessUnsafe is set once an in-process decode did not return within the hard limit: from then on every
// experiment runs in the (killable) child.
var inProcessUnsafe bool

// runWatched runs the experiment in-process under the same wall-clock policy as the child (first timeout 60 s, hard
// limit 480 s, fail-fast after the first expiry). ok=false: it did not return; the goroutine cannot be stopped and is
// left behind.
func runWatched(req DecodeReq) (res DecodeRes, ok bool) {
	done := make(chan DecodeRes, 1)
	go func() { done <- runDecode(req) }()
	soft, hard := childSoftTimeout, childHardLimit
	if childHangSeen {
		soft, hard = 5*time.Second, 5*time.Second
	}
	start := time.Now()
	select {
	case res = <-done:
		return res, true
	case <-time.After(soft):
	}
	select {
	case res = <-done:
		res.Slow = true
		res.Note = fmt.Sprintf("in-process decode answered after %v", time.Since(start).Round(time.Second))
		return res, true
	case <-time.After(hard - soft + time.Millisecond):
	}
	return res, false
}

func execDecode(req DecodeReq) DecodeRes {
	if safeInProcess(req) && !inProcessUnsafe {
		if res, ok := runWatched(req); ok {
			return res
		}
		// The verdict (hang, or timeout under load) comes from the child, which can be killed; the in-process wait
		// already was the long one, so the child waits in fail-fast mode.
		inProcessUnsafe = true
		childMu.Lock()
		childHangSeen = true
		childMu.Unlock()
	}
	return inChild(req)
}
