package c08

import (
	"encoding"
	"fmt"
	"io"
	"math"
	"math/big"
	"reflect"
	"sort"
	"unsafe"

	"verif/internal/h"

	"github.com/tuneinsight/lattigo/v6/circuits/ckks/bootstrapping"
	"github.com/tuneinsight/lattigo/v6/circuits/common/polynomial"
	"github.com/tuneinsight/lattigo/v6/core/rgsw"
	"github.com/tuneinsight/lattigo/v6/core/rlwe"
	"github.com/tuneinsight/lattigo/v6/multiparty"
	"github.com/tuneinsight/lattigo/v6/ring"
	"github.com/tuneinsight/lattigo/v6/ring/ringqp"
	"github.com/tuneinsight/lattigo/v6/utils/bignum"
	"github.com/tuneinsight/lattigo/v6/utils/structs"
)

// codec is the full binary serialization interface (the one lattigo's own RequireSerializerCorrect uses).
type codec interface {
	BinarySize() int
	io.WriterTo
	io.ReaderFrom
	encoding.BinaryMarshaler
	encoding.BinaryUnmarshaler
}

// ObjSpec is the plain-data description of one value of a registered type. The knobs K are reduced modulo the valid
// range of the corresponding quantity by the builder (levels, degrees, sizes, flag sets), so every knob vector is valid.
type ObjSpec struct {
	T    string `json:"t"`
	Seed uint64 `json:"seed"`
	K    [4]int `json:"k"`
	Salt uint64 `json:"salt,omitempty"` // changes the coefficient content only (used to locate header bytes)
	// Huge: the metadata (if the type has any) carries a scale >= 1e100 or <= 1e-100, which the fixed-size text encoding
	// of rlwe.Scale cannot hold: every writing entry point has to fail cleanly for such an object.
	Huge bool `json:"huge,omitempty"`
}

// rngs carries the structure generator (embedded: metadata, map keys, Galois elements) and the content generator c
// (coefficients, seeds).
type rngs struct {
	*h.SplitMix
	c    *h.SplitMix
	huge bool
}

type entry struct {
	name  string
	build func(p rlwe.Parameters, s ObjSpec, rng *rngs) (codec, string)
	fresh func() codec
}

var (
	registry = map[string]*entry{}
	regNames []string
)

func reg[T any, PT interface {
	*T
	codec
}](name string, build func(p rlwe.Parameters, k [4]int, rng *rngs) (*T, string)) {
	registry[name] = &entry{
		name: name,
		build: func(p rlwe.Parameters, s ObjSpec, rng *rngs) (codec, string) {
			v, cls := build(p, s.K, rng)
			return PT(v), cls
		},
		fresh: func() codec { return PT(new(T)) },
	}
	regNames = append(regNames, name)
	sort.Strings(regNames)
}

// buildObj builds the value described by s (deterministic in s and the parameters).
func buildObj(p rlwe.Parameters, s ObjSpec) (codec, string, error) {
	e := registry[s.T]
	if e == nil {
		return nil, "", fmt.Errorf("unknown type %q", s.T)
	}
	rng := &rngs{SplitMix: h.NewSplitMix(s.Seed), c: h.NewSplitMix(s.Seed ^ (s.Salt+1)*0x9e3779b97f4a7c15), huge: s.Huge}
	v, cls := e.build(p, s, rng)
	return v, cls, nil
}

// ---------------------------------------------------------------------------------------------------------------
// content helpers

// word draws a coefficient: serialization must not depend on the value, so the full uint64 range is used together
// with the extreme values.
func word(rng *h.SplitMix) uint64 {
	switch rng.Intn(8) {
	case 0:
		return 0
	case 1:
		return math.MaxUint64
	case 2:
		return uint64(rng.Intn(256))
	default:
		return rng.Uint64()
	}
}

var u64SliceType = reflect.TypeOf([]uint64(nil))

// fillWords fills every []uint64 reachable from v (pointers, structs, slices, arrays, maps of pointers) with drawn words.
func fillWords(v reflect.Value, rng *h.SplitMix) {
	switch v.Kind() {
	case reflect.Ptr:
		if !v.IsNil() {
			if t := v.Type().Elem(); t == reflect.TypeOf(big.Int{}) || t == reflect.TypeOf(big.Float{}) {
				return
			}
			fillWords(v.Elem(), rng)
		}
	case reflect.Struct:
		if t := v.Type(); t == reflect.TypeOf(big.Int{}) || t == reflect.TypeOf(big.Float{}) {
			return
		}
		for i := 0; i < v.NumField(); i++ {
			fillWords(v.Field(i), rng)
		}
	case reflect.Slice:
		if v.Type().Elem().Kind() == reflect.Uint64 {
			for i := 0; i < v.Len(); i++ {
				v.Index(i).SetUint(word(rng))
			}
			return
		}
		for i := 0; i < v.Len(); i++ {
			fillWords(v.Index(i), rng)
		}
	case reflect.Array:
		if v.Type().Elem().Kind() == reflect.Uint8 {
			return
		}
		for i := 0; i < v.Len(); i++ {
			fillWords(v.Index(i), rng)
		}
	case reflect.Map:
		keys := v.MapKeys()
		sort.Slice(keys, func(i, j int) bool { return fmt.Sprint(keys[i]) < fmt.Sprint(keys[j]) })
		for _, k := range keys {
			fillWords(v.MapIndex(k), rng)
		}
	}
}

func fill[T any](v *T, rng *rngs) *T {
	fillWords(reflect.ValueOf(v), rng.c)
	return v
}

func mod(k, n int) int {
	if n <= 0 {
		return 0
	}
	k %= n
	if k < 0 {
		k += n
	}
	return k
}

// levels maps two knobs to (levelQ, levelP) within the parameters; levelP = -1 when there is no P.
func levels(p rlwe.Parameters, kq, kp int) (int, int) {
	lq := p.MaxLevelQ() - mod(kq, p.MaxLevelQ()+1)
	lp := p.MaxLevelP()
	if lp >= 0 {
		lp -= mod(kp, lp+2) // down to -1: objects without P part under parameters that have auxiliary primes
	}
	return lq, lp
}

// base2 maps a knob to a BaseTwoDecomposition (0 = none).
func base2(k int) int {
	return []int{0, 0, 7, 16, 30}[mod(k, 5)]
}

func genScale(rng *rngs) (rlwe.Scale, string) {
	if rng.huge {
		e := 333 + rng.Intn(200) // 2^333 > 1e100
		if rng.Intn(3) == 0 {
			e = -e
		}
		return rlwe.NewScale(new(big.Float).SetPrec(128).SetMantExp(big.NewFloat(1), e)), "scale=huge"
	}
	switch rng.Intn(6) {
	case 0:
		return rlwe.NewScale(1), "scale=1"
	case 1:
		return rlwe.NewScale(math.Exp2(float64(10 + rng.Intn(80)))), "scale=2^k"
	case 2:
		// a 128-bit precision non-dyadic value
		f := new(big.Float).SetPrec(128).SetUint64(rng.Uint64() | 1)
		f.Quo(f, new(big.Float).SetPrec(128).SetUint64(3))
		return rlwe.NewScale(f), "scale=frac128"
	case 3:
		t := rng.Uint64()>>uint(1+rng.Intn(60)) | 3
		return rlwe.NewScaleModT(rng.Uint64()%t, t), "scale=modT"
	case 4:
		return rlwe.NewScaleModT(1, 65537), "scale=modT"
	default:
		return rlwe.NewScale(float64(rng.Uint64()>>11) / 1024), "scale=float"
	}
}

func genMetaData(rng *rngs) (*rlwe.MetaData, string) {
	sc, cls := genScale(rng)
	m := &rlwe.MetaData{}
	m.Scale = sc
	m.LogDimensions = ring.Dimensions{Rows: rng.Intn(3), Cols: rng.Intn(16)}
	f := rng.Intn(16)
	m.IsBatched = f&1 != 0
	m.IsBitReversed = f&2 != 0
	m.IsNTT = f&4 != 0
	m.IsMontgomery = f&8 != 0
	return m, fmt.Sprintf("%s,flags=%d", cls, f)
}

func evkParams(p rlwe.Parameters, k [4]int) (rlwe.EvaluationKeyParameters, string) {
	lq, lp := levels(p, k[0], k[1])
	b2 := base2(k[2])
	comp := mod(k[3], 2) == 1
	return rlwe.EvaluationKeyParameters{LevelQ: &lq, LevelP: &lp, BaseTwoDecomposition: &b2, Compressed: comp},
		fmt.Sprintf("lq=%d/%d,lp=%d,b2=%v,compressed=%v", lq, p.MaxLevelQ(), lp, b2 != 0, comp)
}

func seed32(rng *rngs) *[32]byte {
	var s [32]byte
	for i := range s {
		s[i] = byte(rng.c.Uint64())
	}
	return &s
}

func newEvk(p rlwe.Parameters, k [4]int, rng *rngs) (*rlwe.EvaluationKey, string) {
	ep, cls := evkParams(p, k)
	evk := rlwe.NewEvaluationKey(p, ep)
	if ep.Compressed {
		evk.Seed = seed32(rng)
	}
	return fill(evk, rng), cls
}

func newGalk(p rlwe.Parameters, k [4]int, rng *rngs) (*rlwe.GaloisKey, string) {
	ep, cls := evkParams(p, k)
	gk := rlwe.NewGaloisKey(p, ep)
	if ep.Compressed {
		gk.Seed = seed32(rng)
	}
	fill(gk, rng)
	gk.GaloisElement = rng.Uint64()%uint64(2*p.N()) | 1
	return gk, cls
}

func newCt(p rlwe.Parameters, k [4]int, rng *rngs) (*rlwe.Ciphertext, string) {
	deg := mod(k[0], 3)
	lvl := p.MaxLevel() - mod(k[1], p.MaxLevel()+1)
	ct := rlwe.NewCiphertext(p, deg, lvl)
	md, cls := genMetaData(rng)
	ct.MetaData = md
	return fill(ct, rng), fmt.Sprintf("deg=%d,lvl=%d/%d,%s", deg, lvl, p.MaxLevel(), cls)
}

func init() {
	reg("ring.Poly", func(p rlwe.Parameters, k [4]int, rng *rngs) (*ring.Poly, string) {
		if mod(k[1], 8) == 7 {
			return &ring.Poly{}, "empty"
		}
		lvl := mod(k[0], p.MaxLevelQ()+1)
		pol := ring.NewPoly(p.N(), lvl)
		return fill(&pol, rng), fmt.Sprintf("lvl=%d", lvl)
	})
	reg("ringqp.Poly", func(p rlwe.Parameters, k [4]int, rng *rngs) (*ringqp.Poly, string) {
		lq, lp := levels(p, k[0], k[1])
		if mod(k[2], 6) == 5 {
			lq = -1 // documented: negative level => nil polynomial
		}
		if mod(k[3], 6) == 5 {
			lp = -1
		}
		pol := ringqp.NewPoly(p.N(), lq, lp)
		return fill(&pol, rng), fmt.Sprintf("lq=%d,lp=%d", lq, lp)
	})
	reg("structs.Vector[uint64]", func(p rlwe.Parameters, k [4]int, rng *rngs) (*structs.Vector[uint64], string) {
		// 17000 > 16384: larger than what Vector.ReadFrom may allocate ahead of the data
		v := make(structs.Vector[uint64], []int{0, 1, 2, 7, 8, 9, 33, 600}[mod(k[0], 8)])
		if mod(k[3], 12) == 11 {
			v = make(structs.Vector[uint64], 17000)
		}
		return fill(&v, rng), fmt.Sprintf("len=%d", len(v))
	})
	reg("structs.Vector[float64]", func(p rlwe.Parameters, k [4]int, rng *rngs) (*structs.Vector[float64], string) {
		v := make(structs.Vector[float64], []int{0, 1, 3, 8, 17}[mod(k[0], 5)])
		for i := range v {
			v[i] = math.Float64frombits(word(rng.c))
		}
		return &v, fmt.Sprintf("len=%d", len(v))
	})
	reg("structs.Vector[uint32]", func(p rlwe.Parameters, k [4]int, rng *rngs) (*structs.Vector[uint32], string) {
		v := make(structs.Vector[uint32], []int{0, 1, 3, 8, 17, 1100}[mod(k[0], 6)])
		for i := range v {
			v[i] = uint32(word(rng.c))
		}
		return &v, fmt.Sprintf("len=%d", len(v))
	})
	reg("structs.Vector[int16]", func(p rlwe.Parameters, k [4]int, rng *rngs) (*structs.Vector[int16], string) {
		v := make(structs.Vector[int16], []int{0, 1, 3, 8, 17, 2100}[mod(k[0], 6)])
		for i := range v {
			v[i] = int16(word(rng.c))
		}
		return &v, fmt.Sprintf("len=%d", len(v))
	})
	reg("structs.Vector[uint8]", func(p rlwe.Parameters, k [4]int, rng *rngs) (*structs.Vector[uint8], string) {
		v := make(structs.Vector[uint8], []int{0, 1, 3, 8, 17, 4200}[mod(k[0], 6)])
		if mod(k[3], 12) == 11 {
			v = make(structs.Vector[uint8], 140000) // > 131072: larger than what is allocated ahead of the data
		}
		for i := range v {
			v[i] = uint8(word(rng.c))
		}
		return &v, fmt.Sprintf("len=%d", len(v))
	})
	reg("structs.Vector[ring.Poly]", func(p rlwe.Parameters, k [4]int, rng *rngs) (*structs.Vector[ring.Poly], string) {
		v := make(structs.Vector[ring.Poly], mod(k[0], 4))
		if mod(k[2], 12) == 11 {
			v = make(structs.Vector[ring.Poly], 6000) // many empty polynomials: more components than are pre-allocated
			return &v, "len=6000(empty)"
		}
		for i := range v {
			v[i] = ring.NewPoly(p.N(), mod(k[1]+i, p.MaxLevelQ()+1))
		}
		return fill(&v, rng), fmt.Sprintf("len=%d", len(v))
	})
	reg("structs.Matrix[uint64]", func(p rlwe.Parameters, k [4]int, rng *rngs) (*structs.Matrix[uint64], string) {
		m := make(structs.Matrix[uint64], mod(k[0], 4))
		if mod(k[2], 12) == 11 {
			m = make(structs.Matrix[uint64], 6000+mod(k[0], 4)) // more (empty) rows than are pre-allocated
		}
		for i := range m {
			if len(m) < 100 || i%5000 == 0 {
				m[i] = make([]uint64, mod(k[1]+3*i, 10)) // ragged rows
			}
		}
		return fill(&m, rng), fmt.Sprintf("rows=%d", len(m))
	})
	reg("structs.Matrix[ringqp.Poly]", func(p rlwe.Parameters, k [4]int, rng *rngs) (*structs.Matrix[ringqp.Poly], string) {
		lq, lp := levels(p, k[2], k[3])
		m := make(structs.Matrix[ringqp.Poly], mod(k[0], 3))
		for i := range m {
			m[i] = make([]ringqp.Poly, mod(k[1]+i, 3))
			for j := range m[i] {
				m[i][j] = ringqp.NewPoly(p.N(), lq, lp)
			}
		}
		return fill(&m, rng), fmt.Sprintf("rows=%d", len(m))
	})
	reg("structs.Map[uint64,ring.Poly]", func(p rlwe.Parameters, k [4]int, rng *rngs) (*structs.Map[uint64, ring.Poly], string) {
		m := structs.Map[uint64, ring.Poly]{}
		n := mod(k[0], 4)
		for i := 0; i < n; i++ {
			pol := ring.NewPoly(p.N(), mod(k[1]+i, p.MaxLevelQ()+1))
			key := uint64(rng.Intn(6))
			if mod(k[2], 3) == 2 {
				key = rng.Uint64()
			}
			m[key] = &pol
		}
		return fill(&m, rng), fmt.Sprintf("keys=%d", len(m))
	})

	reg("rlwe.CiphertextMetaData", func(p rlwe.Parameters, k [4]int, rng *rngs) (*rlwe.CiphertextMetaData, string) {
		f := mod(k[0], 4)
		return &rlwe.CiphertextMetaData{IsNTT: f&1 != 0, IsMontgomery: f&2 != 0}, fmt.Sprintf("flags=%d", f)
	})
	reg("rlwe.PlaintextMetaData", func(p rlwe.Parameters, k [4]int, rng *rngs) (*rlwe.PlaintextMetaData, string) {
		m, cls := genMetaData(rng)
		return &m.PlaintextMetaData, cls
	})
	reg("rlwe.MetaData", func(p rlwe.Parameters, k [4]int, rng *rngs) (*rlwe.MetaData, string) {
		return genMetaData(rng)
	})
	reg("rlwe.Plaintext", func(p rlwe.Parameters, k [4]int, rng *rngs) (*rlwe.Plaintext, string) {
		lvl := p.MaxLevel() - mod(k[0], p.MaxLevel()+1)
		pt := rlwe.NewPlaintext(p, lvl)
		md, cls := genMetaData(rng)
		pt.MetaData = md
		return fill(pt, rng), fmt.Sprintf("lvl=%d/%d,%s", lvl, p.MaxLevel(), cls)
	})
	reg("rlwe.Ciphertext", newCt)
	reg("rlwe.Element[ring.Poly]", func(p rlwe.Parameters, k [4]int, rng *rngs) (*rlwe.Element[ring.Poly], string) {
		deg := mod(k[0], 3)
		lvl := p.MaxLevel() - mod(k[1], p.MaxLevel()+1)
		el := rlwe.NewElement(p, deg, lvl)
		cls := "nometa"
		if mod(k[2], 3) != 0 {
			el.MetaData, cls = genMetaData(rng)
		} else {
			el.MetaData = nil // Element.WriteTo/BinarySize handle the absence of metadata explicitly
		}
		return fill(el, rng), fmt.Sprintf("deg=%d,lvl=%d,%s", deg, lvl, cls)
	})
	reg("rlwe.Element[ringqp.Poly]", func(p rlwe.Parameters, k [4]int, rng *rngs) (*rlwe.Element[ringqp.Poly], string) {
		lq, lp := levels(p, k[1], k[2])
		el := rlwe.NewElementExtended(p, mod(k[0], 3), lq, lp)
		var cls string
		el.MetaData, cls = genMetaData(rng)
		return fill(el, rng), fmt.Sprintf("lq=%d,lp=%d,%s", lq, lp, cls)
	})
	reg("rlwe.SecretKey", func(p rlwe.Parameters, k [4]int, rng *rngs) (*rlwe.SecretKey, string) {
		if mod(k[0], 3) == 0 {
			return fill(rlwe.NewSecretKey(p), rng), "max"
		}
		lq, lp := levels(p, k[1], k[2])
		return fill(&rlwe.SecretKey{Value: ringqp.NewPoly(p.N(), lq, lp)}, rng), fmt.Sprintf("lq=%d,lp=%d", lq, lp)
	})
	reg("rlwe.PublicKey", func(p rlwe.Parameters, k [4]int, rng *rngs) (*rlwe.PublicKey, string) {
		if mod(k[0], 3) == 0 {
			return fill(rlwe.NewPublicKey(p), rng), "max"
		}
		lq, lp := levels(p, k[1], k[2])
		return fill(&rlwe.PublicKey{Value: rlwe.NewVectorQP(p, 2, lq, lp)}, rng), fmt.Sprintf("lq=%d,lp=%d", lq, lp)
	})
	reg("rlwe.VectorQP", func(p rlwe.Parameters, k [4]int, rng *rngs) (*rlwe.VectorQP, string) {
		lq, lp := levels(p, k[1], k[2])
		v := rlwe.NewVectorQP(p, mod(k[0], 4), lq, lp)
		return fill(&v, rng), fmt.Sprintf("size=%d,lq=%d,lp=%d", len(v), lq, lp)
	})
	reg("rlwe.GadgetCiphertext", func(p rlwe.Parameters, k [4]int, rng *rngs) (*rlwe.GadgetCiphertext, string) {
		lq, lp := levels(p, k[0], k[1])
		b2 := base2(k[2])
		deg := mod(k[3], 2)
		return fill(rlwe.NewGadgetCiphertext(p, deg, lq, lp, b2), rng), fmt.Sprintf("deg=%d,lq=%d,lp=%d,b2=%v", deg, lq, lp, b2 != 0)
	})
	reg("rlwe.EvaluationKey", newEvk)
	reg("rlwe.RelinearizationKey", func(p rlwe.Parameters, k [4]int, rng *rngs) (*rlwe.RelinearizationKey, string) {
		evk, cls := newEvk(p, k, rng)
		return &rlwe.RelinearizationKey{EvaluationKey: *evk}, cls
	})
	reg("rlwe.GaloisKey", newGalk)
	reg("rlwe.MemEvaluationKeySet", func(p rlwe.Parameters, k [4]int, rng *rngs) (*rlwe.MemEvaluationKeySet, string) {
		var rlk *rlwe.RelinearizationKey
		kk := [4]int{k[1], k[2], k[3], k[3] / 2}
		if mod(k[0], 2) == 1 {
			evk, _ := newEvk(p, kk, rng)
			rlk = &rlwe.RelinearizationKey{EvaluationKey: *evk}
		}
		ngk := mod(k[0]/2, 4) // 0..2 keys, 3 = nil map
		var set *rlwe.MemEvaluationKeySet
		if ngk == 3 {
			set = &rlwe.MemEvaluationKeySet{RelinearizationKey: rlk}
		} else {
			var gks []*rlwe.GaloisKey
			for i := 0; i < ngk; i++ {
				gk, _ := newGalk(p, [4]int{kk[0] + i, kk[1], kk[2], kk[3] + i}, rng)
				gks = append(gks, gk)
			}
			set = rlwe.NewMemEvaluationKeySet(rlk, gks...)
		}
		return set, fmt.Sprintf("rlk=%v,gks=%d", rlk != nil, ngk)
	})
	reg("rgsw.Ciphertext", func(p rlwe.Parameters, k [4]int, rng *rngs) (*rgsw.Ciphertext, string) {
		lq, lp := levels(p, k[0], k[1])
		b2 := base2(k[2])
		return fill(rgsw.NewCiphertext(p, lq, lp, b2), rng), fmt.Sprintf("lq=%d,lp=%d,b2=%v", lq, lp, b2 != 0)
	})
	reg("polynomial.PowerBasis", func(p rlwe.Parameters, k [4]int, rng *rngs) (*polynomial.PowerBasis, string) {
		pb := &polynomial.PowerBasis{Basis: bignum.Basis(mod(k[0], 2)), Value: structs.Map[int, rlwe.Ciphertext]{}}
		n := 1 + mod(k[1], 3)
		for i := 0; i < n; i++ {
			ct, _ := newCt(p, [4]int{k[2] + i, k[3] + i}, rng)
			pb.Value[1<<i+mod(k[2], 2)*i] = ct
		}
		return pb, fmt.Sprintf("basis=%d,powers=%d", pb.Basis, len(pb.Value))
	})

	reg("rlwe.Parameters", func(p rlwe.Parameters, k [4]int, rng *rngs) (*rlwe.Parameters, string) {
		// a sub-chain of the case's parameters with a drawn NTT flag and distributions
		lit := p.ParametersLiteral()
		lit.Q = lit.Q[:len(lit.Q)-mod(k[0], len(lit.Q))]
		if mod(k[1], 3) == 2 {
			lit.P = nil
		}
		lit.NTTFlag = mod(k[2], 2) == 1
		switch mod(k[3], 4) {
		case 1:
			lit.Xs = ring.Ternary{H: 1 + rng.Intn(p.N())}
		case 2:
			lit.Xs = ring.DiscreteGaussian{Sigma: 3.2, Bound: 19.2}
			lit.Xe = ring.DiscreteGaussian{Sigma: 1.5 + float64(rng.Intn(64))/8, Bound: 40}
		case 3:
			lit.Xs = ring.Ternary{P: 1.0 / 3}
		}
		q, err := rlwe.NewParametersFromLiteral(lit)
		if err != nil {
			q = p
		}
		return &q, fmt.Sprintf("nQ=%d,nP=%d,ntt=%v,dist=%d", len(lit.Q), len(lit.P), lit.NTTFlag, mod(k[3], 4))
	})

	reg("bootstrapping.EvaluationKeys", func(p rlwe.Parameters, k [4]int, rng *rngs) (*bootstrapping.EvaluationKeys, string) {
		// every subset of the six optional switching keys and of the optional key set
		mask := mod(k[0]+12*k[1], 128)
		if mod(k[2], 4) == 0 {
			mask = []int{0, 127, 64, 63}[mod(k[3], 4)]
		}
		b := &bootstrapping.EvaluationKeys{}
		for i, dst := range []**rlwe.EvaluationKey{&b.EvkN1ToN2, &b.EvkN2ToN1, &b.EvkRealToCmplx, &b.EvkCmplxToReal, &b.EvkDenseToSparse, &b.EvkSparseToDense} {
			if mask>>i&1 == 1 {
				*dst, _ = newEvk(p, [4]int{k[2] + i, k[3], 0, i}, rng)
			}
		}
		if mask>>6&1 == 1 {
			var rlk *rlwe.RelinearizationKey
			if mod(k[3], 2) == 0 {
				evk, _ := newEvk(p, [4]int{k[2], k[3], 0, 0}, rng)
				rlk = &rlwe.RelinearizationKey{EvaluationKey: *evk}
			}
			gk, _ := newGalk(p, [4]int{k[2], k[3], 0, k[2]}, rng)
			b.MemEvaluationKeySet = rlwe.NewMemEvaluationKeySet(rlk, gk)
		}
		n := 0
		for i := 0; i < 7; i++ {
			n += mask >> i & 1
		}
		return b, fmt.Sprintf("present=%d/7,keyset=%v", n, mask>>6&1 == 1)
	})

	// multiparty shares -------------------------------------------------------------------------------------------
	reg("multiparty.PublicKeyGenShare", func(p rlwe.Parameters, k [4]int, rng *rngs) (*multiparty.PublicKeyGenShare, string) {
		lq, lp := levels(p, k[0], k[1])
		return fill(&multiparty.PublicKeyGenShare{Value: ringqp.NewPoly(p.N(), lq, lp)}, rng), fmt.Sprintf("lq=%d,lp=%d", lq, lp)
	})
	reg("multiparty.EvaluationKeyGenShare", func(p rlwe.Parameters, k [4]int, rng *rngs) (*multiparty.EvaluationKeyGenShare, string) {
		lq, lp := levels(p, k[0], k[1])
		b2 := base2(k[2])
		return fill(&multiparty.EvaluationKeyGenShare{GadgetCiphertext: *rlwe.NewGadgetCiphertext(p, 0, lq, lp, b2)}, rng), fmt.Sprintf("lq=%d,lp=%d,b2=%v", lq, lp, b2 != 0)
	})
	reg("multiparty.GaloisKeyGenShare", func(p rlwe.Parameters, k [4]int, rng *rngs) (*multiparty.GaloisKeyGenShare, string) {
		lq, lp := levels(p, k[0], k[1])
		b2 := base2(k[2])
		s := &multiparty.GaloisKeyGenShare{EvaluationKeyGenShare: multiparty.EvaluationKeyGenShare{GadgetCiphertext: *rlwe.NewGadgetCiphertext(p, 0, lq, lp, b2)}}
		fill(s, rng)
		s.GaloisElement = rng.Uint64()%uint64(2*p.N()) | 1
		return s, fmt.Sprintf("lq=%d,lp=%d,b2=%v", lq, lp, b2 != 0)
	})
	reg("multiparty.RelinearizationKeyGenShare", func(p rlwe.Parameters, k [4]int, rng *rngs) (*multiparty.RelinearizationKeyGenShare, string) {
		lq, lp := levels(p, k[0], k[1])
		b2 := base2(k[2])
		return fill(&multiparty.RelinearizationKeyGenShare{GadgetCiphertext: *rlwe.NewGadgetCiphertext(p, 1, lq, lp, b2)}, rng), fmt.Sprintf("lq=%d,lp=%d,b2=%v", lq, lp, b2 != 0)
	})
	reg("multiparty.KeySwitchShare", func(p rlwe.Parameters, k [4]int, rng *rngs) (*multiparty.KeySwitchShare, string) {
		lvl := p.MaxLevel() - mod(k[0], p.MaxLevel()+1)
		return fill(&multiparty.KeySwitchShare{Value: ring.NewPoly(p.N(), lvl)}, rng), fmt.Sprintf("lvl=%d/%d", lvl, p.MaxLevel())
	})
	reg("multiparty.PublicKeySwitchShare", func(p rlwe.Parameters, k [4]int, rng *rngs) (*multiparty.PublicKeySwitchShare, string) {
		lvl := p.MaxLevel() - mod(k[0], p.MaxLevel()+1)
		el := rlwe.NewElement(p, 1, lvl)
		var cls string
		el.MetaData, cls = genMetaData(rng)
		return fill(&multiparty.PublicKeySwitchShare{Element: *el}, rng), fmt.Sprintf("lvl=%d/%d,%s", lvl, p.MaxLevel(), cls)
	})
	reg("multiparty.RefreshShare", func(p rlwe.Parameters, k [4]int, rng *rngs) (*multiparty.RefreshShare, string) {
		l0 := p.MaxLevel() - mod(k[0], p.MaxLevel()+1)
		l1 := p.MaxLevel() - mod(k[1], p.MaxLevel()+1)
		md, cls := genMetaData(rng)
		s := &multiparty.RefreshShare{
			EncToShareShare: multiparty.KeySwitchShare{Value: ring.NewPoly(p.N(), l0)},
			ShareToEncShare: multiparty.KeySwitchShare{Value: ring.NewPoly(p.N(), l1)},
			MetaData:        *md,
		}
		return fill(s, rng), fmt.Sprintf("l0=%d,l1=%d,%s", l0, l1, cls)
	})
	reg("multiparty.ShamirSecretShare", func(p rlwe.Parameters, k [4]int, rng *rngs) (*multiparty.ShamirSecretShare, string) {
		lq, lp := levels(p, k[0], k[1])
		return fill(&multiparty.ShamirSecretShare{Poly: ringqp.NewPoly(p.N(), lq, lp)}, rng), fmt.Sprintf("lq=%d,lp=%d", lq, lp)
	})
}

var scaleType = reflect.TypeOf(rlwe.Scale{})

// hasUnencodableScale reports whether v contains an rlwe.Scale whose text form does not fit the fixed-size encoding
// (sign, Inf, or an exponent of three digits: value >= 1e100 or < 1e-99).
func hasUnencodableScale(v any) bool {
	return scanScale(reflect.ValueOf(v), 0)
}

func scanScale(v reflect.Value, depth int) bool {
	if depth > 12 {
		return false
	}
	switch v.Kind() {
	case reflect.Ptr, reflect.Interface:
		return !v.IsNil() && scanScale(v.Elem(), depth+1)
	case reflect.Struct:
		if v.Type() == scaleType {
			if !v.CanAddr() {
				return false
			}
			sc := (*rlwe.Scale)(unsafe.Pointer(v.UnsafeAddr()))
			if len(sc.Value.Text('e', rlwe.ScalePrecisionLog10)) != rlwe.ScalePrecisionLog10+6 {
				return true
			}
			return sc.Mod != nil && len(new(big.Float).SetPrec(128).SetInt(sc.Mod).Text('e', rlwe.ScalePrecisionLog10)) != rlwe.ScalePrecisionLog10+6
		}
		if t := v.Type(); t == reflect.TypeOf(big.Int{}) || t == reflect.TypeOf(big.Float{}) {
			return false
		}
		for i := 0; i < v.NumField(); i++ {
			if scanScale(v.Field(i), depth+1) {
				return true
			}
		}
	case reflect.Map:
		for _, k := range v.MapKeys() {
			if scanScale(v.MapIndex(k), depth+1) {
				return true
			}
		}
	case reflect.Slice, reflect.Array:
		if k := v.Type().Elem().Kind(); k != reflect.Struct && k != reflect.Ptr && k != reflect.Interface {
			return false
		}
		for i := 0; i < v.Len() && i < 64; i++ {
			if scanScale(v.Index(i), depth+1) {
				return true
			}
		}
	}
	return false
}
