package c08

import (
	"bufio"
	"bytes"
	"fmt"
	"io"
	"reflect"
	"strings"
	"testing"

	"verif/internal/h"

	"github.com/tuneinsight/lattigo/v6/utils/buffer"
	"pgregory.net/rapid"
)

// ---------------------------------------------------------------------------------------------------------------
// TestPropWriteFail: ONE object, the writer fails at EVERY offset of its encoding (dense), through a plain io.Writer,
// a caller-supplied bufio.Writer and a too-small buffer.Buffer.

type WriteFailCase struct {
	Params  h.RLWESpec `json:"params"`
	Obj     ObjSpec    `json:"obj"`
	BufSize int        `json:"bufsize"` // size of the caller-supplied bufio.Writer
}

func genWriteFail(t *rapid.T) WriteFailCase {
	var c WriteFailCase
	c.Params = genParams(t)
	// compressed and uncompressed keys are over-represented: their last bytes (the seed) are written after the
	// gadget ciphertext has flushed the writer
	typ := ""
	if rapid.IntRange(0, 3).Draw(t, "keys") == 0 {
		typ = rapid.SampledFrom([]string{"rlwe.EvaluationKey", "rlwe.RelinearizationKey", "rlwe.GaloisKey", "rlwe.MemEvaluationKeySet", "bootstrapping.EvaluationKeys"}).Draw(t, "keytype")
	}
	c.Obj = genObj(t, "o", typ)
	c.BufSize = rapid.SampledFrom([]int{16, 17, 64, 100, 4096, 1 << 20}).Draw(t, "bufsize")
	return c
}

// failOffsets: every offset for encodings up to 1536 bytes, else the first and last 384, 256 evenly spread ones and the
// neighbourhood of every multiple of 4096 (default bufio size) and of the caller's buffer size.
func failOffsets(L, bufSize int) []int {
	if L <= 1536 {
		out := make([]int, L)
		for i := range out {
			out[i] = i
		}
		return out
	}
	set := map[int]bool{}
	add := func(k int) {
		if k >= 0 && k < L {
			set[k] = true
		}
	}
	for i := 0; i < 384; i++ {
		add(i)
		add(L - 1 - i)
	}
	for i := 0; i < 256; i++ {
		add(i * L / 256)
	}
	for _, step := range []int{4096, bufSize} {
		if step < 64 {
			continue
		}
		for m := step; m < L; m += step {
			for d := -2; d <= 2; d++ {
				add(m + d)
			}
		}
	}
	out := make([]int, 0, len(set))
	for k := 0; k < L; k++ {
		if set[k] {
			out = append(out, k)
		}
	}
	return out
}

func runWriteFail(c WriteFailCase, rec *h.Rec) error {
	p, err := c.Params.Build()
	if err != nil {
		return h.Failf("C08:harness:params", "%v", err)
	}
	o, cls, err := buildObj(p, c.Obj)
	if err != nil {
		return h.Failf("C08:harness:build", "%v", err)
	}
	T := c.Obj.T
	rec.Class("type=" + T)
	rec.Class(T + ":" + cls)
	rec.Classf("bufsize=%d", c.BufSize)
	enc, err := o.MarshalBinary()
	if err != nil {
		return h.Failf("C08:write:"+T+":MarshalBinary-error", "%v", err)
	}
	L := len(enc)
	// does WriteTo flush a caller-supplied bufio.Writer of this size by itself (all lattigo WriteTo do)? If it does,
	// it has seen the failure of the flush and must return it.
	clean := &sink{failAt: -1}
	if _, err := o.WriteTo(bufio.NewWriterSize(clean, c.BufSize)); err != nil {
		return h.Failf("C08:write:"+T+":WriteTo(bufio)-error", "%v", err)
	}
	selfFlush := bytes.Equal(clean.buf, enc)
	rec.Classf("writeto-flushes-caller-bufio=%v", selfFlush)

	offs := failOffsets(L, c.BufSize)
	rec.Classf("dense=%v", len(offs) == L)
	fail := func(key, format string, a ...any) error {
		msg := fmt.Sprintf(format, a...)
		if rec.Known(key, msg) {
			rec.Class("known=" + key)
			return nil
		}
		return h.Failf(key, "%s (%s, %d bytes): %s", T, cls, L, msg)
	}
	for _, k := range offs {
		// plain io.Writer
		sk := &sink{failAt: k}
		var n int64
		werr, pm := guarded(func() (e error) { n, e = o.WriteTo(sk); return })
		switch {
		case pm != "":
			return fail("C08:wfail:sink:"+T+":panic", "writer failing after %d bytes: %s", k, pm)
		case werr == nil:
			if e := fail("C08:wfail:sink:"+T+":no-error", "the plain io.Writer accepts only %d of %d bytes but WriteTo returned n=%d, err=nil", k, L, n); e != nil {
				return e
			}
		case !bytes.Equal(sk.buf, enc[:len(sk.buf)]):
			return fail("C08:wfail:sink:"+T+":garbage-before-failure", "the %d bytes delivered before the failure at %d are not a prefix of the encoding: %s", len(sk.buf), k, firstDiff(sk.buf, enc[:len(sk.buf)]))
		}
		// caller-supplied bufio.Writer
		sk = &sink{failAt: k}
		bw := bufio.NewWriterSize(sk, c.BufSize)
		werr, pm = guarded(func() (e error) { n, e = o.WriteTo(bw); return })
		switch {
		case pm != "":
			return fail("C08:wfail:bufio:"+T+":panic", "sink failing after %d bytes, bufio.Writer of %d: %s", k, c.BufSize, pm)
		case werr == nil && selfFlush:
			if e := fail("C08:wfail:bufio:"+T+":flush-error-dropped", "sink failing after %d of %d bytes behind a caller-supplied bufio.Writer(%d): WriteTo flushes the writer itself (it does on the undamaged run) but returned n=%d, err=nil; only %d bytes reached the sink", k, L, c.BufSize, n, len(sk.buf)); e != nil {
				return e
			}
		case werr == nil:
			if bw.Flush() == nil {
				if e := fail("C08:wfail:bufio:"+T+":error-lost", "sink failing after %d of %d bytes: neither WriteTo nor the caller's Flush reports it", k, L); e != nil {
					return e
				}
			}
		}
		// buffer.Buffer that is too small
		lb := buffer.NewBufferSize(k)
		werr, pm = guarded(func() (e error) { n, e = o.WriteTo(lb); return })
		switch {
		case pm != "":
			return fail("C08:wfail:buffer:"+T+":panic", "buffer.Buffer of %d bytes: %s", k, pm)
		case werr == nil:
			if e := fail("C08:wfail:buffer:"+T+":no-error", "buffer.Buffer of %d bytes for an encoding of %d: WriteTo returned n=%d, err=nil", k, L, n); e != nil {
				return e
			}
		}
	}
	// the object is unchanged by the failed writes
	if enc2, err := o.MarshalBinary(); err != nil || !bytes.Equal(enc, enc2) {
		return fail("C08:wfail:"+T+":object-changed", "the encoding differs after the failed writes (err=%v)", err)
	}
	if L > 0 {
		rec.NonTrivial(fmt.Sprintf("%s;%s;buf=%d", T, cls, c.BufSize))
	}
	return nil
}

var propWriteFail = h.NewProp("TestPropWriteFail", h.Budget{Quick: 100, Thorough: 3000}, genWriteFail, runWriteFail)

func TestPropWriteFail(t *testing.T) { propWriteFail.Check(t) }

// ---------------------------------------------------------------------------------------------------------------
// TestPropHistory: ONE receiver lives through a sequence of 3-6 decodes of different values of its type (larger and
// smaller levels/degrees, with and without optional fields, a value seen before), each judged as strictly as the
// first; every source object is encoded again afterwards (inputs intact, second use of the writer side).

type HistoryCase struct {
	Params  h.RLWESpec `json:"params"`
	T       string     `json:"t"`
	Vals    []ObjSpec  `json:"vals"`
	Readers []string   `json:"readers"` // per step: "buffer" | "unmarshal" | "bufio" | "raw"
	Again   int        `json:"again"`   // the last step decodes Vals[Again % len] once more
}

func genHistory(t *rapid.T) HistoryCase {
	var c HistoryCase
	c.Params = genParams(t)
	c.T = rapid.SampledFrom(regNames).Draw(t, "type")
	n := rapid.IntRange(2, 5).Draw(t, "n")
	for i := 0; i < n; i++ {
		c.Vals = append(c.Vals, genObj(t, fmt.Sprintf("v%d", i), c.T))
	}
	c.Again = rapid.IntRange(0, n-1).Draw(t, "again")
	for i := 0; i <= n; i++ {
		c.Readers = append(c.Readers, rapid.SampledFrom([]string{"buffer", "unmarshal", "bufio", "raw"}).Draw(t, "reader"))
	}
	return c
}

func runHistory(c HistoryCase, rec *h.Rec) error {
	p, err := c.Params.Build()
	if err != nil {
		return h.Failf("C08:harness:params", "%v", err)
	}
	rec.Class("type=" + c.T)
	rec.Classf("steps=%d", len(c.Vals)+1)
	objs := make([]codec, len(c.Vals))
	encs := make([][]byte, len(c.Vals))
	for i, s := range c.Vals {
		s.T = c.T
		if objs[i], encs[i], err = encode(p, s); err != nil {
			return h.Failf("C08:harness:build", "%v", err)
		}
	}
	recv := registry[c.T].fresh()
	steps := make([]int, 0, len(c.Vals)+1)
	for i := range c.Vals {
		steps = append(steps, i)
	}
	steps = append(steps, c.Again%len(c.Vals))
	for si, i := range steps {
		kind := c.Readers[si%len(c.Readers)]
		var n int64
		derr, pm := guarded(func() (e error) {
			switch kind {
			case "unmarshal":
				n = int64(len(encs[i]))
				return recv.UnmarshalBinary(encs[i])
			case "bufio":
				n, e = recv.ReadFrom(bufio.NewReaderSize(newChunkReader(encs[i], ChunkSpec{Mode: "list", List: []int{7, 61, 3}}), 64))
			case "raw":
				n, e = recv.ReadFrom(newChunkReader(encs[i], ChunkSpec{Mode: "half"}))
			default:
				n, e = recv.ReadFrom(buffer.NewBuffer(encs[i]))
			}
			return
		})
		where := fmt.Sprintf("step %d of %d (value %d, reader %s) into a receiver that already held %d other value(s)", si, len(steps), i, kind, si)
		fail := func(key, msg string) error {
			if rec.Known(key, msg) {
				rec.Class("known=" + key)
				return nil
			}
			return h.Failf(key, "%s, %s: %s", c.T, where, msg)
		}
		if pm != "" {
			return fail("C08:history:"+c.T+":panic", pm)
		}
		if derr != nil {
			return fail("C08:history:"+c.T+":error", derr.Error())
		}
		if int(n) != len(encs[i]) {
			if e := fail("C08:history:"+c.T+":n-mismatch", fmt.Sprintf("n=%d, encoding has %d bytes", n, len(encs[i]))); e != nil {
				return e
			}
		}
		if d := deepDiff(objs[i], recv); d != "" {
			if e := fail("C08:history:stale:"+staleKey(c.T, d), "differs from the original at "+d); e != nil {
				return e
			}
			continue
		}
		re, err := recv.MarshalBinary()
		if err != nil || !bytes.Equal(re, encs[i]) {
			if e := fail("C08:history:"+c.T+":re-encoding-differs", fmt.Sprintf("err=%v, %s", err, firstDiff(re, encs[i]))); e != nil {
				return e
			}
		}
		if self, ok := libEqual(objs[i], objs[i]); ok && self {
			if eq, _ := libEqual(objs[i], recv); !eq {
				if e := fail("C08:history:"+c.T+":Equal-false", "structurally identical but Equal is false"); e != nil {
					return e
				}
			}
		}
	}
	// sources intact, second use of the writer side gives the same bytes
	for i, o := range objs {
		var bb bytes.Buffer
		if _, err := o.WriteTo(&bb); err != nil || !bytes.Equal(bb.Bytes(), encs[i]) {
			return h.Failf("C08:history:"+c.T+":source-changed", "value %d encodes differently after the receiver history (err=%v): %s", i, err, firstDiff(bb.Bytes(), encs[i]))
		}
	}
	rec.NonTrivial(fmt.Sprintf("%s;steps=%d;%s", c.T, len(steps), strings.Join(c.Readers[:len(steps)], ",")))
	return nil
}

var propHistory = h.NewProp("TestPropHistory", h.Budget{Quick: 600, Thorough: 20000}, genHistory, runHistory)

func TestPropHistory(t *testing.T) { propHistory.Check(t) }

// ---------------------------------------------------------------------------------------------------------------
// TestPropEqual: the library's Equal (documented "deep equal") is what callers use to compare a decoded object with
// the original, so it has to be total and to agree with the structural comparison on shape differences.

type EqualCase struct {
	Params h.RLWESpec `json:"params"`
	A      ObjSpec    `json:"a"`
	B      ObjSpec    `json:"b"`
	Same   bool       `json:"same"` // B is rebuilt from A's description (an equal but distinct object)
}

func genEqual(t *rapid.T) EqualCase {
	var c EqualCase
	c.Params = genParams(t)
	c.A = genObj(t, "a", "")
	c.Same = rapid.IntRange(0, 3).Draw(t, "same") == 0
	if c.Same {
		c.B = c.A
	} else {
		c.B = genObj(t, "b", c.A.T)
		if rapid.Bool().Draw(t, "sameseed") {
			c.B.Seed = c.A.Seed // same content generator, different shape
		}
	}
	return c
}

// shapeDiff reports whether a structural difference is one of shape (lengths, nil-ness, map keys) rather than of a value.
func shapeDiff(d string) bool {
	for _, w := range []string{":len ", ":maplen ", ":missing-key", ":nil=", ":nil-interface"} {
		if strings.Contains(d, w) {
			return true
		}
	}
	return false
}

func runEqual(c EqualCase, rec *h.Rec) error {
	p, err := c.Params.Build()
	if err != nil {
		return h.Failf("C08:harness:params", "%v", err)
	}
	a, clsA, err := buildObj(p, c.A)
	if err != nil {
		return h.Failf("C08:harness:build", "%v", err)
	}
	b, clsB, err := buildObj(p, c.B)
	if err != nil {
		return h.Failf("C08:harness:build", "%v", err)
	}
	T := c.A.T
	rec.Class("type=" + T)
	m := reflect.ValueOf(a).MethodByName("Equal")
	if !m.IsValid() {
		rec.Class("no-Equal-method")
		return nil
	}
	d := deepDiff(a, b)
	rec.Classf("structurally-equal=%v", d == "")
	fail := func(key, msg string) error {
		if rec.Known(key, msg) {
			rec.Class("known=" + key)
			return nil
		}
		return h.Failf(key, "%s: a=(%s) b=(%s): %s", T, clsA, clsB, msg)
	}
	for _, dir := range []struct {
		x, y any
		name string
	}{{a, b, "a.Equal(b)"}, {b, a, "b.Equal(a)"}, {a, a, "a.Equal(a)"}} {
		var eq, ok bool
		_, pm := guarded(func() error { eq, ok = rawLibEqual(dir.x, dir.y); return nil })
		if pm != "" {
			key := "C08:equal:length-mismatch-ignored" // Matrix/Vector.Equal index the other operand without comparing lengths (cmp may report it as "non-symmetric")
			switch {
			case strings.Contains(pm, "(*MetaData).Equal"):
				key = "C08:equal:MetaData-nil-panic"
			case !strings.Contains(d, ":len "):
				site := pm
				if i := strings.Index(site, ":"); i >= 0 {
					site = site[:i]
				}
				key = "C08:equal:panic@" + site
			}
			if e := fail(key, T+": "+dir.name+" panics: "+pm+" (structural difference: "+d+")"); e != nil {
				return e
			}
			continue
		}
		if !ok {
			rec.Class("Equal-signature-not-callable")
			return nil
		}
		same := d == "" || dir.name == "a.Equal(a)"
		switch {
		case same && !eq:
			if e := fail("C08:equal:"+T+":false-on-equal", dir.name+" is false for structurally identical objects"); e != nil {
				return e
			}
		case !same && eq && shapeDiff(d):
			key := "C08:equal:" + T + ":true-on-different-shape"
			if strings.Contains(d, ":len ") {
				key = "C08:equal:length-mismatch-ignored" // a prefix counts as equal
			}
			if e := fail(key, T+": "+dir.name+" is true although the objects differ in shape at "+d); e != nil {
				return e
			}
		}
	}
	if d != "" {
		rec.NonTrivial(fmt.Sprintf("%s;shape=%v", T, shapeDiff(d)))
	}
	return nil
}

// rawLibEqual is libEqual without the recover (the caller wants to see the panic).
func rawLibEqual(a, b any) (eq bool, ok bool) {
	m := reflect.ValueOf(a).MethodByName("Equal")
	if !m.IsValid() || m.Type().NumIn() != 1 || m.Type().NumOut() != 1 || m.Type().Out(0).Kind() != reflect.Bool {
		return false, false
	}
	in := m.Type().In(0)
	bv := reflect.ValueOf(b)
	var arg reflect.Value
	switch {
	case in == bv.Type():
		arg = bv
	case bv.Kind() == reflect.Ptr && in == bv.Type().Elem():
		arg = bv.Elem()
	case bv.Kind() == reflect.Ptr && bv.Elem().Kind() == reflect.Struct:
		arg = findEmbedded(bv.Elem(), in)
		if !arg.IsValid() {
			return false, false
		}
	default:
		return false, false
	}
	return m.Call([]reflect.Value{arg})[0].Bool(), true
}

var propEqual = h.NewProp("TestPropEqual", h.Budget{Quick: 800, Thorough: 20000}, genEqual, runEqual)

func TestPropEqual(t *testing.T) { propEqual.Check(t) }

var _ io.Writer = (*sink)(nil)
