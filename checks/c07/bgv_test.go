package c07

import (
	"fmt"
	"math"
	"math/big"
	mbits "math/bits"
	"testing"

	"verif/internal/h"

	"github.com/tuneinsight/lattigo/v6/core/rlwe"
	"github.com/tuneinsight/lattigo/v6/schemes/bgv"
	"pgregory.net/rapid"
)

// ---------------------------------------------------------------------------------------------------------------
// parameters
// ---------------------------------------------------------------------------------------------------------------

// genBGVSpec draws a BGV literal: ring degree N = 2^logN, plaintext ring degree n = 2^logn <= N (gap = N/n), a prime
// t = 1 mod 2n (and != 1 mod 4n when n < N so that the gap is exactly N/n), 1..4 primes Q with Q[0] > 4t (see
// assumptions.txt) except in the rare "tight" class where only t < Q[0] (what bgv.NewParameters checks) holds.
func genBGVSpec(t *rapid.T, maxLogN int) (s h.BGVSpec, tight bool) {
	s.LogN = rapid.IntRange(4, maxLogN).Draw(t, "logN")
	logn := s.LogN
	if rapid.IntRange(0, 1).Draw(t, "subring") == 1 {
		logn = rapid.IntRange(3, s.LogN).Draw(t, "logn")
	}
	tight = rapid.IntRange(0, 31).Draw(t, "tight") == 0
	mT := uint64(2) << logn
	minT := h.MinPrimeBits(mT) + 1
	var tb int
	switch rapid.IntRange(0, 5).Draw(t, "tk") {
	case 0:
		tb = minT
	case 1:
		tb = 58
	case 2:
		tb = 17
	default:
		tb = rapid.IntRange(minT, 58).Draw(t, "tbits")
	}
	if tb < minT {
		tb = minT
	}
	// candidate plaintext moduli of tb bits (or the next sizes having one) with the exact cyclotomic order
	var cands []uint64
	for b := tb; b <= 59 && len(cands) == 0; b++ {
		for _, p := range append(h.Primes(b, mT, 16, true), h.Primes(b, mT, 16, false)...) {
			if logn < s.LogN && p%(2*mT) == 1 {
				continue // order too large: the plaintext ring would be bigger than wanted
			}
			dup := false
			for _, c := range cands {
				dup = dup || c == p
			}
			if !dup {
				cands = append(cands, p)
			}
		}
		tb = b
	}
	if len(cands) == 0 {
		t.Fatalf("no plaintext modulus for logn=%d", logn)
	}
	s.T = cands[rapid.IntRange(0, len(cands)-1).Draw(t, "tpick")]
	tb = mbits.Len64(s.T)

	nQ := rapid.IntRange(1, 4).Draw(t, "nQ")
	mQ := uint64(2) << s.LogN
	minQ := h.MinPrimeBits(mQ) + 1
	sizes := make([]int, nQ)
	for i := range sizes {
		lo := minQ
		if i == 0 {
			lo = tb + 3
			if tight {
				lo = tb + 1
			}
			if lo < minQ {
				lo = minQ
			}
			if lo > 61 {
				lo = 61
			}
		}
		switch rapid.IntRange(0, 4).Draw(t, fmt.Sprintf("qk%d", i)) {
		case 0:
			sizes[i] = lo
		case 1:
			sizes[i] = 61
		default:
			sizes[i] = rapid.IntRange(lo, 61).Draw(t, fmt.Sprintf("qb%d", i))
		}
	}
	s.Q = h.GenPrimes(t, sizes, mQ, map[uint64]bool{s.T: true}, "q")
	s.Xs, s.Xe = h.DefaultXs, h.DefaultXe
	s.NTT = true
	return
}

// rejectedTight reports whether the literal lies in the class t > Q[0]/2, in which a plaintext round trip cannot be exact
// at level 0 (finding C07:bgv:roundtrip:2t>=Qlevel); bgv.NewParameters may legitimately refuse it.
func rejectedTight(s h.BGVSpec) bool { return len(s.Q) > 0 && s.T > s.Q[0]>>1 }

// ---------------------------------------------------------------------------------------------------------------
// values
// ---------------------------------------------------------------------------------------------------------------

var bgvPatterns = []string{"reduced", "uniform64", "boundary", "mix", "zero", "tm1", "onehot"}

func boundaryU(t uint64, r *h.SplitMix) uint64 {
	b := []uint64{0, 1, t - 1, t, t + 1, 2*t - 1, 2 * t, (t - 1) / 2, (t + 1) / 2, 1 << 63, 1<<63 - 1, 1<<63 + 1, ^uint64(0), ^uint64(0) - 1,
		(^uint64(0) / t) * t, (^uint64(0)/t)*t - 1, 1 << 62, 1 << 32}
	return b[r.Intn(len(b))]
}

func boundaryI(t uint64, r *h.SplitMix) int64 {
	ti := int64(t)
	b := []int64{0, 1, -1, math.MinInt64, math.MinInt64 + 1, math.MaxInt64, math.MaxInt64 - 1, -ti, ti, ti - 1, -(ti - 1), ti + 1, -(ti + 1),
		(ti - 1) / 2, -(ti - 1) / 2, (ti + 1) / 2, -(ti + 1) / 2, 2 * ti, -2 * ti, -(1 << 62), 1 << 62, -(1 << 32)}
	return b[r.Intn(len(b))]
}

func fillU(pat string, t uint64, n int, r *h.SplitMix) []uint64 {
	out := make([]uint64, n)
	for i := range out {
		switch pat {
		case "reduced":
			out[i] = r.Uint64() % t
		case "uniform64":
			out[i] = r.Uint64()
		case "boundary":
			out[i] = boundaryU(t, r)
		case "mix":
			if r.Intn(2) == 0 {
				out[i] = boundaryU(t, r)
			} else {
				out[i] = r.Uint64() % t
			}
		case "tm1":
			out[i] = t - 1
		}
	}
	if pat == "onehot" && n > 0 {
		out[r.Intn(n)] = boundaryU(t, r)
	}
	return out
}

func fillI(pat string, t uint64, n int, r *h.SplitMix) []int64 {
	out := make([]int64, n)
	for i := range out {
		switch pat {
		case "reduced":
			out[i] = int64(r.Uint64()%t) - int64(t/2)
		case "uniform64":
			out[i] = int64(r.Uint64())
		case "boundary":
			out[i] = boundaryI(t, r)
		case "mix":
			if r.Intn(2) == 0 {
				out[i] = boundaryI(t, r)
			} else {
				out[i] = int64(r.Uint64()%t) - int64(t/2)
			}
		case "tm1":
			out[i] = -int64(t / 2)
		}
	}
	if pat == "onehot" && n > 0 {
		out[r.Intn(n)] = boundaryI(t, r)
	}
	return out
}

// modI returns x mod t in [0,t) for a signed x (independent of lattigo).
func modI(x int64, t uint64) uint64 {
	m := new(big.Int).Mod(big.NewInt(x), new(big.Int).SetUint64(t))
	return m.Uint64()
}

func mulmod(a, b, q uint64) uint64 {
	hi, lo := mbits.Mul64(a%q, b%q)
	_, r := mbits.Div64(hi, lo, q)
	return r
}

// ---------------------------------------------------------------------------------------------------------------
// round trip
// ---------------------------------------------------------------------------------------------------------------

// BGVCase is one Encode/Decode round trip of the integer encoder.
type BGVCase struct {
	Params    h.BGVSpec `json:"params"`
	Level     int       `json:"level"`
	Scale     uint64    `json:"scale"`     // plaintext scale in [1, t-1]
	Batched   bool      `json:"batched"`   // slot (true) or coefficient (false) encoding
	NTT       bool      `json:"ntt"`       // pt.IsNTT
	Signed    bool      `json:"signed"`    // input is []int64
	OutSigned bool      `json:"outSigned"` // output is []int64
	Len       int       `json:"len"`       // input length (clamped to the slot count)
	OutLen    int       `json:"outLen"`    // output length (clamped to the slot count)
	Pat       string    `json:"pat"`
	Seed      uint64    `json:"seed"`
	Dirty     bool      `json:"dirty"`            // the plaintext and the encoder were used before for another (full) vector
	LongIn    bool      `json:"longIn,omitempty"` // first, an input one element longer than the slot count: Encode must return an error
	// Then is a second, fully checked round trip on the SAME encoder and the SAME plaintext object (same parameters and level)
	Then *BGVCase `json:"then,omitempty"`
}

type bgvShared struct {
	ecd *bgv.Encoder
	pt  *rlwe.Plaintext
}

func (c BGVCase) RandSeed() uint64 { return c.Seed }

func genScale(t *rapid.T, T uint64, label string) uint64 {
	switch rapid.IntRange(0, 5).Draw(t, label+"k") {
	case 0, 1:
		return 1
	case 2:
		return T - 1
	case 3:
		return 2
	default:
		return rapid.Uint64Range(1, T-1).Draw(t, label)
	}
}

func genLen(t *rapid.T, n int, label string) int {
	switch rapid.IntRange(0, 7).Draw(t, label+"k") {
	case 0:
		return 0
	case 1:
		return 1
	case 2:
		return n - 1
	case 3, 4:
		return n
	case 5:
		return n / 2
	default:
		return rapid.IntRange(0, n).Draw(t, label)
	}
}

func genBGV(t *rapid.T) BGVCase {
	c := genBGVStep(t, nil)
	if rapid.IntRange(0, 2).Draw(t, "then") != 0 {
		d := genBGVStep(t, &c)
		c.Then = &d
	}
	return c
}

func genBGVStep(t *rapid.T, first *BGVCase) BGVCase {
	var c BGVCase
	maxLogN := 7
	if h.Thorough() {
		maxLogN = 9
	}
	if first != nil {
		c.Params, c.Level = first.Params, first.Level
	} else {
		c.Params, _ = genBGVSpec(t, maxLogN)
		c.Level = rapid.IntRange(0, len(c.Params.Q)-1).Draw(t, "level")
	}
	c.Scale = genScale(t, c.Params.T, "scale")
	c.Batched = rapid.IntRange(0, 3).Draw(t, "batched") != 0
	c.NTT = rapid.IntRange(0, 3).Draw(t, "ntt") != 0
	c.Signed = rapid.Bool().Draw(t, "signed")
	c.OutSigned = rapid.Bool().Draw(t, "outSigned")
	n := 1 << c.Params.LogN // upper bound; clamped in run to the real slot count
	c.Len = genLen(t, n, "len")
	if rapid.IntRange(0, 2).Draw(t, "outFull") != 0 {
		c.OutLen = n
	} else {
		c.OutLen = genLen(t, n, "outLen")
	}
	c.Pat = bgvPatterns[rapid.IntRange(0, len(bgvPatterns)-1).Draw(t, "pat")]
	c.Seed = rapid.Uint64().Draw(t, "seed")
	c.Dirty = rapid.Bool().Draw(t, "dirty")
	c.LongIn = rapid.IntRange(0, 15).Draw(t, "longIn") == 0
	return c
}

func lenClass(l, n int) string {
	switch {
	case l == 0:
		return "0"
	case l == 1:
		return "1"
	case l == n:
		return "full"
	default:
		return "short"
	}
}

func scaleClass(s, t uint64) string {
	switch s {
	case 1:
		return "1"
	case t - 1:
		return "t-1"
	}
	return "other"
}

func levelClass(l, max int) string {
	switch {
	case l == max:
		return "max"
	case l == 0:
		return "0"
	}
	return "mid"
}

func tClass(t uint64) string {
	b := mbits.Len64(t)
	switch {
	case b <= 17:
		return "t<=17b"
	case b <= 40:
		return "t<=40b"
	}
	return "t>40b"
}

func runBGV(c BGVCase, rec *h.Rec) error {
	sh := &bgvShared{}
	if err := stepBGV(c, sh, rec); err != nil {
		return err
	}
	if c.Then != nil {
		t := *c.Then
		t.Params, t.Level, t.Then, t.Dirty = c.Params, c.Level, nil, false
		if err := stepBGV(t, sh, rec); err != nil {
			if f, ok := err.(*h.Failure); ok {
				return fail(rec, f.Key+":second-use", "second round trip on the same encoder and plaintext: %s", f.Msg)
			}
			return err
		}
	}
	return nil
}

func stepBGV(c BGVCase, sh *bgvShared, rec *h.Rec) error {
	params, err := c.Params.Build()
	if err != nil {
		if rejectedTight(c.Params) {
			rec.Class("rejected:2t>Q[0]")
			return nil
		}
		return h.Failf("C07:bgv:params-rejected", "generated parameters rejected: %v", err)
	}
	T := params.PlaintextModulus()
	n := params.RingT().N()
	N := params.N()
	gap := N / n
	if params.MaxSlots() != n {
		return h.Failf("C07:bgv:MaxSlots", "MaxSlots()=%d but the plaintext ring has degree %d", params.MaxSlots(), n)
	}
	// independent computation of the plaintext ring degree: largest power of two n' <= N with t = 1 mod 2n'
	nWant := N
	for nWant > 1 && (T-1)%uint64(2*nWant) != 0 {
		nWant >>= 1
	}
	if nWant != n {
		return h.Failf("C07:bgv:plaintext-ring-degree", "t=%d N=%d: plaintext ring degree %d, expected %d", T, N, n, nWant)
	}
	level := c.Level
	if level > params.MaxLevel() {
		level = params.MaxLevel()
	}
	inLen, outLen := c.Len, c.OutLen
	if inLen > n {
		inLen = n
	}
	if outLen > n {
		outLen = n
	}
	scale := c.Scale%(T-1) + 1
	if c.Scale >= 1 && c.Scale < T {
		scale = c.Scale
	}

	// does the lifted message fit below Q_level/2 ? (bgv.NewParameters only checks t <= Q[0])
	Ql := h.ProdU(c.Params.Q[:level+1])
	tight := new(big.Int).Lsh(h.BU(T), 1).Cmp(Ql) >= 0

	if sh.ecd == nil {
		sh.ecd = bgv.NewEncoder(params)
		sh.pt = bgv.NewPlaintext(params, level)
	}
	ecd, pt := sh.ecd, sh.pt
	pt.IsBatched = c.Batched
	pt.IsNTT = c.NTT
	rng := h.NewSplitMix(c.Seed)

	if c.LongIn {
		// near miss of the length condition: one element too many must be refused with an error, not a panic
		rec.Classf("longIn:%s", b2s(c.Batched, "slots", "coeffs"))
		pt.Scale = rlwe.NewScaleModT(1, T)
		err, pan := guard(func() error { return ecd.Encode(make([]uint64, n+1), pt) })
		if pan != "" {
			return fail(rec, "C07:bgv:Encode:too-long-input:panic:"+b2s(c.Batched, "slots", "coeffs"), "Encode of %d values into %d slots panicked: %s", n+1, n, pan)
		}
		if err == nil {
			return fail(rec, "C07:bgv:Encode:too-long-input:accepted:"+b2s(c.Batched, "slots", "coeffs"), "Encode of %d values into %d slots returned no error", n+1, n)
		}
	}

	if c.Dirty {
		pt.Scale = rlwe.NewScaleModT(rng.Uint64()%(T-1)+1, T)
		if err := ecd.Encode(fillU("reduced", T, n, rng), pt); err != nil {
			return h.Failf("C07:bgv:Encode:error", "warm-up Encode: %v", err)
		}
		tmp := make([]uint64, n)
		if err := ecd.Decode(pt, tmp); err != nil {
			return h.Failf("C07:bgv:Decode:error", "warm-up Decode: %v", err)
		}
	}
	pt.Scale = rlwe.NewScaleModT(scale, T)

	want := make([]uint64, n) // all slots, unspecified ones are zero
	var in any
	if c.Signed {
		v := fillI(c.Pat, T, inLen, rng)
		for i, x := range v {
			want[i] = modI(x, T)
		}
		in = v
	} else {
		v := fillU(c.Pat, T, inLen, rng)
		for i, x := range v {
			want[i] = x % T
		}
		in = v
	}

	dom := b2s(c.Batched, "slots", "coeffs")
	ityp := b2s(c.Signed, "int64", "uint64")
	otyp := b2s(c.OutSigned, "int64", "uint64")
	rec.Classf("domain=%s", dom)
	rec.Classf("in=%s/out=%s", ityp, otyp)
	rec.Classf("gap=%s", b2s(gap > 1, ">1", "1"))
	rec.Classf("len=%s", lenClass(inLen, n))
	rec.Classf("outLen=%s", lenClass(outLen, n))
	rec.Classf("scale=%s", scaleClass(scale, T))
	rec.Classf("level=%s", levelClass(level, params.MaxLevel()))
	rec.Classf("pat=%s", c.Pat)
	rec.Classf("ntt=%v", c.NTT)
	rec.Classf("dirty=%v", c.Dirty)
	rec.Class(tClass(T))
	if tight {
		rec.Class("2t>=Qlevel")
	}

	inSnap := snapAny(in)
	err, pan := guard(func() error { return ecd.Encode(in, pt) })
	if pan == "" && err == nil && snapAny(in) != inSnap {
		return fail(rec, "C07:bgv:Encode:modifies-input", "Encode modified its input slice")
	}
	if pan != "" {
		return fail(rec, fmt.Sprintf("C07:bgv:Encode:%s:%s:panic", dom, ityp), "Encode panicked: %s (t=%d n=%d len=%d)", pan, T, n, inLen)
	}
	if err != nil {
		return fail(rec, fmt.Sprintf("C07:bgv:Encode:%s:%s:error", dom, ityp), "Encode returned %v for len=%d <= %d slots", err, inLen, n)
	}

	const sentinelU = 0xdeadbeefdeadbeef
	const sentinelI = -0x2152411021524111
	var gotU []uint64
	var gotI []int64
	var out any
	if c.OutSigned {
		gotI = make([]int64, outLen)
		for i := range gotI {
			gotI[i] = sentinelI
		}
		out = gotI
	} else {
		gotU = make([]uint64, outLen)
		for i := range gotU {
			gotU[i] = sentinelU
		}
		out = gotU
	}
	ptSnap := snapPlaintext(pt)
	err, pan = guard(func() error { return ecd.Decode(pt, out) })
	if pan == "" && snapPlaintext(pt) != ptSnap {
		return fail(rec, "C07:bgv:Decode:modifies-plaintext", "Decode modified the plaintext")
	}
	if pan != "" {
		k := fmt.Sprintf("C07:bgv:Decode:%s:%s:%s:panic", dom, otyp, b2s(outLen < n, "short-output", "full-output"))
		return fail(rec, k, "Decode panicked: %s (output slice of length %d, %d slots; doc: 'of size at most N')", pan, outLen, n)
	}
	if err != nil {
		return fail(rec, fmt.Sprintf("C07:bgv:Decode:%s:%s:error", dom, otyp), "Decode returned %v", err)
	}

	cls := "value"
	half := (T + 1) / 2
	for i := 0; i < outLen; i++ {
		var g uint64
		if c.OutSigned {
			a := gotI[i]
			var abs uint64
			if a < 0 {
				abs = uint64(-a)
			} else {
				abs = uint64(a)
			}
			if abs > half {
				return fail(rec, fmt.Sprintf("C07:bgv:roundtrip:%s:signed-range", dom), "slot %d: decoded %d has |v| > (t+1)/2 = %d (t=%d)", i, a, half, T)
			}
			g = modI(a, T)
		} else {
			g = gotU[i]
			if g >= T {
				return fail(rec, fmt.Sprintf("C07:bgv:roundtrip:%s:unsigned-range", dom), "slot %d: decoded %d >= t=%d", i, g, T)
			}
		}
		if g != want[i] {
			if i >= inLen {
				cls = "unspecified-slot-nonzero"
			}
			key := fmt.Sprintf("C07:bgv:roundtrip:%s:%s->%s:%s", dom, ityp, otyp, cls)
			if tight {
				key = "C07:bgv:roundtrip:2t>=Qlevel"
			} else if !c.NTT {
				key += ":IsNTT=false"
			}
			return fail(rec, key, "slot %d of %d: got %d want %d (t=%d N=%d n=%d level=%d scale=%d len=%d dirty=%v)", i, n, g, want[i], T, N, n, level, scale, inLen, c.Dirty)
		}
	}

	boundary := c.Pat != "reduced"
	if !tight && (inLen < n || gap > 1 || scale != 1 || level < params.MaxLevel() || boundary || !c.Batched || !c.NTT) && outLen > 0 {
		rec.NonTrivial(fmt.Sprintf("bgv-rt|%s|%s>%s|gap%s|len=%s|out=%s|s=%s|l=%s|%s|ntt=%v|dirty=%v|%s|logN=%d", dom, ityp, otyp, b2s(gap > 1, ">1", "1"),
			lenClass(inLen, n), lenClass(outLen, n), scaleClass(scale, T), levelClass(level, params.MaxLevel()), c.Pat, c.NTT, c.Dirty, tClass(T), c.Params.LogN))
	}
	return nil
}

var propBGV = h.NewProp("TestPropBGVRoundTrip", h.Budget{Quick: 900, Thorough: 14000}, genBGV, runBGV)

func TestPropBGVRoundTrip(t *testing.T) { propBGV.Check(t) }
