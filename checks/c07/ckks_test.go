package c07

import (
	"fmt"
	"math"
	"math/big"
	mbits "math/bits"
	"strings"
	"testing"

	"verif/internal/h"

	"github.com/tuneinsight/lattigo/v6/core/rlwe"
	"github.com/tuneinsight/lattigo/v6/schemes/ckks"
	"github.com/tuneinsight/lattigo/v6/utils/bignum"
	"pgregory.net/rapid"
)

// ---------------------------------------------------------------------------------------------------------------
// oracle arithmetic (big.Float at a working precision far above every encoder precision)
// ---------------------------------------------------------------------------------------------------------------

const wp = 420

func bf() *big.Float                  { return new(big.Float).SetPrec(wp) }
func bfF(x float64) *big.Float        { return bf().SetFloat64(x) }
func bfC(x *big.Float) *big.Float     { return bf().Set(x) }
func pow2(e int) *big.Float           { return bf().SetMantExp(bfF(1), e) }
func absB(x *big.Float) *big.Float    { return bf().Abs(x) }
func addB(a, b *big.Float) *big.Float { return bf().Add(a, b) }
func subB(a, b *big.Float) *big.Float { return bf().Sub(a, b) }
func mulB(a, b *big.Float) *big.Float { return bf().Mul(a, b) }
func quoB(a, b *big.Float) *big.Float { return bf().Quo(a, b) }
func maxB(a, b *big.Float) *big.Float {
	if a.Cmp(b) >= 0 {
		return a
	}
	return b
}

// log2f is a float64 approximation of log2|x| (for messages and notes only).
func log2f(x *big.Float) float64 {
	if x.Sign() == 0 {
		return math.Inf(-1)
	}
	m := new(big.Float)
	e := x.MantExp(m)
	f, _ := m.Float64()
	return float64(e) + math.Log2(math.Abs(f))
}

// floorLog2 returns floor(log2 x) for x > 0.
func floorLog2(x *big.Float) int { return x.MantExp(nil) - 1 }

// pow2frac returns 2^x for x a multiple of 2^-16, from the integer part and successive square roots of 2.
func pow2frac(x float64) *big.Float {
	fl := math.Floor(x)
	r := pow2(int(fl))
	k := int(math.Round((x - fl) * 65536))
	root := bfF(2)
	for bit := 15; bit >= 0; bit-- {
		root = bf().Sqrt(root) // 2^(1/2), 2^(1/4), ...
		if k&(1<<bit) != 0 {
			r.Mul(r, root)
		}
	}
	return r
}

// snapAny renders a value slice exactly (used to check that a call leaves its input alone).
func snapAny(v any) string {
	var sb strings.Builder
	bfs := func(x *big.Float) {
		if x == nil {
			sb.WriteString("nil;")
		} else {
			fmt.Fprintf(&sb, "%s/%d;", x.Text('p', 0), x.Prec())
		}
	}
	switch v := v.(type) {
	case []complex128:
		for _, x := range v {
			fmt.Fprintf(&sb, "%x,%x;", math.Float64bits(real(x)), math.Float64bits(imag(x)))
		}
	case []float64:
		for _, x := range v {
			fmt.Fprintf(&sb, "%x;", math.Float64bits(x))
		}
	case []*big.Float:
		for _, x := range v {
			bfs(x)
		}
	case []*bignum.Complex:
		for _, x := range v {
			if x == nil {
				sb.WriteString("nil|")
			} else {
				bfs(x[0])
				bfs(x[1])
				sb.WriteString("|")
			}
		}
	case []uint64:
		fmt.Fprint(&sb, v)
	case []int64:
		fmt.Fprint(&sb, v)
	}
	return sb.String()
}

// snapPlaintext renders the coefficients and the metadata of a plaintext.
func snapPlaintext(pt *rlwe.Plaintext) string {
	h64 := uint64(1469598103934665603)
	for _, limb := range pt.Value.Coeffs {
		for _, x := range limb {
			h64 = (h64 ^ x) * 1099511628211
		}
	}
	return fmt.Sprintf("%x|%d|%s|%v|%v|%v|%v", h64, len(pt.Value.Coeffs), pt.Scale.Value.Text('p', 0), pt.IsNTT, pt.IsMontgomery, pt.IsBatched, pt.LogDimensions)
}

type cval struct{ re, im *big.Float }

func zeroC() cval { return cval{bf(), bf()} }

// ---------------------------------------------------------------------------------------------------------------
// case
// ---------------------------------------------------------------------------------------------------------------

var ckksTypes = []string{"c128", "f64", "bigf", "bigc"}
var ckksPatterns = []string{"uniform", "logmag", "max", "neg", "zero", "onehot", "const", "tiny"}

// CKKSCase is one Encode/Decode (and optionally DecodePublic) round trip of the approximate encoder.
type CKKSCase struct {
	Params    h.CKKSSpec `json:"params"`
	Prec      uint       `json:"prec"`      // encoder precision; 0 = default of the parameters
	Level     int        `json:"level"`     // clamped to the chain
	ScaleLog  int        `json:"scaleLog"`  // plaintext scale = 2^ScaleLog * (1 + ScaleMant/2^32), clamped to Q_level/8
	ScaleMant uint32     `json:"scaleMant"` //
	Batched   bool       `json:"batched"`   // slot (true) or coefficient (false) domain
	NTT       bool       `json:"ntt"`       // pt.IsNTT
	LogSlots  int        `json:"logSlots"`  // clamped to [0, LogMaxSlots]
	Len       int        `json:"len"`       // input length, clamped to [1, slots]
	OutLen    int        `json:"outLen"`    // output length, clamped to [1, slots]
	In        string     `json:"in"`        // c128 | f64 | bigf | bigc
	Out       string     `json:"out"`
	OutNil    bool       `json:"outNil"` // big outputs: nil entries (allocated by Decode) instead of pre-allocated ones
	InPrec    uint       `json:"inPrec"` // mantissa size of big inputs
	Drop      int        `json:"drop"`   // max |value| = 2^(maxExp-Drop), maxExp = floor(log2(0.45 Q_level/scale)); -1: |value| ~ 1
	Pat       string     `json:"pat"`
	Seed      uint64     `json:"seed"`
	Dirty     bool       `json:"dirty"`            // encoder and plaintext used before for another vector
	LogPrec   float64    `json:"logPrec"`          // 0: no DecodePublic step; else compared with Decode
	NilAt     int        `json:"nilAt,omitempty"`  // big input types: entry (NilAt-1) mod len is nil (the encoders treat nil as zero); 0: none
	LongIn    bool       `json:"longIn,omitempty"` // input one element longer than the slot count: Encode must return an error
	// Then is a second, fully checked round trip on the SAME encoder and the SAME plaintext object (Params/Prec/Level of the first)
	Then *CKKSCase `json:"then,omitempty"`
}

// ckksShared is what the second step of a case inherits from the first.
type ckksShared struct {
	ecd *ckks.Encoder
	pt  *rlwe.Plaintext
}

func (c CKKSCase) RandSeed() uint64 { return c.Seed }

func genCKKSSpec(t *rapid.T, maxLogN int) h.CKKSSpec {
	yes := true
	minBits := 12
	if rapid.IntRange(0, 2).Draw(t, "bigPrimes") == 0 {
		minBits = 40
	}
	r := h.GenRLWESpec(t, h.RLWEOpts{MinLogN: 4, MaxLogN: maxLogN, MinQ: 1, MaxQ: 4, MinP: 0, MaxP: 0, MinBits: minBits, MaxBits: 61, AllowCI: true, NTT: &yes, DefaultDists: true})
	ls := []int{20, 30, 40, 45, 53, 54, 60, 80, 90, 120}
	return h.CKKSSpec{RLWESpec: r, LogScale: ls[rapid.IntRange(0, len(ls)-1).Draw(t, "logDefaultScale")]}
}

func sumBits(q []uint64) (b int) {
	for _, x := range q {
		b += mbits.Len64(x) - 1
	}
	return
}

func genPrec(t *rapid.T) uint {
	switch rapid.IntRange(0, 9).Draw(t, "preck") {
	case 0, 1, 2, 3:
		return 0
	case 4:
		return 53
	case 5, 6:
		return 128
	case 7:
		return 256
	case 8:
		return 64
	default:
		return 90
	}
}

func genScaleLog(t *rapid.T, logQ int, label string) (int, uint32) {
	maxK := logQ - 3
	if maxK > 120 {
		maxK = 120
	}
	if maxK < 1 {
		maxK = 1
	}
	lo := 10
	if lo > maxK {
		lo = maxK
	}
	var k int
	switch rapid.IntRange(0, 5).Draw(t, label+"k") {
	case 0:
		k = lo
	case 1:
		k = maxK
	default:
		k = rapid.IntRange(lo, maxK).Draw(t, label)
	}
	var mant uint32
	if rapid.Bool().Draw(t, label+"odd") {
		mant = rapid.Uint32().Draw(t, label+"mant")
	}
	return k, mant
}

func genDrop(t *rapid.T, label string) int {
	switch rapid.IntRange(0, 7).Draw(t, label+"k") {
	case 0, 1:
		return 0
	case 2:
		return 1 << 20 // clamped to the bottom of the range: |value|*scale ~ 1
	case 3, 4:
		return -1
	default:
		return rapid.IntRange(0, 200).Draw(t, label)
	}
}

// genCKKSStep draws one round trip; with first != nil it draws a second one for the same parameters, precision and level.
func genCKKSStep(t *rapid.T, first *CKKSCase) CKKSCase {
	var c CKKSCase
	maxLogN := 7
	if h.Thorough() {
		maxLogN = 9
	}
	if first != nil {
		c.Params, c.Prec, c.Level = first.Params, first.Prec, first.Level
	} else {
		c.Params = genCKKSSpec(t, maxLogN)
		c.Prec = genPrec(t)
		c.Level = rapid.IntRange(0, len(c.Params.Q)-1).Draw(t, "level")
		if rapid.IntRange(0, 2).Draw(t, "maxLevel") == 0 {
			c.Level = len(c.Params.Q) - 1
		}
	}
	c.ScaleLog, c.ScaleMant = genScaleLog(t, sumBits(c.Params.Q[:c.Level+1]), "scale")
	c.Batched = rapid.IntRange(0, 3).Draw(t, "batched") != 0
	c.NTT = rapid.IntRange(0, 5).Draw(t, "ntt") != 0
	maxLogSlots := c.Params.LogN - 1
	if c.Params.CI {
		maxLogSlots = c.Params.LogN
	}
	if rapid.IntRange(0, 2).Draw(t, "fullSlots") == 0 {
		c.LogSlots = maxLogSlots
	} else {
		c.LogSlots = rapid.IntRange(0, maxLogSlots).Draw(t, "logSlots")
	}
	n := 1 << c.LogSlots
	if !c.Batched {
		n = 1 << c.Params.LogN
	}
	c.Len = genLen(t, n, "len")
	if rapid.IntRange(0, 2).Draw(t, "outFull") != 0 {
		c.OutLen = n
	} else {
		c.OutLen = genLen(t, n, "outLen")
	}
	if c.Batched {
		c.In = ckksTypes[rapid.IntRange(0, 3).Draw(t, "in")]
	} else {
		c.In = ckksTypes[rapid.IntRange(1, 2).Draw(t, "in")]
	}
	c.Out = ckksTypes[rapid.IntRange(0, 3).Draw(t, "out")]
	c.OutNil = rapid.Bool().Draw(t, "outNil")
	c.InPrec = []uint{53, 64, 128, 256}[rapid.IntRange(0, 3).Draw(t, "inPrec")]
	c.Drop = genDrop(t, "drop")
	c.Pat = ckksPatterns[rapid.IntRange(0, len(ckksPatterns)-1).Draw(t, "pat")]
	c.Seed = rapid.Uint64().Draw(t, "seed")
	c.Dirty = rapid.Bool().Draw(t, "dirty")
	if rapid.IntRange(0, 1).Draw(t, "public") == 1 {
		switch rapid.IntRange(0, 3).Draw(t, "logpreck") {
		case 0:
			c.LogPrec = float64(rapid.IntRange(1, 60).Draw(t, "logprecInt"))
		case 1:
			c.LogPrec = float64(rapid.IntRange(1, 120).Draw(t, "logprec2")) / 2
		default:
			c.LogPrec = float64(rapid.IntRange(1<<14, 60<<16).Draw(t, "logprec16")) / 65536
		}
	}
	if rapid.IntRange(0, 5).Draw(t, "nil") == 0 {
		c.NilAt = rapid.IntRange(1, 1<<c.Params.LogN).Draw(t, "nilAt")
	}
	c.LongIn = rapid.IntRange(0, 15).Draw(t, "longIn") == 0
	return c
}

func genCKKS(t *rapid.T) CKKSCase {
	c := genCKKSStep(t, nil)
	if rapid.IntRange(0, 2).Draw(t, "then") != 0 {
		d := genCKKSStep(t, &c)
		c.Then = &d
	}
	return c
}

// ---------------------------------------------------------------------------------------------------------------
// value generation
// ---------------------------------------------------------------------------------------------------------------

// randComp returns sign * (m / 2^mb) * 2^e with an mb-bit random mantissa m: |x| < 2^e. full: mantissa of all ones.
func randComp(r *h.SplitMix, mb uint, e int, full bool, sign int) *big.Float {
	m := new(big.Int)
	total := uint(0)
	for ; total < mb; total += 64 {
		m.Lsh(m, 64)
		m.Or(m, new(big.Int).SetUint64(r.Uint64()))
	}
	m.Rsh(m, total-mb)
	if full {
		m.Sub(new(big.Int).Lsh(big.NewInt(1), mb), big.NewInt(1))
	}
	x := bf().SetInt(m)
	x.SetMantExp(x, e-int(mb))
	if sign == 0 {
		sign = 1 - 2*r.Intn(2)
	}
	if sign < 0 {
		x.Neg(x)
	}
	return x
}

// fillC produces n complex values of modulus < 2^E (components < 2^(E-1)); bottom is the smallest exponent used.
func fillC(pat string, n int, E, bottom int, mb uint, r *h.SplitMix) []cval {
	out := make([]cval, n)
	for i := range out {
		out[i] = zeroC()
	}
	if n == 0 {
		return out
	}
	e := E - 1
	var cst cval
	if pat == "const" {
		cst = cval{randComp(r, mb, e, false, 0), randComp(r, mb, e, false, 0)}
	}
	for i := range out {
		switch pat {
		case "uniform":
			out[i] = cval{randComp(r, mb, e, false, 0), randComp(r, mb, e, false, 0)}
		case "logmag":
			ee := bottom
			if e > bottom {
				ee = bottom + r.Intn(e-bottom+1)
			}
			out[i] = cval{randComp(r, mb, ee, false, 0), randComp(r, mb, ee, false, 0)}
		case "max":
			out[i] = cval{randComp(r, mb, e, true, 0), randComp(r, mb, e, true, 0)}
		case "neg":
			out[i] = cval{randComp(r, mb, e, r.Intn(2) == 0, -1), randComp(r, mb, e, false, -1)}
		case "const":
			out[i] = cval{bfC(cst.re), bfC(cst.im)}
		case "tiny":
			out[i] = cval{randComp(r, mb, bottom, false, 0), randComp(r, mb, bottom, false, 0)}
		}
	}
	if pat == "onehot" {
		out[r.Intn(n)] = cval{randComp(r, mb, e, true, 0), randComp(r, mb, e, true, 0)}
	}
	return out
}

// toInput converts exact values to the Go type handed to the encoder and returns what the encoder is told exactly
// (imaginary parts dropped for real types).
func toInput(typ string, v []cval, prec uint) (any, []cval) {
	told := make([]cval, len(v))
	switch typ {
	case "c128":
		in := make([]complex128, len(v))
		for i := range v {
			a, _ := v[i].re.Float64()
			b, _ := v[i].im.Float64()
			in[i] = complex(a, b)
			told[i] = cval{bfF(a), bfF(b)}
		}
		return in, told
	case "f64":
		in := make([]float64, len(v))
		for i := range v {
			a, _ := v[i].re.Float64()
			in[i] = a
			told[i] = cval{bfF(a), bf()}
		}
		return in, told
	case "bigf":
		in := make([]*big.Float, len(v))
		for i := range v {
			in[i] = new(big.Float).SetPrec(prec).Set(v[i].re)
			told[i] = cval{bfC(in[i]), bf()}
		}
		return in, told
	default:
		in := make([]*bignum.Complex, len(v))
		for i := range v {
			in[i] = &bignum.Complex{new(big.Float).SetPrec(prec).Set(v[i].re), new(big.Float).SetPrec(prec).Set(v[i].im)}
			told[i] = cval{bfC(in[i][0]), bfC(in[i][1])}
		}
		return in, told
	}
}

const sentinelF = 12345.678

func newOutput(typ string, n int, isNil bool) any {
	switch typ {
	case "c128":
		o := make([]complex128, n)
		for i := range o {
			o[i] = complex(sentinelF, -sentinelF)
		}
		return o
	case "f64":
		o := make([]float64, n)
		for i := range o {
			o[i] = sentinelF
		}
		return o
	case "bigf":
		o := make([]*big.Float, n)
		if !isNil {
			for i := range o {
				o[i] = new(big.Float).SetPrec(300).SetFloat64(sentinelF)
			}
		}
		return o
	default:
		o := make([]*bignum.Complex, n)
		if !isNil {
			for i := range o {
				o[i] = &bignum.Complex{new(big.Float).SetPrec(300).SetFloat64(sentinelF), new(big.Float).SetPrec(300).SetFloat64(-sentinelF)}
			}
		}
		return o
	}
}

// fromOutput reads a decoded slice; hasIm tells whether the type carries an imaginary part.
func fromOutput(out any) (v []cval, hasIm bool, err string) {
	fin := func(x float64) bool { return !math.IsNaN(x) && !math.IsInf(x, 0) }
	switch o := out.(type) {
	case []complex128:
		for i, x := range o {
			if !fin(real(x)) || !fin(imag(x)) {
				return nil, true, fmt.Sprintf("entry %d is not finite: %v", i, x)
			}
			v = append(v, cval{bfF(real(x)), bfF(imag(x))})
		}
		return v, true, ""
	case []float64:
		for i, x := range o {
			if !fin(x) {
				return nil, false, fmt.Sprintf("entry %d is not finite: %v", i, x)
			}
			v = append(v, cval{bfF(x), bf()})
		}
		return v, false, ""
	case []*big.Float:
		for i, x := range o {
			if x == nil || x.IsInf() {
				return nil, false, fmt.Sprintf("entry %d is nil or infinite", i)
			}
			v = append(v, cval{bfC(x), bf()})
		}
		return v, false, ""
	case []*bignum.Complex:
		for i, x := range o {
			if x == nil || x[0] == nil || x[0].IsInf() {
				return nil, true, fmt.Sprintf("entry %d is nil or infinite", i)
			}
			im := bf()
			if x[1] != nil {
				if x[1].IsInf() {
					return nil, true, fmt.Sprintf("entry %d has an infinite imaginary part", i)
				}
				im.Set(x[1])
			}
			v = append(v, cval{bfC(x[0]), im})
		}
		return v, true, ""
	}
	return nil, false, "unknown output type"
}

// ---------------------------------------------------------------------------------------------------------------
// the round trip
// ---------------------------------------------------------------------------------------------------------------

type ckksEnv struct {
	params   ckks.Parameters
	ecd      *ckks.Encoder
	prec     uint // effective encoder precision (53 for the float64 path)
	arb      bool
	level    int
	Ql       *big.Int
	scale    *big.Float // exact plaintext scale
	scaleLog int
	maxExp   int // floor(log2(0.45 Q_level / scale))
	bottom   int // exponent at which |value| * scale ~ 1
}

func mkScale(k int, mant uint32) *big.Float {
	s := new(big.Float).SetPrec(128).SetInt64(int64(1)<<32 + int64(mant))
	return s.SetMantExp(s, k-32)
}

func setupCKKS(spec h.CKKSSpec, precReq uint, level, scaleLog int, mant uint32, reuse ...*ckks.Encoder) (*ckksEnv, error) {
	params, err := spec.Build()
	if err != nil {
		return nil, h.Failf("C07:ckks:params-rejected", "generated parameters rejected: %v", err)
	}
	e := &ckksEnv{params: params}
	if len(reuse) > 0 && reuse[0] != nil {
		e.ecd = reuse[0]
	} else if precReq == 0 {
		e.ecd = ckks.NewEncoder(params)
	} else {
		e.ecd = ckks.NewEncoder(params, precReq)
	}
	e.prec = e.ecd.Prec()
	e.arb = e.prec > 53
	if !e.arb {
		e.prec = 53
	}
	if level > params.MaxLevel() {
		level = params.MaxLevel()
	}
	if level < 0 {
		level = 0
	}
	e.level = level
	e.Ql = h.ProdU(spec.Q[:level+1])
	maxK := e.Ql.BitLen() - 1 - 3
	if maxK > 120 {
		maxK = 120
	}
	if scaleLog > maxK {
		scaleLog = maxK
	}
	if scaleLog < 1 {
		scaleLog = 1
	}
	e.scaleLog = scaleLog
	e.scale = mkScale(scaleLog, mant)
	ratio := quoB(mulB(bfF(0.45), bf().SetInt(e.Ql)), e.scale)
	e.maxExp = floorLog2(ratio)
	e.bottom = -scaleLog
	if e.bottom > e.maxExp {
		e.bottom = e.maxExp
	}
	return e, nil
}

func (e *ckksEnv) magExp(drop int) int {
	E := e.maxExp - drop
	if drop < 0 {
		E = 1
		if E > e.maxExp {
			E = e.maxExp
		}
	}
	if E < e.bottom {
		E = e.bottom
	}
	return E
}

func typeReal(t string) bool { return t == "f64" || t == "bigf" }
func typeF64(t string) bool  { return t == "c128" || t == "f64" }

func magClass(E, maxExp, bottom int) string {
	switch {
	case E == maxExp:
		return "mag=max"
	case E == bottom:
		return "mag=1/scale"
	case E == 1:
		return "mag=1"
	}
	return "mag=mid"
}

func precClass(e *ckksEnv) string {
	if !e.arb {
		return "f64"
	}
	if e.prec <= 64 {
		return "arb<=64"
	}
	if e.prec <= 128 {
		return "arb<=128"
	}
	return "arb>128"
}

func runCKKS(c CKKSCase, rec *h.Rec) error {
	sh := &ckksShared{}
	if err := stepCKKS(c, sh, rec, false); err != nil {
		return err
	}
	if c.Then != nil {
		t := *c.Then
		t.Params, t.Prec, t.Level, t.Then, t.Dirty = c.Params, c.Prec, c.Level, nil, false
		if err := stepCKKS(t, sh, rec, true); err != nil {
			if f, ok := err.(*h.Failure); ok {
				// the same step passes its own checks when it comes first (it is generated from the same distribution):
				// name the history dependence in the key
				return fail(rec, f.Key+":second-use", "second round trip on the same encoder and plaintext: %s", f.Msg)
			}
			return err
		}
	}
	return nil
}

func stepCKKS(c CKKSCase, sh *ckksShared, rec *h.Rec, second bool) error {
	e, err := setupCKKS(c.Params, c.Prec, c.Level, c.ScaleLog, c.ScaleMant, sh.ecd)
	if err != nil {
		return err
	}
	sh.ecd = e.ecd
	params := e.params
	maxLogSlots := params.LogMaxSlots()
	logSlots := c.LogSlots
	if logSlots > maxLogSlots {
		logSlots = maxLogSlots
	}
	if logSlots < 0 {
		logSlots = 0
	}
	slots := 1 << logSlots
	dim := 2 * slots // number of real polynomial coefficients carrying the message (each counted with multiplicity)
	if !c.Batched {
		slots = params.N()
		logSlots = maxLogSlots
		dim = 1
	}
	clamp := func(x int) int {
		if x < 1 {
			return 1
		}
		if x > slots {
			return slots
		}
		return x
	}
	inLen, outLen := clamp(c.Len), clamp(c.OutLen)
	in, out := c.In, c.Out
	if !c.Batched && !typeReal(in) {
		in = "f64"
	}
	inPrec := c.InPrec
	if inPrec < 53 {
		inPrec = 53
	}
	ci := c.Params.CI
	E := e.magExp(c.Drop)
	rng := h.NewSplitMix(c.Seed)

	pt := sh.pt
	if pt == nil {
		pt = ckks.NewPlaintext(params, e.level)
		sh.pt = pt
	}
	pt.LogDimensions.Cols = logSlots

	if c.Dirty {
		pt.IsBatched = true
		pt.IsNTT = true
		pt.LogDimensions.Cols = maxLogSlots
		pt.Scale = rlwe.NewScale(e.scale)
		w := fillC("uniform", 1<<maxLogSlots, e.maxExp, e.bottom, 53, rng)
		win, _ := toInput("c128", w, 53)
		if err := e.ecd.Encode(win, pt); err != nil {
			return h.Failf("C07:ckks:Encode:error", "warm-up Encode: %v", err)
		}
		if err := e.ecd.Decode(pt, make([]complex128, 1<<maxLogSlots)); err != nil {
			return h.Failf("C07:ckks:Decode:error", "warm-up Decode: %v", err)
		}
		pt.LogDimensions.Cols = logSlots
	}
	pt.IsBatched = c.Batched
	pt.IsNTT = c.NTT
	pt.Scale = rlwe.NewScale(e.scale)

	mb := uint(53)
	if !typeF64(in) {
		mb = inPrec
		if mb > 128 {
			mb = 128
		}
	}
	if c.LongIn {
		// near miss of the length condition: one element too many must be refused with an error, not a panic
		long, _ := toInput(in, fillC("uniform", slots+1, E, e.bottom, mb, rng), inPrec)
		err, pan := guard(func() error { return e.ecd.Encode(long, pt) })
		rec.Classf("longIn:%s", b2s(c.Batched, "slots", "coeffs"))
		if pan != "" {
			return fail(rec, "C07:ckks:Encode:too-long-input:panic:"+b2s(c.Batched, "slots", "coeffs"), "Encode of %d values into %d slots panicked: %s", slots+1, slots, pan)
		}
		if err == nil {
			return fail(rec, "C07:ckks:Encode:too-long-input:accepted:"+b2s(c.Batched, "slots", "coeffs"), "Encode of %d values into %d slots returned no error", slots+1, slots)
		}
	}
	vals := fillC(c.Pat, inLen, E, e.bottom, mb, rng)
	input, told := toInput(in, vals, inPrec)
	nilIdx := -1
	if c.NilAt > 0 && !typeF64(in) {
		nilIdx = (c.NilAt - 1) % inLen
		switch v := input.(type) {
		case []*big.Float:
			v[nilIdx] = nil
		case []*bignum.Complex:
			v[nilIdx] = nil
		}
		told[nilIdx] = zeroC() // the encoders read a nil entry as zero
		rec.Classf("nil-entry:%s", b2s(nilIdx == 0, "first", "other"))
	}
	inSnap := snapAny(input)

	// expected message: what the encoder was told, imaginary parts dropped in the conjugate-invariant ring and in the
	// coefficient domain, zero in the unspecified slots
	want := make([]cval, slots)
	vmax := bf()
	for i := range want {
		want[i] = zeroC()
		if i < inLen {
			want[i].re = told[i].re
			if !ci && c.Batched {
				want[i].im = told[i].im
			}
		}
		vmax = maxB(vmax, addB(absB(want[i].re), absB(want[i].im)))
	}

	dom := b2s(c.Batched, "slots", "coeffs")
	ring := b2s(ci, "ci", "std")
	pack := b2s(c.Batched && logSlots < maxLogSlots, "sparse", "full")
	rec.Classf("domain=%s", dom)
	rec.Classf("ring=%s", ring)
	rec.Classf("path=%s", precClass(e))
	rec.Classf("pack=%s", pack)
	rec.Classf("in=%s", in)
	rec.Classf("out=%s", out)
	rec.Classf("len=%s", lenClass(inLen, slots))
	rec.Classf("level=%s", levelClass(e.level, params.MaxLevel()))
	rec.Class(magClass(E, e.maxExp, e.bottom))
	rec.Classf("pat=%s", c.Pat)
	rec.Classf("ntt=%v", c.NTT)
	rec.Classf("dirty=%v", c.Dirty)
	rec.Classf("scale=%s", b2s(c.ScaleMant == 0, "pow2", "odd"))
	rec.Classf("limbs=%d", e.level+1)

	keyTail := fmt.Sprintf("%s:%s:%s:%s:IsNTT=%v", dom, ring, b2s(e.arb, "arbitrary", "float64"), pack, c.NTT)
	desc := fmt.Sprintf("in=%s out=%s(nil=%v) N=%d slots=%d len=%d outLen=%d level=%d/%d logQ=%d scale=2^%.3f prec=%d |v|<2^%d pat=%s dirty=%v",
		in, out, c.OutNil, params.N(), slots, inLen, outLen, e.level, params.MaxLevel(), e.Ql.BitLen(), log2f(e.scale), e.prec, E, c.Pat, c.Dirty)

	err, pan := guard(func() error { return e.ecd.Encode(input, pt) })
	if pan != "" && nilIdx == 0 && !c.Batched {
		return fail(rec, "C07:ckks:Encode:coeffs:bigf:nil-first-entry:panic", "Encode panicked: %s (values[0] == nil; nil entries at other positions are read as zero) (%s)", pan, desc)
	}
	if pan == "" && err == nil && snapAny(input) != inSnap {
		return fail(rec, "C07:ckks:Encode:modifies-input:"+in, "Encode modified its input slice (%s)", desc)
	}
	if pan != "" {
		if c.Batched && !c.NTT && pack == "sparse" {
			return fail(rec, "C07:ckks:Encode:slots:sparse:IsNTT=false", "Encode panicked: %s (%s)", pan, desc)
		}
		return fail(rec, "C07:ckks:Encode:panic:"+keyTail, "Encode panicked: %s (%s)", pan, desc)
	}
	if err != nil {
		return fail(rec, "C07:ckks:Encode:error:"+keyTail, "Encode returned %v (%s)", err, desc)
	}

	// tolerance ------------------------------------------------------------------------------------------------
	// rounding of `dim` fixed-point coefficients (each off by at most 1: half a unit, plus half a unit for the
	// round-to-even tie of the float64 conversion), summed by the decoding transform
	// (the tie only exists for fixed-point values >= 2^52 on the float64 path; below, and on the arbitrary-precision path,
	// the conversion rounds to nearest: half a unit)
	delta := 0.5 * (1 + 1e-9)
	if !e.arb && mulB(vmax, e.scale).Cmp(pow2(52)) >= 0 {
		delta = 1.0
	}
	if !c.Batched && in == "f64" && mulB(vmax, e.scale).Cmp(pow2(52)) >= 0 {
		delta = 1.0
	}
	tol := quoB(bfF(delta*float64(dim)), e.scale)
	// floating-point error of the two transforms at the encoder precision
	pEff := int(e.prec)
	if !c.Batched {
		pEff = 53
		if in == "bigf" {
			pEff = int(inPrec) // BigFloatToFixedPointCRT works at the precision of values[0]
		}
	}
	logDim := mbits.Len(uint(dim))
	floatDominated := mulB(vmax, pow2(-pEff+logDim+10)).Cmp(tol) > 0
	tol.Add(tol, mulB(vmax, pow2(-pEff+logDim+10)))
	// conversion of the result to the output type
	switch {
	case typeF64(out):
		tol.Add(tol, mulB(addB(vmax, tol), pow2(-51)))
	case !c.Batched && c.OutNil:
		tol.Add(tol, mulB(addB(vmax, tol), pow2(-62))) // big.Float.SetInt on a zero-precision receiver: 64 bits
	}

	// diagnostic only (used to name the failure): does the encoded polynomial hold coefficients >= q_i ?
	unreduced := false
	for j, q := range c.Params.Q[:e.level+1] {
		for _, x := range pt.Value.Coeffs[j] {
			unreduced = unreduced || x >= q
		}
	}

	var have []cval
	var hasIm bool
	worst := bf()
	// decode runs Decode into a fresh output and compares; it returns ("", "") when the round trip holds, else a key and a message.
	decode := func() (string, string) {
		got := newOutput(out, outLen, c.OutNil)
		ptSnap := snapPlaintext(pt)
		err, pan := guard(func() error { return e.ecd.Decode(pt, got) })
		if pan != "" {
			return "C07:ckks:Decode:panic:" + keyTail, fmt.Sprintf("Decode panicked: %s (%s)", pan, desc)
		}
		if snapPlaintext(pt) != ptSnap {
			return "C07:ckks:Decode:modifies-plaintext", fmt.Sprintf("Decode modified the plaintext (%s)", desc)
		}
		if err != nil {
			return "C07:ckks:Decode:error:" + keyTail, fmt.Sprintf("Decode returned %v (%s)", err, desc)
		}
		var bad string
		have, hasIm, bad = fromOutput(got)
		if bad != "" {
			return "C07:ckks:Decode:bad-output:" + keyTail, fmt.Sprintf("%s (%s)", bad, desc)
		}
		if !c.Batched {
			hasIm = hasIm && out == "c128" // the coefficient domain only promises the real part (bignum.Complex: imaginary part untouched)
		}
		worst = bf()
		for i := 0; i < outLen; i++ {
			dre := absB(subB(have[i].re, want[i].re))
			dim_ := bf()
			if hasIm {
				dim_ = absB(subB(have[i].im, want[i].im))
			}
			d := maxB(dre, dim_)
			worst = maxB(worst, d)
			if d.Cmp(tol) > 0 {
				cls := "value"
				if i >= inLen {
					cls = "unspecified-slot"
				}
				key := fmt.Sprintf("C07:ckks:roundtrip:%s:%s", cls, keyTail)
				switch {
				case !c.Batched && !c.NTT:
					key = "C07:ckks:roundtrip:coeffs:IsNTT=false" // Encode applies the NTT whatever pt.IsNTT says, Decode honours the flag
				case c.Batched && !e.arb && unreduced && c.NTT:
					// SingleFloat64ToFixedPointCRT leaves positive values >= q_i unreduced; harmless only when a forward NTT follows
					key = "C07:ckks:Encode:float64:unreduced-positive-coefficients"
				case c.Batched && ci && slots == 1 && c.NTT:
					key = "C07:ckks:Encode:slots:ci:single-slot" // NTT of dimension 1 in the conjugate-invariant ring
				case !c.NTT && e.arb && unreduced:
					key = "C07:ckks:Encode:slots:arbitrary:IsNTT=false:unreduced-negative-coefficients"
				case !c.NTT && pack == "sparse":
					key = "C07:ckks:Encode:slots:sparse:IsNTT=false"
				}
				return key, fmt.Sprintf("slot %d: |got-want| = 2^%.2f > tolerance 2^%.2f; got (%s, %s) want (%s, %s) (%s)", i, log2f(d), log2f(tol),
					have[i].re.Text('g', 20), have[i].im.Text('g', 20), want[i].re.Text('g', 20), want[i].im.Text('g', 20), desc)
			}
		}
		return "", ""
	}
	if key, msg := decode(); key != "" {
		retried := false
		if c.Batched && ci && e.arb {
			// Diagnose the one state-dependent failure seen in this class: encoding a zero vector leaves the encoder's complex
			// buffer exactly zero; if the same Decode then succeeds, the first result depended on what the buffer held before.
			scratch := ckks.NewPlaintext(params, e.level)
			scratch.LogDimensions.Cols = maxLogSlots
			if err := e.ecd.Encode(make([]float64, 1), scratch); err == nil {
				if key2, _ := decode(); key2 == "" {
					retried = true
					if err := fail(rec, "C07:ckks:Decode:slots:ci:arbitrary:stale-imaginary-buffer", "%s -- the same Decode succeeds after the encoder buffer was zeroed by encoding a zero vector", msg); err != nil {
						return err
					}
				}
			}
		}
		if !retried && !c.Batched && c.NTT && in == "bigf" && c.Dirty && inLen < slots {
			// Diagnose: the same Encode into a freshly allocated plaintext
			fresh := ckks.NewPlaintext(params, e.level)
			fresh.MetaData = pt.MetaData.CopyNew()
			if err := e.ecd.Encode(input, fresh); err == nil {
				old := pt
				pt = fresh
				key2, _ := decode()
				if key2 != "" {
					pt = old
				}
				if key2 == "" { // the rest of the case continues on the fresh plaintext
					retried = true
					if err := fail(rec, "C07:ckks:Encode:coeffs:bigf:reused-plaintext:tail-not-cleared", "%s -- the same Encode into a freshly allocated plaintext round-trips", msg); err != nil {
						return err
					}
				}
			}
		}
		if !retried {
			return fail(rec, key, "%s", msg)
		}
	}
	if worst.Sign() > 0 {
		rec.Classf("%s err/tol<=2^%d", b2s(floatDominated, "float-dominated", "rounding-dominated"), int(math.Ceil((log2f(worst)-log2f(tol))/2))*2)
	}

	// DecodePublic -----------------------------------------------------------------------------------------------
	if c.LogPrec != 0 {
		lp := math.Round(c.LogPrec*65536) / 65536 // multiples of 2^-16: 2^lp is computed exactly enough by square roots
		if lp < 0.25 {
			lp = 0.25
		}
		if lp > 60 {
			lp = 60
		}
		if c.Batched && ci && e.arb {
			// known finding stale-imaginary-buffer: in this class the result of a Decode depends on what the encoder buffer held;
			// compare Decode and DecodePublic from the same (zeroed) buffer state.
			cleanse := func() error {
				scratch := ckks.NewPlaintext(params, e.level)
				scratch.LogDimensions.Cols = maxLogSlots
				return e.ecd.Encode(make([]float64, 1), scratch)
			}
			if err := cleanse(); err != nil {
				return h.Failf("C07:ckks:Encode:error", "Encode of a zero vector: %v", err)
			}
			if key, msg := decode(); key != "" {
				return fail(rec, key, "%s", msg)
			}
			if err := cleanse(); err != nil {
				return h.Failf("C07:ckks:Encode:error", "Encode of a zero vector: %v", err)
			}
		}
		pub := newOutput(out, outLen, c.OutNil)
		ptSnap := snapPlaintext(pt)
		err, pan = guard(func() error { return e.ecd.DecodePublic(pt, pub, lp) })
		if pan == "" && snapPlaintext(pt) != ptSnap {
			return fail(rec, "C07:ckks:DecodePublic:modifies-plaintext", "DecodePublic modified the plaintext (%s)", desc)
		}
		if pan != "" {
			return fail(rec, "C07:ckks:DecodePublic:panic:"+keyTail, "DecodePublic(logprec=%v) panicked: %s (%s)", lp, pan, desc)
		}
		if err != nil {
			return fail(rec, "C07:ckks:DecodePublic:error:"+keyTail, "DecodePublic returned %v (%s)", err, desc)
		}
		pv, _, bad := fromOutput(pub)
		if bad != "" {
			return fail(rec, "C07:ckks:DecodePublic:bad-output:"+keyTail, "%s (%s)", bad, desc)
		}
		unit := pow2frac(lp) // 2^lp
		P := 53
		if e.arb && !typeF64(out) {
			P = int(e.prec)
			if !c.Batched && c.OutNil && P > 64 {
				P = 64 // coefficient domain: Decode allocates nil *big.Float entries with 64 bits
			}
		}
		rec.Classf("public=%s:%s:%s", b2s(lp == math.Floor(lp), "int", b2s(2*lp == math.Floor(2*lp), "half", "real")), b2s(e.arb, "arbitrary", "float64"), out)
		for i := 0; i < outLen; i++ {
			for part := 0; part < 2; part++ {
				if part == 1 && !hasIm {
					continue
				}
				d, p := have[i].re, pv[i].re
				if part == 1 {
					d, p = have[i].im, pv[i].im
				}
				slack := mulB(addB(absB(d), quoB(bfF(1), unit)), pow2(-(P - 12)))
				// (a) within half a unit of the unrounded value
				diff := absB(subB(p, d))
				lim := addB(quoB(bfF(0.5), unit), slack)
				if diff.Cmp(lim) > 0 {
					return fail(rec, "C07:ckks:DecodePublic:not-nearest:"+keyTail, "slot %d part %d: |DecodePublic-Decode| = 2^%.3f > 2^-%.1f/2 (public %s, plain %s) (%s)", i, part, log2f(diff), lp, p.Text('g', 25), d.Text('g', 25), desc)
				}
				// (b) a multiple of 2^-logprec
				y := mulB(p, unit)
				yi, _ := addB(y, bfF(0.5)).Int(nil)
				if y.Sign() < 0 {
					yi, _ = subB(y, bfF(0.5)).Int(nil)
				}
				fr := absB(subB(y, bf().SetInt(yi)))
				if fr.Cmp(mulB(addB(absB(y), bfF(1)), pow2(-(P-12)))) > 0 {
					key := "C07:ckks:DecodePublic:not-a-multiple:" + keyTail
					if !c.Batched {
						key = "C07:ckks:DecodePublic:coeffs:not-rounded"
					}
					return fail(rec, key, "slot %d part %d: DecodePublic(logprec=%v) returned %s = %s * 2^-logprec (plain %s) (%s)", i, part, lp, p.Text('g', 25), y.Text('g', 25), d.Text('g', 25), desc)
				}
			}
		}
	}

	discriminating := mulB(tol, bfF(16)).Cmp(vmax) < 0
	nt := inLen < slots || pack == "sparse" || e.level < params.MaxLevel() || e.arb || !c.Batched || ci || E == e.maxExp || c.ScaleMant != 0 || c.Dirty || !c.NTT
	if discriminating && nt {
		rec.NonTrivial(fmt.Sprintf("ckks-rt|%s|%s|%s|%s|%s>%s|len=%s|l=%s|%s|%s|ntt=%v|dirty=%v|pub=%v|logN=%d", dom, ring, precClass(e), pack, in, out,
			lenClass(inLen, slots), levelClass(e.level, params.MaxLevel()), magClass(E, e.maxExp, e.bottom), c.Pat, c.NTT, c.Dirty, c.LogPrec != 0, c.Params.LogN))
	} else if !discriminating {
		rec.Class("non-discriminating")
	}
	return nil
}

var propCKKS = h.NewProp("TestPropCKKSRoundTrip", h.Budget{Quick: 1200, Thorough: 14000}, genCKKS, runCKKS)

func TestPropCKKSRoundTrip(t *testing.T) { propCKKS.Check(t) }
