package c07

import (
	"fmt"
	"math/big"
	"testing"

	"verif/internal/h"
)

func TestMain(m *testing.M) { h.Main(m, "C07") }

func TestReplay(t *testing.T) { h.ReplayAll(t) }

// guard runs f and converts a panic into a description (instead of unwinding the whole case), so that a panic at a
// specific call site gets a specific, stable failure key.
func guard(f func() error) (err error, panicked string) {
	defer func() {
		if r := recover(); r != nil {
			panicked = fmt.Sprint(r)
		}
	}()
	return f(), ""
}

// fail returns a failure unless key is a listed known finding (then the occurrence is booked and nil is returned).
func fail(rec *h.Rec, key, format string, a ...any) error {
	msg := fmt.Sprintf(format, a...)
	if rec.Known(key, msg) {
		rec.Class("known=" + key)
		return nil
	}
	return h.Failf(key, "%s", msg)
}

func bits(x *big.Int) int { return x.BitLen() }

func b2s(b bool, t, f string) string {
	if b {
		return t
	}
	return f
}
