package c07

import (
	"fmt"
	"math"
	"math/big"
	mbits "math/bits"
	"math/cmplx"
	"sync"
	"testing"

	"verif/internal/h"

	"github.com/tuneinsight/lattigo/v6/core/rlwe"
	"github.com/tuneinsight/lattigo/v6/ring"
	"github.com/tuneinsight/lattigo/v6/schemes/bgv"
	"github.com/tuneinsight/lattigo/v6/schemes/ckks"
	"github.com/tuneinsight/lattigo/v6/utils/bignum"
	"pgregory.net/rapid"
)

// polyToBig returns the coefficients (coefficient domain) of the plaintext polynomial as integers in [0, Q_level).
// The inverse NTT is lattigo's (decided by C01); the CRT reconstruction is the harness's.
func polyToBig(r *ring.Ring, pt *rlwe.Plaintext, qs []uint64) []*big.Int {
	p := *pt.Value.CopyNew()
	if pt.IsNTT {
		r.INTT(p, p)
	}
	return h.CRT(p.Coeffs[:len(qs)], qs)
}

func bigToPoly(r *ring.Ring, x []*big.Int, qs []uint64, pt *rlwe.Plaintext) {
	limbs := h.ToRNS(x, qs)
	for i := range limbs {
		copy(pt.Value.Coeffs[i], limbs[i])
	}
	if pt.IsNTT {
		r.NTT(pt.Value, pt.Value)
	}
}

// ---------------------------------------------------------------------------------------------------------------
// BGV: the ring product of two encodings decodes to the slot-wise product
// ---------------------------------------------------------------------------------------------------------------

type BGVMulCase struct {
	Params h.BGVSpec `json:"params"`
	Level  int       `json:"level"`
	S1     uint64    `json:"s1"`
	S2     uint64    `json:"s2"`
	NTT    bool      `json:"ntt"`
	Len1   int       `json:"len1"`
	Len2   int       `json:"len2"`
	Pat1   string    `json:"pat1"`
	Pat2   string    `json:"pat2"`
	Seed   uint64    `json:"seed"`
	Reuse  bool      `json:"reuse,omitempty"` // the encoder was used before and the product is written into a plaintext that held another encoding
}

func (c BGVMulCase) RandSeed() uint64 { return c.Seed }

func genBGVMul(t *rapid.T) BGVMulCase {
	var c BGVMulCase
	maxLogN := 7
	if h.Thorough() {
		maxLogN = 8
	}
	c.Params, _ = genBGVSpec(t, maxLogN)
	c.Level = rapid.IntRange(0, len(c.Params.Q)-1).Draw(t, "level")
	c.S1 = genScale(t, c.Params.T, "s1")
	c.S2 = genScale(t, c.Params.T, "s2")
	c.NTT = rapid.IntRange(0, 3).Draw(t, "ntt") != 0
	n := 1 << c.Params.LogN
	c.Len1 = genLen(t, n, "len1")
	c.Len2 = n
	if rapid.Bool().Draw(t, "short2") {
		c.Len2 = genLen(t, n, "len2")
	}
	// operand patterns: "zero"/"onehot" only on one side (a product that is identically zero decides nothing)
	c.Pat1 = bgvPatterns[rapid.IntRange(0, len(bgvPatterns)-1).Draw(t, "pat1")]
	c.Pat2 = []string{"reduced", "uniform64", "boundary", "mix", "tm1"}[rapid.IntRange(0, 4).Draw(t, "pat2")]
	c.Seed = rapid.Uint64().Draw(t, "seed")
	c.Reuse = rapid.Bool().Draw(t, "reuse")
	return c
}

func normScale(s, T uint64) uint64 {
	if s >= 1 && s < T {
		return s
	}
	return s%(T-1) + 1
}

func runBGVMul(c BGVMulCase, rec *h.Rec) error {
	params, err := c.Params.Build()
	if err != nil {
		if rejectedTight(c.Params) {
			rec.Class("rejected:2t>Q[0]")
			return nil
		}
		return h.Failf("C07:bgv:params-rejected", "generated parameters rejected: %v", err)
	}
	T := params.PlaintextModulus()
	n := params.RingT().N()
	N := params.N()
	gap := N / n
	level := c.Level
	if level > params.MaxLevel() {
		level = params.MaxLevel()
	}
	qs := c.Params.Q[:level+1]
	Ql := h.ProdU(qs)
	if new(big.Int).Lsh(h.BU(T), 1).Cmp(Ql) >= 0 {
		rec.Class("skipped:2t>=Qlevel")
		return nil
	}
	l1, l2 := c.Len1, c.Len2
	if l1 > n {
		l1 = n
	}
	if l2 > n {
		l2 = n
	}
	s1, s2 := normScale(c.S1, T), normScale(c.S2, T)
	rng := h.NewSplitMix(c.Seed)
	v1 := fillU(c.Pat1, T, l1, rng)
	v2 := fillU(c.Pat2, T, l2, rng)
	ecd := bgv.NewEncoder(params)
	ringQ := params.RingQ().AtLevel(level)

	var ptReuse *rlwe.Plaintext
	if c.Reuse {
		ptReuse = bgv.NewPlaintext(params, level)
		ptReuse.IsBatched = rng.Intn(2) == 0
		ptReuse.Scale = rlwe.NewScaleModT(rng.Uint64()%(T-1)+1, T)
		if err := ecd.Encode(fillU("reduced", T, n, rng), ptReuse); err != nil {
			return h.Failf("C07:bgv:Encode:error", "warm-up Encode: %v", err)
		}
		if err := ecd.Decode(ptReuse, make([]int64, n)); err != nil {
			return h.Failf("C07:bgv:Decode:error", "warm-up Decode: %v", err)
		}
	}
	rec.Classf("reuse=%v", c.Reuse)
	mk := func(v []uint64, s uint64) (*rlwe.Plaintext, error) {
		pt := bgv.NewPlaintext(params, level)
		pt.IsNTT = c.NTT
		pt.Scale = rlwe.NewScaleModT(s, T)
		return pt, ecd.Encode(v, pt)
	}
	pt1, err := mk(v1, s1)
	if err != nil {
		return h.Failf("C07:bgv:Encode:error", "Encode: %v", err)
	}
	pt2, err := mk(v2, s2)
	if err != nil {
		return h.Failf("C07:bgv:Encode:error", "Encode: %v", err)
	}

	// message polynomials m_i = [T * pt_i]_Q (the plaintext holds T^-1 * m mod Q), exact product in Z[X]/(X^N+1), reduced mod t
	bT := h.BU(T)
	lift := func(pt *rlwe.Plaintext) []*big.Int {
		a := polyToBig(ringQ, pt, qs)
		for i := range a {
			a[i].Mul(a[i], bT)
			a[i] = h.Center(a[i], Ql)
		}
		return a
	}
	m1, m2 := lift(pt1), lift(pt2)
	r := h.VecMod(h.NegacyclicMul(m1, m2), bT)
	tInv := new(big.Int).ModInverse(bT, Ql)
	for i := range r {
		r[i].Mul(r[i], tInv)
		r[i].Mod(r[i], Ql)
	}
	pt3 := ptReuse
	if pt3 == nil {
		pt3 = bgv.NewPlaintext(params, level)
	}
	pt3.IsBatched = true
	pt3.IsNTT = c.NTT
	pt3.Scale = rlwe.NewScaleModT(mulmod(s1, s2, T), T)
	bigToPoly(ringQ, r, qs, pt3)

	got := make([]uint64, n)
	if err := ecd.Decode(pt3, got); err != nil {
		return h.Failf("C07:bgv:Decode:error", "Decode: %v", err)
	}
	rec.Classf("gap=%s", b2s(gap > 1, ">1", "1"))
	rec.Classf("level=%s", levelClass(level, params.MaxLevel()))
	rec.Classf("scales=%s*%s", scaleClass(s1, T), scaleClass(s2, T))
	rec.Classf("ntt=%v", c.NTT)
	rec.Class(tClass(T))
	nonzero := false
	for i := 0; i < n; i++ {
		var a, b uint64
		if i < l1 {
			a = v1[i] % T
		}
		if i < l2 {
			b = v2[i] % T
		}
		w := mulmod(a, b, T)
		nonzero = nonzero || w != 0
		if got[i] != w {
			return fail(rec, fmt.Sprintf("C07:bgv:mul:slotwise-product:gap%s", b2s(gap > 1, ">1", "=1")),
				"slot %d of %d: product of encodings decodes to %d, want %d*%d = %d mod t=%d (N=%d level=%d scales %d,%d ntt=%v)", i, n, got[i], a, b, w, T, N, level, s1, s2, c.NTT)
		}
	}
	if nonzero {
		rec.NonTrivial(fmt.Sprintf("bgv-mul|gap%s|l=%s|s=%s*%s|len=%s,%s|%s,%s|ntt=%v|%s|logN=%d", b2s(gap > 1, ">1", "1"), levelClass(level, params.MaxLevel()),
			scaleClass(s1, T), scaleClass(s2, T), lenClass(l1, n), lenClass(l2, n), c.Pat1, c.Pat2, c.NTT, tClass(T), c.Params.LogN))
	}
	return nil
}

var propBGVMul = h.NewProp("TestPropBGVMul", h.Budget{Quick: 300, Thorough: 5000}, genBGVMul, runBGVMul)

func TestPropBGVMul(t *testing.T) { propBGVMul.Check(t) }

// ---------------------------------------------------------------------------------------------------------------
// CKKS: the ring product of two encodings decodes to the slot-wise product (scale s1*s2)
// ---------------------------------------------------------------------------------------------------------------

type CKKSMulCase struct {
	Params   h.CKKSSpec `json:"params"`
	Prec     uint       `json:"prec"`
	Level    int        `json:"level"`
	S1Log    int        `json:"s1Log"`
	S1Mant   uint32     `json:"s1Mant"`
	S2Log    int        `json:"s2Log"`
	S2Mant   uint32     `json:"s2Mant"`
	LogSlots int        `json:"logSlots"`
	Len1     int        `json:"len1"`
	Len2     int        `json:"len2"`
	Big      bool       `json:"big"` // []*bignum.Complex in and out instead of []complex128
	Pat1     string     `json:"pat1"`
	Pat2     string     `json:"pat2"`
	Drop1    int        `json:"drop1"`
	Drop2    int        `json:"drop2"`
	Seed     uint64     `json:"seed"`
	Reuse    bool       `json:"reuse,omitempty"` // the encoder was used before and the product is written into a plaintext that held another encoding
}

func (c CKKSMulCase) RandSeed() uint64 { return c.Seed }

func genCKKSMul(t *rapid.T) CKKSMulCase {
	var c CKKSMulCase
	c.Params = genCKKSSpec(t, 7)
	c.Prec = genPrec(t)
	c.Level = rapid.IntRange(0, len(c.Params.Q)-1).Draw(t, "level")
	half := (sumBits(c.Params.Q[:c.Level+1]) - 4) / 2
	c.S1Log, c.S1Mant = genScaleLog(t, half, "s1")
	c.S2Log, c.S2Mant = genScaleLog(t, half, "s2")
	maxLogSlots := c.Params.LogN - 1
	if c.Params.CI {
		maxLogSlots = c.Params.LogN
	}
	if rapid.IntRange(0, 2).Draw(t, "fullSlots") == 0 {
		c.LogSlots = maxLogSlots
	} else {
		c.LogSlots = rapid.IntRange(0, maxLogSlots).Draw(t, "logSlots")
	}
	n := 1 << c.LogSlots
	c.Len1 = genLen(t, n, "len1")
	c.Len2 = genLen(t, n, "len2")
	c.Big = rapid.Bool().Draw(t, "big")
	mulPats := []string{"uniform", "logmag", "max", "neg", "const"}
	c.Pat1 = mulPats[rapid.IntRange(0, len(mulPats)-1).Draw(t, "pat1")]
	c.Pat2 = mulPats[rapid.IntRange(0, len(mulPats)-1).Draw(t, "pat2")]
	drop := func(label string) int {
		switch rapid.IntRange(0, 9).Draw(t, label+"k") {
		case 0, 1, 2, 3, 4:
			return 0
		case 5, 6:
			return -1
		case 7:
			return rapid.IntRange(0, 200).Draw(t, label+"any")
		default:
			return rapid.IntRange(0, 10).Draw(t, label)
		}
	}
	c.Drop1 = drop("drop1")
	c.Drop2 = drop("drop2")
	c.Seed = rapid.Uint64().Draw(t, "seed")
	c.Reuse = rapid.Bool().Draw(t, "reuse")
	return c
}

func runCKKSMul(c CKKSMulCase, rec *h.Rec) error {
	params, err := c.Params.Build()
	if err != nil {
		return h.Failf("C07:ckks:params-rejected", "generated parameters rejected: %v", err)
	}
	var ecd *ckks.Encoder
	if c.Prec == 0 {
		ecd = ckks.NewEncoder(params)
	} else {
		ecd = ckks.NewEncoder(params, c.Prec)
	}
	prec := int(ecd.Prec())
	arb := prec > 53
	if !arb {
		prec = 53
	}
	level := c.Level
	if level > params.MaxLevel() {
		level = params.MaxLevel()
	}
	qs := c.Params.Q[:level+1]
	Ql := h.ProdU(qs)
	logQ := Ql.BitLen() - 1
	ci := c.Params.CI
	maxLogSlots := params.LogMaxSlots()
	logSlots := c.LogSlots
	if logSlots > maxLogSlots {
		logSlots = maxLogSlots
	}
	if logSlots < 0 {
		logSlots = 0
	}
	slots := 1 << logSlots
	dim := 2 * slots
	clampK := func(k int) int {
		if k > (logQ-6)/2 {
			k = (logQ - 6) / 2
		}
		if k < 1 {
			k = 1
		}
		return k
	}
	k1, k2 := clampK(c.S1Log), clampK(c.S2Log)
	sc1, sc2 := mkScale(k1, c.S1Mant), mkScale(k2, c.S2Mant)
	// |v1|*|v2|*s1*s2 <= Q/8
	H := floorLog2(quoB(quoB(bf().SetInt(Ql), bfF(8)), mulB(sc1, sc2)))
	if H < -k1-k2 {
		rec.Class("skipped:no-headroom")
		return nil
	}
	// split the headroom: both operands at least at their bottom exponent -k_i
	H1 := -k1 + (H+k1+k2)/2
	H2 := H - H1
	pick := func(Hi, ki, drop int) int {
		E := Hi - drop
		if drop < 0 {
			E = 1
			if E > Hi {
				E = Hi
			}
		}
		if E < -ki {
			E = -ki
		}
		return E
	}
	E1, E2 := pick(H1, k1, c.Drop1), pick(H2, k2, c.Drop2)
	clampL := func(x int) int {
		if x < 1 {
			return 1
		}
		if x > slots {
			return slots
		}
		return x
	}
	l1, l2 := clampL(c.Len1), clampL(c.Len2)
	rng := h.NewSplitMix(c.Seed)
	typ := b2s(c.Big, "bigc", "c128")
	mb := uint(53)
	if c.Big {
		mb = 100
	}
	in1, told1 := toInput(typ, fillC(c.Pat1, l1, E1, -k1, mb, rng), 128)
	in2, told2 := toInput(typ, fillC(c.Pat2, l2, E2, -k2, mb, rng), 128)

	ringQ := params.RingQ().AtLevel(level)
	mk := func(in any, sc *big.Float) (*rlwe.Plaintext, error) {
		pt := ckks.NewPlaintext(params, level)
		pt.LogDimensions.Cols = logSlots
		pt.Scale = rlwe.NewScale(sc)
		return pt, ecd.Encode(in, pt)
	}
	var ptReuse *rlwe.Plaintext
	if c.Reuse {
		// earlier life of the encoder and of the product plaintext: all slots, another scale, large values
		ptReuse = ckks.NewPlaintext(params, level)
		ptReuse.Scale = rlwe.NewScale(mkScale(k1+k2, c.S1Mant^c.S2Mant))
		w, _ := toInput("c128", fillC("uniform", 1<<maxLogSlots, H, -k1-k2, 53, rng), 53)
		if err := ecd.Encode(w, ptReuse); err != nil {
			return h.Failf("C07:ckks:Encode:error", "warm-up Encode: %v", err)
		}
		if err := ecd.Decode(ptReuse, make([]complex128, 1<<maxLogSlots)); err != nil {
			return h.Failf("C07:ckks:Decode:error", "warm-up Decode: %v", err)
		}
	}
	rec.Classf("reuse=%v", c.Reuse)
	pt1, err := mk(in1, sc1)
	if err != nil {
		return h.Failf("C07:ckks:Encode:error", "Encode: %v", err)
	}
	pt2, err := mk(in2, sc2)
	if err != nil {
		return h.Failf("C07:ckks:Encode:error", "Encode: %v", err)
	}
	a1 := h.VecCenter(polyToBig(ringQ, pt1, qs), Ql)
	a2 := h.VecCenter(polyToBig(ringQ, pt2, qs), Ql)
	var prod []*big.Int
	if ci {
		// Z[X+X^-1]/(X^2N+1): unfold to the standard ring of degree 2N, multiply, fold back (first N coefficients)
		prod = h.NegacyclicMul(h.CIUnfold(a1), h.CIUnfold(a2))[:params.N()]
	} else {
		prod = h.NegacyclicMul(a1, a2)
	}
	pt3 := ptReuse
	if pt3 == nil {
		pt3 = ckks.NewPlaintext(params, level)
	}
	pt3.LogDimensions.Cols = logSlots
	pt3.Scale = pt1.Scale.Mul(pt2.Scale)
	bigToPoly(ringQ, prod, qs, pt3)

	if ci && arb {
		// known finding stale-imaginary-buffer: zero the encoder buffer before decoding
		scratch := ckks.NewPlaintext(params, level)
		if err := ecd.Encode(make([]float64, 1), scratch); err != nil {
			return h.Failf("C07:ckks:Encode:error", "Encode of a zero vector: %v", err)
		}
	}
	got := newOutput(typ, slots, false)
	if err := ecd.Decode(pt3, got); err != nil {
		return h.Failf("C07:ckks:Decode:error", "Decode: %v", err)
	}
	have, _, bad := fromOutput(got)
	if bad != "" {
		return fail(rec, "C07:ckks:mul:bad-output", "%s", bad)
	}

	// expected slot-wise product and tolerance
	get := func(told []cval, i int) cval {
		if i >= len(told) {
			return zeroC()
		}
		if ci {
			return cval{told[i].re, bf()}
		}
		return told[i]
	}
	vm1, vm2, vmp := bf(), bf(), bf()
	want := make([]cval, slots)
	for i := range want {
		x, y := get(told1, i), get(told2, i)
		want[i] = cval{subB(mulB(x.re, y.re), mulB(x.im, y.im)), addB(mulB(x.re, y.im), mulB(x.im, y.re))}
		ax, ay := addB(absB(x.re), absB(x.im)), addB(absB(y.re), absB(y.im))
		vm1, vm2, vmp = maxB(vm1, ax), maxB(vm2, ay), maxB(vmp, mulB(ax, ay))
	}
	logDim := mbits.Len(uint(dim))
	fl := pow2(-prec + logDim + 10)
	e1 := addB(quoB(bfF(1.25*float64(dim)), sc1), mulB(vm1, fl))
	e2 := addB(quoB(bfF(1.25*float64(dim)), sc2), mulB(vm2, fl))
	tol := addB(addB(mulB(vm1, e2), mulB(vm2, e1)), mulB(e1, e2))
	tol.Add(tol, mulB(vmp, fl))
	if !c.Big {
		tol.Add(tol, mulB(addB(vmp, tol), pow2(-51)))
	}
	ring_ := b2s(ci, "ci", "std")
	pack := b2s(logSlots < maxLogSlots, "sparse", "full")
	rec.Classf("ring=%s", ring_)
	rec.Classf("path=%s", b2s(arb, "arbitrary", "float64"))
	rec.Classf("pack=%s", pack)
	rec.Classf("level=%s", levelClass(level, params.MaxLevel()))
	rec.Classf("type=%s", typ)
	worst := bf()
	for i := 0; i < slots; i++ {
		d := maxB(absB(subB(have[i].re, want[i].re)), absB(subB(have[i].im, want[i].im)))
		worst = maxB(worst, d)
		if d.Cmp(tol) > 0 {
			return fail(rec, fmt.Sprintf("C07:ckks:mul:slotwise-product:%s:%s:%s", ring_, b2s(arb, "arbitrary", "float64"), pack),
				"slot %d of %d: product of encodings decodes to (%s, %s), want (%s, %s); |diff| = 2^%.2f > tolerance 2^%.2f (N=%d level=%d logQ=%d scales 2^%.2f, 2^%.2f prec=%d |v1|<2^%d |v2|<2^%d)",
				i, slots, have[i].re.Text('g', 20), have[i].im.Text('g', 20), want[i].re.Text('g', 20), want[i].im.Text('g', 20), log2f(d), log2f(tol), params.N(), level, logQ, log2f(sc1), log2f(sc2), prec, E1, E2)
		}
	}
	if worst.Sign() > 0 {
		rec.Classf("err/tol<=2^%d", int(math.Ceil((log2f(worst)-log2f(tol))/4))*4)
	}
	if mulB(tol, bfF(16)).Cmp(vmp) < 0 {
		rec.NonTrivial(fmt.Sprintf("ckks-mul|%s|%s|%s|l=%s|%s|len=%s,%s|%s,%s|logN=%d", ring_, b2s(arb, "arb", "f64"), pack, levelClass(level, params.MaxLevel()), typ,
			lenClass(l1, slots), lenClass(l2, slots), c.Pat1, c.Pat2, c.Params.LogN))
	} else {
		rec.Class("non-discriminating")
	}
	return nil
}

var propCKKSMul = h.NewProp("TestPropCKKSMul", h.Budget{Quick: 400, Thorough: 5000}, genCKKSMul, runCKKSMul)

func TestPropCKKSMul(t *testing.T) { propCKKSMul.Check(t) }

// ---------------------------------------------------------------------------------------------------------------
// CKKS: FFT / IFFT called directly
// ---------------------------------------------------------------------------------------------------------------

type FFTCase struct {
	Params h.CKKSSpec `json:"params"`
	Prec   uint       `json:"prec"`
	LogLen int        `json:"logLen"` // clamped to [0, LogMaxSlots]
	Exp    int        `json:"exp"`    // |values| < 2^Exp
	Pat    string     `json:"pat"`
	Seed   uint64     `json:"seed"`
}

func (c FFTCase) RandSeed() uint64 { return c.Seed }

func genFFT(t *rapid.T) FFTCase {
	var c FFTCase
	maxLogN := 8
	if h.Thorough() {
		maxLogN = 10
	}
	c.Params = genCKKSSpec(t, maxLogN)
	c.Params.Q = c.Params.Q[:1]
	c.Prec = genPrec(t)
	maxLogSlots := c.Params.LogN - 1
	if c.Params.CI {
		maxLogSlots = c.Params.LogN
	}
	c.LogLen = rapid.IntRange(0, maxLogSlots).Draw(t, "logLen")
	c.Exp = rapid.IntRange(-60, 200).Draw(t, "exp")
	c.Pat = ckksPatterns[rapid.IntRange(0, len(ckksPatterns)-1).Draw(t, "pat")]
	c.Seed = rapid.Uint64().Draw(t, "seed")
	return c
}

func runFFT(c FFTCase, rec *h.Rec) error {
	params, err := c.Params.Build()
	if err != nil {
		return h.Failf("C07:ckks:params-rejected", "generated parameters rejected: %v", err)
	}
	var ecd *ckks.Encoder
	if c.Prec == 0 {
		ecd = ckks.NewEncoder(params)
	} else {
		ecd = ckks.NewEncoder(params, c.Prec)
	}
	prec := int(ecd.Prec())
	arb := prec > 53
	if !arb {
		prec = 53
	}
	logn := c.LogLen
	if logn > params.LogMaxSlots() {
		logn = params.LogMaxSlots()
	}
	if logn < 0 {
		logn = 0
	}
	n := 1 << logn
	rng := h.NewSplitMix(c.Seed)
	mb := uint(53)
	if arb {
		mb = 128
	}
	vals := fillC(c.Pat, n, c.Exp, c.Exp-40, mb, rng)
	vmax := bf()
	for _, v := range vals {
		vmax = maxB(vmax, addB(absB(v.re), absB(v.im)))
	}
	tol := mulB(vmax, pow2(-prec+logn+10))
	path := b2s(arb, "arbitrary", "float64")
	rec.Classf("path=%s", path)
	rec.Classf("kernel=%s", b2s(!arb && logn >= 4, "unrolled8", "plain"))
	rec.Classf("pat=%s", c.Pat)

	var buf any
	if arb {
		buf, _ = toInput("bigc", vals, uint(prec))
	} else {
		buf, _ = toInput("c128", vals, 53)
	}
	told, _, _ := fromOutput(buf)
	cmp := func(what string, want []cval, tol *big.Float) error {
		have, _, bad := fromOutput(buf)
		if bad != "" {
			return fail(rec, "C07:ckks:"+what+":bad-output:"+path, "%s", bad)
		}
		for i := range have {
			d := maxB(absB(subB(have[i].re, want[i].re)), absB(subB(have[i].im, want[i].im)))
			if d.Cmp(tol) > 0 {
				return fail(rec, fmt.Sprintf("C07:ckks:%s:%s:%s", what, path, b2s(!arb && logn >= 4, "unrolled8", "plain")),
					"entry %d of %d: got (%s, %s) want (%s, %s), |diff| = 2^%.2f > 2^%.2f (N=%d ci=%v prec=%d)", i, n, have[i].re.Text('g', 20), have[i].im.Text('g', 20),
					want[i].re.Text('g', 20), want[i].im.Text('g', 20), log2f(d), log2f(tol), params.N(), c.Params.CI, prec)
			}
		}
		return nil
	}

	// (1) FFT against the definition: out[k] = sum_j in[j] * exp(2 pi i * (5^k mod 4n) * j / 4n)
	// float64 path: reference with math.Sincos; arbitrary-precision path (n <= 128): reference with 420-bit roots of unity
	// obtained from i by half-angle formulas (independent of bignum.Cos).
	if !arb || n <= 128 {
		ref := make([]cval, n)
		m := 4 * n
		if !arb {
			in := buf.([]complex128)
			// magnitudes may exceed the float64 range after summation only for Exp near 1023; Exp <= 200 here
			pow5 := 1
			for k := 0; k < n; k++ {
				var acc complex128
				scale := math.Ldexp(1, -c.Exp) // keep the accumulation near 1
				for j := 0; j < n; j++ {
					idx := (pow5 * j) % m
					s, co := math.Sincos(2 * math.Pi * float64(idx) / float64(m))
					acc += in[j] * complex(scale, 0) * complex(co, s)
				}
				if cmplx.IsNaN(acc) || cmplx.IsInf(acc) {
					return h.Failf("C07:harness", "reference DFT overflow")
				}
				ref[k] = cval{bf().SetMantExp(bfF(real(acc)), c.Exp), bf().SetMantExp(bfF(imag(acc)), c.Exp)}
				pow5 = (pow5 * 5) % m
			}
		} else {
			roots := unityRoots(m)
			pow5 := 1
			for k := 0; k < n; k++ {
				re, im := bf(), bf()
				for j := 0; j < n; j++ {
					w := roots[(pow5*j)%m]
					re.Add(re, subB(mulB(told[j].re, w.re), mulB(told[j].im, w.im)))
					im.Add(im, addB(mulB(told[j].re, w.im), mulB(told[j].im, w.re)))
				}
				ref[k] = cval{re, im}
				pow5 = (pow5 * 5) % m
			}
		}
		if err := ecd.FFT(buf, logn); err != nil {
			return fail(rec, "C07:ckks:FFT:error", "FFT: %v", err)
		}
		// outputs are sums of n inputs
		if err := cmp("FFT-vs-definition", ref, mulB(tol, bfF(float64(n)))); err != nil {
			return err
		}
		if err := ecd.IFFT(buf, logn); err != nil {
			return fail(rec, "C07:ckks:IFFT:error", "IFFT: %v", err)
		}
		if err := cmp("IFFT(FFT)", told, tol); err != nil {
			return err
		}
		rec.Classf("definition:%s", path)
	}
	// (2) FFT(IFFT(x)) = x
	if err := ecd.IFFT(buf, logn); err != nil {
		return fail(rec, "C07:ckks:IFFT:error", "IFFT: %v", err)
	}
	if err := ecd.FFT(buf, logn); err != nil {
		return fail(rec, "C07:ckks:FFT:error", "FFT: %v", err)
	}
	if err := cmp("FFT(IFFT)", told, tol); err != nil {
		return err
	}
	if vmax.Sign() > 0 {
		rec.NonTrivial(fmt.Sprintf("fft|%s|logn=%d|%s|ci=%v", path, logn, c.Pat, c.Params.CI))
	}
	return nil
}

var _ = bignum.NewComplex

var (
	unityMu    sync.Mutex
	unityCache = map[int][]cval{}
)

// unityRoots returns exp(2 pi i k / m), k = 0..m-1, m a power of two >= 4, at the oracle's working precision. The primitive
// root comes from i = exp(i pi/2) by the half-angle formulas cos(x/2) = sqrt((1+cos x)/2), sin(x/2) = sin x / (2 cos(x/2)).
func unityRoots(m int) []cval {
	unityMu.Lock()
	defer unityMu.Unlock()
	if r, ok := unityCache[m]; ok {
		return r
	}
	co, si := bf(), bfF(1)
	for order := 4; order < m; order <<= 1 {
		c2 := bf().Sqrt(quoB(addB(bfF(1), co), bfF(2)))
		si = quoB(si, mulB(bfF(2), c2))
		co = c2
	}
	out := make([]cval, m)
	out[0] = cval{bfF(1), bf()}
	for k := 1; k < m; k++ {
		p := out[k-1]
		out[k] = cval{subB(mulB(p.re, co), mulB(p.im, si)), addB(mulB(p.re, si), mulB(p.im, co))}
	}
	unityCache[m] = out
	return out
}

var propFFT = h.NewProp("TestPropCKKSFFT", h.Budget{Quick: 400, Thorough: 6000}, genFFT, runFFT)

func TestPropCKKSFFT(t *testing.T) { propFFT.Check(t) }
