package c07

import (
	"fmt"
	"math/big"
	"testing"

	"verif/internal/h"

	"github.com/tuneinsight/lattigo/v6/core/rlwe"
	"github.com/tuneinsight/lattigo/v6/ring"
	"github.com/tuneinsight/lattigo/v6/ring/ringqp"
	"github.com/tuneinsight/lattigo/v6/schemes/bgv"
	"github.com/tuneinsight/lattigo/v6/schemes/ckks"
	"pgregory.net/rapid"
)

// Embed into a ringqp.Poly (the form used for the plaintext diagonals of linear transformations): the Q part and the P part
// must both be the residues of the SAME integer polynomial that Encode produces (decided by the round-trip and product
// properties), in the representation (NTT, Montgomery) that the metadata asks for.

// EmbedCase is one Embed call on a bgv or a ckks encoder.
type EmbedCase struct {
	CKKS     bool       `json:"ckks"`
	PC       h.CKKSSpec `json:"pc,omitempty"`
	PB       h.BGVSpec  `json:"pb,omitempty"`
	Prec     uint       `json:"prec"`
	LevelQ   int        `json:"levelQ"`
	LevelP   int        `json:"levelP"` // -1: no P part
	NTT      bool       `json:"ntt"`
	Mont     bool       `json:"mont"`
	ScaleLog int        `json:"scaleLog"`
	Mant     uint32     `json:"mant"`
	Scale    uint64     `json:"scale"` // bgv
	LogSlots int        `json:"logSlots"`
	Len      int        `json:"len"`
	In       string     `json:"in"`
	Signed   bool       `json:"signed"`
	Drop     int        `json:"drop"`
	Pat      string     `json:"pat"`
	Seed     uint64     `json:"seed"`
	Reuse    bool       `json:"reuse"` // the encoder and the output polynomial were used before (other values, NTT+Montgomery)
}

func (c EmbedCase) RandSeed() uint64 { return c.Seed }

func genEmbed(t *rapid.T) EmbedCase {
	var c EmbedCase
	c.CKKS = rapid.Bool().Draw(t, "ckks")
	var nQ, nP, logN int
	if c.CKKS {
		yes := true
		r := h.GenRLWESpec(t, h.RLWEOpts{MinLogN: 4, MaxLogN: 7, MinQ: 1, MaxQ: 3, MinP: 1, MaxP: 3, MinBits: 20, MaxBits: 61, AllowCI: true, NTT: &yes, DefaultDists: true})
		c.PC = h.CKKSSpec{RLWESpec: r, LogScale: []int{30, 45, 60, 90}[rapid.IntRange(0, 3).Draw(t, "logDefaultScale")]}
		nQ, nP, logN = len(r.Q), len(r.P), r.LogN
		c.Prec = genPrec(t)
	} else {
		c.PB, _ = genBGVSpec(t, 7)
		mQ := uint64(2) << c.PB.LogN
		used := map[uint64]bool{c.PB.T: true}
		for _, q := range c.PB.Q {
			used[q] = true
		}
		nP = rapid.IntRange(1, 3).Draw(t, "nP")
		c.PB.P = h.GenPrimes(t, h.GenSizes(t, nP, h.MinPrimeBits(mQ)+1, 61, "p"), mQ, used, "p")
		nQ, logN = len(c.PB.Q), c.PB.LogN
		c.Scale = genScale(t, c.PB.T, "scale")
		c.Signed = rapid.Bool().Draw(t, "signed")
	}
	c.LevelQ = rapid.IntRange(0, nQ-1).Draw(t, "levelQ")
	c.LevelP = rapid.IntRange(-1, nP-1).Draw(t, "levelP")
	c.NTT = rapid.IntRange(0, 3).Draw(t, "ntt") != 0
	c.Mont = rapid.IntRange(0, 2).Draw(t, "mont") != 0
	n := 1 << logN
	if c.CKKS {
		c.ScaleLog, c.Mant = genScaleLog(t, sumBits(c.PC.Q[:c.LevelQ+1]), "scale")
		maxLogSlots := logN - 1
		if c.PC.CI {
			maxLogSlots = logN
		}
		c.LogSlots = maxLogSlots
		if rapid.Bool().Draw(t, "sparse") {
			c.LogSlots = rapid.IntRange(0, maxLogSlots).Draw(t, "logSlots")
		}
		n = 1 << c.LogSlots
		c.In = ckksTypes[rapid.IntRange(0, 3).Draw(t, "in")]
		c.Drop = genDrop(t, "drop")
		c.Pat = ckksPatterns[rapid.IntRange(0, len(ckksPatterns)-1).Draw(t, "pat")]
	} else {
		c.Pat = bgvPatterns[rapid.IntRange(0, len(bgvPatterns)-1).Draw(t, "pat")]
	}
	c.Len = genLen(t, n, "len")
	c.Seed = rapid.Uint64().Draw(t, "seed")
	c.Reuse = rapid.Bool().Draw(t, "reuse")
	return c
}

// unNTTMont brings a polynomial back to plain coefficients: inverse NTT (lattigo's, decided by C01) and division by 2^64.
func unNTTMont(r *ring.Ring, p ring.Poly, ntt, mont bool, qs []uint64) [][]uint64 {
	cp := *p.CopyNew()
	if ntt {
		r.INTT(cp, cp)
	}
	out := make([][]uint64, len(qs))
	two64 := new(big.Int).Lsh(big.NewInt(1), 64)
	for i, q := range qs {
		out[i] = make([]uint64, len(cp.Coeffs[i]))
		inv := uint64(1)
		if mont {
			inv = new(big.Int).ModInverse(new(big.Int).Mod(two64, h.BU(q)), h.BU(q)).Uint64()
		}
		for j, x := range cp.Coeffs[i] {
			out[i][j] = mulmod(x%q, inv, q)
		}
	}
	return out
}

func runEmbed(c EmbedCase, rec *h.Rec) error {
	var (
		qs, ps   []uint64
		ringQ    *ring.Ring
		ringP    *ring.Ring
		N        int
		embed    func(meta *rlwe.MetaData, out ringqp.Poly, warm bool) error
		ref      []*big.Int // the integer polynomial, centred (ckks) or in [0,t) (bgv)
		scheme   = "bgv"
		metaBase *rlwe.MetaData
	)
	rng := h.NewSplitMix(c.Seed)
	levelQ, levelP := c.LevelQ, c.LevelP

	if c.CKKS {
		scheme = "ckks"
		e, err := setupCKKS(c.PC, c.Prec, c.LevelQ, c.ScaleLog, c.Mant)
		if err != nil {
			return err
		}
		params := e.params
		levelQ = e.level
		if levelP > params.MaxLevelP() {
			levelP = params.MaxLevelP()
		}
		qs, ps, N = c.PC.Q[:levelQ+1], c.PC.P, params.N()
		ringQ, ringP = params.RingQ().AtLevel(levelQ), params.RingP()
		logSlots := c.LogSlots
		if logSlots > params.LogMaxSlots() {
			logSlots = params.LogMaxSlots()
		}
		if logSlots < 0 {
			logSlots = 0
		}
		slots := 1 << logSlots
		l := c.Len
		if l < 1 {
			l = 1
		}
		if l > slots {
			l = slots
		}
		E := e.magExp(c.Drop)
		mb := uint(53)
		if !typeF64(c.In) {
			mb = 100
		}
		input, _ := toInput(c.In, fillC(c.Pat, l, E, e.bottom, mb, rng), 128)
		warmIn, _ := toInput("c128", fillC("uniform", slots, E, e.bottom, 53, rng), 53)
		pt := ckks.NewPlaintext(params, levelQ)
		pt.LogDimensions.Cols = logSlots
		pt.Scale = rlwe.NewScale(e.scale)
		if err := e.ecd.Encode(input, pt); err != nil {
			return h.Failf("C07:ckks:Encode:error", "Encode: %v", err)
		}
		ref = h.VecCenter(polyToBig(ringQ, pt, qs), e.Ql)
		metaBase = pt.MetaData.CopyNew()
		embed = func(meta *rlwe.MetaData, out ringqp.Poly, warm bool) error {
			if warm {
				return e.ecd.Embed(warmIn, meta, out)
			}
			return e.ecd.Embed(input, meta, out)
		}
		rec.Classf("ckks:%s:%s:%s", b2s(c.PC.CI, "ci", "std"), b2s(e.arb, "arbitrary", "float64"), b2s(logSlots < params.LogMaxSlots(), "sparse", "full"))
	} else {
		params, err := c.PB.Build()
		if err != nil {
			if rejectedTight(c.PB) {
				rec.Class("rejected:2t>Q[0]")
				return nil
			}
			return h.Failf("C07:bgv:params-rejected", "generated parameters rejected: %v", err)
		}
		if levelQ > params.MaxLevel() {
			levelQ = params.MaxLevel()
		}
		if levelP > params.MaxLevelP() {
			levelP = params.MaxLevelP()
		}
		T := params.PlaintextModulus()
		n := params.RingT().N()
		qs, ps, N = c.PB.Q[:levelQ+1], c.PB.P, params.N()
		ringQ, ringP = params.RingQ().AtLevel(levelQ), params.RingP()
		Ql := h.ProdU(qs)
		l := c.Len
		if l > n {
			l = n
		}
		var input any
		if c.Signed {
			input = fillI(c.Pat, T, l, rng)
		} else {
			input = fillU(c.Pat, T, l, rng)
		}
		warmIn := fillU("reduced", T, n, rng)
		ecd := bgv.NewEncoder(params)
		pt := bgv.NewPlaintext(params, levelQ)
		pt.Scale = rlwe.NewScaleModT(normScale(c.Scale, T), T)
		if err := ecd.Encode(input, pt); err != nil {
			return h.Failf("C07:bgv:Encode:error", "Encode: %v", err)
		}
		// Encode stores T^-1 * m mod Q; Embed stores m
		ref = polyToBig(ringQ, pt, qs)
		bT := h.BU(T)
		for i := range ref {
			ref[i].Mul(ref[i], bT)
			ref[i].Mod(ref[i], Ql)
			if ref[i].Cmp(bT) >= 0 {
				return h.Failf("C07:harness:bgv-lift", "lifted message coefficient %v >= t", ref[i])
			}
		}
		metaBase = pt.MetaData.CopyNew()
		embed = func(meta *rlwe.MetaData, out ringqp.Poly, warm bool) error {
			if warm {
				return ecd.Embed(warmIn, meta, out)
			}
			return ecd.Embed(input, meta, out)
		}
		rec.Classf("bgv:gap%s", b2s(N/n > 1, ">1", "=1"))
	}
	if levelP >= 0 {
		ps = ps[:levelP+1]
		ringP = ringP.AtLevel(levelP)
	} else {
		ps = nil
	}

	out := ringqp.NewPoly(N, levelQ, levelP)
	if c.Reuse {
		m := metaBase.CopyNew()
		m.IsNTT, m.IsMontgomery = true, true
		if err := embed(m, out, true); err != nil {
			return fail(rec, "C07:"+scheme+":Embed:error", "warm-up Embed: %v", err)
		}
	}
	meta := metaBase.CopyNew()
	meta.IsNTT, meta.IsMontgomery = c.NTT, c.Mont
	metaSnap := fmt.Sprint(*meta)
	err, pan := guard(func() error { return embed(meta, out, false) })
	key := fmt.Sprintf("C07:%s:Embed:ringqp:", scheme)
	desc := fmt.Sprintf("N=%d levelQ=%d levelP=%d IsNTT=%v IsMontgomery=%v reuse=%v", N, levelQ, levelP, c.NTT, c.Mont, c.Reuse)
	if pan != "" {
		return fail(rec, key+"panic", "Embed panicked: %s (%s)", pan, desc)
	}
	if err != nil {
		return fail(rec, key+"error", "Embed returned %v (%s)", err, desc)
	}
	if fmt.Sprint(*meta) != metaSnap {
		return fail(rec, key+"modifies-metadata", "Embed modified the metadata (%s)", desc)
	}
	rec.Classf("levelP=%s", b2s(levelP < 0, "-1", b2s(levelP == len(c.PC.P)-1 || levelP == len(c.PB.P)-1, "max", "mid")))
	rec.Classf("ntt=%v/mont=%v", c.NTT, c.Mont)
	rec.Classf("reuse=%v", c.Reuse)

	gotQ := unNTTMont(ringQ, out.Q, c.NTT, c.Mont, qs)
	wantQ := h.ToRNS(ref, qs)
	for i := range qs {
		for j := range wantQ[i] {
			if gotQ[i][j] != wantQ[i][j] {
				return fail(rec, key+"Q-part", "Q limb %d coefficient %d: %d, Encode gives %d (%s)", i, j, gotQ[i][j], wantQ[i][j], desc)
			}
		}
	}
	if levelP >= 0 {
		gotP := unNTTMont(ringP, out.P, c.NTT, c.Mont, ps)
		wantP := h.ToRNS(ref, ps)
		for i := range ps {
			for j := range wantP[i] {
				if gotP[i][j] != wantP[i][j] {
					return fail(rec, key+"P-part", "P limb %d coefficient %d: %d, but the Q part holds the integer %v = %d mod p (%s)", i, j, gotP[i][j], ref[j], wantP[i][j], desc)
				}
			}
		}
	}
	nonzero := false
	for _, x := range ref {
		nonzero = nonzero || x.Sign() != 0
	}
	if nonzero {
		rec.NonTrivial(fmt.Sprintf("embed|%s|lp=%d|ntt=%v|mont=%v|reuse=%v|%s|logN=%d|ci=%v|prec=%d", scheme, levelP, c.NTT, c.Mont, c.Reuse, c.Pat, c.PC.LogN+c.PB.LogN, c.PC.CI, c.Prec))
	}
	return nil
}

var propEmbed = h.NewProp("TestPropEmbedQP", h.Budget{Quick: 300, Thorough: 5000}, genEmbed, runEmbed)

func TestPropEmbedQP(t *testing.T) { propEmbed.Check(t) }
