package c04

import (
	"fmt"
	"math/big"
	"testing"

	"verif/internal/h"

	"github.com/tuneinsight/lattigo/v6/core/rlwe"
	"github.com/tuneinsight/lattigo/v6/schemes/ckks"
	"pgregory.net/rapid"
)

// RSCase is one re-encryption between two rings: ring degree N <-> N/2^j (ApplyEvaluationKey) or
// standard <-> conjugate-invariant (ckks.DomainSwitcher).
type RSCase struct {
	Params   h.RLWESpec `json:"params"` // the larger / standard ring
	LogGap   int        `json:"logGap"` // smaller ring degree = N >> logGap (bridge: CI ring of degree N/2)
	SmallP   []uint64   `json:"smallP"` // auxiliary primes of the smaller ring's parameters (may differ from P)
	Key      KeySpec    `json:"key"`
	Dir      string     `json:"dir"` // down | up | c2r | r2c
	CtLevel  int        `json:"ctLevel"`
	Pat      string     `json:"pat"`
	Dirty    bool       `json:"dirty"`              // the output ciphertext holds stale data before the call
	FlipNTT  bool       `json:"flipNTT,omitempty"`  // down/up: ciphertext in the domain opposite to the parameters' NTTFlag
	OutLevel int        `json:"outLevel,omitempty"` // down/up: level at which the receiver is allocated (if above the ciphertext level)
	Seed     uint64     `json:"seed"`
}

func (c RSCase) RandSeed() uint64 { return c.Seed }

func genRS(t *rapid.T) RSCase {
	var c RSCase
	c.Dir = []string{"down", "up", "down", "up", "c2r", "r2c"}[rapid.IntRange(0, 5).Draw(t, "dir")]
	bridge := c.Dir == "c2r" || c.Dir == "r2c"
	minLogN, maxLogN := 5, 6
	if h.Thorough() {
		maxLogN = 7
		if rapid.IntRange(0, 15).Draw(t, "largeN") == 0 {
			minLogN, maxLogN = 8, 9
		}
	}
	if bridge {
		yes := true
		c.Params = genParams(t, minLogN, maxLogN, false, &yes) // CKKS: NTT domain only
		c.LogGap = 1
	} else {
		c.Params = genParams(t, minLogN, maxLogN, true, nil)
		c.LogGap = rapid.IntRange(1, minInt(c.Params.LogN-4, 3)).Draw(t, "logGap")
	}
	c.Key = genKey(t, c.Params, true)
	if len(c.Params.P) > 0 && rapid.Bool().Draw(t, "otherP") {
		used := map[uint64]bool{}
		for _, q := range append(append([]uint64{}, c.Params.Q...), c.Params.P...) {
			used[q] = true
		}
		sz := make([]int, len(c.Params.P))
		for i, p := range c.Params.P {
			sz[i] = bitLen(p)
		}
		c.SmallP = h.GenPrimes(t, sz, c.Params.NthRoot(), used, "sp")
	} else {
		c.SmallP = append([]uint64{}, c.Params.P...)
	}
	if rapid.IntRange(0, 2).Draw(t, "ctAtKeyLevel") == 0 {
		c.CtLevel = c.Key.LevelQ
	} else {
		c.CtLevel = rapid.IntRange(0, c.Key.LevelQ).Draw(t, "ctLevel")
	}
	c.Pat = []string{"uniform", "uniform", "top", "low"}[rapid.IntRange(0, 3).Draw(t, "pat")]
	c.Dirty = rapid.IntRange(0, 2).Draw(t, "dirty") == 0
	if !bridge {
		c.FlipNTT = rapid.IntRange(0, 3).Draw(t, "flipNTT") == 0
		if rapid.IntRange(0, 2).Draw(t, "outAbove") == 0 {
			c.OutLevel = rapid.IntRange(c.CtLevel, len(c.Params.Q)-1).Draw(t, "outLevel")
		}
	}
	c.Seed = rapid.Uint64().Draw(t, "seed")
	return c
}

func runRS(c RSCase, rec *h.Rec) error {
	_, err := guardNoPofP(c.Params, c.Key, rec, func() error { return runRSInner(c, rec) })
	return err
}

func runRSInner(c RSCase, rec *h.Rec) error {
	s := c.Params
	bridge := c.Dir == "c2r" || c.Dir == "r2c"
	small := s
	small.LogN = s.LogN - c.LogGap
	small.P = c.SmallP
	if bridge {
		small.CI = true
	}
	var pL, pS rlwe.Parameters
	var ckL ckks.Parameters
	if bridge {
		var err error
		if ckL, err = (h.CKKSSpec{RLWESpec: s, LogScale: 20}).Build(); err != nil {
			return h.Failf("C04:harness:params", "ckks parameters rejected: %v", err)
		}
		ckS, err := (h.CKKSSpec{RLWESpec: small, LogScale: 20}).Build()
		if err != nil {
			return h.Failf("C04:harness:params", "ckks CI parameters rejected: %v", err)
		}
		pL, pS = ckL.Parameters, ckS.Parameters
	} else {
		var err error
		if pL, err = s.Build(); err != nil {
			return h.Failf("C04:harness:params", "parameters rejected: %v", err)
		}
		if pS, err = small.Build(); err != nil {
			return h.Failf("C04:harness:params", "small parameters rejected: %v", err)
		}
	}
	rng := h.NewSplitMix(c.Seed ^ 0xc0405)
	N, n := s.N(), small.N()
	gap := N / n
	lvl := c.CtLevel
	isNTT := s.NTT
	outLevel := lvl
	if !bridge {
		isNTT = s.NTT != c.FlipNTT
		if c.OutLevel > lvl && c.OutLevel < len(s.Q) {
			outLevel = c.OutLevel
		}
	}
	rL, rS := pL.RingQ(), pS.RingQ()
	Q := h.ProdU(moduli(rL.AtLevel(lvl)))

	kgL, kgS := rlwe.NewKeyGenerator(pL), rlwe.NewKeyGenerator(pS)
	skL, skS := kgL.GenSecretKeyNew(), kgS.GenSecretKeyNew()
	sL, sS := skToBig(rL, skL), skToBig(rS, skS)
	evkp := c.Key.evk()
	evalL := rlwe.NewEvaluator(pL, nil)

	var (
		out      *rlwe.Ciphertext
		want     []*big.Int
		got      []*big.Int
		s1       *big.Int
		inErr    = int64(3)
		outScale = 1.0
	)
	switch c.Dir {
	case "down", "up":
		var evk *rlwe.EvaluationKey
		skIn, skOut := skL, skS
		if c.Dir == "up" {
			skIn, skOut = skS, skL
		}
		if skip, err := guardKeygen(s, c.Key, rec, func() { evk = kgL.GenEvaluationKeyNew(skIn, skOut, evkp) }); skip || err != nil {
			return err
		}
		if err := checkShape(s, c.Key, pL, evk, rec); err != nil {
			return err
		}
		if err := expandIfCompressed(pL, evk, c.Key); err != nil {
			return err
		}
		if c.Dir == "down" {
			m := uniformVec(rng, N, Q)
			ct := freshCt(pL, sL, s.CI, m, lvl, rng, c.Pat, isNTT)
			out = newOut(pS, outLevel, 1, c.Dirty, rng)
			if err := evalL.ApplyEvaluationKey(ct, evk, out); err != nil {
				return h.Failf("C04:ringswitch:down:error", "ApplyEvaluationKey: %v", err)
			}
			want = make([]*big.Int, n)
			for i := range want {
				want[i] = m[i*gap]
			}
			got = phase(rS, out, sS, s.CI)
			s1 = l1(sS)
		} else {
			m := uniformVec(rng, n, Q)
			ct := freshCt(pS, sS, s.CI, m, lvl, rng, c.Pat, isNTT)
			out = newOut(pL, outLevel, 1, c.Dirty, rng)
			if err := evalL.ApplyEvaluationKey(ct, evk, out); err != nil {
				return h.Failf("C04:ringswitch:up:error", "ApplyEvaluationKey: %v", err)
			}
			want = make([]*big.Int, N)
			for i := range want {
				want[i] = new(big.Int)
			}
			for i := range m {
				want[i*gap] = m[i]
			}
			got = phase(rL, out, sL, s.CI)
			s1 = l1(sL)
		}
	case "c2r", "r2c":
		var stdToCI, ciToStd *rlwe.EvaluationKey
		if skip, err := guardKeygen(s, c.Key, rec, func() { stdToCI, ciToStd = kgL.GenEvaluationKeysForRingSwapNew(skL, skS, evkp) }); skip || err != nil {
			return err
		}
		for _, k := range []*rlwe.EvaluationKey{stdToCI, ciToStd} {
			if err := checkShape(s, c.Key, pL, k, rec); err != nil {
				return err
			}
			if err := expandIfCompressed(pL, k, c.Key); err != nil {
				return err
			}
		}
		sw, err := ckks.NewDomainSwitcher(ckL, stdToCI, ciToStd)
		if err != nil {
			return h.Failf("C04:bridge:NewDomainSwitcher", "%v", err)
		}
		evalCk := ckks.NewEvaluator(ckL, nil)
		if c.Dir == "r2c" {
			m := uniformVec(rng, n, Q)
			ct := freshCt(pS, sS, true, m, lvl, rng, c.Pat, true)
			out = newOut(pL, lvl, 1, c.Dirty, rng)
			if err := sw.RealToComplex(evalCk, ct, out); err != nil {
				return h.Failf("C04:bridge:r2c:error", "RealToComplex: %v", err)
			}
			want = h.CIUnfold(m)
			got = phase(rL, out, sL, false)
			s1 = l1(sL)
		} else {
			m := uniformVec(rng, N, Q)
			ct := freshCt(pL, sL, false, m, lvl, rng, c.Pat, true)
			out = newOut(pS, lvl, 1, c.Dirty, rng)
			if err := sw.ComplexToReal(evalCk, ct, out); err != nil {
				return h.Failf("C04:bridge:c2r:error", "ComplexToReal: %v", err)
			}
			// m + conj(m): coefficient j is m_j - m_{N-j}, coefficient 0 is 2 m_0 (documented: twice the real part)
			want = make([]*big.Int, n)
			want[0] = new(big.Int).Lsh(m[0], 1)
			for j := 1; j < n; j++ {
				want[j] = new(big.Int).Sub(m[j], m[N-j])
			}
			got = phase(rS, out, sS, true)
			s1 = l1(h.CIUnfold(sS))
			outScale = 2
		}
	default:
		return h.Failf("C04:harness:dir", "unknown direction %q", c.Dir)
	}

	if out.Level() != lvl {
		return h.Failf("C04:"+c.Dir+":level", "output level %d, want %d", out.Level(), lvl)
	}
	if out.IsNTT != isNTT {
		return h.Failf("C04:"+c.Dir+":metadata", "output IsNTT=%v, input IsNTT=%v, parameters NTTFlag=%v", out.IsNTT, isNTT, s.NTT)
	}
	diff := h.VecCenter(h.VecSub(got, want), Q)
	norm := h.InfNorm(diff)
	bound := ksBound(s, c.Key, lvl, s1)
	bound.Add(bound, big.NewInt(inErr))
	if outScale == 2 {
		bound.Lsh(bound, 1)
	}
	disc := discriminating(bound, Q)

	rec.Class("dir=" + c.Dir)
	rec.Classf("logGap=%d", c.LogGap)
	rec.Class(pClass(s))
	rec.Class(wClass(c.Key.W))
	rec.Classf("ci=%v", s.CI)
	rec.Classf("ntt=%v", s.NTT)
	rec.Classf("compressed=%v", c.Key.Compressed)
	rec.Classf("discriminating=%v", disc)
	otherP := fmt.Sprint(c.SmallP) != fmt.Sprint(s.P)
	rec.Classf("otherP=%v", otherP)
	rec.Classf("dirtyOut=%v", c.Dirty)
	rec.Classf("flipNTT=%v", c.FlipNTT)
	rec.Classf("receiverAbove=%v", outLevel > lvl)
	lvlClass := "ct=key"
	if lvl < c.Key.LevelQ {
		lvlClass = "ct<key"
	}
	keyClass := "key=max"
	if c.Key.LevelQ < len(s.Q)-1 || c.Key.LevelP < len(s.P)-1 {
		keyClass = "key<max"
	}
	rec.Class(lvlClass)
	rec.Class(keyClass)
	rec.Note("log2bound", bound.BitLen())
	rec.Note("log2noise", norm.BitLen())
	rec.Note("log2Q", Q.BitLen())

	if norm.Cmp(bound) > 0 {
		key := fmt.Sprintf("C04:ringswitch:%s:noise-above-bound", c.Dir)
		generic := key
		if c.Dirty {
			key = fmt.Sprintf("C04:ringswitch:%s:stale-output:noise-above-bound", c.Dir)
			if c.Dir == "up" && !isNTT {
				key = keyStaleUp
			}
		}
		if c.Key.LevelP == -1 && c.Key.W == 0 && lvl >= 1 {
			key = keyNoPw0
		} else if ciModDownOverflow(s, c.Key, lvl) {
			key = keyCIModDown
		} else if digitsShort(s, c.Key, lvl) {
			key = keyDigits + ":wrong-result"
		}
		msg := fmt.Sprintf("|Dec(out) - expected|_inf = 2^%d > bound 2^%d (log2 Q = %d, N=%d -> %s, n=%d, key=%+v, ct level %d)",
			norm.BitLen(), bound.BitLen(), Q.BitLen(), N, c.Dir, n, c.Key, lvl)
		if !h.IsKnown(key) {
			key = generic // the class of a repaired finding is not special any more: report under the call site's own key
		}
		if rec.Known(key, msg) {
			rec.Class("known=" + key)
			return nil
		}
		return h.Failf(key, "%s", msg)
	}
	if disc {
		rec.NonTrivial(fmt.Sprintf("%s|N%d|gap%d|ci%v|ntt%v|%s|%s|%s|%s|%s|comp%v|otherP%v|dirty%v|flip%v|above%v", c.Dir, N, c.LogGap, s.CI, s.NTT, pClass(s), wClass(c.Key.W),
			sizeClass(s.Q), lvlClass, keyClass, c.Key.Compressed, otherP, c.Dirty, c.FlipNTT, outLevel > lvl))
	}
	return nil
}

const keyStaleUp = "C04:ApplyEvaluationKey:small-to-large:non-NTT:stale-output-not-cleared"

var propRS = h.NewProp("TestPropRingSwitch", h.Budget{Quick: 300, Thorough: 6000}, genRS, runRS)

func TestPropRingSwitch(t *testing.T) { propRS.Check(t) }
