package c04

import (
	"fmt"
	"math"
	"math/big"
	"testing"

	"verif/internal/h"

	"github.com/tuneinsight/lattigo/v6/core/rlwe"
	"pgregory.net/rapid"
)

// KSCase is one application of an evaluation key inside a single ring.
type KSCase struct {
	Params   h.RLWESpec `json:"params"`
	Key      KeySpec    `json:"key"`
	Op       string     `json:"op"`
	CtLevel  int        `json:"ctLevel"`
	GalK     int64      `json:"galK"`   // Galois element 5^galK ...
	GalNeg   bool       `json:"galNeg"` // ... times -1 (standard ring only)
	InPlace  bool       `json:"inPlace"`
	Dirty    bool       `json:"dirty"`              // a non-aliased output ciphertext holds stale data before the call
	FlipNTT  bool       `json:"flipNTT,omitempty"`  // the ciphertext is in the domain opposite to the parameters' NTTFlag (IsNTT set accordingly)
	OutLevel int        `json:"outLevel,omitempty"` // level at which an out-of-place receiver is allocated (if above the ciphertext level)
	OutDeg2  bool       `json:"outDeg2,omitempty"`  // Relinearize into a receiver of degree 2
	QPExtra  int        `json:"qpExtra,omitempty"`  // AutomorphismHoistedLazy: receiver with LevelP = key LevelP + qpExtra
	Twice    bool       `json:"twice,omitempty"`    // a second application with the same evaluator, key and receiver
	Pat      string     `json:"pat"`                // coefficient pattern of the key-switched polynomial: uniform | top | low
	Seed     uint64     `json:"seed"`
}

func (c KSCase) RandSeed() uint64 { return c.Seed }

var ksOps = []string{"apply", "relin", "auto", "autoHoisted", "autoHoistedLazy", "gadget", "gadgetHoisted"}

func hoistedOp(op string) bool {
	return op == "autoHoisted" || op == "autoHoistedLazy" || op == "gadgetHoisted"
}

func autoOp(op string) bool { return op == "auto" || op == "autoHoisted" || op == "autoHoistedLazy" }

func genKS(t *rapid.T) KSCase {
	var c KSCase
	minLogN, maxLogN := 4, 6
	if h.Thorough() {
		maxLogN = 7
		if rapid.IntRange(0, 15).Draw(t, "largeN") == 0 { // lattigo's own tests run at N=2^10
			minLogN, maxLogN = 8, 10
		}
	}
	c.Params = genParams(t, minLogN, maxLogN, true, nil)
	c.Op = ksOps[rapid.IntRange(0, len(ksOps)-1).Draw(t, "op")]
	if hoistedOp(c.Op) && len(c.Params.P) == 0 {
		// the hoisted methods decompose modulo QP: only defined with an auxiliary modulus (all callers, rlwe_test skips)
		c.Op = map[string]string{"autoHoisted": "auto", "autoHoistedLazy": "auto", "gadgetHoisted": "gadget"}[c.Op]
	}
	c.Key = genKey(t, c.Params, !hoistedOp(c.Op)) // hoisted methods: "unsupported for BaseTwoDecomposition != 0"
	if rapid.IntRange(0, 2).Draw(t, "ctAtKeyLevel") == 0 {
		c.CtLevel = c.Key.LevelQ
	} else {
		c.CtLevel = rapid.IntRange(0, c.Key.LevelQ).Draw(t, "ctLevel")
	}
	if autoOp(c.Op) {
		switch rapid.IntRange(0, 4).Draw(t, "galKind") {
		case 0:
			c.GalK = 1
		case 1:
			c.GalK = rapid.Int64Range(-8, 8).Draw(t, "galSmall")
		case 2:
			c.GalK = rapid.Int64Range(-1<<40, 1<<40).Draw(t, "galLarge")
		default:
			c.GalK = rapid.Int64Range(-int64(c.Params.N()), int64(c.Params.N())).Draw(t, "galK")
		}
		if !c.Params.CI {
			c.GalNeg = rapid.IntRange(0, 3).Draw(t, "galNeg") == 0
		}
	}
	c.InPlace = rapid.Bool().Draw(t, "inPlace")
	c.Dirty = rapid.IntRange(0, 2).Draw(t, "dirty") == 0
	c.Pat = []string{"uniform", "uniform", "top", "low"}[rapid.IntRange(0, 3).Draw(t, "pat")]
	c.FlipNTT = rapid.IntRange(0, 3).Draw(t, "flipNTT") == 0
	if rapid.IntRange(0, 2).Draw(t, "outAbove") == 0 {
		c.OutLevel = rapid.IntRange(c.CtLevel, len(c.Params.Q)-1).Draw(t, "outLevel")
	}
	c.OutDeg2 = rapid.IntRange(0, 2).Draw(t, "outDeg2") == 0
	c.QPExtra = rapid.IntRange(0, 2).Draw(t, "qpExtra")
	c.Twice = rapid.IntRange(0, 2).Draw(t, "twice") == 0
	c.Seed = rapid.Uint64().Draw(t, "seed")
	return c
}

// expandIfCompressed turns a compressed key into a usable one (and checks the documented error paths cheaply).
func expandIfCompressed(params rlwe.Parameters, evk *rlwe.EvaluationKey, k KeySpec) error {
	if !k.Compressed {
		if evk.IsCompressed() {
			return h.Failf("C04:keygen:uncompressed-key-reports-compressed", "IsCompressed()=true for Compressed=false")
		}
		return nil
	}
	if !evk.IsCompressed() || evk.Seed == nil {
		return h.Failf("C04:keygen:compressed-key-without-seed", "IsCompressed()=%v seed nil=%v", evk.IsCompressed(), evk.Seed == nil)
	}
	if err := evk.Expand(params, nil); err != nil {
		return h.Failf("C04:Expand:error", "Expand: %v", err)
	}
	if evk.IsCompressed() {
		return h.Failf("C04:Expand:still-compressed", "key still compressed after Expand")
	}
	return nil
}

// checkShape compares the key's digit layout with the definition: ceil((levelQ+1)/(levelP+1)) RNS groups and, when a
// base-2 decomposition is in effect (levelP <= 0), ceil(bitlen(q_i)/w) digits for group i.
func checkShape(s h.RLWESpec, k KeySpec, params rlwe.Parameters, evk *rlwe.EvaluationKey, rec *h.Rec) error {
	nbPi := k.LevelP + 1
	if nbPi < 1 {
		nbPi = 1
	}
	rows := (k.LevelQ + 1 + nbPi - 1) / nbPi
	if got := params.BaseRNSDecompositionVectorSize(k.LevelQ, k.LevelP); got != rows || len(evk.Value) != rows {
		return h.Failf("C04:shape:rns-groups", "BaseRNSDecompositionVectorSize(%d,%d)=%d, key rows=%d, want %d", k.LevelQ, k.LevelP, got, len(evk.Value), rows)
	}
	if evk.LevelQ() != k.LevelQ || evk.LevelP() != k.LevelP {
		return h.Failf("C04:shape:levels", "key levels (%d,%d), want (%d,%d)", evk.LevelQ(), evk.LevelP(), k.LevelQ, k.LevelP)
	}
	for i := 0; i < rows; i++ {
		want := 1
		if k.W > 0 && k.LevelP <= 0 {
			want = (bitLen(s.Q[i]) + k.W - 1) / k.W
		}
		if len(evk.Value[i]) != want {
			msg := fmt.Sprintf("row %d (q=%d) has %d digits of %d bits, want ceil(bitlen/w)=ceil(%d/%d)=%d", i, s.Q[i], len(evk.Value[i]), k.W, bitLen(s.Q[i]), k.W, want)
			if len(evk.Value[i])*k.W < bitLen(s.Q[i]) && rec.Known(keyDigits, msg) {
				rec.Class("known=" + keyDigits)
				continue
			}
			return h.Failf(keyDigits, "%s", msg)
		}
	}
	return nil
}

func bitLen(q uint64) int { return new(big.Int).SetUint64(q).BitLen() }

// freshCt builds an encryption of the integer vector m under the secret s at the given level: c1 uniform,
// c0 = m + e - c1*s with |e| <= 3 (built by the harness so that the input noise is known exactly and the check does
// not depend on rlwe.Encryptor, which is C03's subject).
func freshCt(params rlwe.Parameters, s []*big.Int, ci bool, m []*big.Int, level int, rng *h.SplitMix, pat string, isNTT bool) *rlwe.Ciphertext {
	rl := params.RingQ().AtLevel(level)
	n := len(m)
	c1 := patVec(rng, n, moduli(rl), pat)
	e := smallVec(rng, n, 3)
	c0 := h.VecSub(h.VecAdd(m, e), mulQ(c1, s, moduli(rl), ci))
	ct := rlwe.NewCiphertext(params, 1, level)
	ct.IsNTT = isNTT
	ct.Value[0].CopyLvl(level, bigToPoly(rl, c0, isNTT))
	ct.Value[1].CopyLvl(level, bigToPoly(rl, c1, isNTT))
	return ct
}

const (
	keyNoPw0  = "C04:gadget-product:noP-w0-level>0:wrong-result"
	keyDigits = "C04:base2-digits:round-log2-instead-of-bitlen"
)

const keyCIModDown = "C04:ci-ntt-61bit-prime:ModDownQPtoQNTT-overflow"

// ciModDownOverflow: conjugate-invariant ring, NTT-domain ciphertext, division by P, and a prime q_i with 9*q_i >= 2^64
// (NTTConjugateInvariantLazy returns values up to 8q-1, BasisExtender.ModDownQPtoQNTT then adds 2q: wraps 2^64).
func ciModDownOverflow(s h.RLWESpec, k KeySpec, lvl int) bool {
	if !s.CI || !s.NTT || k.LevelP < 0 {
		return false
	}
	for i := 0; i <= lvl; i++ {
		if s.Q[i] > (1<<64-1)/9 {
			return true
		}
	}
	return false
}

// digitsShort reports whether, for some prime used at this level, the number of base-2^w digits lattigo allocates
// (ceil(round(log2 q)/w)) does not cover the bit length of the prime.
func digitsShort(s h.RLWESpec, k KeySpec, lvl int) bool {
	if k.W == 0 || k.LevelP > 0 {
		return false
	}
	for i := 0; i <= lvl && i <= k.LevelQ; i++ {
		lg := int(math.Round(math.Log2(float64(s.Q[i]))))
		if ((lg+k.W-1)/k.W)*k.W < bitLen(s.Q[i]) {
			return true
		}
	}
	return false
}

const keyNoPofP = "C04:gadget-product:key-LevelP=-1-under-params-with-P:w0:panic"

// guardNoPofP runs f. For a key without auxiliary modulus (LevelP = -1, BaseTwoDecomposition = 0) under parameters that
// do have P, the gadget product panics in ring.Decomposer.DecomposeAndSplit (listed finding): that class is run under
// recover so that the guard disappears by itself once the defect is fixed.
func guardNoPofP(s h.RLWESpec, k KeySpec, rec *h.Rec, f func() error) (skip bool, err error) {
	if !(k.LevelP == -1 && len(s.P) > 0 && k.W == 0) {
		return false, f()
	}
	var pv any
	func() {
		defer func() { pv = recover() }()
		err = f()
	}()
	if pv == nil {
		return false, err
	}
	msg := fmt.Sprintf("key switch with a key at LevelP=-1, BaseTwoDecomposition=0 under parameters with %d auxiliary primes panics: %v", len(s.P), pv)
	if rec.Known(keyNoPofP, msg) {
		rec.Class("known=" + keyNoPofP)
		return true, nil
	}
	return true, h.Failf(keyNoPofP, "%s", msg)
}

const keyTernaryPanic = "C04:keygen:ternary-Xe-keylevel<max:panic"

// guardKeygen runs a key generation. For a ternary error distribution and a key level below the maximum the generation
// panics (ring.TernarySampler.AtLevel ignores the level, listed finding); that class is probed under recover so that the
// search continues behind it and so that the guard disappears by itself once the defect is fixed.
func guardKeygen(s h.RLWESpec, k KeySpec, rec *h.Rec, f func()) (skip bool, err error) {
	if s.Xe.Kind == "gauss" || k.LevelQ == len(s.Q)-1 {
		f()
		return false, nil
	}
	var pv any
	func() {
		defer func() { pv = recover() }()
		f()
	}()
	if pv == nil {
		return false, nil
	}
	msg := fmt.Sprintf("key generation at LevelQ=%d < %d with Xe=%+v panics: %v", k.LevelQ, len(s.Q)-1, s.Xe, pv)
	if rec.Known(keyTernaryPanic, msg) {
		rec.Class("known=" + keyTernaryPanic)
		return true, nil
	}
	return true, h.Failf(keyTernaryPanic, "%s", msg)
}

func runKS(c KSCase, rec *h.Rec) error {
	s := c.Params
	params, err := s.Build()
	if err != nil {
		return h.Failf("C04:harness:params", "parameters rejected: %v", err)
	}
	rng := h.NewSplitMix(c.Seed ^ 0xc04)
	ringQ := params.RingQ()
	lvl := c.CtLevel
	rl := ringQ.AtLevel(lvl)
	qs := moduli(rl)
	Q := h.ProdU(qs)
	N := s.N()
	isNTT := s.NTT != c.FlipNTT // domain of the ciphertext (the IsNTT flag is set accordingly)
	outLevel := lvl
	if c.OutLevel > lvl && c.OutLevel < len(s.Q) && !c.InPlace {
		outLevel = c.OutLevel
	}

	kgen := rlwe.NewKeyGenerator(params)
	sk := kgen.GenSecretKeyNew()
	sB := skToBig(ringQ, sk)
	evkp := c.Key.evk()

	// ---- key material (generated once, used by every round)
	var (
		sOut  = sB
		galEl uint64
		evk   *rlwe.EvaluationKey
		eval  *rlwe.Evaluator
	)
	switch {
	case c.Op == "apply" || c.Op == "gadget" || c.Op == "gadgetHoisted":
		skOut := kgen.GenSecretKeyNew()
		sOut = skToBig(ringQ, skOut)
		if skip, err := guardKeygen(s, c.Key, rec, func() { evk = kgen.GenEvaluationKeyNew(sk, skOut, evkp) }); skip || err != nil {
			return err
		}
		eval = rlwe.NewEvaluator(params, nil)
	case c.Op == "relin":
		var rlk *rlwe.RelinearizationKey
		if skip, err := guardKeygen(s, c.Key, rec, func() { rlk = kgen.GenRelinearizationKeyNew(sk, evkp) }); skip || err != nil {
			return err
		}
		evk = &rlk.EvaluationKey
		eval = rlwe.NewEvaluator(params, rlwe.NewMemEvaluationKeySet(rlk))
	case autoOp(c.Op):
		nth := ringQ.NthRoot()
		galEl = galois(c.GalK, c.GalNeg, nth)
		if !c.GalNeg {
			if got := params.GaloisElement(int(c.GalK)); got != galEl {
				return h.Failf("C04:GaloisElement:value", "GaloisElement(%d)=%d, 5^k mod %d = %d", c.GalK, got, nth, galEl)
			}
		}
		if inv := params.ModInvGaloisElement(galEl); mulmod64(inv, galEl, nth) != 1 {
			return h.Failf("C04:ModInvGaloisElement:not-inverse", "galEl=%d inv=%d nthRoot=%d", galEl, inv, nth)
		}
		var gk *rlwe.GaloisKey
		if skip, err := guardKeygen(s, c.Key, rec, func() { gk = kgen.GenGaloisKeyNew(galEl, sk, evkp) }); skip || err != nil {
			return err
		}
		if gk.GaloisElement != galEl || gk.NthRoot != nth {
			return h.Failf("C04:GaloisKey:metadata", "GaloisElement=%d NthRoot=%d want %d %d", gk.GaloisElement, gk.NthRoot, galEl, nth)
		}
		evk = &gk.EvaluationKey
		eval = rlwe.NewEvaluator(params, rlwe.NewMemEvaluationKeySet(nil, gk))
	default:
		return h.Failf("C04:harness:op", "unknown op %q", c.Op)
	}
	if err := checkShape(s, c.Key, params, evk, rec); err != nil {
		return err
	}
	if err := expandIfCompressed(params, evk, c.Key); err != nil {
		return err
	}
	keyBefore, err := evk.GadgetCiphertext.MarshalBinary()
	if err != nil {
		return h.Failf("C04:harness:marshal", "%v", err)
	}

	bound := new(big.Int)
	if !((c.Op == "auto" || c.Op == "autoHoisted") && galEl == 1) { // galEl == 1: these two methods copy
		bound = ksBound(s, c.Key, lvl, l1(sOut))
	}
	bound.Add(bound, big.NewInt(3))
	disc := discriminating(bound, Q)
	worst := new(big.Int)

	// ---- one application of the key; round 2 re-uses the evaluator, the key and (out of place) the previous output as receiver
	var prevOut *rlwe.Ciphertext
	round := func(r int) error {
		tag := c.Op
		if r > 0 {
			tag += ":second-use"
		}
		m := uniformVec(rng, N, Q)
		var (
			want []*big.Int
			in   *rlwe.Ciphertext // input ciphertext (nil for the raw gadget products)
			inCp *rlwe.Ciphertext
			out  *rlwe.Ciphertext
		)
		receiver := func(level, degree int) *rlwe.Ciphertext {
			if prevOut != nil && prevOut.Degree() == 1 {
				return prevOut // an output with a real earlier life
			}
			o := newOut(params, level, degree, c.Dirty, rng)
			return o
		}
		switch c.Op {
		case "apply":
			in = freshCt(params, sB, s.CI, m, lvl, rng, c.Pat, isNTT)
			inCp = in.CopyNew()
			out = in
			if !c.InPlace {
				out = receiver(outLevel, 1)
			}
			if err := eval.ApplyEvaluationKey(in, evk, out); err != nil {
				return h.Failf("C04:apply:error", "ApplyEvaluationKey: %v", err)
			}
			want = m
		case "gadget", "gadgetHoisted":
			// raw gadget product of a polynomial: the result decrypts under sOut to cx * sIn
			cxB := patVec(rng, N, qs, c.Pat)
			out = receiver(lvl, 1)
			out.IsNTT = isNTT
			cx := bigToPoly(rl, cxB, isNTT)
			cxCp := *cx.CopyNew()
			if c.Op == "gadget" {
				eval.GadgetProduct(lvl, cx, &evk.GadgetCiphertext, out)
			} else {
				eval.DecomposeNTT(lvl, c.Key.LevelP, c.Key.LevelP+1, cx, isNTT, eval.BuffDecompQP)
				eval.GadgetProductHoisted(lvl, eval.BuffDecompQP, &evk.GadgetCiphertext, out)
			}
			if !cx.Equal(&cxCp) {
				return h.Failf("C04:"+c.Op+":input-polynomial-modified", "cx differs after the call")
			}
			want = mulQ(cxB, sB, qs, s.CI)
		case "relin":
			// degree-2 ciphertext built by the harness: c1, c2 uniform, c0 = m + e - c1 s - c2 s^2
			c1 := uniformVec(rng, N, Q)
			c2 := patVec(rng, N, qs, c.Pat)
			e := smallVec(rng, N, 3)
			s2 := mulQ(sB, sB, qs, s.CI)
			c0 := h.VecSub(h.VecAdd(m, e), h.VecAdd(mulQ(c1, sB, qs, s.CI), mulQ(c2, s2, qs, s.CI)))
			in = rlwe.NewCiphertext(params, 2, lvl)
			in.IsNTT = isNTT
			for i, v := range [][]*big.Int{c0, c1, c2} {
				in.Value[i].CopyLvl(lvl, bigToPoly(rl, v, isNTT))
			}
			inCp = in.CopyNew()
			out = in
			if !c.InPlace {
				deg := 1
				if c.OutDeg2 {
					deg = 2
				}
				out = receiver(outLevel, deg)
			}
			if err := eval.Relinearize(in, out); err != nil {
				return h.Failf("C04:relin:error", "Relinearize: %v", err)
			}
			if out.Degree() != 1 {
				return h.Failf("C04:relin:degree", "output degree %d after Relinearize", out.Degree())
			}
			want = m
		default: // automorphisms
			in = freshCt(params, sB, s.CI, m, lvl, rng, c.Pat, isNTT)
			inCp = in.CopyNew()
			out = in
			if !c.InPlace {
				if c.Op == "autoHoistedLazy" {
					out = receiver(lvl, 1) // ModDown is a low level routine: receiver at the level of the computation
				} else {
					out = receiver(outLevel, 1)
				}
			}
			switch c.Op {
			case "auto":
				if err := eval.Automorphism(in, galEl, out); err != nil {
					return h.Failf("C04:auto:error", "Automorphism: %v", err)
				}
			case "autoHoisted":
				eval.DecomposeNTT(lvl, c.Key.LevelP, c.Key.LevelP+1, in.Value[1], in.IsNTT, eval.BuffDecompQP)
				if err := eval.AutomorphismHoisted(lvl, in, eval.BuffDecompQP, galEl, out); err != nil {
					return h.Failf("C04:autoHoisted:error", "AutomorphismHoisted: %v", err)
				}
			case "autoHoistedLazy":
				eval.DecomposeNTT(lvl, c.Key.LevelP, c.Key.LevelP+1, in.Value[1], in.IsNTT, eval.BuffDecompQP)
				lp := c.Key.LevelP + c.QPExtra // documented requirement: ctQP.LevelP >= key.LevelP
				if lp > len(s.P)-1 {
					lp = len(s.P) - 1
				}
				ctQP := rlwe.NewElementExtended(params, 1, lvl, lp)
				*ctQP.MetaData = *in.MetaData
				if err := eval.AutomorphismHoistedLazy(lvl, in, eval.BuffDecompQP, galEl, ctQP); err != nil {
					return h.Failf("C04:autoHoistedLazy:error", "AutomorphismHoistedLazy: %v", err)
				}
				if c.InPlace {
					inCp = nil // the division by P below overwrites the input on purpose
				}
				*out.MetaData = *in.MetaData // ModDown returns the result in the domain announced by the receiver
				eval.ModDown(lvl, c.Key.LevelP, ctQP, out)
			}
			want = ringAut(m, galEl, s.CI)
		}

		// ---- oracle
		if out.Level() != lvl {
			return h.Failf("C04:"+tag+":level", "output level %d, want %d (receiver allocated at level %d)", out.Level(), lvl, outLevel)
		}
		if out.IsNTT != isNTT {
			return h.Failf("C04:"+tag+":metadata", "output IsNTT=%v, input IsNTT=%v (parameters NTTFlag=%v)", out.IsNTT, isNTT, s.NTT)
		}
		if in != nil && inCp != nil && out != in && !in.Equal(inCp) {
			return h.Failf("C04:"+tag+":input-ciphertext-modified", "the input ciphertext differs after an out-of-place call")
		}
		if keyAfter, _ := evk.GadgetCiphertext.MarshalBinary(); string(keyAfter) != string(keyBefore) {
			return h.Failf("C04:"+tag+":key-modified", "the evaluation key differs after the call")
		}
		got := phase(ringQ, out, sOut, s.CI)
		norm := h.InfNorm(h.VecCenter(h.VecSub(got, want), Q))
		if norm.Cmp(worst) > 0 {
			worst = norm
		}
		if norm.Cmp(bound) > 0 {
			key := fmt.Sprintf("C04:%s:noise-above-bound", tag)
			generic := key
			if ciModDownOverflow(s, c.Key, lvl) {
				key = keyCIModDown
			} else if digitsShort(s, c.Key, lvl) {
				key = keyDigits + ":wrong-result"
			} else if c.Key.LevelP == -1 && c.Key.W == 0 && lvl >= 1 && len(s.P) == 0 {
				key = keyNoPw0
			}
			msg := fmt.Sprintf("|Dec(out) - expected|_inf = 2^%d > bound 2^%d (log2 Q = %d, N=%d, key=%+v, ct level %d, receiver level %d, galEl=%d, IsNTT=%v/NTTFlag=%v, op=%s)",
				norm.BitLen(), bound.BitLen(), Q.BitLen(), N, c.Key, lvl, outLevel, galEl, isNTT, s.NTT, tag)
			if !h.IsKnown(key) {
				key = generic // the class of a repaired finding is not special any more: report under the call site's own key
			}
			if rec.Known(key, msg) {
				rec.Class("known=" + key)
				return errKnown
			}
			return h.Failf(key, "%s", msg)
		}
		if out != in {
			prevOut = out
		}
		return nil
	}
	rounds := 1
	if c.Twice {
		rounds = 2
	}
	for r := 0; r < rounds; r++ {
		if skip, err := guardNoPofP(s, c.Key, rec, func() error { return round(r) }); skip || err == errKnown {
			return nil
		} else if err != nil {
			return err
		}
	}

	rec.Class("op=" + c.Op)
	rec.Class(pClass(s))
	rec.Class(wClass(c.Key.W))
	rec.Classf("ci=%v", s.CI)
	rec.Classf("ntt=%v", s.NTT)
	rec.Classf("flipNTT=%v", c.FlipNTT)
	rec.Classf("compressed=%v", c.Key.Compressed)
	rec.Classf("dirtyOut=%v", c.Dirty && !c.InPlace)
	rec.Classf("receiverAbove=%v", outLevel > lvl)
	rec.Classf("twice=%v", c.Twice)
	rec.Classf("keyNoPofP=%v", c.Key.LevelP == -1 && len(s.P) > 0)
	if c.Op == "autoHoistedLazy" {
		rec.Classf("qpExtra=%v", c.QPExtra > 0 && c.Key.LevelP < len(s.P)-1)
	}
	rec.Classf("discriminating=%v", disc)
	lvlClass := "ct=key"
	if lvl < c.Key.LevelQ {
		lvlClass = "ct<key"
	}
	keyClass := "key=max"
	if c.Key.LevelQ < len(s.Q)-1 || c.Key.LevelP < len(s.P)-1 {
		keyClass = "key<max"
	}
	if c.Key.LevelP == -1 && len(s.P) > 0 {
		keyClass = "key-noP"
	}
	rec.Class(lvlClass)
	rec.Class(keyClass)
	tail := (lvl+1)%(maxInt(c.Key.LevelP, 0)+1) != 0
	rec.Classf("rnsTail=%v", tail)
	rec.Note("log2bound", bound.BitLen())
	rec.Note("log2noise", worst.BitLen())
	rec.Note("log2Q", Q.BitLen())

	galClass := ""
	if autoOp(c.Op) {
		switch {
		case galEl == 1:
			galClass = "g1"
		case galEl == 5:
			galClass = "g5"
		case c.GalNeg:
			galClass = "gneg"
		case c.GalK < 0:
			galClass = "ginv"
		default:
			galClass = "gpow"
		}
		rec.Class("gal=" + galClass)
	}
	nt := c.Key.LevelQ < len(s.Q)-1 || c.Key.LevelP < len(s.P)-1 || c.Key.W > 0 || sizeClass(append(append([]uint64{}, s.Q...), s.P...)) == "mixed" ||
		lvl < c.Key.LevelQ || (autoOp(c.Op) && galEl != 5)
	if disc && nt {
		rec.NonTrivial(fmt.Sprintf("%s|N%d|ci%v|ntt%v|flip%v|%s|%s|%s|%s|%s|tail%v|comp%v|%s|inpl%v|above%v|twice%v", c.Op, N, s.CI, s.NTT, c.FlipNTT, pClass(s), wClass(c.Key.W),
			sizeClass(s.Q), lvlClass, keyClass, tail, c.Key.Compressed, galClass, c.InPlace, outLevel > lvl, c.Twice))
	}
	return nil
}

var errKnown = fmt.Errorf("listed known finding")

func maxInt(a, b int) int {
	if a > b {
		return a
	}
	return b
}

func mulmod64(a, b, m uint64) uint64 {
	x := new(big.Int).Mul(h.BU(a), h.BU(b))
	return x.Mod(x, h.BU(m)).Uint64()
}

var propKS = h.NewProp("TestPropKeySwitch", h.Budget{Quick: 600, Thorough: 12000}, genKS, runKS)

func TestPropKeySwitch(t *testing.T) { propKS.Check(t) }
