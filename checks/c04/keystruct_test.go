package c04

import (
	"bytes"
	"fmt"
	"math/big"
	"testing"

	"verif/internal/h"

	"github.com/tuneinsight/lattigo/v6/core/rlwe"
	"github.com/tuneinsight/lattigo/v6/ring/ringqp"
	"github.com/tuneinsight/lattigo/v6/utils/sampling"
	"pgregory.net/rapid"
)

// KeyCase generates one evaluation key and recomputes, row by row, that it is an encryption of P * 2^(w j) * s_in
// placed on the RNS digit rows; for compressed keys, that Expand regenerates exactly the seeded uniform components.
type KeyCase struct {
	Params h.RLWESpec `json:"params"`
	Key    KeySpec    `json:"key"`
	Kind   string     `json:"kind"` // evk | rlk | gal
	GalK   int64      `json:"galK"`
	GalNeg bool       `json:"galNeg"`
	Buffer bool       `json:"buffer"` // Expand with a caller-provided buffer
	Seed   uint64     `json:"seed"`
}

func (c KeyCase) RandSeed() uint64 { return c.Seed }

func genKeyCase(t *rapid.T) KeyCase {
	var c KeyCase
	minLogN, maxLogN := 4, 5
	if h.Thorough() {
		maxLogN = 7
		if rapid.IntRange(0, 15).Draw(t, "largeN") == 0 {
			minLogN, maxLogN = 8, 9
		}
	}
	c.Params = genParams(t, minLogN, maxLogN, true, nil)
	c.Key = genKey(t, c.Params, true)
	c.Key.Compressed = rapid.IntRange(0, 2).Draw(t, "compressed2") != 0 // mostly compressed here
	c.Kind = []string{"evk", "rlk", "gal"}[rapid.IntRange(0, 2).Draw(t, "kind")]
	if c.Kind == "gal" {
		c.GalK = rapid.Int64Range(-int64(c.Params.N()), int64(c.Params.N())).Draw(t, "galK")
		if !c.Params.CI {
			c.GalNeg = rapid.IntRange(0, 3).Draw(t, "galNeg") == 0
		}
	}
	c.Buffer = rapid.Bool().Draw(t, "buffer")
	c.Seed = rapid.Uint64().Draw(t, "seed")
	return c
}

// qpToBig returns the integer coefficients in [0, QP) of a key polynomial stored in the NTT and Montgomery domain.
func qpToBig(r ringqp.Ring, p ringqp.Poly) []*big.Int {
	c := *p.CopyNew()
	r.IMForm(c, c)
	r.INTT(c, c)
	limbs := append([][]uint64{}, c.Q.Coeffs...)
	qs := append([]uint64{}, moduli(r.RingQ)...)
	if r.RingP != nil {
		limbs = append(limbs, c.P.Coeffs...)
		qs = append(qs, moduli(r.RingP)...)
	}
	return h.CRT(limbs, qs)
}

func runKeyCase(c KeyCase, rec *h.Rec) error {
	s := c.Params
	params, err := s.Build()
	if err != nil {
		return h.Failf("C04:harness:params", "parameters rejected: %v", err)
	}
	ringQ := params.RingQ()
	k := c.Key
	evkp := k.evk()
	N := s.N()

	// generation is a pure function of the crypto/rand stream: two runs from the same stream are bit-identical
	var galEl uint64
	if c.Kind == "gal" {
		galEl = galois(c.GalK, c.GalNeg, ringQ.NthRoot())
	}
	type gen struct {
		evk      *rlwe.EvaluationKey
		sIn, sOu []*big.Int
	}
	generate := func() (g gen, skip bool, err error) {
		h.SeedRand(c.Seed)
		kgen := rlwe.NewKeyGenerator(params)
		sk := kgen.GenSecretKeyNew()
		sB := skToBig(ringQ, sk)
		switch c.Kind {
		case "evk":
			skOut := kgen.GenSecretKeyNew()
			skip, err = guardKeygen(s, k, rec, func() { g.evk = kgen.GenEvaluationKeyNew(sk, skOut, evkp) })
			g.sIn, g.sOu = sB, skToBig(ringQ, skOut)
		case "rlk":
			var rlk *rlwe.RelinearizationKey
			skip, err = guardKeygen(s, k, rec, func() { rlk = kgen.GenRelinearizationKeyNew(sk, evkp) })
			if rlk != nil {
				g.evk = &rlk.EvaluationKey
			}
			g.sIn, g.sOu = smallMul(sB, sB, s.CI), sB
		default:
			var gk *rlwe.GaloisKey
			skip, err = guardKeygen(s, k, rec, func() { gk = kgen.GenGaloisKeyNew(galEl, sk, evkp) })
			if gk != nil {
				g.evk = &gk.EvaluationKey
			}
			// the key re-encrypts from s to pi^-1(s); the automorphism pi is applied afterwards
			inv := new(big.Int).ModInverse(h.BU(galEl), h.BU(ringQ.NthRoot())).Uint64()
			g.sIn, g.sOu = sB, ringAut(sB, inv, s.CI)
		}
		return
	}
	g1, skip, err := generate()
	if skip || err != nil {
		return err
	}
	g2, _, _ := generate()
	b1, err := g1.evk.MarshalBinary()
	if err != nil {
		return h.Failf("C04:key:marshal", "%v", err)
	}
	b2, _ := g2.evk.MarshalBinary()
	if !bytes.Equal(b1, b2) {
		return h.Failf("C04:keygen:not-deterministic", "two generations from the same random stream differ (compressed=%v)", k.Compressed)
	}
	evk := g1.evk
	if err := checkShape(s, k, params, evk, rec); err != nil {
		return err
	}

	if k.Compressed {
		if !evk.IsCompressed() || evk.Seed == nil {
			return h.Failf("C04:keygen:compressed-key-without-seed", "IsCompressed()=%v seed nil=%v", evk.IsCompressed(), evk.Seed == nil)
		}
		for i := range evk.Value {
			for j := range evk.Value[i] {
				if len(evk.Value[i][j]) != 1 {
					return h.Failf("C04:keygen:compressed-key-degree", "row (%d,%d) stores %d polynomials", i, j, len(evk.Value[i][j]))
				}
			}
		}
		// serialise -> expand must equal expand -> serialise
		var viaBytes rlwe.EvaluationKey
		if err := viaBytes.UnmarshalBinary(b1); err != nil {
			return h.Failf("C04:compressed:unmarshal", "%v", err)
		}
		if err := viaBytes.Expand(params, nil); err != nil {
			return h.Failf("C04:Expand:error", "after unmarshal: %v", err)
		}
		var buf *rlwe.GadgetCiphertext
		if c.Buffer {
			buf = rlwe.NewGadgetCiphertext(params, 0, k.LevelQ, k.LevelP, k.W)
		}
		if err := evk.Expand(params, buf); err != nil {
			return h.Failf("C04:Expand:error", "Expand(buffer=%v): %v", c.Buffer, err)
		}
		if evk.IsCompressed() {
			return h.Failf("C04:Expand:still-compressed", "key still compressed after Expand")
		}
		if !evk.GadgetCiphertext.Equal(&viaBytes.GadgetCiphertext) {
			return h.Failf("C04:Expand:serialise-then-expand-differs", "expand(unmarshal(marshal(k))) != expand(k)")
		}
		// the uniform components are the stream of a uniform sampler over the keyed PRNG of the stored seed, read in (i,j) order
		prng, err := sampling.NewKeyedPRNG(evk.Seed[:])
		if err != nil {
			return h.Failf("C04:harness:prng", "%v", err)
		}
		us := ringqp.NewUniformSampler(prng, *params.RingQP()).AtLevel(k.LevelQ, k.LevelP)
		rqp := params.RingQP().AtLevel(k.LevelQ, k.LevelP)
		for i := range evk.Value {
			for j := range evk.Value[i] {
				a := rqp.NewPoly()
				us.Read(a)
				if !a.Equal(&evk.Value[i][j][1]) {
					return h.Failf("C04:Expand:uniform-component-not-seed-stream", "row (%d,%d): a differs from the seeded stream", i, j)
				}
			}
		}
	} else if evk.IsCompressed() {
		return h.Failf("C04:keygen:uncompressed-key-reports-compressed", "IsCompressed()=true for Compressed=false")
	}

	// every row is an encryption of P * 2^(w j) * s_in on the limbs of RNS group i (and of zero elsewhere)
	rqp := params.RingQP().AtLevel(k.LevelQ, k.LevelP)
	qs := append([]uint64{}, s.Q[:k.LevelQ+1]...)
	all := append([]uint64{}, qs...)
	P := big.NewInt(1)
	nbPi := 1
	if k.LevelP >= 0 {
		all = append(all, s.P[:k.LevelP+1]...)
		P = h.ProdU(s.P[:k.LevelP+1])
		nbPi = k.LevelP + 1
	}
	QP := h.ProdU(all)
	be := int64(s.Xe.AbsBound())
	maxErr := new(big.Int)
	for i := range evk.Value {
		for j := range evk.Value[i] {
			row := evk.Value[i][j]
			if len(row) != 2 {
				return h.Failf("C04:key:row-degree", "row (%d,%d) stores %d polynomials", i, j, len(row))
			}
			b := qpToBig(rqp, row[0])
			a := qpToBig(rqp, row[1])
			// expected plaintext part, residue by residue
			f := new(big.Int).Lsh(P, uint(k.W*j))
			limbs := make([][]uint64, len(all))
			for u, q := range all {
				limbs[u] = make([]uint64, N)
				if u >= i*nbPi && u < (i+1)*nbPi && u <= k.LevelQ {
					bq := h.BU(q)
					fq := new(big.Int).Mod(f, bq)
					for x := 0; x < N; x++ {
						v := new(big.Int).Mul(fq, g1.sIn[x])
						limbs[u][x] = h.Mod(v, bq).Uint64()
					}
				}
			}
			tpart := h.CRT(limbs, all)
			e := h.VecCenter(h.VecSub(h.VecAdd(b, mulQ(a, g1.sOu, all, s.CI)), tpart), QP)
			if nrm := h.InfNorm(e); nrm.Cmp(maxErr) > 0 {
				maxErr = nrm
			}
			if maxErr.Cmp(big.NewInt(be)) > 0 {
				key := "C04:key-row:not-an-encryption-of-the-gadget"
				msg := fmt.Sprintf("%s key (levelQ=%d, levelP=%d, w=%d, compressed=%v) row (%d,%d): |b + a*s_out - P*2^(wj)*s_in*1_i|_inf = 2^%d > error bound %d",
					c.Kind, k.LevelQ, k.LevelP, k.W, k.Compressed, i, j, maxErr.BitLen(), be)
				return h.Failf(key, "%s", msg)
			}
		}
	}

	rec.Class("kind=" + c.Kind)
	rec.Class(pClass(s))
	rec.Class(wClass(k.W))
	rec.Classf("ci=%v", s.CI)
	rec.Classf("compressed=%v", k.Compressed)
	rec.Classf("buffer=%v", c.Buffer && k.Compressed)
	keyClass := "key=max"
	if k.LevelQ < len(s.Q)-1 || k.LevelP < len(s.P)-1 {
		keyClass = "key<max"
	}
	rec.Class(keyClass)
	tail := (k.LevelQ+1)%nbPi != 0
	rec.Classf("rnsTail=%v", tail)
	rec.Note("maxRowError", maxErr.String())
	if k.Compressed || keyClass == "key<max" || k.W > 0 || tail {
		rec.NonTrivial(fmt.Sprintf("%s|N%d|ci%v|%s|%s|%s|%s|tail%v|comp%v|buf%v", c.Kind, N, s.CI, pClass(s), wClass(k.W), sizeClass(s.Q), keyClass, tail, k.Compressed, c.Buffer))
	}
	return nil
}

var propKey = h.NewProp("TestPropKeyStructure", h.Budget{Quick: 300, Thorough: 6000}, genKeyCase, runKeyCase)

func TestPropKeyStructure(t *testing.T) { propKey.Check(t) }
