package c04

import (
	"fmt"
	"math/big"
	"math/bits"
	"testing"

	"verif/internal/h"

	"github.com/tuneinsight/lattigo/v6/core/rlwe"
	"github.com/tuneinsight/lattigo/v6/ring"
	"pgregory.net/rapid"
)

func TestMain(m *testing.M) { h.Main(m, "C04") }

func TestReplay(t *testing.T) { h.ReplayAll(t) }

// KeySpec is the plain-data description of rlwe.EvaluationKeyParameters.
type KeySpec struct {
	LevelQ     int  `json:"levelQ"`
	LevelP     int  `json:"levelP"` // -1: no auxiliary modulus
	W          int  `json:"w"`      // BaseTwoDecomposition (0: none)
	Compressed bool `json:"compressed,omitempty"`
}

func (k KeySpec) evk() rlwe.EvaluationKeyParameters {
	lq, lp, w := k.LevelQ, k.LevelP, k.W
	return rlwe.EvaluationKeyParameters{LevelQ: &lq, LevelP: &lp, BaseTwoDecomposition: &w, Compressed: k.Compressed}
}

// ---------------------------------------------------------------------------------------------------------------
// generators

// genParams draws an RLWE literal with a key-switch budget: #Q 1..6, #P 0..3, mixed prime sizes. P primes are mostly
// at least as large as the Q primes (what every caller does) and sometimes of arbitrary size.
func genParams(t *rapid.T, minLogN, maxLogN int, allowCI bool, ntt *bool) h.RLWESpec {
	var s h.RLWESpec
	s.LogN = rapid.IntRange(minLogN, maxLogN).Draw(t, "logN")
	if allowCI {
		s.CI = rapid.IntRange(0, 3).Draw(t, "ringType") == 0
	}
	if ntt != nil {
		s.NTT = *ntt
	} else {
		s.NTT = rapid.Bool().Draw(t, "nttFlag")
	}
	m := s.NthRoot()
	minb := h.MinPrimeBits(m) + 4
	nQ := rapid.IntRange(1, 6).Draw(t, "nQ")
	nP := rapid.IntRange(0, 3).Draw(t, "nP")
	used := map[uint64]bool{}
	var qsz []int
	switch rapid.IntRange(0, 3).Draw(t, "qShape") {
	case 0: // CKKS-like: one big prime then equal smaller ones
		b0 := rapid.IntRange(45, 61).Draw(t, "q0")
		b := rapid.IntRange(25, 45).Draw(t, "qi")
		qsz = make([]int, nQ)
		for i := range qsz {
			qsz[i] = b
		}
		qsz[0] = b0
	default: // mixed sizes biased to the extremes
		qsz = h.GenSizes(t, nQ, minb, 61, "q")
	}
	s.Q = h.GenPrimes(t, qsz, m, used, "q")
	if nP > 0 {
		maxq := 0
		for _, q := range s.Q {
			if b := bits.Len64(q); b > maxq {
				maxq = b
			}
		}
		var psz []int
		switch rapid.IntRange(0, 3).Draw(t, "pShape") {
		case 0: // arbitrary sizes (possibly much smaller than the Q primes)
			psz = h.GenSizes(t, nP, minb, 61, "p")
		case 1: // all 61 bits
			psz = make([]int, nP)
			for i := range psz {
				psz[i] = 61
			}
		default: // at least the largest q
			psz = h.GenSizes(t, nP, maxq, 61, "p")
		}
		s.P = h.GenPrimes(t, psz, m, used, "p")
	}
	s.Xs = h.GenDist(t, true, s.N(), "xs")
	s.Xe = h.GenDist(t, false, s.N(), "xe")
	return s
}

// genKey draws evaluation-key parameters admissible for the parameter set.
func genKey(t *rapid.T, s h.RLWESpec, allowW bool) KeySpec {
	var k KeySpec
	maxQ, maxP := len(s.Q)-1, len(s.P)-1
	if rapid.IntRange(0, 2).Draw(t, "keyLQmax") == 0 {
		k.LevelQ = maxQ
	} else {
		k.LevelQ = rapid.IntRange(0, maxQ).Draw(t, "keyLQ")
	}
	if maxP < 0 || (allowW && rapid.IntRange(0, 7).Draw(t, "keyNoP") == 0) {
		k.LevelP = -1 // no auxiliary modulus for this key (also under parameters that have one)
	} else if rapid.IntRange(0, 2).Draw(t, "keyLPmax") == 0 {
		k.LevelP = maxP
	} else {
		k.LevelP = rapid.IntRange(0, maxP).Draw(t, "keyLP")
	}
	if allowW {
		switch rapid.IntRange(0, 5).Draw(t, "wKind") {
		case 0, 1:
			k.W = 0
		case 2:
			k.W = rapid.IntRange(1, 4).Draw(t, "wSmall")
		case 3:
			k.W = 30
		default:
			k.W = rapid.IntRange(1, 30).Draw(t, "w")
		}
	}
	k.Compressed = rapid.IntRange(0, 3).Draw(t, "compressed") == 0
	return k
}

// ---------------------------------------------------------------------------------------------------------------
// conversions between lattigo polynomials and integer coefficient vectors (trusted: ring NTT/INTT, subject of C01)

func moduli(r *ring.Ring) []uint64 { return r.ModuliChain()[:r.Level()+1] }

// polyToBig returns the coefficients of p (at the level of r) as integers in [0,Q).
func polyToBig(r *ring.Ring, p ring.Poly, isNTT bool) []*big.Int {
	lvl := r.Level()
	c := ring.NewPoly(p.N(), lvl)
	for i := 0; i <= lvl; i++ {
		copy(c.Coeffs[i], p.Coeffs[i])
	}
	if isNTT {
		r.INTT(c, c)
	}
	return h.CRT(c.Coeffs[:lvl+1], moduli(r))
}

// bigToPoly writes integer coefficients (any sign) into a new polynomial at the level of r.
func bigToPoly(r *ring.Ring, v []*big.Int, toNTT bool) ring.Poly {
	lvl := r.Level()
	p := ring.NewPoly(len(v), lvl)
	limbs := h.ToRNS(v, moduli(r))
	for i := 0; i <= lvl; i++ {
		copy(p.Coeffs[i], limbs[i])
	}
	if toNTT {
		r.NTT(p, p)
	}
	return p
}

// skToBig returns the secret as small centred integers (the key is stored in the NTT and Montgomery domain).
func skToBig(r *ring.Ring, sk *rlwe.SecretKey) []*big.Int {
	r0 := r.AtLevel(sk.Value.Q.Level())
	c := *sk.Value.Q.CopyNew()
	r0.IMForm(c, c)
	r0.INTT(c, c)
	return h.VecCenter(h.CRT(c.Coeffs, moduli(r0)), h.ProdU(moduli(r0)))
}

func l1(a []*big.Int) *big.Int {
	s := new(big.Int)
	for _, x := range a {
		s.Add(s, new(big.Int).Abs(x))
	}
	return s
}

// ringMul multiplies in Z[X]/(X^N+1), or for ci in Z[X+X^-1]/(X^2N+1) given by its N-coefficient representation.
func ringMul(a, b []*big.Int, ci bool) []*big.Int {
	if !ci {
		return h.NegacyclicMul(a, b)
	}
	return h.NegacyclicMul(h.CIUnfold(a), h.CIUnfold(b))[:len(a)]
}

// mulQ multiplies in the ring modulo the product of qs and returns representatives of the result modulo that product.
// Up to degree 32 it is the big-integer schoolbook product; above, a word-sized schoolbook product per RNS limb
// (math/bits 128-bit arithmetic) followed by CRT - both independent of lattigo's NTT.
func mulQ(a, b []*big.Int, qs []uint64, ci bool) []*big.Int {
	if len(a) <= 32 {
		return ringMul(a, b, ci)
	}
	n := len(a)
	if ci {
		a, b = h.CIUnfold(a), h.CIUnfold(b)
	}
	la, lb := h.ToRNS(a, qs), h.ToRNS(b, qs)
	out := make([][]uint64, len(qs))
	for i, q := range qs {
		out[i] = negacyclicU64(la[i], lb[i], q)[:n]
	}
	return h.CRT(out, qs)
}

// negacyclicU64 is the schoolbook product modulo (X^n+1, q) on words; rows of zero coefficients are skipped and the
// operand with fewer non-zero coefficients drives the outer loop.
func negacyclicU64(a, b []uint64, q uint64) []uint64 {
	n := len(a)
	out := make([]uint64, n)
	for i := 0; i < n; i++ {
		x := a[i]
		if x == 0 {
			continue
		}
		for j := 0; j < n; j++ {
			hi, lo := bits.Mul64(x, b[j])
			_, p := bits.Div64(hi, lo, q)
			k := i + j
			if k >= n {
				k -= n
				if p != 0 {
					p = q - p
				}
			}
			v := out[k] + p // q < 2^62: no overflow
			if v >= q {
				v -= q
			}
			out[k] = v
		}
	}
	return out
}

// ringAut applies X -> X^g.
func ringAut(a []*big.Int, g uint64, ci bool) []*big.Int {
	if !ci {
		return h.Automorphism(a, g)
	}
	return h.Automorphism(h.CIUnfold(a), g)[:len(a)]
}

// uniformVec draws n integers uniform in [0,Q).
func uniformVec(rng *h.SplitMix, n int, Q *big.Int) []*big.Int {
	out := make([]*big.Int, n)
	words := (Q.BitLen() + 63) / 64
	for i := range out {
		x := new(big.Int)
		for w := 0; w <= words; w++ {
			x.Lsh(x, 64)
			x.Or(x, h.BU(rng.Uint64()))
		}
		out[i] = x.Mod(x, Q)
	}
	return out
}

// patVec draws n integers in [0,Q) following a per-limb residue pattern: "uniform"; "top": every residue within 16 of
// q_i-1 (all high bits of every limb set - the inputs for which a missing top digit or a wrong centring shows);
// "low": every residue below 16.
func patVec(rng *h.SplitMix, n int, qs []uint64, pat string) []*big.Int {
	if pat != "top" && pat != "low" {
		return uniformVec(rng, n, h.ProdU(qs))
	}
	limbs := make([][]uint64, len(qs))
	for i, q := range qs {
		limbs[i] = make([]uint64, n)
		for j := range limbs[i] {
			d := uint64(rng.Intn(16))
			if d >= q {
				d = 0
			}
			if pat == "top" {
				limbs[i][j] = q - 1 - d
			} else {
				limbs[i][j] = d
			}
		}
	}
	return h.CRT(limbs, qs)
}

// smallVec draws n integers in [-b, b].
func smallVec(rng *h.SplitMix, n int, b int) []*big.Int {
	out := make([]*big.Int, n)
	for i := range out {
		out[i] = h.BI(int64(rng.Intn(2*b+1)) - int64(b))
	}
	return out
}

// phase returns c0 + c1*s (+ c2*s^2) as centred integers modulo Q_level, from an independent recomputation.
func phase(r *ring.Ring, ct *rlwe.Ciphertext, s []*big.Int, ci bool) []*big.Int {
	rl := r.AtLevel(ct.Level())
	Q := h.ProdU(moduli(rl))
	acc := polyToBig(rl, ct.Value[0], ct.IsNTT)
	sp := s
	for d := 1; d < len(ct.Value); d++ {
		acc = h.VecAdd(acc, mulQ(polyToBig(rl, ct.Value[d], ct.IsNTT), sp, moduli(rl), ci))
		if d+1 < len(ct.Value) {
			sp = mulQ(sp, s, moduli(rl), ci)
		}
	}
	return h.VecCenter(acc, Q)
}

// ---------------------------------------------------------------------------------------------------------------
// key-switch noise bound (hard worst case)

// ksBound bounds the infinity norm of the noise added by one gadget product with a key (levelQ,levelP,w) applied to a
// polynomial at level lvl, ring degree n (2n products for the conjugate-invariant ring), error bound be, ||s_out||_1 = s1.
// Digits: w>0 (only effective for levelP<=0): values < 2^w; otherwise the centred residue modulo the product of the
// group's primes, with one extra multiple allowed for the approximate basis extension (|d| <= 1.5*Qgroup, bounded by 2*Qgroup).
func ksBound(s h.RLWESpec, k KeySpec, lvl int, s1 *big.Int) *big.Int {
	if lvl > k.LevelQ {
		lvl = k.LevelQ
	}
	n := int64(s.N())
	if s.CI {
		n *= 2
	}
	be := int64(s.Xe.AbsBound())
	sum := new(big.Int)
	nbPi := k.LevelP + 1
	if nbPi < 1 {
		nbPi = 1
	}
	if k.W > 0 && k.LevelP <= 0 {
		for i := 0; i <= lvl; i++ {
			digits := (bits.Len64(s.Q[i]) + k.W - 1) / k.W
			d := new(big.Int).Lsh(big.NewInt(1), uint(k.W))
			sum.Add(sum, d.Mul(d, big.NewInt(int64(digits))))
		}
	} else {
		for st := 0; st <= lvl; st += nbPi {
			g := big.NewInt(2)
			for i := st; i < st+nbPi && i <= lvl; i++ {
				g.Mul(g, h.BU(s.Q[i]))
			}
			sum.Add(sum, g)
		}
	}
	sum.Mul(sum, big.NewInt(n*be))
	if k.LevelP >= 0 {
		P := h.ProdU(s.P[:k.LevelP+1])
		sum.Div(sum, P)
		// division by P: each component is rounded with an error of at most 1 (approximate basis extension) + 1/2
		rd := new(big.Int).Add(s1, big.NewInt(1))
		rd.Mul(rd, big.NewInt(2))
		sum.Add(sum, rd)
	}
	return sum.Add(sum, big.NewInt(1))
}

// discriminating reports whether bound < Q/16 (otherwise the case cannot tell right from wrong).
func discriminating(bound, Q *big.Int) bool {
	return new(big.Int).Lsh(bound, 4).Cmp(Q) < 0
}

func sizeClass(qs []uint64) string {
	lo, hi := 64, 0
	for _, q := range qs {
		b := bits.Len64(q)
		if b < lo {
			lo = b
		}
		if b > hi {
			hi = b
		}
	}
	if hi-lo <= 2 {
		return "equal"
	}
	return "mixed"
}

func pClass(s h.RLWESpec) string {
	if len(s.P) == 0 {
		return "noP"
	}
	maxq, minp := 0, 64
	for _, q := range s.Q {
		if b := bits.Len64(q); b > maxq {
			maxq = b
		}
	}
	for _, p := range s.P {
		if b := bits.Len64(p); b < minp {
			minp = b
		}
	}
	if minp < maxq {
		return fmt.Sprintf("P%d-small", len(s.P))
	}
	return fmt.Sprintf("P%d", len(s.P))
}

func wClass(w int) string {
	switch {
	case w == 0:
		return "w0"
	case w <= 4:
		return "w1-4"
	case w <= 16:
		return "w5-16"
	default:
		return "w17-30"
	}
}

// galois returns 5^k mod nthRoot computed independently, optionally multiplied by -1.
func galois(k int64, neg bool, nthRoot uint64) uint64 {
	ord := int64(nthRoot / 4)
	e := ((k % ord) + ord) % ord
	g := new(big.Int).Exp(big.NewInt(5), big.NewInt(e), h.BU(nthRoot)).Uint64()
	if neg {
		g = (nthRoot - g) % nthRoot
	}
	return g
}

// newOut allocates an output ciphertext of degree 1; with dirty it is filled with stale uniform data first (an output
// argument is expected to be overwritten, as every evaluator method of lattigo re-uses receivers).
func newOut(params rlwe.Parameters, level, degree int, dirty bool, rng *h.SplitMix) *rlwe.Ciphertext {
	ct := rlwe.NewCiphertext(params, degree, level)
	if dirty {
		qs := moduli(params.RingQ().AtLevel(level))
		for _, p := range ct.Value {
			for i, q := range qs {
				for j := range p.Coeffs[i] {
					p.Coeffs[i][j] = rng.Uint64() % q
				}
			}
		}
	}
	return ct
}

func minInt(a, b int) int {
	if a < b {
		return a
	}
	return b
}

// smallMul returns the exact integer product of two polynomials with small coefficients (|result| < 2^60), computed
// modulo the Mersenne prime 2^61-1 and centred.
func smallMul(a, b []*big.Int, ci bool) []*big.Int {
	const m61 = uint64(1)<<61 - 1
	if len(a) <= 32 {
		return ringMul(a, b, ci)
	}
	return h.VecCenter(mulQ(a, b, []uint64{m61}, ci), h.BU(m61))
}
