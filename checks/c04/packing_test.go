package c04

import (
	"fmt"
	"math/big"
	"sort"
	"testing"

	"verif/internal/h"

	"github.com/tuneinsight/lattigo/v6/core/rlwe"
	"pgregory.net/rapid"
)

// RPCase is one RingPackingEvaluator operation.
type RPCase struct {
	Params  h.RLWESpec `json:"params"` // the largest ring (standard ring)
	GapN    int        `json:"gapN"`   // MinLogN = LogN - gapN
	Key     KeySpec    `json:"key"`
	Op      string     `json:"op"` // split | merge | extract | extractNaive | repack | repackNaive
	Idx     []int      `json:"idx"`
	InLogN  int        `json:"inLogN"` // ring degree of the ciphertexts given to repack (MinLogN..LogN)
	CtLevel int        `json:"ctLevel"`
	LogGap  int        `json:"logGap,omitempty"` // expand: output gap; pack: inputLogGap
	NoZero  bool       `json:"noZero,omitempty"` // pack: zeroGarbageSlots = false
	Twice   bool       `json:"twice,omitempty"`  // the operation is run a second time on the same evaluator with fresh inputs
	Seed    uint64     `json:"seed"`
}

func (c RPCase) RandSeed() uint64 { return c.Seed }

func sizesOf(qs []uint64) []int {
	out := make([]int, len(qs))
	for i, q := range qs {
		out[i] = bitLen(q)
	}
	return out
}

var rpOps = []string{"split", "merge", "extract", "extractNaive", "repack", "repackNaive", "expand", "pack"}

func genRP(t *rapid.T) RPCase {
	var c RPCase
	maxLogN := 6
	if h.Thorough() {
		maxLogN = 7
	}
	yes := true
	var ntt *bool
	if rapid.IntRange(0, 1).Draw(t, "nttDrawn") != 0 {
		ntt = &yes
	}
	c.Params = genParams(t, 4, maxLogN, false, ntt)
	// GenRingSwitchingKeys builds the smaller rings with lattigo's default distributions; keep the large ring on defaults too
	c.Params.Xs, c.Params.Xe = h.DefaultXs, h.DefaultXe
	c.Op = rpOps[rapid.IntRange(0, len(rpOps)-1).Draw(t, "op")]
	lo := 0
	if c.Op == "split" || c.Op == "merge" {
		lo = 1
	}
	hi := c.Params.LogN - 4
	if hi > 2 {
		hi = 2
	}
	if hi < lo { // split / merge need a smaller ring (rlwe.MinLogN = 4)
		c.Params.LogN = 5
		c.Params.Q = h.GenPrimes(t, sizesOf(c.Params.Q), c.Params.NthRoot(), map[uint64]bool{}, "q5")
		used := map[uint64]bool{}
		for _, q := range c.Params.Q {
			used[q] = true
		}
		c.Params.P = h.GenPrimes(t, sizesOf(c.Params.P), c.Params.NthRoot(), used, "p5")
		hi = 1
	}
	c.GapN = rapid.IntRange(lo, hi).Draw(t, "gapN")
	c.Key = genKey(t, c.Params, true)
	// compressed keys are expanded by the harness after generation (the packing evaluator takes its keys as they are)
	if rapid.IntRange(0, 2).Draw(t, "ctAtKeyLevel") == 0 {
		c.CtLevel = c.Key.LevelQ
	} else {
		c.CtLevel = rapid.IntRange(0, c.Key.LevelQ).Draw(t, "ctLevel")
	}
	N := c.Params.N()
	if c.Op == "extract" || c.Op == "extractNaive" || c.Op == "repack" || c.Op == "repackNaive" {
		set := map[int]bool{}
		switch rapid.IntRange(0, 3).Draw(t, "idxKind") {
		case 0: // regular power-of-two gap
			g := 1 << rapid.IntRange(0, c.Params.LogN-1).Draw(t, "idxLogGap")
			for i := 0; i < N; i += g {
				set[i] = true
			}
		case 1: // regular odd gap
			g := []int{3, 5, 7}[rapid.IntRange(0, 2).Draw(t, "idxOddGap")]
			for i := 0; i < N; i += g {
				set[i] = true
			}
		default: // a few arbitrary positions
			k := rapid.IntRange(1, 6).Draw(t, "idxCount")
			for i := 0; i < k; i++ {
				set[rapid.IntRange(0, N-1).Draw(t, fmt.Sprintf("idx%d", i))] = true
			}
		}
		for i := range set {
			c.Idx = append(c.Idx, i)
		}
		sort.Ints(c.Idx)
	}
	c.InLogN = c.Params.LogN - c.GapN
	switch c.Op {
	case "expand":
		c.LogGap = rapid.IntRange(0, c.Params.LogN).Draw(t, "expandLogGap")
	case "pack":
		c.LogGap = rapid.IntRange(1, c.Params.LogN).Draw(t, "packLogGap")
		c.NoZero = rapid.Bool().Draw(t, "packNoZero")
		set := map[int]bool{}
		G := 1 << c.LogGap
		switch rapid.IntRange(0, 3).Draw(t, "packIdxKind") {
		case 0: // a few arbitrary positions
			k := rapid.IntRange(1, 6).Draw(t, "packCount")
			for i := 0; i < k; i++ {
				set[rapid.IntRange(0, G-1).Draw(t, fmt.Sprintf("packIdx%d", i))] = true
			}
		case 1: // a single index
			set[rapid.IntRange(0, G-1).Draw(t, "packSingle")] = true
		case 2: // all the multiples of 2^v (v = 0: every index; all even; all multiples of 4; ...)
			v := rapid.IntRange(0, c.LogGap-1).Draw(t, "packVal")
			for i := 0; i < G; i += 1 << v {
				set[i] = true
			}
		default: // 0 and some multiples of 2^v
			v := rapid.IntRange(0, c.LogGap-1).Draw(t, "packVal")
			set[0] = true
			k := rapid.IntRange(1, 5).Draw(t, "packCount")
			for i := 0; i < k; i++ {
				set[rapid.IntRange(0, (G>>v)-1).Draw(t, fmt.Sprintf("packMul%d", i))<<v] = true
			}
		}
		c.Idx = nil
		for i := range set {
			c.Idx = append(c.Idx, i)
		}
		sort.Ints(c.Idx)
	}
	c.Twice = rapid.IntRange(0, 2).Draw(t, "twice") == 0
	c.Seed = rapid.Uint64().Draw(t, "seed")
	return c
}

func runRP(c RPCase, rec *h.Rec) error {
	_, err := guardNoPofP(c.Params, c.Key, rec, func() error { return runRPInner(c, rec) })
	return err
}

func runRPInner(c RPCase, rec *h.Rec) error {
	s := c.Params
	params, err := s.Build()
	if err != nil {
		return h.Failf("C04:harness:params", "parameters rejected: %v", err)
	}
	rng := h.NewSplitMix(c.Seed ^ 0xc0409)
	logN, minLogN := s.LogN, s.LogN-c.GapN
	lvl := c.CtLevel
	evkp := c.Key.evk()
	Q := h.ProdU(s.Q[:lvl+1])

	kgen := rlwe.NewKeyGenerator(params)
	sk := kgen.GenSecretKeyNew()
	rpk := &rlwe.RingPackingEvaluationKey{}
	ski := map[int]*rlwe.SecretKey{logN: sk}
	if c.GapN > 0 {
		if ski, err = rpk.GenRingSwitchingKeys(params, sk, minLogN, evkp); err != nil {
			return h.Failf("C04:packing:GenRingSwitchingKeys", "%v", err)
		}
	} else {
		rpk.Parameters = map[int]rlwe.ParameterProvider{logN: &params}
	}
	for ln := minLogN; ln <= logN; ln++ {
		rpk.GenRepackEvaluationKeys(rpk.Parameters[ln], ski[ln], evkp)
		rpk.GenExtractEvaluationKeys(rpk.Parameters[ln], ski[ln], evkp)
	}
	if c.Key.Compressed {
		expand := func(k *rlwe.EvaluationKey, ln int) error {
			if !k.IsCompressed() || k.Seed == nil {
				return h.Failf("C04:keygen:compressed-key-without-seed", "packing key: IsCompressed()=%v seed nil=%v", k.IsCompressed(), k.Seed == nil)
			}
			if err := k.Expand(rpk.Parameters[ln], nil); err != nil {
				return h.Failf("C04:Expand:error", "packing key: %v", err)
			}
			return nil
		}
		for i, mp := range rpk.RingSwitchingKeys {
			for j, k := range mp {
				if err := expand(k, maxInt(i, j)); err != nil {
					return err
				}
			}
		}
		for _, sets := range []map[int]rlwe.EvaluationKeySet{rpk.RepackKeys, rpk.ExtractKeys} {
			for ln, set := range sets {
				for _, gk := range set.(*rlwe.MemEvaluationKeySet).GaloisKeys {
					if err := expand(&gk.EvaluationKey, ln); err != nil {
						return err
					}
				}
			}
		}
	}
	eval := rlwe.NewRingPackingEvaluator(rpk)

	pOf := func(ln int) rlwe.Parameters { return *rpk.Parameters[ln].GetRLWEParameters() }
	sOf := map[int][]*big.Int{}
	s1 := new(big.Int)
	for ln, k := range ski {
		sOf[ln] = skToBig(pOf(ln).RingQ(), k)
		if v := l1(sOf[ln]); v.Cmp(s1) > 0 {
			s1 = v
		}
	}
	enc := func(ln int, m []*big.Int) *rlwe.Ciphertext {
		return freshCt(pOf(ln), sOf[ln], false, m, lvl, rng, "uniform", s.NTT)
	}
	dec := func(ct *rlwe.Ciphertext) []*big.Int { return phase(pOf(ct.LogN()).RingQ(), ct, sOf[ct.LogN()], false) }

	// generous hard bound: every operation is at most (logN+2) rounds of "double the noise and add one key switch",
	// preceded by an exact multiplication with 2^-k mod Q that the trace-like sums cancel exactly
	ks := ksBound(s, c.Key, lvl, s1)
	bound := new(big.Int).Add(ks, big.NewInt(3))
	bound.Mul(bound, big.NewInt(int64(4*s.N()*(logN+2))))
	disc := discriminating(bound, Q)

	type cmp struct {
		name      string
		got, want []*big.Int
		only0     bool   // compare the constant coefficient only
		mask      []bool // if set: compare these positions only
	}
	var cmps []cmp
	zero := func(n int) []*big.Int {
		z := make([]*big.Int, n)
		for i := range z {
			z[i] = new(big.Int)
		}
		return z
	}

	rounds := 1
	if c.Twice {
		rounds = 2
	}
	for r := 0; r < rounds; r++ {
		switch c.Op {
		case "split":
			m := uniformVec(rng, 1<<logN, Q)
			ct := enc(logN, m)
			ev, od, err := eval.SplitNew(ct)
			if err != nil {
				return h.Failf("C04:packing:split:error", "SplitNew: %v", err)
			}
			we, wo := zero(1<<(logN-1)), zero(1<<(logN-1))
			for i := range we {
				we[i], wo[i] = m[2*i], m[2*i+1]
			}
			cmps = append(cmps, cmp{"even", dec(ev), we, false, nil}, cmp{"odd", dec(od), wo, false, nil})
		case "merge":
			n := 1 << (logN - 1)
			me, mo := uniformVec(rng, n, Q), uniformVec(rng, n, Q)
			ct, err := eval.MergeNew(enc(logN-1, me), enc(logN-1, mo))
			if err != nil {
				return h.Failf("C04:packing:merge:error", "MergeNew: %v", err)
			}
			w := zero(2 * n)
			for i := 0; i < n; i++ {
				w[2*i], w[2*i+1] = me[i], mo[i]
			}
			cmps = append(cmps, cmp{"merged", dec(ct), w, false, nil})
		case "extract", "extractNaive":
			m := uniformVec(rng, 1<<logN, Q)
			ct := enc(logN, m)
			idx := map[int]bool{}
			for _, i := range c.Idx {
				idx[i] = true
			}
			var cts map[int]*rlwe.Ciphertext
			if c.Op == "extract" {
				cts, err = eval.Extract(ct, idx)
			} else {
				cts, err = eval.ExtractNaive(ct, idx)
			}
			if err != nil {
				msg := fmt.Sprintf("%s: %v (idx=%v, MinLogN=%d, MaxLogN=%d)", c.Op, err, c.Idx, minLogN, logN)
				if c.Op == "extract" && extractGapDefect(c.Idx) && rec.Known(keyExtractGap, msg) {
					rec.Class("known=" + keyExtractGap)
					return nil
				}
				return h.Failf("C04:packing:"+c.Op+":error", "%s", msg)
			}
			for _, i := range c.Idx {
				o, ok := cts[i]
				if !ok || o == nil {
					return h.Failf("C04:packing:"+c.Op+":missing-index", "no ciphertext returned for index %d (idx=%v)", i, c.Idx)
				}
				if o.LogN() != minLogN {
					return h.Failf("C04:packing:"+c.Op+":ring-degree", "index %d: logN=%d, want MinLogN=%d", i, o.LogN(), minLogN)
				}
				w := zero(1 << minLogN)
				w[0] = m[i]
				cmps = append(cmps, cmp{fmt.Sprintf("idx%d", i), dec(o), w, c.Op == "extractNaive", nil})
			}
		case "repack", "repackNaive":
			n := 1 << c.InLogN
			cts := map[int]*rlwe.Ciphertext{}
			w := zero(1 << logN)
			for _, i := range c.Idx {
				var m []*big.Int
				if c.Op == "repack" {
					m = uniformVec(rng, n, Q) // non-constant coefficients are documented to be zeroed
				} else {
					m = zero(n)
					m[0] = uniformVec(rng, 1, Q)[0]
				}
				w[i] = m[0]
				cts[i] = enc(c.InLogN, m)
			}
			var ct *rlwe.Ciphertext
			if c.Op == "repack" {
				ct, err = eval.Repack(cts)
			} else {
				ct, err = eval.RepackNaive(cts)
			}
			if err != nil {
				key := "C04:packing:" + c.Op + ":error"
				msg := fmt.Sprintf("%v (idx=%v, MinLogN=%d, MaxLogN=%d)", err, c.Idx, minLogN, logN)
				if c.GapN > 0 && rec.Known(keyRepackSparse, msg) {
					rec.Class("known=" + keyRepackSparse)
					return nil
				}
				return h.Failf(key, "%s", msg)
			}
			if ct == nil {
				msg := fmt.Sprintf("%s returned a nil ciphertext and a nil error (idx=%v, MinLogN=%d, MaxLogN=%d)", c.Op, c.Idx, minLogN, logN)
				if c.GapN > 0 && rec.Known(keyRepackSparse, msg) {
					rec.Class("known=" + keyRepackSparse)
					return nil
				}
				return h.Failf("C04:packing:"+c.Op+":nil", "%s", msg)
			}
			if ct.LogN() != logN {
				return h.Failf("C04:packing:"+c.Op+":ring-degree", "logN=%d, want MaxLogN=%d", ct.LogN(), logN)
			}
			cmps = append(cmps, cmp{"packed", dec(ct), w, false, nil})
		case "expand":
			ln := c.InLogN // Expand works inside one ring degree
			n := 1 << ln
			m := uniformVec(rng, n, Q)
			cts, err := eval.Expand(enc(ln, m), c.LogGap)
			if err != nil {
				return h.Failf("C04:packing:expand:error", "Expand(logGap=%d): %v", c.LogGap, err)
			}
			for i := 0; i < n; i += 1 << c.LogGap {
				o, ok := cts[i]
				if !ok || o == nil {
					return h.Failf("C04:packing:expand:missing-index", "no ciphertext for index %d (logGap=%d, logN=%d)", i, c.LogGap, ln)
				}
				w := zero(n)
				w[0] = m[i]
				cmps = append(cmps, cmp{fmt.Sprintf("idx%d", i), dec(o), w, false, nil})
			}
		case "pack":
			ln := c.InLogN
			n := 1 << ln
			g := c.LogGap
			if g > ln {
				g = ln
			}
			G := 1 << g
			cts := map[int]*rlwe.Ciphertext{}
			w := zero(n)
			var mask []bool
			if c.NoZero {
				// zeroGarbageSlots = false: only the packed positions j + k*2^g of the provided indexes are specified
				mask = make([]bool, n)
			}
			var kept []int
			for _, j := range c.Idx {
				if j < G {
					kept = append(kept, j)
				}
			}
			// zeroGarbageSlots = false: the merging stops at the smallest power-of-two gap 2^L between the indexes; the
			// ciphertexts whose index is not a multiple of it are discarded with the garbage slots (documented)
			L, merged := minGapVal(kept), 0
			for _, j := range kept {
				m := uniformVec(rng, n, Q) // slots that are not multiples of 2^g are garbage
				for k := 0; k < n; k += G {
					w[j+k] = m[k]
					if mask != nil && j&(1<<L-1) == 0 {
						mask[j+k] = true
					}
				}
				if j&(1<<L-1) == 0 {
					merged++
				}
				cts[j] = enc(ln, m)
			}
			if len(cts) == 0 {
				return nil
			}
			tag := "pack"
			if c.NoZero {
				tag = "pack-nozero"
			}
			ct, err := eval.Pack(cts, g, !c.NoZero)
			if err != nil {
				if c.NoZero && (len(kept) == 1 || merged == 0) {
					// documented errors: a single ciphertext leaves no merging step when the garbage slots are kept;
					// no index is a multiple of the smallest gap
					rec.Class("pack-nozero:documented-error")
					return nil
				}
				return h.Failf("C04:packing:"+tag+":error", "Pack(inputLogGap=%d, zeroGarbageSlots=%v, idx=%v): %v", g, !c.NoZero, kept, err)
			}
			if ct == nil {
				msg := fmt.Sprintf("Pack(inputLogGap=%d, zeroGarbageSlots=%v, idx=%v) returned (nil, nil)", g, !c.NoZero, kept)
				return h.Failf("C04:packing:"+tag+":nil", "%s", msg)
			}
			cmps = append(cmps, cmp{tag, dec(ct), w, false, mask})
		default:
			return h.Failf("C04:harness:op", "unknown op %q", c.Op)
		}

	}

	worst := new(big.Int)
	for _, x := range cmps {
		d := h.VecCenter(h.VecSub(x.got, x.want), Q)
		if x.only0 {
			d = d[:1]
		}
		if x.mask != nil {
			d = append([]*big.Int{}, d...)
			for i := range d {
				if !x.mask[i] {
					d[i] = new(big.Int)
				}
			}
		}
		nrm := h.InfNorm(d)
		if nrm.Cmp(worst) > 0 {
			worst = nrm
		}
		if nrm.Cmp(bound) > 0 {
			key := "C04:packing:" + c.Op + ":noise-above-bound"
			if c.Op == "pack" && c.NoZero {
				key = "C04:packing:pack-nozero:noise-above-bound"
			}
			generic := key
			switch {
			case !s.NTT:
				key = keyPackNonNTT
			case c.Key.LevelP == -1 && c.Key.W == 0 && lvl >= 1:
				key = keyNoPw0
			case digitsShort(s, c.Key, lvl):
				key = keyDigits + ":wrong-result"
			case (c.Op == "repack" || c.Op == "repackNaive") && c.GapN > 0:
				key = keyRepackSparse
			}
			msg := fmt.Sprintf("%s %s: |Dec - expected|_inf = 2^%d > bound 2^%d (log2 Q=%d, logN=%d, MinLogN=%d, idx=%v, key=%+v, level %d, ntt=%v)",
				c.Op, x.name, nrm.BitLen(), bound.BitLen(), Q.BitLen(), logN, minLogN, c.Idx, c.Key, lvl, s.NTT)
			if !h.IsKnown(key) {
				key = generic // the class of a repaired finding is not special any more: report under the call site's own key
			}
			if rec.Known(key, msg) {
				rec.Class("known=" + key)
				return nil
			}
			return h.Failf(key, "%s", msg)
		}
	}

	rec.Class("op=" + c.Op)
	if c.Op == "pack" {
		rec.Classf("pack:zeroGarbage=%v", !c.NoZero)
		rec.Classf("pack:inputLogGap=%d/gapVal=%d", c.LogGap, minInt(minGapVal(c.Idx), 9))
	}
	rec.Classf("gapN=%d", c.GapN)
	rec.Class(pClass(s))
	rec.Class(wClass(c.Key.W))
	rec.Classf("ntt=%v", s.NTT)
	rec.Classf("discriminating=%v", disc)
	rec.Note("log2bound", bound.BitLen())
	rec.Note("log2noise", worst.BitLen())
	lvlClass := "ct=key"
	if lvl < c.Key.LevelQ {
		lvlClass = "ct<key"
	}
	keyClass := "key=max"
	if c.Key.LevelQ < len(s.Q)-1 || c.Key.LevelP < len(s.P)-1 {
		keyClass = "key<max"
	}
	idxClass := "none"
	if len(c.Idx) > 0 {
		idxClass = fmt.Sprintf("n%d", bitLen(uint64(len(c.Idx))))
	}
	if disc {
		rec.NonTrivial(fmt.Sprintf("%s|N%d|gapN%d|ntt%v|%s|%s|%s|%s|%s|idx%s", c.Op, s.N(), c.GapN, s.NTT, pClass(s), wClass(c.Key.W), sizeClass(s.Q), lvlClass, keyClass, idxClass))
	}
	return nil
}

const keyPackNonNTT = "C04:packing:non-NTT-ciphertext:Split-Merge-assume-NTT"

const keyExtractGap = "C04:packing:extract:gap-from-smallest-difference:error"

// extractGapDefect: lattigo derives the expansion gap from the 2-adic valuation of the smallest difference between
// consecutive indices; the indices are all multiples of that gap only if it also divides every index.
func extractGapDefect(idx []int) bool {
	if len(idx) < 2 {
		return false
	}
	minGap := idx[1] - idx[0]
	or := 0
	for i, x := range idx {
		or |= x
		if i > 0 && x-idx[i-1] < minGap {
			minGap = x - idx[i-1]
		}
	}
	v := func(x int) int {
		if x == 0 {
			return 63
		}
		n := 0
		for x&1 == 0 {
			x >>= 1
			n++
		}
		return n
	}
	return v(minGap) > v(or)
}

// minGapVal is the 2-adic valuation of the smallest difference between consecutive (sorted) indexes; a single index has
// no gap (valuation 62).
func minGapVal(idx []int) int {
	if len(idx) < 2 {
		return 62
	}
	minGap := idx[1] - idx[0]
	for i := 2; i < len(idx); i++ {
		if d := idx[i] - idx[i-1]; d < minGap {
			minGap = d
		}
	}
	v := 0
	for minGap&1 == 0 {
		minGap >>= 1
		v++
	}
	return v
}

const keyRepackSparse = "C04:packing:repack:sparse-index-set"

var propRP = h.NewProp("TestPropRingPacking", h.Budget{Quick: 200, Thorough: 3000}, genRP, runRP)

func TestPropRingPacking(t *testing.T) { propRP.Check(t) }
