package c15

import (
	"math"
	"math/big"

	"verif/internal/h"

	"github.com/tuneinsight/lattigo/v6/core/rlwe"
	"github.com/tuneinsight/lattigo/v6/multiparty"
	"github.com/tuneinsight/lattigo/v6/ring"
)

// consequence runs the collective public-key generation and the collective decryption once with the t additive shares
// and once with the N original secrets, and checks both against the ideal secret key s = sum of the original secrets:
//   - pk = (b, a) with the same a, and b + a*s = sum of the parties' error terms (|.| <= parties * bound(Xe));
//   - collective decryption of a ciphertext encrypted under the t-party public key differs from the decryption with the
//     ideal key by the sum of the parties' smudging terms only (|.| <= parties * bound(smudging)).
func consequence(c Case, params rlwe.Parameters, tShares, orig []*rlwe.SecretKey, rec *h.Rec) error {
	ringQP := params.RingQP()
	qs := c.moduli()

	ideal := rlwe.NewSecretKey(params)
	for _, s := range orig {
		ringQP.Add(ideal.Value, s.Value, ideal.Value)
	}

	beBound := math.Floor(c.Params.Xe.AbsBound()+0.5) + 1
	QP := h.ProdU(qs)

	ckg := multiparty.NewPublicKeyGenProtocol(params)
	crp := ckg.SampleCRP(h.KeyedPRNG("c15-ckg-crs"))

	genPK := func(group []*rlwe.SecretKey) *rlwe.PublicKey {
		agg := ckg.AllocateShare()
		for _, sk := range group {
			sh := ckg.AllocateShare()
			ckg.GenShare(sk, crp, &sh)
			ckg.AggregateShares(agg, sh, &agg)
		}
		pk := rlwe.NewPublicKey(params)
		ckg.GenPublicKey(agg, crp, pk)
		return pk
	}

	discr := false
	pks := map[string]*rlwe.PublicKey{}
	for _, g := range []struct {
		name  string
		group []*rlwe.SecretKey
	}{{"t-party", tShares}, {"N-party", orig}} {
		pk := genPK(g.group)
		pks[g.name] = pk
		if !pk.Value[1].Equal(&crp.Value) {
			return h.Failf("C15:conseq:ckg:crp", "%s public key does not carry the common random polynomial", g.name)
		}
		e := *pk.Value[0].CopyNew()
		ringQP.MulCoeffsMontgomeryThenAdd(ideal.Value, pk.Value[1], e)
		ringQP.INTT(e, e)
		ringQP.IMForm(e, e)
		ev := h.VecCenter(h.CRT(fromPoly(e, qs), qs), QP)
		norm := h.InfNorm(ev)
		bound := new(big.Int).SetInt64(int64(beBound) * int64(len(g.group)))
		if new(big.Int).Mul(bound, big.NewInt(16)).Cmp(QP) < 0 {
			discr = true
		}
		if norm.Cmp(bound) > 0 && new(big.Int).Mul(bound, big.NewInt(2)).Cmp(QP) < 0 {
			return h.Failf("C15:conseq:ckg:"+g.name, "collective public key of the %s run (%d shares) is not a key of the ideal secret: |b + a*s| = %v > %v", g.name, len(g.group), norm, bound)
		}
	}

	if c.Evk {
		if err := evkConsequence(c, params, ideal, tShares, orig, rec); err != nil {
			return err
		}
	}

	// collective decryption
	level := c.Level
	ringQ := params.RingQ().AtLevel(level)
	ql := c.Params.Q[:level+1]
	enc := rlwe.NewEncryptor(params, pks["t-party"])
	ct := enc.EncryptZeroNew(level)
	msg := ringQ.NewPoly()
	rng := h.NewSplitMix(c.Seed ^ 0xdec)
	for l := range msg.Coeffs {
		for j := range msg.Coeffs[l] {
			msg.Coeffs[l][j] = rng.Uint64() % ql[l]
		}
	}
	ringQ.Add(ct.Value[0], msg, ct.Value[0])
	want := rlwe.NewDecryptor(params, ideal).DecryptNew(ct)

	cks, err := multiparty.NewKeySwitchProtocol(params, ring.DiscreteGaussian{Sigma: c.Smudge, Bound: 6 * c.Smudge})
	if err != nil {
		return h.Failf("C15:conseq:cks:new", "%v", err)
	}
	xeStd := params.NoiseFreshSK()
	smBound := math.Ceil(6*math.Sqrt(xeStd*xeStd+c.Smudge*c.Smudge)) + 1
	Ql := h.ProdU(ql)
	// the Gaussian sampler writes q_i - |e| for negative values: it needs |e| < q_i for every prime in use (implicit
	// precondition of ring.GaussianSampler); with a smudging bound above the smallest prime the share is not a
	// consistent RNS value and nothing can be asserted.
	for _, q := range ql {
		if smBound >= float64(q) {
			rec.Class("conseq=smudging>=prime (decrypt not asserted)")
			if discr {
				rec.Class("conseq=discriminating")
			}
			return nil
		}
	}
	zero := rlwe.NewSecretKey(params)
	for _, g := range []struct {
		name  string
		group []*rlwe.SecretKey
	}{{"t-party", tShares}, {"N-party", orig}} {
		agg := cks.AllocateShare(level)
		for _, sk := range g.group {
			sh := cks.AllocateShare(level)
			cks.GenShare(sk, zero, ct, &sh)
			if err := cks.AggregateShares(agg, sh, &agg); err != nil {
				return h.Failf("C15:conseq:cks:aggregate", "%v", err)
			}
		}
		out := rlwe.NewCiphertext(params, 1, level)
		cks.KeySwitch(ct, agg, out)
		d := ringQ.NewPoly()
		ringQ.Sub(out.Value[0], want.Value, d)
		if ct.IsNTT {
			ringQ.INTT(d, d)
		}
		var limbs [][]uint64
		for l := range d.Coeffs {
			row := append([]uint64(nil), d.Coeffs[l]...)
			for j := range row {
				row[j] %= ql[l]
			}
			limbs = append(limbs, row)
		}
		norm := h.InfNorm(h.VecCenter(h.CRT(limbs, ql), Ql))
		bound := new(big.Int).SetInt64(int64(smBound) * int64(len(g.group)))
		if new(big.Int).Mul(bound, big.NewInt(16)).Cmp(Ql) < 0 {
			discr = true
		}
		if norm.Cmp(bound) > 0 && new(big.Int).Mul(bound, big.NewInt(2)).Cmp(Ql) < 0 {
			return h.Failf("C15:conseq:decrypt:"+g.name, "collective decryption by the %s run (%d shares) differs from the decryption with the ideal key by %v > %v (level %d)", g.name, len(g.group), norm, bound, level)
		}
	}
	if discr {
		rec.Class("conseq=discriminating")
	} else {
		rec.Class("conseq=bound>=Q/16")
	}
	return nil
}

// evkConsequence generates a Galois key and (for small secrets) a relinearization key with the t additive shares and
// with the N original secrets, each protocol instance serving both runs, and measures the keys against the ideal secret
// with lattigo's own rlwe.NoiseGaloisKey / rlwe.NoiseRelinearizationKey (what the threshold example of the repository
// does). Those return log2 of the standard deviation of the key's error term summed over the RNS digits; a standard
// deviation never exceeds the largest absolute value, which is bounded by
//
//	Galois key:  digits * parties * B_e
//	relin. key:  digits * (m*|s|*parties*B_e + m*parties*B_s*parties*B_e + 2*parties*B_e),   s*e0 + u*e1 + e2 + e3
//
// with m = N (2N in the conjugate-invariant ring), |s| <= N_parties*B_s for the ideal secret, u the sum of the ephemeral
// secrets (distribution Xs). A key for another secret has an error of the order of QP.
func evkConsequence(c Case, params rlwe.Parameters, ideal *rlwe.SecretKey, tShares, orig []*rlwe.SecretKey, rec *h.Rec) error {
	qs := c.moduli()
	logQP := float64(h.ProdU(qs).BitLen())
	digits := float64(len(c.Params.Q))
	be := math.Floor(c.Params.Xe.AbsBound()+0.5) + 1
	bs := math.Floor(c.Params.Xs.AbsBound()+0.5) + 1
	m := float64(params.N())
	if c.Params.CI {
		m *= 2
	}
	groups := []struct {
		name  string
		group []*rlwe.SecretKey
	}{{"t-party", tShares}, {"N-party", orig}}

	judge := func(key, what string, log2std, bound float64, parties int) error {
		lb := math.Log2(bound)
		if lb+4 >= logQP-2 {
			rec.Class("conseq:" + what + "=bound>=QP/16")
			return nil
		}
		rec.Class("conseq:" + what + "=discriminating")
		if log2std > lb {
			return h.Failf(key, "%s generated by %d parties is not a key of the ideal secret: log2(std of the error) = %.2f > log2(bound) = %.2f (log2 QP = %.0f)", what, parties, log2std, lb, logQP)
		}
		return nil
	}

	// Galois key
	galEl := params.GaloisElement(c.GalK)
	if c.GalK < 0 {
		if c.Params.CI {
			galEl = params.GaloisElement(1)
		} else {
			galEl = params.GaloisElementOrderTwoOrthogonalSubgroup()
		}
	}
	gkg := multiparty.NewGaloisKeyGenProtocol(params)
	gcrp := gkg.SampleCRP(h.KeyedPRNG("c15-gkg-crs"))
	for _, g := range groups {
		agg := gkg.AllocateShare()
		for k, sk := range g.group {
			sh := gkg.AllocateShare()
			if err := gkg.GenShare(sk, galEl, gcrp, &sh); err != nil {
				return h.Failf("C15:conseq:gkg:genshare", "%v", err)
			}
			if k == 0 {
				agg = sh
			} else if err := gkg.AggregateShares(agg, sh, &agg); err != nil {
				return h.Failf("C15:conseq:gkg:aggregate", "%v", err)
			}
		}
		gk := rlwe.NewGaloisKey(params)
		if err := gkg.GenGaloisKey(agg, gcrp, gk); err != nil {
			return h.Failf("C15:conseq:gkg:genkey", "%v", err)
		}
		parties := float64(len(g.group))
		if err := judge("C15:conseq:gkg:"+g.name, "Galois key ("+g.name+")", rlwe.NoiseGaloisKey(gk, ideal, params), digits*parties*be, len(g.group)); err != nil {
			return err
		}
	}

	// relinearization key: the error contains s*e0, so the ideal secret must be small
	if c.Secret != "keygen" {
		return nil
	}
	rkg := multiparty.NewRelinearizationKeyGenProtocol(params)
	rcrp := rkg.SampleCRP(h.KeyedPRNG("c15-rkg-crs"))
	for _, g := range groups {
		np := len(g.group)
		eph := make([]*rlwe.SecretKey, np)
		r1 := make([]multiparty.RelinearizationKeyGenShare, np)
		r2 := make([]multiparty.RelinearizationKeyGenShare, np)
		for k := range g.group {
			eph[k], r1[k], r2[k] = rkg.AllocateShare()
		}
		_, agg1, agg2 := rkg.AllocateShare()
		for k, sk := range g.group {
			rkg.GenShareRoundOne(sk, rcrp, eph[k], &r1[k])
			rkg.AggregateShares(agg1, r1[k], &agg1)
		}
		for k, sk := range g.group {
			rkg.GenShareRoundTwo(eph[k], sk, agg1, &r2[k])
			rkg.AggregateShares(agg2, r2[k], &agg2)
		}
		rlk := rlwe.NewRelinearizationKey(params)
		rkg.GenRelinearizationKey(agg1, agg2, rlk)
		parties := float64(np)
		sInf := float64(len(orig)) * bs
		bound := digits * (m*sInf*parties*be + m*parties*bs*parties*be + 2*parties*be)
		if err := judge("C15:conseq:rkg:"+g.name, "relinearization key ("+g.name+")", rlwe.NoiseRelinearizationKey(rlk, ideal, params), bound, np); err != nil {
			return err
		}
	}
	return nil
}
