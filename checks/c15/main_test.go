package c15

import (
	"fmt"
	"math/bits"
	"sort"
	"testing"

	"verif/internal/h"

	"github.com/tuneinsight/lattigo/v6/ring/ringqp"
	"pgregory.net/rapid"
)

func TestMain(m *testing.M) { h.Main(m, "C15") }

func TestReplay(t *testing.T) { h.ReplayAll(t) }

// Case is one threshold setup plus the reconstruction requests issued against it (plain data).
type Case struct {
	Params h.RLWESpec `json:"params"`
	Seed   uint64     `json:"seed"`
	N      int        `json:"n"` // parties
	T      int        `json:"t"` // threshold

	Points     []uint64 `json:"points"`     // Shamir public point of party i
	PointClass string   `json:"pointClass"` // how the points were drawn (informative)
	Secret     string   `json:"secret"`     // "keygen" | "uniform"

	// NewCombiner(params, own, others, t): the order in which party i lists all N parties as `others`. Every party
	// builds TWO long-lived combiners from it: one whose list contains its own point and one without it.
	Others [][]int `json:"others"`

	// Epochs > 1: the same Thresholdizer and Combiner instances serve a second setup with fresh secrets, with the
	// aggregated-share receivers still holding the first epoch's data. ReuseOut: one receiver per party for all its
	// setup shares / additive shares (always holding the previous result when it is written).
	Epochs   int  `json:"epochs,omitempty"`
	ReuseOut bool `json:"reuseOut,omitempty"`

	// setup: order in which recipient j aggregates the shares of the senders, and how
	// (0: acc = acc+share as lattigo's own test; 1: acc = share+acc; 2: pairwise tree into fresh shares).
	AggOrder [][]int `json:"aggOrder"`
	AggMode  []int   `json:"aggMode"`
	Serial   bool    `json:"serial,omitempty"` // every setup share crosses MarshalBinary/UnmarshalBinary

	// reconstruction requests: ordered lists of exactly T distinct parties. AllLists: every ordered T-list.
	AllLists bool    `json:"allLists,omitempty"`
	Lists    [][]int `json:"lists,omitempty"`

	// requests with fewer than T active parties (must be refused), issued by ShortOwner[k].
	Short      [][]int `json:"short,omitempty"`
	ShortOwner []int   `json:"shortOwner,omitempty"`
	ShortFirst bool    `json:"shortFirst,omitempty"`

	// consequence check (collective public key + collective decryption) with list number ConseqList.
	Conseq     bool    `json:"conseq,omitempty"`
	ConseqList int     `json:"conseqList,omitempty"`
	Level      int     `json:"level,omitempty"`
	Smudge     float64 `json:"smudge,omitempty"`
	// Evk: the consequence check also generates a relinearization key and a Galois key (element 5^GalK, or the
	// conjugation 2N-1 when GalK < 0) with the t shares and with the N secrets.
	Evk  bool `json:"evk,omitempty"`
	GalK int  `json:"galK,omitempty"`

	// unjudged probes (behaviour outside the statement, recorded as classes only)
	Probe bool `json:"probe,omitempty"`
}

func (c Case) RandSeed() uint64 { return c.Seed }

// moduli returns Q followed by P.
func (c Case) moduli() []uint64 {
	return append(append([]uint64(nil), c.Params.Q...), c.Params.P...)
}

// ---------------------------------------------------------------------------------------------------------------
// independent modular arithmetic (math/bits only)

func mulmod(a, b, q uint64) uint64 {
	hi, lo := bits.Mul64(a%q, b%q)
	_, r := bits.Div64(hi, lo, q)
	return r
}

func addmod(a, b, q uint64) uint64 {
	s, c := bits.Add64(a%q, b%q, 0)
	if c != 0 || s >= q {
		s -= q
	}
	return s
}

func submod(a, b, q uint64) uint64 { return addmod(a, q-b%q, q) }

func powmod(a, e, q uint64) uint64 {
	r := uint64(1) % q
	a %= q
	for e > 0 {
		if e&1 == 1 {
			r = mulmod(r, a, q)
		}
		a = mulmod(a, a, q)
		e >>= 1
	}
	return r
}

func invmod(a, q uint64) uint64 { return powmod(a, q-2, q) }

// vec is a polynomial of R_QP as raw residues: vec[limb][coefficient] (limbs of Q then limbs of P). Every operation
// of the threshold scheme is coefficient-wise linear over Z_q, so the representation (NTT, Montgomery) is irrelevant.
type vec [][]uint64

func fromPoly(p ringqp.Poly, qs []uint64) vec {
	var out vec
	for _, l := range p.Q.Coeffs {
		out = append(out, append([]uint64(nil), l...))
	}
	for _, l := range p.P.Coeffs {
		out = append(out, append([]uint64(nil), l...))
	}
	for i := range out {
		if i < len(qs) {
			for j := range out[i] {
				out[i][j] %= qs[i]
			}
		}
	}
	return out
}

func newVec(qs []uint64, n int) vec {
	out := make(vec, len(qs))
	for i := range out {
		out[i] = make([]uint64, n)
	}
	return out
}

func (a vec) add(b vec, qs []uint64) vec {
	out := make(vec, len(a))
	for i := range a {
		out[i] = make([]uint64, len(a[i]))
		for j := range a[i] {
			out[i][j] = addmod(a[i][j], b[i][j], qs[i])
		}
	}
	return out
}

// mulScalars multiplies limb i by s[i].
func (a vec) mulScalars(s []uint64, qs []uint64) vec {
	out := make(vec, len(a))
	for i := range a {
		out[i] = make([]uint64, len(a[i]))
		for j := range a[i] {
			out[i][j] = mulmod(a[i][j], s[i], qs[i])
		}
	}
	return out
}

// diff returns the first differing position.
func (a vec) diff(b vec) (limb, idx int, ok bool) {
	if len(a) != len(b) {
		return -1, -1, false
	}
	for i := range a {
		if len(a[i]) != len(b[i]) {
			return i, -1, false
		}
		for j := range a[i] {
			if a[i][j] != b[i][j] {
				return i, j, false
			}
		}
	}
	return 0, 0, true
}

func (a vec) isZeroLimb(i int) bool {
	for _, v := range a[i] {
		if v != 0 {
			return false
		}
	}
	return true
}

// horner evaluates sum_k coeffs[k] x^k.
func horner(coeffs []vec, x uint64, qs []uint64) vec {
	acc := coeffs[len(coeffs)-1]
	for k := len(coeffs) - 2; k >= 0; k-- {
		xs := make([]uint64, len(qs))
		for i, q := range qs {
			xs[i] = x % q
		}
		acc = acc.mulScalars(xs, qs).add(coeffs[k], qs)
	}
	return acc
}

// lagrangeAtZero returns, per limb, prod_{k in set, k != j} x_k / (x_k - x_j).
func lagrangeAtZero(points []uint64, set []int, j int, qs []uint64) []uint64 {
	out := make([]uint64, len(qs))
	for i, q := range qs {
		num, den := uint64(1)%q, uint64(1)%q
		for _, k := range set {
			if k == j {
				continue
			}
			num = mulmod(num, points[k]%q, q)
			den = mulmod(den, submod(points[k]%q, points[j]%q, q), q)
		}
		out[i] = mulmod(num, invmod(den, q), q)
	}
	return out
}

// pointsAdmissible: pairwise distinct modulo every prime of Q and P, and non-zero as integers (the mathematical
// precondition of Shamir sharing in each CRT component).
func pointsAdmissible(points []uint64, qs []uint64) bool {
	for i, a := range points {
		if a == 0 {
			return false
		}
		for _, b := range points[:i] {
			for _, q := range qs {
				if a%q == b%q {
					return false
				}
			}
		}
	}
	return true
}

// ---------------------------------------------------------------------------------------------------------------
// enumeration of ordered lists

// orderedLists returns every ordered list of t distinct elements of 0..n-1 (lexicographic).
func orderedLists(n, t int) [][]int {
	var out [][]int
	cur := make([]int, 0, t)
	used := make([]bool, n)
	var rec func()
	rec = func() {
		if len(cur) == t {
			out = append(out, append([]int(nil), cur...))
			return
		}
		for i := 0; i < n; i++ {
			if !used[i] {
				used[i] = true
				cur = append(cur, i)
				rec()
				cur = cur[:len(cur)-1]
				used[i] = false
			}
		}
	}
	rec()
	return out
}

func countOrdered(n, t int) int {
	c := 1
	for i := 0; i < t; i++ {
		c *= n - i
	}
	return c
}

func setKey(l []int) string {
	s := append([]int(nil), l...)
	sort.Ints(s)
	return fmt.Sprint(s)
}

func isIdentityPrefix(l []int) bool {
	for i, v := range l {
		if v != i {
			return false
		}
	}
	return true
}

// ---------------------------------------------------------------------------------------------------------------
// generator

func drawPerm(t *rapid.T, n int, label string) []int {
	p := make([]int, n)
	for i := range p {
		p[i] = i
	}
	// Fisher-Yates from explicit draws (shrinks towards the identity)
	for i := 0; i < n-1; i++ {
		j := i + rapid.IntRange(0, n-1-i).Draw(t, fmt.Sprintf("%s_%d", label, i))
		p[i], p[j] = p[j], p[i]
	}
	return p
}

func genPoints(t *rapid.T, n int, qs []uint64) ([]uint64, string) {
	classes := []string{"seq", "seqperm", "u32", "u64", "mixed", "edge"}
	class := classes[rapid.IntRange(0, len(classes)-1).Draw(t, "pointClass")]
	pts := make([]uint64, n)
	for i := range pts {
		k := class
		if class == "mixed" {
			k = []string{"seq", "u32", "u64", "edge"}[rapid.IntRange(0, 3).Draw(t, fmt.Sprintf("pk%d", i))]
		}
		switch k {
		case "seq", "seqperm":
			pts[i] = uint64(i + 1)
		case "u32":
			pts[i] = uint64(rapid.Uint32().Draw(t, fmt.Sprintf("p%d", i)))
		case "u64":
			pts[i] = rapid.Uint64Range(1<<32+1, ^uint64(0)).Draw(t, fmt.Sprintf("p%d", i))
		case "edge":
			// values around the moduli (incl. = q_i, i.e. 0 in that CRT component) and around powers of two
			q := qs[rapid.IntRange(0, len(qs)-1).Draw(t, fmt.Sprintf("pq%d", i))]
			cands := []uint64{q, q - 1, q + 1, 2 * q, 2*q + 1, ^uint64(0), ^uint64(0) - 1, 1 << 63, 1<<63 + 1, 1 << 32, 1<<32 - 1, 1<<32 + 1, ^uint64(0) - ^uint64(0)%q, 1}
			pts[i] = cands[rapid.IntRange(0, len(cands)-1).Draw(t, fmt.Sprintf("pe%d", i))]
		}
	}
	if class == "seqperm" {
		perm := drawPerm(t, n, "pperm")
		out := make([]uint64, n)
		for i := range out {
			out[i] = pts[perm[i]]
		}
		pts = out
	}
	// constructive fix-up (no filtering): bump a point until it is non-zero and distinct from all earlier ones
	// modulo every prime of the chain. A solution always exists because every prime exceeds the number of parties.
	for i := range pts {
		for guard := 0; ; guard++ {
			if guard > 1<<20 {
				t.Fatalf("no admissible point found")
			}
			if pointsAdmissible(pts[:i+1], qs) {
				break
			}
			pts[i]++
		}
	}
	return pts, class
}

func drawList(t *rapid.T, n, k int, label string) []int {
	p := drawPerm(t, n, label)
	return p[:k]
}

func genCase(t *rapid.T) Case {
	var c Case
	maxLogN := 6
	if h.Thorough() {
		maxLogN = 7
	}
	c.Params = h.GenRLWESpec(t, h.RLWEOpts{MinLogN: 4, MaxLogN: maxLogN, MinQ: 1, MaxQ: 4, MinP: 0, MaxP: 2, MinBits: 2, MaxBits: 60, AllowCI: true})
	if c.Params.Xe.Kind != "gauss" {
		// at the pinned commit a ternary ERROR distribution makes rlwe.Encryptor panic below the top level
		// (TernarySampler.AtLevel keeps the closure of the original sampler; C17/C03 territory, outside this
		// property); the error distribution only matters for the consequence check, keep it Gaussian.
		c.Params.Xe = h.DefaultXe
	}
	c.Seed = rapid.Uint64().Draw(t, "seed")
	c.N = []int{1, 2, 3, 4, 5, 6, 6, 5, 4, 3, 6, 5, 4, 3, 2}[rapid.IntRange(0, 14).Draw(t, "n")]
	if h.Thorough() && rapid.IntRange(0, 4).Draw(t, "bigN") == 0 {
		c.N = rapid.IntRange(7, 8).Draw(t, "n78")
	}
	switch rapid.IntRange(0, 9).Draw(t, "tk") {
	case 7:
		c.T = c.N - 1
	case 8:
		c.T = 1
	case 9:
		c.T = c.N
	default:
		c.T = 1 + (rapid.IntRange(0, c.N-1).Draw(t, "t")+c.N/2)%c.N // draws are biased to 0: favour the middle
	}
	if c.T < 1 {
		c.T = 1
	}
	qs := c.moduli()
	c.Points, c.PointClass = genPoints(t, c.N, qs)
	c.Secret = "keygen"
	if rapid.IntRange(0, 5).Draw(t, "secretKind") == 0 {
		c.Secret = "uniform"
	}

	c.Others = make([][]int, c.N)
	c.AggOrder = make([][]int, c.N)
	c.AggMode = make([]int, c.N)
	for i := 0; i < c.N; i++ {
		c.Others[i] = drawPerm(t, c.N, fmt.Sprintf("others%d", i))
		c.AggOrder[i] = drawPerm(t, c.N, fmt.Sprintf("agg%d", i))
		c.AggMode[i] = rapid.IntRange(0, 2).Draw(t, fmt.Sprintf("aggMode%d", i))
	}
	c.Serial = rapid.IntRange(0, 3).Draw(t, "serial") == 0
	c.Epochs = 1
	if rapid.IntRange(0, 2).Draw(t, "epochs") == 2 {
		c.Epochs = 2
	}
	c.ReuseOut = rapid.Bool().Draw(t, "reuseOut")
	c.Probe = rapid.IntRange(0, 3).Draw(t, "probe") == 0

	capAll := 400
	if h.Thorough() {
		capAll = 2000
	}
	if countOrdered(c.N, c.T) <= capAll && rapid.IntRange(0, 3).Draw(t, "all") != 0 {
		c.AllLists = true
	} else {
		nl := rapid.IntRange(1, 24).Draw(t, "nLists")
		for k := 0; k < nl; k++ {
			c.Lists = append(c.Lists, drawList(t, c.N, c.T, fmt.Sprintf("list%d", k)))
		}
	}

	ns := rapid.IntRange(1, 3).Draw(t, "nShort")
	for k := 0; k < ns; k++ {
		var ln int
		switch rapid.IntRange(0, 2).Draw(t, fmt.Sprintf("shortK%d", k)) {
		case 0:
			ln = c.T - 1
		case 1:
			ln = 0
		default:
			ln = rapid.IntRange(0, c.T-1).Draw(t, fmt.Sprintf("shortLen%d", k))
		}
		l := drawList(t, c.N, ln, fmt.Sprintf("short%d", k))
		owner := rapid.IntRange(0, c.N-1).Draw(t, fmt.Sprintf("shortOwner%d", k))
		if ln > 0 && rapid.Bool().Draw(t, fmt.Sprintf("shortOwnIn%d", k)) {
			owner = l[0]
		}
		c.Short = append(c.Short, l)
		c.ShortOwner = append(c.ShortOwner, owner)
	}
	c.ShortFirst = rapid.Bool().Draw(t, "shortFirst")

	if rapid.IntRange(0, 2).Draw(t, "conseq") == 0 {
		c.Conseq = true
		nl := len(c.Lists)
		if c.AllLists {
			nl = countOrdered(c.N, c.T)
		}
		c.ConseqList = rapid.IntRange(0, nl-1).Draw(t, "conseqList")
		c.Level = rapid.IntRange(0, len(c.Params.Q)-1).Draw(t, "level")
		c.Smudge = []float64{0, 3.2, 1 << 10, 1 << 20}[rapid.IntRange(0, 3).Draw(t, "smudge")]
		if rapid.IntRange(0, 1).Draw(t, "evk") == 0 {
			c.Evk = true
			c.GalK = rapid.IntRange(-1, 6).Draw(t, "galK")
		}
	}
	return c
}
