package c15

import (
	"fmt"
	"testing"

	"verif/internal/h"

	"github.com/tuneinsight/lattigo/v6/core/rlwe"
	"github.com/tuneinsight/lattigo/v6/multiparty"
)

type party struct {
	thr  multiparty.Thresholdizer
	cmb  multiparty.Combiner
	sk   *rlwe.SecretKey
	gen  multiparty.ShamirPolynomial
	tsks multiparty.ShamirSecretShare // aggregated t-out-of-N share
	pt   multiparty.ShamirPublicPoint
}

func validCase(c Case) error {
	if c.N < 1 || c.N > 8 || c.T < 1 || c.T > c.N || len(c.Points) != c.N || len(c.Others) != c.N || len(c.AggOrder) != c.N || len(c.AggMode) != c.N {
		return fmt.Errorf("malformed case")
	}
	if !pointsAdmissible(c.Points, c.moduli()) {
		return fmt.Errorf("points not distinct modulo every prime")
	}
	isPerm := func(l []int, full bool) bool {
		seen := map[int]bool{}
		for _, v := range l {
			if v < 0 || v >= c.N || seen[v] {
				return false
			}
			seen[v] = true
		}
		return !full || len(l) == c.N
	}
	for i := 0; i < c.N; i++ {
		if !isPerm(c.AggOrder[i], true) || !isPerm(c.Others[i], false) {
			return fmt.Errorf("malformed orders")
		}
		// others must cover every party except possibly i itself
		seen := map[int]bool{i: true}
		for _, v := range c.Others[i] {
			seen[v] = true
		}
		if len(seen) != c.N {
			return fmt.Errorf("others incomplete")
		}
	}
	for _, l := range c.Lists {
		if len(l) != c.T || !isPerm(l, false) {
			return fmt.Errorf("malformed list")
		}
	}
	if len(c.Short) != len(c.ShortOwner) {
		return fmt.Errorf("malformed short lists")
	}
	for k, l := range c.Short {
		if len(l) >= c.T || !isPerm(l, false) || c.ShortOwner[k] < 0 || c.ShortOwner[k] >= c.N {
			return fmt.Errorf("malformed short list")
		}
	}
	return nil
}

func ptsOf(c Case, l []int) []multiparty.ShamirPublicPoint {
	out := make([]multiparty.ShamirPublicPoint, len(l))
	for i, v := range l {
		out[i] = multiparty.ShamirPublicPoint(c.Points[v])
	}
	return out
}

func runCase(c Case, rec *h.Rec) error {
	if err := validCase(c); err != nil {
		return fmt.Errorf("bad case: %v", err)
	}
	params, err := c.Params.Build()
	if err != nil {
		return fmt.Errorf("bad case: parameters: %v", err)
	}
	qs := c.moduli()
	ringQP := params.RingQP()
	n := params.N()

	// ---- parties and their secrets --------------------------------------------------------------------------
	kgen := rlwe.NewKeyGenerator(params)
	rng := h.NewSplitMix(c.Seed ^ 0xc15)
	P := make([]*party, c.N)
	secrets := make([]vec, c.N)
	ideal := newVec(qs, n)
	for i := range P {
		p := &party{thr: multiparty.NewThresholdizer(params), pt: multiparty.ShamirPublicPoint(c.Points[i])}
		if c.Secret == "uniform" {
			p.sk = rlwe.NewSecretKey(params)
			for l, row := range p.sk.Value.Q.Coeffs {
				for j := range row {
					row[j] = rng.Uint64() % qs[l]
				}
			}
			for l, row := range p.sk.Value.P.Coeffs {
				for j := range row {
					row[j] = rng.Uint64() % qs[len(c.Params.Q)+l]
				}
			}
		} else {
			p.sk = kgen.GenSecretKeyNew()
		}
		secrets[i] = fromPoly(p.sk.Value, qs)
		if len(secrets[i]) != len(qs) {
			return fmt.Errorf("bad case: secret key has %d limbs, chain has %d", len(secrets[i]), len(qs))
		}
		ideal = ideal.add(secrets[i], qs)
		p.tsks = p.thr.AllocateThresholdSecretShare()
		P[i] = p
	}
	for i, p := range P {
		p.cmb = multiparty.NewCombiner(params, p.pt, ptsOf(c, c.Others[i]), c.T)
	}

	// ---- setup: Shamir polynomials, shares, aggregation ------------------------------------------------------
	expAgg := make([]vec, c.N) // reference aggregated share of recipient j
	for j := range expAgg {
		expAgg[j] = newVec(qs, n)
	}
	shares := make([][]multiparty.ShamirSecretShare, c.N) // [sender][recipient]
	for i, p := range P {
		p.gen, err = p.thr.GenShamirPolynomial(c.T, p.sk)
		if err != nil {
			return h.Failf("C15:GenShamirPolynomial:error", "t=%d: %v", c.T, err)
		}
		if len(p.gen.Value) != c.T {
			return h.Failf("C15:GenShamirPolynomial:degree", "polynomial has %d coefficients, threshold is %d", len(p.gen.Value), c.T)
		}
		coeffs := make([]vec, c.T)
		for k := range coeffs {
			coeffs[k] = fromPoly(p.gen.Value[k], qs)
		}
		if l, idx, ok := coeffs[0].diff(secrets[i]); !ok {
			return h.Failf("C15:GenShamirPolynomial:constant-term", "constant term differs from the secret at limb %d coeff %d", l, idx)
		}
		if l, idx, ok := fromPoly(p.sk.Value, qs).diff(secrets[i]); !ok {
			return h.Failf("C15:GenShamirPolynomial:secret-modified", "the caller's secret key was modified at limb %d coeff %d", l, idx)
		}
		// "fewer cannot": the polynomial must really have degree t-1 in every CRT component, otherwise t-1 shares
		// already determine the secret there (probability of a false alarm <= 97^-16 per limb).
		for k := 1; k < c.T; k++ {
			for l := range qs {
				if coeffs[k].isZeroLimb(l) {
					return h.Failf("C15:GenShamirPolynomial:degenerate", "coefficient %d of the Shamir polynomial of party %d is identically zero modulo q[%d]=%d", k, i, l, qs[l])
				}
			}
		}
		shares[i] = make([]multiparty.ShamirSecretShare, c.N)
		for j, pj := range P {
			sh := p.thr.AllocateThresholdSecretShare()
			p.thr.GenShamirSecretShare(pj.pt, p.gen, &sh)
			want := horner(coeffs, c.Points[j], qs)
			if l, idx, ok := fromPoly(sh.Poly, qs).diff(want); !ok {
				return h.Failf("C15:GenShamirSecretShare:value", "share of party %d for point %d differs from the polynomial evaluated at the point (limb %d, q=%d, coeff %d)", i, c.Points[j], l, qs[l], idx)
			}
			expAgg[j] = expAgg[j].add(want, qs)
			if c.Serial {
				b, err := sh.MarshalBinary()
				if err != nil {
					return h.Failf("C15:ShamirSecretShare:marshal", "%v", err)
				}
				sh2 := p.thr.AllocateThresholdSecretShare()
				if err = sh2.UnmarshalBinary(b); err != nil {
					return h.Failf("C15:ShamirSecretShare:unmarshal", "%v", err)
				}
				sh = sh2
			}
			shares[i][j] = sh
		}
		// the polynomial must not have been modified by the evaluations
		for k := range coeffs {
			if _, _, ok := fromPoly(p.gen.Value[k], qs).diff(coeffs[k]); !ok {
				return h.Failf("C15:GenShamirSecretShare:polynomial-modified", "coefficient %d of the Shamir polynomial changed during evaluation", k)
			}
		}
	}
	for j, pj := range P {
		order := c.AggOrder[j]
		switch c.AggMode[j] {
		case 0:
			for _, i := range order {
				if err = pj.thr.AggregateShares(pj.tsks, shares[i][j], &pj.tsks); err != nil {
					return h.Failf("C15:AggregateShares:error", "%v", err)
				}
			}
		case 1:
			for _, i := range order {
				if err = pj.thr.AggregateShares(shares[i][j], pj.tsks, &pj.tsks); err != nil {
					return h.Failf("C15:AggregateShares:error", "%v", err)
				}
			}
		default:
			cur := make([]multiparty.ShamirSecretShare, len(order))
			for k, i := range order {
				cur[k] = shares[i][j]
			}
			for len(cur) > 1 {
				var next []multiparty.ShamirSecretShare
				for k := 0; k+1 < len(cur); k += 2 {
					out := pj.thr.AllocateThresholdSecretShare()
					if err = pj.thr.AggregateShares(cur[k], cur[k+1], &out); err != nil {
						return h.Failf("C15:AggregateShares:error", "%v", err)
					}
					next = append(next, out)
				}
				if len(cur)%2 == 1 {
					next = append(next, cur[len(cur)-1])
				}
				cur = next
			}
			pj.tsks = cur[0]
		}
		if l, idx, ok := fromPoly(pj.tsks.Poly, qs).diff(expAgg[j]); !ok {
			return h.Failf("C15:AggregateShares:value", "aggregated share of party %d (mode %d, order %v) differs from the sum of the received shares (limb %d coeff %d)", j, c.AggMode[j], order, l, idx)
		}
	}

	// ---- requests ---------------------------------------------------------------------------------------------
	short := func() error {
		for k, l := range c.Short {
			own := c.ShortOwner[k]
			out := rlwe.NewSecretKey(params)
			var act []multiparty.ShamirPublicPoint
			if len(l) > 0 || k%2 == 0 { // also exercises the nil slice
				act = ptsOf(c, l)
			}
			if err := P[own].cmb.GenAdditiveShare(act, P[own].pt, P[own].tsks, out); err == nil {
				return h.Failf("C15:GenAdditiveShare:too-few-accepted", "request with %d active parties accepted, threshold is %d", len(l), c.T)
			}
		}
		return nil
	}
	if c.ShortFirst {
		if err := short(); err != nil {
			return err
		}
	}

	lists := c.Lists
	if c.AllLists {
		lists = orderedLists(c.N, c.T)
	}
	firstShare := map[string]vec{} // (set, party) -> additive share first seen
	nonIdentity := false
	sets := map[string]bool{}
	var conseqShares []*rlwe.SecretKey
	for li, l := range lists {
		if !isIdentityPrefix(l) {
			nonIdentity = true
		}
		sk := setKey(l)
		sets[sk] = true
		act := ptsOf(c, l)
		sum := newVec(qs, n)
		recSk := rlwe.NewSecretKey(params)
		var outs []vec
		var keep []*rlwe.SecretKey
		for _, j := range l {
			out := rlwe.NewSecretKey(params)
			if err := P[j].cmb.GenAdditiveShare(act, P[j].pt, P[j].tsks, out); err != nil {
				return h.Failf("C15:GenAdditiveShare:error", "request with exactly t=%d active parties refused: %v", c.T, err)
			}
			v := fromPoly(out.Value, qs)
			outs = append(outs, v)
			keep = append(keep, out)
			sum = sum.add(v, qs)
			ringQP.Add(out.Value, recSk.Value, recSk.Value) // as lattigo's callers do
			key := fmt.Sprintf("%s/%d", sk, j)
			if prev, seen := firstShare[key]; !seen {
				firstShare[key] = v
			} else if lb, idx, ok := prev.diff(v); !ok {
				return h.Failf("C15:GenAdditiveShare:order-dependent", "additive share of party %d for the active set %s differs from the share derived by an earlier request for the same set (depends on the order of listing or on earlier requests; list %v, limb %d coeff %d)", j, sk, l, lb, idx)
			}
		}
		if lb, idx, ok := sum.diff(ideal); !ok {
			// diagnostics: which party deviates from t-out-of-N share x Lagrange coefficient
			diag := ""
			for k, j := range l {
				want := expAgg[j].mulScalars(lagrangeAtZero(c.Points, l, j, qs), qs)
				if _, _, same := outs[k].diff(want); !same {
					diag += fmt.Sprintf(" party %d deviates from share*lagrange;", j)
				}
			}
			return h.Failf("C15:GenAdditiveShare:sum", "N=%d t=%d active list %v (points %v): sum of the additive shares differs from the ideal secret key at limb %d (q=%d) coeff %d: got %d want %d;%s", c.N, c.T, l, act, lb, qs[lb], idx, sum[lb][idx], ideal[lb][idx], diag)
		}
		if lb, idx, ok := fromPoly(recSk.Value, qs).diff(ideal); !ok {
			return h.Failf("C15:GenAdditiveShare:sum-ringqp", "sum of the additive shares by ringQP.Add differs from the ideal secret key at limb %d coeff %d", lb, idx)
		}
		if c.Conseq && li == c.ConseqList {
			conseqShares = keep
		}
	}
	// the aggregated t-out-of-N shares must not have been modified by the requests
	for j, pj := range P {
		if _, _, ok := fromPoly(pj.tsks.Poly, qs).diff(expAgg[j]); !ok {
			return h.Failf("C15:GenAdditiveShare:input-modified", "aggregated share of party %d was modified by GenAdditiveShare", j)
		}
	}
	if !c.ShortFirst {
		if err := short(); err != nil {
			return err
		}
	}

	if c.Conseq && conseqShares != nil {
		orig := make([]*rlwe.SecretKey, c.N)
		for i, p := range P {
			orig[i] = p.sk
		}
		if err := consequence(c, params, conseqShares, orig, rec); err != nil {
			return err
		}
	}

	// ---- classes ------------------------------------------------------------------------------------------------
	big := false
	for _, p := range c.Points {
		if p > 1<<32 {
			big = true
		}
	}
	mode := "sampled"
	if c.AllLists {
		mode = "all"
	}
	rec.Classf("N=%d", c.N)
	rec.Classf("t=%d", c.T)
	rec.Classf("points=%s", c.PointClass)
	rec.Classf("lists=%s", mode)
	rec.Classf("secret=%s", c.Secret)
	rec.Classf("limbs=%d+%d", len(c.Params.Q), len(c.Params.P))
	if c.Params.CI {
		rec.Class("ring=ci")
	}
	if c.Serial {
		rec.Class("serial")
	}
	if c.Conseq {
		rec.Class("conseq")
	}
	if big {
		rec.Class("point>2^32")
	}
	zeroRes := false
	for _, p := range c.Points {
		for _, q := range qs {
			if p%q == 0 {
				zeroRes = true
			}
		}
	}
	if zeroRes {
		rec.Class("point=0 mod some prime")
	}
	if c.AllLists {
		// (N,t) pairs for which every ordered active list was enumerated in at least one case of this run
		h.SetExtra("TestPropThreshold", fmt.Sprintf("all_ordered_lists_enumerated/N=%d,t=%d", c.N, c.T), len(lists))
	}
	rec.Note("ordered_lists", len(lists))
	rec.Note("active_sets", len(sets))
	if (c.T < c.N && nonIdentity) || big {
		rec.NonTrivial(fmt.Sprintf("N=%d t=%d pts=%s big=%v lists=%s secret=%s limbs=%d+%d ci=%v logN=%d serial=%v conseq=%v", c.N, c.T, c.PointClass, big, mode, c.Secret, len(c.Params.Q), len(c.Params.P), c.Params.CI, c.Params.LogN, c.Serial, c.Conseq))
	}
	return nil
}

var propThreshold = h.NewProp("TestPropThreshold", h.Budget{Quick: 10000, Thorough: 240000}, genCase, runCase)

func TestPropThreshold(t *testing.T) { propThreshold.Check(t) }
