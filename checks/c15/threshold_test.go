package c15

import (
	"fmt"
	"testing"

	"verif/internal/h"

	"github.com/tuneinsight/lattigo/v6/core/rlwe"
	"github.com/tuneinsight/lattigo/v6/multiparty"
)

type party struct {
	thr  multiparty.Thresholdizer
	cmb  [2]multiparty.Combiner // [0]: own point listed among `others`, [1]: not listed
	sk   *rlwe.SecretKey
	gen  multiparty.ShamirPolynomial
	tsks multiparty.ShamirSecretShare // aggregated t-out-of-N share
	pt   multiparty.ShamirPublicPoint
	out  *rlwe.SecretKey // re-used receiver of GenAdditiveShare (ReuseOut)
}

func isPermOf(l []int, n int, full bool) bool {
	seen := map[int]bool{}
	for _, v := range l {
		if v < 0 || v >= n || seen[v] {
			return false
		}
		seen[v] = true
	}
	return !full || len(l) == n
}

func validCase(c Case) error {
	if c.N < 1 || c.N > 8 || c.T < 1 || c.T > c.N || len(c.Points) != c.N || len(c.Others) != c.N || len(c.AggOrder) != c.N || len(c.AggMode) != c.N {
		return fmt.Errorf("malformed case")
	}
	if !pointsAdmissible(c.Points, c.moduli()) {
		return fmt.Errorf("points not distinct modulo every prime")
	}
	for i := 0; i < c.N; i++ {
		if !isPermOf(c.AggOrder[i], c.N, true) || !isPermOf(c.Others[i], c.N, true) {
			return fmt.Errorf("malformed orders")
		}
	}
	for _, l := range c.Lists {
		if len(l) != c.T || !isPermOf(l, c.N, false) {
			return fmt.Errorf("malformed list")
		}
	}
	if len(c.Short) != len(c.ShortOwner) {
		return fmt.Errorf("malformed short lists")
	}
	for k, l := range c.Short {
		if len(l) >= c.T || !isPermOf(l, c.N, false) || c.ShortOwner[k] < 0 || c.ShortOwner[k] >= c.N {
			return fmt.Errorf("malformed short list")
		}
	}
	return nil
}

func ptsOfPoints(points []uint64, l []int) []multiparty.ShamirPublicPoint {
	out := make([]multiparty.ShamirPublicPoint, len(l))
	for i, v := range l {
		out[i] = multiparty.ShamirPublicPoint(points[v])
	}
	return out
}

func ptsOf(c Case, l []int) []multiparty.ShamirPublicPoint { return ptsOfPoints(c.Points, l) }

func samePts(a, b []multiparty.ShamirPublicPoint) bool {
	if len(a) != len(b) {
		return false
	}
	for i := range a {
		if a[i] != b[i] {
			return false
		}
	}
	return true
}

func without(l []int, x int) []int {
	var o []int
	for _, v := range l {
		if v != x {
			o = append(o, v)
		}
	}
	return o
}

// world is one threshold deployment: long-lived protocol objects plus the reference values of the current epoch.
type world struct {
	c       Case
	params  rlwe.Parameters
	qs      []uint64
	n       int
	P       []*party
	secrets []vec
	ideal   vec
	expAgg  []vec
}

// setup runs one epoch of the threshold secret-key generation with the parties' long-lived Thresholdizers and checks
// every intermediate object against the reference arithmetic.
func (w *world) setup(epoch int, rng *h.SplitMix, kgen *rlwe.KeyGenerator) error {
	c, qs, n, P := w.c, w.qs, w.n, w.P
	var err error
	w.secrets = make([]vec, c.N)
	w.ideal = newVec(qs, n)
	for i, p := range P {
		if c.Secret == "uniform" {
			p.sk = rlwe.NewSecretKey(w.params)
			for l, row := range p.sk.Value.Q.Coeffs {
				for j := range row {
					row[j] = rng.Uint64() % qs[l]
				}
			}
			for l, row := range p.sk.Value.P.Coeffs {
				for j := range row {
					row[j] = rng.Uint64() % qs[len(c.Params.Q)+l]
				}
			}
		} else {
			p.sk = kgen.GenSecretKeyNew()
		}
		w.secrets[i] = fromPoly(p.sk.Value, qs)
		if len(w.secrets[i]) != len(qs) {
			return fmt.Errorf("bad case: secret key has %d limbs, chain has %d", len(w.secrets[i]), len(qs))
		}
		w.ideal = w.ideal.add(w.secrets[i], qs)
	}

	w.expAgg = make([]vec, c.N) // reference aggregated share of recipient j
	for j := range w.expAgg {
		w.expAgg[j] = newVec(qs, n)
	}
	shares := make([][]multiparty.ShamirSecretShare, c.N) // [sender][recipient]
	wantShare := make([][]vec, c.N)
	for i, p := range P {
		p.gen, err = p.thr.GenShamirPolynomial(c.T, p.sk)
		if err != nil {
			return h.Failf("C15:GenShamirPolynomial:error", "t=%d: %v", c.T, err)
		}
		if len(p.gen.Value) != c.T {
			return h.Failf("C15:GenShamirPolynomial:degree", "polynomial has %d coefficients, threshold is %d", len(p.gen.Value), c.T)
		}
		coeffs := make([]vec, c.T)
		for k := range coeffs {
			coeffs[k] = fromPoly(p.gen.Value[k], qs)
		}
		if l, idx, ok := coeffs[0].diff(w.secrets[i]); !ok {
			return h.Failf("C15:GenShamirPolynomial:constant-term", "epoch %d: constant term differs from the secret at limb %d coeff %d", epoch, l, idx)
		}
		if l, idx, ok := fromPoly(p.sk.Value, qs).diff(w.secrets[i]); !ok {
			return h.Failf("C15:GenShamirPolynomial:secret-modified", "the caller's secret key was modified at limb %d coeff %d", l, idx)
		}
		// "fewer cannot": the polynomial must really have degree t-1 in every CRT component, otherwise t-1 shares
		// already determine the secret there (probability of a false alarm <= 97^-16 per limb).
		for k := 1; k < c.T; k++ {
			for l := range qs {
				if coeffs[k].isZeroLimb(l) {
					return h.Failf("C15:GenShamirPolynomial:degenerate", "epoch %d: coefficient %d of the Shamir polynomial of party %d is identically zero modulo q[%d]=%d", epoch, k, i, l, qs[l])
				}
			}
		}
		shares[i] = make([]multiparty.ShamirSecretShare, c.N)
		wantShare[i] = make([]vec, c.N)
		reused := p.thr.AllocateThresholdSecretShare() // receiver with an earlier life (previous recipient's share)
		for j, pj := range P {
			sh := p.thr.AllocateThresholdSecretShare()
			if c.ReuseOut {
				sh = reused
			}
			p.thr.GenShamirSecretShare(pj.pt, p.gen, &sh)
			want := horner(coeffs, c.Points[j], qs)
			if l, idx, ok := fromPoly(sh.Poly, qs).diff(want); !ok {
				return h.Failf("C15:GenShamirSecretShare:value", "epoch %d: share of party %d for point %d differs from the polynomial evaluated at the point (limb %d, q=%d, coeff %d)", epoch, i, c.Points[j], l, qs[l], idx)
			}
			wantShare[i][j] = want
			w.expAgg[j] = w.expAgg[j].add(want, qs)
			if c.Serial {
				b, err := sh.MarshalBinary()
				if err != nil {
					return h.Failf("C15:ShamirSecretShare:marshal", "%v", err)
				}
				sh2 := p.thr.AllocateThresholdSecretShare()
				if err = sh2.UnmarshalBinary(b); err != nil {
					return h.Failf("C15:ShamirSecretShare:unmarshal", "%v", err)
				}
				sh = sh2
			} else if c.ReuseOut {
				sh = multiparty.ShamirSecretShare{Poly: *sh.Poly.CopyNew()}
			}
			shares[i][j] = sh
		}
		// the polynomial must not have been modified by the evaluations
		for k := range coeffs {
			if _, _, ok := fromPoly(p.gen.Value[k], qs).diff(coeffs[k]); !ok {
				return h.Failf("C15:GenShamirSecretShare:polynomial-modified", "coefficient %d of the Shamir polynomial changed during evaluation", k)
			}
		}
	}
	for j, pj := range P {
		order := c.AggOrder[j]
		mode := c.AggMode[j]
		rest := order
		if epoch == 0 {
			if mode != 2 {
				pj.tsks = pj.thr.AllocateThresholdSecretShare()
			}
		} else if mode != 2 {
			// the receiver still holds the previous epoch's aggregate: the first call must overwrite it completely
			if len(order) >= 2 {
				if err = pj.thr.AggregateShares(shares[order[0]][j], shares[order[1]][j], &pj.tsks); err != nil {
					return h.Failf("C15:AggregateShares:error", "%v", err)
				}
				rest = order[2:]
			} else {
				pj.tsks = pj.thr.AllocateThresholdSecretShare()
			}
		}
		switch mode {
		case 0:
			for _, i := range rest {
				if err = pj.thr.AggregateShares(pj.tsks, shares[i][j], &pj.tsks); err != nil {
					return h.Failf("C15:AggregateShares:error", "%v", err)
				}
			}
		case 1:
			for _, i := range rest {
				if err = pj.thr.AggregateShares(shares[i][j], pj.tsks, &pj.tsks); err != nil {
					return h.Failf("C15:AggregateShares:error", "%v", err)
				}
			}
		default:
			cur := make([]multiparty.ShamirSecretShare, len(order))
			for k, i := range order {
				cur[k] = shares[i][j]
			}
			if len(cur) == 1 {
				cur[0] = multiparty.ShamirSecretShare{Poly: *cur[0].Poly.CopyNew()}
			}
			for len(cur) > 1 {
				var next []multiparty.ShamirSecretShare
				for k := 0; k+1 < len(cur); k += 2 {
					out := pj.thr.AllocateThresholdSecretShare()
					if err = pj.thr.AggregateShares(cur[k], cur[k+1], &out); err != nil {
						return h.Failf("C15:AggregateShares:error", "%v", err)
					}
					next = append(next, out)
				}
				if len(cur)%2 == 1 {
					next = append(next, cur[len(cur)-1])
				}
				cur = next
			}
			pj.tsks = multiparty.ShamirSecretShare{Poly: *cur[0].Poly.CopyNew()}
		}
		if l, idx, ok := fromPoly(pj.tsks.Poly, qs).diff(w.expAgg[j]); !ok {
			return h.Failf("C15:AggregateShares:value", "epoch %d: aggregated share of party %d (mode %d, order %v) differs from the sum of the received shares (limb %d coeff %d)", epoch, j, mode, order, l, idx)
		}
	}
	// the received shares are inputs of the aggregation: they must be intact
	for i := range shares {
		for j := range shares[i] {
			if _, _, ok := fromPoly(shares[i][j].Poly, qs).diff(wantShare[i][j]); !ok {
				return h.Failf("C15:AggregateShares:input-modified", "epoch %d: the share of party %d for party %d was modified by the aggregation (mode %d)", epoch, i, j, c.AggMode[j])
			}
		}
	}
	return nil
}

// additive derives the additive share of party j for the active list l (points act) with the party's combiner number
// which, into a fresh or the party's re-used receiver.
func (w *world) additive(j, which int, act []multiparty.ShamirPublicPoint) (vec, *rlwe.SecretKey, error) {
	p := w.P[j]
	out := p.out
	if !w.c.ReuseOut || out == nil {
		out = rlwe.NewSecretKey(w.params)
	}
	in := append([]multiparty.ShamirPublicPoint(nil), act...)
	if err := p.cmb[which].GenAdditiveShare(in, p.pt, p.tsks, out); err != nil {
		return nil, nil, err
	}
	if !samePts(in, act) {
		return nil, nil, h.Failf("C15:GenAdditiveShare:actives-modified", "the list of active points was modified by GenAdditiveShare")
	}
	return fromPoly(out.Value, w.qs), out, nil
}

func (w *world) short() error {
	c, P := w.c, w.P
	for k, l := range c.Short {
		own := c.ShortOwner[k]
		out := rlwe.NewSecretKey(w.params)
		var act []multiparty.ShamirPublicPoint
		if len(l) > 0 || k%2 == 0 { // also exercises the nil slice
			act = ptsOf(c, l)
		}
		for which := 0; which < 2; which++ {
			if err := P[own].cmb[which].GenAdditiveShare(act, P[own].pt, P[own].tsks, out); err == nil {
				return h.Failf("C15:GenAdditiveShare:too-few-accepted", "request with %d active parties accepted, threshold is %d (combiner built %s its own point)", len(l), c.T, []string{"with", "without"}[which])
			}
		}
	}
	return nil
}

func runCase(c Case, rec *h.Rec) error {
	if err := validCase(c); err != nil {
		return fmt.Errorf("bad case: %v", err)
	}
	params, err := c.Params.Build()
	if err != nil {
		return fmt.Errorf("bad case: parameters: %v", err)
	}
	qs := c.moduli()
	ringQP := params.RingQP()
	n := params.N()
	w := &world{c: c, params: params, qs: qs, n: n}

	// ---- long-lived objects: one Thresholdizer and two Combiners per party, created once -------------------------
	kgen := rlwe.NewKeyGenerator(params)
	rng := h.NewSplitMix(c.Seed ^ 0xc15)
	w.P = make([]*party, c.N)
	for i := range w.P {
		w.P[i] = &party{thr: multiparty.NewThresholdizer(params), pt: multiparty.ShamirPublicPoint(c.Points[i]), out: rlwe.NewSecretKey(params)}
	}
	for i, p := range w.P {
		for which, l := range [][]int{c.Others[i], without(c.Others[i], i)} {
			others := ptsOf(c, l)
			snap := append([]multiparty.ShamirPublicPoint(nil), others...)
			p.cmb[which] = multiparty.NewCombiner(params, p.pt, others, c.T)
			if !samePts(others, snap) {
				return h.Failf("C15:NewCombiner:others-modified", "the list of points given to NewCombiner was modified")
			}
		}
	}
	P := w.P

	lists := c.Lists
	if c.AllLists {
		lists = orderedLists(c.N, c.T)
	}
	nonIdentity := false
	sets := map[string]bool{}
	var conseqShares []*rlwe.SecretKey
	epochs := c.Epochs
	if epochs < 1 {
		epochs = 1
	}

	for epoch := 0; epoch < epochs; epoch++ {
		if err := w.setup(epoch, rng, kgen); err != nil {
			return err
		}
		ideal, expAgg := w.ideal, w.expAgg

		if c.ShortFirst {
			if err := w.short(); err != nil {
				return err
			}
		}

		use := lists
		if epoch > 0 && len(lists) > 40 {
			// later epochs: a stride through the lists (the objects already have the full history of epoch 0)
			use = nil
			step := len(lists)/40 + 1
			for k := epoch % step; k < len(lists); k += step {
				use = append(use, lists[k])
			}
		}
		both := len(use) <= 130          // both combiners for every request, else alternate
		firstShare := map[string]vec{} // (set, party) -> additive share first seen in this epoch
		for li, l := range use {
			if !isIdentityPrefix(l) {
				nonIdentity = true
			}
			sk := setKey(l)
			sets[sk] = true
			act := ptsOf(c, l)
			sum := newVec(qs, n)
			recSk := rlwe.NewSecretKey(params)
			var outs []vec
			var keep []*rlwe.SecretKey
			for pos, j := range l {
				which := (li + pos) & 1
				v, out, err := w.additive(j, which, act)
				if err != nil {
					if _, isFail := err.(*h.Failure); isFail {
						return err
					}
					return h.Failf("C15:GenAdditiveShare:error", "request with exactly t=%d active parties refused (combiner built %s its own point): %v", c.T, []string{"with", "without"}[which], err)
				}
				if both {
					v2, _, err := w.additive(j, 1-which, act)
					if err != nil {
						if _, isFail := err.(*h.Failure); isFail {
							return err
						}
						return h.Failf("C15:GenAdditiveShare:error", "request with exactly t=%d active parties refused (combiner built %s its own point): %v", c.T, []string{"with", "without"}[1-which], err)
					}
					if lb, idx, ok := v.diff(v2); !ok {
						return h.Failf("C15:GenAdditiveShare:own-point-listed", "N=%d t=%d list %v: the additive share of party %d depends on whether its own point was listed in NewCombiner (limb %d coeff %d)", c.N, c.T, l, j, lb, idx)
					}
				}
				outs = append(outs, v)
				if c.Conseq && epoch == epochs-1 && li == c.ConseqList%len(use) {
					keep = append(keep, out.CopyNew())
				}
				sum = sum.add(v, qs)
				ringQP.Add(out.Value, recSk.Value, recSk.Value) // as lattigo's callers do
				key := fmt.Sprintf("%s/%d", sk, j)
				if prev, seen := firstShare[key]; !seen {
					firstShare[key] = v
				} else if lb, idx, ok := prev.diff(v); !ok {
					return h.Failf("C15:GenAdditiveShare:order-dependent", "additive share of party %d for the active set %s differs from the share derived by an earlier request for the same set (depends on the order of listing or on earlier requests; list %v, limb %d coeff %d)", j, sk, l, lb, idx)
				}
			}
			if lb, idx, ok := sum.diff(ideal); !ok {
				// diagnostics: which party deviates from t-out-of-N share x Lagrange coefficient
				diag := ""
				for k, j := range l {
					want := expAgg[j].mulScalars(lagrangeAtZero(c.Points, l, j, qs), qs)
					if _, _, same := outs[k].diff(want); !same {
						diag += fmt.Sprintf(" party %d deviates from share*lagrange;", j)
					}
				}
				return h.Failf("C15:GenAdditiveShare:sum", "epoch %d N=%d t=%d active list %v (points %v): sum of the additive shares differs from the ideal secret key at limb %d (q=%d) coeff %d: got %d want %d;%s", epoch, c.N, c.T, l, act, lb, qs[lb], idx, sum[lb][idx], ideal[lb][idx], diag)
			}
			if lb, idx, ok := fromPoly(recSk.Value, qs).diff(ideal); !ok {
				return h.Failf("C15:GenAdditiveShare:sum-ringqp", "sum of the additive shares by ringQP.Add differs from the ideal secret key at limb %d coeff %d", lb, idx)
			}
			if keep != nil {
				conseqShares = keep
			}
		}
		// the aggregated t-out-of-N shares must not have been modified by the requests
		for j, pj := range P {
			if _, _, ok := fromPoly(pj.tsks.Poly, qs).diff(expAgg[j]); !ok {
				return h.Failf("C15:GenAdditiveShare:input-modified", "aggregated share of party %d was modified by GenAdditiveShare", j)
			}
		}
		if !c.ShortFirst {
			if err := w.short(); err != nil {
				return err
			}
		}
	}

	if c.Probe {
		w.probes(rec)
	}

	if c.Conseq && conseqShares != nil {
		orig := make([]*rlwe.SecretKey, c.N)
		for i, p := range P {
			orig[i] = p.sk
		}
		if err := consequence(c, params, conseqShares, orig, rec); err != nil {
			return err
		}
	}

	// ---- classes ------------------------------------------------------------------------------------------------
	big := false
	for _, p := range c.Points {
		if p > 1<<32 {
			big = true
		}
	}
	mode := "sampled"
	if c.AllLists {
		mode = "all"
	}
	rec.Classf("N=%d", c.N)
	rec.Classf("t=%d", c.T)
	rec.Classf("points=%s", c.PointClass)
	rec.Classf("lists=%s", mode)
	rec.Classf("secret=%s", c.Secret)
	rec.Classf("limbs=%d+%d", len(c.Params.Q), len(c.Params.P))
	rec.Classf("epochs=%d", epochs)
	if c.ReuseOut {
		rec.Class("receivers=re-used")
	}
	if c.Params.CI {
		rec.Class("ring=ci")
	}
	if c.Serial {
		rec.Class("serial")
	}
	if c.Conseq {
		rec.Class("conseq")
	}
	if big {
		rec.Class("point>2^32")
	}
	zeroRes := false
	for _, p := range c.Points {
		for _, q := range qs {
			if p%q == 0 {
				zeroRes = true
			}
		}
	}
	if zeroRes {
		rec.Class("point=0 mod some prime")
	}
	if c.AllLists {
		// (N,t) pairs for which every ordered active list was enumerated in at least one case of this run
		h.SetExtra("TestPropThreshold", fmt.Sprintf("all_ordered_lists_enumerated/N=%d,t=%d", c.N, c.T), len(lists))
	}
	rec.Note("ordered_lists", len(lists))
	rec.Note("active_sets", len(sets))
	if (c.T < c.N && nonIdentity) || big {
		rec.NonTrivial(fmt.Sprintf("N=%d t=%d pts=%s big=%v lists=%s secret=%s limbs=%d+%d ci=%v logN=%d serial=%v conseq=%v evk=%v epochs=%d reuse=%v", c.N, c.T, c.PointClass, big, mode, c.Secret, len(c.Params.Q), len(c.Params.P), c.Params.CI, c.Params.LogN, c.Serial, c.Conseq, c.Conseq && c.Evk, epochs, c.ReuseOut))
	}
	return nil
}

// probes records (without judging) how the Combiner treats requests the property statement does not cover: an active
// point that was never given to NewCombiner, and lists with more than t entries (the statement says "exactly t").
func (w *world) probes(rec *h.Rec) {
	c, P := w.c, w.P
	outcome := func(f func() error) (res string) {
		defer func() {
			if r := recover(); r != nil {
				res = "panic"
			}
		}()
		if err := f(); err != nil {
			return "error"
		}
		return "accepted"
	}
	// unknown point: admissible (non-zero, distinct from every party modulo every prime) but never listed
	if c.T >= 2 {
		pts := append([]uint64(nil), c.Points...)
		pts = append(pts, 0)
		for pts[c.N]++; !pointsAdmissible(pts, w.qs); pts[c.N]++ {
		}
		l := make([]int, c.T)
		for i := range l {
			l[i] = i
		}
		act := ptsOfPoints(pts, l)
		act[c.T-1] = multiparty.ShamirPublicPoint(pts[c.N])
		out := rlwe.NewSecretKey(w.params)
		rec.Class("probe:unlisted-active-point=" + outcome(func() error { return P[0].cmb[0].GenAdditiveShare(act, P[0].pt, P[0].tsks, out) }))
	}
	// longer list: all N parties listed although t < N
	if c.T < c.N {
		all := make([]int, c.N)
		for i := range all {
			all[i] = i
		}
		act := ptsOf(c, all)
		for _, j := range []int{0, c.N - 1} { // party 0 is among the first t, party N-1 is not
			out := rlwe.NewSecretKey(w.params)
			res := outcome(func() error { return P[j].cmb[0].GenAdditiveShare(act, P[j].pt, P[j].tsks, out) })
			if res == "accepted" {
				want := w.expAgg[j].mulScalars(lagrangeAtZero(c.Points, all[:c.T], j, w.qs), w.qs)
				if j >= c.T {
					want = w.expAgg[j].mulScalars(lagrangeAtZero(c.Points, append(append([]int(nil), all[:c.T]...), j), j, w.qs), w.qs)
				}
				if _, _, ok := fromPoly(out.Value, w.qs).diff(want); ok {
					res += ",share=lagrange-over-first-t"
				} else {
					res += ",share=other"
				}
			}
			where := "caller-in-first-t"
			if j >= c.T {
				where = "caller-not-in-first-t"
			}
			rec.Class("probe:longer-list," + where + "=" + res)
		}
	}
}

var propThreshold = h.NewProp("TestPropThreshold", h.Budget{Quick: 8000, Thorough: 120000}, genCase, runCase)

func TestPropThreshold(t *testing.T) { propThreshold.Check(t) }
