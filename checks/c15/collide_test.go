package c15

import (
	"fmt"
	"math/bits"
	"testing"

	"verif/internal/h"

	"github.com/tuneinsight/lattigo/v6/core/rlwe"
	"github.com/tuneinsight/lattigo/v6/multiparty"
	"pgregory.net/rapid"
)

// CollideCase: public points that are distinct non-zero integers (what the property statement and the package README
// ask for) but two of them, A and B, are congruent modulo one prime of the chain. Shamir sharing then has no solution in
// that CRT component whenever A and B are both active; every other active set is unaffected.
type CollideCase struct {
	Params h.RLWESpec `json:"params"`
	Seed   uint64     `json:"seed"`
	N      int        `json:"n"`
	T      int        `json:"t"`
	Points []uint64   `json:"points"`
	A      int        `json:"a"`
	B      int        `json:"b"`
	Prime  int        `json:"prime"` // index into Q||P of the prime modulo which points[A] == points[B]
}

func (c CollideCase) RandSeed() uint64 { return c.Seed }

// admissibleExcept: non-zero, pairwise distinct modulo every prime, except that the pair (a,b) is only required to be
// distinct as integers.
func admissibleExcept(points []uint64, qs []uint64, a, b int) bool {
	for i, x := range points {
		if x == 0 {
			return false
		}
		for j, y := range points[:i] {
			if (i == a && j == b) || (i == b && j == a) {
				if x == y {
					return false
				}
				continue
			}
			for _, q := range qs {
				if x%q == y%q {
					return false
				}
			}
		}
	}
	return true
}

func genCollide(t *rapid.T) CollideCase {
	var c CollideCase
	c.Params = h.GenRLWESpec(t, h.RLWEOpts{MinLogN: 4, MaxLogN: 5, MinQ: 1, MaxQ: 3, MinP: 0, MaxP: 2, MinBits: 2, MaxBits: 60, AllowCI: true, DefaultDists: true})
	c.Seed = rapid.Uint64().Draw(t, "seed")
	c.N = rapid.IntRange(2, 5).Draw(t, "n")
	c.T = rapid.IntRange(2, c.N).Draw(t, "t")
	qs := append(append([]uint64(nil), c.Params.Q...), c.Params.P...)
	c.Prime = rapid.IntRange(0, len(qs)-1).Draw(t, "prime")
	q := qs[c.Prime]
	c.A = rapid.IntRange(0, c.N-1).Draw(t, "a")
	c.B = (c.A + rapid.IntRange(1, c.N-1).Draw(t, "bOff")) % c.N
	kind := rapid.IntRange(0, 2).Draw(t, "kind")
	c.Points = make([]uint64, c.N)
	for i := range c.Points {
		switch kind {
		case 0:
			c.Points[i] = uint64(i + 1)
		case 1:
			c.Points[i] = uint64(rapid.Uint32().Draw(t, fmt.Sprintf("p%d", i)))
		default:
			c.Points[i] = rapid.Uint64().Draw(t, fmt.Sprintf("p%d", i))
		}
	}
	// constructive fix-up: all points but B admissible, then B = A + k*q for the first k that keeps B admissible with
	// respect to every other party
	for i := range c.Points {
		for guard := 0; ; guard++ {
			if guard > 1<<20 {
				t.Fatalf("no admissible point")
			}
			if pointsAdmissible(c.Points[:i+1], qs) {
				break
			}
			c.Points[i]++
		}
	}
	k0 := uint64(rapid.IntRange(1, 8).Draw(t, "k"))
	for k := k0; ; k++ {
		if k > k0+(1<<16) {
			t.Fatalf("no colliding point")
		}
		hi, lo := bits.Mul64(k, q)
		var b uint64
		if s, carry := bits.Add64(c.Points[c.A], lo, 0); hi == 0 && carry == 0 {
			b = s
		} else if hi == 0 && c.Points[c.A] > lo {
			b = c.Points[c.A] - lo
		} else {
			continue
		}
		c.Points[c.B] = b
		if admissibleExcept(c.Points, qs, c.A, c.B) {
			break
		}
	}
	return c
}

func runCollide(c CollideCase, rec *h.Rec) error {
	qs := append(append([]uint64(nil), c.Params.Q...), c.Params.P...)
	if c.N < 2 || c.N > 6 || c.T < 2 || c.T > c.N || len(c.Points) != c.N || c.A == c.B || c.A < 0 || c.B < 0 || c.A >= c.N || c.B >= c.N ||
		c.Prime < 0 || c.Prime >= len(qs) || !admissibleExcept(c.Points, qs, c.A, c.B) || c.Points[c.A]%qs[c.Prime] != c.Points[c.B]%qs[c.Prime] {
		return fmt.Errorf("bad case")
	}
	params, err := c.Params.Build()
	if err != nil {
		return fmt.Errorf("bad case: parameters: %v", err)
	}
	n := params.N()
	id := make([]int, c.N)
	for i := range id {
		id[i] = i
	}
	inner := Case{Params: c.Params, Seed: c.Seed, N: c.N, T: c.T, Points: c.Points, Secret: "keygen", Epochs: 1}
	for i := 0; i < c.N; i++ {
		inner.Others = append(inner.Others, id)
		inner.AggOrder = append(inner.AggOrder, id)
		inner.AggMode = append(inner.AggMode, 0)
	}
	w := &world{c: inner, params: params, qs: qs, n: n}
	w.P = make([]*party, c.N)
	for i := range w.P {
		w.P[i] = &party{thr: multiparty.NewThresholdizer(params), pt: multiparty.ShamirPublicPoint(c.Points[i])}
	}
	for i, p := range w.P {
		p.cmb[0] = multiparty.NewCombiner(params, p.pt, ptsOf(inner, id), c.T)
		p.cmb[1] = multiparty.NewCombiner(params, p.pt, ptsOf(inner, without(id, i)), c.T)
	}
	if err := w.setup(0, h.NewSplitMix(c.Seed), rlwe.NewKeyGenerator(params)); err != nil {
		return err
	}

	const knownKey = "C15:GenAdditiveShare:points-collide-mod-prime:silent-wrong-key"
	affected, refused, silent := 0, 0, 0
	for li, l := range orderedLists(c.N, c.T) {
		hasA, hasB := false, false
		for _, j := range l {
			hasA = hasA || j == c.A
			hasB = hasB || j == c.B
		}
		act := ptsOf(inner, l)
		sum := newVec(qs, n)
		var reqErr error
		for pos, j := range l {
			v, _, err := w.additive(j, (li+pos)&1, act)
			if err != nil {
				if _, isFail := err.(*h.Failure); isFail {
					return err
				}
				reqErr = err
				break
			}
			sum = sum.add(v, qs)
		}
		if !(hasA && hasB) {
			// the colliding parties are not both active: the statement applies without restriction
			if reqErr != nil {
				return h.Failf("C15:collide:unaffected-list:error", "list %v does not contain both colliding parties (%d,%d) but was refused: %v", l, c.A, c.B, reqErr)
			}
			if lb, idx, ok := sum.diff(w.ideal); !ok {
				return h.Failf("C15:collide:unaffected-list:sum", "N=%d t=%d list %v (points %v) does not contain both colliding parties (%d,%d) but the additive shares do not sum to the ideal key (limb %d q=%d coeff %d)", c.N, c.T, l, act, c.A, c.B, lb, qs[lb], idx)
			}
			continue
		}
		affected++
		if reqErr != nil {
			refused++
			continue
		}
		if _, _, ok := sum.diff(w.ideal); ok {
			continue // cannot happen mathematically; not an error if it does
		}
		silent++
		msg := fmt.Sprintf("N=%d t=%d points %v: parties %d and %d have distinct non-zero public points that are congruent modulo %d; active list %v is accepted without error and the additive shares do not sum to the ideal secret key", c.N, c.T, c.Points, c.A, c.B, qs[c.Prime], l)
		if !rec.Known(knownKey, msg) {
			return h.Failf(knownKey, "%s", msg)
		}
	}
	switch {
	case silent > 0:
		rec.Class("known=colliding points accepted, wrong key")
	case refused == affected:
		rec.Class("colliding points refused with an error")
	}
	rec.Classf("N=%d", c.N)
	rec.Classf("t=%d", c.T)
	pb := bits.Len64(qs[c.Prime])
	sz := "prime<=32bit"
	if pb > 32 {
		sz = "prime>32bit"
	}
	rec.Class(sz)
	where := "collision mod Q"
	if c.Prime >= len(c.Params.Q) {
		where = "collision mod P"
	}
	rec.Class(where)
	if affected > 0 {
		rec.NonTrivial(fmt.Sprintf("N=%d t=%d %s %s limbs=%d+%d ci=%v logN=%d", c.N, c.T, sz, where, len(c.Params.Q), len(c.Params.P), c.Params.CI, c.Params.LogN))
	}
	return nil
}

var propCollide = h.NewProp("TestPropCollidingPoints", h.Budget{Quick: 600, Thorough: 12000}, genCollide, runCollide)

func TestPropCollidingPoints(t *testing.T) { propCollide.Check(t) }
