package c03

import (
	"errors"
	"fmt"
	"math"
	"math/big"
	"math/bits"
	"testing"

	"verif/internal/h"

	"github.com/tuneinsight/lattigo/v6/core/rlwe"
	"github.com/tuneinsight/lattigo/v6/ring"
	"github.com/tuneinsight/lattigo/v6/ring/ringqp"
	"github.com/tuneinsight/lattigo/v6/utils/sampling"
	"pgregory.net/rapid"
)

func TestMain(m *testing.M) { h.Main(m, "C03") }

func TestReplay(t *testing.T) { h.ReplayAll(t) }

// ---------------------------------------------------------------------------------------------------------------
// parameter generation
// ---------------------------------------------------------------------------------------------------------------

func maxLogN() int {
	if h.Thorough() {
		return 11
	}
	return 9
}

// genSpec draws an RLWE literal: log2 N in 4..7 (thorough ..9), 1-4 Q primes and 0-2 P primes of 12..60 bits (sizes
// biased to the extremes, independently generated), standard or conjugate-invariant ring, all secret / error
// distributions of h.GenDist, both NTT flags.
func genSpec(t *rapid.T, minP int) h.RLWESpec {
	s := h.GenRLWESpec(t, h.RLWEOpts{MinLogN: 4, MaxLogN: maxLogN(), MinQ: 1, MaxQ: 4, MinP: minP, MaxP: 2, MinBits: 12, MaxBits: 60, AllowCI: true})
	// h.GenDist draws Gaussian and Ternary{P} errors; the fixed-Hamming-weight ternary error is added here
	if rapid.IntRange(0, 11).Draw(t, "xeSparse") == 0 {
		n := s.N()
		hs := []int{1, n / 4, n / 2, n}
		s.Xe = h.DistSpec{Kind: "ternaryH", H: hs[rapid.IntRange(0, len(hs)-1).Draw(t, "xeH")]}
	}
	// Gaussians whose declared Bound is tight (h.GenDist only draws Bound = 6 Sigma, where the truncation never acts):
	// Bound/Sigma in {0.5, 1, 1.25, 2, 3, 6} x Sigma in {1, 3.2, 8, 20}, and Bound = 1 whatever Sigma.
	tight := func(label string) h.DistSpec {
		sig := []float64{1, 3.2, 8, 20}[rapid.IntRange(0, 3).Draw(t, label+"Sigma")]
		k := rapid.IntRange(0, 6).Draw(t, label+"Ratio")
		if k == 6 {
			return h.DistSpec{Kind: "gauss", Sigma: sig, Bound: 1}
		}
		return h.DistSpec{Kind: "gauss", Sigma: sig, Bound: sig * []float64{0.5, 1, 1.25, 2, 3, 6}[k]}
	}
	if rapid.IntRange(0, 3).Draw(t, "xeTight") == 0 {
		s.Xe = tight("xe")
	}
	if rapid.IntRange(0, 7).Draw(t, "xsTight") == 0 {
		s.Xs = tight("xs")
	}
	return s
}

func sizeClass(qs []uint64) string {
	lo, hi := 64, 0
	for _, q := range qs {
		b := bits.Len64(q)
		if b < lo {
			lo = b
		}
		if b > hi {
			hi = b
		}
	}
	c := func(b int) string {
		switch {
		case b <= 20:
			return "tiny"
		case b <= 45:
			return "mid"
		default:
			return "big"
		}
	}
	if c(lo) == c(hi) {
		return c(lo)
	}
	return c(lo) + "-" + c(hi)
}

func levelClass(l, max int) string {
	switch {
	case l == max:
		return "max"
	case l == 0:
		return "0"
	default:
		return "mid"
	}
}

func specClass(s h.RLWESpec) string {
	rt := "std"
	if s.CI {
		rt = "ci"
	}
	return fmt.Sprintf("N=%d/%s/nQ=%d/nP=%d/%s/xs=%s/xe=%s/ntt=%v", s.N(), rt, len(s.Q), len(s.P), sizeClass(s.Q), distClass(s.Xs), distClass(s.Xe), s.NTT)
}

func distClass(d h.DistSpec) string {
	switch d.Kind {
	case "ternaryP":
		return fmt.Sprintf("tP%.2f", d.P)
	case "ternaryH":
		return "tH"
	}
	return fmt.Sprintf("g%.1f/b%.2fs", d.Sigma, d.Bound/d.Sigma)
}

// ---------------------------------------------------------------------------------------------------------------
// keys and secrets
// ---------------------------------------------------------------------------------------------------------------

// secretInts returns the small integer coefficients of a secret key, read from limb 0 of Q (centred), and checks
// that every other Q and P limb carries the residues of the same small integers.
func secretInts(params rlwe.Parameters, sk *rlwe.SecretKey) ([]int64, error) {
	rqp := params.RingQP().AtLevel(sk.LevelQ(), sk.LevelP())
	tmp := *sk.Value.CopyNew()
	rqp.INTT(tmp, tmp)
	rqp.IMForm(tmp, tmp)
	n := params.N()
	out := make([]int64, n)
	q0 := params.Q()[0]
	for j := 0; j < n; j++ {
		v := tmp.Q.Coeffs[0][j]
		if v > q0/2 {
			out[j] = -int64(q0 - v)
		} else {
			out[j] = int64(v)
		}
	}
	check := func(limb []uint64, q uint64, name string, i int) error {
		for j := 0; j < n; j++ {
			var want uint64
			if out[j] < 0 {
				want = q - uint64(-out[j])%q
				if want == q {
					want = 0
				}
			} else {
				want = uint64(out[j]) % q
			}
			if limb[j] != want {
				return fmt.Errorf("secret key limb %s[%d] coefficient %d is %d, limb Q[0] says %d", name, i, j, limb[j], out[j])
			}
		}
		return nil
	}
	for i := 1; i <= sk.LevelQ(); i++ {
		if err := check(tmp.Q.Coeffs[i], params.Q()[i], "Q", i); err != nil {
			return nil, err
		}
	}
	for i := 0; i <= sk.LevelP(); i++ {
		if err := check(tmp.P.Coeffs[i], params.P()[i], "P", i); err != nil {
			return nil, err
		}
	}
	return out, nil
}

type secretStats struct {
	l1, l2sq float64
	maxAbs   int64
	zero     bool
}

func statsOf(s []int64) (st secretStats) {
	st.zero = true
	for _, v := range s {
		a := v
		if a < 0 {
			a = -a
		}
		st.l1 += float64(a)
		st.l2sq += float64(a) * float64(a)
		if a > st.maxAbs {
			st.maxAbs = a
		}
		if v != 0 {
			st.zero = false
		}
	}
	return
}

func equalInts(a, b []int64) bool {
	for i := range a {
		if a[i] != b[i] {
			return false
		}
	}
	return true
}

// checkSecretDomain asserts that the secret respects the declared distribution's hard bounds.
func checkSecretDomain(spec h.RLWESpec, s []int64, key string) error {
	st := statsOf(s)
	if float64(st.maxAbs) > spec.Xs.AbsBound() {
		return h.Failf(key+":secret-out-of-declared-bound", "secret coefficient of magnitude %d, declared distribution %+v allows %v", st.maxAbs, spec.Xs, spec.Xs.AbsBound())
	}
	if spec.Xs.Kind == "ternaryH" {
		hw := 0
		for _, v := range s {
			if v != 0 {
				hw++
			}
		}
		want := spec.Xs.H
		if want > spec.N() {
			want = spec.N()
		}
		if hw != want {
			return h.Failf(key+":secret-hamming-weight", "secret has %d non-zero coefficients, declared H=%d", hw, spec.Xs.H)
		}
	}
	return nil
}

// ---------------------------------------------------------------------------------------------------------------
// noise bounds (derived from the DECLARED distributions, see assumptions.txt)
// ---------------------------------------------------------------------------------------------------------------

// subGaussSigma is a sub-Gaussian parameter of one error coefficient: a symmetric truncated Gaussian of parameter
// sigma rounded to the nearest integer is sub-Gaussian with parameter sigma+1/2 (Hoelder: rounding error is mean-zero
// and bounded by 1/2); a ternary variable is bounded by 1, hence sub-Gaussian with parameter 1 (Hoeffding).
func subGaussSigma(d h.DistSpec) float64 {
	if d.Kind == "gauss" {
		// a variable bounded by B is also sub-Gaussian with parameter B (Hoeffding)
		return math.Min(d.Sigma+0.5, d.AbsBound())
	}
	return 1
}

// worstL2sq is a hard bound on the squared 2-norm of a polynomial drawn from d.
func worstL2sq(d h.DistSpec, n int) float64 {
	switch d.Kind {
	case "ternaryH":
		if d.H < n {
			return float64(d.H)
		}
		return float64(n)
	case "gauss":
		return float64(n) * d.AbsBound() * d.AbsBound()
	}
	return float64(n)
}

func worstL1(d h.DistSpec, n int) float64 {
	v := h.SecretL1(d, n)
	if d.Kind == "ternaryH" && d.H > n {
		v = float64(n)
	}
	return v
}

// envK is the number of sub-Gaussian standard deviations of the probabilistic envelope: 2*exp(-k^2/2) = 2^-102.
const envK = 12.0

// pkNoiseBound bounds |u*e_pk + e0 + e1*s| per coefficient, where u ~ Xs (unknown), e* ~ Xe and s is the actual secret.
// In the conjugate-invariant ring a product coefficient is a coefficient of the product of the unfolded polynomials
// (degree 2N), whose 1-norm is at most twice and squared 2-norm at most twice that of the folded one => factor 2
// on 1-norms, factor 4 (Cauchy-Schwarz on pairs) on squared 2-norms.
func pkNoiseBound(spec h.RLWESpec, s secretStats) float64 {
	n := spec.N()
	be := spec.Xe.AbsBound()
	c1, c2 := 1.0, 1.0
	if spec.CI {
		c1, c2 = 2, 4
	}
	hard := be * (c1*worstL1(spec.Xs, n) + c1*s.l1 + 1)
	env := envK * subGaussSigma(spec.Xe) * math.Sqrt(c2*(worstL2sq(spec.Xs, n)+s.l2sq)+1)
	return math.Min(hard, env)
}

// modDownSlack bounds the rounding term d0 + d1*s of the division by P: |d| <= 1/2 (exact rounding) + 1 (basis
// extension slack of ModDownQPtoQ, property C02).
func modDownSlack(spec h.RLWESpec, s secretStats) float64 {
	c1 := 1.0
	if spec.CI {
		c1 = 2
	}
	return 1.5 * (1 + c1*s.l1)
}

func bigOfFloat(f float64) *big.Int {
	b, _ := new(big.Float).SetFloat64(math.Ceil(f)).Int(nil)
	return b
}

// ---------------------------------------------------------------------------------------------------------------
// polynomials <-> integers
// ---------------------------------------------------------------------------------------------------------------

// centred reconstructs the centred integer coefficients of a coefficient-domain, non-Montgomery polynomial given by
// its limbs.
func centred(limbs [][]uint64, qs []uint64) ([]*big.Int, *big.Int) {
	Q := h.ProdU(qs)
	return h.VecCenter(h.CRT(limbs, qs), Q), Q
}

func qpLimbs(p ringqp.Poly, lq, lp int) [][]uint64 {
	var out [][]uint64
	out = append(out, p.Q.Coeffs[:lq+1]...)
	if lp >= 0 {
		out = append(out, p.P.Coeffs[:lp+1]...)
	}
	return out
}

func qpModuli(params rlwe.Parameters, lq, lp int) []uint64 {
	out := append([]uint64(nil), params.Q()[:lq+1]...)
	if lp >= 0 {
		out = append(out, params.P()[:lp+1]...)
	}
	return out
}

func bigToFloat(x *big.Int) float64 {
	f, _ := new(big.Float).SetInt(x).Float64()
	return f
}

// meanAbsAndMax returns sum |x_i| and max |x_i|.
func sumAbsAndMax(v []*big.Int) (*big.Int, *big.Int) {
	s := new(big.Int)
	t := new(big.Int)
	for _, x := range v {
		s.Add(s, t.Abs(x))
	}
	return s, h.InfNorm(v)
}

// fillPoly writes a coefficient pattern (raw limb data at the polynomial's level).
func fillPoly(r *ring.Ring, p ring.Poly, pattern string, rng *h.SplitMix) {
	lvl := p.Level()
	qs := r.ModuliChain()[:lvl+1]
	n := r.N()
	switch pattern {
	case "zero":
		for i := range qs {
			for j := 0; j < n; j++ {
				p.Coeffs[i][j] = 0
			}
		}
	case "max":
		for i, q := range qs {
			for j := 0; j < n; j++ {
				p.Coeffs[i][j] = q - 1
			}
		}
	case "qhalf":
		// the integers +-floor(Q/2), alternating
		Q := h.ProdU(qs)
		half := new(big.Int).Rsh(Q, 1)
		v := make([]*big.Int, n)
		for j := range v {
			if j&1 == 0 {
				v[j] = half
			} else {
				v[j] = new(big.Int).Neg(half)
			}
		}
		l := h.ToRNS(v, qs)
		for i := range qs {
			copy(p.Coeffs[i], l[i])
		}
	case "onehot":
		for i := range qs {
			for j := 0; j < n; j++ {
				p.Coeffs[i][j] = 0
			}
		}
		k := rng.Intn(n)
		for i, q := range qs {
			p.Coeffs[i][k] = q - 1
		}
	case "small":
		// the same small signed integer in every limb
		for j := 0; j < n; j++ {
			v := int64(rng.Intn(33)) - 16
			for i, q := range qs {
				if v < 0 {
					p.Coeffs[i][j] = q - uint64(-v)
				} else {
					p.Coeffs[i][j] = uint64(v)
				}
			}
		}
	default: // uniform
		for i, q := range qs {
			for j := 0; j < n; j++ {
				p.Coeffs[i][j] = rng.Uint64() % q
			}
		}
	}
}

var ptPatterns = []string{"uniform", "uniform", "zero", "max", "qhalf", "onehot", "small"}

func keyedPRNG(seed uint64, label string) *sampling.KeyedPRNG {
	return h.KeyedPRNG(fmt.Sprintf("c03-%s-%d", label, seed))
}

// zeroProbLog2 is log2 of the probability that a polynomial drawn from d is identically zero (-inf => impossible).
func zeroProbLog2(d h.DistSpec, n int) float64 {
	switch d.Kind {
	case "ternaryP":
		return float64(n) * math.Log2(1-d.P)
	case "ternaryH":
		return math.Inf(-1)
	}
	// rounded truncated Gaussian: exact P(0)
	return float64(n) * math.Log2(gaussStats(d).p0)
}

func metaEqual(a, b *rlwe.MetaData) bool {
	if a == nil || b == nil {
		return a == b
	}
	if a.IsNTT != b.IsNTT || a.IsMontgomery != b.IsMontgomery || a.IsBatched != b.IsBatched || a.IsBitReversed != b.IsBitReversed {
		return false
	}
	if a.LogDimensions != b.LogDimensions {
		return false
	}
	if a.Scale.Value.Cmp(&b.Scale.Value) != 0 || a.Scale.Value.Prec() != b.Scale.Value.Prec() {
		return false
	}
	if (a.Scale.Mod == nil) != (b.Scale.Mod == nil) {
		return false
	}
	if a.Scale.Mod != nil && a.Scale.Mod.Cmp(b.Scale.Mod) != 0 {
		return false
	}
	return true
}

func metaString(m *rlwe.MetaData) string {
	if m == nil {
		return "<nil>"
	}
	mod := "nil"
	if m.Scale.Mod != nil {
		mod = m.Scale.Mod.String()
	}
	return fmt.Sprintf("{scale=%s mod=%s dims=%v batched=%v bitrev=%v ntt=%v mont=%v}", m.Scale.Value.Text('g', 20), mod, m.LogDimensions, m.IsBatched, m.IsBitReversed, m.IsNTT, m.IsMontgomery)
}

// MetaSpec is the plain-data plaintext metadata of a case.
type MetaSpec struct {
	ScaleKind int  `json:"scaleKind"` // 0: 1, 1: 2^40, 2: 3.75, 3: 2^90+1, 4: value 7 with modulus 65537
	Rows      int  `json:"rows"`
	Cols      int  `json:"cols"`
	Batched   bool `json:"batched"`
	BitRev    bool `json:"bitrev"`
}

func genMeta(t *rapid.T, logN int, label string) MetaSpec {
	return MetaSpec{
		ScaleKind: rapid.IntRange(0, 4).Draw(t, label+"scaleKind"),
		Rows:      rapid.IntRange(0, 1).Draw(t, label+"rows"),
		Cols:      rapid.IntRange(0, logN-1).Draw(t, label+"cols"),
		Batched:   rapid.Bool().Draw(t, label+"batched"),
		BitRev:    rapid.Bool().Draw(t, label+"bitrev"),
	}
}

func (m MetaSpec) apply(md *rlwe.MetaData) {
	switch m.ScaleKind {
	case 0:
		md.Scale = rlwe.NewScale(1)
	case 1:
		md.Scale = rlwe.NewScale(math.Exp2(40))
	case 2:
		md.Scale = rlwe.NewScale(3.75)
	case 3:
		x := new(big.Int).Lsh(big.NewInt(1), 90)
		x.Add(x, big.NewInt(1))
		md.Scale = rlwe.NewScale(x)
	default:
		md.Scale = rlwe.NewScaleModT(7, 65537)
	}
	md.LogDimensions = ring.Dimensions{Rows: m.Rows, Cols: m.Cols}
	md.IsBatched = m.Batched
	md.IsBitReversed = m.BitRev
}

func (m MetaSpec) isDefault() bool {
	return m.ScaleKind == 0 && m.Rows == 0 && m.Cols == 0 && !m.Batched && !m.BitRev
}

// keyTernaryAtLevel: ring.TernarySampler.AtLevel returns a sampler whose sample function is still bound to the
// receiver it was copied from (full level), so sampling an error polynomial with a ternary Xe into a polynomial of a
// lower level indexes past its limbs.
const keyTernaryAtLevel = "C03:xe=ternary:level<max:panic@TernarySampler"

// guard runs f; a panic is converted into the listed finding when the case is in its input class (ternary error
// distribution and a level below the maximum), otherwise it is re-raised for the harness to report.
func guard(spec h.RLWESpec, belowMax bool, rec *h.Rec, f func() error) (skip bool, err error) {
	defer func() {
		if r := recover(); r != nil {
			if spec.Xe.Kind == "gauss" || !belowMax {
				panic(r)
			}
			msg := fmt.Sprintf("panic: %v", r)
			if rec.Known(keyTernaryAtLevel, msg) {
				rec.Class("known=" + keyTernaryAtLevel)
				skip, err = true, nil
				return
			}
			err = h.Failf(keyTernaryAtLevel, "%s", msg)
		}
	}()
	return false, f()
}

var errSkip = errors.New("case skipped: listed finding")

// keySkDegree2: encryptZeroSk keeps the uniform mask in an internal buffer unless the target has degree exactly 1, so a
// degree-2 target receives c0 = -a*s + e (+pt) while c1, c2 are left as they were: not an encryption of anything.
const keySkDegree2 = "C03:sk-encryptor:degree2-target:mask-not-written"

// collisionBits is -log2 of the probability that two independent draws from d (degree n) coincide.
func collisionBits(d h.DistSpec, n int) float64 {
	switch d.Kind {
	case "ternaryP":
		return -float64(n) * math.Log2((1-d.P)*(1-d.P)+d.P*d.P/2)
	case "ternaryH":
		hw := d.H
		if hw > n {
			hw = n
		}
		lg, _ := math.Lgamma(float64(n + 1))
		l1, _ := math.Lgamma(float64(hw + 1))
		l2, _ := math.Lgamma(float64(n - hw + 1))
		return (lg-l1-l2)/math.Ln2 + float64(hw)
	}
	// rounded truncated Gaussian: exact sum of squared probabilities
	return -float64(n) * math.Log2(gaussStats(d).coll)
}

// keySparseErr: ring.TernarySampler.ReadAndAdd with a fixed Hamming weight zeroes every unselected coefficient instead
// of leaving it (suspected defect #1 of DESIGN.md, owned by C17). With Xe = Ternary{H} the coefficient-domain
// secret-key and P-less public-key paths add the error with ReadAndAdd, which wipes c0 (and c1).
const keySparseErr = "C03:xe=ternaryH:coefficient-domain:ReadAndAdd-wipes-ciphertext"

func sparseErrClass(spec h.RLWESpec, isNTT bool, path string) bool {
	return spec.Xe.Kind == "ternaryH" && !isNTT && (path == "sk" || path == "pk-nop")
}

// keySkDegree2Coeff: after e5d2496 the mask is written to ct.Value[1] for degree >= 1, but encryptZeroSkFromC1 still
// converts c1 back to the coefficient domain only `if ct.Degree() == 1`: for a degree-2, IsNTT=false target c1 stays
// in the NTT domain.
const keySkDegree2Coeff = "C03:sk-encryptor:degree2-target:coefficient-domain:c1-left-in-NTT-domain"

// keyDegree2Stale: neither encryption path writes (or clears) the components above 1 of the target.
const keyDegree2Stale = "C03:degree2-target:dirty:c2-not-cleared"

// errorReused decides whether c0 and c1 of a public-key zero-encryption WITHOUT division by P carry the same error
// polynomial. With pk = (b, a): c0 = u*b + e0, c1 = u*a + e1, so w = (c0-c1)/(b-a) = u + (e0-e1)/(b-a). For e0 = e1,
// w = u is a sample of Xs (|w|_inf <= its bound). For e0 != e1, (e0-e1)/(b-a) is a fixed non-zero polynomial times the
// inverse of the (uniform, key-dependent) b-a, and w is small only with probability about ((2B+1)/q)^N per limb.
// Applicable when: b-a is invertible (all NTT slots non-zero), two independent Xe samples coincide with probability
// < 2^-50, and N*log2(Q/(2B+1)) >= 60. Both readings of the Montgomery flag are tried.
func errorReused(params rlwe.Parameters, spec h.RLWESpec, lq, lp int, c0, c1 ringqp.Poly, pk *rlwe.PublicKey, isNTT bool) (reused, applicable bool) {
	n := params.N()
	bs := spec.Xs.AbsBound()
	if collisionBits(spec.Xe, n) < 50 {
		return false, false
	}
	qs := qpModuli(params, lq, lp)
	QP := h.ProdU(qs)
	if float64(n)*(float64(QP.BitLen()-1)-math.Log2(2*bs+1)) < 60 {
		return false, false
	}
	rqp := params.RingQP().AtLevel(lq, lp)
	d := rqp.NewPoly()
	rqp.Sub(c0, c1, d)
	if !isNTT {
		rqp.NTT(d, d)
	}
	g := rqp.NewPoly()
	rqp.Sub(pk.Value[0], pk.Value[1], g)
	rqp.IMForm(g, g)
	w := rqp.NewPoly()
	dl, gl, wl := qpLimbs(d, lq, lp), qpLimbs(g, lq, lp), qpLimbs(w, lq, lp)
	t := new(big.Int)
	for i, q := range qs {
		bq := h.BU(q)
		for j := 0; j < n; j++ {
			if gl[i][j]%q == 0 {
				return false, false
			}
			t.ModInverse(h.BU(gl[i][j]), bq)
			t.Mul(t, h.BU(dl[i][j]))
			wl[i][j] = t.Mod(t, bq).Uint64()
		}
	}
	rqp.INTT(w, w)
	raw, _ := centred(qpLimbs(w, lq, lp), qs)
	rqp.IMForm(w, w)
	dom, _ := centred(qpLimbs(w, lq, lp), qs)
	b := bigOfFloat(bs)
	return h.InfNorm(raw).Cmp(b) <= 0 || h.InfNorm(dom).Cmp(b) <= 0, true
}

// gaussPMF describes lattigo's discrete Gaussian as declared: |g|*Sigma for a standard normal g, rejected unless
// <= Bound, rounded half up, with a random sign.
type gaussPMF struct {
	p0   float64 // P(X = 0)
	coll float64 // sum_k P(X = k)^2
	vari float64 // Var X
}

func gaussStats(d h.DistSpec) gaussPMF {
	// P(|g| sigma in [a,b)) = erf(b/(sigma sqrt2)) - erf(a/(sigma sqrt2))
	cdf := func(x float64) float64 { return math.Erf(x / (d.Sigma * math.Sqrt2)) }
	z := cdf(d.Bound)
	var out gaussPMF
	if z <= 0 {
		return gaussPMF{p0: 1, coll: 1}
	}
	for k := 0; ; k++ {
		lo, hi := float64(k)-0.5, float64(k)+0.5
		if lo < 0 {
			lo = 0
		}
		if lo > d.Bound {
			break
		}
		if hi > d.Bound {
			hi = d.Bound
		}
		p := (cdf(hi) - cdf(lo)) / z
		if k == 0 {
			out.p0 = p
			out.coll += p * p
		} else {
			out.coll += p * p / 2 // two signs, p/2 each
			out.vari += p * float64(k) * float64(k)
		}
	}
	return out
}
