package c03

import (
	"fmt"
	"math"
	"math/big"
	"testing"

	"verif/internal/h"

	"github.com/tuneinsight/lattigo/v6/core/rlwe"
	"github.com/tuneinsight/lattigo/v6/ring"
	"github.com/tuneinsight/lattigo/v6/ring/ringqp"
	"pgregory.net/rapid"
)

// RTStep is one use of the session's encryptor and decryptor.
type RTStep struct {
	API      string   `json:"api"`      // "Encrypt" | "EncryptNew" | "EncryptZero" | "EncryptNil" | "EncryptZeroNew"
	Degree   int      `json:"degree"`   // degree of the target ciphertext (0,1,2)
	PtLevel  int      `json:"ptLevel"`  // level of the plaintext
	CtLevel  int      `json:"ctLevel"`  // level of the target ciphertext (before Encrypt)
	DecLevel int      `json:"decLevel"` // level of the plaintext receiving the decryption (-1: that of the ciphertext)
	IsNTT    bool     `json:"isNTT"`
	IsMont   bool     `json:"isMont"`
	Meta     MetaSpec `json:"meta"`
	Pattern  string   `json:"pattern"`
	Dirty    bool     `json:"dirty"`              // fresh target ciphertext / output plaintext pre-filled with junk
	DecRoute string   `json:"decRoute"`           // "Decrypt" | "DecryptNew" | "shallow" | "withkey"
	ReuseCt  bool     `json:"reuseCt,omitempty"`  // encrypt into the ciphertext object produced by the previous step
	ReuseOut bool     `json:"reuseOut,omitempty"` // decrypt into the plaintext object produced by the previous step
}

// RTCase: a session (parameters, keys, one encryptor obtained through a route, decryptors) and one to three uses of it;
// the first use is given by the embedded step, later uses by More (they may re-use the previous ciphertext / plaintext
// objects as receivers, which then have a real earlier life: other level, degree, flags, metadata).
type RTCase struct {
	Spec   h.RLWESpec `json:"spec"`
	Seed   uint64     `json:"seed"`
	Kind   string     `json:"kind"`  // "sk" | "pk"
	Route  string     `json:"route"` // how the encryptor is obtained
	PtSeed uint64     `json:"ptSeed"`
	RTStep
	More []RTStep `json:"more,omitempty"`
}

func (c RTCase) RandSeed() uint64 { return c.Seed }

var encRoutes = []string{"new", "shallow", "withkey-other", "nil-withkey", "kgen-withkey", "withprng", "withprng-shallow"}
var decRoutes = []string{"Decrypt", "DecryptNew", "shallow", "withkey"}

func genStep(t *rapid.T, spec h.RLWESpec, seededSk bool, later bool, label string) RTStep {
	var st RTStep
	L := len(spec.Q) - 1
	lvl := func(l string) int {
		switch rapid.IntRange(0, 3).Draw(t, label+l+"K") {
		case 0:
			return L
		case 1:
			return 0
		}
		return rapid.IntRange(0, L).Draw(t, label+l)
	}
	st.API = []string{"Encrypt", "Encrypt", "Encrypt", "Encrypt", "EncryptNew", "EncryptZero", "EncryptNil", "EncryptZeroNew"}[rapid.IntRange(0, 7).Draw(t, label+"api")]
	st.PtLevel = lvl("ptLevel")
	st.CtLevel = st.PtLevel
	switch rapid.IntRange(0, 5).Draw(t, label+"ctLevelK") {
	case 0:
		st.CtLevel = lvl("ctLevel")
	case 1, 2:
		// receiver of a strictly higher level than the plaintext (e.g. allocated once at the top level and re-used)
		if L > 0 {
			st.PtLevel = rapid.IntRange(0, L-1).Draw(t, label+"ptLevelLow")
			st.CtLevel = rapid.IntRange(st.PtLevel+1, L).Draw(t, label+"ctLevelHigh")
		}
	}
	st.DecLevel = -1
	switch rapid.IntRange(0, 5).Draw(t, label+"decLevelK") {
	case 0:
		st.DecLevel = lvl("decLevel")
	case 1:
		st.DecLevel = L // receiver at the top level, whatever the ciphertext
	}
	st.Degree = 1
	if st.API == "Encrypt" || st.API == "EncryptZero" || st.API == "EncryptNil" {
		switch rapid.IntRange(0, 5).Draw(t, label+"degree") {
		case 0:
			// a degree-0 target is the "compressed" form (c1 regenerated from the seeded PRNG): secret-key + WithPRNG only
			if seededSk {
				st.Degree = 0
			}
		case 1:
			st.Degree = 2
		}
	}
	st.IsNTT = rapid.Bool().Draw(t, label+"isNTT")
	st.IsMont = rapid.IntRange(0, 3).Draw(t, label+"isMont") == 0
	st.Meta = genMeta(t, spec.LogN, label)
	st.Pattern = ptPatterns[rapid.IntRange(0, len(ptPatterns)-1).Draw(t, label+"pattern")]
	st.Dirty = rapid.Bool().Draw(t, label+"dirty")
	st.DecRoute = decRoutes[rapid.IntRange(0, len(decRoutes)-1).Draw(t, label+"decRoute")]
	if later {
		st.ReuseCt = rapid.IntRange(0, 2).Draw(t, label+"reuseCt") != 0
		st.ReuseOut = rapid.Bool().Draw(t, label+"reuseOut")
	}
	return st
}

func genRT(t *rapid.T) RTCase {
	var c RTCase
	c.Spec = genSpec(t, 0)
	c.Seed = rapid.Uint64().Draw(t, "seed")
	if rapid.Bool().Draw(t, "pk") {
		c.Kind = "pk"
	} else {
		c.Kind = "sk"
	}
	c.Route = encRoutes[rapid.IntRange(0, len(encRoutes)-1).Draw(t, "route")]
	c.PtSeed = rapid.Uint64().Draw(t, "ptSeed")
	seededSk := c.Kind == "sk" && (c.Route == "withprng" || c.Route == "withprng-shallow")
	if c.Kind == "sk" && !seededSk && rapid.IntRange(0, 5).Draw(t, "forceSeeded") == 0 {
		c.Route, seededSk = "withprng", true
	}
	c.RTStep = genStep(t, c.Spec, seededSk, false, "")
	if rapid.Bool().Draw(t, "hasMore") {
		nm := rapid.IntRange(1, 2).Draw(t, "nMore")
		for i := 0; i < nm; i++ {
			c.More = append(c.More, genStep(t, c.Spec, seededSk, true, fmt.Sprintf("s%d_", i+1)))
		}
	}
	return c
}

// buildEncryptor obtains an encryptor for key through the named construction route.
func buildEncryptor(params rlwe.Parameters, route string, key rlwe.EncryptionKey, other rlwe.EncryptionKey, seed uint64) *rlwe.Encryptor {
	switch route {
	case "shallow":
		return rlwe.NewEncryptor(params, key).ShallowCopy()
	case "withkey-other":
		// an encryptor built for another key (of the other kind when available), then re-keyed
		return rlwe.NewEncryptor(params, other).WithKey(key)
	case "nil-withkey":
		return rlwe.NewEncryptor(params, nil).WithKey(key)
	case "kgen-withkey":
		return rlwe.NewKeyGenerator(params).WithKey(key)
	case "withprng":
		return rlwe.NewEncryptor(params, key).WithPRNG(keyedPRNG(seed, "a"))
	case "withprng-shallow":
		return rlwe.NewEncryptor(params, nil).ShallowCopy().WithKey(key).WithPRNG(keyedPRNG(seed, "a"))
	}
	return rlwe.NewEncryptor(params, key)
}

func buildDecryptor(params rlwe.Parameters, route string, sk, other *rlwe.SecretKey) *rlwe.Decryptor {
	switch route {
	case "shallow":
		return rlwe.NewDecryptor(params, sk).ShallowCopy()
	case "withkey":
		return rlwe.NewDecryptor(params, other).WithKey(sk)
	}
	return rlwe.NewDecryptor(params, sk)
}

func junkMeta(md *rlwe.MetaData, rng *h.SplitMix) {
	md.Scale = rlwe.NewScale(float64(rng.Intn(1000)) + 0.5)
	md.LogDimensions = ring.Dimensions{Rows: rng.Intn(2), Cols: rng.Intn(4)}
	md.IsBatched = rng.Intn(2) == 0
	md.IsBitReversed = rng.Intn(2) == 0
	md.IsNTT = rng.Intn(2) == 0
	md.IsMontgomery = rng.Intn(2) == 0
}

// diffCentred returns (a-b) as centred integers in the coefficient domain, under both readings of the Montgomery flag:
// raw (the stored words are the values) and domain (the stored words are values times 2^64).
func diffCentred(r *ring.Ring, a, b ring.Poly, isNTT bool) (raw, dom []*big.Int, Q *big.Int) {
	lvl := r.Level()
	d := r.NewPoly()
	r.Sub(a, b, d)
	if isNTT {
		r.INTT(d, d)
	}
	qs := r.ModuliChain()[:lvl+1]
	raw, Q = centred(d.Coeffs[:lvl+1], qs)
	r.IMForm(d, d)
	dom, _ = centred(d.Coeffs[:lvl+1], qs)
	return
}

// rtSession is the state shared by the steps of a case.
type rtSession struct {
	c       RTCase
	rec     *h.Rec
	params  rlwe.Parameters
	n, L    int
	sk, sk2 *rlwe.SecretKey
	pk      *rlwe.PublicKey
	sInts   []int64
	s2Ints  []int64
	sStat   secretStats
	key     rlwe.EncryptionKey
	enc     *rlwe.Encryptor
	decs    map[string]*rlwe.Decryptor
	decW    *rlwe.Decryptor
	aSamp   *ring.UniformSampler // regenerates the masks of a WithPRNG secret-key encryptor, in call order
	rng     *h.SplitMix
	path    string
	prevCt  *rlwe.Ciphertext
	prevOut *rlwe.Plaintext
	keyHash uint64
}

func hashPoly(x uint64, p ring.Poly) uint64 {
	for _, l := range p.Coeffs {
		for _, v := range l {
			x = (x ^ v) * 0x100000001b3
		}
	}
	return x
}

func (s *rtSession) hashKeys() uint64 {
	x := uint64(0xcbf29ce484222325)
	for _, k := range []*rlwe.SecretKey{s.sk, s.sk2} {
		x = hashPoly(x, k.Value.Q)
		x = hashPoly(x, k.Value.P)
	}
	if s.pk != nil {
		for _, v := range s.pk.Value {
			x = hashPoly(x, v.Q)
			x = hashPoly(x, v.P)
		}
	}
	return x
}

func hashCt(ct *rlwe.Ciphertext) uint64 {
	x := uint64(0xcbf29ce484222325)
	for _, v := range ct.Value {
		x = hashPoly(x, v)
	}
	return x
}

func (s *rtSession) decryptor(route string) *rlwe.Decryptor {
	if d, ok := s.decs[route]; ok {
		return d
	}
	d := buildDecryptor(s.params, route, s.sk, s.sk2)
	s.decs[route] = d
	return d
}

func runRT(c RTCase, rec *h.Rec) error {
	params, err := c.Spec.Build()
	if err != nil {
		return h.Failf("C03:params-rejected", "generated literal rejected: %v", err)
	}
	s := &rtSession{c: c, rec: rec, params: params, n: params.N(), L: params.MaxLevel(), decs: map[string]*rlwe.Decryptor{}}
	kgen := rlwe.NewKeyGenerator(params)
	s.sk = kgen.GenSecretKeyNew()
	s.sk2 = kgen.GenSecretKeyNew()
	if s.sInts, err = secretInts(params, s.sk); err != nil {
		return h.Failf("C03:GenSecretKey:limbs-inconsistent", "%v", err)
	}
	if s.s2Ints, err = secretInts(params, s.sk2); err != nil {
		return h.Failf("C03:GenSecretKey:limbs-inconsistent", "%v", err)
	}
	if err := checkSecretDomain(c.Spec, s.sInts, "C03:GenSecretKey"); err != nil {
		return err
	}
	s.sStat = statsOf(s.sInts)

	var other rlwe.EncryptionKey = s.sk2
	s.key = s.sk
	s.path = "sk"
	if c.Kind == "pk" {
		s.pk = kgen.GenPublicKeyNew(s.sk)
		s.key = s.pk
		s.path = "pk-nop"
		if len(c.Spec.P) > 0 {
			s.path = "pk-moddown"
		}
	} else if c.Route == "withkey-other" && c.Seed&1 == 0 {
		other = kgen.GenPublicKeyNew(s.sk2)
	}
	s.enc = buildEncryptor(params, c.Route, s.key, other, c.Seed)
	if c.Kind == "sk" && (c.Route == "withprng" || c.Route == "withprng-shallow") {
		s.aSamp = ring.NewUniformSampler(keyedPRNG(c.Seed, "a"), params.RingQ())
	}
	s.decW = rlwe.NewDecryptor(params, s.sk).WithKey(s.sk2)
	s.rng = h.NewSplitMix(c.PtSeed)
	s.keyHash = s.hashKeys()

	rec.Classf("kind=%s", c.Kind)
	rec.Classf("route=%s", c.Route)
	rec.Classf("path=%s", s.path)
	rec.Classf("N=%d", s.n)
	if c.Spec.CI {
		rec.Class("ring=ci")
	} else {
		rec.Class("ring=std")
	}
	rec.Classf("nP=%d", len(c.Spec.P))
	rec.Classf("xs=%s", distClass(c.Spec.Xs))
	rec.Classf("xe=%s", distClass(c.Spec.Xe))
	rec.Classf("steps=%d", 1+len(c.More))

	steps := append([]RTStep{c.RTStep}, c.More...)
	nontrivial := false
	var desc string
	for i, st := range steps {
		stop, nt, d, err := s.step(st, i)
		if err != nil {
			return err
		}
		if stop {
			return nil
		}
		if i == 0 {
			nontrivial, desc = nt, d
		} else if nt {
			nontrivial = true
			desc += "||" + d
		}
	}
	if nontrivial {
		rec.NonTrivial(desc)
	}
	return nil
}

// step performs one use of the session. stop: the case ended on a listed finding.
func (s *rtSession) step(st RTStep, idx int) (stop, nontrivial bool, desc string, err error) {
	c, rec, params, n, L, path := s.c, s.rec, s.params, s.n, s.L, s.path
	rng := s.rng
	tag := ""
	if idx > 0 {
		tag = "later:"
	}
	fail := func(e error) (bool, bool, string, error) { return false, false, "", e }

	if st.Degree == 0 && s.aSamp == nil {
		st.Degree = 1
	}
	hasPt := st.API == "Encrypt" || st.API == "EncryptNew"
	takesTarget := st.API == "Encrypt" || st.API == "EncryptZero" || st.API == "EncryptNil"
	reuseCt := st.ReuseCt && s.prevCt != nil && takesTarget
	if reuseCt {
		// the receiver keeps the degree and the level its earlier life left it with
		st.Degree = s.prevCt.Degree()
		st.CtLevel = s.prevCt.Level()
	}
	if !takesTarget {
		st.Degree = 1
	}

	setFlags := func(md *rlwe.MetaData) {
		st.Meta.apply(md)
		md.IsNTT = st.IsNTT
		md.IsMontgomery = st.IsMont
	}
	freshTarget := func() *rlwe.Ciphertext {
		t := rlwe.NewCiphertext(params, st.Degree, st.CtLevel)
		if st.Dirty {
			for i := range t.Value {
				fillPoly(params.RingQ().AtLevel(st.CtLevel), t.Value[i], "uniform", rng)
			}
			junkMeta(t.MetaData, rng)
		}
		return t
	}

	// plaintext and expectations -------------------------------------------------------------------------------------
	var pt *rlwe.Plaintext
	var wantMeta *rlwe.MetaData
	var level int
	switch st.API {
	case "Encrypt", "EncryptNew":
		pt = rlwe.NewPlaintext(params, st.PtLevel)
		setFlags(pt.MetaData)
		fillPoly(params.RingQ().AtLevel(st.PtLevel), pt.Value, st.Pattern, rng)
		wantMeta = pt.MetaData.CopyNew()
		level = st.PtLevel
		if st.API == "Encrypt" && st.CtLevel < level {
			level = st.CtLevel
		}
	case "EncryptZero", "EncryptNil":
		wantMeta = &rlwe.MetaData{}
		setFlags(wantMeta)
		level = st.CtLevel
	default:
		wantMeta = rlwe.NewCiphertext(params, 1, st.CtLevel).MetaData.CopyNew()
		level = st.CtLevel
	}
	isNTT := wantMeta.IsNTT
	var ptHash uint64
	var ptMeta *rlwe.MetaData
	if hasPt {
		ptHash, ptMeta = hashPoly(1, pt.Value), pt.MetaData.CopyNew()
	}

	encryptInto := func(target *rlwe.Ciphertext) (x *rlwe.Ciphertext, err error) {
		var skip bool
		skip, err = guard(c.Spec, level < L, rec, func() (e error) {
			switch st.API {
			case "Encrypt":
				x, e = target, s.enc.Encrypt(pt, target)
			case "EncryptNew":
				x, e = s.enc.EncryptNew(pt)
			case "EncryptZero":
				setFlags(target.MetaData)
				x, e = target, s.enc.EncryptZero(target)
			case "EncryptNil":
				setFlags(target.MetaData)
				x, e = target, s.enc.Encrypt(nil, target)
			default:
				x = s.enc.EncryptZeroNew(st.CtLevel)
			}
			return
		})
		if skip {
			return nil, errSkip
		}
		return
	}
	target := func(first bool) *rlwe.Ciphertext {
		if !takesTarget {
			return nil
		}
		if first && reuseCt {
			return s.prevCt
		}
		return freshTarget()
	}

	kbase := fmt.Sprintf("C03:%s%s:%s", tag, st.API, path)
	errKey := "C03:" + tag + st.API + ":" + c.Kind + ":error"

	ringQ := params.RingQ().AtLevel(level)
	ringCt := ringQ

	// expand: degree 0 -> c1 regenerated from an identical keyed PRNG, as lattigo's own test does; degree >= 1 with
	// WithPRNG: c1 must be that stream
	expand := func(x *rlwe.Ciphertext) (*rlwe.Ciphertext, error) {
		if s.aSamp == nil {
			return x, nil
		}
		a := s.aSamp.AtLevel(level).ReadNew()
		a.Resize(level)
		if x.Degree() >= 1 {
			if !ringQ.Equal(x.Value[1], a) {
				return nil, h.Failf(kbase+":withprng:c1-not-from-prng", "c1 differs from the stream of the PRNG given to WithPRNG")
			}
			return x, nil
		}
		return &rlwe.Ciphertext{Element: rlwe.Element[ring.Poly]{MetaData: x.MetaData, Value: []ring.Poly{x.Value[0], a}}}, nil
	}

	// decryption receivers --------------------------------------------------------------------------------------------
	dec := s.decryptor(st.DecRoute)
	reuseOut := st.ReuseOut && s.prevOut != nil && st.DecRoute != "DecryptNew"
	decLevel := st.DecLevel
	if decLevel < 0 || st.DecRoute == "DecryptNew" {
		decLevel = level
	}
	if reuseOut {
		decLevel = s.prevOut.Level()
	}
	outLevel := level
	if decLevel < outLevel {
		outLevel = decLevel
	}
	decrypt := func(d *rlwe.Decryptor, x *rlwe.Ciphertext, first bool) *rlwe.Plaintext {
		if st.DecRoute == "DecryptNew" {
			return d.DecryptNew(x)
		}
		var o *rlwe.Plaintext
		if first && reuseOut {
			o = s.prevOut
		} else {
			o = rlwe.NewPlaintext(params, decLevel)
			if st.Dirty {
				fillPoly(params.RingQ().AtLevel(decLevel), o.Value, "uniform", rng)
				junkMeta(o.MetaData, rng)
			}
		}
		d.Decrypt(x, o)
		return o
	}
	ringOut := params.RingQ().AtLevel(outLevel)
	ref := ringOut.NewPoly()
	if hasPt {
		ref.CopyLvl(outLevel, pt.Value)
	}

	var bound float64
	switch path {
	case "sk":
		bound = c.Spec.Xe.AbsBound()
	case "pk-nop":
		bound = pkNoiseBound(c.Spec, s.sStat)
	default:
		bound = pkNoiseBound(c.Spec, s.sStat)/float64(c.Spec.P[0]) + modDownSlack(c.Spec, s.sStat)
	}
	bBig := bigOfFloat(bound)
	Qout := h.ProdU(params.Q()[:outLevel+1])
	discriminates := bBig.Cmp(new(big.Int).Rsh(Qout, 4)) < 0

	classKey := func(k string) string {
		switch {
		case st.Degree == 2 && (st.Dirty || reuseCt):
			return keyDegree2Stale
		case path == "sk" && st.Degree == 2 && !isNTT:
			return keySkDegree2Coeff
		case sparseErrClass(c.Spec, isNTT, path):
			return keySparseErr
		case path == "sk" && st.Degree == 2:
			return keySkDegree2
		}
		return k
	}

	// verify: every use is judged by the same oracles (shape, metadata, inputs intact, noise bound, Montgomery reading)
	verify := func(x *rlwe.Ciphertext, first bool, which string) (full *rlwe.Ciphertext, out *rlwe.Plaintext, nRaw *big.Int, known bool, err error) {
		if x.Level() != level {
			return nil, nil, nil, false, h.Failf(kbase+":ct-level", "%sciphertext level %d, want min(pt,ct)=%d (plaintext level %d, receiver level %d)", which, x.Level(), level, st.PtLevel, st.CtLevel)
		}
		for i := range x.Value {
			if x.Value[i].Level() != level {
				return nil, nil, nil, false, h.Failf(kbase+":ct-level", "%sciphertext component %d has level %d, want %d", which, i, x.Value[i].Level(), level)
			}
		}
		if x.Degree() != st.Degree {
			return nil, nil, nil, false, h.Failf(kbase+":ct-degree", "%sciphertext degree %d, want %d", which, x.Degree(), st.Degree)
		}
		if !metaEqual(x.MetaData, wantMeta) {
			return nil, nil, nil, false, h.Failf(kbase+":ct-metadata", "%sciphertext metadata %s, want %s", which, metaString(x.MetaData), metaString(wantMeta))
		}
		if hasPt && (hashPoly(1, pt.Value) != ptHash || !metaEqual(pt.MetaData, ptMeta) || pt.Level() != st.PtLevel) {
			return nil, nil, nil, false, h.Failf(kbase+":input-modified:plaintext", "%sEncrypt modified its plaintext argument", which)
		}
		if s.hashKeys() != s.keyHash {
			return nil, nil, nil, false, h.Failf(kbase+":input-modified:key", "%sa key was modified by encryption", which)
		}
		if full, err = expand(x); err != nil {
			return
		}
		ctHash := hashCt(full)
		out = decrypt(dec, full, first)
		if hashCt(full) != ctHash || !metaEqual(full.MetaData, wantMeta) {
			return nil, nil, nil, false, h.Failf("C03:"+tag+"Decrypt:input-modified:ciphertext", "%sDecrypt modified the ciphertext", which)
		}
		if s.hashKeys() != s.keyHash {
			return nil, nil, nil, false, h.Failf("C03:"+tag+"Decrypt:input-modified:key", "%sa key was modified by decryption", which)
		}
		if out.Level() != outLevel {
			return nil, nil, nil, false, h.Failf("C03:"+tag+"Decrypt:level", "%sdecrypted plaintext level %d, want min(ct,pt)=%d", which, out.Level(), outLevel)
		}
		if !metaEqual(out.MetaData, wantMeta) {
			return nil, nil, nil, false, h.Failf("C03:"+tag+"Decrypt:metadata", "%sdecrypted metadata %s, plaintext metadata %s", which, metaString(out.MetaData), metaString(wantMeta))
		}
		raw, dom, _ := diffCentred(ringOut, out.Value, ref, isNTT)
		nRaw = h.InfNorm(raw)
		nDom := h.InfNorm(dom)
		okRaw, okDom := nRaw.Cmp(bBig) <= 0, nDom.Cmp(bBig) <= 0
		if !okRaw && !okDom {
			key := classKey(kbase + fmt.Sprintf(":degree%d:noise-above-bound", st.Degree))
			msg := fmt.Sprintf("%s|Dec(Enc(pt))-pt|_inf = %s (raw) / %s (Montgomery reading), bound %s, Q(level %d) has %d bits", which, nRaw, nDom, bBig, outLevel, Qout.BitLen())
			if rec.Known(key, msg) {
				rec.Classf("known=%s", key)
				return nil, nil, nil, true, nil
			}
			return nil, nil, nil, false, h.Failf(key, "%s", msg)
		}
		// Since b3d8830 every *Ciphertext path honours the flag as documented ("the ciphertext is in the Montgomery domain"):
		// flag set => the encryption of zero is in the Montgomery domain (error small after IMForm), flag clear => raw.
		if discriminates {
			wantOK := okRaw
			if wantMeta.IsMontgomery {
				wantOK = okDom
			}
			if !wantOK {
				return nil, nil, nil, false, h.Failf(fmt.Sprintf("C03:%s%s:montgomery-flag-not-honoured", tag, path), "%sIsMontgomery=%v but the error is small only under the other reading: |D|_inf = %s (raw) / %s (after IMForm), bound %s", which, wantMeta.IsMontgomery, nRaw, nDom, bBig)
			}
		}
		if first {
			switch {
			case okRaw && okDom:
				rec.Class("mont=both")
			case okRaw:
				rec.Class("mont=raw")
			default:
				rec.Class("mont=domain")
			}
		}
		return
	}

	// first encryption --------------------------------------------------------------------------------------------------
	ct, err := encryptInto(target(true))
	if err == errSkip {
		return true, false, "", nil
	}
	if err != nil {
		return fail(h.Failf(errKey, "unexpected error: %v", err))
	}
	rec.Classf("%sapi=%s", tag, st.API)
	rec.Classf("%sdegree=%d", tag, st.Degree)
	rec.Classf("%slevel=%s", tag, levelClass(level, L))
	rec.Classf("%sflags=ntt:%v,mont:%v", tag, isNTT, wantMeta.IsMontgomery)
	rec.Classf("%sdec=%s", tag, st.DecRoute)
	if st.API == "Encrypt" && st.CtLevel > st.PtLevel {
		rec.Classf("%sreceiver-level>pt-level", tag)
	}
	if reuseCt {
		rec.Class("later:receiver=previous-ciphertext")
	}
	if reuseOut {
		rec.Class("later:out=previous-plaintext")
	}
	if decLevel > level {
		rec.Classf("%sdec-level>ct-level", tag)
	} else if decLevel < level {
		rec.Classf("%sdec-level<ct-level", tag)
	}

	full, out, nRaw, known, err := verify(ct, true, "")
	if err != nil {
		return fail(err)
	}
	if known {
		return true, false, "", nil
	}
	if wantMeta.IsMontgomery {
		rec.Class("montflag-set")
	}
	// non-degeneracy: a secret-key ciphertext's error is the sampled e itself; it is identically zero only with the
	// probability the declared distribution gives to the zero polynomial
	if path == "sk" && nRaw.Sign() == 0 && zeroProbLog2(c.Spec.Xe, n) < -50 {
		return fail(h.Failf(kbase+":error-identically-zero", "Dec(Enc(pt)) == pt exactly: no error was added (declared Xe %+v gives this probability 2^%.0f)", c.Spec.Xe, zeroProbLog2(c.Spec.Xe, n)))
	}

	// independent error terms on c0 and c1 (P-less public-key path; see errorReused) ---------------------------------
	if path == "pk-nop" {
		x0 := ringCt.NewPoly()
		x0.CopyLvl(level, ct.Value[0])
		if hasPt {
			ringCt.Sub(x0, pt.Value, x0)
		}
		reused, applicable := errorReused(params, c.Spec, level, -1, ringqp.Poly{Q: x0}, ringqp.Poly{Q: ct.Value[1]}, s.pk, isNTT)
		if applicable {
			rec.Class("reuse=checked")
			if reused {
				return fail(h.Failf(kbase+":error-reused", "(c0-pt-c1)/(pk0-pk1) is a polynomial of the secret distribution's size: c0 and c1 carry the same error polynomial"))
			}
		}
	}

	// a second encryption of the same plaintext (fresh receiver): judged as strictly, and differs in every component ------
	// keep copies: the first ciphertext may be overwritten only by a later step
	ct2, err := encryptInto(target(false))
	if err == errSkip {
		return true, false, "", nil
	}
	if err != nil {
		return fail(h.Failf(errKey, "unexpected error on second encryption: %v", err))
	}
	full2, _, _, known, err := verify(ct2, false, "second encryption: ")
	if err != nil {
		return fail(err)
	}
	if known {
		return true, false, "", nil
	}
	// (pk encryption: the division by P rounds the error terms away, so c0, c1 are functions of the mask u alone, and two
	// encryptions coincide whenever the two u do; asserted where that has probability < 2^-50)
	repeatOK := c.Kind == "sk" || collisionBits(c.Spec.Xs, n) >= 50
	if !repeatOK {
		rec.Class("repeat=skipped(low-entropy-mask)")
	}
	// (sk: c0 = -a*s + e + pt repeats when s = 0 and the two errors coincide)
	c0OK := c.Kind != "sk" || !s.sStat.zero || collisionBits(c.Spec.Xe, n) >= 50
	for i := 0; repeatOK && i <= 1 && i <= full.Degree(); i++ {
		if i == 0 && !c0OK {
			continue
		}
		if ringQ.Equal(full.Value[i], full2.Value[i]) {
			return fail(h.Failf(kbase+":repeat:component-equal", "two encryptions of the same plaintext have the same c%d", i))
		}
	}
	if sparseErrClass(c.Spec, isNTT, path) && h.IsKnown(keySparseErr) {
		rec.Classf("known-class-passed=%s", keySparseErr)
		return true, false, "", nil
	}

	// wrong key ----------------------------------------------------------------------------------------------------
	// Needs s' != s. A pk ciphertext whose mask u is zero has c1 = e1 (/P): such ciphertexts are left out of the pool when
	// the declared Xs gives u = 0 a probability >= 2^-50, and are a violation otherwise.
	if !equalInts(s.sInts, s.s2Ints) {
		be := math.Max(c.Spec.Xe.AbsBound(), 2)
		c1Small := func(x *rlwe.Ciphertext) bool {
			if c.Kind != "sk" && x.Degree() >= 1 {
				r, d, _ := diffCentred(ringQ, x.Value[1], ringQ.NewPoly(), isNTT)
				return bigToFloat(h.InfNorm(r)) <= be || bigToFloat(h.InfNorm(d)) <= be
			}
			return false
		}
		total, tries, left := 0, 0, 0
		sum, max := new(big.Int), new(big.Int)
		cur := full
		for {
			tries++
			if c1Small(cur) {
				if zeroProbLog2(c.Spec.Xs, n) < -50 {
					return fail(h.Failf(kbase+":degenerate-mask", "c1 of a public-key ciphertext is within the error bound (|c1|_inf <= %v): the mask u*pk1 is missing", be))
				}
				left++
			} else {
				o := decrypt(s.decW, cur, false)
				r, _, _ := diffCentred(ringOut, o.Value, ref, isNTT)
				sa, m := sumAbsAndMax(r)
				sum.Add(sum, sa)
				if m.Cmp(max) > 0 {
					max.Set(m)
				}
				total += n
			}
			if total >= 256 || tries >= 40 {
				break
			}
			nx, err := encryptInto(target(false))
			if err == errSkip {
				return true, false, "", nil
			}
			if err != nil {
				return fail(h.Failf(errKey, "unexpected error: %v", err))
			}
			if cur, err = expand(nx); err != nil {
				return fail(err)
			}
		}
		if total >= 256 {
			q8 := new(big.Int).Rsh(Qout, 3)
			mean := new(big.Int).Div(sum, big.NewInt(int64(total)))
			if max.Cmp(q8) < 0 || mean.Cmp(q8) < 0 {
				return fail(h.Failf(kbase+":wrong-key:readable", "decryption under an independent key: max |d| = %s, mean |d| = %s over %d coefficients, Q/8 = %s", max, mean, total, q8))
			}
			rec.Classf("wrongkey=checked:%s", path)
			if left > 0 {
				rec.Class("wrongkey:zero-mask-ciphertexts-left-out")
			}
		} else {
			rec.Class("wrongkey=skipped")
		}
	} else {
		rec.Class("wrongkey=skipped")
	}

	s.prevCt, s.prevOut = ct, out

	if !discriminates {
		rec.Class("bound>=Q/16")
		return false, false, "", nil
	}
	copyRoute := c.Route != "new"
	nontrivial = level < L || isNTT != params.NTTFlag() || wantMeta.IsMontgomery || copyRoute || st.Degree != 1 || !st.Meta.isDefault() || idx > 0
	desc = fmt.Sprintf("%s|%s|%s|%s|deg%d|lvl=%s|ntt=%v,mont=%v|%s|pat=%s|dec=%s|declvl=%d|dirty=%v|reuse=%v,%v", specClass(c.Spec), path, c.Route, st.API, st.Degree, levelClass(level, L), isNTT, wantMeta.IsMontgomery, levelClass(st.PtLevel, L)+"/"+levelClass(st.CtLevel, L), st.Pattern, st.DecRoute, decLevel-level, st.Dirty, reuseCt, reuseOut)
	return false, nontrivial, desc, nil
}

var propRT = h.NewProp("TestPropRoundTrip", h.Budget{Quick: 2000, Thorough: 20000}, genRT, runRT)

func TestPropRoundTrip(t *testing.T) { propRT.Check(t) }
