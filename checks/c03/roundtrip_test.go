package c03

import (
	"fmt"
	"math/big"
	"testing"

	"verif/internal/h"

	"github.com/tuneinsight/lattigo/v6/core/rlwe"
	"github.com/tuneinsight/lattigo/v6/ring"
	"github.com/tuneinsight/lattigo/v6/ring/ringqp"
	"pgregory.net/rapid"
)

// RTCase: one encryption into an *rlwe.Ciphertext followed by decryption.
type RTCase struct {
	Spec     h.RLWESpec `json:"spec"`
	Seed     uint64     `json:"seed"`
	Kind     string     `json:"kind"`     // "sk" | "pk"
	Route    string     `json:"route"`    // how the encryptor is obtained
	API      string     `json:"api"`      // "Encrypt" | "EncryptNew" | "EncryptZero" | "EncryptNil" | "EncryptZeroNew"
	Degree   int        `json:"degree"`   // degree of the target ciphertext (0,1,2)
	PtLevel  int        `json:"ptLevel"`  // level of the plaintext
	CtLevel  int        `json:"ctLevel"`  // level of the target ciphertext (before Encrypt)
	DecLevel int        `json:"decLevel"` // level of the plaintext receiving the decryption
	IsNTT    bool       `json:"isNTT"`
	IsMont   bool       `json:"isMont"`
	Meta     MetaSpec   `json:"meta"`
	Pattern  string     `json:"pattern"`
	PtSeed   uint64     `json:"ptSeed"`
	Dirty    bool       `json:"dirty"`    // target ciphertext / output plaintext pre-filled with junk
	DecRoute string     `json:"decRoute"` // "Decrypt" | "DecryptNew" | "shallow" | "withkey"
}

func (c RTCase) RandSeed() uint64 { return c.Seed }

var encRoutes = []string{"new", "shallow", "withkey-other", "nil-withkey", "kgen-withkey", "withprng", "withprng-shallow"}
var decRoutes = []string{"Decrypt", "DecryptNew", "shallow", "withkey"}

func genRT(t *rapid.T) RTCase {
	var c RTCase
	c.Spec = genSpec(t, 0)
	c.Seed = rapid.Uint64().Draw(t, "seed")
	if rapid.Bool().Draw(t, "pk") {
		c.Kind = "pk"
	} else {
		c.Kind = "sk"
	}
	c.Route = encRoutes[rapid.IntRange(0, len(encRoutes)-1).Draw(t, "route")]
	L := len(c.Spec.Q) - 1
	lvl := func(label string) int {
		switch rapid.IntRange(0, 3).Draw(t, label+"K") {
		case 0:
			return L
		case 1:
			return 0
		}
		return rapid.IntRange(0, L).Draw(t, label)
	}
	c.PtLevel = lvl("ptLevel")
	c.CtLevel = c.PtLevel
	if rapid.IntRange(0, 3).Draw(t, "ctLevelDiffers") == 0 {
		c.CtLevel = lvl("ctLevel")
	}
	c.DecLevel = -1 // same as the ciphertext
	if rapid.IntRange(0, 3).Draw(t, "decLevelDiffers") == 0 {
		c.DecLevel = lvl("decLevel")
	}
	c.API = []string{"Encrypt", "Encrypt", "Encrypt", "EncryptNew", "EncryptZero", "EncryptNil", "EncryptZeroNew"}[rapid.IntRange(0, 6).Draw(t, "api")]
	c.Degree = 1
	if c.API == "Encrypt" || c.API == "EncryptZero" || c.API == "EncryptNil" {
		switch rapid.IntRange(0, 5).Draw(t, "degree") {
		case 0:
			// a degree-0 target is the "compressed" form (c1 regenerated from the seeded PRNG): secret-key only
			if c.Kind == "sk" {
				c.Degree = 0
				if c.Route != "withprng" && c.Route != "withprng-shallow" {
					c.Route = "withprng"
				}
			}
		case 1:
			c.Degree = 2
		}
	}
	c.IsNTT = rapid.Bool().Draw(t, "isNTT")
	c.IsMont = rapid.IntRange(0, 3).Draw(t, "isMont") == 0
	c.Meta = genMeta(t, c.Spec.LogN)
	c.Pattern = ptPatterns[rapid.IntRange(0, len(ptPatterns)-1).Draw(t, "pattern")]
	c.PtSeed = rapid.Uint64().Draw(t, "ptSeed")
	c.Dirty = rapid.Bool().Draw(t, "dirty")
	c.DecRoute = decRoutes[rapid.IntRange(0, len(decRoutes)-1).Draw(t, "decRoute")]
	return c
}

// buildEncryptor obtains an encryptor for key through the named construction route.
func buildEncryptor(params rlwe.Parameters, route string, key rlwe.EncryptionKey, other rlwe.EncryptionKey, seed uint64) *rlwe.Encryptor {
	switch route {
	case "shallow":
		return rlwe.NewEncryptor(params, key).ShallowCopy()
	case "withkey-other":
		// an encryptor built for another key (of the other kind when available), then re-keyed
		return rlwe.NewEncryptor(params, other).WithKey(key)
	case "nil-withkey":
		return rlwe.NewEncryptor(params, nil).WithKey(key)
	case "kgen-withkey":
		return rlwe.NewKeyGenerator(params).WithKey(key)
	case "withprng":
		return rlwe.NewEncryptor(params, key).WithPRNG(keyedPRNG(seed, "a"))
	case "withprng-shallow":
		return rlwe.NewEncryptor(params, nil).ShallowCopy().WithKey(key).WithPRNG(keyedPRNG(seed, "a"))
	}
	return rlwe.NewEncryptor(params, key)
}

func buildDecryptor(params rlwe.Parameters, route string, sk, other *rlwe.SecretKey) *rlwe.Decryptor {
	switch route {
	case "shallow":
		return rlwe.NewDecryptor(params, sk).ShallowCopy()
	case "withkey":
		return rlwe.NewDecryptor(params, other).WithKey(sk)
	}
	return rlwe.NewDecryptor(params, sk)
}

func junkMeta(md *rlwe.MetaData, rng *h.SplitMix) {
	md.Scale = rlwe.NewScale(float64(rng.Intn(1000)) + 0.5)
	md.LogDimensions = ring.Dimensions{Rows: rng.Intn(2), Cols: rng.Intn(4)}
	md.IsBatched = rng.Intn(2) == 0
	md.IsBitReversed = rng.Intn(2) == 0
	md.IsNTT = rng.Intn(2) == 0
	md.IsMontgomery = rng.Intn(2) == 0
}

// diffCentred returns (a-b) as centred integers in the coefficient domain, under both readings of the Montgomery flag:
// raw (the stored words are the values) and domain (the stored words are values times 2^64).
func diffCentred(r *ring.Ring, a, b ring.Poly, isNTT bool) (raw, dom []*big.Int, Q *big.Int) {
	lvl := r.Level()
	d := r.NewPoly()
	r.Sub(a, b, d)
	if isNTT {
		r.INTT(d, d)
	}
	qs := r.ModuliChain()[:lvl+1]
	raw, Q = centred(d.Coeffs[:lvl+1], qs)
	r.IMForm(d, d)
	dom, _ = centred(d.Coeffs[:lvl+1], qs)
	return
}

func runRT(c RTCase, rec *h.Rec) error {
	params, err := c.Spec.Build()
	if err != nil {
		return h.Failf("C03:params-rejected", "generated literal rejected: %v", err)
	}
	n := params.N()
	L := params.MaxLevel()
	kgen := rlwe.NewKeyGenerator(params)
	sk := kgen.GenSecretKeyNew()
	sk2 := kgen.GenSecretKeyNew()
	sInts, err := secretInts(params, sk)
	if err != nil {
		return h.Failf("C03:GenSecretKey:limbs-inconsistent", "%v", err)
	}
	s2Ints, err := secretInts(params, sk2)
	if err != nil {
		return h.Failf("C03:GenSecretKey:limbs-inconsistent", "%v", err)
	}
	if err := checkSecretDomain(c.Spec, sInts, "C03:GenSecretKey"); err != nil {
		return err
	}
	sStat := statsOf(sInts)

	var key, other rlwe.EncryptionKey = sk, sk2
	if c.Kind == "pk" {
		pk := kgen.GenPublicKeyNew(sk)
		key, other = pk, sk2
	} else if c.Route == "withkey-other" && c.Seed&1 == 0 {
		other = kgen.GenPublicKeyNew(sk2)
	}
	enc := buildEncryptor(params, c.Route, key, other, c.Seed)
	seeded := c.Route == "withprng" || c.Route == "withprng-shallow"

	rng := h.NewSplitMix(c.PtSeed)

	// plaintext ------------------------------------------------------------------------------------------------
	hasPt := c.API == "Encrypt" || c.API == "EncryptNew"
	var pt *rlwe.Plaintext
	var wantMeta *rlwe.MetaData
	var ct *rlwe.Ciphertext
	var level int

	var encryptRaw func() (*rlwe.Ciphertext, error)
	newTarget := func() *rlwe.Ciphertext {
		t := rlwe.NewCiphertext(params, c.Degree, c.CtLevel)
		if c.Dirty {
			for i := range t.Value {
				fillPoly(params.RingQ().AtLevel(c.CtLevel), t.Value[i], "uniform", rng)
			}
			junkMeta(t.MetaData, rng)
		}
		return t
	}

	setFlags := func(md *rlwe.MetaData) {
		c.Meta.apply(md)
		md.IsNTT = c.IsNTT
		md.IsMontgomery = c.IsMont
	}

	encryptOnce := func() (x *rlwe.Ciphertext, err error) {
		var skip bool
		skip, err = guard(c.Spec, level < L, rec, func() (e error) { x, e = encryptRaw(); return })
		if skip {
			return nil, errSkip
		}
		return
	}
	encryptRaw = func() (*rlwe.Ciphertext, error) {
		switch c.API {
		case "Encrypt":
			t := newTarget()
			return t, enc.Encrypt(pt, t)
		case "EncryptNew":
			return enc.EncryptNew(pt)
		case "EncryptZero":
			t := newTarget()
			setFlags(t.MetaData)
			return t, enc.EncryptZero(t)
		case "EncryptNil":
			t := newTarget()
			setFlags(t.MetaData)
			return t, enc.Encrypt(nil, t)
		default:
			return enc.EncryptZeroNew(c.CtLevel), nil
		}
	}

	switch c.API {
	case "Encrypt", "EncryptNew":
		pt = rlwe.NewPlaintext(params, c.PtLevel)
		setFlags(pt.MetaData)
		fillPoly(params.RingQ().AtLevel(c.PtLevel), pt.Value, c.Pattern, rng)
		wantMeta = pt.MetaData.CopyNew()
		level = c.PtLevel
		if c.API == "Encrypt" && c.CtLevel < level {
			level = c.CtLevel
		}
	case "EncryptZero", "EncryptNil":
		wantMeta = &rlwe.MetaData{}
		setFlags(wantMeta)
		level = c.CtLevel
	default:
		wantMeta = rlwe.NewCiphertext(params, 1, c.CtLevel).MetaData.CopyNew()
		level = c.CtLevel
	}
	isNTT := wantMeta.IsNTT

	ct, err = encryptOnce()
	if err == errSkip {
		return nil
	}
	if err != nil {
		return h.Failf("C03:"+c.API+":"+c.Kind+":error", "unexpected error: %v", err)
	}

	rec.Classf("kind=%s", c.Kind)
	rec.Classf("route=%s", c.Route)
	rec.Classf("api=%s", c.API)
	rec.Classf("degree=%d", c.Degree)
	rec.Classf("level=%s", levelClass(level, L))
	rec.Classf("flags=ntt:%v,mont:%v", isNTT, wantMeta.IsMontgomery)
	rec.Classf("N=%d", n)
	if c.Spec.CI {
		rec.Class("ring=ci")
	} else {
		rec.Class("ring=std")
	}
	rec.Classf("nP=%d", len(c.Spec.P))
	rec.Classf("xs=%s", distClass(c.Spec.Xs))
	rec.Classf("xe=%s", distClass(c.Spec.Xe))
	path := c.Kind
	if c.Kind == "pk" {
		if len(c.Spec.P) > 0 {
			path = "pk-moddown"
		} else {
			path = "pk-nop"
		}
	}
	rec.Classf("path=%s", path)

	kbase := fmt.Sprintf("C03:%s:%s", c.API, path)

	// shape and metadata of the ciphertext ------------------------------------------------------------------------
	if ct.Level() != level {
		return h.Failf(kbase+":ct-level", "ciphertext level %d, want min(pt,ct)=%d", ct.Level(), level)
	}
	if ct.Degree() != c.Degree {
		return h.Failf(kbase+":ct-degree", "ciphertext degree %d, want %d", ct.Degree(), c.Degree)
	}
	if !metaEqual(ct.MetaData, wantMeta) {
		return h.Failf(kbase+":ct-metadata", "ciphertext metadata %s, want %s", metaString(ct.MetaData), metaString(wantMeta))
	}

	ringQ := params.RingQ().AtLevel(level)

	// full ciphertext (degree 0: c1 is regenerated from an identical keyed PRNG, as lattigo's own test does) ---------
	var aSampler ring.Sampler
	if seeded && c.Kind == "sk" {
		aSampler = ring.NewUniformSampler(keyedPRNG(c.Seed, "a"), ringQ)
	}
	expand := func(x *rlwe.Ciphertext) (*rlwe.Ciphertext, error) {
		if aSampler == nil {
			return x, nil
		}
		a := aSampler.ReadNew()
		if x.Degree() == 1 {
			if !ringQ.Equal(x.Value[1], a) {
				return nil, h.Failf(kbase+":withprng:c1-not-from-prng", "c1 differs from the stream of the PRNG given to WithPRNG")
			}
			return x, nil
		}
		if x.Degree() == 0 {
			return &rlwe.Ciphertext{Element: rlwe.Element[ring.Poly]{MetaData: x.MetaData, Value: []ring.Poly{x.Value[0], a}}}, nil
		}
		return x, nil
	}
	full, err := expand(ct)
	if err != nil {
		return err
	}

	// decryption ------------------------------------------------------------------------------------------------
	dec := buildDecryptor(params, c.DecRoute, sk, sk2)
	decLevel := c.DecLevel
	if decLevel < 0 || c.DecRoute == "DecryptNew" {
		decLevel = level
	}
	outLevel := level
	if decLevel < outLevel {
		outLevel = decLevel
	}
	decrypt := func(d *rlwe.Decryptor, x *rlwe.Ciphertext) *rlwe.Plaintext {
		if c.DecRoute == "DecryptNew" {
			return d.DecryptNew(x)
		}
		o := rlwe.NewPlaintext(params, decLevel)
		if c.Dirty {
			fillPoly(params.RingQ().AtLevel(decLevel), o.Value, "uniform", rng)
			junkMeta(o.MetaData, rng)
		}
		d.Decrypt(x, o)
		return o
	}
	out := decrypt(dec, full)
	rec.Classf("dec=%s", c.DecRoute)
	if outLevel != level {
		rec.Class("dec-level<ct-level")
	}

	if out.Level() != outLevel {
		return h.Failf("C03:Decrypt:level", "decrypted plaintext level %d, want min(ct,pt)=%d", out.Level(), outLevel)
	}
	if !metaEqual(out.MetaData, wantMeta) {
		return h.Failf("C03:Decrypt:metadata", "decrypted metadata %s, plaintext metadata %s", metaString(out.MetaData), metaString(wantMeta))
	}

	// error = Dec(Enc(pt)) - pt -----------------------------------------------------------------------------------
	ringOut := params.RingQ().AtLevel(outLevel)
	ref := ringOut.NewPoly()
	if hasPt {
		ref.CopyLvl(outLevel, pt.Value)
	}
	raw, dom, Q := diffCentred(ringOut, out.Value, ref, isNTT)

	var bound float64
	switch path {
	case "sk":
		bound = c.Spec.Xe.AbsBound()
	case "pk-nop":
		bound = pkNoiseBound(c.Spec, sStat)
	default:
		bound = pkNoiseBound(c.Spec, sStat)/float64(c.Spec.P[0]) + modDownSlack(c.Spec, sStat)
	}
	bBig := bigOfFloat(bound)
	q16 := new(big.Int).Rsh(Q, 4)
	discriminates := bBig.Cmp(q16) < 0

	nRaw, nDom := h.InfNorm(raw), h.InfNorm(dom)
	okRaw, okDom := nRaw.Cmp(bBig) <= 0, nDom.Cmp(bBig) <= 0
	// Since b3d8830 every *Ciphertext path honours the flag as documented ("the ciphertext is in the Montgomery domain"):
	// flag set => the encryption of zero is in the Montgomery domain (error small after IMForm), flag clear => raw.
	if wantOK, otherOK := okRaw, okDom; discriminates {
		if wantMeta.IsMontgomery {
			wantOK, otherOK = okDom, okRaw
		}
		if !wantOK && otherOK {
			return h.Failf(fmt.Sprintf("C03:%s:montgomery-flag-not-honoured", path), "IsMontgomery=%v but the error is small only under the other reading: |D|_inf = %s (raw) / %s (after IMForm), bound %s", wantMeta.IsMontgomery, nRaw, nDom, bBig)
		}
	}
	switch {
	case okRaw && okDom:
		rec.Class("mont=both")
	case okRaw:
		rec.Class("mont=raw")
	case okDom:
		rec.Class("mont=domain")
	default:
		key := kbase + fmt.Sprintf(":degree%d:noise-above-bound", c.Degree)
		if c.Degree == 2 && c.Dirty {
			key = keyDegree2Stale
		} else if path == "sk" && c.Degree == 2 && !isNTT {
			key = keySkDegree2Coeff
		} else if sparseErrClass(c.Spec, isNTT, path) {
			key = keySparseErr
		} else if path == "sk" && c.Degree == 2 {
			// one input class whatever the entry point: the secret-key path wrote the mask c1 into a buffer (fixed e5d2496)
			key = keySkDegree2
		}
		msg := fmt.Sprintf("|Dec(Enc(pt))-pt|_inf = %s (raw) / %s (Montgomery reading), bound %s, Q(level %d) has %d bits", nRaw, nDom, bBig, outLevel, Q.BitLen())
		if rec.Known(key, msg) {
			rec.Classf("known=%s", key)
			return nil
		}
		return h.Failf(key, "%s", msg)
	}
	if wantMeta.IsMontgomery {
		rec.Class("montflag-set")
	}
	// non-degeneracy: a secret-key ciphertext's error is the sampled e itself; it is identically zero only with the
	// probability the declared distribution gives to the zero polynomial
	if path == "sk" && nRaw.Sign() == 0 && zeroProbLog2(c.Spec.Xe, n) < -50 {
		return h.Failf(kbase+":error-identically-zero", "Dec(Enc(pt)) == pt exactly: no error was added (declared Xe %+v gives this probability 2^%.0f)", c.Spec.Xe, zeroProbLog2(c.Spec.Xe, n))
	}

	// independent error terms on c0 and c1 (P-less public-key path; see errorReused) ---------------------------------
	if path == "pk-nop" {
		pk := key.(*rlwe.PublicKey)
		x0 := ringQ.NewPoly()
		x0.CopyLvl(level, ct.Value[0])
		if hasPt {
			ringQ.Sub(x0, pt.Value, x0)
		}
		reused, applicable := errorReused(params, c.Spec, level, -1, ringqp.Poly{Q: x0}, ringqp.Poly{Q: ct.Value[1]}, pk, isNTT)
		if applicable {
			rec.Class("reuse=checked")
			if reused {
				return h.Failf(kbase+":error-reused", "(c0-pt-c1)/(pk0-pk1) is a polynomial of the secret distribution's size: c0 and c1 carry the same error polynomial")
			}
		}
	}

	// two encryptions of the same plaintext differ in every component -------------------------------------------
	ct2, err := encryptOnce()
	if err == errSkip {
		return nil
	}
	if err != nil {
		return h.Failf("C03:"+c.API+":"+c.Kind+":error", "unexpected error on second encryption: %v", err)
	}
	full2, err := expand(ct2)
	if err != nil {
		return err
	}
	// (pk encryption: the division by P rounds the error terms away, so c0, c1 are functions of the mask u alone, and two
	// encryptions coincide whenever the two u do; asserted where that has probability < 2^-50)
	repeatOK := c.Kind == "sk" || collisionBits(c.Spec.Xs, n) >= 50
	if !repeatOK {
		rec.Class("repeat=skipped(low-entropy-mask)")
	}
	for i := 0; repeatOK && i <= 1 && i <= full.Degree(); i++ {
		if ringQ.Equal(full.Value[i], full2.Value[i]) {
			return h.Failf(kbase+":repeat:component-equal", "two encryptions of the same plaintext have the same c%d", i)
		}
	}
	// the second one decrypts as well (state carried by the encryptor between calls)
	out2 := decrypt(dec, full2)
	raw2, dom2, _ := diffCentred(ringOut, out2.Value, ref, isNTT)
	if h.InfNorm(raw2).Cmp(bBig) > 0 && h.InfNorm(dom2).Cmp(bBig) > 0 {
		key := kbase + ":repeat:noise-above-bound"
		if c.Degree == 2 && c.Dirty {
			key = keyDegree2Stale
		} else if path == "sk" && c.Degree == 2 && !isNTT {
			key = keySkDegree2Coeff
		} else if sparseErrClass(c.Spec, isNTT, path) {
			key = keySparseErr
		}
		msg := fmt.Sprintf("second encryption: |Dec-pt|_inf = %s / %s, bound %s", h.InfNorm(raw2), h.InfNorm(dom2), bBig)
		if rec.Known(key, msg) {
			rec.Classf("known=%s", key)
			return nil
		}
		return h.Failf(key, "%s", msg)
	}
	if sparseErrClass(c.Spec, isNTT, path) && h.IsKnown(keySparseErr) {
		// both encryptions happened to land inside the bound; the remaining sub-oracles are not meaningful for this class
		rec.Classf("known-class-passed=%s", keySparseErr)
		return nil
	}

	// wrong key ----------------------------------------------------------------------------------------------------
	// Needs s2 != s, and for pk encryption a mask u that is non-zero except with negligible probability.
	wrongOK := !equalInts(sInts, s2Ints)
	if c.Kind == "pk" && zeroProbLog2(c.Spec.Xs, n) > -50 {
		wrongOK = false
	}
	if wrongOK {
		decW := rlwe.NewDecryptor(params, sk).WithKey(sk2)
		total := 0
		sum := new(big.Int)
		max := new(big.Int)
		cur := full
		for total < 256 {
			o := decrypt(decW, cur)
			r, _, _ := diffCentred(ringOut, o.Value, ref, isNTT)
			s, m := sumAbsAndMax(r)
			sum.Add(sum, s)
			if m.Cmp(max) > 0 {
				max.Set(m)
			}
			total += n
			if total < 256 {
				nx, err := encryptOnce()
				if err == errSkip {
					return nil
				}
				if err != nil {
					return h.Failf("C03:"+c.API+":"+c.Kind+":error", "unexpected error: %v", err)
				}
				if cur, err = expand(nx); err != nil {
					return err
				}
			}
		}
		q8 := new(big.Int).Rsh(Q, 3)
		mean := new(big.Int).Div(sum, big.NewInt(int64(total)))
		if max.Cmp(q8) < 0 || mean.Cmp(q8) < 0 {
			return h.Failf(kbase+":wrong-key:readable", "decryption under an independent key: max |d| = %s, mean |d| = %s over %d coefficients, Q/8 = %s", max, mean, total, q8)
		}
		rec.Class("wrongkey=checked")
	} else {
		rec.Class("wrongkey=skipped")
	}

	copyRoute := c.Route != "new"
	if discriminates && (level < L || isNTT != params.NTTFlag() || wantMeta.IsMontgomery || copyRoute || c.Degree != 1 || !c.Meta.isDefault()) {
		rec.NonTrivial(fmt.Sprintf("%s|%s|%s|%s|deg%d|lvl=%s|ntt=%v,mont=%v|%s|pat=%s|dec=%s|declvl=%v|dirty=%v", specClass(c.Spec), path, c.Route, c.API, c.Degree, levelClass(level, L), isNTT, wantMeta.IsMontgomery, levelClass(c.PtLevel, L)+"/"+levelClass(c.CtLevel, L), c.Pattern, c.DecRoute, outLevel != level, c.Dirty))
	}
	if !discriminates {
		rec.Class("bound>=Q/16")
	}
	return nil
}

var propRT = h.NewProp("TestPropRoundTrip", h.Budget{Quick: 4000, Thorough: 48000}, genRT, runRT)

func TestPropRoundTrip(t *testing.T) { propRT.Check(t) }
