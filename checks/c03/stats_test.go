package c03

import (
	"fmt"
	"math"
	"math/big"
	"math/bits"
	"testing"

	"verif/internal/h"

	"github.com/tuneinsight/lattigo/v6/core/rlwe"
	"github.com/tuneinsight/lattigo/v6/ring"
	"github.com/tuneinsight/lattigo/v6/ring/ringqp"
	"pgregory.net/rapid"
)

// StatCase: lower bounds. A subject (fresh sk / pk ciphertext, public key, evaluation / relinearization / Galois key)
// is generated repeatedly until >= 2048 error coefficients are pooled; the error is reconstructed by the harness
// with the secret key(s).
type StatCase struct {
	Spec    h.RLWESpec `json:"spec"`
	Seed    uint64     `json:"seed"`
	Subject string     `json:"subject"` // "sk-ct" | "pk-ct" | "pk-key" | "evk" | "rlk" | "gk"
	IsNTT   bool       `json:"isNTT"`   // ciphertext subjects
	Level   int        `json:"level"`   // ciphertext subjects
	LevelQ  int        `json:"levelQ"`  // key subjects
	LevelP  int        `json:"levelP"`  // key subjects (-1: no P)
	Base2   int        `json:"base2"`   // key subjects: BaseTwoDecomposition
	Compr   bool       `json:"compressed"`
	GalK    int        `json:"galK"` // Galois element 5^k (k=-1: the conjugation / X -> X^-1 element)
}

func (c StatCase) RandSeed() uint64 { return c.Seed }

const statSamples = 2048

func genStat(t *rapid.T) StatCase {
	var c StatCase
	c.Spec = genSpec(t, 0)
	c.Seed = rapid.Uint64().Draw(t, "seed")
	c.Subject = []string{"sk-ct", "pk-ct", "pk-key", "evk", "rlk", "gk"}[rapid.IntRange(0, 5).Draw(t, "subject")]
	L := len(c.Spec.Q) - 1
	c.IsNTT = rapid.Bool().Draw(t, "isNTT")
	c.Level = rapid.IntRange(0, L).Draw(t, "level")
	if rapid.Bool().Draw(t, "maxLevels") {
		c.LevelQ, c.LevelP = L, len(c.Spec.P)-1
	} else {
		c.LevelQ = rapid.IntRange(0, L).Draw(t, "levelQ")
		c.LevelP = rapid.IntRange(-1, len(c.Spec.P)-1).Draw(t, "levelP")
	}
	if rapid.IntRange(0, 2).Draw(t, "useBase2") == 0 {
		c.Base2 = rapid.IntRange(4, 30).Draw(t, "base2")
	}
	c.Compr = rapid.IntRange(0, 3).Draw(t, "compressed") == 0
	c.GalK = rapid.IntRange(-1, 6).Draw(t, "galK")
	return c
}

type pool struct {
	n          int
	sum, sumSq float64
	maxAbs     float64
}

func (p *pool) add(v []*big.Int) {
	for _, x := range v {
		f := bigToFloat(x)
		p.n++
		p.sum += f
		p.sumSq += f * f
		if a := math.Abs(f); a > p.maxAbs {
			p.maxAbs = a
		}
	}
}

func (p *pool) std() float64 {
	m := p.sum / float64(p.n)
	return math.Sqrt(math.Max(0, p.sumSq/float64(p.n)-m*m))
}

// limbPool accumulates the words of one RNS limb of a mask component ("a").
type limbPool struct {
	q        uint64
	n        int
	sum      float64
	cap      int
	distinct map[uint64]struct{}
}

func newLimbPools(qs []uint64) []*limbPool {
	out := make([]*limbPool, len(qs))
	for i, q := range qs {
		out[i] = &limbPool{q: q, cap: 4096, distinct: map[uint64]struct{}{}}
	}
	return out
}

func addLimbs(lp []*limbPool, limbs [][]uint64) {
	for i := range lp {
		for _, v := range limbs[i] {
			lp[i].n++
			lp[i].sum += float64(v)
			if len(lp[i].distinct) < lp[i].cap {
				lp[i].distinct[v] = struct{}{}
			}
		}
	}
}

// checkUniform: the mean of n words uniform in [0,q) is (q-1)/2 with standard error q/sqrt(12 n) (7 standard
// errors allowed), and at least min(n,q,cap)/2 distinct values occur (expected >= 0.63 * min).
func checkUniform(lp []*limbPool, key, what string) error {
	for i, l := range lp {
		q := float64(l.q)
		mean := l.sum / float64(l.n)
		se := q / math.Sqrt(12*float64(l.n))
		if math.Abs(mean-(q-1)/2) > 7*se {
			return h.Failf(key+":mask-mean", "%s limb %d (q=%d): mean of %d words is %.6g, expected %.6g +- %.3g", what, i, l.q, l.n, mean, (q-1)/2, 7*se)
		}
		m := math.Min(math.Min(float64(l.n), q), float64(l.cap))
		if float64(len(l.distinct)) < m/2 {
			return h.Failf(key+":mask-degenerate", "%s limb %d (q=%d): only %d distinct values among %d words", what, i, l.q, len(l.distinct), l.n)
		}
	}
	return nil
}

// nominalStd is the standard deviation of the declared error distribution (ring.Ternary documents probabilities
// [P/2, 1-P, P/2]; a Gaussian of parameter sigma rounded to integers has variance sigma^2 + 1/12 up to truncation).
func nominalStd(d h.DistSpec, n int) float64 {
	if d.Kind == "gauss" {
		return math.Sqrt(gaussStats(d).vari)
	}
	return d.Std(n)
}

func secretVar(d h.DistSpec, n int) float64 {
	if d.Kind == "gauss" {
		return gaussStats(d).vari
	}
	s := d.Std(n)
	return s * s
}

func runStat(c StatCase, rec *h.Rec) error {
	params, err := c.Spec.Build()
	if err != nil {
		return h.Failf("C03:params-rejected", "generated literal rejected: %v", err)
	}
	n := params.N()
	kgen := rlwe.NewKeyGenerator(params)
	sk := kgen.GenSecretKeyNew()
	sInts, err := secretInts(params, sk)
	if err != nil {
		return h.Failf("C03:GenSecretKey:limbs-inconsistent", "%v", err)
	}
	sStat := statsOf(sInts)
	sigma := nominalStd(c.Spec.Xe, n)
	be := c.Spec.Xe.AbsBound()
	rec.Classf("subject=%s", c.Subject)
	rec.Classf("N=%d", n)
	rec.Classf("xe=%s", distClass(c.Spec.Xe))
	rec.Classf("xs=%s", distClass(c.Spec.Xs))
	key := "C03:stats:" + c.Subject

	band := func(p *pool, what string, upper bool, want float64) error {
		got := p.std()
		if got < 0.8*want || (upper && got > 1.25*want) {
			return h.Failf(key+":error-std", "%s: empirical standard deviation %.4g over %d coefficients, declared distribution gives %.4g (accepted [0.8, %s] x)", what, got, p.n, want, map[bool]string{true: "1.25", false: "inf"}[upper])
		}
		rec.Note("std/nominal", got/want)
		return nil
	}

	switch c.Subject {
	case "sk-ct", "pk-ct":
		level := c.Level
		ringQ := params.RingQ().AtLevel(level)
		qs := params.Q()[:level+1]
		var enc *rlwe.Encryptor
		var pk *rlwe.PublicKey
		if c.Subject == "sk-ct" {
			enc = rlwe.NewEncryptor(params, sk)
		} else {
			pk = kgen.GenPublicKeyNew(sk)
			enc = rlwe.NewEncryptor(params, pk)
		}
		{
			path := "sk"
			if c.Subject == "pk-ct" {
				path = "pk-nop"
				if len(c.Spec.P) > 0 {
					path = "pk-moddown"
				}
			}
			if sparseErrClass(c.Spec, c.IsNTT, path) && rec.Known(keySparseErr, "statistics skipped for this input class") {
				rec.Class("known=" + keySparseErr)
				return nil
			}
		}
		dec := rlwe.NewDecryptor(params, sk)
		errs := &pool{}
		masks := newLimbPools(qs)
		zero := ringQ.NewPoly()
		for errs.n < statSamples {
			ct := rlwe.NewCiphertext(params, 1, level)
			ct.IsNTT = c.IsNTT
			skip, err := guard(c.Spec, level < params.MaxLevel(), rec, func() error { return enc.EncryptZero(ct) })
			if skip {
				return nil
			}
			if err != nil {
				if _, ok := err.(*h.Failure); ok {
					return err
				}
				return h.Failf(key+":error", "unexpected error: %v", err)
			}
			out := dec.DecryptNew(ct)
			raw, _, _ := diffCentred(ringQ, out.Value, zero, c.IsNTT)
			errs.add(raw)
			c1 := *ct.Value[1].CopyNew()
			addLimbs(masks, c1.Coeffs[:level+1])
		}
		rec.Classf("flags=ntt:%v", c.IsNTT)
		rec.Classf("level=%s", levelClass(level, params.MaxLevel()))
		Q := h.ProdU(qs)
		if c.Subject == "sk-ct" {
			if errs.maxAbs > be {
				return h.Failf(key+":error-bound", "sk error coefficient %v exceeds the declared bound %v", errs.maxAbs, be)
			}
			// the lower bound needs the error to be readable: bound << Q
			if 16*be < bigToFloat(Q) {
				if err := band(errs, "fresh sk ciphertext", true, sigma); err != nil {
					return err
				}
				rec.NonTrivial(fmt.Sprintf("stat|sk-ct|%s|ntt=%v|lvl=%s", specClass(c.Spec), c.IsNTT, levelClass(level, params.MaxLevel())))
			}
		} else {
			// e_pk = pk0 + pk1*s, exact
			rqp := params.RingQP()
			eRaw, eDom, _ := qpDecrypt(params, params.MaxLevelQ(), params.MaxLevelP(), pk.Value[0], pk.Value[1], sk, true)
			_ = eRaw
			var epk2 float64
			for _, x := range eDom {
				f := bigToFloat(x)
				epk2 += f * f
			}
			_ = rqp
			se2 := sigma * sigma
			varE := secretVar(c.Spec.Xs, n)*epk2 + se2*(sStat.l2sq+1)
			var pred float64
			ub := pkNoiseBound(c.Spec, sStat)
			readable := true
			if len(c.Spec.P) > 0 {
				// error = round(S + E/P) with S = sum_i s_i d_i, d_i the (uniform in [-1/2,1/2]) rounding residues of c1/P:
				// Var S = |s|_2^2/12. The rounding of c0 is NOT an independent extra term (it absorbs S: for a monomial
				// secret the error is identically 0), so the prediction is only meaningful once Var S >= 1.
				p0 := float64(c.Spec.P[0])
				pred = math.Sqrt(sStat.l2sq/12 + varE/(p0*p0))
				ub = ub/p0 + modDownSlack(c.Spec, sStat)
				readable = sStat.l2sq >= 12
				if !readable {
					rec.Class("pk-moddown:lower-bound-skipped(small-secret)")
				}
			} else {
				pred = math.Sqrt(varE)
			}
			if readable && 16*ub < bigToFloat(Q) {
				if err := band(errs, "fresh pk ciphertext", false, pred); err != nil {
					return err
				}
				rec.NonTrivial(fmt.Sprintf("stat|pk-ct|%s|ntt=%v|lvl=%s", specClass(c.Spec), c.IsNTT, levelClass(level, params.MaxLevel())))
			}
		}
		// c1 of an sk ciphertext is the uniform mask itself (in either domain): independent uniform words. c1 of a pk
		// ciphertext is u*pk1+e1 for a FIXED pk1 and a low-entropy u (e.g. Hamming weight 1): its words are neither
		// independent nor, pooled under one key, uniform, so no such test is made there (the round-trip property checks
		// that two pk encryptions differ and that a wrong key reads nothing).
		if c.Subject == "sk-ct" {
			if err := checkUniform(masks, key, "c1"); err != nil {
				return err
			}
			rec.Class("mask=checked")
		}

	case "pk-key":
		lq, lp := params.MaxLevelQ(), params.MaxLevelP()
		qs := qpModuli(params, lq, lp)
		errs := &pool{}
		masks := newLimbPools(qs)
		var prev *rlwe.PublicKey
		for errs.n < statSamples {
			pk := kgen.GenPublicKeyNew(sk)
			if prev != nil && ((!sStat.zero && qpEqual(prev.Value[0], pk.Value[0], lq, lp)) || qpEqual(prev.Value[1], pk.Value[1], lq, lp)) {
				return h.Failf(key+":repeat:component-equal", "two public keys of the same secret share a component")
			}
			prev = pk
			_, dom, _ := qpDecrypt(params, lq, lp, pk.Value[0], pk.Value[1], sk, true)
			errs.add(dom)
			addLimbs(masks, qpLimbs(pk.Value[1], lq, lp))
		}
		if errs.maxAbs > be {
			return h.Failf(key+":error-bound", "public-key error coefficient %v exceeds the declared bound %v", errs.maxAbs, be)
		}
		if err := band(errs, "public key", true, sigma); err != nil {
			return err
		}
		if err := checkUniform(masks, key, "pk[1]"); err != nil {
			return err
		}
		rec.NonTrivial(fmt.Sprintf("stat|pk-key|%s", specClass(c.Spec)))

	default: // evk, rlk, gk
		lq, lp := c.LevelQ, c.LevelP
		if lp > params.MaxLevelP() {
			lp = params.MaxLevelP()
		}
		evkParams := rlwe.EvaluationKeyParameters{LevelQ: &lq, LevelP: &lp, BaseTwoDecomposition: &c.Base2, Compressed: c.Compr}
		rqp := params.RingQP().AtLevel(lq, lp)
		ringQ := params.RingQ().AtLevel(lq)
		qs := qpModuli(params, lq, lp)
		// one pool per component class (RNS group i, base-2 digit j): a defect confined to one digit or one group must not
		// be diluted by the others
		type cls struct{ i, j int }
		errsIJ := map[cls]*pool{}
		masksIJ := map[cls][]*limbPool{}
		var order []cls
		gens := 0
		skOut := kgen.GenSecretKeyNew()
		rec.Classf("levelQ=%s", levelClass(lq, params.MaxLevelQ()))
		rec.Classf("levelP=%d/of%d", lp, params.MaxLevelP())
		rec.Classf("base2=%v", c.Base2 != 0)
		rec.Classf("compressed=%v", c.Compr)

		// P (product of the first lp+1 special primes) as an RNS scalar over the Q limbs
		Pbig := big.NewInt(1)
		if lp >= 0 {
			Pbig = h.ProdU(params.P()[:lp+1])
		}
		group := lp + 1
		if group == 0 {
			group = 1
		}

		for gens*n < statSamples {
			gens++
			var gct *rlwe.GadgetCiphertext
			var sIn ring.Poly        // NTT + Montgomery, Q limbs
			var sDec *rlwe.SecretKey // the key the components are encrypted under
			skip, gerr := guard(c.Spec, lq < params.MaxLevelQ(), rec, func() error {
				switch c.Subject {
				case "evk":
					evk := kgen.GenEvaluationKeyNew(sk, skOut, evkParams)
					if c.Compr {
						if err := evk.Expand(params, nil); err != nil {
							return h.Failf(key+":expand", "Expand: %v", err)
						}
					}
					gct, sIn, sDec = &evk.GadgetCiphertext, sk.Value.Q, skOut
				case "rlk":
					rlk := kgen.GenRelinearizationKeyNew(sk, evkParams)
					if c.Compr {
						if err := rlk.Expand(params, nil); err != nil {
							return h.Failf(key+":expand", "Expand: %v", err)
						}
					}
					s2 := params.RingQ().NewPoly()
					params.RingQ().MulCoeffsMontgomery(sk.Value.Q, sk.Value.Q, s2)
					gct, sIn, sDec = &rlk.GadgetCiphertext, s2, sk
				default:
					var galEl uint64
					if c.GalK < 0 && !c.Spec.CI {
						galEl = params.GaloisElementOrderTwoOrthogonalSubgroup()
					} else {
						k := c.GalK
						if k < 0 {
							k = 1
						}
						galEl = params.GaloisElement(k)
					}
					gk := kgen.GenGaloisKeyNew(galEl, sk, evkParams)
					if c.Compr {
						if err := gk.Expand(params, nil); err != nil {
							return h.Failf(key+":expand", "Expand: %v", err)
						}
					}
					// encrypted under pi_{g^-1}(s), message s
					so := rlwe.NewSecretKey(params)
					params.RingQP().AutomorphismNTT(sk.Value, params.ModInvGaloisElement(galEl), so.Value)
					gct, sIn, sDec = &gk.GadgetCiphertext, sk.Value.Q, so
				}
				return nil
			})
			if skip {
				return nil
			}
			if gerr != nil {
				return gerr
			}

			var prevA *ringqp.Poly
			for i := range gct.Value {
				for j := range gct.Value[i] {
					comp := gct.Value[i][j]
					if len(comp) != 2 {
						return h.Failf(key+":shape", "component [%d][%d] has %d polynomials", i, j, len(comp))
					}
					if prevA != nil && qpEqual(*prevA, comp[1], lq, lp) {
						return h.Failf(key+":repeat:component-equal", "components share the mask polynomial")
					}
					a := comp[1]
					prevA = &a
					// v = c0 + c1*s_dec  (NTT, Montgomery)
					v := rqp.NewPoly()
					v.CopyLvl(lq, lp, comp[0])
					rqp.MulCoeffsMontgomeryThenAdd(comp[1], sDec.Value, v)
					// subtract the gadget term P * 2^(w*j) * s_in on the Q limbs of RNS group i
					f := new(big.Int).Lsh(Pbig, uint(c.Base2*j))
					for k := 0; k < group; k++ {
						idx := i*group + k
						if idx > lq {
							break
						}
						q := params.Q()[idx]
						fq := new(big.Int).Mod(f, h.BU(q)).Uint64()
						sub := ringQ.SubRings[idx]
						// both v and s_in are in Montgomery form: plain modular multiplication by the scalar
						for w := 0; w < n; w++ {
							t := mulmod(sIn.Coeffs[idx][w], fq, q)
							v.Q.Coeffs[idx][w] = submod(v.Q.Coeffs[idx][w], t, q)
						}
						_ = sub
					}
					rqp.INTT(v, v)
					rqp.IMForm(v, v)
					e, _ := centred(qpLimbs(v, lq, lp), qs)
					if m := bigToFloat(h.InfNorm(e)); m > be {
						return h.Failf(key+":error-bound", "component [%d][%d]: error coefficient %v exceeds the declared bound %v (levelQ=%d levelP=%d base2=%d)", i, j, m, be, lq, lp, c.Base2)
					}
					k := cls{i, j}
					if errsIJ[k] == nil {
						errsIJ[k] = &pool{}
						masksIJ[k] = newLimbPools(qs)
						for _, l := range masksIJ[k] {
							l.cap = 1024
						}
						order = append(order, k)
					}
					errsIJ[k].add(e)
					addLimbs(masksIJ[k], qpLimbs(comp[1], lq, lp))
				}
			}
		}
		for _, k := range order {
			what := fmt.Sprintf("%s component [%d][%d] (levelQ=%d levelP=%d base2=%d)", c.Subject, k.i, k.j, lq, lp, c.Base2)
			if err := band(errsIJ[k], what, true, sigma); err != nil {
				return err
			}
			if err := checkUniform(masksIJ[k], key, what+" mask"); err != nil {
				return err
			}
		}
		rec.Classf("evk-classes=%s", map[bool]string{true: "1", false: ">1"}[len(order) == 1])
		rec.NonTrivial(fmt.Sprintf("stat|%s|%s|lq=%s|lp=%d|b2=%v|compr=%v|gal=%d", c.Subject, specClass(c.Spec), levelClass(lq, params.MaxLevelQ()), lp, c.Base2 != 0, c.Compr, c.GalK))
	}
	return nil
}

func mulmod(a, b, q uint64) uint64 {
	hi, lo := bits.Mul64(a%q, b%q)
	_, r := bits.Div64(hi, lo, q)
	return r
}

func submod(a, b, q uint64) uint64 {
	a %= q
	b %= q
	if a >= b {
		return a - b
	}
	return a + q - b
}

var propStat = h.NewProp("TestPropNoiseStats", h.Budget{Quick: 800, Thorough: 6000}, genStat, runStat)

func TestPropNoiseStats(t *testing.T) { propStat.Check(t) }
