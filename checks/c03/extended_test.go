package c03

import (
	"fmt"
	"math/big"
	"testing"

	"verif/internal/h"

	"github.com/tuneinsight/lattigo/v6/core/rlwe"
	"github.com/tuneinsight/lattigo/v6/ring/ringqp"
	"pgregory.net/rapid"
)

// QPCase: EncryptZero into an rlwe.Element[ringqp.Poly] (the form used for public keys, evaluation keys and RGSW
// rows), decrypted by the harness with the secret key over Q*P.
type QPCase struct {
	Spec   h.RLWESpec `json:"spec"`
	Seed   uint64     `json:"seed"`
	Kind   string     `json:"kind"`  // "sk" | "pk"
	Route  string     `json:"route"` // encryptor construction route
	Degree int        `json:"degree"`
	LevelQ int        `json:"levelQ"`
	LevelP int        `json:"levelP"` // -1: no P limbs (sk only)
	IsNTT  bool       `json:"isNTT"`
	IsMont bool       `json:"isMont"`
	Dirty  bool       `json:"dirty"`
}

func (c QPCase) RandSeed() uint64 { return c.Seed }

func genQP(t *rapid.T) QPCase {
	var c QPCase
	c.Spec = genSpec(t, 0)
	c.Seed = rapid.Uint64().Draw(t, "seed")
	c.Kind = "sk"
	if len(c.Spec.P) > 0 && rapid.Bool().Draw(t, "pk") {
		c.Kind = "pk"
	}
	c.Route = encRoutes[rapid.IntRange(0, len(encRoutes)-1).Draw(t, "route")]
	L := len(c.Spec.Q) - 1
	switch rapid.IntRange(0, 2).Draw(t, "lqK") {
	case 0:
		c.LevelQ = L
	default:
		c.LevelQ = rapid.IntRange(0, L).Draw(t, "levelQ")
	}
	maxP := len(c.Spec.P) - 1
	minP := -1
	if c.Kind == "pk" {
		minP = 0
	}
	switch rapid.IntRange(0, 2).Draw(t, "lpK") {
	case 0:
		c.LevelP = maxP
	default:
		c.LevelP = rapid.IntRange(minP, maxP).Draw(t, "levelP")
	}
	c.Degree = 1
	if c.Kind == "sk" && rapid.IntRange(0, 3).Draw(t, "compressed") == 0 {
		c.Degree = 0
		if c.Route != "withprng" && c.Route != "withprng-shallow" {
			c.Route = "withprng"
		}
	}
	// every lattigo caller passes IsNTT = IsMontgomery = true; the other combinations are the statement's flag quantifier
	c.IsNTT = rapid.IntRange(0, 2).Draw(t, "isNTT") != 0
	c.IsMont = rapid.IntRange(0, 2).Draw(t, "isMont") != 0
	c.Dirty = rapid.Bool().Draw(t, "dirty")
	return c
}

// qpDecrypt returns c0 + c1*s over Q_levelQ * P_levelP as centred integers of the coefficient domain, under the raw
// and the Montgomery-domain reading.
func qpDecrypt(params rlwe.Parameters, lq, lp int, c0, c1 ringqp.Poly, sk *rlwe.SecretKey, isNTT bool) (raw, dom []*big.Int, QP *big.Int) {
	rqp := params.RingQP().AtLevel(lq, lp)
	acc := rqp.NewPoly()
	tmp := rqp.NewPoly()
	if isNTT {
		acc.CopyLvl(lq, lp, c0)
		tmp.CopyLvl(lq, lp, c1)
	} else {
		rqp.NTT(c0, acc)
		rqp.NTT(c1, tmp)
	}
	// sk is stored NTT + Montgomery: MulCoeffsMontgomery(x, sk) = x*s in the domain of x
	rqp.MulCoeffsMontgomeryThenAdd(tmp, sk.Value, acc)
	rqp.INTT(acc, acc)
	qs := qpModuli(params, lq, lp)
	raw, QP = centred(qpLimbs(acc, lq, lp), qs)
	rqp.IMForm(acc, acc)
	dom, _ = centred(qpLimbs(acc, lq, lp), qs)
	return
}

func qpEqual(a, b ringqp.Poly, lq, lp int) bool {
	for i := 0; i <= lq; i++ {
		for j := range a.Q.Coeffs[i] {
			if a.Q.Coeffs[i][j] != b.Q.Coeffs[i][j] {
				return false
			}
		}
	}
	for i := 0; i <= lp; i++ {
		for j := range a.P.Coeffs[i] {
			if a.P.Coeffs[i][j] != b.P.Coeffs[i][j] {
				return false
			}
		}
	}
	return true
}

func runQP(c QPCase, rec *h.Rec) error {
	params, err := c.Spec.Build()
	if err != nil {
		return h.Failf("C03:params-rejected", "generated literal rejected: %v", err)
	}
	n := params.N()
	kgen := rlwe.NewKeyGenerator(params)
	sk := kgen.GenSecretKeyNew()
	sk2 := kgen.GenSecretKeyNew()
	sInts, err := secretInts(params, sk)
	if err != nil {
		return h.Failf("C03:GenSecretKey:limbs-inconsistent", "%v", err)
	}
	s2Ints, err := secretInts(params, sk2)
	if err != nil {
		return h.Failf("C03:GenSecretKey:limbs-inconsistent", "%v", err)
	}
	sStat := statsOf(sInts)

	var key, other rlwe.EncryptionKey = sk, sk2
	if c.Kind == "pk" {
		key = kgen.GenPublicKeyNew(sk)
	}
	keyHash := hashKeysQP(sk, sk2, key)
	enc := buildEncryptor(params, c.Route, key, other, c.Seed)
	seeded := (c.Route == "withprng" || c.Route == "withprng-shallow") && c.Kind == "sk"

	lq, lp := c.LevelQ, c.LevelP
	rqp := params.RingQP().AtLevel(lq, lp)
	rng := h.NewSplitMix(c.Seed ^ 0x5151)

	var encryptRaw func() (*rlwe.Element[ringqp.Poly], error)
	encryptOnce := func() (x *rlwe.Element[ringqp.Poly], err error) {
		var skip bool
		skip, err = guard(c.Spec, c.LevelQ < len(c.Spec.Q)-1, rec, func() (e error) { x, e = encryptRaw(); return })
		if skip {
			return nil, errSkip
		}
		return
	}
	encryptRaw = func() (*rlwe.Element[ringqp.Poly], error) {
		el := rlwe.NewElementExtended(params, c.Degree, lq, lp)
		if c.Dirty {
			for i := range el.Value {
				for k := 0; k <= lq; k++ {
					q := params.Q()[k]
					for j := 0; j < n; j++ {
						el.Value[i].Q.Coeffs[k][j] = rng.Uint64() % q
					}
				}
				for k := 0; k <= lp; k++ {
					p := params.P()[k]
					for j := 0; j < n; j++ {
						el.Value[i].P.Coeffs[k][j] = rng.Uint64() % p
					}
				}
			}
		}
		el.MetaData = &rlwe.MetaData{}
		el.IsNTT = c.IsNTT
		el.IsMontgomery = c.IsMont
		return el, enc.EncryptZero(*el)
	}

	var aSampler ringqp.UniformSampler
	if seeded {
		// the same construction as EvaluationKey.Expand uses to regenerate the second component of a compressed key
		aSampler = ringqp.NewUniformSampler(keyedPRNG(c.Seed, "a"), *params.RingQP()).AtLevel(lq, lp)
	}
	kbase := fmt.Sprintf("C03:EncryptZeroQP:%s", c.Kind)
	components := func(el *rlwe.Element[ringqp.Poly]) (c0, c1 ringqp.Poly, err error) {
		c0 = el.Value[0]
		if !seeded {
			return c0, el.Value[1], nil
		}
		a := rqp.NewPoly()
		aSampler.Read(a)
		if c.Degree == 1 {
			if !qpEqual(a, el.Value[1], lq, lp) {
				return c0, a, h.Failf(kbase+":withprng:c1-not-from-prng", "c1 differs from the stream of the PRNG given to WithPRNG")
			}
		}
		return c0, a, nil
	}

	el, err := encryptOnce()
	if err == errSkip {
		return nil
	}
	if err != nil {
		return h.Failf(kbase+":error", "unexpected error: %v", err)
	}
	rec.Classf("kind=%s", c.Kind)
	rec.Classf("route=%s", c.Route)
	rec.Classf("degree=%d", c.Degree)
	rec.Classf("levelQ=%s", levelClass(lq, len(c.Spec.Q)-1))
	rec.Classf("levelP=%d/of%d", lp, len(c.Spec.P)-1)
	rec.Classf("flags=ntt:%v,mont:%v", c.IsNTT, c.IsMont)
	rec.Classf("N=%d", n)

	if el.IsNTT != c.IsNTT || el.IsMontgomery != c.IsMont {
		return h.Failf(kbase+":metadata", "flags changed to ntt=%v mont=%v", el.IsNTT, el.IsMontgomery)
	}
	c0, c1, err := components(el)
	if err != nil {
		return err
	}
	raw, dom, QP := qpDecrypt(params, lq, lp, c0, c1, sk, c.IsNTT)

	var bound float64
	if c.Kind == "sk" {
		bound = c.Spec.Xe.AbsBound()
	} else {
		bound = pkNoiseBound(c.Spec, sStat)
	}
	bBig := bigOfFloat(bound)
	discriminates := bBig.Cmp(new(big.Int).Rsh(QP, 4)) < 0
	nRaw, nDom := h.InfNorm(raw), h.InfNorm(dom)
	okRaw, okDom := nRaw.Cmp(bBig) <= 0, nDom.Cmp(bBig) <= 0
	// pk path: honours the flag. sk path (encryptZeroSkFromC1QP): always Montgomery, whatever the flag; every lattigo
	// caller sets it, so only the flag-set case is pinned (flag clear: either reading, recorded).
	if discriminates && (c.Kind == "pk" || c.IsMont) {
		wantOK, otherOK := okRaw, okDom
		if c.IsMont {
			wantOK, otherOK = okDom, okRaw
		}
		if !wantOK && otherOK {
			return h.Failf(kbase+":montgomery-flag-not-honoured", "IsMontgomery=%v but the error is small only under the other reading: %s (raw) / %s (after IMForm), bound %s", c.IsMont, nRaw, nDom, bBig)
		}
	} else if c.Kind == "sk" && !c.IsMont {
		rec.Class("sk-qp:montflag-clear:ignored")
	}
	switch {
	case okRaw && okDom:
		rec.Class("mont=both")
	case okRaw:
		rec.Class("mont=raw")
	case okDom:
		rec.Class("mont=domain")
	default:
		return h.Failf(kbase+fmt.Sprintf(":degree%d:noise-above-bound", c.Degree), "|c0+c1*s|_inf = %s (raw) / %s (Montgomery reading), bound %s, QP has %d bits (levelQ=%d levelP=%d)", nRaw, nDom, bBig, QP.BitLen(), lq, lp)
	}

	if c.Kind == "sk" && nRaw.Sign() == 0 && zeroProbLog2(c.Spec.Xe, n) < -50 {
		return h.Failf(kbase+":error-identically-zero", "c0 + c1*s == 0 exactly: no error was added (declared Xe %+v)", c.Spec.Xe)
	}

	if c.Kind == "pk" {
		reused, applicable := errorReused(params, c.Spec, lq, lp, c0, c1, key.(*rlwe.PublicKey), c.IsNTT)
		if applicable {
			rec.Class("reuse=checked")
			if reused {
				return h.Failf(kbase+":error-reused", "(c0-c1)/(pk0-pk1) is a polynomial of the secret distribution's size: c0 and c1 carry the same error polynomial")
			}
		}
	}

	// second encryption: differs, decrypts
	el2, err := encryptOnce()
	if err == errSkip {
		return nil
	}
	if err != nil {
		return h.Failf(kbase+":error", "unexpected error: %v", err)
	}
	d0, d1, err := components(el2)
	if err != nil {
		return err
	}
	c0OK := c.Kind != "sk" || !sStat.zero || collisionBits(c.Spec.Xe, n) >= 50
	if (c.Kind == "sk" || collisionBits(c.Spec.Xs, n) >= 50) && ((c0OK && qpEqual(c0, d0, lq, lp)) || qpEqual(c1, d1, lq, lp)) {
		return h.Failf(kbase+":repeat:component-equal", "two zero-encryptions share a component")
	}
	raw2, dom2, _ := qpDecrypt(params, lq, lp, d0, d1, sk, c.IsNTT)
	if h.InfNorm(raw2).Cmp(bBig) > 0 && h.InfNorm(dom2).Cmp(bBig) > 0 {
		return h.Failf(kbase+":repeat:noise-above-bound", "second encryption: |c0+c1*s|_inf = %s / %s, bound %s", h.InfNorm(raw2), h.InfNorm(dom2), bBig)
	}

	// wrong key. A pk encryption whose mask u is zero has c1 = e1: left out of the pool when the declared Xs allows u = 0
	// with probability >= 2^-50, a violation otherwise.
	if !equalInts(sInts, s2Ints) {
		be := bigOfFloat(c.Spec.Xe.AbsBound())
		c1Small := func(x1 ringqp.Poly) bool {
			if c.Kind != "pk" {
				return false
			}
			t := rqp.NewPoly()
			t.CopyLvl(lq, lp, x1)
			if c.IsNTT {
				rqp.INTT(t, t)
			}
			qs := qpModuli(params, lq, lp)
			r, _ := centred(qpLimbs(t, lq, lp), qs)
			rqp.IMForm(t, t)
			d, _ := centred(qpLimbs(t, lq, lp), qs)
			return h.InfNorm(r).Cmp(be) <= 0 || h.InfNorm(d).Cmp(be) <= 0
		}
		total, tries, left := 0, 0, 0
		sum, max := new(big.Int), new(big.Int)
		x0, x1 := c0, c1
		for {
			tries++
			if c1Small(x1) {
				if zeroProbLog2(c.Spec.Xs, n) < -50 {
					return h.Failf(kbase+":degenerate-mask", "c1 of a public-key zero-encryption is within the error bound: the mask u*pk1 is missing")
				}
				left++
			} else {
				r, _, _ := qpDecrypt(params, lq, lp, x0, x1, sk2, c.IsNTT)
				sa, m := sumAbsAndMax(r)
				sum.Add(sum, sa)
				if m.Cmp(max) > 0 {
					max.Set(m)
				}
				total += n
			}
			if total >= 256 || tries >= 40 {
				break
			}
			nx, err := encryptOnce()
			if err == errSkip {
				return nil
			}
			if err != nil {
				return h.Failf(kbase+":error", "unexpected error: %v", err)
			}
			if x0, x1, err = components(nx); err != nil {
				return err
			}
		}
		if total >= 256 {
			q8 := new(big.Int).Rsh(QP, 3)
			mean := new(big.Int).Div(sum, big.NewInt(int64(total)))
			if max.Cmp(q8) < 0 || mean.Cmp(q8) < 0 {
				return h.Failf(kbase+":wrong-key:readable", "c0+c1*s' for an independent s': max %s, mean %s over %d coefficients, QP/8 = %s", max, mean, total, q8)
			}
			rec.Classf("wrongkey=checked:%s", c.Kind)
			if left > 0 {
				rec.Class("wrongkey:zero-mask-left-out")
			}
		} else {
			rec.Class("wrongkey=skipped")
		}
	} else {
		rec.Class("wrongkey=skipped")
	}

	// keys untouched by all the above
	if hashKeysQP(sk, sk2, key) != keyHash {
		return h.Failf(kbase+":input-modified:key", "a key was modified by EncryptZero")
	}

	if discriminates {
		rec.NonTrivial(fmt.Sprintf("qp|%s|%s|%s|deg%d|lq=%s|lp=%d|ntt=%v,mont=%v|dirty=%v", specClass(c.Spec), c.Kind, c.Route, c.Degree, levelClass(lq, len(c.Spec.Q)-1), lp, c.IsNTT, c.IsMont, c.Dirty))
	} else {
		rec.Class("bound>=QP/16")
	}
	return nil
}

var propQP = h.NewProp("TestPropExtendedElement", h.Budget{Quick: 1600, Thorough: 16000}, genQP, runQP)

func TestPropExtendedElement(t *testing.T) { propQP.Check(t) }

func hashKeysQP(sk, sk2 *rlwe.SecretKey, key rlwe.EncryptionKey) uint64 {
	x := uint64(0xcbf29ce484222325)
	for _, k := range []*rlwe.SecretKey{sk, sk2} {
		x = hashPoly(x, k.Value.Q)
		x = hashPoly(x, k.Value.P)
	}
	if pk, ok := key.(*rlwe.PublicKey); ok {
		for _, v := range pk.Value {
			x = hashPoly(x, v.Q)
			x = hashPoly(x, v.P)
		}
	}
	return x
}
