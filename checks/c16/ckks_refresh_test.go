package c16

import (
	"fmt"
	"math"
	"math/big"
	"testing"

	"verif/internal/h"

	"github.com/tuneinsight/lattigo/v6/core/rlwe"
	"github.com/tuneinsight/lattigo/v6/multiparty"
	"github.com/tuneinsight/lattigo/v6/multiparty/mpckks"
	"github.com/tuneinsight/lattigo/v6/ring"
	"github.com/tuneinsight/lattigo/v6/schemes/ckks"
	"github.com/tuneinsight/lattigo/v6/utils/bignum"
)

func runCKKSRefresh(c CKKSCase, rec *h.Rec) error {
	return ciOneSlot(c, rec, runCKKSRefreshBody(c, rec))
}

// pairs builds the complex vector the protocol hands to the transform: z_j = a_j + i a_{j+slots} in the standard ring,
// z_j = a_j - i a_{slots-j} (z_0 = a_0) in the conjugate-invariant ring.
func pairs(a []*big.Int, slots int, ci bool, prec uint) []*bignum.Complex {
	z := make([]*bignum.Complex, slots)
	for j := range z {
		z[j] = &bignum.Complex{new(big.Float).SetPrec(prec).SetInt(a[j]), new(big.Float).SetPrec(prec)}
	}
	if ci {
		for j := 1; j < slots; j++ {
			z[j][1].Neg(z[slots-j][0])
		}
	} else {
		for j := 0; j < slots; j++ {
			z[j][1].SetInt(a[j+slots])
		}
	}
	return z
}

// ckksRound is one ciphertext sent through the (re-used) protocol instances of a refresh / transform case.
type ckksRound struct {
	m       *ckksMsg
	levelE  int
	levelO  int
	merges  []Merge
	outMode int
	seed    uint64
	first   bool
}

func runCKKSRefreshBody(c CKKSCase, rec *h.Rec) error {
	if c.Mode != "refresh" && c.Mode != "transform" {
		return nil
	}
	isT := c.Mode == "transform"
	if isT {
		if c.Decode && !c.Batched || c.Encode && !c.Decode && c.Batched {
			return nil // combinations the protocol documents as errors
		}
	} else if !c.Batched {
		return nil
	}
	otherParams := c.Out != nil
	if otherParams && !isT {
		return nil
	}
	x, err := setupCKKS(c, true, rec)
	if x == nil || err != nil {
		return err
	}
	params, n := x.params, c.Parties
	ci := params.RingType() == ring.ConjugateInvariant
	slots := 1 << c.LogSlots
	prec := x.logBound + uint(c.PrecExtra)
	if prec < 64 {
		// a precision <= 53 makes ckks.Encoder use float64 roots, and the protocol's FFT/IFFT on big complex numbers then
		// returns an error ("values.(type) doesn't roots.(type)"): only reachable with lambda < 64, not a message failure
		prec = 64
	}

	paramsOut := params
	oSpec := c.outSpec()
	if otherParams {
		maxOut := oSpec.LogN - 1
		if oSpec.CI {
			maxOut = oSpec.LogN
		}
		if c.LogSlots > maxOut || oSpec.LogN < 4 || oSpec.LogScale < 10 || oSpec.LogScale > 50 {
			return nil
		}
		if paramsOut, err = oSpec.Build(); err != nil {
			return nil
		}
		rec.Classf("paramsOut:logN%+d", oSpec.LogN-c.Params.LogN)
		if c.WithParams {
			rec.Class("via-WithParams")
		}
	}
	gapOut := paramsOut.N() / x.dslots

	outKeys := x.in
	if isT && (c.NewKey || otherParams) {
		outKeys = newKeySet(paramsOut.Parameters, n, nil)
	}
	var tf *mpckks.MaskedLinearTransformationFunc
	var f cLinFunc
	if isT {
		f = newCLinFunc(c.FKind, c.FSeed, slots, ci)
		tf = &mpckks.MaskedLinearTransformationFunc{Decode: c.Decode, Func: f.apply, Encode: c.Encode}
		rec.Classf("transform:decode=%v,encode=%v,batched=%v", c.Decode, c.Encode, c.Batched)
		rec.Classf("f=%s", c.FKind)
	} else {
		rec.Class("refresh")
	}
	rec.Classf("outMode=%d", c.OutMode)
	rec.Classf("precExtra=%d", c.PrecExtra)

	// ---- protocol instances (created once, used for every ciphertext of the case) ---------------------------------------
	var mltp0 mpckks.MaskedLinearTransformationProtocol
	var rfp0 mpckks.RefreshProtocol
	if isT {
		if c.WithParams && otherParams {
			base, err := mpckks.NewMaskedLinearTransformationProtocol(params, params, prec, x.noise)
			if err != nil {
				return h.Failf("C16:mpckks:NewMaskedLinearTransformationProtocol:error", "%v", err)
			}
			mltp0 = base.WithParams(paramsOut)
		} else if mltp0, err = mpckks.NewMaskedLinearTransformationProtocol(params, paramsOut, prec, x.noise); err != nil {
			return h.Failf("C16:mpckks:NewMaskedLinearTransformationProtocol:error", "%v", err)
		}
	} else {
		if rfp0, err = mpckks.NewRefreshProtocol(params, prec, x.noise); err != nil {
			return h.Failf("C16:mpckks:NewRefreshProtocol:error", "%v", err)
		}
		mltp0 = rfp0.MaskedLinearTransformationProtocol
	}
	inst := make([]mpckks.MaskedLinearTransformationProtocol, n)
	for i := range inst {
		if i == 0 || !c.Shallow {
			inst[i] = mltp0
		} else {
			inst[i] = mltp0.ShallowCopy()
		}
	}
	skSnap := x.in.shares[0].Value.Q.CopyNew()
	skOutSnap := outKeys.shares[0].Value.Q.CopyNew()
	ecd512 := ckks.NewEncoder(params, 512)
	D := new(big.Float).SetPrec(512).SetMantExp(big.NewFloat(1), oSpec.LogScale) // default scale of the output parameters
	Df, _ := D.Float64()

	drng := h.NewSplitMix(c.Seed ^ 0xd1b54a32d192ed03)
	dd := dirtier{on: c.Dirty, rng: drng, rQ: params.RingQ()}
	ddO := dirtier{on: c.Dirty, rng: drng, rQ: paramsOut.RingQ()}
	if c.Dirty {
		rec.Class("receivers=earlier-content")
	}
	var prevOut *rlwe.Ciphertext
	var lastTol float64

	round := func(r ckksRound) error {
		m, ct := r.m, r.m.ct
		precExtra := float64(prec) - float64(m.logBound) // the second ciphertext may have one more mask bit

		// ---- model: expected integer plaintext of the output ---------------------------------------------------------
		S := new(big.Float).SetPrec(512).SetInt(m.scale)
		ratio := new(big.Float).SetPrec(512).Quo(D, S)
		want := make([]*big.Float, x.dslots)
		gain := 1.0
		if tf == nil {
			for j := range want {
				want[j] = new(big.Float).SetPrec(512).SetInt(m.a[j])
			}
		} else {
			z := pairs(m.a, slots, ci, 512)
			if c.Decode {
				if err := ecd512.FFT(z, c.LogSlots); err != nil {
					return h.Failf("C16:setup:FFT", "%v", err)
				}
				gain *= float64(x.dslots)
			}
			f.apply(z)
			if c.Encode {
				if err := ecd512.IFFT(z, c.LogSlots); err != nil {
					return h.Failf("C16:setup:IFFT", "%v", err)
				}
				gain *= 2
			}
			for j := 0; j < slots; j++ {
				want[j] = new(big.Float).SetPrec(512).Set(z[j][0])
				if !ci {
					want[j+slots] = new(big.Float).SetPrec(512).Set(z[j][1])
				}
			}
		}
		for j := range want {
			want[j].Mul(want[j], ratio)
		}
		ratioF, _ := ratio.Float64()
		precTerm := float64(n+1) * math.Exp2(-precExtra) * gain * 16 * float64(c.LogSlots+2) * ratioF
		tol := 2*gain*(x.bCt+float64(n)*x.bParty)*ratioF + float64(n)*x.bParty + float64(n+2) + precTerm + 2
		tolOff := float64(n) * x.bParty
		lastTol = tol

		crp := mltp0.SampleCRP(r.levelO, x.crs)
		crpSnap := crp.Value.CopyNew()
		ctOrig := ct.CopyNew()
		shares := make([]multiparty.RefreshShare, n)
		for i := 0; i < n; i++ {
			p := inst[i]
			shares[i] = p.AllocateShare(r.levelE, r.levelO)
			dd.poly(shares[i].EncToShareShare.Value)
			ddO.poly(shares[i].ShareToEncShare.Value)
			if isT {
				err = p.GenShare(x.in.shares[i], outKeys.shares[i], m.logBound, ct, crp, tf, &shares[i])
			} else {
				err = mpckks.RefreshProtocol{MaskedLinearTransformationProtocol: p}.GenShare(x.in.shares[i], m.logBound, ct, crp, &shares[i])
			}
			if err != nil {
				return h.Failf("C16:mpckks:"+c.Mode+":GenShare:error", "%v", err)
			}
		}
		if !ct.Equal(ctOrig) {
			return h.Failf("C16:mpckks:"+c.Mode+":GenShare:input-modified", "GenShare modified the input ciphertext")
		}
		if !crp.Value.Equal(crpSnap) || !x.in.shares[0].Value.Q.Equal(skSnap) || !outKeys.shares[0].Value.Q.Equal(skOutSnap) {
			return h.Failf("C16:mpckks:"+c.Mode+":GenShare:input-modified", "GenShare modified the CRP or a secret key")
		}

		// smudging lower bound on refresh shares (see the mpbgv twin): when the ciphertext scale equals the default scale
		// the rescaled mask is the mask itself and cancels between the two halves of an identity-transform share.
		if r.first && !otherParams && c.ScaleMul == 1 {
			lc := r.levelE
			if r.levelO < lc {
				lc = r.levelO
			}
			ringC := params.RingQ().AtLevel(lc)
			residual := func(i int, sh multiparty.RefreshShare) []*big.Int {
				q := ringC.NewPoly()
				ringC.Add(sh.EncToShareShare.Value, sh.ShareToEncShare.Value, q)
				ringC.MulCoeffsMontgomeryThenSub(ct.Value[1], x.in.shares[i].Value.Q, q)
				ringC.MulCoeffsMontgomeryThenAdd(crp.Value, outKeys.shares[i].Value.Q, q)
				ringC.INTT(q, q)
				ringC.Reduce(q, q)
				return centered(ringC, q)
			}
			var pools smudgePools
			pools.off = !statsCase(c.Seed)
			collect := func(k int, v []*big.Int) error {
				if infNorm(v).Cmp(bigF(2*x.bParty)) > 0 {
					return h.Failf("C16:mpckks:"+c.Mode+":GenShare:noise-above-bound", "refresh-share noise 2^%.1f exceeds the hard bound %g (sigma=%g)", log2Big(infNorm(v)), 2*x.bParty, c.Sigma)
				}
				pools.add(k, v)
				return nil
			}
			if !isT {
				for i := range shares {
					k := 1
					if i == 0 || !c.Shallow {
						k = 0
					}
					if err := collect(k, residual(i, shares[i])); err != nil {
						return err
					}
				}
			}
			mC := mltp0.ShallowCopy()
			mCC := mC.ShallowCopy()
			for k := 0; pools.short(0) || pools.short(1); k++ {
				px, kc := mltp0, 0
				if !pools.short(0) {
					px, kc = mC, 1
					if k%2 == 1 {
						px = mCC
					}
				}
				sh := px.AllocateShare(r.levelE, r.levelO)
				if err := px.GenShare(x.in.shares[0], outKeys.shares[0], m.logBound, ct, crp, nil, &sh); err != nil {
					return h.Failf("C16:mpckks:"+c.Mode+":GenShare:error", "%v", err)
				}
				if err := collect(kc, residual(0, sh)); err != nil {
					return err
				}
			}
			if err := pools.check(c.Sigma, math.Sqrt2, "C16:mpckks:"+c.Mode+":GenShare:smudging-too-small", rec); err != nil {
				return err
			}
		}

		copyShare := func(s multiparty.RefreshShare) multiparty.RefreshShare {
			return multiparty.RefreshShare{EncToShareShare: multiparty.KeySwitchShare{Value: *s.EncToShareShare.Value.CopyNew()},
				ShareToEncShare: multiparty.KeySwitchShare{Value: *s.ShareToEncShare.Value.CopyNew()}, MetaData: s.MetaData}
		}
		ref := copyShare(shares[0])
		for i := 1; i < n; i++ {
			if err := mltp0.AggregateShares(&ref, &shares[i], &ref); err != nil {
				return h.Failf("C16:mpckks:"+c.Mode+":AggregateShares:error", "%v", err)
			}
		}
		agg, err := fold(shares, r.merges, func() multiparty.RefreshShare {
			a := mltp0.AllocateShare(r.levelE, r.levelO)
			dd.poly(a.EncToShareShare.Value)
			ddO.poly(a.ShareToEncShare.Value)
			return a
		},
			func(a, b multiparty.RefreshShare, o *multiparty.RefreshShare) error { return mltp0.AggregateShares(&a, &b, o) })
		if err != nil {
			return h.Failf("C16:mpckks:"+c.Mode+":AggregateShares:error", "%v", err)
		}
		if !agg.MetaData.Equal(ct.MetaData) {
			key := "C16:mpckks:AggregateShares:metadata-not-propagated"
			scratch := ckks.NewCiphertext(paramsOut, 1, r.levelO)
			terr := mltp0.Transform(ct.CopyNew(), tf, crp, agg, scratch)
			msg := fmt.Sprintf("RefreshShare aggregated into a freshly allocated share has MetaData %+v instead of the one recorded by GenShare; Transform on it returns: %v", agg.MetaData, terr)
			if rec.Known(key, msg) {
				rec.Class("known=aggregate-metadata")
				agg.MetaData = *ct.MetaData
			} else {
				return h.Failf(key, "%s", msg)
			}
		}
		ringE, ringO := params.RingQ().AtLevel(r.levelE), paramsOut.RingQ().AtLevel(r.levelO)
		if !congruent(ringE, agg.EncToShareShare.Value, ref.EncToShareShare.Value) || !congruent(ringO, agg.ShareToEncShare.Value, ref.ShareToEncShare.Value) {
			return h.Failf("C16:mpckks:"+c.Mode+":AggregateShares:order-dependent", "aggregate depends on the schedule %v", r.merges)
		}

		var out *rlwe.Ciphertext
		rng := h.NewSplitMix(r.seed ^ 0x5bd1e995)
		switch {
		case r.outMode == 0:
			out = ct
		case prevOut != nil && prevOut != ct:
			out = prevOut // receiver with a history: the output of the previous round
			rec.Class("receiver=previous-output")
		case r.outMode == 1:
			out = ckks.NewCiphertext(paramsOut, 1, rng.Intn(paramsOut.MaxLevel()+1))
			*out.MetaData = *ct.MetaData
		default:
			out = ckks.NewCiphertext(paramsOut, 1, rng.Intn(paramsOut.MaxLevel()+1))
		}
		aggSnap := copyShare(agg)
		if isT {
			err = mltp0.Transform(ct, tf, crp, agg, out)
		} else {
			err = rfp0.Finalize(ct, crp, agg, out)
		}
		if err != nil {
			return h.Failf("C16:mpckks:"+c.Mode+":Transform:error", "%v", err)
		}
		if !crp.Value.Equal(crpSnap) || !agg.EncToShareShare.Value.Equal(&aggSnap.EncToShareShare.Value) || !agg.ShareToEncShare.Value.Equal(&aggSnap.ShareToEncShare.Value) {
			return h.Failf("C16:mpckks:"+c.Mode+":Transform:input-modified", "Transform modified the CRP or the aggregated share")
		}
		if out != ct && !ct.Equal(ctOrig) {
			return h.Failf("C16:mpckks:"+c.Mode+":Transform:input-modified", "Transform into another ciphertext modified the input ciphertext")
		}
		if out.Level() != r.levelO {
			return h.Failf("C16:mpckks:"+c.Mode+":Transform:output-level", "output level %d, requested (CRP / share) level %d", out.Level(), r.levelO)
		}
		for i := range out.Value {
			if out.Value[i].N() != paramsOut.N() {
				return h.Failf("C16:mpckks:"+c.Mode+":Transform:output-degree", "output polynomial %d has %d coefficients, output parameters have N=%d", i, out.Value[i].N(), paramsOut.N())
			}
		}
		ds := paramsOut.DefaultScale()
		if out.Scale.Cmp(ds) != 0 {
			return h.Failf("C16:mpckks:"+c.Mode+":Transform:output-scale", "output scale 2^%.3f, documented: default scale of the output parameters 2^%.3f (input scale 2^%.3f)", out.LogScale(), ds.Log2(), log2Big(m.scale))
		}
		// apart from the documented changes (scale = default scale, IsBatched = transform.Encode) the output carries the
		// input's metadata, whatever the receiver held before
		wantMD := *ctOrig.MetaData
		wantMD.Scale = ds
		if tf != nil {
			wantMD.IsBatched = tf.Encode
		}
		if !out.MetaData.Equal(&wantMD) {
			return h.Failf("C16:mpckks:"+c.Mode+":Transform:output-metadata", "output metadata %+v, expected %+v (outMode=%d, first use=%v)", out.MetaData, wantMD, r.outMode, r.first)
		}
		key := fmt.Sprintf("C16:mpckks:%s:wrong-message:decode=%v,encode=%v", c.Mode, c.Decode, c.Encode)
		if err := x.checkOutputP(paramsOut, gapOut, key, out, outKeys.ideal, want, tol, tolOff, rec); err != nil {
			return err
		}
		sameKind := tf == nil || (c.Decode && c.Encode)
		if sameKind {
			// the output is again a batched ciphertext: its own metadata must describe it
			if !out.IsBatched || out.LogDimensions != ctOrig.LogDimensions || !out.IsNTT {
				return h.Failf("C16:mpckks:"+c.Mode+":Transform:output-metadata", "output metadata %+v, input %+v", out.MetaData, ctOrig.MetaData)
			}
			wantV := make([]*bignum.Complex, slots)
			for i := range wantV {
				wantV[i] = m.values[i].Clone()
			}
			if tf != nil {
				f.apply(wantV)
			}
			have := make([]*bignum.Complex, slots)
			if err := ckks.NewEncoder(paramsOut, 256).Decode(rlwe.NewDecryptor(paramsOut, outKeys.ideal).DecryptNew(out), have); err != nil {
				return h.Failf("C16:mpckks:"+c.Mode+":decode-error", "%v", err)
			}
			Sf, _ := S.Float64()
			tolSlot := (tol+1)*float64(x.dslots)/Df + 2*float64(x.dslots)*float64(x.dslots)/Sf + 1e-12
			for i := range have {
				dr, _ := new(big.Float).Sub(have[i][0], wantV[i][0]).Float64()
				di, _ := new(big.Float).Sub(have[i][1], wantV[i][1]).Float64()
				if ci {
					di = 0
				}
				if math.Abs(dr) > tolSlot || math.Abs(di) > tolSlot {
					return h.Failf("C16:mpckks:"+c.Mode+":wrong-values", "slot %d decodes to %v, expected %v (tolerance %.3g, scale in 2^%.2f, default out 2^%d)", i, have[i].Complex128(), wantV[i].Complex128(), tolSlot, log2Big(m.scale), oSpec.LogScale)
				}
			}
		}
		prevOut = out
		return nil
	}

	first := &ckksMsg{ct: x.ct, a: x.a, values: x.values, scale: x.scale, logBound: x.logBound, levelIn: c.LevelIn}
	if err := round(ckksRound{m: first, levelE: c.LevelE, levelO: c.LevelO, merges: c.Merges, outMode: c.OutMode, seed: c.Seed, first: true}); err != nil {
		return err
	}
	firstTol := lastTol
	second := false
	if s := c.Second; s != nil && validMerges(s.Merges, n) && s.ScaleMul >= 1 && s.ScaleMul < 2 && s.LevelIn >= 0 && s.LevelIn < len(c.Params.Q) &&
		s.LevelE >= 0 && s.LevelE <= s.LevelIn && s.LevelO >= 0 && s.LevelO < len(oSpec.Q) && s.OutMode >= 0 && s.OutMode <= 2 {
		sc := scaleIntOf(c.Params.LogScale, s.ScaleMul)
		minLevel, logBound, ok := mpckks.GetMinimumLevelForRefresh(c.Lambda, rlwe.NewScale(sc), n, params.Q())
		mo := minOutLevelFor(c.Lambda, sc, n, c.LogSlots, oSpec.Q, oSpec.LogScale, true)
		okE := ok && s.LevelE >= minLevel && chainBits(c.Params.Q, s.LevelE) >= needBitsE2S(c.Lambda, sc, n)+lambdaHeadroom(c.Lambda)-1e-9
		if okE && mo >= 0 && s.LevelO >= mo {
			m2, err := x.newMsg(s.Seed, s.LevelIn, sc, s.Pattern, c.Batched)
			if err != nil {
				return err
			}
			if m2 != nil {
				m2.logBound = logBound
				rec.Class("second-ciphertext-same-instances")
				second = true
				if err := round(ckksRound{m: m2, levelE: s.LevelE, levelO: s.LevelO, merges: s.Merges, outMode: s.OutMode, seed: s.Seed}); err != nil {
					if fe, ok := err.(*h.Failure); ok {
						fe.Msg = "[second ciphertext through the same protocol instances] " + fe.Msg
					}
					return err
				}
			}
		}
	}

	nt := n >= 2 && !canonicalMerges(c.Merges, n)
	flags := tf != nil && (!c.Decode || !c.Encode)
	if (nt || c.LevelIn < params.MaxLevel() || c.LevelO < paramsOut.MaxLevel() || flags || second || otherParams) && firstTol*16 < Df {
		rec.NonTrivial(x.desc("ckks-"+c.Mode, nt) + fmt.Sprintf("|d=%v,e=%v,b=%v|f=%s|newKey=%v|out=%d|prec+%d|second=%v|outN%+d|wp=%v", c.Decode, c.Encode, c.Batched, c.FKind, c.NewKey, c.OutMode, c.PrecExtra, second,
			oSpec.LogN-c.Params.LogN, c.WithParams && otherParams))
	}
	return nil
}

var propCKKSRefresh = h.NewProp("TestPropCKKSRefresh", h.Budget{Quick: 600, Thorough: 5000}, genCKKSRefresh, runCKKSRefresh)

func TestPropCKKSRefresh(t *testing.T) { propCKKSRefresh.Check(t) }
