package c16

import (
	"fmt"
	"math"
	"math/big"
	"testing"

	"verif/internal/h"

	"github.com/tuneinsight/lattigo/v6/core/rlwe"
	"github.com/tuneinsight/lattigo/v6/multiparty"
	"github.com/tuneinsight/lattigo/v6/multiparty/mpckks"
	"github.com/tuneinsight/lattigo/v6/ring"
	"github.com/tuneinsight/lattigo/v6/schemes/ckks"
	"github.com/tuneinsight/lattigo/v6/utils/bignum"
)

func runCKKSRefresh(c CKKSCase, rec *h.Rec) error {
	return ciOneSlot(c, rec, runCKKSRefreshBody(c, rec))
}

// pairs builds the complex vector the protocol hands to the transform: z_j = a_j + i a_{j+slots} in the standard ring,
// z_j = a_j - i a_{slots-j} (z_0 = a_0) in the conjugate-invariant ring.
func pairs(a []*big.Int, slots int, ci bool, prec uint) []*bignum.Complex {
	z := make([]*bignum.Complex, slots)
	for j := range z {
		z[j] = &bignum.Complex{new(big.Float).SetPrec(prec).SetInt(a[j]), new(big.Float).SetPrec(prec)}
	}
	if ci {
		for j := 1; j < slots; j++ {
			z[j][1].Neg(z[slots-j][0])
		}
	} else {
		for j := 0; j < slots; j++ {
			z[j][1].SetInt(a[j+slots])
		}
	}
	return z
}

func runCKKSRefreshBody(c CKKSCase, rec *h.Rec) error {
	if c.Mode != "refresh" && c.Mode != "transform" {
		return nil
	}
	isT := c.Mode == "transform"
	if isT {
		if c.Decode && !c.Batched || c.Encode && !c.Decode && c.Batched {
			return nil // combinations the protocol documents as errors
		}
	} else if !c.Batched {
		return nil
	}
	x, err := setupCKKS(c, true, rec)
	if x == nil || err != nil {
		return err
	}
	params, n, ct := x.params, c.Parties, x.ct
	ci := params.RingType() == ring.ConjugateInvariant
	slots := 1 << c.LogSlots
	prec := x.logBound + uint(c.PrecExtra)

	outKeys := x.in
	if isT && c.NewKey {
		outKeys = newKeySet(params.Parameters, n, nil)
	}
	var tf *mpckks.MaskedLinearTransformationFunc
	var f cLinFunc
	if isT {
		f = newCLinFunc(c.FKind, c.FSeed, slots, ci)
		tf = &mpckks.MaskedLinearTransformationFunc{Decode: c.Decode, Func: f.apply, Encode: c.Encode}
		rec.Classf("transform:decode=%v,encode=%v,batched=%v", c.Decode, c.Encode, c.Batched)
		rec.Classf("f=%s", c.FKind)
	} else {
		rec.Class("refresh")
	}
	rec.Classf("outMode=%d", c.OutMode)
	rec.Classf("precExtra=%d", c.PrecExtra)

	// ---- model: expected integer plaintext of the output -------------------------------------------------------------
	D := new(big.Float).SetPrec(512).SetMantExp(big.NewFloat(1), c.Params.LogScale) // default scale 2^LogScale
	S := new(big.Float).SetPrec(512).SetInt(x.scale)
	ratio := new(big.Float).SetPrec(512).Quo(D, S)
	want := make([]*big.Float, x.dslots)
	gain := 1.0
	if tf == nil {
		for j := range want {
			want[j] = new(big.Float).SetPrec(512).SetInt(x.a[j])
		}
	} else {
		ecd := ckks.NewEncoder(params, 512)
		z := pairs(x.a, slots, ci, 512)
		if c.Decode {
			if err := ecd.FFT(z, c.LogSlots); err != nil {
				return h.Failf("C16:setup:FFT", "%v", err)
			}
			gain *= float64(x.dslots)
		}
		f.apply(z)
		if c.Encode {
			if err := ecd.IFFT(z, c.LogSlots); err != nil {
				return h.Failf("C16:setup:IFFT", "%v", err)
			}
			gain *= 2
		}
		for j := 0; j < slots; j++ {
			want[j] = new(big.Float).SetPrec(512).Set(z[j][0])
			if !ci {
				want[j+slots] = new(big.Float).SetPrec(512).Set(z[j][1])
			}
		}
	}
	for j := range want {
		want[j].Mul(want[j], ratio)
	}
	ratioF, _ := ratio.Float64()
	precTerm := float64(n+1) * math.Exp2(-float64(c.PrecExtra)) * gain * 16 * float64(c.LogSlots+2) * ratioF
	tol := 2*gain*(x.bCt+float64(n)*x.bParty)*ratioF + float64(n)*x.bParty + float64(n+2) + precTerm + 2
	tolOff := float64(n) * x.bParty

	// ---- protocol ----------------------------------------------------------------------------------------------------
	var mltp0 mpckks.MaskedLinearTransformationProtocol
	var rfp0 mpckks.RefreshProtocol
	if isT {
		if mltp0, err = mpckks.NewMaskedLinearTransformationProtocol(params, params, prec, x.noise); err != nil {
			return h.Failf("C16:mpckks:NewMaskedLinearTransformationProtocol:error", "%v", err)
		}
	} else {
		if rfp0, err = mpckks.NewRefreshProtocol(params, prec, x.noise); err != nil {
			return h.Failf("C16:mpckks:NewRefreshProtocol:error", "%v", err)
		}
		mltp0 = rfp0.MaskedLinearTransformationProtocol
	}
	proto := func(i int) mpckks.MaskedLinearTransformationProtocol {
		if i == 0 || !c.Shallow {
			return mltp0
		}
		return mltp0.ShallowCopy()
	}
	crp := mltp0.SampleCRP(c.LevelO, x.crs)
	ctOrig := ct.CopyNew()
	shares := make([]multiparty.RefreshShare, n)
	for i := 0; i < n; i++ {
		p := proto(i)
		shares[i] = p.AllocateShare(c.LevelE, c.LevelO)
		if isT {
			err = p.GenShare(x.in.shares[i], outKeys.shares[i], x.logBound, ct, crp, tf, &shares[i])
		} else {
			err = mpckks.RefreshProtocol{MaskedLinearTransformationProtocol: p}.GenShare(x.in.shares[i], x.logBound, ct, crp, &shares[i])
		}
		if err != nil {
			return h.Failf("C16:mpckks:"+c.Mode+":GenShare:error", "%v", err)
		}
	}
	if !ct.Equal(ctOrig) {
		return h.Failf("C16:mpckks:"+c.Mode+":GenShare:input-modified", "GenShare modified the input ciphertext")
	}
	// smudging lower bound on refresh shares (see the mpbgv twin): when the ciphertext scale equals the default scale the
	// rescaled mask is the mask itself and cancels between the two halves of an identity-transform share.
	if c.ScaleMul == 1 {
		lc := c.LevelE
		if c.LevelO < lc {
			lc = c.LevelO
		}
		ringC := params.RingQ().AtLevel(lc)
		residual := func(i int, sh multiparty.RefreshShare) []*big.Int {
			r := ringC.NewPoly()
			ringC.Add(sh.EncToShareShare.Value, sh.ShareToEncShare.Value, r)
			ringC.MulCoeffsMontgomeryThenSub(ct.Value[1], x.in.shares[i].Value.Q, r)
			ringC.MulCoeffsMontgomeryThenAdd(crp.Value, outKeys.shares[i].Value.Q, r)
			ringC.INTT(r, r)
			ringC.Reduce(r, r)
			return centered(ringC, r)
		}
		var pools smudgePools
		collect := func(k int, r []*big.Int) error {
			if infNorm(r).Cmp(bigF(2*x.bParty)) > 0 {
				return h.Failf("C16:mpckks:"+c.Mode+":GenShare:noise-above-bound", "refresh-share noise 2^%.1f exceeds the hard bound %g (sigma=%g)", log2Big(infNorm(r)), 2*x.bParty, c.Sigma)
			}
			pools.add(k, r)
			return nil
		}
		if !isT {
			for i := range shares {
				k := 1
				if i == 0 || !c.Shallow {
					k = 0
				}
				if err := collect(k, residual(i, shares[i])); err != nil {
					return err
				}
			}
		}
		mC := mltp0.ShallowCopy()
		mCC := mC.ShallowCopy()
		for k := 0; pools.short(0) || pools.short(1); k++ {
			px, kc := mltp0, 0
			if !pools.short(0) {
				px, kc = mC, 1
				if k%2 == 1 {
					px = mCC
				}
			}
			sh := px.AllocateShare(c.LevelE, c.LevelO)
			if err := px.GenShare(x.in.shares[0], outKeys.shares[0], x.logBound, ct, crp, nil, &sh); err != nil {
				return h.Failf("C16:mpckks:"+c.Mode+":GenShare:error", "%v", err)
			}
			if err := collect(kc, residual(0, sh)); err != nil {
				return err
			}
		}
		if err := pools.check(c.Sigma, math.Sqrt2, "C16:mpckks:"+c.Mode+":GenShare:smudging-too-small", rec); err != nil {
			return err
		}
	}

	copyShare := func(s multiparty.RefreshShare) multiparty.RefreshShare {
		return multiparty.RefreshShare{EncToShareShare: multiparty.KeySwitchShare{Value: *s.EncToShareShare.Value.CopyNew()},
			ShareToEncShare: multiparty.KeySwitchShare{Value: *s.ShareToEncShare.Value.CopyNew()}, MetaData: s.MetaData}
	}
	ref := copyShare(shares[0])
	for i := 1; i < n; i++ {
		if err := mltp0.AggregateShares(&ref, &shares[i], &ref); err != nil {
			return h.Failf("C16:mpckks:"+c.Mode+":AggregateShares:error", "%v", err)
		}
	}
	agg, err := fold(shares, c.Merges, func() multiparty.RefreshShare { return mltp0.AllocateShare(c.LevelE, c.LevelO) },
		func(a, b multiparty.RefreshShare, o *multiparty.RefreshShare) error { return mltp0.AggregateShares(&a, &b, o) })
	if err != nil {
		return h.Failf("C16:mpckks:"+c.Mode+":AggregateShares:error", "%v", err)
	}
	if !agg.MetaData.Equal(ct.MetaData) {
		key := "C16:mpckks:AggregateShares:metadata-not-propagated"
		scratch := ckks.NewCiphertext(params, 1, c.LevelO)
		terr := mltp0.Transform(ct.CopyNew(), tf, crp, agg, scratch)
		msg := fmt.Sprintf("RefreshShare aggregated into a freshly allocated share has MetaData %+v instead of the one recorded by GenShare; Transform on it returns: %v", agg.MetaData, terr)
		if rec.Known(key, msg) {
			rec.Class("known=aggregate-metadata")
			agg.MetaData = *ct.MetaData
		} else {
			return h.Failf(key, "%s", msg)
		}
	}
	ringE, ringO := params.RingQ().AtLevel(c.LevelE), params.RingQ().AtLevel(c.LevelO)
	if !congruent(ringE, agg.EncToShareShare.Value, ref.EncToShareShare.Value) || !congruent(ringO, agg.ShareToEncShare.Value, ref.ShareToEncShare.Value) {
		return h.Failf("C16:mpckks:"+c.Mode+":AggregateShares:order-dependent", "aggregate depends on the schedule %v", c.Merges)
	}

	var out *rlwe.Ciphertext
	rng := h.NewSplitMix(c.Seed ^ 0x5bd1e995)
	switch c.OutMode {
	case 0:
		out = ct
	case 1:
		out = ckks.NewCiphertext(params, 1, rng.Intn(params.MaxLevel()+1))
		*out.MetaData = *ct.MetaData
	default:
		out = ckks.NewCiphertext(params, 1, rng.Intn(params.MaxLevel()+1))
	}
	if isT {
		err = mltp0.Transform(ct, tf, crp, agg, out)
	} else {
		err = rfp0.Finalize(ct, crp, agg, out)
	}
	if err != nil {
		return h.Failf("C16:mpckks:"+c.Mode+":Transform:error", "%v", err)
	}
	if out.Level() != c.LevelO {
		return h.Failf("C16:mpckks:"+c.Mode+":Transform:output-level", "output level %d, requested (CRP / share) level %d", out.Level(), c.LevelO)
	}
	ds := params.DefaultScale()
	if out.Scale.Cmp(ds) != 0 {
		return h.Failf("C16:mpckks:"+c.Mode+":Transform:output-scale", "output scale 2^%.3f, documented: default scale 2^%.3f (input scale 2^%.3f)", out.LogScale(), ds.Log2(), log2Big(x.scale))
	}
	if err := x.checkOutput(fmt.Sprintf("C16:mpckks:%s:wrong-message:decode=%v,encode=%v", c.Mode, c.Decode, c.Encode), out, outKeys.ideal, want, tol, tolOff, rec); err != nil {
		return err
	}
	sameKind := tf == nil || (c.Decode && c.Encode)
	if sameKind {
		// the output is again a batched ciphertext: its own metadata must describe it
		if !out.IsBatched || out.LogDimensions != ctOrig.LogDimensions || !out.IsNTT {
			return h.Failf("C16:mpckks:"+c.Mode+":Transform:output-metadata", "output metadata %+v, input %+v", out.MetaData, ctOrig.MetaData)
		}
		wantV := make([]*bignum.Complex, slots)
		for i := range wantV {
			wantV[i] = x.values[i].Clone()
		}
		if tf != nil {
			f.apply(wantV)
		}
		have := make([]*bignum.Complex, slots)
		if err := ckks.NewEncoder(params, 256).Decode(rlwe.NewDecryptor(params, outKeys.ideal).DecryptNew(out), have); err != nil {
			return h.Failf("C16:mpckks:"+c.Mode+":decode-error", "%v", err)
		}
		Df, _ := D.Float64()
		Sf, _ := S.Float64()
		tolSlot := (tol+1)*float64(x.dslots)/Df + 2*float64(x.dslots)*float64(x.dslots)/Sf + 1e-12
		for i := range have {
			dr, _ := new(big.Float).Sub(have[i][0], wantV[i][0]).Float64()
			di, _ := new(big.Float).Sub(have[i][1], wantV[i][1]).Float64()
			if ci {
				di = 0
			}
			if math.Abs(dr) > tolSlot || math.Abs(di) > tolSlot {
				return h.Failf("C16:mpckks:"+c.Mode+":wrong-values", "slot %d decodes to %v, expected %v (tolerance %.3g, scale in 2^%.2f, default 2^%d)", i, have[i].Complex128(), wantV[i].Complex128(), tolSlot, log2Big(x.scale), c.Params.LogScale)
			}
		}
	}

	nt := n >= 2 && !canonicalMerges(c.Merges, n)
	flags := tf != nil && (!c.Decode || !c.Encode)
	Df, _ := D.Float64()
	if (nt || c.LevelIn < params.MaxLevel() || c.LevelO < params.MaxLevel() || flags) && tol*16 < Df {
		rec.NonTrivial(x.desc("ckks-"+c.Mode, nt) + fmt.Sprintf("|d=%v,e=%v,b=%v|f=%s|newKey=%v|out=%d|prec+%d", c.Decode, c.Encode, c.Batched, c.FKind, c.NewKey, c.OutMode, c.PrecExtra))
	}
	return nil
}

var propCKKSRefresh = h.NewProp("TestPropCKKSRefresh", h.Budget{Quick: 600, Thorough: 8000}, genCKKSRefresh, runCKKSRefresh)

func TestPropCKKSRefresh(t *testing.T) { propCKKSRefresh.Check(t) }
