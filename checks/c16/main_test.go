package c16

import (
	"fmt"
	"math"
	"math/big"
	"testing"

	"verif/internal/h"

	"github.com/tuneinsight/lattigo/v6/core/rlwe"
	"github.com/tuneinsight/lattigo/v6/multiparty"
	"github.com/tuneinsight/lattigo/v6/ring"
	"pgregory.net/rapid"
)

func TestMain(m *testing.M) { h.Main(m, "C16") }

func TestReplay(t *testing.T) { h.ReplayAll(t) }

// Merge is one aggregation step of a schedule: the shares at positions A and B of the current work list are
// aggregated; Mode selects the output buffer (0: freshly allocated, 1: the share at A, 2: the share at B); both
// inputs are removed from the list and the result is appended.
type Merge struct {
	A    int `json:"a"`
	B    int `json:"b"`
	Mode int `json:"mode"`
}

// genMerges draws an aggregation schedule (a random binary tree over a random order) for n shares.
func genMerges(t *rapid.T, n int) []Merge {
	out := make([]Merge, 0, n-1)
	kind := rapid.IntRange(0, 3).Draw(t, "orderKind")
	for k := n; k > 1; k-- {
		var m Merge
		switch kind {
		case 0: // the order used by lattigo's own tests: fold into share 0 in index order
			m = Merge{A: 0, B: 1, Mode: 1}
			// after removing positions 0,1 and appending the result the accumulated share sits at the end
			if k < n {
				m = Merge{A: k - 1, B: 0, Mode: 1}
			}
		default:
			m.A = rapid.IntRange(0, k-1).Draw(t, "ma")
			m.B = rapid.IntRange(0, k-2).Draw(t, "mb")
			if m.B >= m.A {
				m.B++
			}
			m.Mode = rapid.IntRange(0, 2).Draw(t, "mmode")
		}
		out = append(out, m)
	}
	return out
}

// canonicalMerges reports whether the schedule is the in-order left fold (what lattigo's tests exercise).
func canonicalMerges(ms []Merge, n int) bool {
	// positions are tracked symbolically: each work-list entry is the sorted set of party indices it contains
	list := make([][]int, n)
	for i := range list {
		list[i] = []int{i}
	}
	for _, m := range ms {
		a, b := list[m.A], list[m.B]
		// canonical: accumulated prefix {0..k-1} merged with the single party k
		if len(b) != 1 || b[0] != len(a) || a[0] != 0 || a[len(a)-1] != len(a)-1 {
			return false
		}
		list = removeTwo(list, m.A, m.B)
		list = append(list, append(append([]int{}, a...), b...))
	}
	return true
}

func removeTwo[T any](l []T, a, b int) []T {
	out := make([]T, 0, len(l)-1)
	for i, v := range l {
		if i != a && i != b {
			out = append(out, v)
		}
	}
	return out
}

// fold interprets a schedule. agg(a, b, out) must write the aggregate of a and b to out (out may alias a or b);
// alloc returns a fresh share.
func fold[T any](shares []T, ms []Merge, alloc func() T, agg func(a, b T, out *T) error) (T, error) {
	list := append([]T{}, shares...)
	for _, m := range ms {
		if m.A < 0 || m.B < 0 || m.A >= len(list) || m.B >= len(list) || m.A == m.B {
			var z T
			return z, fmt.Errorf("invalid schedule")
		}
		a, b := list[m.A], list[m.B]
		var out T
		switch m.Mode {
		case 1:
			out = a
		case 2:
			out = b
		default:
			out = alloc()
		}
		if err := agg(a, b, &out); err != nil {
			var z T
			return z, err
		}
		list = removeTwo(list, m.A, m.B)
		list = append(list, out)
	}
	return list[0], nil
}

// validMerges checks a (possibly shrunk or hand-written) schedule.
func validMerges(ms []Merge, n int) bool {
	if len(ms) != n-1 {
		return false
	}
	k := n
	for _, m := range ms {
		if m.A < 0 || m.B < 0 || m.A >= k || m.B >= k || m.A == m.B || m.Mode < 0 || m.Mode > 2 {
			return false
		}
		k--
	}
	return true
}

// congruent reports whether two polynomials are equal modulo every q_i of the ring level (representation-insensitive).
func congruent(r *ring.Ring, a, b ring.Poly) bool {
	if a.Level() < r.Level() || b.Level() < r.Level() {
		return false
	}
	for i, s := range r.SubRings[:r.Level()+1] {
		q := s.Modulus
		for j := range a.Coeffs[i] {
			if a.Coeffs[i][j]%q != b.Coeffs[i][j]%q {
				return false
			}
		}
	}
	return true
}

// maxCoeffOverQ returns the largest ratio coefficient / q_i (integer part) seen in the polynomial: 0 when reduced.
func maxCoeffOverQ(r *ring.Ring, a ring.Poly) uint64 {
	var m uint64
	for i, s := range r.SubRings[:r.Level()+1] {
		q := s.Modulus
		for _, c := range a.Coeffs[i] {
			if v := c / q; v > m {
				m = v
			}
		}
	}
	return m
}

// centered returns the centred big-integer coefficients of a polynomial given in the coefficient domain.
func centered(r *ring.Ring, p ring.Poly) []*big.Int {
	out := make([]*big.Int, r.N())
	for i := range out {
		out[i] = new(big.Int)
	}
	r.PolyToBigintCentered(p, 1, out)
	return out
}

func infNorm(v []*big.Int) *big.Int {
	m := new(big.Int)
	for _, x := range v {
		if x.CmpAbs(m) > 0 {
			m.Abs(x)
		}
	}
	return m
}

func bigF(x float64) *big.Int {
	b, _ := new(big.Float).SetFloat64(math.Ceil(x)).Int(nil)
	return b
}

// party secrets ---------------------------------------------------------------------------------------------------

type keySet struct {
	shares []*rlwe.SecretKey
	ideal  *rlwe.SecretKey
}

func addSK(p rlwe.Parameters, acc, s *rlwe.SecretKey) {
	p.RingQ().Add(acc.Value.Q, s.Value.Q, acc.Value.Q)
	if p.RingP() != nil {
		p.RingP().Add(acc.Value.P, s.Value.P, acc.Value.P)
	}
}

// newKeySet draws n secret-key shares and their sum. zero[i] makes share i the zero key.
func newKeySet(p rlwe.Parameters, n int, zero func(i int) bool) keySet {
	kg := rlwe.NewKeyGenerator(p)
	ks := keySet{ideal: rlwe.NewSecretKey(p)}
	for i := 0; i < n; i++ {
		var s *rlwe.SecretKey
		if zero != nil && zero(i) {
			s = rlwe.NewSecretKey(p)
		} else {
			s = kg.GenSecretKeyNew()
		}
		ks.shares = append(ks.shares, s)
		addSK(p, ks.ideal, s)
	}
	return ks
}

// distBound is the hard bound on |coefficient| for a lattigo distribution literal as the samplers implement it.
func distBound(d h.DistSpec) float64 { return d.AbsBound() }

// smudge describes the noise-flooding request.
var smudgeSigmas = []float64{3.2, 1024, 1048576, 26.0}

func sigmaClass(s float64) string {
	switch {
	case s <= 4:
		return "sigma=3.2"
	case s < 100:
		return "sigma=26"
	case s < 5000:
		return "sigma=2^10"
	}
	return "sigma=2^20"
}

// stdOf returns the sample standard deviation (about zero mean is NOT assumed) of big integers.
func stdOf(v []*big.Int) (mean, std float64) {
	if len(v) == 0 {
		return 0, 0
	}
	var s, s2 float64
	for _, x := range v {
		f, _ := new(big.Float).SetInt(x).Float64()
		s += f
		s2 += f * f
	}
	n := float64(len(v))
	mean = s / n
	std = math.Sqrt(math.Max(0, s2/n-mean*mean))
	return
}

func log2Big(x *big.Int) float64 {
	if x.Sign() == 0 {
		return 0
	}
	f, _ := new(big.Float).SetInt(new(big.Int).Abs(x)).Float64()
	if math.IsInf(f, 0) {
		return float64(x.BitLen())
	}
	return math.Log2(f)
}

// fixXe used to replace a ternary error distribution by the default Gaussian (ring.TernarySampler.AtLevel was broken below
// the maximum level, C17:ternary:view-below-base-level:panic, fixed by 92775d7). It now keeps every drawn distribution.
func fixXe(s *h.RLWESpec) {}

// smudgePools keeps the recomputed per-share noise separately for protocol instances built by the constructor (class 0)
// and for instances obtained through ShallowCopy (class 1, including copies of copies): the lower bound on the smudging
// noise is asserted per class, so a copy that lost the flooding distribution cannot hide behind the original's samples.
type smudgePools struct {
	v   [2][]*big.Int
	off bool // statistics disabled for this case (the hard bounds are still checked by the caller)
}

// statsCase selects the cases that pay for the pooled statistics (extra GenShare calls): every second seed.
func statsCase(seed uint64) bool { return seed%2 == 0 }

func (p *smudgePools) add(cls int, r []*big.Int) { p.v[cls] = append(p.v[cls], r...) }
func (p *smudgePools) short(cls int) bool        { return !p.off && len(p.v[cls]) < minSmudgeSamples }

// check asserts pooled std >= factor*0.8*sigma for both classes.
func (p *smudgePools) check(sigma, factor float64, key string, rec *h.Rec) error {
	if p.off {
		return nil
	}
	for cls, v := range p.v {
		if len(v) == 0 {
			continue
		}
		_, std := stdOf(v)
		name := "constructor"
		k := key
		if cls == 1 {
			name = "ShallowCopy"
			k = key + ":shallow-copy"
		}
		rec.Note("std/sigma:"+name, std/sigma)
		if std < 0.8*factor*sigma {
			return h.Failf(k, "pooled std of the share noise produced by %s instances is %.3f < 0.8 * %.3g * requested sigma %g over %d samples", name, std, factor, sigma, len(v))
		}
	}
	return nil
}

// uniPools collects mask coefficients normalised to [0,1) (value / range), separately for constructor-built and ShallowCopy
// instances, and asserts first and second moments and the top-bit balance of a uniform distribution: mean within 7
// standard errors, variance ratio in [0.8, 1.25] (>= 2048 samples), fraction of values in the upper half within 7
// standard errors of 1/2. want* are the exact moments of the (discrete) uniform distribution the protocol documents.
type uniPools struct{ v [2][]float64 }

func (p *uniPools) add(cls int, u float64) { p.v[cls] = append(p.v[cls], u) }

func (p *uniPools) check(wantMean, wantVar float64, key string) error {
	for cls, v := range p.v {
		if len(v) < minSmudgeSamples {
			continue
		}
		name := "constructor"
		if cls == 1 {
			name = "ShallowCopy"
		}
		n := float64(len(v))
		var s, s2, hi float64
		for _, u := range v {
			s += u
			s2 += u * u
			if u >= wantMean {
				hi++
			}
		}
		mean := s / n
		vr := s2/n - mean*mean
		se := math.Sqrt(wantVar / n)
		if math.Abs(mean-wantMean) > 7*se || vr < 0.8*wantVar || vr > 1.25*wantVar {
			return h.Failf(key, "masks of %s instances are not uniform over the documented range: normalised mean %.4f (expected %.4f +- %.4f), variance %.5f (expected %.5f) over %d coefficients", name, mean, wantMean, 7*se, vr, wantVar, len(v))
		}
		if wantVar > 0.05 && math.Abs(hi/n-0.5) > 7*0.5/math.Sqrt(n)+1.0/n+0.02 {
			return h.Failf(key, "masks of %s instances are not uniform over the documented range: %.4f of %d coefficients in the upper half", name, hi/n, len(v))
		}
	}
	return nil
}

// dirtier fills receivers with earlier content before a call when the case asks for re-used receivers: a method that only
// works on zeroed / freshly allocated outputs (or that reads its output argument) then produces a wrong result.
type dirtier struct {
	on  bool
	rng *h.SplitMix
	rQ  *ring.Ring // moduli of the polynomials to fill (maximum level)
}

func (d dirtier) poly(ps ...ring.Poly) {
	if !d.on {
		return
	}
	for _, p := range ps {
		for i := range p.Coeffs {
			q := d.rQ.SubRings[i].Modulus
			for j := range p.Coeffs[i] {
				p.Coeffs[i][j] = d.rng.Uint64() % q
			}
		}
	}
}

func (d dirtier) polyMod(t uint64, p ring.Poly) {
	if !d.on {
		return
	}
	for i := range p.Coeffs {
		for j := range p.Coeffs[i] {
			p.Coeffs[i][j] = d.rng.Uint64() % t
		}
	}
}

func (d dirtier) bigs(v []*big.Int, bits uint) {
	if !d.on {
		return
	}
	for _, x := range v {
		x.SetUint64(d.rng.Uint64())
		x.Lsh(x, bits)
		if d.rng.Uint64()&1 == 1 {
			x.Neg(x)
		}
	}
}

func (d dirtier) refresh(sh multiparty.RefreshShare) multiparty.RefreshShare {
	d.poly(sh.EncToShareShare.Value, sh.ShareToEncShare.Value)
	return sh
}
