package c16

import (
	"fmt"
	"math"
	"math/big"
	"math/bits"
	"testing"

	"verif/internal/h"

	"github.com/tuneinsight/lattigo/v6/core/rlwe"
	"github.com/tuneinsight/lattigo/v6/multiparty"
	"github.com/tuneinsight/lattigo/v6/ring"
	"pgregory.net/rapid"
)

// KSCase is one run of the collective key-switching protocol (secret-shared target key, zero key, or public key)
// at the RLWE layer, on a ciphertext whose plaintext is a uniformly random ring element.
type KSCase struct {
	Params  h.RLWESpec `json:"params"`
	Seed    uint64     `json:"seed"`
	Parties int        `json:"parties"`
	Level   int        `json:"level"`
	Target  string     `json:"target"` // "shared" | "zero" | "mixed" | "pk"
	Sigma   float64    `json:"sigma"`
	Merges  []Merge    `json:"merges"`
	Extra   int        `json:"shareExtraLevels"` // shares are allocated Extra levels above the ciphertext (clamped)
	InPlace bool       `json:"inPlace"`          // KeySwitch(ct, share, ct)
	Shallow bool       `json:"shallow"`          // parties use ShallowCopy()s of one protocol instance
	Meta    bool       `json:"nonDefaultMeta"`   // the input ciphertext carries a non-default scale, sparse dimensions, IsBatched flag
	C0Nil   bool       `json:"c0Nil"`            // GenShare receives the ciphertext without its degree-0 part (documented as unused)
	Dirty   bool       `json:"dirtyReceivers"`   // shares handed to GenShare / AggregateShares hold earlier content
	Level2  int        `json:"level2"`           // level of a second ciphertext sent through the same protocol instances, keys and receiver (-1: none)
}

func (c KSCase) RandSeed() uint64 { return c.Seed }

func genKS(t *rapid.T) KSCase {
	var c KSCase
	maxLogN := 6
	if h.Thorough() {
		maxLogN = 7
	}
	c.Params = h.GenRLWESpec(t, h.RLWEOpts{MinLogN: 4, MaxLogN: maxLogN, MinQ: 1, MaxQ: 4, MinP: 0, MaxP: 2, MinBits: 28, MaxBits: 60, AllowCI: true})
	fixXe(&c.Params)
	c.Seed = rapid.Uint64().Draw(t, "seed")
	c.Parties = rapid.IntRange(1, 8).Draw(t, "parties")
	c.Level = rapid.IntRange(0, len(c.Params.Q)-1).Draw(t, "level")
	c.Target = []string{"shared", "zero", "mixed", "pk", "pk", "shared"}[rapid.IntRange(0, 5).Draw(t, "target")]
	c.Sigma = smudgeSigmas[rapid.IntRange(0, len(smudgeSigmas)-1).Draw(t, "sigma")]
	c.Merges = genMerges(t, c.Parties)
	if rapid.IntRange(0, 3).Draw(t, "extraK") == 0 {
		c.Extra = rapid.IntRange(1, 3).Draw(t, "extra")
	}
	c.InPlace = rapid.Bool().Draw(t, "inPlace")
	c.Shallow = rapid.Bool().Draw(t, "shallow")
	c.Dirty = rapid.Bool().Draw(t, "dirty")
	c.C0Nil = rapid.IntRange(0, 2).Draw(t, "c0nil") == 0
	c.Meta = rapid.IntRange(0, 2).Draw(t, "meta") > 0
	c.Level2 = -1
	if rapid.Bool().Draw(t, "second") {
		c.Level2 = rapid.IntRange(0, len(c.Params.Q)-1).Draw(t, "level2")
	}
	return c
}

func uniformPoly(r *ring.Ring, p ring.Poly, rng *h.SplitMix) {
	for i, s := range r.SubRings[:r.Level()+1] {
		q := s.Modulus
		for j := range p.Coeffs[i] {
			p.Coeffs[i][j] = rng.Uint64() % q
		}
	}
}

// toCoeffs returns the centred coefficients of p (p in the NTT domain iff ntt); p is not modified.
func toCoeffs(r *ring.Ring, p ring.Poly, ntt bool) []*big.Int {
	tmp := r.NewPoly()
	if ntt {
		r.INTT(p, tmp)
	} else {
		tmp.CopyLvl(r.Level(), p)
		r.Reduce(tmp, tmp)
	}
	return centered(r, tmp)
}

const minSmudgeSamples = 2048

// ksState holds what persists between the ciphertexts of one case: keys, protocol instances, the previous output.
type ksState struct {
	in, outKeys *keySet
	skOut       *rlwe.SecretKey
	pkOut       *rlwe.PublicKey
	cks         *multiparty.KeySwitchProtocol
	cksInst     []multiparty.KeySwitchProtocol
	pcks        *multiparty.PublicKeySwitchProtocol
	pcksInst    []multiparty.PublicKeySwitchProtocol
	prevOut     *rlwe.Ciphertext
	snaps       []ring.Poly // secret keys / public key as they were after key generation
}

func runKS(c KSCase, rec *h.Rec) error {
	if c.Parties < 1 || c.Parties > 8 || !validMerges(c.Merges, c.Parties) || c.Level < 0 || c.Level >= len(c.Params.Q) || c.Sigma <= 0 || c.Extra < 0 || c.Level2 >= len(c.Params.Q) {
		return nil // outside the generated domain (hand-edited case)
	}
	st := &ksState{}
	if err := runKSRound(c, rec, st, c.Level, c.Seed, true); err != nil {
		return err
	}
	if c.Level2 >= 0 {
		if err := runKSRound(c, rec, st, c.Level2, c.Seed^0x9e3779b97f4a7c15, false); err != nil {
			if fe, ok := err.(*h.Failure); ok {
				fe.Msg = "[second ciphertext through the same protocol instances] " + fe.Msg
			}
			return err
		}
	}
	return nil
}

func runKSRound(c KSCase, rec *h.Rec, st *ksState, level int, seed uint64, first bool) error {
	params, err := c.Params.Build()
	if err != nil {
		return nil // literal rejected by lattigo: nothing to test (other properties cover parameter validation)
	}
	n := c.Parties
	ringQ := params.RingQ().AtLevel(level)
	N := params.N()
	rng := h.NewSplitMix(seed)
	dd := dirtier{on: c.Dirty, rng: h.NewSplitMix(seed ^ 0xd1b54a32d192ed03), rQ: params.RingQ()}
	if c.Dirty && first {
		rec.Class("receivers=earlier-content")
	}

	if st.in == nil {
		ks := newKeySet(params, n, nil)
		st.in = &ks
	}
	in := *st.in
	if !first {
		rec = &h.Rec{} // classes and the non-trivial descriptor are booked by the first ciphertext only
	}

	// plaintext: uniformly random element of R_Q at the level (the protocol is linear, the oracle exact up to noise)
	pt := rlwe.NewPlaintext(params, level)
	uniformPoly(ringQ, pt.Value, rng)
	if c.Meta {
		// metadata that differs from what a freshly allocated receiver carries (and between the two ciphertexts of a case)
		pt.Scale = rlwe.NewScale(float64(3+rng.Intn(1<<20)) + 0.5)
		pt.LogDimensions = ring.Dimensions{Rows: rng.Intn(2), Cols: rng.Intn(params.LogN())}
		pt.IsBatched = rng.Intn(2) == 0
		if first {
			rec.Class("input-metadata=non-default")
		}
	}
	ct := rlwe.NewCiphertext(params, 1, level)
	if err := rlwe.NewEncryptor(params, in.ideal).Encrypt(pt, ct); err != nil {
		return h.Failf("C16:setup:encrypt", "%v", err)
	}
	if !ct.MetaData.Equal(pt.MetaData) {
		return h.Failf("C16:harness:encrypt-metadata", "Encrypt did not carry the plaintext metadata over")
	}
	ctOrig := ct.CopyNew()

	noise := ring.DiscreteGaussian{Sigma: c.Sigma, Bound: 6 * c.Sigma}
	shareLevel := level + c.Extra
	if shareLevel > params.MaxLevel() {
		shareLevel = params.MaxLevel()
	}

	bCt := distBound(c.Params.Xe)
	var boundParty float64 // hard bound on the noise one party adds
	var target *rlwe.SecretKey
	var out *rlwe.Ciphertext
	switch {
	case c.InPlace:
		out = ct
	case st.prevOut != nil:
		out = st.prevOut // receiver with a history: the output of the previous ciphertext
	default:
		out = rlwe.NewCiphertext(params, 1, rapidLevel(rng, params.MaxLevel()))
	}

	// the ciphertext as GenShare sees it: "ct.Value[0] is not used by the function and can be nil/zero"
	ctG := ct
	if c.C0Nil {
		ctG = &rlwe.Ciphertext{Element: rlwe.Element[ring.Poly]{Value: []ring.Poly{{}, ct.Value[1]}, MetaData: ct.MetaData}}
		if first {
			rec.Class("GenShare:c0=nil")
		}
	}

	c1ntt := ringQ.NewPoly()
	if ct.IsNTT {
		c1ntt.CopyLvl(level, ct.Value[1])
	} else {
		ringQ.NTT(ct.Value[1], c1ntt)
	}

	var pools smudgePools
	pools.off = !statsCase(c.Seed)
	cls := func(i int) int {
		if i == 0 || !c.Shallow {
			return 0
		}
		return 1
	}
	collect := func(k int, r []*big.Int, bound float64, key string) error {
		if infNorm(r).Cmp(bigF(bound)) > 0 {
			return h.Failf(key, "share noise %s exceeds the hard bound %g of the requested distributions (sigma=%g, n=%d, N=%d)", infNorm(r), bound, c.Sigma, n, N)
		}
		pools.add(k, r)
		return nil
	}

	rec.Classf("target=%s", c.Target)
	rec.Class(sigmaClass(c.Sigma))
	rec.Classf("parties=%d", n)
	rec.Classf("ntt=%v", params.NTTFlag())
	rec.Classf("ring=%v", params.RingType())
	if level < params.MaxLevel() {
		rec.Class("level<max")
	} else {
		rec.Class("level=max")
	}

	if c.Target != "pk" {
		// ---- secret-key target ------------------------------------------------------------------------------------
		if st.outKeys == nil {
			ks := newKeySet(params, n, func(i int) bool {
			switch c.Target {
			case "zero":
				return true
			case "mixed":
				return i%2 == 1
			}
				return false
			})
			st.outKeys = &ks
		}
		outKeys := *st.outKeys
		target = outKeys.ideal

		if st.cks == nil {
			p, err := multiparty.NewKeySwitchProtocol(params, noise)
			if err != nil {
				return h.Failf("C16:NewKeySwitchProtocol:error", "%v", err)
			}
			st.cks = &p
			for i := 0; i < n; i++ {
				if i == 0 || !c.Shallow {
					st.cksInst = append(st.cksInst, p)
				} else {
					st.cksInst = append(st.cksInst, p.ShallowCopy())
				}
				st.snaps = append(st.snaps, *in.shares[i].Value.Q.CopyNew(), *outKeys.shares[i].Value.Q.CopyNew())
			}
		}
		p0 := *st.cks
		eSigma := math.Sqrt(params.NoiseFreshSK()*params.NoiseFreshSK() + c.Sigma*c.Sigma)
		boundParty = math.Floor(6*eSigma+0.5) + 1
		proto := func(i int) multiparty.KeySwitchProtocol { return st.cksInst[i] }

		residual := func(i int, sh multiparty.KeySwitchShare) []*big.Int {
			delta := ringQ.NewPoly()
			ringQ.Sub(in.shares[i].Value.Q, outKeys.shares[i].Value.Q, delta)
			prod := ringQ.NewPoly()
			ringQ.MulCoeffsMontgomery(c1ntt, delta, prod) // NTT domain, not Montgomery
			r := ringQ.NewPoly()
			if ct.IsNTT {
				ringQ.Sub(sh.Value, prod, r)
				ringQ.INTT(r, r)
			} else {
				ringQ.INTT(prod, prod)
				ringQ.Sub(sh.Value, prod, r)
			}
			ringQ.Reduce(r, r)
			return centered(ringQ, r)
		}

		shares := make([]multiparty.KeySwitchShare, n)
		unreduced := uint64(0)
		for i := range shares {
			pi := proto(i)
			shares[i] = pi.AllocateShare(shareLevel)
			dd.poly(shares[i].Value)
			pi.GenShare(in.shares[i], outKeys.shares[i], ctG, &shares[i])
			if shares[i].Level() != level {
				return h.Failf("C16:KeySwitch:GenShare:share-level", "share level %d after GenShare on a level-%d ciphertext (allocated at %d)", shares[i].Level(), level, shareLevel)
			}
			if err := collect(cls(i), residual(i, shares[i]), boundParty, "C16:KeySwitch:GenShare:noise-above-bound"); err != nil {
				return err
			}
			if u := maxCoeffOverQ(ringQ, shares[i].Value); u > unreduced {
				unreduced = u
			}
		}
		if unreduced > 0 {
			rec.Class("obs:share-coefficients>=q")
		}
		if !ringQ.Equal(ct.Value[0], ctOrig.Value[0]) || !ringQ.Equal(ct.Value[1], ctOrig.Value[1]) {
			return h.Failf("C16:KeySwitch:GenShare:input-modified", "GenShare modified the input ciphertext")
		}

		// reference aggregate: in-order fold on copies
		ref := multiparty.KeySwitchShare{Value: *shares[0].Value.CopyNew()}
		for i := 1; i < n; i++ {
			if err := p0.AggregateShares(ref, shares[i], &ref); err != nil {
				return h.Failf("C16:KeySwitch:AggregateShares:error", "%v", err)
			}
		}
		agg, err := fold(shares, c.Merges, func() multiparty.KeySwitchShare { a := p0.AllocateShare(level); dd.poly(a.Value); return a },
			func(a, b multiparty.KeySwitchShare, o *multiparty.KeySwitchShare) error { return p0.AggregateShares(a, b, o) })
		if err != nil {
			return h.Failf("C16:KeySwitch:AggregateShares:error", "%v", err)
		}
		if !congruent(ringQ, agg.Value, ref.Value) {
			return h.Failf("C16:KeySwitch:AggregateShares:order-dependent", "aggregate of %d shares depends on the aggregation schedule %v", n, c.Merges)
		}
		if maxCoeffOverQ(ringQ, agg.Value) > 0 {
			rec.Class("obs:aggregate-coefficients>=q")
		}
		p0.KeySwitch(ct, agg, out)

		// smudging statistics: more shares from party 0's key until enough samples are pooled, separately for the instance
		// built by the constructor and for instances obtained through ShallowCopy (alternating copy and copy-of-copy)
		for first && pools.short(0) {
			sh := p0.AllocateShare(level)
			p0.GenShare(in.shares[0], outKeys.shares[0], ctOrig, &sh)
			if err := collect(0, residual(0, sh), boundParty, "C16:KeySwitch:GenShare:noise-above-bound"); err != nil {
				return err
			}
		}
		pc := p0.ShallowCopy()
		pcc := pc.ShallowCopy()
		for k := 0; first && pools.short(1); k++ {
			px := pc
			if k%2 == 1 {
				px = pcc
			}
			sh := px.AllocateShare(level)
			px.GenShare(in.shares[0], outKeys.shares[0], ctOrig, &sh)
			if err := collect(1, residual(0, sh), boundParty, "C16:KeySwitch:GenShare:noise-above-bound"); err != nil {
				return err
			}
		}
	} else {
		// ---- public-key target ------------------------------------------------------------------------------------
		if st.pcks == nil {
			kg := rlwe.NewKeyGenerator(params)
			st.skOut, st.pkOut = kg.GenKeyPairNew()
			p, err := multiparty.NewPublicKeySwitchProtocol(params, noise)
			if err != nil {
				return h.Failf("C16:NewPublicKeySwitchProtocol:error", "%v", err)
			}
			st.pcks = &p
			for i := 0; i < n; i++ {
				if i == 0 || !c.Shallow {
					st.pcksInst = append(st.pcksInst, p)
				} else {
					st.pcksInst = append(st.pcksInst, p.ShallowCopy())
				}
				st.snaps = append(st.snaps, *in.shares[i].Value.Q.CopyNew(), *st.pkOut.Value[0].Q.CopyNew())
			}
		}
		skOut, pkOut := st.skOut, st.pkOut
		target = skOut
		p0 := *st.pcks
		bs, be := distBound(c.Params.Xs), distBound(c.Params.Xe)
		l1 := h.SecretL1(c.Params.Xs, N)
		// u*e_pk + e0 + e1*s_out (+ rounding of the division by P: 1/2 + |s_out|_1/2, rounded up) + smudging
		boundParty = float64(N)*bs*be + be + be*l1 + 1 + l1 + math.Floor(6*c.Sigma+0.5) + 1
		proto := func(i int) multiparty.PublicKeySwitchProtocol { return st.pcksInst[i] }
		residual := func(i int, sh multiparty.PublicKeySwitchShare) []*big.Int {
			// share0 + share1*s_out - c1*s_i
			a, b := ringQ.NewPoly(), ringQ.NewPoly()
			if ct.IsNTT {
				a.CopyLvl(level, sh.Value[0])
				b.CopyLvl(level, sh.Value[1])
			} else {
				ringQ.NTT(sh.Value[0], a)
				ringQ.NTT(sh.Value[1], b)
			}
			ringQ.MulCoeffsMontgomeryThenAdd(b, skOut.Value.Q, a)
			ringQ.MulCoeffsMontgomeryThenSub(c1ntt, in.shares[i].Value.Q, a)
			ringQ.INTT(a, a)
			ringQ.Reduce(a, a)
			return centered(ringQ, a)
		}
		shares := make([]multiparty.PublicKeySwitchShare, n)
		for i := range shares {
			pi := proto(i)
			shares[i] = pi.AllocateShare(shareLevel)
			dd.poly(shares[i].Value[0], shares[i].Value[1])
			pi.GenShare(in.shares[i], pkOut, ctG, &shares[i])
			if err := collect(cls(i), residual(i, shares[i]), boundParty, "C16:PublicKeySwitch:GenShare:noise-above-bound"); err != nil {
				return err
			}
		}
		if !ringQ.Equal(ct.Value[0], ctOrig.Value[0]) || !ringQ.Equal(ct.Value[1], ctOrig.Value[1]) {
			return h.Failf("C16:PublicKeySwitch:GenShare:input-modified", "GenShare modified the input ciphertext")
		}
		ref := p0.AllocateShare(shareLevel)
		ref.Value[0].Copy(shares[0].Value[0])
		ref.Value[1].Copy(shares[0].Value[1])
		for i := 1; i < n; i++ {
			if err := p0.AggregateShares(ref, shares[i], &ref); err != nil {
				return h.Failf("C16:PublicKeySwitch:AggregateShares:error", "%v", err)
			}
		}
		agg, err := fold(shares, c.Merges, func() multiparty.PublicKeySwitchShare { a := p0.AllocateShare(shareLevel); dd.poly(a.Value[0], a.Value[1]); return a },
			func(a, b multiparty.PublicKeySwitchShare, o *multiparty.PublicKeySwitchShare) error {
				return p0.AggregateShares(a, b, o)
			})
		if err != nil {
			return h.Failf("C16:PublicKeySwitch:AggregateShares:error", "%v", err)
		}
		if !congruent(ringQ, agg.Value[0], ref.Value[0]) || !congruent(ringQ, agg.Value[1], ref.Value[1]) {
			return h.Failf("C16:PublicKeySwitch:AggregateShares:order-dependent", "aggregate of %d shares depends on the aggregation schedule %v", n, c.Merges)
		}
		p0.KeySwitch(ct, agg, out)

		for first && pools.short(0) {
			sh := p0.AllocateShare(level)
			p0.GenShare(in.shares[0], pkOut, ctOrig, &sh)
			if err := collect(0, residual(0, sh), boundParty, "C16:PublicKeySwitch:GenShare:noise-above-bound"); err != nil {
				return err
			}
		}
		pc := p0.ShallowCopy()
		pcc := pc.ShallowCopy()
		for k := 0; first && pools.short(1); k++ {
			px := pc
			if k%2 == 1 {
				px = pcc
			}
			sh := px.AllocateShare(level)
			px.GenShare(in.shares[0], pkOut, ctOrig, &sh)
			if err := collect(1, residual(0, sh), boundParty, "C16:PublicKeySwitch:GenShare:noise-above-bound"); err != nil {
				return err
			}
		}
	}

	proto := "KeySwitch"
	if c.Target == "pk" {
		proto = "PublicKeySwitch"
	}

	// ---- output ciphertext: level, metadata, message under the target key -------------------------------------------
	if out.Level() != level {
		return h.Failf("C16:"+proto+":KeySwitch:output-level", "output level %d, input level %d", out.Level(), level)
	}
	if out.Degree() != 1 {
		return h.Failf("C16:"+proto+":KeySwitch:output-degree", "output degree %d", out.Degree())
	}
	if !out.MetaData.Equal(ctOrig.MetaData) {
		return h.Failf("C16:"+proto+":KeySwitch:output-metadata", "output metadata %+v differs from input metadata %+v", out.MetaData, ctOrig.MetaData)
	}
	dec := rlwe.NewPlaintext(params, level)
	rlwe.NewDecryptor(params, target).Decrypt(out, dec)
	if dec.IsNTT != pt.IsNTT {
		return h.Failf("C16:"+proto+":KeySwitch:output-domain", "decrypted plaintext IsNTT=%v, input %v", dec.IsNTT, pt.IsNTT)
	}
	diff := ringQ.NewPoly()
	ringQ.Sub(dec.Value, pt.Value, diff)
	errv := toCoeffs(ringQ, diff, pt.IsNTT)
	bound := bCt + float64(n)*boundParty
	logQ := log2Big(ringQ.ModulusAtLevel[level])
	discriminating := math.Log2(bound)+4 < logQ
	if infNorm(errv).Cmp(bigF(bound)) > 0 {
		key := fmt.Sprintf("C16:%s:wrong-message:target=%s", proto, c.Target)
		if !discriminating {
			// noise bound not << Q: the property promises nothing here (wrap-around is legitimate)
			rec.Class("bound>=Q/16")
		} else {
			return h.Failf(key, "decryption under the target key differs from the message by 2^%.1f > bound 2^%.1f (logQ=%.1f, n=%d, level=%d, sigma=%g)",
				log2Big(infNorm(errv)), math.Log2(bound), logQ, n, level, c.Sigma)
		}
	}

	// ---- smudging noise lower bound ---------------------------------------------------------------------------------
	// residuals are centred mod Q: only meaningful when the hard bound is far below Q/2
	if first && discriminating {
		if err := pools.check(c.Sigma, 1, "C16:"+proto+":GenShare:smudging-too-small", rec); err != nil {
			return err
		}
	}
	st.prevOut = out

	// keys are inputs: bit-identical to what key generation produced
	for i := 0; i < n; i++ {
		second := st.pkOut != nil
		var cur ring.Poly
		if second {
			cur = st.pkOut.Value[0].Q
		} else {
			cur = st.outKeys.shares[i].Value.Q
		}
		if !in.shares[i].Value.Q.Equal(&st.snaps[2*i]) || !cur.Equal(&st.snaps[2*i+1]) {
			return h.Failf("C16:"+proto+":keys-modified", "the protocol modified a secret-key share or the target key of party %d", i)
		}
	}

	if discriminating {
		nontrivialOrder := n >= 2 && !canonicalMerges(c.Merges, n)
		if nontrivialOrder || level < params.MaxLevel() || c.Level2 >= 0 {
			szc := "small"
			if bits.Len64(c.Params.Q[0]) > 45 {
				szc = "big"
			}
			rec.NonTrivial(fmt.Sprintf("ks|%s|n=%d|ord=%v|lvl=%d/%d|%s|ntt=%v|%v|extra=%v|inplace=%v|shallow=%v|P=%d|q0=%s|second=%v", c.Target, n, nontrivialOrder, level, params.MaxLevel(),
				sigmaClass(c.Sigma), params.NTTFlag(), params.RingType(), c.Extra > 0, c.InPlace, c.Shallow, len(c.Params.P), szc, c.Level2 >= 0))
		}
	}
	return nil
}

// rapidLevel picks a level for a pre-allocated output ciphertext (KeySwitch must resize it).
func rapidLevel(rng *h.SplitMix, max int) int { return rng.Intn(max + 1) }

var propKS = h.NewProp("TestPropKeySwitch", h.Budget{Quick: 1000, Thorough: 8000}, genKS, runKS)

func TestPropKeySwitch(t *testing.T) { propKS.Check(t) }
