package c16

import (
	"fmt"
	"math"
	"math/big"
	"testing"

	"verif/internal/h"

	"github.com/tuneinsight/lattigo/v6/core/rlwe"
	"github.com/tuneinsight/lattigo/v6/multiparty"
	"github.com/tuneinsight/lattigo/v6/multiparty/mpckks"
	"github.com/tuneinsight/lattigo/v6/ring"
	"github.com/tuneinsight/lattigo/v6/schemes/ckks"
	"github.com/tuneinsight/lattigo/v6/utils/bignum"
	"pgregory.net/rapid"
)

// CKKSCase is one run of the approximate-scheme share conversion / refresh / masked linear transformation.
type CKKSCase struct {
	Params   h.CKKSSpec `json:"params"`
	Seed     uint64     `json:"seed"`
	Parties  int        `json:"parties"`
	Sigma    float64    `json:"sigma"`
	Lambda   int        `json:"lambda"`   // statistical security parameter given to GetMinimumLevelForRefresh
	ScaleMul float64    `json:"scaleMul"` // ciphertext scale = floor(2^LogScale * ScaleMul), ScaleMul in [1,2)
	LogSlots int        `json:"logSlots"`
	LevelIn  int        `json:"levelIn"`
	LevelE   int        `json:"levelE2S"`
	LevelO   int        `json:"levelOut"`
	Pattern  string     `json:"pattern"`
	Merges   []Merge    `json:"merges"`
	Merges2  []Merge    `json:"merges2"`
	Getter   int        `json:"getter"`
	GetMode  int        `json:"getMode"`        // GetShare output: 0 in place (own share), 1 a fresh share, 2 a re-used share with earlier content
	Dirty    bool       `json:"dirtyReceivers"` // every receiver holds earlier content
	Shallow  bool       `json:"shallow"`

	Mode      string `json:"mode,omitempty"` // "refresh" | "transform"
	Decode    bool   `json:"decode,omitempty"`
	Encode    bool   `json:"encode,omitempty"`
	Batched   bool   `json:"batched"`
	FKind     string `json:"fkind,omitempty"`
	FSeed     uint64 `json:"fseed,omitempty"`
	NewKey    bool   `json:"newKey,omitempty"`
	OutMode   int    `json:"outMode,omitempty"`
	PrecExtra int    `json:"precExtra,omitempty"` // encoder precision of the transform protocol = logBound + PrecExtra

	Out        *CKKSOut    `json:"out,omitempty"`        // transform: other output parameters (nil: same parameter set)
	WithParams bool        `json:"withParams,omitempty"` // build the protocol for (params, params) and derive the instance with WithParams(paramsOut)
	Second     *CKKSSecond `json:"second,omitempty"`     // a second ciphertext sent through the same protocol instances
}

// CKKSOut is the output parameter set of a masked linear transformation: ring degree N/2, N or 2N, its own moduli and scale.
type CKKSOut struct {
	LogN     int      `json:"logN"`
	Q        []uint64 `json:"Q"`
	P        []uint64 `json:"P,omitempty"`
	LogScale int      `json:"logScale"`
}

// CKKSSecond describes the second ciphertext of a case.
type CKKSSecond struct {
	Seed     uint64  `json:"seed"`
	ScaleMul float64 `json:"scaleMul"`
	LevelIn  int     `json:"levelIn"`
	LevelE   int     `json:"levelE2S"`
	LevelO   int     `json:"levelOut"`
	Pattern  string  `json:"pattern"`
	Merges   []Merge `json:"merges"`
	OutMode  int     `json:"outMode"`
}

func (c CKKSCase) outSpec() h.CKKSSpec {
	if c.Out == nil {
		return c.Params
	}
	o := c.Params
	o.LogN, o.Q, o.P, o.LogScale = c.Out.LogN, c.Out.Q, c.Out.P, c.Out.LogScale
	o.Xs, o.Xe = h.DefaultXs, h.DefaultXe
	return o
}

func scaleIntOf(logScale int, mul float64) *big.Int {
	f := new(big.Float).SetPrec(128).SetFloat64(mul)
	f.Mul(f, new(big.Float).SetPrec(128).SetMantExp(big.NewFloat(1), logScale))
	i, _ := f.Int(nil)
	return i
}

// lambdaHeadroom: for lambda < 64 the masked value may cross Q/2 at the documented minimum level with probability about
// 2^-lambda per coefficient; such cases are only judged where the modulus has 64-lambda further bits.
func lambdaHeadroom(lambda int) float64 {
	if lambda >= 64 {
		return 0
	}
	return float64(64 - lambda)
}

// needBitsE2S is ceil(logBound + log2 n) of the documented rule.
func needBitsE2S(lambda int, scale *big.Int, n int) float64 {
	sf, _ := new(big.Float).SetInt(scale).Float64()
	return math.Ceil(float64(lambda+int(math.Ceil(math.Log2(sf)))) + math.Log2(float64(n)))
}

func (c CKKSCase) RandSeed() uint64 { return c.Seed }

func (c CKKSCase) scaleInt() *big.Int {
	f := new(big.Float).SetPrec(128).SetFloat64(c.ScaleMul)
	f.Mul(f, new(big.Float).SetPrec(128).SetMantExp(big.NewFloat(1), c.Params.LogScale))
	i, _ := f.Int(nil)
	return i
}

// refModel is the harness' own statement of the level rule documented for GetMinimumLevelForRefresh: the masks have
// logBound = lambda + ceil(log2(scale)) bits and the modulus at the level must have at least ceil(logBound + log2(n)) bits.
func refMinLevel(lambda int, scale *big.Int, n int, q []uint64) (minLevel int, logBound int, ok bool) {
	sf, _ := new(big.Float).SetInt(scale).Float64()
	logBound = lambda + int(math.Ceil(math.Log2(sf)))
	need := math.Ceil(float64(logBound) + math.Log2(float64(n)))
	acc := 0.0
	for i, qi := range q {
		acc += math.Log2(float64(qi))
		if acc >= need {
			return i, logBound, true
		}
	}
	return 0, 0, false
}

func genCKKSCommon(t *rapid.T, transform bool) CKKSCase {
	var c CKKSCase
	maxLogN := 6
	if h.Thorough() {
		maxLogN = 7
	}
	logN := rapid.IntRange(4, maxLogN).Draw(t, "logN")
	c.Params.LogN = logN
	c.Params.NTT = true
	c.Params.CI = rapid.IntRange(0, 3).Draw(t, "ci") == 0
	c.Params.LogScale = rapid.IntRange(20, 45).Draw(t, "logScale")
	c.Lambda = []int{64, 80, 128, 24, 40}[rapid.IntRange(0, 4).Draw(t, "lambda")]
	c.Parties = rapid.IntRange(1, 8).Draw(t, "parties")
	c.Sigma = smudgeSigmas[rapid.IntRange(0, len(smudgeSigmas)-1).Draw(t, "sigma")]
	if rapid.Bool().Draw(t, "pow2scale") {
		c.ScaleMul = 1
	} else {
		c.ScaleMul = 1 + float64(rapid.IntRange(1, 1023).Draw(t, "scaleMul"))/1024
	}
	maxLogSlots := logN - 1
	if c.Params.CI {
		maxLogSlots = logN
	}
	c.LogSlots = maxLogSlots
	if rapid.Bool().Draw(t, "sparse") {
		c.LogSlots = rapid.IntRange(0, maxLogSlots).Draw(t, "logSlots")
	}
	// chain: enough primes for the masks (+ headroom for the growth of a transformed mask) plus 0..2 further levels
	need := float64(c.Lambda+c.Params.LogScale+1) + math.Ceil(math.Log2(float64(c.Parties))) + float64(c.LogSlots) + 4 + lambdaHeadroom(c.Lambda)
	var sizes []int
	acc := 0.0
	for i := 0; acc < need+1; i++ {
		s := rapid.IntRange(45, 60).Draw(t, fmt.Sprintf("qsz%d", i))
		sizes = append(sizes, s)
		acc += float64(s) - 1
	}
	for i, extra := 0, rapid.IntRange(0, 2).Draw(t, "extraLevels"); i < extra; i++ {
		sizes = append(sizes, rapid.IntRange(30, 60).Draw(t, fmt.Sprintf("qszx%d", i)))
	}
	m := uint64(2) << logN
	if c.Params.CI {
		m <<= 1
	}
	used := map[uint64]bool{}
	c.Params.Q = h.GenPrimes(t, sizes, m, used, "q")
	if nP := rapid.IntRange(0, 1).Draw(t, "nP"); nP > 0 {
		c.Params.P = h.GenPrimes(t, []int{rapid.IntRange(45, 60).Draw(t, "psz")}, m, used, "p")
	}
	c.Params.Xs = h.GenDist(t, true, 1<<logN, "xs")
	c.Params.Xe = h.GenDist(t, false, 1<<logN, "xe")
	fixXe(&c.Params.RLWESpec)
	c.Seed = rapid.Uint64().Draw(t, "seed")

	L := len(sizes) - 1
	minL, _, ok := refMinLevel(c.Lambda, c.scaleInt(), c.Parties, c.Params.Q)
	if !ok {
		t.Fatalf("generator: chain too short")
	}
	minO := c.minOutLevel(transform)
	if minO < 0 {
		t.Fatalf("generator: chain too short for the output")
	}
	if hr := lambdaHeadroom(c.Lambda); hr > 0 {
		minL = minLevelFor(c.Params.Q, needBitsE2S(c.Lambda, c.scaleInt(), c.Parties)+hr-1e-9)
		if minL < 0 {
			t.Fatalf("generator: chain too short for lambda headroom")
		}
	}
	c.LevelE = minL
	if rapid.IntRange(0, 2).Draw(t, "e2sAboveMin") == 0 {
		c.LevelE = rapid.IntRange(minL, L).Draw(t, "levelE2S")
	}
	c.LevelIn = rapid.IntRange(c.LevelE, L).Draw(t, "levelIn")
	if rapid.IntRange(0, 2).Draw(t, "outK") == 0 {
		c.LevelO = L
	} else {
		c.LevelO = rapid.IntRange(minO, L).Draw(t, "levelOut")
	}
	c.Pattern = []string{"uniform", "zero", "one", "onehot", "uniform"}[rapid.IntRange(0, 4).Draw(t, "pattern")]
	c.Merges = genMerges(t, c.Parties)
	c.Shallow = rapid.Bool().Draw(t, "shallow")
	c.Dirty = rapid.Bool().Draw(t, "dirty")
	c.Batched = true
	return c
}

// minOutLevel is the smallest level at which the re-encrypted shares cannot wrap around: the (possibly transformed and
// rescaled) masks have at most logBound + log2(n) + [log2(2*slots) for a decode/encode transform] + 1 bits, times the
// ratio output scale / ciphertext scale.
func (c CKKSCase) minOutLevel(transform bool) int {
	o := c.outSpec()
	return minOutLevelFor(c.Lambda, c.scaleInt(), c.Parties, c.LogSlots, o.Q, o.LogScale, transform)
}

func minOutLevelFor(lambda int, scale *big.Int, n, logSlots int, qOut []uint64, logScaleOut int, transform bool) int {
	sf, _ := new(big.Float).SetInt(scale).Float64()
	logBound := lambda + int(math.Ceil(math.Log2(sf)))
	need := float64(logBound) + math.Ceil(math.Log2(float64(n))) + 2 + lambdaHeadroom(lambda)
	if r := float64(logScaleOut) - math.Log2(sf); r > 0 {
		need += math.Ceil(r)
	}
	if transform {
		need += float64(logSlots) + 2
	}
	return minLevelFor(qOut, need)
}

func genCKKSShares(t *rapid.T) CKKSCase {
	c := genCKKSCommon(t, false)
	c.Merges2 = genMerges(t, c.Parties)
	c.Getter = rapid.IntRange(0, c.Parties).Draw(t, "getter")
	c.GetMode = rapid.IntRange(0, 2).Draw(t, "getMode")
	return c
}

var cfKinds = []string{"id", "zero", "rscale", "reim", "conj", "rot", "perm", "bcast", "map"}

func genCKKSRefresh(t *rapid.T) CKKSCase {
	c := genCKKSCommon(t, true)
	if rapid.IntRange(0, 2).Draw(t, "mode") == 0 {
		c.Mode = "refresh"
	} else {
		c.Mode = "transform"
		// admissible flag combinations: Decode needs a batched input, Encode without Decode needs a non-batched input
		switch rapid.IntRange(0, 4).Draw(t, "flags") {
		case 0, 1:
			c.Decode, c.Encode, c.Batched = true, true, true
		case 2:
			c.Decode, c.Encode, c.Batched = true, false, true
		case 3:
			c.Decode, c.Encode, c.Batched = false, false, rapid.Bool().Draw(t, "batched")
		default:
			c.Decode, c.Encode, c.Batched = false, true, false
		}
		c.FKind = cfKinds[rapid.IntRange(0, len(cfKinds)-1).Draw(t, "fkind")]
		c.FSeed = rapid.Uint64().Draw(t, "fseed")
		c.NewKey = rapid.Bool().Draw(t, "newKey")
	}
	c.OutMode = rapid.IntRange(0, 2).Draw(t, "outMode")
	c.PrecExtra = []int{64, 64, 32, 0}[rapid.IntRange(0, 3).Draw(t, "precExtra")]
	if c.Mode == "transform" && rapid.IntRange(0, 2).Draw(t, "otherParams") == 0 {
		// other output parameters: ring degree N/2, N or 2N, own moduli chain and default scale
		o := &CKKSOut{LogN: c.Params.LogN, LogScale: c.Params.LogScale}
		switch rapid.IntRange(0, 2).Draw(t, "outN") {
		case 0:
			maxOut := c.Params.LogN - 2
			if c.Params.CI {
				maxOut++
			}
			if c.Params.LogN > 4 && c.LogSlots <= maxOut {
				o.LogN--
			}
		case 1:
			o.LogN++
		}
		if rapid.Bool().Draw(t, "outScale") {
			o.LogScale = rapid.IntRange(20, 45).Draw(t, "logScaleOut")
		}
		need := float64(c.Lambda+c.Params.LogScale+1) + math.Ceil(math.Log2(float64(c.Parties))) + float64(c.LogSlots) + 5 + lambdaHeadroom(c.Lambda)
		if d := o.LogScale - c.Params.LogScale; d > 0 {
			need += float64(d)
		}
		var sizes []int
		acc := 0.0
		for i := 0; acc < need+1; i++ {
			sz := rapid.IntRange(45, 60).Draw(t, fmt.Sprintf("qosz%d", i))
			sizes = append(sizes, sz)
			acc += float64(sz) - 1
		}
		for i, extra := 0, rapid.IntRange(0, 2).Draw(t, "extraLevelsOut"); i < extra; i++ {
			sizes = append(sizes, rapid.IntRange(30, 60).Draw(t, fmt.Sprintf("qoszx%d", i)))
		}
		m := uint64(2) << o.LogN
		if c.Params.CI {
			m <<= 1
		}
		used := map[uint64]bool{}
		o.Q = h.GenPrimes(t, sizes, m, used, "qo")
		if rapid.Bool().Draw(t, "nPout") {
			o.P = h.GenPrimes(t, []int{rapid.IntRange(45, 60).Draw(t, "posz")}, m, used, "po")
		}
		c.Out = o
		c.WithParams = rapid.Bool().Draw(t, "withParams")
		mo := c.minOutLevel(true)
		if mo < 0 {
			t.Fatalf("generator: output chain too short")
		}
		c.LevelO = len(o.Q) - 1
		if rapid.Bool().Draw(t, "outBelowMax") {
			c.LevelO = rapid.IntRange(mo, len(o.Q)-1).Draw(t, "levelOutO")
		}
	}
	if rapid.Bool().Draw(t, "second") {
		s := &CKKSSecond{Seed: rapid.Uint64().Draw(t, "seed2"), ScaleMul: 1}
		if rapid.Bool().Draw(t, "scale2") {
			s.ScaleMul = 1 + float64(rapid.IntRange(1, 1023).Draw(t, "scaleMul2"))/1024
		}
		sc := scaleIntOf(c.Params.LogScale, s.ScaleMul)
		oq, ols := c.outSpec().Q, c.outSpec().LogScale
		minE := minLevelFor(c.Params.Q, needBitsE2S(c.Lambda, sc, c.Parties)+lambdaHeadroom(c.Lambda)-1e-9)
		minO := minOutLevelFor(c.Lambda, sc, c.Parties, c.LogSlots, oq, ols, true)
		if minE >= 0 && minO >= 0 {
			s.LevelE = rapid.IntRange(minE, len(c.Params.Q)-1).Draw(t, "levelE2")
			s.LevelIn = rapid.IntRange(s.LevelE, len(c.Params.Q)-1).Draw(t, "levelIn2")
			s.LevelO = rapid.IntRange(minO, len(oq)-1).Draw(t, "levelO2")
			s.Pattern = []string{"uniform", "zero", "one", "onehot"}[rapid.IntRange(0, 3).Draw(t, "pattern2")]
			s.Merges = genMerges(t, c.Parties)
			s.OutMode = rapid.IntRange(0, 2).Draw(t, "outMode2")
			c.Second = s
		}
	}
	return c
}

// cLinFunc is an R-linear slot-wise map z_i -> g_i(z_pi(i)), g_i(x+iy) = alpha_i x + i beta_i y, optionally followed by
// a multiplication by i. alpha, beta are dyadic rationals in [-1,1] (exact in any binary precision).
type cLinFunc struct {
	pi          []int
	alpha, beta []float64
	rot         bool
}

func newCLinFunc(kind string, seed uint64, n int, realOnly bool) cLinFunc {
	rng := h.NewSplitMix(seed)
	f := cLinFunc{pi: make([]int, n), alpha: make([]float64, n), beta: make([]float64, n)}
	for i := range f.pi {
		f.pi[i], f.alpha[i], f.beta[i] = i, 1, 1
	}
	dy := func() float64 { return float64(int(rng.Uint64()%513)-256) / 256 }
	switch kind {
	case "zero":
		for i := range f.pi {
			f.alpha[i], f.beta[i] = 0, 0
		}
	case "rscale":
		for i := range f.pi {
			f.alpha[i] = dy()
			f.beta[i] = f.alpha[i]
		}
	case "reim":
		for i := range f.pi {
			f.alpha[i], f.beta[i] = dy(), dy()
		}
	case "conj":
		for i := range f.pi {
			f.beta[i] = -1
		}
	case "rot":
		f.rot = true
	case "perm":
		for i := n - 1; i > 0; i-- {
			j := rng.Intn(i + 1)
			f.pi[i], f.pi[j] = f.pi[j], f.pi[i]
		}
	case "bcast":
		j := rng.Intn(n)
		for i := range f.pi {
			f.pi[i] = j
		}
	case "map":
		for i := range f.pi {
			f.pi[i] = rng.Intn(n)
			f.alpha[i], f.beta[i] = dy(), dy()
		}
	}
	if realOnly {
		// conjugate-invariant ring: slot values are real and only real parts are kept
		f.rot = false
		copy(f.beta, f.alpha)
	}
	return f
}

func (f cLinFunc) apply(z []*bignum.Complex) {
	n := len(z)
	out := make([]*bignum.Complex, n)
	for i := 0; i < n; i++ {
		src := z[f.pi[i%len(f.pi)]%n]
		prec := src[0].Prec()
		re := new(big.Float).SetPrec(prec).Mul(src[0], new(big.Float).SetPrec(prec).SetFloat64(f.alpha[i%len(f.alpha)]))
		im := new(big.Float).SetPrec(prec).Mul(src[1], new(big.Float).SetPrec(prec).SetFloat64(f.beta[i%len(f.beta)]))
		if f.rot {
			re, im = new(big.Float).SetPrec(prec).Neg(im), re
		}
		out[i] = &bignum.Complex{re, im}
	}
	for i := range z {
		z[i][0].Set(out[i][0])
		z[i][1].Set(out[i][1])
	}
}

type ckksCtx struct {
	c        CKKSCase
	params   ckks.Parameters
	in       keySet
	ct       *rlwe.Ciphertext
	a        []*big.Int // integer plaintext coefficients at the gap positions (dslots of them)
	values   []*bignum.Complex
	dslots   int
	gap      int
	logBound uint
	noise    ring.DiscreteGaussian
	crs      multiparty.CRS
	bParty   float64
	bCt      float64
	scale    *big.Int
}

func (c CKKSCase) valid() bool {
	L := len(c.Params.Q) - 1
	maxLogSlots := c.Params.LogN - 1
	if c.Params.CI {
		maxLogSlots = c.Params.LogN
	}
	return c.Parties >= 1 && c.Parties <= 8 && validMerges(c.Merges, c.Parties) && c.Sigma > 0 && L >= 0 && c.Lambda >= 16 && c.Lambda <= 256 &&
		c.LevelIn >= 0 && c.LevelIn <= L && c.LevelE >= 0 && c.LevelE <= c.LevelIn && c.LevelO >= 0 && c.LevelO <= len(c.outSpec().Q)-1 &&
		c.ScaleMul >= 1 && c.ScaleMul < 2 && c.Params.LogScale >= 10 && c.Params.LogScale <= 50 && c.LogSlots >= 0 && c.LogSlots <= maxLogSlots &&
		c.OutMode >= 0 && c.OutMode <= 2 && c.PrecExtra >= 0 && c.PrecExtra <= 256 && (c.Batched || c.LogSlots == maxLogSlots)
}

func setupCKKS(c CKKSCase, transform bool, rec *h.Rec) (*ckksCtx, error) {
	if !c.valid() {
		return nil, nil
	}
	params, err := c.Params.Build()
	if err != nil {
		return nil, nil
	}
	n := c.Parties
	x := &ckksCtx{c: c, params: params, scale: c.scaleInt()}
	scale := rlwe.NewScale(x.scale)

	// the minimum level: lattigo's helper against the harness' statement of the documented rule
	refMin, refLB, refOK := refMinLevel(c.Lambda, x.scale, n, c.Params.Q)
	minLevel, logBound, ok := mpckks.GetMinimumLevelForRefresh(c.Lambda, scale, n, params.Q())
	if !refOK {
		return nil, nil
	}
	if !ok || minLevel != refMin || int(logBound) != refLB {
		return nil, h.Failf("C16:mpckks:GetMinimumLevelForRefresh:disagrees-with-documented-rule", "GetMinimumLevelForRefresh(%d, scale=%s, n=%d, Q=%v) = (%d, %d, %v), documented rule gives (%d, %d, true)",
			c.Lambda, x.scale, n, c.Params.Q, minLevel, logBound, ok, refMin, refLB)
	}
	if c.LevelE < minLevel {
		return nil, nil // below the protocol minimum
	}
	if hr := lambdaHeadroom(c.Lambda); hr > 0 && chainBits(c.Params.Q, c.LevelE) < needBitsE2S(c.Lambda, x.scale, n)+hr-1e-9 {
		return nil, nil // lambda < 64 without headroom: a wrap-around is not negligible, not judged
	}
	if mo := c.minOutLevel(transform); mo < 0 || c.LevelO < mo {
		return nil, nil
	}
	x.logBound = logBound

	slots := 1 << c.LogSlots
	x.dslots = slots
	if params.RingType() == ring.Standard {
		x.dslots *= 2
	}
	x.gap = params.N() / x.dslots
	x.in = newKeySet(params.Parameters, n, nil)

	msg, err := x.newMsg(c.Seed, c.LevelIn, x.scale, c.Pattern, c.Batched)
	if msg == nil || err != nil {
		return nil, err
	}
	msg.logBound = logBound
	x.ct, x.a, x.values = msg.ct, msg.a, msg.values
	x.noise = ring.DiscreteGaussian{Sigma: c.Sigma, Bound: 6 * c.Sigma}
	x.crs = h.KeyedPRNG(fmt.Sprintf("c16-crs-%d", c.Seed))
	eSigma := math.Sqrt(params.NoiseFreshSK()*params.NoiseFreshSK() + c.Sigma*c.Sigma)
	x.bParty = math.Floor(6*eSigma+0.5) + 1
	x.bCt = distBound(c.Params.Xe)

	rec.Classf("parties=%d", n)
	rec.Class(sigmaClass(c.Sigma))
	rec.Classf("lambda=%d", c.Lambda)
	rec.Classf("ring=%v", params.RingType())
	if x.gap > 1 {
		rec.Class("sparse-slots")
	}
	if c.ScaleMul != 1 {
		rec.Class("scale-not-pow2")
	}
	if c.LevelIn < params.MaxLevel() {
		rec.Class("levelIn<max")
	}
	if c.LevelO < params.MaxLevel() {
		rec.Class("levelOut<max")
	}
	if c.LevelE == minLevel {
		rec.Class("levelE2S=protocol-minimum")
	}
	if c.LevelE < c.LevelIn {
		rec.Class("levelE2S<levelIn")
	}
	return x, nil
}

// ckksMsg is one encrypted message together with the harness' knowledge about it.
type ckksMsg struct {
	ct       *rlwe.Ciphertext
	a        []*big.Int // integer plaintext coefficients at the gap positions (dslots of them)
	values   []*bignum.Complex
	scale    *big.Int
	logBound uint
	levelIn  int
}

// newMsg encodes and encrypts a fresh message under the collective input key (nil, nil: not a polynomial in Y = X^gap).
func (x *ckksCtx) newMsg(seed uint64, levelIn int, scale *big.Int, pattern string, batched bool) (*ckksMsg, error) {
	c, params := x.c, x.params
	rng := h.NewSplitMix(seed)
	slots := 1 << c.LogSlots
	ringQ := params.RingQ().AtLevel(levelIn)
	m := &ckksMsg{scale: scale, levelIn: levelIn}
	pt := ckks.NewPlaintext(params, levelIn)
	pt.Scale = rlwe.NewScale(scale)
	pt.LogDimensions.Cols = c.LogSlots
	if batched {
		m.values = make([]*bignum.Complex, slots)
		for i := range m.values {
			re, im := 0.0, 0.0
			switch pattern {
			case "zero":
			case "one":
				re = 1
			case "onehot":
			default:
				re, im = 2*rng.Float64()-1, 2*rng.Float64()-1
			}
			if params.RingType() == ring.ConjugateInvariant {
				im = 0
			}
			m.values[i] = &bignum.Complex{new(big.Float).SetPrec(256).SetFloat64(re), new(big.Float).SetPrec(256).SetFloat64(im)}
		}
		if pattern == "onehot" {
			m.values[rng.Intn(slots)][0].SetFloat64(-1)
		}
		if err := ckks.NewEncoder(params, 256).Encode(m.values, pt); err != nil {
			return nil, h.Failf("C16:setup:encode", "%v", err)
		}
	} else {
		// non-batched plaintext: integer coefficients set directly
		pt.IsBatched = false
		coeffs := make([]*big.Int, params.N())
		for i := range coeffs {
			v := new(big.Int).SetUint64(rng.Uint64() % (2 * scale.Uint64()))
			coeffs[i] = v.Sub(v, scale)
			if pattern == "zero" {
				coeffs[i].SetInt64(0)
			}
		}
		ringQ.SetCoefficientsBigint(coeffs, pt.Value)
		ringQ.NTT(pt.Value, pt.Value)
	}
	// read the integer plaintext back: a_j at positions j*gap, everything else must be zero
	all := toCoeffs(ringQ, pt.Value, true)
	m.a = make([]*big.Int, x.dslots)
	for j, v := range all {
		if j%x.gap == 0 {
			m.a[j/x.gap] = v
		} else if v.Sign() != 0 {
			return nil, nil // encoder did not produce a polynomial in Y = X^gap: outside what the protocol assumes
		}
	}
	m.ct = ckks.NewCiphertext(params, 1, levelIn)
	if err := rlwe.NewEncryptor(params, x.in.ideal).Encrypt(pt, m.ct); err != nil {
		return nil, h.Failf("C16:setup:encrypt", "%v", err)
	}
	return m, nil
}

// embed places dslots big integers at the gap positions of a polynomial (coefficient domain) and returns its NTT.
func (x *ckksCtx) embedNTT(r *ring.Ring, v []*big.Int) ring.Poly {
	coeffs := make([]*big.Int, r.N())
	for i := range coeffs {
		coeffs[i] = new(big.Int)
	}
	for j := 0; j < x.dslots; j++ {
		coeffs[j*x.gap].Set(v[j])
	}
	p := r.NewPoly()
	r.SetCoefficientsBigint(coeffs, p)
	r.NTT(p, p)
	return p
}

func (x *ckksCtx) desc(kind string, ntOrder bool) string {
	c := x.c
	return fmt.Sprintf("%s|n=%d|ord=%v|in=%d/%d|e=%d|out=%d|%s|%v|sparse=%v|lambda=%d|pow2=%v|shallow=%v", kind, c.Parties, ntOrder, c.LevelIn, x.params.MaxLevel(), c.LevelE, c.LevelO,
		sigmaClass(c.Sigma), x.params.RingType(), x.gap > 1, c.Lambda, c.ScaleMul == 1, c.Shallow)
}

// ---- share conversion ------------------------------------------------------------------------------------------------

func runCKKSShares(c CKKSCase, rec *h.Rec) error {
	return ciOneSlot(c, rec, runCKKSSharesBody(c, rec))
}

// ciOneSlot maps every failure of the class (conjugate-invariant ring, one slot) to one key: there the sparse NTT used to
// embed the masks is wrong (in-place NTTConjugateInvariant of dimension 1), which breaks every protocol of this file.
func ciOneSlot(c CKKSCase, rec *h.Rec, err error) error {
	if err == nil || !c.Params.CI || c.LogSlots != 0 {
		return err
	}
	key := "C16:mpckks:conjugate-invariant-one-slot:wrong-message"
	if rec.Known(key, err.Error()) {
		rec.Class("known=ci-one-slot")
		return nil
	}
	return h.Failf(key, "%v", err)
}

func runCKKSSharesBody(c CKKSCase, rec *h.Rec) error {
	if !validMerges(c.Merges2, c.Parties) || c.Getter < 0 || c.Getter > c.Parties || !c.Batched || c.GetMode < 0 || c.GetMode > 2 {
		return nil
	}
	x, err := setupCKKS(c, false, rec)
	if x == nil || err != nil {
		return err
	}
	params, n, ct := x.params, c.Parties, x.ct
	ctOrig := ct.CopyNew()
	dd := dirtier{on: c.Dirty, rng: h.NewSplitMix(c.Seed ^ 0xd1b54a32d192ed03), rQ: params.RingQ()}
	if c.Dirty {
		rec.Class("receivers=earlier-content")
	}
	ringE := params.RingQ().AtLevel(c.LevelE)
	ringO := params.RingQ().AtLevel(c.LevelO)

	e2s0, err := mpckks.NewEncToShareProtocol(params, x.noise)
	if err != nil {
		return h.Failf("C16:mpckks:NewEncToShareProtocol:error", "%v", err)
	}
	s2e0, err := mpckks.NewShareToEncProtocol(params, x.noise)
	if err != nil {
		return h.Failf("C16:mpckks:NewShareToEncProtocol:error", "%v", err)
	}
	e2s := func(i int) mpckks.EncToShareProtocol {
		if i == 0 || !c.Shallow {
			return e2s0
		}
		return e2s0.ShallowCopy()
	}
	s2e := func(i int) mpckks.ShareToEncProtocol {
		if i == 0 || !c.Shallow {
			return s2e0
		}
		return s2e0.ShallowCopy()
	}

	c1 := ringE.NewPoly()
	c1.CopyLvl(c.LevelE, ct.Value[1])
	residual := func(i int, pub multiparty.KeySwitchShare, sec multiparty.AdditiveShareBigint) []*big.Int {
		mq := x.embedNTT(ringE, sec.Value)
		ringE.Add(mq, pub.Value, mq)
		ringE.MulCoeffsMontgomeryThenSub(c1, x.in.shares[i].Value.Q, mq)
		ringE.INTT(mq, mq)
		ringE.Reduce(mq, mq)
		return centered(ringE, mq)
	}
	var pools, pools2 smudgePools // decryption shares, re-encryption shares
	pools.off, pools2.off = !statsCase(c.Seed), !statsCase(c.Seed)
	var masks uniPools
	cls := func(i int) int {
		if i == 0 || !c.Shallow {
			return 0
		}
		return 1
	}
	half := new(big.Int).Lsh(big.NewInt(1), x.logBound-1)
	negHalf := new(big.Int).Neg(half)
	check := func(k, i int, pub multiparty.KeySwitchShare, sec multiparty.AdditiveShareBigint) error {
		if pub.Level() != c.LevelE {
			return h.Failf("C16:mpckks:EncToShare:GenShare:share-level", "public share level %d, allocated at %d", pub.Level(), c.LevelE)
		}
		for _, m := range sec.Value[:x.dslots] {
			if m.Cmp(negHalf) < 0 || m.Cmp(half) >= 0 {
				return h.Failf("C16:mpckks:EncToShare:GenShare:mask-outside-bound", "mask coefficient with %d bits, logBound=%d", m.BitLen(), x.logBound)
			}
		}
		r := residual(i, pub, sec)
		if infNorm(r).Cmp(bigF(x.bParty)) > 0 {
			return h.Failf("C16:mpckks:EncToShare:GenShare:noise-above-bound", "decryption-share noise 2^%.1f exceeds the hard bound %g (sigma=%g)", log2Big(infNorm(r)), x.bParty, c.Sigma)
		}
		pools.add(k, r)
		bf := new(big.Float).SetMantExp(big.NewFloat(1), int(x.logBound))
		for _, m := range sec.Value[:x.dslots] {
			u, _ := new(big.Float).Quo(new(big.Float).SetInt(m), bf).Float64()
			masks.add(k, u+0.5)
		}
		return nil
	}

	pub := make([]multiparty.KeySwitchShare, n)
	sec := make([]multiparty.AdditiveShareBigint, n)
	for i := 0; i < n; i++ {
		p := e2s(i)
		pub[i] = p.AllocateShare(c.LevelE)
		sec[i] = mpckks.NewAdditiveShare(params, c.LogSlots)
		dd.poly(pub[i].Value)
		dd.bigs(sec[i].Value, x.logBound)
		if len(sec[i].Value) != x.dslots {
			return h.Failf("C16:mpckks:NewAdditiveShare:size", "%d values for logSlots=%d, ring %v", len(sec[i].Value), c.LogSlots, params.RingType())
		}
		if err := p.GenShare(x.in.shares[i], x.logBound, ct, &sec[i], &pub[i]); err != nil {
			return h.Failf("C16:mpckks:EncToShare:GenShare:error", "%v (level %d, minimum level respected)", err, c.LevelE)
		}
		if err := check(cls(i), i, pub[i], sec[i]); err != nil {
			return err
		}
	}
	if !ct.Equal(ctOrig) {
		return h.Failf("C16:mpckks:EncToShare:GenShare:input-modified", "GenShare modified the input ciphertext")
	}
	ref := multiparty.KeySwitchShare{Value: *pub[0].Value.CopyNew()}
	for i := 1; i < n; i++ {
		if err := e2s0.AggregateShares(ref, pub[i], &ref); err != nil {
			return h.Failf("C16:mpckks:EncToShare:AggregateShares:error", "%v", err)
		}
	}
	agg, err := fold(pub, c.Merges, func() multiparty.KeySwitchShare { a := e2s0.AllocateShare(c.LevelE); dd.poly(a.Value); return a },
		func(a, b multiparty.KeySwitchShare, o *multiparty.KeySwitchShare) error { return e2s0.AggregateShares(a, b, o) })
	if err != nil {
		return h.Failf("C16:mpckks:EncToShare:AggregateShares:error", "%v", err)
	}
	if !congruent(ringE, agg.Value, ref.Value) {
		return h.Failf("C16:mpckks:EncToShare:AggregateShares:order-dependent", "aggregate depends on the schedule %v", c.Merges)
	}

	shares := append([]multiparty.AdditiveShareBigint{}, sec...)
	if c.Getter < n {
		g := c.Getter
		aggSnap := *agg.Value.CopyNew()
		switch c.GetMode {
		case 0:
			e2s(g).GetShare(&sec[g], agg, ct, &sec[g])
			rec.Class("getter=keyholder,in-place")
		default:
			out := mpckks.NewAdditiveShare(params, c.LogSlots)
			if c.GetMode == 2 {
				dirtier{on: true, rng: dd.rng}.bigs(out.Value, x.logBound) // a share that was used before
				rec.Class("getter=keyholder,out-of-place-reused")
			} else {
				rec.Class("getter=keyholder,out-of-place-fresh")
			}
			own := make([]*big.Int, len(sec[g].Value))
			for j, v := range sec[g].Value {
				own[j] = new(big.Int).Set(v)
			}
			e2s(g).GetShare(&sec[g], agg, ct, &out)
			for j, v := range sec[g].Value {
				if v.Cmp(own[j]) != 0 {
					return h.Failf("C16:mpckks:EncToShare:GetShare:input-modified", "GetShare into another share modified the caller's own additive share")
				}
			}
			shares[g] = out
			sec[g] = out
		}
		if !agg.Value.Equal(&aggSnap) {
			return h.Failf("C16:mpckks:EncToShare:GetShare:input-modified", "GetShare modified the aggregated public share")
		}
	} else {
		ext := mpckks.NewAdditiveShare(params, c.LogSlots)
		dd.bigs(ext.Value, x.logBound)
		e2s0.GetShare(nil, agg, ct, &ext)
		shares = append(shares, ext)
		rec.Class("getter=external")
	}
	if !ct.Equal(ctOrig) {
		return h.Failf("C16:mpckks:EncToShare:GetShare:input-modified", "GetShare modified the input ciphertext")
	}
	// sum of the shares = integer plaintext + (ciphertext noise + smudging noise)
	boundE := x.bCt + float64(n)*x.bParty
	worst := new(big.Int)
	for j := 0; j < x.dslots; j++ {
		s := new(big.Int)
		for _, sh := range shares {
			s.Add(s, sh.Value[j])
		}
		s.Sub(s, x.a[j])
		if s.CmpAbs(worst) > 0 {
			worst.Abs(s)
		}
	}
	if worst.Cmp(bigF(boundE)) > 0 {
		return h.Failf("C16:mpckks:EncToShare:shares-do-not-sum-to-message", "sum of the %d additive shares differs from the scaled message by 2^%.1f > noise bound 2^%.1f (scale 2^%.1f, logBound=%d, n=%d, levelE2S=%d, sigma=%g)",
			len(shares), log2Big(worst), math.Log2(boundE), log2Big(x.scale), x.logBound, n, c.LevelE, c.Sigma)
	}

	// smudging lower bound, separately for the constructor-built instance and for ShallowCopy instances
	e2sC := e2s0.ShallowCopy()
	e2sCC := e2sC.ShallowCopy()
	for k := 0; pools.short(0) || pools.short(1); k++ {
		px, kc := e2s0, 0
		if !pools.short(0) {
			px, kc = e2sC, 1
			if k%2 == 1 {
				px = e2sCC
			}
		}
		p := px.AllocateShare(c.LevelE)
		s := mpckks.NewAdditiveShare(params, c.LogSlots)
		if err := px.GenShare(x.in.shares[0], x.logBound, ct, &s, &p); err != nil {
			return h.Failf("C16:mpckks:EncToShare:GenShare:error", "%v", err)
		}
		if err := check(kc, 0, p, s); err != nil {
			return err
		}
	}
	if err := pools.check(c.Sigma, 1, "C16:mpckks:EncToShare:GenShare:smudging-too-small", rec); err != nil {
		return err
	}
	// the masks are documented as logBound-bit values: uniform in [-2^(logBound-1), 2^(logBound-1))
	if err := masks.check(0.5, 1.0/12, "C16:mpckks:EncToShare:GenShare:mask-not-uniform"); err != nil {
		return err
	}

	// ---- shares -> encryption ---------------------------------------------------------------------------------------
	if c.Getter == n {
		for j := range sec[0].Value {
			sec[0].Value[j].Add(sec[0].Value[j], shares[n].Value[j])
		}
	}
	crp := s2e0.SampleCRP(c.LevelO, x.crs)
	// e_i = c0Share_i - NTT(embed(share_i)) + crp * s_i
	residual2 := func(i int, sh multiparty.KeySwitchShare, sec multiparty.AdditiveShareBigint) []*big.Int {
		mq := x.embedNTT(ringO, sec.Value)
		ringO.Sub(sh.Value, mq, mq)
		ringO.MulCoeffsMontgomeryThenAdd(crp.Value, x.in.shares[i].Value.Q, mq)
		ringO.INTT(mq, mq)
		ringO.Reduce(mq, mq)
		return centered(ringO, mq)
	}
	collect2 := func(k int, r []*big.Int) error {
		if infNorm(r).Cmp(bigF(x.bParty)) > 0 {
			return h.Failf("C16:mpckks:ShareToEnc:GenShare:noise-above-bound", "re-encryption-share noise 2^%.1f exceeds the hard bound %g (sigma=%g)", log2Big(infNorm(r)), x.bParty, c.Sigma)
		}
		pools2.add(k, r)
		return nil
	}
	c0 := make([]multiparty.KeySwitchShare, n)
	for i := 0; i < n; i++ {
		p := s2e(i)
		c0[i] = p.AllocateShare(c.LevelO)
		dd.poly(c0[i].Value)
		if err := p.GenShare(x.in.shares[i], crp, ct.MetaData, sec[i], &c0[i]); err != nil {
			return h.Failf("C16:mpckks:ShareToEnc:GenShare:error", "%v", err)
		}
		if err := collect2(cls(i), residual2(i, c0[i], sec[i])); err != nil {
			return err
		}
	}
	s2eC := s2e0.ShallowCopy()
	s2eCC := s2eC.ShallowCopy()
	for k := 0; pools2.short(0) || pools2.short(1); k++ {
		px, kc := s2e0, 0
		if !pools2.short(0) {
			px, kc = s2eC, 1
			if k%2 == 1 {
				px = s2eCC
			}
		}
		sh := px.AllocateShare(c.LevelO)
		if err := px.GenShare(x.in.shares[0], crp, ct.MetaData, sec[0], &sh); err != nil {
			return h.Failf("C16:mpckks:ShareToEnc:GenShare:error", "%v", err)
		}
		if err := collect2(kc, residual2(0, sh, sec[0])); err != nil {
			return err
		}
	}
	if err := pools2.check(c.Sigma, 1, "C16:mpckks:ShareToEnc:GenShare:smudging-too-small", rec); err != nil {
		return err
	}
	ref2 := multiparty.KeySwitchShare{Value: *c0[0].Value.CopyNew()}
	for i := 1; i < n; i++ {
		if err := s2e0.AggregateShares(ref2, c0[i], &ref2); err != nil {
			return h.Failf("C16:mpckks:ShareToEnc:AggregateShares:error", "%v", err)
		}
	}
	agg2, err := fold(c0, c.Merges2, func() multiparty.KeySwitchShare { a := s2e0.AllocateShare(c.LevelO); dd.poly(a.Value); return a },
		func(a, b multiparty.KeySwitchShare, o *multiparty.KeySwitchShare) error { return s2e0.AggregateShares(a, b, o) })
	if err != nil {
		return h.Failf("C16:mpckks:ShareToEnc:AggregateShares:error", "%v", err)
	}
	if !congruent(ringO, agg2.Value, ref2.Value) {
		return h.Failf("C16:mpckks:ShareToEnc:AggregateShares:order-dependent", "aggregate depends on the schedule %v", c.Merges2)
	}
	ctRec := ckks.NewCiphertext(params, 1, c.LevelO)
	dd.poly(ctRec.Value[0], ctRec.Value[1])
	agg2Snap, crpSnap := *agg2.Value.CopyNew(), *crp.Value.CopyNew()
	*ctRec.MetaData = *ct.MetaData
	if err := s2e0.GetEncryption(agg2, crp, ctRec); err != nil {
		return h.Failf("C16:mpckks:ShareToEnc:GetEncryption:error", "%v", err)
	}
	if !agg2.Value.Equal(&agg2Snap) || !crp.Value.Equal(&crpSnap) {
		return h.Failf("C16:mpckks:ShareToEnc:GetEncryption:input-modified", "GetEncryption modified the aggregated share or the CRP")
	}
	if ctRec.Level() != c.LevelO {
		return h.Failf("C16:mpckks:ShareToEnc:GetEncryption:output-level", "re-encryption at level %d, CRP at level %d", ctRec.Level(), c.LevelO)
	}
	want := make([]*big.Float, x.dslots)
	for j := range want {
		want[j] = new(big.Float).SetPrec(512).SetInt(x.a[j])
	}
	boundO := boundE + float64(n)*x.bParty
	if err := x.checkOutput("C16:mpckks:ShareToEnc:wrong-message", ctRec, x.in.ideal, want, boundO, float64(n)*x.bParty, rec); err != nil {
		return err
	}
	nt1 := n >= 2 && !canonicalMerges(c.Merges, n)
	nt2 := n >= 2 && !canonicalMerges(c.Merges2, n)
	if (nt1 || nt2 || c.LevelIn < params.MaxLevel() || c.LevelO < params.MaxLevel()) && boundO*16 < math.Exp2(log2Big(x.scale)) {
		rec.NonTrivial(x.desc("ckks-shares", nt1 || nt2) + fmt.Sprintf("|getter-ext=%v", c.Getter == n))
	}
	return nil
}

// checkOutput decrypts out under sk and compares the integer plaintext with want (at the gap positions) within tol and
// with zero (elsewhere) within tolOff.
func (x *ckksCtx) checkOutput(key string, out *rlwe.Ciphertext, sk *rlwe.SecretKey, want []*big.Float, tol, tolOff float64, rec *h.Rec) error {
	return x.checkOutputP(x.params, x.gap, key, out, sk, want, tol, tolOff, rec)
}

func (x *ckksCtx) checkOutputP(params ckks.Parameters, gap int, key string, out *rlwe.Ciphertext, sk *rlwe.SecretKey, want []*big.Float, tol, tolOff float64, rec *h.Rec) error {
	pt := rlwe.NewDecryptor(params, sk).DecryptNew(out)
	ringQ := params.RingQ().AtLevel(out.Level())
	got := toCoeffs(ringQ, pt.Value, pt.IsNTT)
	tolB := new(big.Float).SetPrec(512).SetFloat64(math.Ceil(tol))
	for j, g := range got {
		gf := new(big.Float).SetPrec(512).SetInt(g)
		if j%gap == 0 {
			d := new(big.Float).SetPrec(512).Sub(gf, want[j/gap])
			if d.Abs(d).Cmp(tolB) > 0 {
				df, _ := d.Float64()
				wf, _ := want[j/gap].Float64()
				return h.Failf(key, "coefficient %d of the decrypted output differs from the expected scaled message by 2^%.1f > bound 2^%.1f (expected %.6g, scale 2^%.1f, n=%d, levels in=%d e2s=%d out=%d, sigma=%g, logBound=%d)",
					j, math.Log2(df), math.Log2(tol), wf, log2Big(x.scale), x.c.Parties, x.c.LevelIn, x.c.LevelE, x.c.LevelO, x.c.Sigma, x.logBound)
			}
		} else if new(big.Int).Abs(g).Cmp(bigF(tolOff)) > 0 {
			return h.Failf(key+":off-gap", "coefficient %d (not a multiple of the gap %d) of the decrypted output is 2^%.1f > re-encryption noise bound 2^%.1f", j, gap, log2Big(g), math.Log2(tolOff))
		}
	}
	return nil
}

var propCKKSShares = h.NewProp("TestPropCKKSShares", h.Budget{Quick: 400, Thorough: 3000}, genCKKSShares, runCKKSShares)

func TestPropCKKSShares(t *testing.T) { propCKKSShares.Check(t) }
