package c16

import (
	"fmt"
	"math"
	"math/big"
	"slices"
	"testing"

	"verif/internal/h"

	"github.com/tuneinsight/lattigo/v6/core/rlwe"
	"github.com/tuneinsight/lattigo/v6/multiparty"
	"github.com/tuneinsight/lattigo/v6/multiparty/mpbgv"
	"github.com/tuneinsight/lattigo/v6/ring"
	"github.com/tuneinsight/lattigo/v6/schemes/bgv"
	"pgregory.net/rapid"
)

// BGVCase is one run of the integer-scheme share conversion / refresh / masked transform.
type BGVCase struct {
	Params  h.BGVSpec `json:"params"`
	Seed    uint64    `json:"seed"`
	Parties int       `json:"parties"`
	Sigma   float64   `json:"sigma"`
	LevelIn int       `json:"levelIn"`  // level of the input ciphertext
	LevelE  int       `json:"levelE2S"` // level the decryption shares are allocated at (<= LevelIn)
	LevelO  int       `json:"levelOut"` // level of the CRP / re-encryption
	Drop    bool      `json:"drop"`     // encrypt at the maximum level and Resize down (else encrypt at LevelIn)
	Scale   uint64    `json:"scale"`    // plaintext scale (non-zero mod t)
	Pattern string    `json:"pattern"`  // slot values
	Merges  []Merge   `json:"merges"`   // aggregation schedule of the decryption / refresh shares
	Merges2 []Merge   `json:"merges2"`  // aggregation schedule of the re-encryption shares (share conversion only)
	Getter  int       `json:"getter"`   // share conversion: party calling GetShare; == Parties: an external, key-less party
	GetMode int       `json:"getMode"`  // GetShare output: 0 in place (own share), 1 a fresh share, 2 a re-used share with earlier content
	Unbatched bool    `json:"unbatched,omitempty"` // refresh mode: the input is a coefficient-encoded (IsBatched=false) ciphertext
	Dirty   bool      `json:"dirtyReceivers"` // every receiver (shares, additive shares, aggregation outputs, re-encryption ciphertext) holds earlier content
	Shallow bool      `json:"shallow"`

	// refresh / transform only
	Mode    string `json:"mode,omitempty"`    // "refresh" | "transform"
	Decode  bool   `json:"decode,omitempty"`  // MaskedTransformFunc flags
	Encode  bool   `json:"encode,omitempty"`  //
	FKind   string `json:"fkind,omitempty"`   // "id" | "zero" | "scale" | "perm" | "bcast" | "map"
	FSeed   uint64 `json:"fseed,omitempty"`   //
	NewKey  bool   `json:"newKey,omitempty"`  // transform: re-encrypt under a different collective key
	OutMode int    `json:"outMode,omitempty"` // 0: in place; 1: separate ciphertext, metadata copied by the caller; 2: fresh bgv.NewCiphertext

	OutQ   []uint64   `json:"outQ,omitempty"`   // transform: output parameter set = same N, t and distributions, these moduli (levelOut refers to this chain)
	OutP   []uint64   `json:"outP,omitempty"`   //
	Second *BGVSecond `json:"second,omitempty"` // a second ciphertext sent through the same protocol instances
}

// BGVSecond describes the second ciphertext of a case.
type BGVSecond struct {
	Seed    uint64  `json:"seed"`
	LevelIn int     `json:"levelIn"`
	LevelE  int     `json:"levelE2S"`
	LevelO  int     `json:"levelOut"`
	Scale   uint64  `json:"scale"`
	Pattern string  `json:"pattern"`
	Merges  []Merge `json:"merges"`
	OutMode int     `json:"outMode"`
}

func (c BGVCase) RandSeed() uint64 { return c.Seed }

var valuePatterns = []string{"uniform", "zero", "max", "one", "onehot", "index"}

// bgvNeedBits returns log2 of the modulus needed for exact masked decryption / re-encryption with n parties:
// |(m - sum M_i) + t*(e_ct + sum e_i)| < Q/2 with |m - sum M_i| <= (n+1) t.
func bgvNeedBits(t uint64, n int, xeSigma, xeBound, sigma float64) float64 {
	eSigma := math.Sqrt(xeSigma*xeSigma + sigma*sigma)
	bsm := math.Floor(6*eSigma+0.5) + 1
	tot := float64(t) * (float64(n) + 1 + math.Floor(xeBound+0.5) + float64(n)*bsm)
	return math.Log2(tot) + 2 // factor 2 for Q/2 and a factor 2 of margin
}

func chainBits(q []uint64, level int) float64 {
	s := 0.0
	for _, v := range q[:level+1] {
		s += math.Log2(float64(v))
	}
	return s
}

// bgvMinLevel returns the smallest level whose modulus has more than need bits (or -1).
func minLevelFor(q []uint64, need float64) int {
	for l := range q {
		if chainBits(q, l) > need {
			return l
		}
	}
	return -1
}

func genBGVCommon(t *rapid.T) BGVCase {
	var c BGVCase
	maxLogN := 6
	if h.Thorough() {
		maxLogN = 7
	}
	logN := rapid.IntRange(4, maxLogN).Draw(t, "logN")
	nQ := rapid.IntRange(1, 4).Draw(t, "nQ")
	nP := rapid.IntRange(0, 2).Draw(t, "nP")
	m := uint64(2) << logN
	used := map[uint64]bool{}
	sizes := h.GenSizes(t, nQ, 36, 60, "q")
	if sizes[0] < 48 {
		sizes[0] = 48 + sizes[0]%12
	}
	c.Params.LogN = logN
	c.Params.NTT = true
	c.Params.Q = h.GenPrimes(t, sizes, m, used, "q")
	if nP > 0 {
		c.Params.P = h.GenPrimes(t, h.GenSizes(t, nP, 36, 60, "p"), m, used, "p")
	}
	c.Params.Xs = h.GenDist(t, true, 1<<logN, "xs")
	c.Params.Xe = h.GenDist(t, false, 1<<logN, "xe")
	fixXe(&c.Params.RLWESpec)
	// plaintext modulus: prime, = 1 mod 2*nT with nT in {N, N/2, N/4} (>= 8): the plaintext ring may be smaller than N
	logNT := logN - rapid.IntRange(0, 2).Draw(t, "tOrderDrop")
	if logNT < 3 {
		logNT = 3
	}
	tbits := rapid.IntRange(logNT+2, 28).Draw(t, "tbits")
	c.Params.T = h.GenPlainModulus(t, logNT, tbits, used)

	c.Seed = rapid.Uint64().Draw(t, "seed")
	c.Parties = rapid.IntRange(1, 8).Draw(t, "parties")
	c.Sigma = smudgeSigmas[rapid.IntRange(0, len(smudgeSigmas)-1).Draw(t, "sigma")]
	L := nQ - 1
	min := minLevelFor(c.Params.Q, bgvNeedBits(c.Params.T, c.Parties, c.Params.Xe.Std(1<<c.Params.LogN), c.Params.Xe.AbsBound(), c.Sigma))
	if min < 0 {
		c.Sigma = 3.2
		min = minLevelFor(c.Params.Q, bgvNeedBits(c.Params.T, c.Parties, c.Params.Xe.Std(1<<c.Params.LogN), c.Params.Xe.AbsBound(), c.Sigma))
		if min < 0 {
			t.Fatalf("generator: no admissible level (t=%d Q=%v)", c.Params.T, c.Params.Q)
		}
	}
	c.LevelIn = rapid.IntRange(min, L).Draw(t, "levelIn")
	c.LevelE = c.LevelIn
	if rapid.IntRange(0, 2).Draw(t, "lowerE2S") == 0 {
		c.LevelE = rapid.IntRange(min, c.LevelIn).Draw(t, "levelE2S")
	}
	switch rapid.IntRange(0, 2).Draw(t, "outK") {
	case 0:
		c.LevelO = L
	default:
		c.LevelO = rapid.IntRange(min, L).Draw(t, "levelOut")
	}
	c.Drop = rapid.Bool().Draw(t, "drop")
	switch rapid.IntRange(0, 3).Draw(t, "scaleK") {
	case 0:
		c.Scale = 1
	case 1:
		c.Scale = 2
	default:
		c.Scale = rapid.Uint64Range(1, c.Params.T-1).Draw(t, "scale")
	}
	c.Pattern = valuePatterns[rapid.IntRange(0, len(valuePatterns)-1).Draw(t, "pattern")]
	c.Merges = genMerges(t, c.Parties)
	c.Shallow = rapid.Bool().Draw(t, "shallow")
	c.Dirty = rapid.Bool().Draw(t, "dirty")
	return c
}

func genBGVShares(t *rapid.T) BGVCase {
	c := genBGVCommon(t)
	c.Merges2 = genMerges(t, c.Parties)
	c.Getter = rapid.IntRange(0, c.Parties).Draw(t, "getter")
	c.GetMode = rapid.IntRange(0, 2).Draw(t, "getMode")
	return c
}

var fKinds = []string{"id", "zero", "scale", "perm", "bcast", "map"}

func genBGVRefresh(t *rapid.T) BGVCase {
	c := genBGVCommon(t)
	need := bgvNeedBits(c.Params.T, c.Parties, c.Params.Xe.Std(1<<c.Params.LogN), c.Params.Xe.AbsBound(), c.Sigma)
	qOut := c.Params.Q
	if rapid.IntRange(0, 2).Draw(t, "mode") == 0 {
		c.Mode = "refresh"
		c.Unbatched = rapid.IntRange(0, 2).Draw(t, "unbatched") == 0
	} else {
		c.Mode = "transform"
		c.Decode = rapid.Bool().Draw(t, "decode")
		c.Encode = rapid.Bool().Draw(t, "encode")
		c.FKind = fKinds[rapid.IntRange(0, len(fKinds)-1).Draw(t, "fkind")]
		c.FSeed = rapid.Uint64().Draw(t, "fseed")
		c.NewKey = rapid.Bool().Draw(t, "newKey")
		if rapid.IntRange(0, 2).Draw(t, "otherParams") == 0 {
			// other output moduli (same N, t): 1-4 Q primes, 0-2 P primes, first prime >= 48 bits
			m := uint64(2) << c.Params.LogN
			used := map[uint64]bool{c.Params.T: true}
			sizes := h.GenSizes(t, rapid.IntRange(1, 4).Draw(t, "nQout"), 36, 60, "qo")
			if sizes[0] < 48 {
				sizes[0] = 48 + sizes[0]%12
			}
			c.OutQ = h.GenPrimes(t, sizes, m, used, "qo")
			if nP := rapid.IntRange(0, 2).Draw(t, "nPout"); nP > 0 {
				c.OutP = h.GenPrimes(t, h.GenSizes(t, nP, 36, 60, "po"), m, used, "po")
			}
			qOut = c.OutQ
			if mo := minLevelFor(qOut, need); mo < 0 {
				c.OutQ, c.OutP, qOut = nil, nil, c.Params.Q
			} else {
				c.LevelO = rapid.IntRange(mo, len(qOut)-1).Draw(t, "levelOutO")
			}
		}
	}
	c.OutMode = rapid.IntRange(0, 2).Draw(t, "outMode")
	if rapid.Bool().Draw(t, "second") {
		minI, minO := minLevelFor(c.Params.Q, need), minLevelFor(qOut, need)
		s := &BGVSecond{Seed: rapid.Uint64().Draw(t, "seed2")}
		s.LevelIn = rapid.IntRange(minI, len(c.Params.Q)-1).Draw(t, "levelIn2")
		s.LevelE = rapid.IntRange(minI, s.LevelIn).Draw(t, "levelE2")
		s.LevelO = rapid.IntRange(minO, len(qOut)-1).Draw(t, "levelO2")
		s.Scale = rapid.Uint64Range(1, c.Params.T-1).Draw(t, "scale2")
		s.Pattern = valuePatterns[rapid.IntRange(0, len(valuePatterns)-1).Draw(t, "pattern2")]
		s.Merges = genMerges(t, c.Parties)
		s.OutMode = rapid.IntRange(0, 2).Draw(t, "outMode2")
		c.Second = s
	}
	return c
}

func fillValues(pat string, t uint64, n int, rng *h.SplitMix) []uint64 {
	v := make([]uint64, n)
	switch pat {
	case "zero":
	case "max":
		for i := range v {
			v[i] = t - 1
		}
	case "one":
		for i := range v {
			v[i] = 1
		}
	case "onehot":
		v[rng.Intn(n)] = 1 + rng.Uint64()%(t-1)
	case "index":
		for i := range v {
			v[i] = uint64(i+1) % t
		}
	default:
		for i := range v {
			v[i] = rng.Uint64() % t
		}
	}
	return v
}

// linFunc is a Z_t-linear slot-wise map x -> c (.) x[pi].
type linFunc struct {
	pi []int
	c  []uint64
	t  uint64
}

func newLinFunc(kind string, seed uint64, n int, t uint64) linFunc {
	rng := h.NewSplitMix(seed)
	f := linFunc{pi: make([]int, n), c: make([]uint64, n), t: t}
	for i := range f.pi {
		f.pi[i] = i
		f.c[i] = 1
	}
	switch kind {
	case "zero":
		for i := range f.c {
			f.c[i] = 0
		}
	case "scale":
		for i := range f.c {
			f.c[i] = rng.Uint64() % t
		}
	case "perm":
		for i := n - 1; i > 0; i-- {
			j := rng.Intn(i + 1)
			f.pi[i], f.pi[j] = f.pi[j], f.pi[i]
		}
	case "bcast":
		j := rng.Intn(n)
		for i := range f.pi {
			f.pi[i] = j
		}
	case "map":
		for i := range f.pi {
			f.pi[i] = rng.Intn(n)
			f.c[i] = rng.Uint64() % t
		}
	}
	return f
}

func (f linFunc) apply(x []uint64) {
	out := make([]uint64, len(x))
	for i := range out {
		out[i] = mulmod(f.c[i], x[f.pi[i]]%f.t, f.t)
	}
	copy(x, out)
}

func mulmod(a, b, q uint64) uint64 {
	return new(big.Int).Mod(new(big.Int).Mul(new(big.Int).SetUint64(a), new(big.Int).SetUint64(b)), new(big.Int).SetUint64(q)).Uint64()
}

type bgvCtx struct {
	c       BGVCase
	params  bgv.Parameters
	ecd     *bgv.Encoder
	in      keySet
	values  []uint64
	ct      *rlwe.Ciphertext
	noise   ring.DiscreteGaussian
	crs     multiparty.CRS
	nT      int
	bParty  float64 // hard bound on the smudging noise of one share
	enough  func(level int) bool
	needBit float64
}

func (c BGVCase) valid() bool {
	L := len(c.Params.Q) - 1
	LO := L
	if len(c.OutQ) > 0 {
		LO = len(c.OutQ) - 1
	}
	return c.Parties >= 1 && c.Parties <= 8 && validMerges(c.Merges, c.Parties) && c.Sigma > 0 && L >= 0 &&
		c.LevelIn >= 0 && c.LevelIn <= L && c.LevelE >= 0 && c.LevelE <= c.LevelIn && c.LevelO >= 0 && c.LevelO <= LO &&
		c.Params.T > 2 && c.Scale%c.Params.T != 0 && c.OutMode >= 0 && c.OutMode <= 2
}

func setupBGV(c BGVCase, rec *h.Rec) (*bgvCtx, error) {
	if !c.valid() {
		return nil, nil
	}
	params, err := c.Params.Build()
	if err != nil {
		return nil, nil
	}
	x := &bgvCtx{c: c, params: params}
	x.needBit = bgvNeedBits(c.Params.T, c.Parties, c.Params.Xe.Std(1<<c.Params.LogN), c.Params.Xe.AbsBound(), c.Sigma)
	x.enough = func(level int) bool { return chainBits(c.Params.Q, level) > x.needBit }
	if !x.enough(c.LevelE) || (len(c.OutQ) == 0 && !x.enough(c.LevelO)) {
		return nil, nil // below the minimum level for exact masked decryption: outside the property's domain
	}
	x.ecd = bgv.NewEncoder(params)
	x.nT = params.RingT().N()
	rng := h.NewSplitMix(c.Seed)
	x.values = fillValues(c.Pattern, c.Params.T, x.nT, rng)
	x.in = newKeySet(params.Parameters, c.Parties, nil)
	lvl := c.LevelIn
	if c.Drop {
		lvl = params.MaxLevel()
	}
	pt := bgv.NewPlaintext(params, lvl)
	pt.Scale = params.NewScale(c.Scale)
	if c.Unbatched && c.Mode == "refresh" {
		pt.IsBatched = false
		rec.Class("input=coefficient-encoded")
	}
	if err := x.ecd.Encode(x.values, pt); err != nil {
		return nil, h.Failf("C16:setup:encode", "%v", err)
	}
	x.ct = bgv.NewCiphertext(params, 1, lvl)
	if err := rlwe.NewEncryptor(params, x.in.ideal).Encrypt(pt, x.ct); err != nil {
		return nil, h.Failf("C16:setup:encrypt", "%v", err)
	}
	if c.Drop {
		x.ct.Resize(1, c.LevelIn)
	}
	x.noise = ring.DiscreteGaussian{Sigma: c.Sigma, Bound: 6 * c.Sigma}
	x.crs = h.KeyedPRNG(fmt.Sprintf("c16-crs-%d", c.Seed))
	eSigma := math.Sqrt(params.NoiseFreshSK()*params.NoiseFreshSK() + c.Sigma*c.Sigma)
	x.bParty = math.Floor(6*eSigma+0.5) + 1

	rec.Classf("parties=%d", c.Parties)
	rec.Class(sigmaClass(c.Sigma))
	rec.Classf("pattern=%s", c.Pattern)
	if x.nT < params.N() {
		rec.Class("ringT<N")
	}
	if c.LevelIn < params.MaxLevel() {
		rec.Class("levelIn<max")
	}
	if c.LevelO < params.MaxLevel() {
		rec.Class("levelOut<max")
	}
	if c.LevelE < c.LevelIn {
		rec.Class("levelE2S<levelIn")
	}
	return x, nil
}

// decryptT decrypts ct under sk and returns the plaintext polynomial modulo t (coefficient domain of R_t).
func (x *bgvCtx) decryptT(ct *rlwe.Ciphertext, sk *rlwe.SecretKey) ring.Poly {
	params := x.params
	pt := rlwe.NewDecryptor(params, sk).DecryptNew(ct)
	ringQ := params.RingQ().AtLevel(pt.Level())
	buf := ringQ.NewPoly()
	if pt.IsNTT {
		ringQ.INTT(pt.Value, buf)
	} else {
		buf.CopyLvl(pt.Level(), pt.Value)
	}
	pT := params.RingT().NewPoly()
	x.ecd.RingQ2T(pt.Level(), true, buf, pT)
	return pT
}

func (x *bgvCtx) desc(kind string, ntOrder bool) string {
	c := x.c
	return fmt.Sprintf("%s|n=%d|ord=%v|in=%d/%d|e=%d|out=%d|%s|ringT<N=%v|P=%d|drop=%v|scale=%v|shallow=%v", kind, c.Parties, ntOrder, c.LevelIn, x.params.MaxLevel(), c.LevelE, c.LevelO,
		sigmaClass(c.Sigma), x.nT < x.params.N(), len(c.Params.P), c.Drop, scaleClass(c.Scale), c.Shallow)
}

func scaleClass(s uint64) string {
	if s <= 2 {
		return fmt.Sprint(s)
	}
	return "rnd"
}

// ---- share conversion ------------------------------------------------------------------------------------------------

func runBGVShares(c BGVCase, rec *h.Rec) error {
	if !validMerges(c.Merges2, c.Parties) || c.Getter < 0 || c.Getter > c.Parties || c.GetMode < 0 || c.GetMode > 2 {
		return nil
	}
	x, err := setupBGV(c, rec)
	if x == nil || err != nil {
		return err
	}
	params, n, ct := x.params, c.Parties, x.ct
	ringT := params.RingT()
	ctOrig := ct.CopyNew()
	dd := dirtier{on: c.Dirty, rng: h.NewSplitMix(c.Seed ^ 0xd1b54a32d192ed03), rQ: params.RingQ()}
	if c.Dirty {
		rec.Class("receivers=earlier-content")
	}

	e2s0, err := mpbgv.NewEncToShareProtocol(params, x.noise)
	if err != nil {
		return h.Failf("C16:mpbgv:NewEncToShareProtocol:error", "%v", err)
	}
	s2e0, err := mpbgv.NewShareToEncProtocol(params, x.noise)
	if err != nil {
		return h.Failf("C16:mpbgv:NewShareToEncProtocol:error", "%v", err)
	}
	e2s := func(i int) mpbgv.EncToShareProtocol {
		if i == 0 || !c.Shallow {
			return e2s0
		}
		return e2s0.ShallowCopy()
	}
	s2e := func(i int) mpbgv.ShareToEncProtocol {
		if i == 0 || !c.Shallow {
			return s2e0
		}
		return s2e0.ShallowCopy()
	}

	levelE := c.LevelE
	ringE := params.RingQ().AtLevel(levelE)
	c1 := ringE.NewPoly()
	c1.CopyLvl(levelE, ct.Value[1]) // BGV ciphertexts are in the NTT domain

	// e_i = publicShare_i + NTT(M_i * t^-1) - c1 * s_i
	residual := func(i int, pub multiparty.KeySwitchShare, sec multiparty.AdditiveShare) []*big.Int {
		mq := ringE.NewPoly()
		x.ecd.RingT2Q(levelE, true, sec.Value, mq)
		ringE.NTT(mq, mq)
		ringE.Add(mq, pub.Value, mq)
		ringE.MulCoeffsMontgomeryThenSub(c1, x.in.shares[i].Value.Q, mq)
		ringE.INTT(mq, mq)
		ringE.Reduce(mq, mq)
		return centered(ringE, mq)
	}
	var pools, pools2 smudgePools // decryption shares, re-encryption shares
	pools.off, pools2.off = !statsCase(c.Seed), !statsCase(c.Seed)
	var masks uniPools
	cls := func(i int) int {
		if i == 0 || !c.Shallow {
			return 0
		}
		return 1
	}
	collect := func(k int, r []*big.Int) error {
		if infNorm(r).Cmp(bigF(x.bParty)) > 0 {
			return h.Failf("C16:mpbgv:EncToShare:GenShare:noise-above-bound", "decryption-share noise %s exceeds the hard bound %g (sigma=%g)", infNorm(r), x.bParty, c.Sigma)
		}
		pools.add(k, r)
		return nil
	}

	pub := make([]multiparty.KeySwitchShare, n)
	sec := make([]multiparty.AdditiveShare, n)
	for i := 0; i < n; i++ {
		p := e2s(i)
		pub[i] = p.AllocateShare(levelE)
		sec[i] = mpbgv.NewAdditiveShare(params)
		dd.poly(pub[i].Value)
		dd.polyMod(c.Params.T, sec[i].Value)
		p.GenShare(x.in.shares[i], ct, &sec[i], &pub[i])
		if pub[i].Level() != levelE {
			return h.Failf("C16:mpbgv:EncToShare:GenShare:share-level", "public share level %d, allocated at %d (ct level %d)", pub[i].Level(), levelE, ct.Level())
		}
		for _, v := range sec[i].Value.Coeffs[0] {
			if v >= c.Params.T {
				return h.Failf("C16:mpbgv:EncToShare:GenShare:mask-not-reduced", "additive share coefficient %d >= t=%d", v, c.Params.T)
			}
		}
		if err := collect(cls(i), residual(i, pub[i], sec[i])); err != nil {
			return err
		}
		for _, v := range sec[i].Value.Coeffs[0] {
			masks.add(cls(i), float64(v)/float64(c.Params.T))
		}
	}
	if !ct.Equal(ctOrig) {
		return h.Failf("C16:mpbgv:EncToShare:GenShare:input-modified", "GenShare modified the input ciphertext")
	}
	ref := multiparty.KeySwitchShare{Value: *pub[0].Value.CopyNew()}
	for i := 1; i < n; i++ {
		if err := e2s0.AggregateShares(ref, pub[i], &ref); err != nil {
			return h.Failf("C16:mpbgv:EncToShare:AggregateShares:error", "%v", err)
		}
	}
	agg, err := fold(pub, c.Merges, func() multiparty.KeySwitchShare { a := e2s0.AllocateShare(levelE); dd.poly(a.Value); return a },
		func(a, b multiparty.KeySwitchShare, o *multiparty.KeySwitchShare) error { return e2s0.AggregateShares(a, b, o) })
	if err != nil {
		return h.Failf("C16:mpbgv:EncToShare:AggregateShares:error", "%v", err)
	}
	if !congruent(ringE, agg.Value, ref.Value) {
		return h.Failf("C16:mpbgv:EncToShare:AggregateShares:order-dependent", "aggregate depends on the schedule %v", c.Merges)
	}

	// GetShare by one key holder (in place, as in lattigo's tests) or by an external party
	shares := append([]multiparty.AdditiveShare{}, sec...)
	if c.Getter < n {
		g := c.Getter
		aggSnap := *agg.Value.CopyNew()
		switch c.GetMode {
		case 0:
			e2s(g).GetShare(&sec[g], agg, ct, &sec[g])
			rec.Class("getter=keyholder,in-place")
		default:
			out := mpbgv.NewAdditiveShare(params)
			if c.GetMode == 2 {
				for j := range out.Value.Coeffs[0] {
					out.Value.Coeffs[0][j] = dd.rng.Uint64() % c.Params.T // a share that was used before
				}
				rec.Class("getter=keyholder,out-of-place-reused")
			} else {
				rec.Class("getter=keyholder,out-of-place-fresh")
			}
			own := *sec[g].Value.CopyNew()
			e2s(g).GetShare(&sec[g], agg, ct, &out)
			if !ringT.Equal(own, sec[g].Value) {
				return h.Failf("C16:mpbgv:EncToShare:GetShare:input-modified", "GetShare into another share modified the caller's own additive share")
			}
			shares[g] = out
			sec[g] = out
		}
		if !agg.Value.Equal(&aggSnap) {
			return h.Failf("C16:mpbgv:EncToShare:GetShare:input-modified", "GetShare modified the aggregated public share")
		}
	} else {
		ext := mpbgv.NewAdditiveShare(params)
		dd.polyMod(c.Params.T, ext.Value)
		e2s0.GetShare(nil, agg, ct, &ext)
		shares = append(shares, ext)
		rec.Class("getter=external")
	}
	if !ct.Equal(ctOrig) {
		return h.Failf("C16:mpbgv:EncToShare:GetShare:input-modified", "GetShare modified the input ciphertext")
	}
	sum := ringT.NewPoly()
	for _, s := range shares {
		ringT.Add(sum, s.Value, sum)
	}
	got := make([]uint64, x.nT)
	if err := x.ecd.DecodeRingT(sum, ct.Scale, got); err != nil {
		return h.Failf("C16:mpbgv:EncToShare:decode-error", "%v", err)
	}
	if !slices.Equal(got, x.values) {
		return h.Failf("C16:mpbgv:EncToShare:shares-do-not-sum-to-message", "sum of the %d additive shares decodes to %v..., message %v... (t=%d, levelIn=%d, levelE2S=%d, sigma=%g)",
			len(shares), head(got), head(x.values), c.Params.T, c.LevelIn, levelE, c.Sigma)
	}

	// smudging lower bound on the decryption shares, separately for the constructor-built instance and for ShallowCopy
	// instances (copy and copy-of-copy)
	e2sC := e2s0.ShallowCopy()
	e2sCC := e2sC.ShallowCopy()
	for k := 0; pools.short(0) || pools.short(1); k++ {
		px, kc := e2s0, 0
		if !pools.short(0) {
			px, kc = e2sC, 1
			if k%2 == 1 {
				px = e2sCC
			}
		}
		p := px.AllocateShare(levelE)
		s := mpbgv.NewAdditiveShare(params)
		px.GenShare(x.in.shares[0], ct, &s, &p)
		if err := collect(kc, residual(0, p, s)); err != nil {
			return err
		}
		for _, v := range s.Value.Coeffs[0] {
			masks.add(kc, float64(v)/float64(c.Params.T))
		}
	}
	if err := pools.check(c.Sigma, 1, "C16:mpbgv:EncToShare:GenShare:smudging-too-small", rec); err != nil {
		return err
	}
	// the additive shares (masks) are documented as uniform in R_t
	tf64 := float64(c.Params.T)
	if err := masks.check((tf64-1)/(2*tf64), (tf64*tf64-1)/(12*tf64*tf64), "C16:mpbgv:EncToShare:GenShare:mask-not-uniform"); err != nil {
		return err
	}

	// ---- shares -> encryption ---------------------------------------------------------------------------------------
	if c.Getter == n {
		// the external party hands its share to party 0
		ringT.Add(sec[0].Value, shares[n].Value, sec[0].Value)
	}
	levelO := c.LevelO
	ringO := params.RingQ().AtLevel(levelO)
	crp := s2e0.SampleCRP(levelO, x.crs)
	// e_i = c0Share_i - NTT(M_i * t^-1) + crp * s_i
	residual2 := func(i int, sh multiparty.KeySwitchShare, sec multiparty.AdditiveShare) []*big.Int {
		mq := ringO.NewPoly()
		x.ecd.RingT2Q(levelO, true, sec.Value, mq)
		ringO.NTT(mq, mq)
		ringO.Sub(sh.Value, mq, mq)
		ringO.MulCoeffsMontgomeryThenAdd(crp.Value, x.in.shares[i].Value.Q, mq)
		ringO.INTT(mq, mq)
		ringO.Reduce(mq, mq)
		return centered(ringO, mq)
	}
	collect2 := func(k int, r []*big.Int) error {
		if infNorm(r).Cmp(bigF(x.bParty)) > 0 {
			return h.Failf("C16:mpbgv:ShareToEnc:GenShare:noise-above-bound", "re-encryption-share noise %s exceeds the hard bound %g (sigma=%g)", infNorm(r), x.bParty, c.Sigma)
		}
		pools2.add(k, r)
		return nil
	}
	c0 := make([]multiparty.KeySwitchShare, n)
	for i := 0; i < n; i++ {
		p := s2e(i)
		c0[i] = p.AllocateShare(levelO)
		dd.poly(c0[i].Value)
		before := *sec[i].Value.CopyNew()
		if err := p.GenShare(x.in.shares[i], crp, sec[i], &c0[i]); err != nil {
			return h.Failf("C16:mpbgv:ShareToEnc:GenShare:error", "%v", err)
		}
		if err := collect2(cls(i), residual2(i, c0[i], sec[i])); err != nil {
			return err
		}
		if !ringT.Equal(before, sec[i].Value) {
			return h.Failf("C16:mpbgv:ShareToEnc:GenShare:input-modified", "GenShare modified the additive share")
		}
	}
	s2eC := s2e0.ShallowCopy()
	s2eCC := s2eC.ShallowCopy()
	for k := 0; pools2.short(0) || pools2.short(1); k++ {
		px, kc := s2e0, 0
		if !pools2.short(0) {
			px, kc = s2eC, 1
			if k%2 == 1 {
				px = s2eCC
			}
		}
		sh := px.AllocateShare(levelO)
		if err := px.GenShare(x.in.shares[0], crp, sec[0], &sh); err != nil {
			return h.Failf("C16:mpbgv:ShareToEnc:GenShare:error", "%v", err)
		}
		if err := collect2(kc, residual2(0, sh, sec[0])); err != nil {
			return err
		}
	}
	if err := pools2.check(c.Sigma, 1, "C16:mpbgv:ShareToEnc:GenShare:smudging-too-small", rec); err != nil {
		return err
	}
	ref2 := multiparty.KeySwitchShare{Value: *c0[0].Value.CopyNew()}
	for i := 1; i < n; i++ {
		if err := s2e0.AggregateShares(ref2, c0[i], &ref2); err != nil {
			return h.Failf("C16:mpbgv:ShareToEnc:AggregateShares:error", "%v", err)
		}
	}
	agg2, err := fold(c0, c.Merges2, func() multiparty.KeySwitchShare { a := s2e0.AllocateShare(levelO); dd.poly(a.Value); return a },
		func(a, b multiparty.KeySwitchShare, o *multiparty.KeySwitchShare) error { return s2e0.AggregateShares(a, b, o) })
	if err != nil {
		return h.Failf("C16:mpbgv:ShareToEnc:AggregateShares:error", "%v", err)
	}
	if !congruent(ringO, agg2.Value, ref2.Value) {
		return h.Failf("C16:mpbgv:ShareToEnc:AggregateShares:order-dependent", "aggregate depends on the schedule %v", c.Merges2)
	}
	ctRec := bgv.NewCiphertext(params, 1, levelO)
	dd.poly(ctRec.Value[0], ctRec.Value[1])
	agg2Snap, crpSnap := *agg2.Value.CopyNew(), *crp.Value.CopyNew()
	*ctRec.MetaData = *ct.MetaData // as in lattigo's test: the message metadata travels with the shares
	if err := s2e0.GetEncryption(agg2, crp, ctRec); err != nil {
		return h.Failf("C16:mpbgv:ShareToEnc:GetEncryption:error", "%v", err)
	}
	if !agg2.Value.Equal(&agg2Snap) || !crp.Value.Equal(&crpSnap) {
		return h.Failf("C16:mpbgv:ShareToEnc:GetEncryption:input-modified", "GetEncryption modified the aggregated share or the CRP")
	}
	if ctRec.Level() != levelO {
		return h.Failf("C16:mpbgv:ShareToEnc:GetEncryption:output-level", "re-encryption at level %d, CRP at level %d", ctRec.Level(), levelO)
	}
	have := make([]uint64, x.nT)
	if err := x.ecd.Decode(rlwe.NewDecryptor(params, x.in.ideal).DecryptNew(ctRec), have); err != nil {
		return h.Failf("C16:mpbgv:ShareToEnc:decode-error", "%v", err)
	}
	if !slices.Equal(have, x.values) {
		return h.Failf("C16:mpbgv:ShareToEnc:wrong-message", "re-encryption of the shares decrypts to %v..., message %v... (t=%d, levelOut=%d, sigma=%g, n=%d)",
			head(have), head(x.values), c.Params.T, levelO, c.Sigma, n)
	}

	nt1 := n >= 2 && !canonicalMerges(c.Merges, n)
	nt2 := n >= 2 && !canonicalMerges(c.Merges2, n)
	if nt1 || nt2 || c.LevelIn < params.MaxLevel() || c.LevelO < params.MaxLevel() {
		rec.NonTrivial(x.desc("bgv-shares", nt1 || nt2) + fmt.Sprintf("|getter-ext=%v|%s", c.Getter == n, patClass(c.Pattern)))
	}
	return nil
}

func patClass(p string) string {
	if p == "uniform" {
		return "uniform"
	}
	return "boundary"
}

func head(v []uint64) []uint64 {
	if len(v) > 6 {
		return v[:6]
	}
	return v
}

var propBGVShares = h.NewProp("TestPropBGVShares", h.Budget{Quick: 500, Thorough: 4000}, genBGVShares, runBGVShares)

func TestPropBGVShares(t *testing.T) { propBGVShares.Check(t) }

// ---- refresh / masked transform --------------------------------------------------------------------------------------

// newCT encrypts a fresh message under the collective input key.
func (x *bgvCtx) newCT(seed uint64, levelIn int, drop bool, scale uint64, pattern string) (*rlwe.Ciphertext, []uint64, error) {
	params := x.params
	rng := h.NewSplitMix(seed)
	values := fillValues(pattern, x.c.Params.T, x.nT, rng)
	lvl := levelIn
	if drop {
		lvl = params.MaxLevel()
	}
	pt := bgv.NewPlaintext(params, lvl)
	pt.Scale = params.NewScale(scale)
	if x.c.Unbatched && x.c.Mode == "refresh" {
		pt.IsBatched = false
	}
	if err := x.ecd.Encode(values, pt); err != nil {
		return nil, nil, h.Failf("C16:setup:encode", "%v", err)
	}
	ct := bgv.NewCiphertext(params, 1, lvl)
	if err := rlwe.NewEncryptor(params, x.in.ideal).Encrypt(pt, ct); err != nil {
		return nil, nil, h.Failf("C16:setup:encrypt", "%v", err)
	}
	if drop {
		ct.Resize(1, levelIn)
	}
	return ct, values, nil
}

// bgvRound is one ciphertext sent through the (re-used) protocol instances of a refresh / transform case.
type bgvRound struct {
	ct      *rlwe.Ciphertext
	values  []uint64
	levelIn int
	levelE  int
	levelO  int
	merges  []Merge
	outMode int
	seed    uint64
	first   bool
}

func (c BGVCase) outSpec() h.BGVSpec {
	o := c.Params
	if len(c.OutQ) > 0 {
		o.Q, o.P = c.OutQ, c.OutP
	}
	return o
}

func runBGVRefresh(c BGVCase, rec *h.Rec) error {
	if c.Mode != "refresh" && c.Mode != "transform" {
		return nil
	}
	otherParams := len(c.OutQ) > 0
	if otherParams && c.Mode != "transform" {
		return nil
	}
	x, err := setupBGV(c, rec)
	if x == nil || err != nil {
		return err
	}
	params, n := x.params, c.Parties
	paramsOut := params
	qOut := c.Params.Q
	if otherParams {
		if paramsOut, err = c.outSpec().Build(); err != nil {
			return nil
		}
		qOut = c.OutQ
		rec.Class("paramsOut!=paramsIn")
	}
	enoughOut := func(level int) bool { return level >= 0 && level < len(qOut) && chainBits(qOut, level) > x.needBit }
	enoughIn := func(level int) bool { return level >= 0 && level < len(c.Params.Q) && chainBits(c.Params.Q, level) > x.needBit }
	if !enoughOut(c.LevelO) {
		return nil
	}
	ringT := params.RingT()
	T := c.Params.T
	ecdOut := bgv.NewEncoder(paramsOut)

	outKeys := x.in
	if c.Mode == "transform" && (c.NewKey || otherParams) {
		outKeys = newKeySet(paramsOut.Parameters, n, nil)
	}

	var tf *mpbgv.MaskedTransformFunc
	var f linFunc
	if c.Mode == "transform" {
		f = newLinFunc(c.FKind, c.FSeed, x.nT, T)
		tf = &mpbgv.MaskedTransformFunc{Decode: c.Decode, Func: f.apply, Encode: c.Encode}
		rec.Classf("transform:decode=%v,encode=%v", c.Decode, c.Encode)
		rec.Classf("f=%s", c.FKind)
	} else {
		rec.Class("refresh")
	}
	rec.Classf("outMode=%d", c.OutMode)

	// protocol instances (created once, used for every ciphertext of the case)
	var rfp0 mpbgv.RefreshProtocol
	var mtp0 mpbgv.MaskedTransformProtocol
	if c.Mode == "refresh" {
		if rfp0, err = mpbgv.NewRefreshProtocol(params, x.noise); err != nil {
			return h.Failf("C16:mpbgv:NewRefreshProtocol:error", "%v", err)
		}
		mtp0 = rfp0.MaskedTransformProtocol
	} else {
		if mtp0, err = mpbgv.NewMaskedTransformProtocol(params, paramsOut, x.noise); err != nil {
			return h.Failf("C16:mpbgv:NewMaskedTransformProtocol:error", "%v", err)
		}
	}
	inst := make([]mpbgv.MaskedTransformProtocol, n)
	for i := range inst {
		if i == 0 || !c.Shallow {
			inst[i] = mtp0
		} else {
			inst[i] = mtp0.ShallowCopy()
		}
	}
	skSnap := x.in.shares[0].Value.Q.CopyNew()
	skOutSnap := outKeys.shares[0].Value.Q.CopyNew()
	drng := h.NewSplitMix(c.Seed ^ 0xd1b54a32d192ed03)
	dd := dirtier{on: c.Dirty, rng: drng, rQ: params.RingQ()}
	ddO := dirtier{on: c.Dirty, rng: drng, rQ: paramsOut.RingQ()}
	if c.Dirty {
		rec.Class("receivers=earlier-content")
	}

	var prevOut *rlwe.Ciphertext // output ciphertext of the previous round, re-used as receiver

	round := func(r bgvRound) error {
		ct := r.ct
		// expected plaintext polynomial modulo t of the output
		scale := ct.Scale
		ptT := ringT.NewPoly()
		if !ct.IsBatched {
			for j, v := range r.values {
				ptT.Coeffs[0][j] = mulmod(v, scale.Uint64(), T)
			}
		} else if err := x.ecd.EncodeRingT(r.values, scale, ptT); err != nil {
			return h.Failf("C16:setup:EncodeRingT", "%v", err)
		}
		wantT := ringT.NewPoly()
		wantValues := append([]uint64{}, r.values...) // slot values of the output when it is a batched plaintext again
		if tf == nil {
			wantT.Copy(ptT)
		} else {
			u := make([]uint64, x.nT)
			if c.Decode {
				copy(u, r.values)
			} else {
				copy(u, ptT.Coeffs[0])
			}
			f.apply(u)
			if c.Encode {
				if err := x.ecd.EncodeRingT(u, scale, wantT); err != nil {
					return h.Failf("C16:setup:EncodeRingT", "%v", err)
				}
			} else {
				copy(wantT.Coeffs[0], u)
			}
			if c.Decode && c.Encode {
				copy(wantValues, u)
			}
		}
		sameKind := tf == nil || (c.Decode && c.Encode) // output is a batched plaintext at the input scale

		crp := mtp0.SampleCRP(r.levelO, x.crs)
		crpSnap := crp.Value.CopyNew()
		shares := make([]multiparty.RefreshShare, n)
		ctOrig := ct.CopyNew()
		for i := 0; i < n; i++ {
			p := inst[i]
			shares[i] = p.AllocateShare(r.levelE, r.levelO)
			dd.poly(shares[i].EncToShareShare.Value)
			ddO.poly(shares[i].ShareToEncShare.Value)
			if c.Mode == "refresh" {
				err = mpbgv.RefreshProtocol{MaskedTransformProtocol: p}.GenShare(x.in.shares[i], ct, crp, &shares[i])
			} else {
				err = p.GenShare(x.in.shares[i], outKeys.shares[i], ct, crp, tf, &shares[i])
			}
			if err != nil {
				return h.Failf("C16:mpbgv:"+c.Mode+":GenShare:error", "%v", err)
			}
		}
		if !ct.Equal(ctOrig) {
			return h.Failf("C16:mpbgv:"+c.Mode+":GenShare:input-modified", "GenShare modified the input ciphertext")
		}
		if !crp.Value.Equal(crpSnap) || !x.in.shares[0].Value.Q.Equal(skSnap) || !outKeys.shares[0].Value.Q.Equal(skOutSnap) {
			return h.Failf("C16:mpbgv:"+c.Mode+":GenShare:input-modified", "GenShare modified the CRP or a secret key")
		}

		// smudging lower bound on refresh shares: without a transform the mask cancels between the two halves of a share,
		// EncToShareShare + ShareToEncShare = c1*s_in - crp*s_out + e_dec + e_enc at the common level, so the recomputed
		// e_dec + e_enc must have std >= sqrt(2) * sigma. Asserted per instance class (constructor / ShallowCopy); the party
		// shares of a refresh run are included, the rest are extra identity-transform shares made with party 0's keys.
		if r.first && !otherParams {
			lc := r.levelE
			if r.levelO < lc {
				lc = r.levelO
			}
			ringC := params.RingQ().AtLevel(lc)
			residual := func(i int, sh multiparty.RefreshShare) []*big.Int {
				q := ringC.NewPoly()
				ringC.Add(sh.EncToShareShare.Value, sh.ShareToEncShare.Value, q)
				ringC.MulCoeffsMontgomeryThenSub(ct.Value[1], x.in.shares[i].Value.Q, q)
				ringC.MulCoeffsMontgomeryThenAdd(crp.Value, outKeys.shares[i].Value.Q, q)
				ringC.INTT(q, q)
				ringC.Reduce(q, q)
				return centered(ringC, q)
			}
			var pools smudgePools
			pools.off = !statsCase(c.Seed)
			collect := func(k int, v []*big.Int) error {
				if infNorm(v).Cmp(bigF(2*x.bParty)) > 0 {
					return h.Failf("C16:mpbgv:"+c.Mode+":GenShare:noise-above-bound", "refresh-share noise %s exceeds the hard bound %g (sigma=%g)", infNorm(v), 2*x.bParty, c.Sigma)
				}
				pools.add(k, v)
				return nil
			}
			if c.Mode == "refresh" {
				for i := range shares {
					k := 1
					if i == 0 || !c.Shallow {
						k = 0
					}
					if err := collect(k, residual(i, shares[i])); err != nil {
						return err
					}
				}
			}
			mC := mtp0.ShallowCopy()
			mCC := mC.ShallowCopy()
			for k := 0; pools.short(0) || pools.short(1); k++ {
				px, kc := mtp0, 0
				if !pools.short(0) {
					px, kc = mC, 1
					if k%2 == 1 {
						px = mCC
					}
				}
				sh := px.AllocateShare(r.levelE, r.levelO)
				if err := px.GenShare(x.in.shares[0], outKeys.shares[0], ct, crp, nil, &sh); err != nil {
					return h.Failf("C16:mpbgv:"+c.Mode+":GenShare:error", "%v", err)
				}
				if err := collect(kc, residual(0, sh)); err != nil {
					return err
				}
			}
			if err := pools.check(c.Sigma, math.Sqrt2, "C16:mpbgv:"+c.Mode+":GenShare:smudging-too-small", rec); err != nil {
				return err
			}
		}

		copyShare := func(s multiparty.RefreshShare) multiparty.RefreshShare {
			return multiparty.RefreshShare{EncToShareShare: multiparty.KeySwitchShare{Value: *s.EncToShareShare.Value.CopyNew()},
				ShareToEncShare: multiparty.KeySwitchShare{Value: *s.ShareToEncShare.Value.CopyNew()}, MetaData: s.MetaData}
		}
		ref := copyShare(shares[0])
		for i := 1; i < n; i++ {
			if err := mtp0.AggregateShares(ref, shares[i], &ref); err != nil {
				return h.Failf("C16:mpbgv:"+c.Mode+":AggregateShares:error", "%v", err)
			}
		}
		agg, err := fold(shares, r.merges, func() multiparty.RefreshShare {
			a := mtp0.AllocateShare(r.levelE, r.levelO)
			dd.poly(a.EncToShareShare.Value)
			ddO.poly(a.ShareToEncShare.Value)
			return a
		},
			func(a, b multiparty.RefreshShare, o *multiparty.RefreshShare) error { return mtp0.AggregateShares(a, b, o) })
		if err != nil {
			return h.Failf("C16:mpbgv:"+c.Mode+":AggregateShares:error", "%v", err)
		}
		if !agg.MetaData.Equal(ct.MetaData) {
			// an aggregation step wrote into a freshly allocated share: the metadata recorded by GenShare is not carried over
			key := "C16:mpbgv:AggregateShares:metadata-not-propagated"
			scratch := bgv.NewCiphertext(paramsOut, 1, r.levelO)
			*scratch.MetaData = *ct.MetaData
			terr := mtp0.Transform(ct, tf, crp, agg, scratch)
			msg := fmt.Sprintf("RefreshShare aggregated into a freshly allocated share has MetaData %+v instead of the one recorded by GenShare; Transform on it returns: %v", agg.MetaData, terr)
			if rec.Known(key, msg) {
				rec.Class("known=aggregate-metadata")
				agg.MetaData = *ct.MetaData
			} else {
				return h.Failf(key, "%s", msg)
			}
		}
		ringE, ringO := params.RingQ().AtLevel(r.levelE), paramsOut.RingQ().AtLevel(r.levelO)
		if !congruent(ringE, agg.EncToShareShare.Value, ref.EncToShareShare.Value) || !congruent(ringO, agg.ShareToEncShare.Value, ref.ShareToEncShare.Value) {
			return h.Failf("C16:mpbgv:"+c.Mode+":AggregateShares:order-dependent", "aggregate depends on the schedule %v", r.merges)
		}

		var out *rlwe.Ciphertext
		rng := h.NewSplitMix(r.seed ^ 0x5bd1e995)
		switch {
		case r.outMode == 0:
			out = ct
		case prevOut != nil && prevOut != ct:
			// receiver with a history: the output of the previous round (other level, other scale)
			out = prevOut
			rec.Class("receiver=previous-output")
		case r.outMode == 1:
			out = bgv.NewCiphertext(paramsOut, 1, rng.Intn(paramsOut.MaxLevel()+1))
			*out.MetaData = *ct.MetaData
		default:
			out = bgv.NewCiphertext(paramsOut, 1, rng.Intn(paramsOut.MaxLevel()+1))
		}
		aggSnap := copyShare(agg)
		if c.Mode == "refresh" {
			err = rfp0.Finalize(ct, crp, agg, out)
		} else {
			err = mtp0.Transform(ct, tf, crp, agg, out)
		}
		if err != nil {
			return h.Failf("C16:mpbgv:"+c.Mode+":Transform:error", "%v", err)
		}
		if !crp.Value.Equal(crpSnap) || !agg.EncToShareShare.Value.Equal(&aggSnap.EncToShareShare.Value) || !agg.ShareToEncShare.Value.Equal(&aggSnap.ShareToEncShare.Value) {
			return h.Failf("C16:mpbgv:"+c.Mode+":Transform:input-modified", "Transform modified the CRP or the aggregated share")
		}
		if out != ct && !ct.Equal(ctOrig) {
			return h.Failf("C16:mpbgv:"+c.Mode+":Transform:input-modified", "Transform into another ciphertext modified the input ciphertext")
		}
		if out.Level() != r.levelO {
			return h.Failf("C16:mpbgv:"+c.Mode+":Transform:output-level", "output level %d, requested (CRP / share) level %d", out.Level(), r.levelO)
		}
		if !out.MetaData.Equal(ctOrig.MetaData) {
			key := "C16:mpbgv:" + c.Mode + ":output-metadata-not-set"
			msg := fmt.Sprintf("output metadata %+v differs from the input metadata %+v (outMode=%d, first use=%v)", out.MetaData, ctOrig.MetaData, r.outMode, r.first)
			if rec.Known(key, msg) {
				rec.Class("known=output-metadata")
			} else {
				return h.Failf(key, "%s", msg)
			}
		}
		xo := &bgvCtx{c: c, params: paramsOut, ecd: ecdOut}
		gotT := xo.decryptT(out, outKeys.ideal)
		if !ringT.Equal(gotT, wantT) {
			return h.Failf(fmt.Sprintf("C16:mpbgv:%s:wrong-message:decode=%v,encode=%v", c.Mode, c.Decode, c.Encode),
				"output decrypts (mod t) to %v..., expected %v... (t=%d, n=%d, levels in=%d e2s=%d out=%d, sigma=%g, f=%s, outMode=%d, first use=%v, other output parameters=%v)",
				head(gotT.Coeffs[0]), head(wantT.Coeffs[0]), T, n, r.levelIn, r.levelE, r.levelO, c.Sigma, c.FKind, r.outMode, r.first, otherParams)
		}
		if sameKind {
			// the output is again a batched ciphertext of slot values: its own metadata must describe it
			have := make([]uint64, x.nT)
			if err := ecdOut.Decode(rlwe.NewDecryptor(paramsOut, outKeys.ideal).DecryptNew(out), have); err != nil {
				return h.Failf("C16:mpbgv:"+c.Mode+":decode-error", "%v", err)
			}
			if !slices.Equal(have, wantValues) {
				key := "C16:mpbgv:" + c.Mode + ":output-metadata-not-set"
				msg := fmt.Sprintf("output ciphertext holds the right plaintext polynomial but its metadata (scale %d, input scale %d) does not describe it: Decode gives %v..., expected %v... (outMode=%d, first use=%v)",
					out.Scale.Uint64(), ctOrig.Scale.Uint64(), head(have), head(wantValues), r.outMode, r.first)
				if rec.Known(key, msg) {
					rec.Class("known=output-metadata")
				} else {
					return h.Failf(key, "%s", msg)
				}
			}
		}
		prevOut = out
		return nil
	}

	if err := round(bgvRound{ct: x.ct, values: x.values, levelIn: c.LevelIn, levelE: c.LevelE, levelO: c.LevelO, merges: c.Merges, outMode: c.OutMode, seed: c.Seed, first: true}); err != nil {
		return err
	}
	second := false
	if s := c.Second; s != nil && validMerges(s.Merges, n) && s.LevelE <= s.LevelIn && enoughIn(s.LevelE) && s.LevelIn < len(c.Params.Q) && enoughOut(s.LevelO) &&
		s.Scale%T != 0 && s.OutMode >= 0 && s.OutMode <= 2 {
		ct2, values2, err := x.newCT(s.Seed, s.LevelIn, false, s.Scale, s.Pattern)
		if err != nil {
			return err
		}
		rec.Class("second-ciphertext-same-instances")
		second = true
		if err := round(bgvRound{ct: ct2, values: values2, levelIn: s.LevelIn, levelE: s.LevelE, levelO: s.LevelO, merges: s.Merges, outMode: s.OutMode, seed: s.Seed}); err != nil {
			if fe, ok := err.(*h.Failure); ok {
				fe.Msg = "[second ciphertext through the same protocol instances] " + fe.Msg
			}
			return err
		}
	}

	nt := n >= 2 && !canonicalMerges(c.Merges, n)
	flags := tf != nil && (!c.Decode || !c.Encode)
	if nt || c.LevelIn < params.MaxLevel() || c.LevelO < paramsOut.MaxLevel() || flags || second || otherParams {
		rec.NonTrivial(x.desc("bgv-"+c.Mode, nt) + fmt.Sprintf("|d=%v,e=%v|f=%s|newKey=%v|out=%d|%s|second=%v|otherParams=%v", c.Decode, c.Encode, c.FKind, c.NewKey, c.OutMode, patClass(c.Pattern), second, otherParams))
	}
	return nil
}

var propBGVRefresh = h.NewProp("TestPropBGVRefresh", h.Budget{Quick: 800, Thorough: 6000}, genBGVRefresh, runBGVRefresh)

func TestPropBGVRefresh(t *testing.T) { propBGVRefresh.Check(t) }
