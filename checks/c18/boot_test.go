package c18

import (
	"bytes"
	"fmt"
	"math"
	"math/big"
	"os"
	"sync"
	"testing"
	"time"

	"verif/internal/h"

	"github.com/tuneinsight/lattigo/v6/circuits/ckks/bootstrapping"
	"github.com/tuneinsight/lattigo/v6/core/rlwe"
	"github.com/tuneinsight/lattigo/v6/ring"
	"github.com/tuneinsight/lattigo/v6/schemes/ckks"
	"github.com/tuneinsight/lattigo/v6/utils/bignum"
	"pgregory.net/rapid"
)

// ---------------------------------------------------------------------------------------------------------------
// TestPropBootstrap: functional oracle (level, scale, message) on few configurations; the structural key oracle and a
// recording key set run on the same keys.
// ---------------------------------------------------------------------------------------------------------------

type BootCase struct {
	Cfg     Cfg    `json:"cfg"`
	Seed    uint64 `json:"seed"`
	API     string `json:"api"`     // "Bootstrap", "BootstrapMany", "Evaluate"
	Level   int    `json:"level"`   // input level
	CtSlots int    `json:"ctSlots"` // log2 slots of the input ciphertexts
	Batch   int    `json:"batch"`   // number of ciphertexts (BootstrapMany)
	Pattern string `json:"pattern"` // message pattern
	Copy    bool   `json:"copy"`    // run on Evaluator.ShallowCopy()
	// More: further bootstraps on the SAME evaluator and keys (other level / slot count / batch / entry point / message)
	More []Step `json:"more,omitempty"`
	// Serialize: the keys go through EvaluationKeys.WriteTo / ReadFrom (into a receiver that already held other keys) and
	// the decoded object is the one that is verified and used
	Serialize bool `json:"serialize,omitempty"`
}

// Step is one further use of the evaluator.
type Step struct {
	API     string `json:"api"`
	Level   int    `json:"level"`
	CtSlots int    `json:"ctSlots"`
	Batch   int    `json:"batch"`
	Pattern string `json:"pattern"`
}

func (c BootCase) RandSeed() uint64 { return c.Seed }

// recording key set ------------------------------------------------------------------------------------------------

type recKeys struct {
	rlwe.EvaluationKeySet
	mu      sync.Mutex
	used    map[uint64]bool
	missing map[uint64]bool
	rlk     bool
}

func (r *recKeys) GetGaloisKey(g uint64) (*rlwe.GaloisKey, error) {
	k, err := r.EvaluationKeySet.GetGaloisKey(g)
	r.mu.Lock()
	r.used[g] = true
	if err != nil {
		r.missing[g] = true
	}
	r.mu.Unlock()
	return k, err
}

func (r *recKeys) GetRelinearizationKey() (*rlwe.RelinearizationKey, error) {
	r.mu.Lock()
	r.rlk = true
	r.mu.Unlock()
	return r.EvaluationKeySet.GetRelinearizationKey()
}

func (r *recKeys) ShallowCopy() rlwe.EvaluationKeySet { return r }

// message patterns -------------------------------------------------------------------------------------------------

var patterns = []string{"uniform", "repo", "real", "small", "const", "onehot"}

func genValues(pat string, n int, realOnly bool, rng *h.SplitMix) []complex128 {
	u := func() float64 { return 2*rng.Float64() - 1 }
	out := make([]complex128, n)
	switch pat {
	case "const":
		for i := range out {
			out[i] = complex(1, 0)
		}
	case "onehot":
		out[rng.Intn(n)] = complex(u(), u())
	case "small":
		for i := range out {
			out[i] = complex(u()/16, u()/16)
		}
	case "real":
		for i := range out {
			out[i] = complex(u(), 0)
		}
	default:
		for i := range out {
			out[i] = complex(u(), u())
		}
		if pat == "repo" {
			for i := 0; i < 4 && i < n; i++ {
				out[i] = complex(0.9238795325112867, 0.3826834323650898)
			}
		}
	}
	if realOnly {
		for i := range out {
			out[i] = complex(real(out[i]), 0)
		}
	}
	return out
}

func rotate(v []complex128, k int) []complex128 {
	n := len(v)
	out := make([]complex128, n)
	for i := range v {
		out[i] = v[(i+k)%n]
	}
	return out
}

type precStat struct {
	avgRe, avgIm, minRe, minIm float64
}

func precision(want, have []complex128) precStat {
	p := precStat{minRe: 1e9, minIm: 1e9}
	lg := func(e float64) float64 {
		e = math.Abs(e)
		if e < math.Exp2(-60) || math.IsNaN(e) {
			if math.IsNaN(e) {
				return -1e3
			}
			e = math.Exp2(-60)
		}
		return -math.Log2(e)
	}
	for i := range want {
		r := lg(real(have[i]) - real(want[i]))
		m := lg(imag(have[i]) - imag(want[i]))
		p.avgRe += r
		p.avgIm += m
		p.minRe = math.Min(p.minRe, r)
		p.minIm = math.Min(p.minIm, m)
	}
	p.avgRe /= float64(len(want))
	p.avgIm /= float64(len(want))
	return p
}

// sineApproxFloor bounds, for the actual plaintext, the precision that the scaled-sine approximation of x mod 1 can
// deliver: a coefficient c (in units of the scale) becomes x = c/R before the modular reduction (R = message ratio) and
// (1/2pi)sin(2pi x) differs from x by at most (2pi)^2 x^3/6; a slot sees at most the sum of the coefficient errors.
// Returned in bits with a 2-bit margin; +Inf when the arcsine correction is on or the bound does not apply.
func sineApproxFloor(b built, pt *rlwe.Plaintext) float64 {
	p1 := b.res
	m := b.btp.Mod1ParametersLiteral
	if m.Mod1InvDegree > 0 || p1.LogDefaultScale()+2 > p1.LogQi()[0] {
		return math.Inf(1)
	}
	rq := p1.RingQ().AtLevel(pt.Level())
	tmp := rq.NewPoly()
	rq.INTT(pt.Value, tmp)
	q0 := rq.SubRings[0].Modulus
	R := math.Exp2(float64(m.LogMessageRatio))
	scale := pt.Scale.Float64()
	sum := 0.0
	for _, v := range tmp.Coeffs[0] {
		c := math.Abs(float64(center(v, q0))) / scale
		sum += 4 * math.Pi * math.Pi * c * c * c / (6 * R * R)
	}
	if p1.RingType() == ring.ConjugateInvariant {
		sum *= 2
	}
	if sum == 0 {
		return math.Inf(1)
	}
	return -math.Log2(sum) - 2
}

// repoFloor is the mean-precision floor of the repository's own bootstrapping test (verifyTestVectorsBootstrapping):
// log2(default scale) - (LogN+2) - 10, a function of the residual literal only.
func repoFloor(p ckks.Parameters) float64 {
	f := math.Log2(p.DefaultScale().Float64()) - float64(p.LogN()+2)
	if f < 0 {
		f = 0
	}
	return f - 10
}

type bootEnv struct {
	b    built
	sk   *rlwe.SecretKey
	evk  *bootstrapping.EvaluationKeys
	sk2  *rlwe.SecretKey
	eval *bootstrapping.Evaluator
}

func encodeEncrypt(p ckks.Parameters, ecd *ckks.Encoder, enc *rlwe.Encryptor, vals []complex128, level, logSlots int) (*rlwe.Ciphertext, *rlwe.Plaintext, error) {
	pt := ckks.NewPlaintext(p, level)
	pt.LogDimensions = ring.Dimensions{Rows: 0, Cols: logSlots}
	var err error
	if p.RingType() == ring.ConjugateInvariant {
		f := make([]float64, len(vals))
		for i := range vals {
			f[i] = real(vals[i])
		}
		err = ecd.Encode(f, pt)
	} else {
		err = ecd.Encode(vals, pt)
	}
	if err != nil {
		return nil, nil, err
	}
	ct, err := enc.EncryptNew(pt)
	return ct, pt, err
}

func decryptDecode(p ckks.Parameters, ecd *ckks.Encoder, dec *rlwe.Decryptor, ct *rlwe.Ciphertext) ([]complex128, error) {
	out := make([]complex128, 1<<ct.LogDimensions.Cols)
	pt := dec.DecryptNew(ct)
	if p.RingType() == ring.ConjugateInvariant {
		f := make([]float64, len(out))
		if err := ecd.Decode(pt, f); err != nil {
			return nil, err
		}
		for i := range f {
			out[i] = complex(f[i], 0)
		}
		return out, nil
	}
	return out, ecd.Decode(pt, out)
}

func runBoot(c BootCase, rec *h.Rec) error {
	b, err := c.Cfg.build()
	if err != nil {
		return h.Failf("C18:params:rejected", "%v", err)
	}
	p1 := b.res
	rec.Classf("base=%s", c.Cfg.Base)
	rec.Classf("res=%s", c.Cfg.Res)
	rec.Classf("api=%s", c.API)
	rec.Classf("pattern=%s", c.Pattern)
	// ModUp multiplies by round(EvalMod scale / Q0) when Q0 is smaller than the EvalMod scale; the opposite case divides in CoeffsToSlots
	switch d := float64(b.btp.Mod1ParametersLiteral.LogScale) - math.Log2(float64(p1.Q()[0])); {
	case d >= 0.9:
		rec.Class("modup-scalar>=2")
	case d <= -0.9:
		rec.Class("evalmod-scale<Q0")
	}
	if c.Cfg.Eph == 0 && c.Cfg.K > 16 {
		rec.Class("dense-main-secret-no-encapsulation")
	}

	kgen := rlwe.NewKeyGenerator(p1)
	sk := kgen.GenSecretKeyNew()
	evk, sk2, err := b.btp.GenEvaluationKeys(sk)
	if err != nil {
		return h.Failf("C18:keys:GenEvaluationKeys:error", "%v", err)
	}
	if err := checkKeys(c.Cfg, b, sk, evk, sk2, rec); err != nil {
		return err
	}
	var wire []byte
	if c.Serialize {
		rec.Class("serialized-keys")
		buf := new(bytes.Buffer)
		n, err := evk.WriteTo(buf)
		if err != nil {
			return h.Failf("C18:keys:WriteTo:error", "%v", err)
		}
		if int(n) != buf.Len() || buf.Len() != evk.BinarySize() {
			return h.Failf("C18:keys:WriteTo:size", "WriteTo reports %d bytes, wrote %d, BinarySize() = %d", n, buf.Len(), evk.BinarySize())
		}
		wire = append([]byte(nil), buf.Bytes()...)
		// receiver with a history: every optional key slot already holds a (wrong) key
		stale := &evk.RelinearizationKey.EvaluationKey
		dst := &bootstrapping.EvaluationKeys{EvkN1ToN2: stale, EvkN2ToN1: stale, EvkRealToCmplx: stale, EvkCmplxToReal: stale, EvkDenseToSparse: stale, EvkSparseToDense: stale,
			MemEvaluationKeySet: rlwe.NewMemEvaluationKeySet(nil)}
		m, err := dst.ReadFrom(bytes.NewReader(wire))
		if err != nil {
			return h.Failf("C18:keys:ReadFrom:error", "%v", err)
		}
		if int(m) != len(wire) {
			return h.Failf("C18:keys:ReadFrom:size", "ReadFrom consumed %d of %d bytes", m, len(wire))
		}
		// the decoded object must satisfy the exact key oracle on its own (a stale slot shows up as a presence error)
		if err := checkKeys(c.Cfg, b, sk, dst, sk2, rec); err != nil {
			if f, ok := err.(*h.Failure); ok {
				return h.Failf(f.Key+":after-ReadFrom", "%s", f.Msg)
			}
			return err
		}
		evk = dst
	}
	eval, err := bootstrapping.NewEvaluator(b.btp, evk)
	if err != nil {
		return h.Failf("C18:keys:NewEvaluator:rejects-generated-keys", "%v", err)
	}
	rk := &recKeys{EvaluationKeySet: eval.Evaluator.Evaluator.EvaluationKeySet, used: map[uint64]bool{}, missing: map[uint64]bool{}}
	eval.Evaluator.Evaluator.EvaluationKeySet = rk
	if c.Copy {
		eval = eval.ShallowCopy()
		rec.Class("shallowcopy")
	}

	// announced interface values
	if eval.OutputLevel() != p1.MaxLevel() {
		return h.Failf("C18:OutputLevel", "OutputLevel()=%d residual MaxLevel=%d", eval.OutputLevel(), p1.MaxLevel())
	}
	if eval.Depth() != b.btp.BootstrappingParameters.MaxLevel()-p1.MaxLevel() {
		return h.Failf("C18:Depth", "Depth()=%d", eval.Depth())
	}

	ecd := ckks.NewEncoder(p1)
	enc := rlwe.NewEncryptor(p1, sk)
	dec := rlwe.NewDecryptor(p1, sk)
	var firstWant []complex128
	full := c
	// runStep is one use of the evaluator; every use is judged by the same oracle
	runStep := func(c BootCase, idx int) error {
		rng := h.NewSplitMix(c.Seed + uint64(idx)*0x9e3779b97f4a7c15)
		n := 1 << c.CtSlots
		base := genValues(c.Pattern, n, p1.RingType() == ring.ConjugateInvariant, rng)

		batch := c.Batch
		if c.API != "BootstrapMany" {
			batch = 1
		}
		want := make([][]complex128, batch)
		cts := make([]rlwe.Ciphertext, batch)
		sineFloor := make([]float64, batch)
		for i := range cts {
			want[i] = rotate(base, i)
			ct, pt, err := encodeEncrypt(p1, ecd, enc, want[i], c.Level, c.CtSlots)
			if err != nil {
				return h.Failf("C18:harness:encrypt", "%v", err)
			}
			cts[i] = *ct
			sineFloor[i] = sineApproxFloor(b, pt)
		}

		shared := sharedPrime(b.lit.SlotsToCoeffsFactorizationDepthAndLogScales) || sharedPrime(b.lit.CoeffsToSlotsFactorizationDepthAndLogScales)
		sharedKnown := func(what string) (bool, error) {
			if !shared {
				return false, nil
			}
			// several DFT matrices on one prime: every matrix is followed by an unconditional Rescale
			key := "C18:dft:shared-prime-factorisation:level-and-message-lost"
			msg := fmt.Sprintf("factorisation S2C=%v C2S=%v: %s", b.lit.SlotsToCoeffsFactorizationDepthAndLogScales, b.lit.CoeffsToSlotsFactorizationDepthAndLogScales, what)
			if rec.Known(key, msg) {
				rec.Class("known=shared-prime-factorisation")
				return true, nil
			}
			return true, h.Failf(key, "%s", msg)
		}

		var outs []rlwe.Ciphertext
		start := time.Now()
		switch c.API {
		case "Bootstrap":
			o, err := eval.Bootstrap(&cts[0])
			if err != nil {
				if k, e := sharedKnown(err.Error()); k {
					return e
				}
				return h.Failf("C18:Bootstrap:error", "%v", err)
			}
			outs = []rlwe.Ciphertext{*o}
		case "BootstrapMany":
			var pan any
			func() {
				defer func() { pan = recover() }()
				outs, err = eval.BootstrapMany(cts)
			}()
			if pan != nil {
				// several sparsely packed ciphertexts above level 0 have to be merged: the monomials X^(N/2^k) used by
				// Evaluator.pack are only allocated at level 0
				if batch >= 2 && c.Level == 0 && c.Copy && c.Cfg.Res == "small" {
					key := "C18:ShallowCopy:ring-degree-switch:xPow2InvN1-missing:panic"
					msg := fmt.Sprintf("BootstrapMany of %d ciphertexts with 2^%d slots on Evaluator.ShallowCopy() with N1 < N2 panics: %v", batch, c.CtSlots, pan)
					if rec.Known(key, msg) {
						rec.Class("known=shallowcopy-xPow2InvN1")
						return nil
					}
					return h.Failf(key, "%s", msg)
				}
				if batch >= 2 && c.Level >= 1 {
					key := "C18:BootstrapMany:pack:input-level>0:panic"
					msg := fmt.Sprintf("BootstrapMany of %d ciphertexts with 2^%d slots at level %d panics: %v", batch, c.CtSlots, c.Level, pan)
					if rec.Known(key, msg) {
						rec.Class("known=pack-level>0")
						return nil
					}
					return h.Failf(key, "%s", msg)
				}
				panic(pan)
			}
			if err != nil {
				if k, e := sharedKnown(err.Error()); k {
					return e
				}
				return h.Failf("C18:BootstrapMany:error", "%v", err)
			}
		case "Evaluate":
			o, err := eval.Evaluate(&cts[0])
			if err != nil {
				if k, e := sharedKnown(err.Error()); k {
					return e
				}
				return h.Failf("C18:Evaluate:error", "%v", err)
			}
			outs = []rlwe.Ciphertext{*o}
		default:
			return fmt.Errorf("unknown api %q", c.API)
		}
		rec.Note(fmt.Sprintf("boot_s%d", idx), time.Since(start).Seconds())

		if len(outs) != batch {
			return h.Failf("C18:"+c.API+":count", "%d ciphertexts in, %d out", batch, len(outs))
		}
		// Mean-precision floor. The literal's own circuit options at (nearly) full packing: the formula of the repository's
		// bootstrapping test. Overridden circuit options, very sparse packing (LogSlots < LogN-3) and the iterated mode: only
		// the flat 12 bits the repository asserts on its raw-circuit tests (evaluator_test.go: minPrec), never more than the formula.
		floor := repoFloor(p1)
		ownOptions := c.Cfg.EvalScale < 0 && c.Cfg.K < 0 && c.Cfg.LogP == nil && c.Cfg.Mod1 == "" && c.Cfg.C2S == nil && c.Cfg.S2C == nil && c.Cfg.InvDeg < 0 && c.Cfg.Iter == nil && c.Cfg.LogSlots >= c.Cfg.LogN-3
		if !ownOptions {
			floor = math.Min(floor, 12)
			if c.Cfg.Iter != nil {
				floor = 12
			}
			rec.Class("floor=flat12")
		} else if bl, _ := getBase(c.Cfg.Base); bl.announced-4 > floor {
			// The doc comment of the shipped literal announces a precision for the full-size set (2^15 / 2^14 slots). The
			// size-reduced set keeps every circuit option, has less noise (smaller N) and carries the repository's
			// message-ratio correction "to keep the same precision": announced - 4 bits (3 bits of margin observed over
			// 600 cases, N = 2^8..2^10, one more allowed), minus the bits lost in ScaleDown (below).
			floor = bl.announced - 4
			rec.Class("floor=announced-4")
		} else {
			rec.Class("floor=formula")
		}
		// When scale*MessageRatio exceeds Q0 (small Q0 sets with the small-ring message-ratio correction) ScaleDown brings the
		// message DOWN to Q0/MessageRatio before the circuit: the bits lost there are not available to any floor.
		if lost := float64(p1.LogDefaultScale()+b.btp.Mod1ParametersLiteral.LogMessageRatio) - math.Round(math.Log2(float64(p1.Q()[0]))); lost > 0 && c.Cfg.Iter == nil {
			floor -= lost
			rec.Class("floor-reduced-by-scale-down")
		}
		rec.Note("floor", floor)
		for i := range outs {
			o := &outs[i]
			if o.Level() != eval.OutputLevel() {
				if k, e := sharedKnown(fmt.Sprintf("output level %d, announced OutputLevel %d", o.Level(), eval.OutputLevel())); k {
					return e
				}
				return h.Failf("C18:"+c.API+":output-level", "ciphertext %d: level %d, announced OutputLevel %d", i, o.Level(), eval.OutputLevel())
			}
			if c.API != "Evaluate" && !o.Scale.Equal(p1.DefaultScale()) {
				return h.Failf("C18:"+c.API+":output-scale", "ciphertext %d: scale 2^%.4f, default scale 2^%d", i, o.Scale.Log2(), p1.LogDefaultScale())
			}
			if o.LogDimensions.Cols != c.CtSlots {
				return h.Failf("C18:"+c.API+":output-dimensions", "ciphertext %d: LogSlots %d, input had %d", i, o.LogDimensions.Cols, c.CtSlots)
			}
			have, err := decryptDecode(p1, ecd, dec, o)
			if err != nil {
				return h.Failf("C18:harness:decode", "%v", err)
			}
			ps := precision(want[i], have)
			rec.Note(fmt.Sprintf("prec%d.%d", idx, i), fmt.Sprintf("avg %.1f/%.1f min %.1f/%.1f", ps.avgRe, ps.avgIm, ps.minRe, ps.minIm))
			floor := math.Min(floor, sineFloor[i])
			if os.Getenv("C18_TRACE") != "" {
				fmt.Printf("PREC base=%s own=%v res=%s logN=%d slots=%d ct=%d lvl=%d eph=%d pat=%s api=%s: %.1f floor %.1f sine %.1f\n", c.Cfg.Base, ownOptions, c.Cfg.Res, c.Cfg.LogN, c.Cfg.LogSlots, c.CtSlots, c.Level, c.Cfg.Eph, c.Pattern, c.API, math.Min(ps.avgRe, ps.avgIm), floor, sineFloor[i])
			}
			if ps.avgRe < floor || ps.avgIm < floor {
				return h.Failf("C18:"+c.API+":precision:mean", "ciphertext %d: mean precision real %.2f / imag %.2f bits < floor %.2f bits", i, ps.avgRe, ps.avgIm, floor)
			}
			wfloor := floor - 0.5*float64(c.CtSlots) - 3
			if ps.minRe < wfloor || ps.minIm < wfloor {
				return h.Failf("C18:"+c.API+":precision:worst-slot", "ciphertext %d: worst-slot precision real %.2f / imag %.2f bits < %.2f bits", i, ps.minRe, ps.minIm, wfloor)
			}
		}

		if idx == 0 {
			firstWant = want[0]
		}
		return nil
	}
	if err := runStep(c, 0); err != nil {
		return err
	}
	for i, st := range full.More {
		sc := full
		sc.API, sc.Level, sc.CtSlots, sc.Batch, sc.Pattern = st.API, st.Level, st.CtSlots, st.Batch, st.Pattern
		if err := runStep(sc, i+1); err != nil {
			if f, ok := err.(*h.Failure); ok {
				return h.Failf(f.Key+":reused-evaluator", "use %d of the same evaluator (%s, level %d, 2^%d slots, batch %d): %s", i+2, st.API, st.Level, st.CtSlots, st.Batch, f.Msg)
			}
			return err
		}
	}
	if len(full.More) > 0 {
		rec.Classf("uses=%d", len(full.More)+1)
	}
	if firstWant == nil {
		return nil // a listed finding ended the first use
	}

	if c.Cfg.Iter != nil {
		if err := iterOracle(c, b, eval, sk, firstWant, rec); err != nil {
			return err
		}
	}

	// the bootstrapping must leave its keys untouched
	if wire != nil {
		buf := new(bytes.Buffer)
		if _, err := evk.WriteTo(buf); err != nil {
			return h.Failf("C18:keys:WriteTo:error", "%v", err)
		}
		if !bytes.Equal(buf.Bytes(), wire) {
			return h.Failf("C18:keys:modified-by-bootstrap", "the serialised evaluation keys differ before and after %d bootstraps", len(full.More)+1)
		}
	}

	// the key set generated is exactly the key set the circuit looked up
	if len(rk.missing) != 0 {
		return h.Failf("C18:keys:galois:lookup-missing", "the circuit looked up Galois keys %v that GenEvaluationKeys did not produce", sortedU64(rk.missing))
	}
	for g := range evk.GaloisKeys {
		if !rk.used[g] && g == 1 {
			// rotation by 0 listed by the DFT literal: an identity key is generated
			key := "C18:keys:galois:identity-key-generated"
			msg := "GaloisElements() contains 1 (rotation by 0): a key for the identity automorphism is generated and never looked up"
			if rec.Known(key, msg) {
				rec.Class("known=identity-galois-key")
				continue
			}
			return h.Failf(key, "%s", msg)
		}
		if !rk.used[g] {
			return h.Failf("C18:keys:galois:never-used", "Galois key %d was generated but never looked up by the circuit (used: %v)", g, sortedU64(rk.used))
		}
	}
	if !rk.rlk {
		return h.Failf("C18:keys:rlk:never-used", "relinearization key never looked up")
	}
	rec.NonTrivial(fmt.Sprintf("%s/%s/lvl%d/slots-%d/b%d/%s/copy%v/uses%d/ser%v", c.Cfg.optionClass(), c.API, c.Level, c.Cfg.LogN-1-c.CtSlots, c.Batch, c.Pattern, c.Copy, len(c.More)+1, c.Serialize))
	return nil
}

// bigPrecision is the mean over the slots of -log2|error| (minimum of real and imaginary part) with 128-bit arithmetic.
func bigPrecision(want []complex128, have []*bignum.Complex) float64 {
	var sumRe, sumIm float64
	for i := range want {
		for j, w := range []float64{real(want[i]), imag(want[i])} {
			e := new(big.Float).SetPrec(128).Sub(have[i][j], new(big.Float).SetPrec(128).SetFloat64(w))
			e.Abs(e)
			bits := 120.0
			if e.Sign() != 0 {
				m := new(big.Float)
				exp := e.MantExp(m)
				f, _ := m.Float64()
				bits = math.Min(120, -(math.Log2(f) + float64(exp)))
			}
			if j == 0 {
				sumRe += bits
			} else {
				sumIm += bits
			}
		}
	}
	return math.Min(sumRe, sumIm) / float64(len(want))
}

// iterOracle: iterated (META-BTS) mode. BootstrappingPrecision[i] is the declared precision of one pass; the documentation
// of ParametersLiteral announces "a bootstrapping of precision ~k*logprec by iteration", every extra iteration removing
// the error down to 2^-(logprec_1+...+logprec_k) times the error of one pass, up to the precision the residual scale can
// hold. The same ciphertext is bootstrapped with the first k = 0..n entries of the list (same parameters, same keys: the
// list does not enter the parameter generation) and the mean precisions P_0..P_n are compared:
//
//	differential: P_k >= min(P_(k-1) + 0.6*gain_k, C)      absolute: P_n >= min(12 + gain_1+...+gain_n, C)
//
// gain_k = BootstrappingPrecision[k-1] (without reserved prime additionally <= log2(q1) - sum of the first k entries, the
// documented limit of the integer scale-up), 12 bits = the repository's floor for one pass of the raw circuit,
// ceiling C = LogDefaultScale - LogN/2 - 8 bits.
func iterOracle(c BootCase, b built, eval *bootstrapping.Evaluator, sk *rlwe.SecretKey, want []complex128, rec *h.Rec) error {
	p1 := b.res
	ecd := ckks.NewEncoder(p1, 128)
	enc := rlwe.NewEncryptor(p1, sk)
	dec := rlwe.NewDecryptor(p1, sk)
	ct0, _, err := encodeEncrypt(p1, ecd, enc, want, c.Level, c.CtSlots)
	if err != nil {
		return h.Failf("C18:harness:encrypt", "%v", err)
	}
	it := c.Cfg.Iter
	n := len(it)
	ceil := float64(p1.LogDefaultScale()) - 0.5*float64(p1.LogN()) - 8
	logq1 := math.Log2(float64(p1.Q()[1]))
	P := make([]float64, n+1)
	gain := make([]float64, n+1)
	tot := 0.0
	for k := 0; k <= n; k++ {
		ek := *eval
		ek.Parameters.IterationsParameters = &bootstrapping.IterationsParameters{BootstrappingPrecision: append([]float64{}, it[:k]...), ReservedPrimeBitSize: c.Cfg.Reserved}
		out, err := ek.Evaluate(ct0.CopyNew())
		if err != nil {
			return h.Failf("C18:Evaluate:iterated:error", "first %d of %v iterations: %v", k, it, err)
		}
		if out.Level() != eval.OutputLevel() {
			return h.Failf("C18:Evaluate:iterated:output-level", "first %d of %v iterations: level %d, announced %d", k, it, out.Level(), eval.OutputLevel())
		}
		have := make([]*bignum.Complex, 1<<out.LogDimensions.Cols)
		if err := ecd.Decode(dec.DecryptNew(out), have); err != nil {
			return h.Failf("C18:harness:decode", "%v", err)
		}
		P[k] = bigPrecision(want, have)
		if k > 0 {
			tot += it[k-1]
			gain[k] = it[k-1]
			if c.Cfg.Reserved == 0 {
				gain[k] = math.Max(0, math.Min(gain[k], logq1-tot))
			}
		}
	}
	rec.Note("iterPrec", fmt.Sprintf("%.1f (ceiling %.1f)", P, ceil))
	if os.Getenv("C18_TRACE") != "" {
		fmt.Printf("ITER base=%s logN=%d slots=%d eph=%d iter=%v reserved=%d pattern=%s: P=%.1f ceiling %.1f\n", c.Cfg.Base, c.Cfg.LogN, c.Cfg.LogSlots, c.Cfg.Eph, it, c.Cfg.Reserved, c.Pattern, P, ceil)
	}
	rec.Classf("iter=%d/reserved=%v", n, c.Cfg.Reserved > 0)
	sum := 0.0
	for k := 1; k <= n; k++ {
		sum += gain[k]
		if need := math.Min(P[k-1]+0.6*gain[k], ceil); P[k] < need {
			return h.Failf("C18:Evaluate:iterated:gain", "BootstrappingPrecision=%v reserved=%d: precision after 0..%d extra iterations %.1f bits; iteration %d announces +%.0f bits but brings %.1f (needs >= %.1f, ceiling %.1f)", it, c.Cfg.Reserved, n, P, k, gain[k], P[k]-P[k-1], need, ceil)
		}
	}
	if need := math.Min(12+sum, ceil); P[n] < need {
		return h.Failf("C18:Evaluate:iterated:precision", "BootstrappingPrecision=%v reserved=%d: %.1f bits after all iterations < %.1f", it, c.Cfg.Reserved, P[n], need)
	}
	return nil
}

func genBootCase(t *rapid.T) BootCase {
	var c BootCase
	maxLogN := 10
	if h.Thorough() {
		maxLogN = 11
	}
	c.Cfg = genCfg(t, genOpts{minLogN: 8, maxLogN: maxLogN, functional: true})
	c.Seed = rapid.Uint64().Draw(t, "seed")
	cfg := &c.Cfg
	b, _ := getBase(cfg.Base)

	mode := draw(t, "mode", 8)
	// 1/8 of the cases: iterated (META-BTS) mode in the repository's own arrangement (testRawCircuitHighPrecision): a {60,40}
	// residual chain (S0, D0, T45), default scale 2^80, input at level 1, raw circuit, the literal's other options
	if mode == 0 {
		cfg.Base = []string{"S0", "D0", "T45"}[draw(t, "iterBase", 3)]
		cfg.Iter, cfg.Reserved = genIter(t)
		cfg.Mod1, cfg.Mod1Deg, cfg.DblAngle, cfg.InvDeg, cfg.K, cfg.EvalScale = "", -1, -1, -1, -1, -1
		cfg.C2S, cfg.S2C, cfg.LogP = nil, nil, nil
		cfg.LogSlots = cfg.LogN - 1 - draw(t, "sparsity", 3)
		cfg.MsgCorr = minInt(maxInt(15-cfg.LogSlots, 0), 8)
		cfg.Res, cfg.DN = "eq", 0
		cfg.NQ = 2
		cfg.LogScale = 80
		if cfg.Eph == 0 {
			cfg.H1, cfg.H2 = minInt(cfg.H1, 32), minInt(cfg.H2, 32)
		} else if cfg.Base == "D0" {
			cfg.H1, cfg.H2 = (1<<cfg.LogN)/2, (1<<cfg.LogN)/2
		} else {
			cfg.H1, cfg.H2 = minInt(192, (1<<cfg.LogN)/2), minInt(192, (1<<cfg.LogN)/2)
		}
		c.API, c.Level, c.CtSlots, c.Batch = "Evaluate", 1, cfg.LogSlots, 1
		c.Pattern = patterns[draw(t, "pattern", 3)]
		c.Copy = draw(t, "copy", 4) == 0
		c.Serialize = cfg.LogN <= 9 && draw(t, "serialize", 4) == 0
		return c
	}
	// half of the cases keep the literal's own circuit options at (nearly) full packing: the announced-precision domain
	if mode <= 4 {
		cfg.Mod1, cfg.Mod1Deg, cfg.DblAngle, cfg.InvDeg, cfg.K, cfg.EvalScale = "", -1, -1, -1, -1, -1
		cfg.C2S, cfg.S2C, cfg.Iter, cfg.Reserved = nil, nil, nil, 0
		if cfg.Eph == 0 {
			// default K = 16: the main secret that goes through ModUp stays sparse
			cfg.H1, cfg.H2 = minInt(cfg.H1, 32), minInt(cfg.H2, 32)
		}
		if cfg.Res != "ci" {
			cfg.LogSlots = cfg.LogN - 1 - draw(t, "sparsity", 3)
		}
		cfg.MsgCorr = minInt(maxInt(15-cfg.LogSlots, 0), 8)
	}

	// half of the shipped literals put two SlotsToCoeffs matrices on one prime ({30,30}), which is a listed finding:
	// most of the time replace it by the one-matrix-per-prime split so that the search continues behind it
	if sc, _ := b.btp.GetSlotsToCoeffsFactorizationDepthAndLogScales(cfg.LogSlots); cfg.S2C == nil && sharedPrime(sc) && draw(t, "unshare", 4) != 0 {
		cfg.S2C = clampDepth([][]int{{30}, {30}}, cfg.LogSlots)
	}

	first := genStep(t, cfg, b, "s0")
	c.API, c.Level, c.CtSlots, c.Batch, c.Pattern = first.API, first.Level, first.CtSlots, first.Batch, first.Pattern
	c.Copy = draw(t, "copy", 4) == 0
	// history: the same evaluator (and keys) bootstraps again with another level / slot count / batch / entry point
	if draw(t, "reuse", 2) == 0 {
		nMore := rapid.IntRange(1, 2).Draw(t, "nMore")
		for i := 0; i < nMore; i++ {
			c.More = append(c.More, genStep(t, cfg, b, fmt.Sprintf("s%d", i+1)))
		}
	}
	c.Serialize = cfg.LogN <= 9 && draw(t, "serialize", 3) == 0
	return c
}

// genStep draws one use of the evaluator.
func genStep(t *rapid.T, cfg *Cfg, b baseLit, label string) (st Step) {
	switch draw(t, label+"api", 4) {
	case 0:
		st.API = "Bootstrap"
	case 1:
		st.API = "Evaluate"
		if cfg.Res != "eq" {
			st.API = "Bootstrap"
		}
	default:
		st.API = "BootstrapMany"
	}
	st.Batch = rapid.IntRange(1, 4).Draw(t, label+"batch")

	// slots of the ciphertexts: 1 .. min(bootstrapping LogSlots, residual maximum)
	maxCt := cfg.LogSlots
	resMax := cfg.logN1() - 1
	if cfg.Res == "ci" {
		resMax = cfg.logN1()
	}
	if maxCt > resMax {
		maxCt = resMax
	}
	switch {
	case st.API == "Evaluate" || cfg.Res == "ci":
		st.CtSlots = maxCt
	case draw(t, label+"ctSlotsKind", 3) == 0:
		st.CtSlots = maxCt
	default:
		st.CtSlots = rapid.IntRange(maxInt(1, maxCt-4), maxCt).Draw(t, label+"ctSlots")
	}

	// input level: minimum .. residual maximum. Level 0 is admissible when the (power-of-two) scale fits under
	// Q0/MessageRatio (doc comment of Evaluator.Evaluate), otherwise one level is needed for the scale matching.
	st.Level = rapid.IntRange(0, cfg.NQ-1).Draw(t, label+"level")
	mr, _ := b.btp.GetLogMessageRatio()
	if st.Level == 0 && b.scheme.LogDefaultScale+mr+cfg.MsgCorr > b.scheme.LogQ[0] {
		st.Level = 1
	}
	st.Pattern = patterns[draw(t, label+"pattern", len(patterns))]
	return st
}

var propBoot = h.NewProp("TestPropBootstrap", h.Budget{Quick: 160, Thorough: 1600}, genBootCase, runBoot)

func TestPropBootstrap(t *testing.T) { propBoot.Check(t) }
