package c18

import (
	"fmt"
	"math"
	"testing"

	"verif/internal/h"

	"github.com/tuneinsight/lattigo/v6/circuits/ckks/bootstrapping"
	"github.com/tuneinsight/lattigo/v6/circuits/ckks/mod1"
	"github.com/tuneinsight/lattigo/v6/ring"
	"github.com/tuneinsight/lattigo/v6/schemes/ckks"
	"pgregory.net/rapid"
)

func TestMain(m *testing.M) { h.Main(m, "C18") }

func TestReplay(t *testing.T) { h.ReplayAll(t) }

// ---------------------------------------------------------------------------------------------------------------
// Plain-data description of one size-reduced bootstrapping configuration.
//
// A configuration is DERIVED from an exported default literal (bootstrapping.DefaultParametersSparse[i] = "S<i>",
// bootstrapping.DefaultParametersDense[i] = "D<i>") or from the literal of the repository's own bootstrapping test
// ("T45": LogN 10, LogQ {60,40}, LogP {61}, scale 2^40, empty bootstrapping literal) by the reductions the repository
// tests apply: smaller LogN, residual LogQ truncated, LogSlots set explicitly, message-ratio correction, secret weight
// adapted to the smaller ring. On top of that every circuit option of bootstrapping.ParametersLiteral can be overridden.
// ---------------------------------------------------------------------------------------------------------------

type Cfg struct {
	Base     string `json:"base"`     // S0..S3, D0..D3, T45
	LogN     int    `json:"logN"`     // ring degree of the bootstrapping parameters (N2)
	Res      string `json:"res"`      // residual ring: "eq" (N1=N2), "small" (N1<N2, standard), "ci" (conjugate invariant, N1=N2/2)
	DN       int    `json:"dn"`       // res=="small": LogN1 = LogN-DN
	NQ       int    `json:"nq"`       // number of residual Q primes kept from the base literal
	LogSlots int    `json:"logSlots"` // LogSlots of the bootstrapping literal
	Eph      int    `json:"eph"`      // ephemeral secret weight, 0 = no encapsulation
	H1       int    `json:"h1"`       // Hamming weight of the residual secret
	H2       int    `json:"h2"`       // Hamming weight in the bootstrapping literal's Xs (used only when N1 != N2)

	// overrides of the bootstrapping literal; nil / -1 / "" = keep what the base literal says
	C2S       [][]int   `json:"c2s,omitempty"`
	S2C       [][]int   `json:"s2c,omitempty"`
	Mod1      string    `json:"mod1,omitempty"` // "", "cosd", "sin", "cosc"
	K         int       `json:"k"`              // -1 keep
	Mod1Deg   int       `json:"mod1deg"`        // -1 keep
	DblAngle  int       `json:"dbl"`            // -1 keep
	InvDeg    int       `json:"invdeg"`         // -1 keep
	EvalScale int       `json:"evalScale"`      // -1 keep
	LogP      []int     `json:"logP,omitempty"`
	Iter      []float64 `json:"iter,omitempty"` // IterationsParameters.BootstrappingPrecision
	Reserved  int       `json:"reserved"`       // IterationsParameters.ReservedPrimeBitSize
	LogScale  int       `json:"logScale"`       // override of the residual LogDefaultScale (0 keep) - used by the iterated mode
	MsgCorr   int       `json:"msgCorr"`        // added to LogMessageRatio (the repository's small-ring correction)
}

type baseLit struct {
	scheme ckks.ParametersLiteral
	btp    bootstrapping.ParametersLiteral
	// precision announced in the literal's doc comment (bits, for the full-size set); 0 = none announced
	announced float64
}

// announced precisions transcribed from the doc comments of default_parameters.go
var announcedSparse = []float64{26.6, 32.1, 19.1, 15.4}
var announcedDense = []float64{23.8, 29.8, 17.8, 17.3}

func baseNames() (out []string) {
	for i := range bootstrapping.DefaultParametersSparse {
		out = append(out, fmt.Sprintf("S%d", i))
	}
	for i := range bootstrapping.DefaultParametersDense {
		out = append(out, fmt.Sprintf("D%d", i))
	}
	return append(out, "T45")
}

func getBase(name string) (baseLit, error) {
	var idx int
	if name == "T45" {
		return baseLit{scheme: ckks.ParametersLiteral{LogN: 10, LogQ: []int{60, 40}, LogP: []int{61}, LogDefaultScale: 40}}, nil
	}
	if _, err := fmt.Sscanf(name[1:], "%d", &idx); err != nil {
		return baseLit{}, err
	}
	switch name[0] {
	case 'S':
		if idx < len(bootstrapping.DefaultParametersSparse) {
			d := bootstrapping.DefaultParametersSparse[idx]
			b := baseLit{scheme: d.SchemeParams, btp: d.BootstrappingParams}
			if idx < len(announcedSparse) {
				b.announced = announcedSparse[idx]
			}
			return b, nil
		}
	case 'D':
		if idx < len(bootstrapping.DefaultParametersDense) {
			d := bootstrapping.DefaultParametersDense[idx]
			b := baseLit{scheme: d.SchemeParams, btp: d.BootstrappingParams}
			if idx < len(announcedDense) {
				b.announced = announcedDense[idx]
			}
			return b, nil
		}
	}
	return baseLit{}, fmt.Errorf("unknown base %q", name)
}

func ptr[T any](v T) *T { return &v }

func (c Cfg) logN1() int {
	switch c.Res {
	case "small":
		return c.LogN - c.DN
	case "ci":
		return c.LogN - 1
	}
	return c.LogN
}

// literals derives the two lattigo literals from the configuration.
func (c Cfg) literals() (ckks.ParametersLiteral, bootstrapping.ParametersLiteral, error) {
	b, err := getBase(c.Base)
	if err != nil {
		return ckks.ParametersLiteral{}, bootstrapping.ParametersLiteral{}, err
	}
	s := b.scheme
	s.LogN = c.logN1()
	if c.Res != "eq" {
		s.LogNthRoot = c.LogN + 1 // residual primes must be 1 mod 2*N2 (documented on NewParametersFromLiteral)
	}
	if c.Res == "ci" {
		s.RingType = ring.ConjugateInvariant
	}
	if c.NQ < len(s.LogQ) {
		s.LogQ = append([]int(nil), s.LogQ[:c.NQ]...)
	}
	s.Xs = ring.Ternary{H: c.H1}
	if c.LogScale != 0 {
		s.LogDefaultScale = c.LogScale
	}

	l := b.btp
	l.LogN = ptr(c.LogN)
	l.LogSlots = ptr(c.LogSlots)
	l.Xs = ring.Ternary{H: c.H2}
	l.EphemeralSecretWeight = ptr(c.Eph)
	if c.C2S != nil {
		l.CoeffsToSlotsFactorizationDepthAndLogScales = c.C2S
	} else {
		l.CoeffsToSlotsFactorizationDepthAndLogScales = clampDepth(l.CoeffsToSlotsFactorizationDepthAndLogScales, c.LogSlots)
	}
	if c.S2C != nil {
		l.SlotsToCoeffsFactorizationDepthAndLogScales = c.S2C
	} else {
		l.SlotsToCoeffsFactorizationDepthAndLogScales = clampDepth(l.SlotsToCoeffsFactorizationDepthAndLogScales, c.LogSlots)
	}
	switch c.Mod1 {
	case "cosd":
		l.Mod1Type = mod1.CosDiscrete
	case "sin":
		l.Mod1Type = mod1.SinContinuous
	case "cosc":
		l.Mod1Type = mod1.CosContinuous
	}
	if c.K >= 0 {
		l.K = ptr(c.K)
	}
	if c.Mod1Deg >= 0 {
		l.Mod1Degree = ptr(c.Mod1Deg)
	}
	if c.DblAngle >= 0 {
		l.DoubleAngle = ptr(c.DblAngle)
	}
	if c.InvDeg >= 0 {
		l.Mod1InvDegree = ptr(c.InvDeg)
	}
	if c.EvalScale >= 0 {
		l.EvalModLogScale = ptr(c.EvalScale)
	}
	if c.LogP != nil {
		l.LogP = c.LogP
	}
	if c.Iter != nil {
		l.IterationsParameters = &bootstrapping.IterationsParameters{BootstrappingPrecision: c.Iter, ReservedPrimeBitSize: c.Reserved}
	}
	if c.MsgCorr != 0 {
		mr, err := l.GetLogMessageRatio()
		if err != nil {
			return s, l, err
		}
		l.LogMessageRatio = ptr(mr + c.MsgCorr)
	}
	return s, l, nil
}

// clampDepth truncates an explicit factorisation of a base literal whose depth exceeds LogSlots (the literal's
// documented constraint "cannot contain parameters for a depth > LogSlots"); nil (defaults) adapt by themselves.
func clampDepth(f [][]int, logSlots int) [][]int {
	if f == nil {
		return nil
	}
	var out [][]int
	depth := 0
	for _, lvl := range f {
		var row []int
		for _, v := range lvl {
			if depth < logSlots {
				row = append(row, v)
				depth++
			}
		}
		if len(row) > 0 {
			out = append(out, row)
		}
	}
	return out
}

type built struct {
	res ckks.Parameters
	btp bootstrapping.Parameters
	lit bootstrapping.ParametersLiteral
}

// build constructs the residual and the bootstrapping parameters.
func (c Cfg) build() (built, error) {
	s, l, err := c.literals()
	if err != nil {
		return built{}, err
	}
	res, err := ckks.NewParametersFromLiteral(s)
	if err != nil {
		return built{}, fmt.Errorf("residual parameters: %w", err)
	}
	btp, err := bootstrapping.NewParametersFromLiteral(res, l)
	if err != nil {
		return built{}, fmt.Errorf("bootstrapping parameters: %w", err)
	}
	return built{res: res, btp: btp, lit: l}, nil
}

// class strings for the histogram / distinctness descriptor ---------------------------------------------------------

func (c Cfg) optionClass() string {
	sec := "sparse"
	if c.H1*4 >= (1 << c.logN1()) {
		sec = "dense"
	}
	eph := "eph"
	if c.Eph == 0 {
		eph = "noeph"
	}
	m := c.Mod1
	if m == "" {
		m = "base"
	}
	it := ""
	if c.Iter != nil {
		it = fmt.Sprintf("/iter%d-res%v", len(c.Iter), c.Reserved > 0)
	}
	return fmt.Sprintf("%s/%s/%s/%s/mod1=%s,k%d,deg%d,dbl%d,inv%d,es%d/c2s%s/s2c%s%s", c.Base, c.Res, sec, eph, m, c.K, c.Mod1Deg, c.DblAngle, c.InvDeg, c.EvalScale, shape(c.C2S), shape(c.S2C), it)
}

func shape(f [][]int) string {
	if f == nil {
		return "base"
	}
	s := ""
	for _, l := range f {
		s += fmt.Sprint(len(l))
	}
	return s
}

// ---------------------------------------------------------------------------------------------------------------
// generator
// ---------------------------------------------------------------------------------------------------------------

type genOpts struct {
	minLogN, maxLogN int
	functional       bool // restrict to configurations whose announced precision can be asserted
}

// kFor returns the smallest admissible interval half-width K for a secret of Hamming weight hw during ModUp:
// the integer polynomial I = (c0 + c1*s - m)/q0 has coefficients that are sums of hw+1 terms uniform in [-1/2,1/2],
// std = sqrt((hw+1)/12); the shipped sets use K=16 for hw=32 (9.6 std, announced failure probability 2^-138.7);
// the same 9.6 std margin is applied to every generated weight.
func kFor(hw int) int {
	return int(math.Ceil(9.6 * math.Sqrt(float64(hw+1)/12.0)))
}

func draw(t *rapid.T, label string, n int) int { return rapid.IntRange(0, n-1).Draw(t, label) }

func genCfg(t *rapid.T, o genOpts) Cfg {
	names := baseNames()
	c := Cfg{K: -1, Mod1Deg: -1, DblAngle: -1, InvDeg: -1, EvalScale: -1}
	c.Base = names[draw(t, "base", len(names))]
	b, _ := getBase(c.Base)
	c.LogN = rapid.IntRange(o.minLogN, o.maxLogN).Draw(t, "logN")
	switch draw(t, "res", 4) {
	case 0, 1:
		c.Res = "eq"
	case 2:
		c.Res = "small"
		c.DN = rapid.IntRange(1, minInt(3, c.LogN-4)).Draw(t, "dn") // rlwe.MinLogN = 4
	default:
		c.Res = "ci"
	}
	n1 := 1 << c.logN1()
	n2 := 1 << c.LogN

	// residual chain: at least Q0 and one more prime (as the repository's reduced tests), at most 4
	maxQ := len(b.scheme.LogQ)
	if maxQ > 4 {
		maxQ = 4
	}
	c.NQ = rapid.IntRange(2, maxQ).Draw(t, "nq")

	// slots: 1 .. LogN-1 (conjugate-invariant bootstrapping repacks two real vectors: full packing only, as the
	// repository test does)
	if c.Res == "ci" {
		c.LogSlots = c.LogN - 1
	} else {
		switch draw(t, "slotsKind", 4) {
		case 0:
			c.LogSlots = c.LogN - 1
		case 1:
			c.LogSlots = c.LogN - 2
		case 2:
			c.LogSlots = 1
		default:
			c.LogSlots = rapid.IntRange(1, c.LogN-1).Draw(t, "logSlots")
		}
	}

	// encapsulation and secret weights
	denseNoEph := false
	dense := c.Base[0] == 'D' || (c.Base == "T45" && draw(t, "t45dense", 2) == 0)
	if draw(t, "ephOn", 3) != 0 {
		c.Eph = []int{32, 32, 16, 8, 1}[draw(t, "ephW", 5)]
		if c.Eph > n2/2 {
			c.Eph = n2 / 2
		}
		if dense {
			c.H1, c.H2 = n1/2, n2/2
		} else {
			c.H1, c.H2 = minInt(192, n1/2), minInt(192, n2/2)
		}
	} else {
		// without encapsulation the main secret itself goes through ModUp: K (default 16) bounds its weight
		c.Eph = 0
		w := []int{32, 16, 8}[draw(t, "mainW", 3)]
		c.H1, c.H2 = minInt(w, n1/2), minInt(w, n2/2)
		// the "original" bootstrapping: a DENSE main secret (H = N/2) goes through ModUp itself, which needs a wide interval
		denseNoEph = c.LogN >= 7 && draw(t, "denseNoEph", 5) == 0
		if denseNoEph {
			c.H1, c.H2 = n1/2, n2/2
		}
	}

	// the repository's small-ring message-ratio correction (evaluator_test.go)
	c.MsgCorr = minInt(maxInt(15-c.LogSlots, 0), 8)

	// DFT factorisations
	if draw(t, "c2sKind", 3) == 0 {
		c.C2S = genSplit(t, "c2s", c.LogSlots, 4, []int{56, 53, 58, 49})
	}
	if draw(t, "s2cKind", 3) == 0 {
		// 30-bit decoding matrices belong to the sets with a 2^25..2^31 default scale (as shipped); with a 2^40/2^45 scale
		// they are a low-precision choice of the user for which nothing is announced
		s2cSizes := []int{39, 42}
		if b.scheme.LogDefaultScale <= 31 {
			s2cSizes = []int{30}
		}
		c.S2C = genSplit(t, "s2c", c.LogSlots, 3, s2cSizes)
	}

	// mod1 options
	switch draw(t, "mod1Kind", 5) {
	case 0:
		// Chebyshev interpolant of sin(2*pi*x) on [-K,K]: converges once the degree exceeds 2*pi*K (~100 for K=16)
		c.Mod1 = "sin"
		c.Mod1Deg = []int{127, 63}[draw(t, "sinDeg", 2)]
		if o.functional {
			c.Mod1Deg = 255 // 127 < 2*pi*16 + margin: under-resolved for K=16 (the repository pairs degree 127 with K<=14)
		}
		c.DblAngle = 0
	case 1:
		// cos(2*pi*(x-1/4)/2^r) on [-K,K]: needs degree > 2*pi*K/2^r
		c.Mod1 = "cosc"
		c.DblAngle = rapid.IntRange(2, 3).Draw(t, "coscDbl")
		if c.DblAngle == 3 {
			c.Mod1Deg = []int{45, 63}[draw(t, "coscDeg", 2)]
		} else {
			c.Mod1Deg = 63
		}
	case 2:
		c.Mod1 = "cosd"
		c.DblAngle = rapid.IntRange(2, 3).Draw(t, "cosdDbl")
		c.Mod1Deg = []int{30, 31, 40}[draw(t, "cosdDeg", 3)]
		if c.DblAngle == 2 {
			c.Mod1Deg = 63
		}
	}
	if denseNoEph {
		// K at the 9.6 standard deviations of the shipped sets for the secret that ModUp sees, CosDiscrete (needs degree
		// >= 2(K-1)) with the default three double angles
		hw := c.H2
		if c.Res == "eq" {
			hw = c.H1
		}
		c.K = kFor(hw)
		c.Mod1, c.DblAngle, c.Mod1Deg = "cosd", 3, 2*c.K+6
	}
	// EvalMod scale different from the literal's: above Q0 (ModUp multiplies by round(scale/Q0) >= 2) or below Q0 (the
	// division moves into CoeffsToSlots)
	if draw(t, "evalScaleKind", 6) == 0 {
		own, _ := b.btp.GetEvalMod1LogScale()
		var cand []int
		for _, v := range []int{60, 55, 50} {
			// one step of 5 bits: a much smaller EvalMod scale is a low-precision choice for which nothing is announced
			if v != own && v-own <= 5 && own-v <= 5 {
				cand = append(cand, v)
			}
		}
		c.EvalScale = cand[draw(t, "evalScale", len(cand))]
		if o.functional && c.EvalScale < own {
			// a smaller EvalMod scale folds a division into CoeffsToSlots: not stacked on a down-sized CoeffsToSlots split
			// (49-bit single matrix + 5 bits less fell to 11 bits; nothing is announced for stacked low-precision choices)
			c.C2S = nil
		}
	}
	// arcsine correction: only added (removing it from a literal built around it - message ratio 2^2 - is another set)
	if id, _ := b.btp.GetMod1InvDegree(); id == 0 && draw(t, "invKind", 4) == 0 {
		c.InvDeg = []int{3, 5, 7}[draw(t, "invDeg", 3)]
	}

	// iterations (META-BTS): the functional generator sets them itself (genBootCase); here any shape for the key oracle
	if !o.functional && draw(t, "iterKind", 5) == 0 {
		c.Iter, c.Reserved = genIter(t)
	}
	if draw(t, "logPKind", 4) == 0 {
		// auxiliary primes smaller than the ciphertext primes add key-switching noise: kept for the key-structure oracle only
		c.LogP = [][]int{{61}, {61, 61}, {55, 55, 55}}[draw(t, "logP", 3)]
		if o.functional && c.LogP[0] < 61 {
			c.LogP = []int{61, 61, 61}
		}
	}
	return c
}

// genIter draws IterationsParameters: 1-3 extra iterations with or without a reserved prime. The entries are declared
// pass precisions; they are kept at or below what one pass delivers on the reduced rings (>= 25 bits). Without a reserved
// prime the scale-up by round(q1/2^tot) must stay >= 2^logprec for the full announced gain (doc comment of
// ParametersLiteral: "As long as round(q1/2^{k*logprec}) >= 2^{logprec} ..."), q1 = 2^40: tot_k + logprec <= 40.
func genIter(t *rapid.T) ([]float64, int) {
	n := rapid.IntRange(1, 3).Draw(t, "iterN")
	if draw(t, "reserved", 2) == 0 {
		p := []float64{25, 20, 16}[draw(t, "iterPrec", 3)]
		if p == 25 && n == 3 {
			// 3*25 bits exceed q1*QReserved = 2^(40+28..30): documented early stop "maximum precision achieved"
			n = 2
		}
		it := make([]float64, n)
		for i := range it {
			it[i] = p
		}
		return it, []int{28, 30}[draw(t, "reservedBits", 2)]
	}
	switch n {
	case 1:
		return []float64{[]float64{20, 16}[draw(t, "iterPrec1", 2)]}, 0
	case 2:
		return []float64{13, 13}, 0
	}
	return []float64{10, 10, 10}, 0
}

func genSplit(t *rapid.T, label string, logSlots, maxDepth int, sizes []int) [][]int {
	if maxDepth > logSlots {
		maxDepth = logSlots
	}
	depth := rapid.IntRange(1, maxDepth).Draw(t, label+"_depth")
	sz := sizes[draw(t, label+"_sz", len(sizes))]
	var out [][]int
	for d := 0; d < depth; {
		// two matrices sharing one prime ("{30,30}") now and then
		if d+1 < depth && sz <= 30 && draw(t, fmt.Sprintf("%s_pair%d", label, d), 2) == 0 {
			out = append(out, []int{sz, sz})
			d += 2
		} else {
			out = append(out, []int{sz})
			d++
		}
	}
	return out
}

func maxInt(a, b int) int {
	if a > b {
		return a
	}
	return b
}

// sharedPrime reports whether the effective CoeffsToSlots / SlotsToCoeffs factorisation puts several matrices on one prime.
func sharedPrime(l [][]int) bool {
	for _, row := range l {
		if len(row) > 1 {
			return true
		}
	}
	return false
}

func minInt(a, b int) int {
	if a < b {
		return a
	}
	return b
}
