package c18

import (
	"fmt"
	"math"
	"testing"

	"verif/internal/h"

	"github.com/tuneinsight/lattigo/v6/circuits/ckks/dft"
	"github.com/tuneinsight/lattigo/v6/circuits/ckks/mod1"
	"github.com/tuneinsight/lattigo/v6/circuits/ckks/polynomial"
	"github.com/tuneinsight/lattigo/v6/core/rlwe"
	"github.com/tuneinsight/lattigo/v6/ring"
	"github.com/tuneinsight/lattigo/v6/schemes/ckks"
	"pgregory.net/rapid"
)

// chain builds explicit NTT-friendly primes (harness search, largest first below 2^bits) for a list of sizes.
func chain(logN int, sizes []int) ([]uint64, error) {
	m := uint64(2) << logN
	count := map[int]int{}
	for _, s := range sizes {
		count[s]++
	}
	pool := map[int][]uint64{}
	for s, k := range count {
		ps := h.Primes(s, m, k, true)
		if len(ps) < k {
			return nil, fmt.Errorf("not enough %d-bit primes", s)
		}
		pool[s] = ps
	}
	out := make([]uint64, len(sizes))
	for i, s := range sizes {
		out[i] = pool[s][0]
		pool[s] = pool[s][1:]
	}
	return out, nil
}

// ---------------------------------------------------------------------------------------------------------------
// TestPropDFTRoundTrip: SlotsToCoeffs(CoeffsToSlots(ct)) ~ ct through dft.Evaluator (the two transforms are mutual
// inverses), with the announced level consumption.
// ---------------------------------------------------------------------------------------------------------------

type DFTCase struct {
	LogN     int    `json:"logN"`
	LogSlots int    `json:"logSlots"`
	C2S      []int  `json:"c2s"` // MatrixLiteral.Levels of the encoding (matrices per prime)
	S2C      []int  `json:"s2c"`
	BSGS     int    `json:"bsgs"` // LogBSGSRatio
	Pattern  string `json:"pattern"`
	Seed     uint64 `json:"seed"`
}

func (c DFTCase) RandSeed() uint64 { return c.Seed }

func genLevels(t *rapid.T, label string, logSlots int) []int {
	depth := rapid.IntRange(1, minInt(4, logSlots)).Draw(t, label+"_depth")
	var out []int
	for d := 0; d < depth; {
		if d+1 < depth && draw(t, fmt.Sprintf("%s_share%d", label, d), 10) == 0 {
			out = append(out, 2)
			d += 2
		} else {
			out = append(out, 1)
			d++
		}
	}
	return out
}

func genDFTCase(t *rapid.T) DFTCase {
	var c DFTCase
	maxLogN := 9
	if h.Thorough() {
		maxLogN = 10
	}
	c.LogN = rapid.IntRange(5, maxLogN).Draw(t, "logN")
	switch draw(t, "slotsKind", 3) {
	case 0:
		c.LogSlots = c.LogN - 1
	case 1:
		c.LogSlots = c.LogN - 2
	default:
		c.LogSlots = rapid.IntRange(1, c.LogN-1).Draw(t, "logSlots")
	}
	c.C2S = genLevels(t, "c2s", c.LogSlots)
	c.S2C = genLevels(t, "s2c", c.LogSlots)
	c.BSGS = rapid.IntRange(0, 2).Draw(t, "bsgs")
	c.Pattern = patterns[draw(t, "pattern", len(patterns))]
	c.Seed = rapid.Uint64().Draw(t, "seed")
	return c
}

func hasShared(l []int) bool {
	for _, v := range l {
		if v > 1 {
			return true
		}
	}
	return false
}

func runDFT(c DFTCase, rec *h.Rec) error {
	const logScale = 45
	// one prime per level: 45 bits (= scale) for a single matrix, 60 bits for two matrices at 2^30 each; S2C comes last
	sizes := []int{55}
	for i := len(c.S2C) - 1; i >= 0; i-- {
		sizes = append(sizes, map[int]int{1: 45, 2: 60}[c.S2C[i]])
	}
	for i := len(c.C2S) - 1; i >= 0; i-- {
		sizes = append(sizes, map[int]int{1: 45, 2: 60}[c.C2S[i]])
	}
	Q, err := chain(c.LogN, sizes)
	if err != nil {
		return err
	}
	P, err := chain(c.LogN, []int{61})
	if err != nil {
		return err
	}
	params, err := ckks.NewParametersFromLiteral(ckks.ParametersLiteral{LogN: c.LogN, Q: Q, P: P, LogDefaultScale: logScale})
	if err != nil {
		return h.Failf("C18:harness:dft-params", "%v", err)
	}
	shared := hasShared(c.C2S) || hasShared(c.S2C)
	rec.Classf("logN=%d", c.LogN)
	rec.Classf("sparse=%v", c.LogSlots < c.LogN-1)
	rec.Classf("shared=%v", shared)

	c2s := dft.MatrixLiteral{Type: dft.HomomorphicEncode, Format: dft.RepackImagAsReal, LogSlots: c.LogSlots, LevelQ: params.MaxLevel(), LevelP: params.MaxLevelP(), Levels: c.C2S, LogBSGSRatio: c.BSGS}
	s2c := dft.MatrixLiteral{Type: dft.HomomorphicDecode, Format: dft.RepackImagAsReal, LogSlots: c.LogSlots, LevelQ: params.MaxLevel() - len(c.C2S), LevelP: params.MaxLevelP(), Levels: c.S2C, LogBSGSRatio: c.BSGS}

	kgen := rlwe.NewKeyGenerator(params)
	sk := kgen.GenSecretKeyNew()
	ecd := ckks.NewEncoder(params)
	m1, err := dft.NewMatrixFromLiteral(params, c2s, ecd)
	if err != nil {
		return h.Failf("C18:dft:NewMatrixFromLiteral:encode", "%v", err)
	}
	m2, err := dft.NewMatrixFromLiteral(params, s2c, ecd)
	if err != nil {
		return h.Failf("C18:dft:NewMatrixFromLiteral:decode", "%v", err)
	}
	gal := map[uint64]bool{params.GaloisElementForComplexConjugation(): true}
	for _, g := range c2s.GaloisElements(params) {
		gal[g] = true
	}
	for _, g := range s2c.GaloisElements(params) {
		gal[g] = true
	}
	rk := &recKeys{EvaluationKeySet: rlwe.NewMemEvaluationKeySet(nil, kgen.GenGaloisKeysNew(sortedU64(gal), sk)...), used: map[uint64]bool{}, missing: map[uint64]bool{}}
	eval := dft.NewEvaluator(params, ckks.NewEvaluator(params, rk))

	enc := rlwe.NewEncryptor(params, sk)
	dec := rlwe.NewDecryptor(params, sk)
	want := genValues(c.Pattern, 1<<c.LogSlots, false, h.NewSplitMix(c.Seed))
	ct, _, err := encodeEncrypt(params, ecd, enc, want, params.MaxLevel(), c.LogSlots)
	if err != nil {
		return h.Failf("C18:harness:encrypt", "%v", err)
	}

	known := func(what string) error {
		key := "C18:dft:shared-prime-factorisation:level-and-message-lost"
		msg := fmt.Sprintf("dft.Evaluator with Levels C2S=%v S2C=%v: %s", c.C2S, c.S2C, what)
		if rec.Known(key, msg) {
			rec.Class("known=shared-prime-factorisation")
			return nil
		}
		return h.Failf(key, "%s", msg)
	}

	re, im, err := eval.CoeffsToSlotsNew(ct, m1)
	if err != nil {
		if shared {
			return known(err.Error())
		}
		return h.Failf("C18:dft:CoeffsToSlots:error", "%v", err)
	}
	if (im != nil) != (c.LogSlots == c.LogN-1) {
		return h.Failf("C18:dft:CoeffsToSlots:outputs", "imaginary ciphertext present=%v for LogSlots=%d LogN=%d", im != nil, c.LogSlots, c.LogN)
	}
	if re.Level() != s2c.LevelQ {
		if hasShared(c.C2S) {
			return known(fmt.Sprintf("CoeffsToSlots output level %d, literal depth announces %d", re.Level(), s2c.LevelQ))
		}
		return h.Failf("C18:dft:CoeffsToSlots:level", "output level %d, LevelQ-Depth(true) = %d", re.Level(), s2c.LevelQ)
	}
	out, err := eval.SlotsToCoeffsNew(re, im, m2)
	if err != nil {
		if shared {
			return known(err.Error())
		}
		return h.Failf("C18:dft:SlotsToCoeffs:error", "%v", err)
	}
	if wantLvl := s2c.LevelQ - len(c.S2C); out.Level() != wantLvl {
		if hasShared(c.S2C) {
			return known(fmt.Sprintf("SlotsToCoeffs output level %d, literal depth announces %d", out.Level(), wantLvl))
		}
		return h.Failf("C18:dft:SlotsToCoeffs:level", "output level %d, LevelQ-Depth(true) = %d", out.Level(), wantLvl)
	}
	if out.LogDimensions.Cols != c.LogSlots {
		return h.Failf("C18:dft:roundtrip:dimensions", "LogSlots %d after the round trip, %d before", out.LogDimensions.Cols, c.LogSlots)
	}
	have, err := decryptDecode(params, ecd, dec, out)
	if err != nil {
		return h.Failf("C18:harness:decode", "%v", err)
	}
	ps := precision(want, have)
	// floor of the repository's dft test for ONE transform (ckks.VerifyTestVectors: log2(scale) - (LogN+2)), minus 4 bits
	// for the composition of two transforms and the conjugation/rotation key switches in between; matrices sharing a
	// prime are encoded at 2^30 only: flat 12 bits
	floor := float64(logScale-(c.LogN+2)) - 4
	if shared {
		floor = 12
	}
	rec.Note("prec", fmt.Sprintf("avg %.1f/%.1f min %.1f/%.1f floor %.1f", ps.avgRe, ps.avgIm, ps.minRe, ps.minIm, floor))
	if ps.avgRe < floor || ps.avgIm < floor {
		return h.Failf("C18:dft:roundtrip:precision", "SlotsToCoeffs(CoeffsToSlots(x)) vs x: mean precision real %.2f / imag %.2f bits < %.2f bits", ps.avgRe, ps.avgIm, floor)
	}
	if len(rk.missing) != 0 {
		return h.Failf("C18:dft:GaloisElements:missing", "transforms looked up Galois keys %v not listed by MatrixLiteral.GaloisElements", sortedU64(rk.missing))
	}
	for g := range gal {
		if !rk.used[g] && g != 1 {
			return h.Failf("C18:dft:GaloisElements:never-used", "Galois element %d listed by MatrixLiteral.GaloisElements is never looked up", g)
		}
	}
	rec.NonTrivial(fmt.Sprintf("logN%d/slots-%d/c2s%v/s2c%v/bsgs%d/%s", c.LogN, c.LogN-1-c.LogSlots, c.C2S, c.S2C, c.BSGS, c.Pattern))
	return nil
}

var propDFT = h.NewProp("TestPropDFTRoundTrip", h.Budget{Quick: 160, Thorough: 1600}, genDFTCase, runDFT)

func TestPropDFTRoundTrip(t *testing.T) { propDFT.Check(t) }

// ---------------------------------------------------------------------------------------------------------------
// TestPropMod1: mod1.Evaluator on I*q + m (I integer in [-K+1, K-1]) returns m: against the scaled-sine model the
// repository's test uses, and against x mod 1 itself within the analytic error of that model.
// ---------------------------------------------------------------------------------------------------------------

type Mod1Case struct {
	LogN     int    `json:"logN"`
	Type     string `json:"type"` // cosd, sin, cosc
	K        int    `json:"k"`
	Deg      int    `json:"deg"`
	Dbl      int    `json:"dbl"`
	Inv      int    `json:"inv"`
	LogRatio int    `json:"logRatio"`
	Extreme  bool   `json:"extreme"` // slot 0 holds the interval end (K-1)*q + 0.5 as in the repository test
	Seed     uint64 `json:"seed"`
}

func (c Mod1Case) RandSeed() uint64 { return c.Seed }

func genMod1Case(t *rapid.T) Mod1Case {
	var c Mod1Case
	maxLogN := 9
	if h.Thorough() {
		maxLogN = 10
	}
	c.LogN = rapid.IntRange(6, maxLogN).Draw(t, "logN")
	c.LogRatio = 8
	// parameter families around the three sets of the repository's mod1 test, degrees kept where the interpolant has converged
	switch draw(t, "type", 4) {
	case 0:
		c.Type = "sin"
		c.K = []int{8, 12, 14}[draw(t, "k", 3)]
		c.Deg = 127
		c.Inv = []int{0, 7, 5}[draw(t, "inv", 3)]
	case 1:
		c.Type = "cosc"
		if draw(t, "big", 3) == 0 {
			c.K, c.Deg, c.Dbl, c.LogRatio = 325, 177, 4, 4
		} else {
			c.K = []int{12, 16}[draw(t, "k", 2)]
			c.Deg, c.Dbl = 63, 3
		}
	default:
		c.Type = "cosd"
		// K <= 12 as in the repository test: degree 30 with K = 16 (the bootstrapping default) is approximation-limited
		// to ~30 bits, below the 33 bits asserted for the test's own set; that pairing is covered by the full circuit
		c.K = []int{8, 12, 10}[draw(t, "k", 3)]
		c.Deg = []int{30, 31, 40}[draw(t, "deg", 3)]
		c.Dbl = 3
		if draw(t, "cosdInv", 4) == 0 {
			c.Inv = 7
		}
	}
	c.Extreme = draw(t, "extreme", 2) == 0
	c.Seed = rapid.Uint64().Draw(t, "seed")
	return c
}

func runMod1(c Mod1Case, rec *h.Rec) error {
	lit := mod1.ParametersLiteral{LogScale: 60, LogMessageRatio: c.LogRatio, K: c.K, Mod1Degree: c.Deg, DoubleAngle: c.Dbl, Mod1InvDegree: c.Inv}
	switch c.Type {
	case "sin":
		lit.Mod1Type = mod1.SinContinuous
	case "cosc":
		lit.Mod1Type = mod1.CosContinuous
	default:
		lit.Mod1Type = mod1.CosDiscrete
	}
	depth := lit.Depth()
	// chain of the repository test: Q0 of 55 bits, 60-bit primes for the evaluation, a 53-bit prime for the normalisation
	sizes := []int{55}
	for i := 0; i < depth+1; i++ {
		sizes = append(sizes, 60)
	}
	sizes = append(sizes, 53)
	Q, err := chain(c.LogN, sizes)
	if err != nil {
		return err
	}
	P, err := chain(c.LogN, []int{61, 61})
	if err != nil {
		return err
	}
	params, err := ckks.NewParametersFromLiteral(ckks.ParametersLiteral{LogN: c.LogN, Q: Q, P: P, LogDefaultScale: 45, Xs: ring.Ternary{H: minInt(192, 1<<(c.LogN-1))}})
	if err != nil {
		return h.Failf("C18:harness:mod1-params", "%v", err)
	}
	lit.LevelQ = params.MaxLevel() - 1
	rec.Classf("type=%s", c.Type)
	rec.Classf("logN=%d", c.LogN)
	rec.Classf("inv=%v", c.Inv > 0)

	mp, err := mod1.NewParametersFromLiteral(params, lit)
	if err != nil {
		return h.Failf("C18:mod1:NewParametersFromLiteral", "%v", err)
	}
	kgen := rlwe.NewKeyGenerator(params)
	sk := kgen.GenSecretKeyNew()
	ecd := ckks.NewEncoder(params)
	enc := rlwe.NewEncryptor(params, sk)
	dec := rlwe.NewDecryptor(params, sk)
	eval := ckks.NewEvaluator(params, rlwe.NewMemEvaluationKeySet(kgen.GenRelinearizationKeyNew(sk)))

	// inputs: I*q + m with integer I in [-(K-1), K-1] and m in [-1,1] (q = QDiff * MessageRatio in units of the message)
	rng := h.NewSplitMix(c.Seed)
	Km := mp.K - 1
	q := mp.QDiff * mp.MessageRatio()
	n := params.MaxSlots()
	vals := make([]float64, n)
	frac := make([]float64, n)
	for i := range vals {
		I := math.Round((2*rng.Float64() - 1) * Km)
		frac[i] = 2*rng.Float64() - 1
		vals[i] = I*q + frac[i]
	}
	if c.Extreme {
		frac[0] = 0.5
		vals[0] = Km*q + 0.5
		frac[1] = -0.5
		vals[1] = -Km*q - 0.5
	}
	pt := ckks.NewPlaintext(params, params.MaxLevel())
	if err := ecd.Encode(vals, pt); err != nil {
		return h.Failf("C18:harness:encode", "%v", err)
	}
	ct, err := enc.EncryptNew(pt)
	if err != nil {
		return h.Failf("C18:harness:encrypt", "%v", err)
	}
	// the normalisation the repository's test applies before EvaluateNew (and ModUp/CoeffsToSlots in the bootstrapping)
	scale := rlwe.NewScale(math.Exp2(math.Round(math.Log2(float64(params.Q()[0]) / mp.MessageRatio()))))
	scale = scale.Div(ct.Scale)
	if err := eval.ScaleUp(ct, rlwe.NewScale(math.Round(scale.Float64())), ct); err != nil {
		return h.Failf("C18:harness:scaleup", "%v", err)
	}
	scale = mp.ScalingFactor().Div(ct.Scale)
	scale = scale.Div(rlwe.NewScale(mp.MessageRatio()))
	if err := eval.ScaleUp(ct, rlwe.NewScale(math.Round(scale.Float64())), ct); err != nil {
		return h.Failf("C18:harness:scaleup", "%v", err)
	}
	if err := eval.Mul(ct, 1/(mp.K*mp.QDiff), ct); err != nil {
		return h.Failf("C18:harness:normalise", "%v", err)
	}
	if err := eval.Rescale(ct, ct); err != nil {
		return h.Failf("C18:harness:normalise", "%v", err)
	}
	out, err := mod1.NewEvaluator(eval, polynomial.NewEvaluator(params, eval), mp).EvaluateNew(ct)
	if err != nil {
		return h.Failf("C18:mod1:EvaluateNew:error", "%v", err)
	}
	if out.Level() != lit.LevelQ-depth {
		return h.Failf("C18:mod1:level", "output level %d, LevelQ %d - Depth() %d = %d", out.Level(), lit.LevelQ, depth, lit.LevelQ-depth)
	}
	have := make([]float64, n)
	if err := ecd.Decode(dec.DecryptNew(out), have); err != nil {
		return h.Failf("C18:harness:decode", "%v", err)
	}
	// (a) the scaled-sine model of the repository test; (b) x mod 1 itself
	model := make([]complex128, n)
	ideal := make([]complex128, n)
	got := make([]complex128, n)
	worstModelErr := 0.0
	for i := range vals {
		x := vals[i] / (mp.MessageRatio() * mp.QDiff)
		y := math.Sin(2 * math.Pi * x)
		if c.Inv > 0 {
			y = math.Asin(y)
		}
		y *= mp.MessageRatio() * mp.QDiff / (2 * math.Pi)
		model[i] = complex(y, 0)
		ideal[i] = complex(frac[i], 0)
		got[i] = complex(have[i], 0)
		worstModelErr = math.Max(worstModelErr, math.Abs(y-frac[i]))
	}
	// The repository's mod1 test asserts ckks.VerifyTestVectors(..., params.LogDefaultScale(), ...) = 45-(LogN+2) = 33 bits at
	// its LogN = 10. For smaller rings the formula would demand more, but the error is dominated by the polynomial
	// approximation, not by the ring degree: the LogN = 10 value is kept, minus 2 bits because the mean is taken over as few
	// as 32 slots here.
	floor := float64(params.LogDefaultScale()-(maxInt(c.LogN, 10)+2)) - 2
	pa := precision(model, got)
	rec.Note("prec", fmt.Sprintf("model avg %.1f min %.1f floor %.1f", pa.avgRe, pa.minRe, floor))
	if pa.avgRe < floor {
		return h.Failf("C18:mod1:precision:sine-model", "mean precision %.2f bits < %.2f bits against (q/2pi) sin(2pi x/q)%s", pa.avgRe, floor, map[bool]string{true: " with arcsine", false: ""}[c.Inv > 0])
	}
	// x mod 1: every slot within the model's own analytic distance from the message plus the worst-slot allowance
	tol := worstModelErr + math.Exp2(-(floor - 0.5*float64(params.LogMaxSlots()) - 3))
	for i := range got {
		if e := math.Abs(have[i] - frac[i]); e > tol || math.IsNaN(e) {
			return h.Failf("C18:mod1:x-mod-1", "slot %d: input %.6f*q%+.6f, output %.9f, |error| %.3g > %.3g", i, math.Round(vals[i]/q), frac[i], have[i], e, tol)
		}
	}
	rec.NonTrivial(fmt.Sprintf("%s/k%d/deg%d/dbl%d/inv%d/r%d/logN%d/ext%v", c.Type, c.K, c.Deg, c.Dbl, c.Inv, c.LogRatio, c.LogN, c.Extreme))
	return nil
}

var propMod1 = h.NewProp("TestPropMod1", h.Budget{Quick: 96, Thorough: 960}, genMod1Case, runMod1)

func TestPropMod1(t *testing.T) { propMod1.Check(t) }
