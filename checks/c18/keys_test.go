package c18

import (
	"fmt"
	"math/big"
	"sort"
	"testing"

	"verif/internal/h"

	"github.com/tuneinsight/lattigo/v6/circuits/ckks/bootstrapping"
	"github.com/tuneinsight/lattigo/v6/core/rlwe"
	"github.com/tuneinsight/lattigo/v6/ring"
	"github.com/tuneinsight/lattigo/v6/ring/ringqp"
	"pgregory.net/rapid"
)

// ---------------------------------------------------------------------------------------------------------------
// TestPropKeyConfinement: pure structural oracle on GenEvaluationKeys (no bootstrapping is evaluated).
// ---------------------------------------------------------------------------------------------------------------

type KeyCase struct {
	Cfg  Cfg    `json:"cfg"`
	Seed uint64 `json:"seed"`
}

func (c KeyCase) RandSeed() uint64 { return c.Seed }

func genKeyCase(t *rapid.T) KeyCase {
	maxLogN := 9
	if h.Thorough() {
		maxLogN = 10
	}
	return KeyCase{Cfg: genCfg(t, genOpts{minLogN: 5, maxLogN: maxLogN}), Seed: rapid.Uint64().Draw(t, "seed")}
}

var propKeys = h.NewProp("TestPropKeyConfinement", h.Budget{Quick: 320, Thorough: 3200}, genKeyCase, runKeyCase)

func TestPropKeyConfinement(t *testing.T) { propKeys.Check(t) }

// small-coefficient view of a secret -----------------------------------------------------------------------------

func center(v, q uint64) int64 {
	if v > q>>1 {
		return -int64(q - v)
	}
	return int64(v)
}

// smallCoeffs returns the centered coefficients of an NTT+Montgomery polynomial limb.
func limbCoeffs(r *ring.Ring, limb int, p ring.Poly) []int64 {
	s := r.SubRings[limb]
	tmp := make([]uint64, r.N())
	s.INTT(p.Coeffs[limb], tmp)
	s.IMForm(tmp, tmp)
	out := make([]int64, len(tmp))
	for i, v := range tmp {
		out[i] = center(v, s.Modulus)
	}
	return out
}

// secretCoeffs extracts the small integer coefficients of a secret key and checks that every Q and P limb represents
// the same small polynomial (ternary).
func secretCoeffs(rqp ringqp.Ring, sk *rlwe.SecretKey, what string) ([]int64, error) {
	ref := limbCoeffs(rqp.RingQ, 0, sk.Value.Q)
	for _, v := range ref {
		if v < -1 || v > 1 {
			return nil, h.Failf("C18:keys:"+what+":not-ternary", "coefficient %d", v)
		}
	}
	for l := 1; l <= sk.Value.Q.Level(); l++ {
		if !eqI64(ref, limbCoeffs(rqp.RingQ, l, sk.Value.Q)) {
			return nil, h.Failf("C18:keys:"+what+":limbs-disagree", "Q limb %d does not hold the same small polynomial as limb 0", l)
		}
	}
	if rqp.RingP != nil {
		for l := 0; l <= sk.Value.P.Level(); l++ {
			if !eqI64(ref, limbCoeffs(rqp.RingP, l, sk.Value.P)) {
				return nil, h.Failf("C18:keys:"+what+":limbs-disagree", "P limb %d does not hold the same small polynomial as Q limb 0", l)
			}
		}
	}
	return ref, nil
}

func eqI64(a, b []int64) bool {
	if len(a) != len(b) {
		return false
	}
	for i := range a {
		if a[i] != b[i] {
			return false
		}
	}
	return true
}

func weight(a []int64) (w int) {
	for _, v := range a {
		if v != 0 {
			w++
		}
	}
	return
}

// embed maps a polynomial of degree n to degree N via Y = X^(N/n).
func embed(a []int64, N int) []int64 {
	out := make([]int64, N)
	gap := N / len(a)
	for i, v := range a {
		out[i*gap] = v
	}
	return out
}

// unfoldCI maps a conjugate-invariant polynomial of degree n to the standard ring of degree 2n: a_j X^j - a_j X^(2n-j).
func unfoldCI(a []int64) []int64 {
	n := len(a)
	out := make([]int64, 2*n)
	out[0] = a[0]
	for j := 1; j < n; j++ {
		out[j] = a[j]
		out[2*n-j] = -a[j]
	}
	return out
}

// automorph computes a(X^g) mod X^N+1 on integer coefficients.
func automorph(a []int64, g uint64) []int64 {
	n := uint64(len(a))
	mask := 2*n - 1
	out := make([]int64, n)
	for i := uint64(0); i < n; i++ {
		k := (i * (g & mask)) & mask
		v := a[i]
		if k >= n {
			k -= n
			v = -v
		}
		out[k] = v
	}
	return out
}

// negacyclicSq returns a*a mod X^N+1 over the integers.
func negacyclicMul(a, b []int64) []int64 {
	n := len(a)
	out := make([]int64, n)
	for i, x := range a {
		if x == 0 {
			continue
		}
		for j, y := range b {
			if y == 0 {
				continue
			}
			k := i + j
			if k >= n {
				out[k-n] -= x * y
			} else {
				out[k] += x * y
			}
		}
	}
	return out
}

func modI64(v int64, q uint64) uint64 {
	m := v % int64(q)
	if m < 0 {
		m += int64(q)
	}
	return uint64(m)
}

// toLimbNTTMont lifts small integer coefficients into one NTT+Montgomery limb.
func toLimbNTTMont(s *ring.SubRing, a []int64) []uint64 {
	out := make([]uint64, len(a))
	for i, v := range a {
		out[i] = modI64(v, s.Modulus)
	}
	s.NTT(out, out)
	s.MForm(out, out)
	return out
}

func mulmod(a, b, q uint64) uint64 {
	return new(big.Int).Mod(new(big.Int).Mul(new(big.Int).SetUint64(a), new(big.Int).SetUint64(b)), new(big.Int).SetUint64(q)).Uint64()
}

func invmod(a, q uint64) uint64 {
	return new(big.Int).ModInverse(new(big.Int).SetUint64(a%q), new(big.Int).SetUint64(q)).Uint64()
}

// gadgetRow decrypts row i of a gadget ciphertext under skOut (small coefficients, ring degree = key degree) limb by
// limb. It returns, per Q limb (up to maxQ) and per P limb, the centered... raw residues of c0 + c1*skOut.
type rowDec struct {
	q [][]uint64 // [limb][coeff] residues mod q_limb (non-Montgomery, coefficient domain)
	p [][]uint64
}

func decryptRow(rqp ringqp.Ring, evk *rlwe.EvaluationKey, i int, skOut []int64, maxQ int) rowDec {
	c0 := evk.Value[i][0][0]
	c1 := evk.Value[i][0][1]
	var d rowDec
	n := len(skOut)
	do := func(s *ring.SubRing, a0, a1 []uint64) []uint64 {
		sk := toLimbNTTMont(s, skOut)
		tmp := make([]uint64, n)
		s.MulCoeffsMontgomery(a1, sk, tmp)
		s.Add(tmp, a0, tmp)
		s.INTT(tmp, tmp)
		s.IMForm(tmp, tmp)
		return tmp
	}
	for l := 0; l <= c0.Q.Level() && l <= maxQ; l++ {
		d.q = append(d.q, do(rqp.RingQ.SubRings[l], c0.Q.Coeffs[l], c1.Q.Coeffs[l]))
	}
	for l := 0; l <= c0.P.Level(); l++ {
		d.p = append(d.p, do(rqp.RingP.SubRings[l], c0.P.Coeffs[l], c1.P.Coeffs[l]))
	}
	return d
}

// verifyEvk checks EXACTLY that evk is the RNS gadget encryption, under skOut, of P*skIn with an error polynomial
// bounded by errBound: for every row i, c0+c1*skOut = e_i on every P limb and on the Q limbs outside digit i, and
// e_i + P*skIn on the Q limbs of digit i. Only Q limbs <= maxQ are inspected (keys towards a smaller residual ring are
// only defined on the residual limbs). A key encrypted under any other secret fails with overwhelming probability.
func verifyEvk(rqp ringqp.Ring, evk *rlwe.EvaluationKey, skIn, skOut []int64, errBound int64, maxQ int) error {
	if evk.BaseTwoDecomposition != 0 {
		return fmt.Errorf("unexpected base-two decomposition %d", evk.BaseTwoDecomposition)
	}
	lp := evk.LevelP()
	if lp < 0 {
		return fmt.Errorf("key without P limbs")
	}
	if maxQ > evk.LevelQ() {
		maxQ = evk.LevelQ()
	}
	N := len(skOut)
	if len(skIn) != N || evk.Value[0][0][0].Q.N() != N {
		return fmt.Errorf("degree mismatch: key %d skIn %d skOut %d", evk.Value[0][0][0].Q.N(), len(skIn), N)
	}
	// P = product of the key's P primes, reduced modulo each inspected Q limb
	pmod := make([]uint64, maxQ+1)
	for l := range pmod {
		q := rqp.RingQ.SubRings[l].Modulus
		v := uint64(1)
		for k := 0; k <= lp; k++ {
			v = mulmod(v, rqp.RingP.SubRings[k].Modulus%q, q)
		}
		pmod[l] = v
	}
	for i := range evk.Value {
		if len(evk.Value[i]) != 1 {
			return fmt.Errorf("row %d has %d base-two entries", i, len(evk.Value[i]))
		}
		d := decryptRow(rqp, evk, i, skOut, maxQ)
		e := make([]int64, N)
		for j := range e {
			e[j] = center(d.p[0][j], rqp.RingP.SubRings[0].Modulus)
			if e[j] > errBound || e[j] < -errBound {
				return fmt.Errorf("row %d coeff %d: |error| = %d > %d on P limb 0 (not an encryption under the expected secret)", i, j, e[j], errBound)
			}
		}
		for l := 1; l < len(d.p); l++ {
			pl := rqp.RingP.SubRings[l].Modulus
			for j := range e {
				if center(d.p[l][j], pl) != e[j] {
					return fmt.Errorf("row %d coeff %d: P limb %d decrypts to %d, P limb 0 to %d", i, j, l, center(d.p[l][j], pl), e[j])
				}
			}
		}
		for l := range d.q {
			q := rqp.RingQ.SubRings[l].Modulus
			inDigit := l >= i*(lp+1) && l < (i+1)*(lp+1)
			for j := range e {
				want := modI64(e[j], q)
				if inDigit {
					want = (want + mulmod(pmod[l], modI64(skIn[j], q), q)) % q
				}
				if d.q[l][j] != want {
					return fmt.Errorf("row %d Q limb %d coeff %d: decrypts to %d, expected %d (digit limb: %v)", i, l, j, d.q[l][j], want, inDigit)
				}
			}
		}
	}
	return nil
}

// recoverInput decrypts row 0 of evk under skOut and returns the small polynomial it encrypts (times P).
func recoverInput(rqp ringqp.Ring, evk *rlwe.EvaluationKey, skOut []int64) ([]int64, error) {
	lp := evk.LevelP()
	if lp < 0 {
		return nil, fmt.Errorf("key without P limbs")
	}
	d := decryptRow(rqp, evk, 0, skOut, 0)
	q := rqp.RingQ.SubRings[0].Modulus
	pm := uint64(1)
	for k := 0; k <= lp; k++ {
		pm = mulmod(pm, rqp.RingP.SubRings[k].Modulus%q, q)
	}
	pinv := invmod(pm, q)
	out := make([]int64, len(skOut))
	for j := range out {
		e := center(d.p[0][j], rqp.RingP.SubRings[0].Modulus)
		v := (d.q[0][j] + q - modI64(e, q)) % q
		out[j] = center(mulmod(v, pinv, q), q)
	}
	return out, nil
}

func gaussBound(p rlwe.Parameters) int64 {
	if g, ok := p.Xe().(ring.DiscreteGaussian); ok {
		return int64(g.Bound)
	}
	return 19
}

func sortedU64(m map[uint64]bool) []uint64 {
	out := make([]uint64, 0, len(m))
	for k := range m {
		out = append(out, k)
	}
	sort.Slice(out, func(i, j int) bool { return out[i] < out[j] })
	return out
}

// checkKeys is the structural oracle, shared with the functional property.
func checkKeys(c Cfg, b built, skN1 *rlwe.SecretKey, evk *bootstrapping.EvaluationKeys, skN2 *rlwe.SecretKey, rec *h.Rec) error {
	p2 := b.btp.BootstrappingParameters
	p1 := b.btp.ResidualParameters
	rqp2 := *p2.RingQP()
	eb := gaussBound(p2.Parameters)
	N2 := p2.N()
	resLvl := p1.MaxLevel()

	s1, err := secretCoeffs(ringqp.Ring{RingQ: p1.RingQ(), RingP: nil}, &rlwe.SecretKey{Value: ringqp.Poly{Q: skN1.Value.Q}}, "skN1")
	if err != nil {
		return err
	}
	if skN2 == nil || skN2.Value.Q.Level() != p2.MaxLevel() || skN2.Value.P.Level() != p2.MaxLevelP() {
		return h.Failf("C18:keys:skN2:level", "returned bootstrapping secret is nil or not at the full QP level")
	}
	s2, err := secretCoeffs(rqp2, skN2, "skN2")
	if err != nil {
		return err
	}

	// ring switching keys present exactly when needed
	has := func(k *rlwe.EvaluationKey) bool { return k != nil }
	wantN := c.Res == "small"
	wantCI := c.Res == "ci"
	if has(evk.EvkN1ToN2) != wantN || has(evk.EvkN2ToN1) != wantN {
		return h.Failf("C18:keys:ring-degree-keys:presence", "EvkN1ToN2 present=%v EvkN2ToN1 present=%v, residual ring %s", has(evk.EvkN1ToN2), has(evk.EvkN2ToN1), c.Res)
	}
	if has(evk.EvkRealToCmplx) != wantCI || has(evk.EvkCmplxToReal) != wantCI {
		return h.Failf("C18:keys:ring-type-keys:presence", "EvkRealToCmplx present=%v EvkCmplxToReal present=%v, residual ring %s", has(evk.EvkRealToCmplx), has(evk.EvkCmplxToReal), c.Res)
	}
	switch c.Res {
	case "eq":
		// same secret extended to the full modulus
		if !eqI64(s1, s2) {
			return h.Failf("C18:keys:skN2:not-extension-of-skN1", "N1 == N2 but the bootstrapping secret differs from the residual secret")
		}
	case "small":
		if err := verifyEvk(rqp2, evk.EvkN1ToN2, embed(s1, N2), s2, eb, p2.MaxLevel()); err != nil {
			return h.Failf("C18:keys:EvkN1ToN2:relation", "%v", err)
		}
		if err := verifyEvk(rqp2, evk.EvkN2ToN1, s2, embed(s1, N2), eb, resLvl); err != nil {
			return h.Failf("C18:keys:EvkN2ToN1:relation", "%v", err)
		}
	case "ci":
		u := unfoldCI(s1)
		if err := verifyEvk(rqp2, evk.EvkRealToCmplx, u, s2, eb, resLvl); err != nil {
			return h.Failf("C18:keys:EvkRealToCmplx:relation", "%v", err)
		}
		if err := verifyEvk(rqp2, evk.EvkCmplxToReal, s2, u, eb, resLvl); err != nil {
			return h.Failf("C18:keys:EvkCmplxToReal:relation", "%v", err)
		}
	}

	// --- encapsulation keys: confinement -------------------------------------------------------------------------
	if (evk.EvkDenseToSparse != nil) != (c.Eph > 0) || (evk.EvkSparseToDense != nil) != (c.Eph > 0) {
		return h.Failf("C18:keys:encapsulation:presence", "EphemeralSecretWeight=%d but EvkDenseToSparse present=%v, EvkSparseToDense present=%v", c.Eph, evk.EvkDenseToSparse != nil, evk.EvkSparseToDense != nil)
	}
	if c.Eph > 0 {
		d2s, s2d := evk.EvkDenseToSparse, evk.EvkSparseToDense
		// the key encrypted under the sparse secret lives at Q[:1], P[:1] only
		if d2s.LevelQ() != 0 || d2s.LevelP() != 0 {
			return h.Failf("C18:keys:EvkDenseToSparse:level", "LevelQ=%d LevelP=%d, must be 0/0 (key material protected only by the weight-%d secret)", d2s.LevelQ(), d2s.LevelP(), c.Eph)
		}
		for i := range d2s.Value {
			for j := range d2s.Value[i] {
				for k, pol := range d2s.Value[i][j] {
					if len(pol.Q.Coeffs) != 1 || len(pol.P.Coeffs) != 1 {
						return h.Failf("C18:keys:EvkDenseToSparse:limbs", "component [%d][%d][%d] has %d Q limbs and %d P limbs, expected 1 and 1", i, j, k, len(pol.Q.Coeffs), len(pol.P.Coeffs))
					}
				}
			}
		}
		if len(d2s.Value) != 1 {
			return h.Failf("C18:keys:EvkDenseToSparse:limbs", "%d RNS rows, expected 1", len(d2s.Value))
		}
		if s2d.LevelQ() != p2.MaxLevel() || s2d.LevelP() != p2.MaxLevelP() {
			return h.Failf("C18:keys:EvkSparseToDense:level", "LevelQ=%d LevelP=%d, ModUp uses it at the full level %d/%d", s2d.LevelQ(), s2d.LevelP(), p2.MaxLevel(), p2.MaxLevelP())
		}
		// the sparse secret is not returned: recover it from SparseToDense (decrypts under the dense secret)
		sp, err := recoverInput(rqp2, s2d, s2)
		if err != nil {
			return h.Failf("C18:keys:EvkSparseToDense:relation", "%v", err)
		}
		for _, v := range sp {
			if v < -1 || v > 1 {
				return h.Failf("C18:keys:EvkSparseToDense:relation", "does not decrypt under the dense secret to a ternary polynomial (coefficient %d)", v)
			}
		}
		if w := weight(sp); w != c.Eph {
			return h.Failf("C18:keys:ephemeral-secret:weight", "ephemeral secret has Hamming weight %d, literal says %d", w, c.Eph)
		}
		if err := verifyEvk(rqp2, s2d, sp, s2, eb, p2.MaxLevel()); err != nil {
			return h.Failf("C18:keys:EvkSparseToDense:relation", "%v", err)
		}
		if err := verifyEvk(rqp2.AtLevel(0, 0), d2s, s2, sp, eb, 0); err != nil {
			return h.Failf("C18:keys:EvkDenseToSparse:relation", "%v", err)
		}
		rec.Classf("ephW=%d", c.Eph)
	}

	// --- relinearisation and Galois keys: exactly the needed set, all under the dense secret ------------------------
	if evk.MemEvaluationKeySet == nil || evk.RelinearizationKey == nil {
		return h.Failf("C18:keys:rlk:missing", "no relinearization key")
	}
	if err := verifyEvk(rqp2, &evk.RelinearizationKey.EvaluationKey, negacyclicMul(s2, s2), s2, eb, p2.MaxLevel()); err != nil {
		return h.Failf("C18:keys:rlk:relation", "%v", err)
	}
	want := map[uint64]bool{}
	for _, g := range b.btp.GaloisElements(p2) {
		want[g] = true
	}
	want[p2.GaloisElementForComplexConjugation()] = true
	// independent recomputation of the needed set: trace rotations + conjugation + the rotations of both DFT literals
	indep := map[uint64]bool{p2.GaloisElementForComplexConjugation(): true}
	for i := c.LogSlots; i < c.LogN-1; i++ {
		indep[p2.GaloisElement(1<<i)] = true
	}
	for _, g := range b.btp.CoeffsToSlotsParameters.GaloisElements(p2) {
		indep[g] = true
	}
	for _, g := range b.btp.SlotsToCoeffsParameters.GaloisElements(p2) {
		indep[g] = true
	}
	have := map[uint64]bool{}
	for g := range evk.GaloisKeys {
		have[g] = true
	}
	if fmt.Sprint(sortedU64(want)) != fmt.Sprint(sortedU64(indep)) {
		return h.Failf("C18:keys:GaloisElements:definition", "Parameters.GaloisElements = %v, trace+conjugation+DFT elements = %v", sortedU64(want), sortedU64(indep))
	}
	for g := range want {
		if !have[g] {
			return h.Failf("C18:keys:galois:missing", "Galois key %d needed by the circuit is not generated (generated: %v)", g, sortedU64(have))
		}
	}
	for g := range have {
		if !want[g] {
			return h.Failf("C18:keys:galois:superfluous", "Galois key %d generated but not in GaloisElements(params)+conjugation", g)
		}
	}
	nth := uint64(2 * N2)
	for _, g := range sortedU64(have) {
		gk := evk.GaloisKeys[g]
		if gk.GaloisElement != g {
			return h.Failf("C18:keys:galois:label", "key stored under %d carries Galois element %d", g, gk.GaloisElement)
		}
		ginv := ring.ModExp(g, nth-1, nth)
		if (ginv*g)&(nth-1) != 1 {
			return h.Failf("C18:harness:galois-inverse", "g=%d ginv=%d", g, ginv)
		}
		if err := verifyEvk(rqp2, &gk.EvaluationKey, s2, automorph(s2, ginv), eb, p2.MaxLevel()); err != nil {
			return h.Failf("C18:keys:galois:relation", "galEl %d: %v", g, err)
		}
	}
	rec.Classf("galoisKeys<=%d", (len(have)+9)/10*10)
	return nil
}

func runKeyCase(c KeyCase, rec *h.Rec) error {
	b, err := c.Cfg.build()
	if err != nil {
		return h.Failf("C18:params:rejected", "%v", err)
	}
	rec.Classf("base=%s", c.Cfg.Base)
	rec.Classf("res=%s", c.Cfg.Res)
	rec.Classf("logN=%d", c.Cfg.LogN)
	if c.Cfg.Eph == 0 {
		rec.Class("noeph")
	}
	skN1 := rlwe.NewKeyGenerator(b.res).GenSecretKeyNew()
	evk, skN2, err := b.btp.GenEvaluationKeys(skN1)
	if err != nil {
		return h.Failf("C18:keys:GenEvaluationKeys:error", "%v", err)
	}
	if err := checkKeys(c.Cfg, b, skN1, evk, skN2, rec); err != nil {
		return err
	}
	// the evaluator accepts exactly this key set
	if _, err := bootstrapping.NewEvaluator(b.btp, evk); err != nil {
		return h.Failf("C18:keys:NewEvaluator:rejects-generated-keys", "%v", err)
	}
	// non-trivial: anything that is not the single configuration of the repository test (T45/eq, default options, eph 32)
	if c.Cfg.optionClass() != (Cfg{Base: "T45", Res: "eq", Eph: 32, H1: 192, K: -1, Mod1Deg: -1, DblAngle: -1, InvDeg: -1, EvalScale: -1}).optionClass() || c.Cfg.LogSlots != c.Cfg.LogN-1 {
		rec.NonTrivial(fmt.Sprintf("%s/logN%d/slots-%d/nq%d/eph%d", c.Cfg.optionClass(), c.Cfg.LogN, c.Cfg.LogN-1-c.Cfg.LogSlots, c.Cfg.NQ, c.Cfg.Eph))
	}
	return nil
}
