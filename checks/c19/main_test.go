package c19

import (
	"math"
	"testing"

	"verif/internal/h"
)

func TestMain(m *testing.M) { h.Main(m, "C19") }

func TestReplay(t *testing.T) { h.ReplayAll(t) }

func log2(x float64) float64 { return math.Log2(x) }

func TestPropLiteral(t *testing.T) { propLiteral.Check(t) }

func TestPropExported(t *testing.T) { propExported.Check(t) }

func TestPropGenModuli(t *testing.T) { propGenModuli.Check(t) }

func TestPropBootLiteral(t *testing.T) { propBoot.Check(t) }

func TestPropRingCtor(t *testing.T) { propRingCtor.Check(t) }
