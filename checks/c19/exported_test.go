package c19

import (
	"encoding/json"
	"fmt"
	"go/ast"
	"go/parser"
	"go/token"
	"math"
	"os"
	"path/filepath"
	"reflect"
	"regexp"
	"sort"
	"strconv"
	"strings"
	"sync"
	"sync/atomic"

	"verif/internal/h"

	"github.com/tuneinsight/lattigo/v6/circuits/ckks/bootstrapping"
	"github.com/tuneinsight/lattigo/v6/core/rlwe"
	"github.com/tuneinsight/lattigo/v6/examples"
	"github.com/tuneinsight/lattigo/v6/ring"
	"github.com/tuneinsight/lattigo/v6/schemes/bgv"
	"github.com/tuneinsight/lattigo/v6/schemes/ckks"
	"github.com/tuneinsight/lattigo/v6/utils"
	"pgregory.net/rapid"
)

// ---------------------------------------------------------------------------------------------------------------
// 128-bit table (log2(QP) upper bounds), with the source of every entry.

type secEntry struct {
	Bound  int    `json:"max_logQP"`
	Source string `json:"source"`
}

const srcHES = "HomomorphicEncryption.org Security Standard v1.1 (2018), Table 1: uniform ternary secret, classical, 128-bit; the values for logN=12..15 are repeated in lattigo schemes/ckks/README.md 'Choosing secure parameters'"

// securityTable[class][logN]; class "dense" = ternary secret with density >= 1/2 (P >= 0.5 or H >= N/2), "h192" = H = 192.
var securityTable = map[string]map[int]secEntry{
	"dense": {
		10: {27, srcHES}, 11: {54, srcHES}, 12: {109, srcHES}, 13: {218, srcHES}, 14: {438, srcHES}, 15: {881, srcHES},
		16: {1793, "no HE-standard entry for N=2^16; largest modulus lattigo documents as 128-bit secure for a dense ternary secret at logN=16: circuits/ckks/bootstrapping/default_parameters.go N16QP1793H32768H32 (parameters of eprint 2022/024); examples/params.go claims 1761"},
	},
	"h192": {
		15: {768, "largest modulus lattigo documents as 128-bit secure for H=192 at logN=15: bootstrapping default N15QP768H192H32 (eprint 2022/024)"},
		16: {1553, "largest modulus lattigo documents as 128-bit secure for H=192 at logN=16: bootstrapping default N16QP1553H192H32 (eprint 2022/024)"},
	},
}

func secretClass(xs ring.DistributionParameters, logN int) string {
	if xs == nil {
		return "dense" // rlwe.DefaultXs = Ternary{P: 2/3}
	}
	switch d := xs.(type) {
	case ring.Ternary:
		n := 1 << uint(logN)
		switch {
		case d.H == 192:
			return "h192"
		case d.H >= n/2, d.H == 0 && d.P >= 0.5:
			return "dense"
		}
		return fmt.Sprintf("ternary(H=%d,P=%.3f)", d.H, d.P)
	case ring.DiscreteGaussian:
		return "dense" // an error-distributed secret is at least as hard as uniform ternary
	}
	return "unknown"
}

// ---------------------------------------------------------------------------------------------------------------
// registry of exported literals (Go cannot enumerate package variables; the go/parser audit below compares the source
// files with this list)

type expEntry struct {
	Name string // package-qualified variable name
	Dir  string // directory relative to the lattigo root
	rl   *rlwe.ParametersLiteral
	bg   *bgv.ParametersLiteral
	ck   *ckks.ParametersLiteral
	btp  *bootstrapping.ParametersLiteral // with ck = SchemeParams
}

func expRegistry() []expEntry {
	b := func(name string, sp ckks.ParametersLiteral, bp bootstrapping.ParametersLiteral) expEntry {
		return expEntry{Name: "bootstrapping." + name, Dir: "circuits/ckks/bootstrapping", ck: &sp, btp: &bp}
	}
	eb := func(name string, l bgv.ParametersLiteral) expEntry {
		return expEntry{Name: "examples." + name, Dir: "examples", bg: &l}
	}
	ec := func(name string, l ckks.ParametersLiteral) expEntry {
		return expEntry{Name: "examples." + name, Dir: "examples", ck: &l}
	}
	return []expEntry{
		{Name: "rlwe.ExampleParametersLogN14LogQP438", Dir: "core/rlwe", rl: &rlwe.ExampleParametersLogN14LogQP438},
		{Name: "bgv.ExampleParameters128BitLogN14LogQP438", Dir: "schemes/bgv", bg: &bgv.ExampleParameters128BitLogN14LogQP438},
		{Name: "ckks.ExampleParameters128BitLogN14LogQP438", Dir: "schemes/ckks", ck: &ckks.ExampleParameters128BitLogN14LogQP438},
		b("N16QP1546H192H32", bootstrapping.N16QP1546H192H32.SchemeParams, bootstrapping.N16QP1546H192H32.BootstrappingParams),
		b("N16QP1547H192H32", bootstrapping.N16QP1547H192H32.SchemeParams, bootstrapping.N16QP1547H192H32.BootstrappingParams),
		b("N16QP1553H192H32", bootstrapping.N16QP1553H192H32.SchemeParams, bootstrapping.N16QP1553H192H32.BootstrappingParams),
		b("N15QP768H192H32", bootstrapping.N15QP768H192H32.SchemeParams, bootstrapping.N15QP768H192H32.BootstrappingParams),
		b("N16QP1767H32768H32", bootstrapping.N16QP1767H32768H32.SchemeParams, bootstrapping.N16QP1767H32768H32.BootstrappingParams),
		b("N16QP1788H32768H32", bootstrapping.N16QP1788H32768H32.SchemeParams, bootstrapping.N16QP1788H32768H32.BootstrappingParams),
		b("N16QP1793H32768H32", bootstrapping.N16QP1793H32768H32.SchemeParams, bootstrapping.N16QP1793H32768H32.BootstrappingParams),
		b("N15QP880H16384H32", bootstrapping.N15QP880H16384H32.SchemeParams, bootstrapping.N15QP880H16384H32.BootstrappingParams),
		eb("BGVParamsN12QP109", examples.BGVParamsN12QP109), eb("BGVParamsN13QP218", examples.BGVParamsN13QP218),
		eb("BGVParamsN14QP438", examples.BGVParamsN14QP438), eb("BGVParamsN15QP880", examples.BGVParamsN15QP880),
		eb("BGVScaleInvariantParamsN12QP109", examples.BGVScaleInvariantParamsN12QP109), eb("BGVScaleInvariantParamsN13QP218", examples.BGVScaleInvariantParamsN13QP218),
		eb("BGVScaleInvariantParamsN14QP438", examples.BGVScaleInvariantParamsN14QP438), eb("BGVScaleInvariantParamsN15QP880", examples.BGVScaleInvariantParamsN15QP880),
		ec("CKKSComplexParamsN12QP109", examples.CKKSComplexParamsN12QP109), ec("CKKSComplexParamsN13QP218", examples.CKKSComplexParamsN13QP218),
		ec("CKKSComplexParamsN14QP438", examples.CKKSComplexParamsN14QP438), ec("CKKSComplexParamsN15QP881", examples.CKKSComplexParamsN15QP881),
		ec("CKKSComplexParamsPN16QP1761", examples.CKKSComplexParamsPN16QP1761),
		ec("CKKSRealParamsN12QP109", examples.CKKSRealParamsN12QP109), ec("CKKSRealParamsN13QP218", examples.CKKSRealParamsN13QP218),
		ec("CKKSRealParamsN14QP438", examples.CKKSRealParamsN14QP438), ec("CKKSRealParamsN15QP881", examples.CKKSRealParamsN15QP881),
		ec("CKKSRealParamsPN16QP1761", examples.CKKSRealParamsPN16QP1761),
	}
}

// exported slices of literals: every element must be one of the registered sets.
func expSlices() map[string][]any {
	out := map[string][]any{}
	for _, l := range examples.BGVParams {
		out["examples.BGVParams"] = append(out["examples.BGVParams"], l)
	}
	for _, l := range examples.BGVScaleInvariantParams {
		out["examples.BGVScaleInvariantParams"] = append(out["examples.BGVScaleInvariantParams"], l)
	}
	for _, l := range examples.CKKSComplexParams {
		out["examples.CKKSComplexParams"] = append(out["examples.CKKSComplexParams"], l)
	}
	for _, l := range examples.CKKSRealParams {
		out["examples.CKKSRealParams"] = append(out["examples.CKKSRealParams"], l)
	}
	for _, l := range bootstrapping.DefaultParametersSparse {
		out["bootstrapping.DefaultParametersSparse"] = append(out["bootstrapping.DefaultParametersSparse"], [2]any{l.SchemeParams, l.BootstrappingParams})
	}
	for _, l := range bootstrapping.DefaultParametersDense {
		out["bootstrapping.DefaultParametersDense"] = append(out["bootstrapping.DefaultParametersDense"], [2]any{l.SchemeParams, l.BootstrappingParams})
	}
	return out
}

func (e expEntry) value() any {
	switch {
	case e.rl != nil:
		return *e.rl
	case e.bg != nil:
		return *e.bg
	case e.btp != nil:
		return [2]any{*e.ck, *e.btp}
	}
	return *e.ck
}

// ---------------------------------------------------------------------------------------------------------------
// go/parser audit of the source files

type srcVar struct {
	Name string
	Doc  string
	Kind string // "literal" | "slice"
}

var (
	auditOnce sync.Once
	auditVars map[string]srcVar
	auditErr  error
)

func repoRoot() string {
	if r := os.Getenv("VERIF_REPO"); r != "" {
		return r
	}
	return "/repo"
}

var expDirs = map[string]string{
	"core/rlwe": "rlwe", "schemes/bgv": "bgv", "schemes/ckks": "ckks", "circuits/ckks/bootstrapping": "bootstrapping", "examples": "examples",
}

func isLiteralType(e ast.Expr) (lit, slice bool) {
	switch t := e.(type) {
	case *ast.Ident:
		return t.Name == "ParametersLiteral" || t.Name == "defaultParametersLiteral", false
	case *ast.SelectorExpr:
		return t.Sel.Name == "ParametersLiteral", false
	case *ast.ArrayType:
		l, _ := isLiteralType(t.Elt)
		return false, l
	}
	return false, false
}

// audit parses the non-test files of the five packages and returns the exported package-level variables whose value is
// a (slice of) parameter literal(s), with their doc comments.
func audit() (map[string]srcVar, error) {
	auditOnce.Do(func() {
		auditVars = map[string]srcVar{}
		fset := token.NewFileSet()
		for dir, pkg := range expDirs {
			files, err := filepath.Glob(filepath.Join(repoRoot(), dir, "*.go"))
			if err != nil {
				auditErr = err
				return
			}
			for _, file := range files {
				if strings.HasSuffix(file, "_test.go") {
					continue
				}
				f, err := parser.ParseFile(fset, file, nil, parser.ParseComments)
				if err != nil {
					auditErr = err
					return
				}
				for _, d := range f.Decls {
					gd, ok := d.(*ast.GenDecl)
					if !ok || gd.Tok != token.VAR {
						continue
					}
					for _, s := range gd.Specs {
						vs := s.(*ast.ValueSpec)
						for i, name := range vs.Names {
							if !name.IsExported() || i >= len(vs.Values) {
								continue
							}
							cl, ok := vs.Values[i].(*ast.CompositeLit)
							if !ok || cl.Type == nil {
								continue
							}
							lit, slice := isLiteralType(cl.Type)
							if !lit && !slice {
								continue
							}
							doc := ""
							if vs.Doc != nil {
								doc = vs.Doc.Text()
							} else if gd.Doc != nil && len(gd.Specs) == 1 {
								doc = gd.Doc.Text()
							}
							kind := "literal"
							if slice {
								kind = "slice"
							}
							auditVars[pkg+"."+name.Name] = srcVar{Name: pkg + "." + name.Name, Doc: doc, Kind: kind}
						}
					}
				}
			}
		}
	})
	return auditVars, auditErr
}

// ---------------------------------------------------------------------------------------------------------------

// ExpCase names one exported set.
type ExpCase struct {
	Name    string `json:"name"`
	ViaJSON bool   `json:"viaJSON"` // build the scheme literal through its JSON form
}

var (
	expCounter   atomic.Int64
	expFailedIdx atomic.Int64
	expReg       = expRegistry()
)

func init() { expFailedIdx.Store(-1) }

func envInt(name string, def int) int {
	if v, err := strconv.Atoi(os.Getenv(name)); err == nil {
		return v
	}
	return def
}

// genExported enumerates: the first cases of a process sweep this shard's slice of the registry in order (so that
// the shards together cover every exported set whatever the seed), the remaining ones are drawn.
func genExported(t *rapid.T) ExpCase {
	n := len(expReg)
	i := rapid.IntRange(0, n-1).Draw(t, "idx")
	via := rapid.Bool().Draw(t, "viaJSON")
	k := int(expCounter.Add(1) - 1)
	shard, nsh := envInt("VERIF_SHARD", 0), envInt("VERIF_NSHARDS", 1)
	if f := expFailedIdx.Load(); f >= 0 {
		i = int(f) // keep shrinking on the failing set
	} else if j := shard + k*nsh; j < n {
		i = j
	}
	return ExpCase{Name: expReg[i].Name, ViaJSON: via}
}

var (
	reQP   = regexp.MustCompile(`QP(\d+)`)
	reDocQ = regexp.MustCompile(`(?i)logQP\s*=?\s*(\d+)`)
	reN    = regexp.MustCompile(`(?:LogN|PN|N)(\d\d)`)
	reH    = regexp.MustCompile(`H(\d+)H(\d+)$`)
)

func runExported(c ExpCase, rec *h.Rec) error {
	idx := -1
	for i := range expReg {
		if expReg[i].Name == c.Name {
			idx = i
		}
	}
	if idx < 0 {
		return h.Failf("C19:exported:unknown-name", "no exported set named %q in the registry", c.Name)
	}
	err := runExportedEntry(expReg[idx], c, rec)
	if err != nil {
		if f, ok := err.(*h.Failure); !ok || !h.IsKnown(f.Key) {
			expFailedIdx.Store(int64(idx))
		}
	}
	return err
}

func toLitCase(scheme string, logN, logNthRoot int, Q, P []uint64, logQ, logP []int, rt ring.Type, t uint64, logScale int, ntt bool) LitCase {
	return LitCase{Scheme: scheme, LogN: logN, LogNthRoot: logNthRoot, Q: Q, P: P, LogQ: logQ, LogP: logP, CI: rt == ring.ConjugateInvariant,
		NTT: ntt, T: t, LogScale: logScale, Seed: 19, Mut: "exported"}
}

func runExportedEntry(e expEntry, c ExpCase, rec *h.Rec) error {
	short := e.Name[strings.Index(e.Name, ".")+1:]
	rec.Class("pkg=" + e.Name[:strings.Index(e.Name, ".")])

	// --- source audit: registry == exported literals found by go/parser
	vars, err := audit()
	if err != nil {
		return h.Failf("C19:exported:audit-parse", "cannot parse the lattigo sources at %s: %v", repoRoot(), err)
	}
	var unknown []string
	known := map[string]bool{}
	for _, r := range expReg {
		known[r.Name] = true
	}
	slices := expSlices()
	for name, v := range vars {
		if v.Kind == "literal" && !known[name] {
			unknown = append(unknown, name)
		}
		if v.Kind == "slice" {
			if _, ok := slices[name]; !ok {
				unknown = append(unknown, name)
			}
		}
	}
	sort.Strings(unknown)
	h.SetExtra("TestPropExported", "exhaustive", true)
	h.SetExtra("TestPropExported", "registry_size", len(expReg))
	h.SetExtra("TestPropExported", "source_literals_found", len(vars))
	h.SetExtra("TestPropExported", "unknown_source_literals", unknown)
	h.SetExtra("TestPropExported", "security_table", securityTable)
	if len(unknown) > 0 {
		rec.Classf("warning=unregistered-literals:%d", len(unknown))
	}
	sv, inSrc := vars[e.Name]
	if !inSrc {
		return h.Failf("C19:exported:audit-missing", "%s is in the registry but was not found as an exported literal in %s/%s", e.Name, repoRoot(), e.Dir)
	}
	// every element of an exported slice is a registered set
	for sname, elems := range slices {
		for i, el := range elems {
			found := false
			for _, r := range expReg {
				if reflect.DeepEqual(r.value(), el) {
					found = true
				}
			}
			if !found {
				return h.Failf("C19:exported:slice-element-unregistered", "%s[%d] is not equal to any named exported set", sname, i)
			}
		}
	}

	// --- construct
	var (
		p      rlwe.Parameters
		b      built
		lc     LitCase
		xs     ring.DistributionParameters
		scheme string
	)
	viaJSON := func(in, out any) error {
		js, e := json.Marshal(in)
		if e != nil {
			return e
		}
		return json.Unmarshal(js, out)
	}
	switch {
	case e.rl != nil:
		scheme = "rlwe"
		lit := *e.rl
		if c.ViaJSON {
			var l2 rlwe.ParametersLiteral
			if err := viaJSON(lit, &l2); err != nil {
				return h.Failf("C19:exported:json:"+short, "JSON form of the literal: %v", err)
			}
			lit = l2
		}
		pp, err := rlwe.NewParametersFromLiteral(lit)
		if err != nil {
			return h.Failf("C19:exported:does-not-construct:"+short, "%s: %v", e.Name, err)
		}
		p, b, xs = pp, built{rl: pp}, lit.Xs
		lc = toLitCase("rlwe", lit.LogN, lit.LogNthRoot, lit.Q, lit.P, lit.LogQ, lit.LogP, lit.RingType, 0, 0, lit.NTTFlag)
	case e.bg != nil:
		scheme = "bgv"
		lit := *e.bg
		if c.ViaJSON {
			var l2 bgv.ParametersLiteral
			if err := viaJSON(lit, &l2); err != nil {
				return h.Failf("C19:exported:json:"+short, "JSON form of the literal: %v", err)
			}
			lit = l2
		}
		pp, err := bgv.NewParametersFromLiteral(lit)
		if err != nil {
			return h.Failf("C19:exported:does-not-construct:"+short, "%s: %v", e.Name, err)
		}
		p, b, xs = pp.Parameters, built{rl: pp.Parameters, bg: &pp}, lit.Xs
		lc = toLitCase("bgv", lit.LogN, lit.LogNthRoot, lit.Q, lit.P, lit.LogQ, lit.LogP, ring.Standard, lit.PlaintextModulus, 0, true)
	default:
		scheme = "ckks"
		lit := *e.ck
		if c.ViaJSON {
			var l2 ckks.ParametersLiteral
			if err := viaJSON(lit, &l2); err != nil {
				return h.Failf("C19:exported:json:"+short, "JSON form of the literal: %v", err)
			}
			lit = l2
		}
		pp, err := ckks.NewParametersFromLiteral(lit)
		if err != nil {
			return h.Failf("C19:exported:does-not-construct:"+short, "%s: %v", e.Name, err)
		}
		p, b, xs = pp.Parameters, built{rl: pp.Parameters, ck: &pp}, lit.Xs
		lc = toLitCase("ckks", lit.LogN, lit.LogNthRoot, lit.Q, lit.P, lit.LogQ, lit.LogP, lit.RingType, 0, lit.LogDefaultScale, true)
	}
	lc.ViaJSON = c.ViaJSON
	rec.Classf("logN=%d", p.LogN())

	// --- claims encoded in the name / doc comment
	claim := 0
	if m := reQP.FindStringSubmatch(short); m != nil {
		claim, _ = strconv.Atoi(m[1])
	}
	for _, m := range reDocQ.FindAllStringSubmatch(sv.Doc, -1) {
		if v, _ := strconv.Atoi(m[1]); v > claim {
			claim = v
		}
	}
	if m := reN.FindStringSubmatch(short); m != nil {
		if v, _ := strconv.Atoi(m[1]); v != p.LogN() {
			return h.Failf("C19:exported:name-logN:"+short, "%s has LogN=%d", e.Name, p.LogN())
		}
	}
	class := secretClass(xs, p.LogN())
	rec.Class("secret=" + class)
	noteOnly := false // set for a variant of the shipped literal built by the check itself: observations, no verdict
	checkQP := func(what string, pp rlwe.Parameters, cls string) error {
		lq := log2Big(pp.QPBigInt())
		if noteOnly {
			tab := securityTable[cls][pp.LogN()]
			rec.Classf("note=%s:variant-with-LogN-set:log2QP=%.0f:name-claims=%d:table=%d", short, lq, claim, tab.Bound)
			return nil
		}
		if claim > 0 && lq > float64(claim)+0.5 {
			key := "C19:exported:logQP-above-own-name:" + short
			msg := fmt.Sprintf("%s (%s): log2(QP) = %.2f (Q: %d primes %.1f bits, P: %d primes %.1f bits) exceeds the %d its name/doc comment claims", e.Name, what, lq, pp.QCount(), pp.LogQ(), pp.PCount(), pp.LogP(), claim)
			if !rec.Known(key, msg) {
				return h.Failf(key, "%s", msg)
			}
			rec.Class("known=" + key)
		}
		tab, ok := securityTable[cls][pp.LogN()]
		if !ok {
			return h.Failf("C19:exported:no-table-entry:"+short, "%s (%s): no 128-bit table entry for logN=%d secret class %s", e.Name, what, pp.LogN(), cls)
		}
		if lq > float64(tab.Bound)+0.5 {
			key := "C19:exported:logQP-above-128bit-table:" + short
			msg := fmt.Sprintf("%s (%s): log2(QP) = %.2f exceeds the 128-bit bound %d for logN=%d, %s secret [%s]", e.Name, what, lq, tab.Bound, pp.LogN(), cls, tab.Source)
			if !rec.Known(key, msg) {
				return h.Failf(key, "%s", msg)
			}
			rec.Class("known=" + key)
		}
		rec.Note(what+"_log2QP", math.Round(lq*100)/100)
		return nil
	}
	if err := checkQP("scheme parameters", p, class); err != nil {
		return err
	}

	// --- derived quantities, structure, encodings
	if err := structural(lc, p, rec); err != nil {
		return err
	}
	if err := accessors(lc, b, rec); err != nil {
		return err
	}
	if _, err := serial(lc, b, rec); err != nil {
		return err
	}

	// --- bootstrapping: the circuit's own parameters (the modulus keys are generated for)
	if e.btp != nil {
		btpLit := *e.btp
		bp, err := bootstrapping.NewParametersFromLiteral(*b.ck, btpLit)
		if err != nil {
			key := "C19:exported:bootstrapping-default-does-not-construct:" + short
			msg := fmt.Sprintf("bootstrapping.NewParametersFromLiteral(%s.SchemeParams, %s.BootstrappingParams): %v", e.Name, e.Name, err)
			if !rec.Known(key, msg) {
				return h.Failf(key, "%s", msg)
			}
			rec.Class("known=" + key)
			// continue with the ring degree the name states (observations only: this is no longer the shipped literal)
			noteOnly = true
			btpLit.LogN = utils.Pointy(p.LogN())
			if bp, err = bootstrapping.NewParametersFromLiteral(*b.ck, btpLit); err != nil {
				return h.Failf("C19:exported:bootstrapping-does-not-construct-with-LogN:"+short, "even with LogN=%d: %v", p.LogN(), err)
			}
		}
		if m := reH.FindStringSubmatch(short); m != nil {
			hs, _ := strconv.Atoi(m[1])
			he, _ := strconv.Atoi(m[2])
			if t, ok := xs.(ring.Ternary); !ok || t.H != hs {
				return h.Failf("C19:exported:name-H:"+short, "%s: secret distribution %v does not have the Hamming weight %d of its name", e.Name, xs, hs)
			}
			if bp.EphemeralSecretWeight != he {
				return h.Failf("C19:exported:name-ephemeral-H:"+short, "%s: ephemeral secret weight %d, name says %d", e.Name, bp.EphemeralSecretWeight, he)
			}
		}
		bparams := bp.BootstrappingParameters
		// keys for the bootstrapping modulus are generated under the residual secret
		if err := checkQP("bootstrapping parameters", bparams.Parameters, class); err != nil {
			return err
		}
		// the residual moduli are a prefix of the bootstrapping moduli, all distinct, prime, = 1 mod 2N
		rq, bq := p.Q(), bparams.Q()
		for i := range rq {
			if i >= len(bq) || bq[i] != rq[i] {
				return h.Failf("C19:exported:bootstrapping-Q-prefix:"+short, "residual Q is not a prefix of the bootstrapping Q")
			}
		}
		blc := toLitCase("ckks", bparams.LogN(), 0, bparams.Q(), bparams.P(), nil, nil, bparams.RingType(), 0, bparams.LogDefaultScale(), true)
		bb := built{rl: bparams.Parameters, ck: &bparams}
		if err := structural(blc, bparams.Parameters, rec); err != nil {
			return err
		}
		if err := accessors(blc, bb, rec); err != nil {
			return err
		}
		// arithmetic on the primes the constructor generated: round trip in the circuit's own rings, and NTT products against
		// the schoolbook product in a small ring over the same moduli (they are 1 mod 2^(LogN+1), hence NTT friendly for N=128)
		if e := ringSmokeOpt(bparams.RingQ(), "BootQ", 19, rec, false); e != nil {
			return e
		}
		if e := ringSmokeOpt(bparams.RingP(), "BootP", 20, rec, false); e != nil {
			return e
		}
		small, err := ring.NewRing(128, bparams.QP())
		if err != nil {
			return h.Failf("C19:exported:bootstrapping-moduli-small-ring:"+short, "ring.NewRing(128, bootstrapping QP): %v", err)
		}
		if e := ringSmoke(small, "BootQP", 21, rec); e != nil {
			return e
		}
		var bp2 bootstrapping.Parameters
		bin, err := bp.MarshalBinary()
		if err != nil {
			return h.Failf("C19:exported:bootstrapping-marshal:"+short, "%v", err)
		}
		if err := bp2.UnmarshalBinary(bin); err != nil {
			return h.Failf("C19:exported:bootstrapping-unmarshal:"+short, "UnmarshalBinary(MarshalBinary(p)): %v", err)
		}
		if !bp.Equal(&bp2) {
			return h.Failf("C19:exported:bootstrapping-encoding-not-equal:"+short, "bootstrapping.Parameters do not survive MarshalBinary/UnmarshalBinary as an Equal object")
		}
		if d, w := bp.Depth(), bparams.MaxLevel()-p.MaxLevel(); d != w {
			// Depth() = levels consumed by the circuit = number of bootstrapping primes appended
			rec.Classf("note=depth-%d-vs-appended-primes-%d", d, w)
		}
	}
	rec.NonTrivial(fmt.Sprintf("%s|json=%v", e.Name, c.ViaJSON))
	_ = scheme
	return nil
}

var propExported = h.NewProp("TestPropExported", h.Budget{Quick: 72, Thorough: 480}, genExported, runExported)
