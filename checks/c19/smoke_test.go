package c19

import (
	"fmt"
	"math"
	"math/big"
	"math/bits"

	"verif/internal/h"

	"github.com/tuneinsight/lattigo/v6/core/rlwe"
	"github.com/tuneinsight/lattigo/v6/ring"
	"github.com/tuneinsight/lattigo/v6/schemes/bgv"
	"github.com/tuneinsight/lattigo/v6/schemes/ckks"
)

// ---------------------------------------------------------------------------------------------------------------
// independent modular arithmetic (math/bits only)

func mulmod(a, b, q uint64) uint64 {
	hi, lo := bits.Mul64(a%q, b%q)
	_, r := bits.Div64(hi, lo, q)
	return r
}

func addmod(a, b, q uint64) uint64 {
	s, c := bits.Add64(a%q, b%q, 0)
	if c != 0 || s >= q {
		s -= q
	}
	return s
}

func submod(a, b, q uint64) uint64 { return addmod(a, q-b%q, q) }

func powmod(a, e, q uint64) uint64 {
	r := uint64(1) % q
	a %= q
	for e > 0 {
		if e&1 == 1 {
			r = mulmod(r, a, q)
		}
		a = mulmod(a, a, q)
		e >>= 1
	}
	return r
}

// negacyclic schoolbook product mod q in Z_q[X]/(X^n+1).
func negacyclic(a, b []uint64, q uint64) []uint64 {
	n := len(a)
	out := make([]uint64, n)
	for i := 0; i < n; i++ {
		if a[i]%q == 0 {
			continue
		}
		for j := 0; j < n; j++ {
			p := mulmod(a[i], b[j], q)
			k := i + j
			if k >= n {
				out[k-n] = submod(out[k-n], p, q)
			} else {
				out[k] = addmod(out[k], p, q)
			}
		}
	}
	return out
}

// ciUnfold maps a conjugate-invariant polynomial (n coefficients) to the standard ring of degree 2n modulo q
// (a_j -> a_j X^j - a_j X^{2n-j}), the embedding lattigo's own ring tests use.
func ciUnfold(a []uint64, q uint64) []uint64 {
	n := len(a)
	out := make([]uint64, 2*n)
	out[0] = a[0] % q
	for j := 1; j < n; j++ {
		out[j] = a[j] % q
		out[2*n-j] = submod(0, a[j], q)
	}
	return out
}

func ciFold(a []uint64, q uint64) ([]uint64, bool) {
	n := len(a) / 2
	if a[n]%q != 0 {
		return nil, false
	}
	for j := 1; j < n; j++ {
		if addmod(a[j], a[2*n-j], q) != 0 {
			return nil, false
		}
	}
	return append([]uint64(nil), a[:n]...), true
}

func sizeClass(q uint64) string {
	b := bits.Len64(q)
	switch {
	case b <= 8:
		return "2-8"
	case b <= 16:
		return "9-16"
	case b <= 40:
		return "17-40"
	case b <= 59:
		return "41-59"
	case b <= 61:
		return "60-61"
	default:
		return fmt.Sprintf("%d", b)
	}
}

// ---------------------------------------------------------------------------------------------------------------
// ring smoke: NTT round trip and NTT-domain product against the schoolbook product, per modulus, on extreme vectors.

// ringKey names a ring-arithmetic failure: one key per (ring, bit length) for accepted moduli of 62 bits or more
// (whatever sub-check trips first), otherwise per sub-check and size class.
func ringKey(which, kind string, q uint64) string {
	if b := bits.Len64(q); b >= 62 {
		return fmt.Sprintf("C19:accepted:oversize-modulus:ring%s:bits=%d:arithmetic-wrong", which, b)
	}
	return fmt.Sprintf("C19:smoke:ring%s:%s:bits=%s", which, kind, sizeClass(q))
}

var smokePatterns = []string{"max", "alt", "uniform"}

func fillPat(pat string, q uint64, n int, rng *h.SplitMix) []uint64 {
	out := make([]uint64, n)
	for i := range out {
		switch pat {
		case "max":
			out[i] = q - 1
		case "alt":
			if i&1 == 1 {
				out[i] = q - 1
			} else {
				out[i] = q >> 1
			}
		default:
			out[i] = rng.Uint64() % q
		}
	}
	return out
}

// ringSmoke checks one *ring.Ring (all of its moduli). which = "Q", "P", "T", "QMul".
func ringSmoke(r *ring.Ring, which string, seed uint64, rec *h.Rec) error {
	return ringSmokeOpt(r, which, seed, rec, true)
}

// ringSmokeOpt: product = false checks the round trip only.
func ringSmokeOpt(r *ring.Ring, which string, seed uint64, rec *h.Rec, product bool) error {
	if r == nil {
		return nil
	}
	n := r.N()
	ci := r.Type() == ring.ConjugateInvariant
	rng := h.NewSplitMix(seed ^ 0xabcdef)
	for _, pat := range smokePatterns {
		a, b := r.NewPoly(), r.NewPoly()
		for i, s := range r.SubRings {
			copy(a.Coeffs[i], fillPat(pat, s.Modulus, n, rng))
			copy(b.Coeffs[i], fillPat("uniform", s.Modulus, n, rng))
			if pat == "max" {
				copy(b.Coeffs[i], fillPat("max", s.Modulus, n, rng))
			}
		}
		// round trip
		x := r.NewPoly()
		r.NTT(a, x)
		r.INTT(x, x)
		for i, s := range r.SubRings {
			for j := 0; j < n; j++ {
				if x.Coeffs[i][j] != a.Coeffs[i][j] {
					return h.Failf(ringKey(which, "ntt-roundtrip", s.Modulus),
						"INTT(NTT(a)) != a for modulus %d (%d bits), N=%d ci=%v pattern=%s: coefficient %d is %d, want %d",
						s.Modulus, bits.Len64(s.Modulus), n, ci, pat, j, x.Coeffs[i][j], a.Coeffs[i][j])
				}
			}
		}
		if n > 256 || !product {
			continue
		}
		// product through the NTT (Barrett and Montgomery kernels)
		na, nb, prodB, prodM := r.NewPoly(), r.NewPoly(), r.NewPoly(), r.NewPoly()
		r.NTT(a, na)
		r.NTT(b, nb)
		r.MulCoeffsBarrett(na, nb, prodB)
		r.INTT(prodB, prodB)
		r.MForm(na, na)
		r.MulCoeffsMontgomery(na, nb, prodM)
		r.INTT(prodM, prodM)
		for i, s := range r.SubRings {
			q := s.Modulus
			var want []uint64
			if ci {
				w, ok := ciFold(negacyclic(ciUnfold(a.Coeffs[i], q), ciUnfold(b.Coeffs[i], q), q), q)
				if !ok {
					return h.Failf("C19:harness:ci-fold", "reference product is not conjugate invariant")
				}
				want = w
			} else {
				want = negacyclic(a.Coeffs[i], b.Coeffs[i], q)
			}
			for j := 0; j < n; j++ {
				if prodB.Coeffs[i][j] != want[j] {
					return h.Failf(ringKey(which, "ntt-product-barrett", q),
						"INTT(NTT(a)*NTT(b)) differs from the schoolbook product for modulus %d (%d bits), N=%d ci=%v pattern=%s at %d: %d want %d",
						q, bits.Len64(q), n, ci, pat, j, prodB.Coeffs[i][j], want[j])
				}
				if prodM.Coeffs[i][j] != want[j] {
					return h.Failf(ringKey(which, "ntt-product-montgomery", q),
						"INTT(MForm(NTT(a))*NTT(b)) differs from the schoolbook product for modulus %d (%d bits), N=%d ci=%v pattern=%s at %d: %d want %d",
						q, bits.Len64(q), n, ci, pat, j, prodM.Coeffs[i][j], want[j])
				}
			}
		}
	}
	return nil
}

// ---------------------------------------------------------------------------------------------------------------
// noise bounds (hard worst case, generous)

func absBound(d ring.DistributionParameters) float64 {
	switch d := d.(type) {
	case ring.DiscreteGaussian:
		return math.Floor(d.Bound + 0.5)
	case ring.Ternary:
		return 1
	}
	return math.Inf(1)
}

// freshBound is a worst-case bound on the infinity norm of the noise of a fresh sk- or pk-encryption of zero
// (no modular wrap assumed): pk without P: e_pk*u + e0 + e1*s; with P the same divided by P plus rounding.
func freshBound(p rlwe.Parameters) float64 {
	n := float64(2 * p.N()) // 2N covers the conjugate-invariant ring (products live in degree 2N)
	be, bs := absBound(p.Xe()), absBound(p.Xs())
	return be*(2*n*bs+1) + 4*(n*bs+1)
}

func log2Big(x *big.Int) float64 {
	if x.Sign() <= 0 {
		return math.Inf(-1)
	}
	f := new(big.Float).SetInt(x)
	m := new(big.Float)
	e := f.MantExp(m)
	mf, _ := m.Float64()
	return float64(e) + math.Log2(mf)
}

// centredNorm returns max |x_j| of the polynomial p (coefficient domain, level of r) lifted to (-Q/2, Q/2]
// with the harness CRT (independent of lattigo).
func centredNorm(r *ring.Ring, p ring.Poly) *big.Int {
	lvl := r.Level()
	qs := r.ModuliChain()[:lvl+1]
	vals := h.VecCenter(h.CRT(p.Coeffs[:lvl+1], qs), h.ProdU(qs))
	return h.InfNorm(vals)
}

// rlweSmoke: encrypt a plaintext polynomial with sk and with pk at the top level and at level 0, decrypt, and compare
// dec - pt with the worst-case fresh noise bound. Asserted only when 8*bound < Q_level/2.
func rlweSmoke(p rlwe.Parameters, seed uint64, rec *h.Rec) (asserted bool, err error) {
	kgen := rlwe.NewKeyGenerator(p)
	sk, pk := kgen.GenKeyPairNew()
	dec := rlwe.NewDecryptor(p, sk)
	bound := freshBound(p)
	rng := h.NewSplitMix(seed ^ 0x5151)
	levels := []int{p.MaxLevel()}
	if p.MaxLevel() > 0 {
		levels = append(levels, 0)
	}
	for _, lvl := range levels {
		rq := p.RingQ().AtLevel(lvl)
		logQ := log2Big(rq.Modulus())
		discriminates := math.Log2(bound)+3 < logQ-1
		for _, mode := range []string{"sk", "pk"} {
			var enc *rlwe.Encryptor
			if mode == "sk" {
				enc = rlwe.NewEncryptor(p, sk)
			} else {
				enc = rlwe.NewEncryptor(p, pk)
			}
			pt := rlwe.NewPlaintext(p, lvl)
			// message: uniform polynomial modulo Q_level (coefficient domain), then moved to the plaintext's domain
			for i, s := range rq.SubRings[:lvl+1] {
				for j := range pt.Value.Coeffs[i] {
					pt.Value.Coeffs[i][j] = rng.Uint64() % s.Modulus
				}
			}
			want := *pt.Value.CopyNew()
			if pt.IsNTT {
				rq.NTT(pt.Value, pt.Value)
			}
			ct, e := enc.EncryptNew(pt)
			if e != nil {
				return asserted, h.Failf("C19:smoke:rlwe:encrypt-error:"+mode, "EncryptNew failed on accepted parameters: %v", e)
			}
			got := dec.DecryptNew(ct)
			if got.IsNTT {
				rq.INTT(got.Value, got.Value)
			}
			diff := rq.NewPoly()
			rq.Sub(got.Value, want, diff)
			nrm := centredNorm(rq, diff)
			if discriminates {
				asserted = true
				if log2Big(nrm) > math.Log2(bound) {
					return asserted, h.Failf("C19:smoke:rlwe:decrypt:"+mode,
						"decrypt(encrypt_%s(m)) - m has norm 2^%.1f > worst-case fresh noise 2^%.1f (level %d, log2 Q_level = %.1f)",
						mode, log2Big(nrm), math.Log2(bound), lvl, logQ)
				}
			}
		}
	}
	return asserted, nil
}

// ---------------------------------------------------------------------------------------------------------------
// BGV smoke: encode/decode exact; encrypt/decrypt; one relinearised multiplication.

func bgvSmoke(p bgv.Parameters, seed uint64, rec *h.Rec) (level string, err error) {
	t := p.PlaintextModulus()
	ecd := bgv.NewEncoder(p)
	rng := h.NewSplitMix(seed ^ 0xb6b6)
	slots := p.MaxSlots()
	mk := func(kind int) []uint64 {
		v := make([]uint64, slots)
		for i := range v {
			switch kind {
			case 0:
				v[i] = t - 1
			default:
				v[i] = rng.Uint64() % t
			}
		}
		return v
	}
	level = "encode"
	for kind := 0; kind < 2; kind++ {
		v := mk(kind)
		for _, lvl := range []int{p.MaxLevel(), 0} {
			pt := bgv.NewPlaintext(p, lvl)
			if e := ecd.Encode(v, pt); e != nil {
				return level, h.Failf("C19:smoke:bgv:encode-error", "Encode failed on accepted parameters: %v", e)
			}
			got := make([]uint64, slots)
			if e := ecd.Decode(pt, got); e != nil {
				return level, h.Failf("C19:smoke:bgv:decode-error", "Decode failed on accepted parameters: %v", e)
			}
			for i := range v {
				if got[i] != v[i] {
					key := "C19:smoke:bgv:encode-decode"
					if ql := p.RingQ().AtLevel(lvl).Modulus(); new(big.Int).Rsh(ql, 1).Cmp(new(big.Int).SetUint64(t)) < 0 {
						// the decoder centres modulo Q_level before reducing modulo t: needs t <= Q_level/2
						key += ":t-above-half-Q_level"
						msg := fmt.Sprintf("Decode(Encode(v))[%d] = %d, want %d (t=%d > Q_level/2, Q_level=%v, level %d)", i, got[i], v[i], t, ql, lvl)
						if rec.Known(key, msg) {
							rec.Class("known=" + key)
							return "encode(known:t>Q/2)", nil
						}
						return level, h.Failf(key, "%s", msg)
					}
					return level, h.Failf(key, "Decode(Encode(v))[%d] = %d, want %d (t=%d, level %d, slots %d)", i, got[i], v[i], t, lvl, slots)
				}
			}
		}
	}

	// noise budget: decryption is correct when t*(|e|+1) < Q/2
	fresh := freshBound(p.Parameters)
	logT := math.Log2(float64(t))
	logQ0 := math.Log2(float64(p.Q()[0]))
	logQ := p.LogQ()
	if logT+math.Log2(fresh+1)+3 >= logQ0-1 {
		return level, nil
	}
	level = "encrypt"
	kgen := rlwe.NewKeyGenerator(p)
	sk, pk := kgen.GenKeyPairNew()
	dec := rlwe.NewDecryptor(p, sk)
	v1, v2 := mk(1), mk(0)
	var cts [2]*rlwe.Ciphertext
	for k, mode := range []string{"sk", "pk"} {
		var enc *rlwe.Encryptor
		if mode == "sk" {
			enc = rlwe.NewEncryptor(p, sk)
		} else {
			enc = rlwe.NewEncryptor(p, pk)
		}
		for _, lvl := range []int{0, p.MaxLevel()} {
			v := v1
			if k == 1 {
				v = v2
			}
			pt := bgv.NewPlaintext(p, lvl)
			if e := ecd.Encode(v, pt); e != nil {
				return level, h.Failf("C19:smoke:bgv:encode-error", "Encode failed: %v", e)
			}
			ct, e := enc.EncryptNew(pt)
			if e != nil {
				return level, h.Failf("C19:smoke:bgv:encrypt-error:"+mode, "EncryptNew failed on accepted parameters: %v", e)
			}
			got := make([]uint64, slots)
			if e := ecd.Decode(dec.DecryptNew(ct), got); e != nil {
				return level, h.Failf("C19:smoke:bgv:decode-error", "Decode failed: %v", e)
			}
			for i := range v {
				if got[i] != v[i] {
					return level, h.Failf("C19:smoke:bgv:decrypt:"+mode, "Decode(Decrypt(Encrypt_%s(v)))[%d] = %d, want %d (t=%d level=%d log2Q0=%.1f worst-case noise 2^%.1f)", mode, i, got[i], v[i], t, lvl, logQ0, math.Log2(fresh))
				}
			}
			cts[k] = ct
		}
	}

	// one relinearised multiplication at the top level. Worst-case phase: N*(t*(E+1))^2 for the tensor plus the
	// key-switch term t*(beta*N*alpha*maxDigit*Be/P + rounding); needs a P at least as large as every digit.
	if p.PCount() == 0 {
		return level, nil
	}
	n := float64(2 * p.N())
	tensor := math.Log2(n) + 2*(logT+math.Log2(fresh+1))
	alpha := p.PCount()
	beta := (p.QCount() + alpha - 1) / alpha
	maxDigit := 0.0
	for i := 0; i < p.QCount(); i += alpha {
		d := 0.0
		for j := i; j < i+alpha && j < p.QCount(); j++ {
			d += math.Log2(float64(p.Q()[j]))
		}
		if d > maxDigit {
			maxDigit = d
		}
	}
	ks := logT + math.Log2(float64(beta)*n*float64(alpha+1)*absBound(p.Xe())) + maxDigit - p.LogP()
	rnd := logT + math.Log2(float64(alpha+2)*(n*absBound(p.Xs())+1))
	worst := math.Max(tensor, math.Max(ks, rnd)) + 2 // sum of three terms
	if worst+3 >= logQ-1 {
		return level, nil
	}
	level = "mul"
	rlk := kgen.GenRelinearizationKeyNew(sk)
	eval := bgv.NewEvaluator(p, rlwe.NewMemEvaluationKeySet(rlk))
	prod, e := eval.MulRelinNew(cts[0], cts[1])
	if e != nil {
		return level, h.Failf("C19:smoke:bgv:mulrelin-error", "MulRelinNew failed on accepted parameters: %v", e)
	}
	got := make([]uint64, slots)
	if e := ecd.Decode(dec.DecryptNew(prod), got); e != nil {
		return level, h.Failf("C19:smoke:bgv:decode-error", "Decode failed: %v", e)
	}
	for i := range got {
		if w := mulmod(v1[i], v2[i], t); got[i] != w {
			return level, h.Failf("C19:smoke:bgv:mulrelin", "slot %d of Dec(MulRelin(Enc(a),Enc(b))) = %d, want a*b mod t = %d (t=%d, log2Q=%.1f, log2P=%.1f, worst-case phase 2^%.1f)", i, got[i], w, t, logQ, p.LogP(), worst)
		}
	}

	// the same product with the scale-invariant (BFV) tensoring, which extends the basis by RingQMul.
	// noise ~ t*N*(E1+E2)*(N*|s|+2) plus the key-switch terms; asserted only with 10 bits to spare.
	bfv := logT + math.Log2(n) + math.Log2(fresh+1) + math.Log2(n*absBound(p.Xs())+2) + 3
	if math.Max(bfv, math.Max(ks, rnd))+12 >= logQ {
		return level, nil
	}
	level = "mul+bfv"
	evalBFV := bgv.NewEvaluator(p, rlwe.NewMemEvaluationKeySet(rlk), true)
	prod, e = evalBFV.MulRelinNew(cts[0], cts[1])
	if e != nil {
		return level, h.Failf("C19:smoke:bfv:mulrelin-error", "scale-invariant MulRelinNew failed on accepted parameters: %v", e)
	}
	if e := ecd.Decode(dec.DecryptNew(prod), got); e != nil {
		return level, h.Failf("C19:smoke:bgv:decode-error", "Decode failed: %v", e)
	}
	for i := range got {
		if w := mulmod(v1[i], v2[i], t); got[i] != w {
			key := "C19:smoke:bfv:mulrelin"
			shared := uint64(0)
			for _, q := range p.Q() {
				for _, qm := range p.RingQMul().ModuliChain() {
					if q == qm {
						shared = q
					}
				}
			}
			if shared != 0 {
				key += ":Q-shares-prime-with-RingQMul"
				msg := fmt.Sprintf("scale-invariant MulRelin: slot %d = %d, want %d; Q=%v and the auxiliary basis RingQMul=%v share the prime %d", i, got[i], w, p.Q(), p.RingQMul().ModuliChain(), shared)
				if rec.Known(key, msg) {
					rec.Class("known=" + key)
					return "mul+bfv(known)", nil
				}
				return level, h.Failf(key, "%s", msg)
			}
			return level, h.Failf(key, "slot %d of Dec(MulRelin_scaleInvariant(Enc(a),Enc(b))) = %d, want a*b mod t = %d (t=%d, log2Q=%.1f, log2P=%.1f)", i, got[i], w, t, logQ, p.LogP())
		}
	}
	return level, nil
}

// ---------------------------------------------------------------------------------------------------------------
// CKKS smoke: encode/decode and encrypt/decrypt within the precision the scale and the noise bound imply.

func ckksSmoke(p ckks.Parameters, seed uint64, rec *h.Rec) (level string, err error) {
	logScale := p.DefaultScale().Log2()
	logQ0 := math.Log2(float64(p.Q()[0]))
	n := float64(2 * p.N())
	// values in [-1,1]: |coefficients| <= scale*slots... keep message + noise below Q0/4
	if logScale < 12 || logScale > 100 || logScale+math.Log2(n)+2 >= logQ0-1 {
		return "none", nil
	}
	ecd := ckks.NewEncoder(p)
	rng := h.NewSplitMix(seed ^ 0xc4c4)
	slots := p.MaxSlots()
	vals := make([]complex128, slots)
	for i := range vals {
		re, im := 2*rng.Float64()-1, 2*rng.Float64()-1
		if p.RingType() == ring.ConjugateInvariant {
			im = 0
		}
		vals[i] = complex(re, im) / complex(math.Sqrt2, 0)
	}
	vals[0] = complex(1/math.Sqrt2, 0)
	check := func(pt *rlwe.Plaintext, tol float64, key, what string) error {
		got := make([]complex128, slots)
		if e := ecd.Decode(pt, got); e != nil {
			return h.Failf("C19:smoke:ckks:decode-error", "Decode failed on accepted parameters: %v", e)
		}
		for i := range got {
			d := got[i] - vals[i]
			if a := math.Hypot(real(d), imag(d)); !(a <= tol) {
				return h.Failf(key, "%s: slot %d differs by %.3g > tolerance %.3g (log2 scale %.1f, log2 Q0 %.1f, N=%d)", what, i, a, tol, logScale, logQ0, p.N())
			}
		}
		return nil
	}
	level = "encode"
	// rounding of each of the N coefficients by <= 1/2 (+ float error of the FFT, relative 2^-40 generously)
	encTol := n/math.Exp2(logScale) + math.Exp2(-38)
	for _, lvl := range []int{p.MaxLevel(), 0} {
		pt := ckks.NewPlaintext(p, lvl)
		if e := ecd.Encode(vals, pt); e != nil {
			return level, h.Failf("C19:smoke:ckks:encode-error", "Encode failed on accepted parameters: %v", e)
		}
		if e := check(pt, encTol, "C19:smoke:ckks:encode-decode", fmt.Sprintf("Decode(Encode(v)) at level %d", lvl)); e != nil {
			return level, e
		}
	}
	fresh := freshBound(p.Parameters)
	if math.Log2(fresh)+3 >= logQ0-2 || math.Log2(fresh)+math.Log2(n) > logScale-4 {
		return level, nil
	}
	level = "encrypt"
	kgen := rlwe.NewKeyGenerator(p)
	sk, pk := kgen.GenKeyPairNew()
	dec := rlwe.NewDecryptor(p, sk)
	tol := (fresh+1)*n/math.Exp2(logScale) + math.Exp2(-38)
	for _, mode := range []string{"sk", "pk"} {
		var enc *rlwe.Encryptor
		if mode == "sk" {
			enc = rlwe.NewEncryptor(p, sk)
		} else {
			enc = rlwe.NewEncryptor(p, pk)
		}
		for _, lvl := range []int{p.MaxLevel(), 0} {
			pt := ckks.NewPlaintext(p, lvl)
			if e := ecd.Encode(vals, pt); e != nil {
				return level, h.Failf("C19:smoke:ckks:encode-error", "Encode failed: %v", e)
			}
			ct, e := enc.EncryptNew(pt)
			if e != nil {
				return level, h.Failf("C19:smoke:ckks:encrypt-error:"+mode, "EncryptNew failed on accepted parameters: %v", e)
			}
			if e := check(dec.DecryptNew(ct), tol, "C19:smoke:ckks:decrypt:"+mode, fmt.Sprintf("Decode(Decrypt(Encrypt_%s(v))) at level %d", mode, lvl)); e != nil {
				return level, e
			}
		}
	}
	return level, nil
}
