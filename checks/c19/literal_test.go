package c19

import (
	"encoding/json"
	"fmt"
	"math"
	"math/big"
	"math/bits"
	"strings"

	"verif/internal/h"

	"github.com/tuneinsight/lattigo/v6/core/rlwe"
	"github.com/tuneinsight/lattigo/v6/ring"
	"github.com/tuneinsight/lattigo/v6/schemes/bgv"
	"github.com/tuneinsight/lattigo/v6/schemes/ckks"
	"pgregory.net/rapid"
)

// LitCase is a plain-data parameter literal for one of the three schemes. nil slices mean "field not set".
type LitCase struct {
	Scheme     string     `json:"scheme"` // rlwe | bgv | ckks
	LogN       int        `json:"logN"`
	LogNthRoot int        `json:"logNthRoot"`
	Q          []uint64   `json:"Q"`
	P          []uint64   `json:"P"`
	LogQ       []int      `json:"logQ"`
	LogP       []int      `json:"logP"`
	CI         bool       `json:"ci"`
	NTT        bool       `json:"ntt"`      // rlwe only
	T          uint64     `json:"t"`        // bgv only
	LogScale   int        `json:"logScale"` // ckks only
	Xs         h.DistSpec `json:"xs"`       // kind "" = unset (default)
	Xe         h.DistSpec `json:"xe"`
	ViaJSON    bool       `json:"viaJSON"` // build the literal through its JSON form
	Seed       uint64     `json:"seed"`
	Mut        string     `json:"mut"` // name of the single mutation the generator applied ("none"); informational only
}

func (c LitCase) RandSeed() uint64 { return c.Seed }

func (c LitCase) root() uint64 {
	if c.LogN < 0 || c.LogN > 60 {
		return 0
	}
	if c.CI && c.Scheme != "bgv" {
		return 4 << uint(c.LogN)
	}
	return 2 << uint(c.LogN)
}

func (c LitCase) ringType() ring.Type {
	if c.CI && c.Scheme != "bgv" {
		return ring.ConjugateInvariant
	}
	return ring.Standard
}

// effLogNthRoot is the root order (log2) GenModuli is called with.
func (c LitCase) effLogNthRoot() int {
	base := c.LogN + 1
	if c.ringType() == ring.ConjugateInvariant {
		base = c.LogN + 2
	}
	if c.LogNthRoot > base {
		return c.LogNthRoot
	}
	return base
}

func distOrNil(d h.DistSpec) ring.DistributionParameters {
	switch d.Kind {
	case "":
		return nil
	case "ternaryPH": // both fields set (the doc of ring.Ternary allows only one)
		return ring.Ternary{P: d.P, H: d.H}
	case "uniform":
		return ring.Uniform{}
	case "ternaryPNaN": // NaN cannot be written in the JSON of a case: it has its own kinds
		return ring.Ternary{P: math.NaN()}
	case "gaussSigmaNaN":
		return ring.DiscreteGaussian{Sigma: math.NaN(), Bound: d.Bound}
	case "gaussBoundNaN":
		return ring.DiscreteGaussian{Sigma: d.Sigma, Bound: math.NaN()}
	}
	return d.Lattigo()
}

// distViolations: values the documentation of ring.Ternary / ring.DiscreteGaussian excludes or that cannot be sampled.
func distViolations(d h.DistSpec, n int, secret bool) (v []string) {
	switch d.Kind {
	case "ternaryH", "ternaryP", "ternaryPH":
		if d.H < 0 {
			v = append(v, "H<0")
		}
		// H > N is tolerated (the sampler caps it; lattigo's bootstrapping tests use it)
		if d.P < 0 {
			v = append(v, "P<0")
		}
		if d.P >= 1 {
			v = append(v, "P>=1")
		}
		if d.P != 0 && d.H != 0 {
			v = append(v, "P-and-H")
		}
	case "ternaryPNaN", "gaussSigmaNaN", "gaussBoundNaN":
		v = append(v, "NaN")
	case "gauss":
		if d.Sigma < 0 {
			v = append(v, "sigma<0")
		}
		if d.Bound < 0 {
			v = append(v, "bound<0")
		}
		if math.IsInf(d.Sigma, 0) || math.IsInf(d.Bound, 0) {
			v = append(v, "infinite")
		}
	}
	return
}

// ---------------------------------------------------------------------------------------------------------------
// independent analysis of the literal: which stated requirements does it violate?

func isFermatExp(b int) bool { return b == 1 || b == 2 || b == 4 || b == 8 || b == 16 }

// hangPredicted: GenModuli is reached with a root order 2^k, k >= 64 (NthRoot wraps to 0) or k >= 62 together with a
// 61-bit request (NextDownstreamPrime starts with its flag false and never returns).
func (c LitCase) hangPredicted() bool {
	if c.LogQ == nil && c.LogP == nil {
		return false
	}
	if (c.Q == nil && c.LogQ == nil) || (c.Q != nil && c.LogQ != nil) || (c.P != nil && c.LogP != nil) {
		return false // rejected before GenModuli
	}
	for _, b := range c.LogQ {
		if b <= 0 || b > 60 {
			return false
		}
	}
	for _, b := range c.LogP {
		if b <= 0 || b > 61 {
			return false
		}
	}
	k := c.effLogNthRoot()
	if k < 62 {
		return false
	}
	for _, b := range append(append([]int{}, c.LogQ...), c.LogP...) {
		if k >= 64 && !isFermatExp(b) {
			return true
		}
		if b == 61 {
			return true
		}
	}
	return false
}

func hasDup(a []uint64) bool {
	seen := map[uint64]bool{}
	for _, x := range a {
		if seen[x] {
			return true
		}
		seen[x] = true
	}
	return false
}

// violations lists the stated requirements the literal violates ("hard": the constructor must reject).
func (c LitCase) violations() (v []string) {
	add := func(s string) {
		for _, x := range v {
			if x == s {
				return
			}
		}
		v = append(v, s)
	}
	if c.LogN < rlwe.MinLogN || c.LogN > rlwe.MaxLogN {
		add("logN-range")
	}
	if c.Q == nil && c.LogQ == nil {
		add("no-Q")
	}
	if c.Q != nil && c.LogQ != nil {
		add("both-Q-and-LogQ")
	}
	if c.P != nil && c.LogP != nil {
		add("both-P-and-LogP")
	}
	if c.Q != nil && c.LogQ == nil && len(c.Q) == 0 {
		add("empty-Q")
	}
	if c.LogQ != nil && c.Q == nil && len(c.LogQ) == 0 {
		add("empty-Q")
	}
	m := c.root()
	chk := func(list []uint64, name string) {
		for _, q := range list {
			switch {
			case q < 2:
				add("modulus-0-or-1")
			case !h.IsPrime64(q):
				add("composite-" + name)
			case m != 0 && q%m != 1 && c.ringType() == ring.ConjugateInvariant && q%(m/2) == 1:
				add("1-mod-2N-but-not-1-mod-4N-" + name)
			case m != 0 && q%m != 1:
				add("not-ntt-friendly-" + name)
			}
		}
		if hasDup(list) {
			add("duplicate-in-" + name)
		}
	}
	if c.LogQ == nil {
		chk(c.Q, "Q")
	}
	if c.LogP == nil {
		chk(c.P, "P")
	}
	if c.LogQ == nil && c.LogP == nil {
		for _, q := range c.Q {
			for _, p := range c.P {
				if p == q {
					add("shared-Q-P")
				}
			}
		}
	}
	if c.Q == nil {
		for _, b := range c.LogQ {
			if b <= 0 || b > rlwe.MaxModuliSize {
				add("logQ-size-range")
			}
		}
	}
	if c.P == nil {
		for _, b := range c.LogP {
			if b <= 0 || b > rlwe.MaxModuliSize+1 {
				add("logP-size-range")
			}
		}
	}
	if c.Xs.Kind == "uniform" || c.Xe.Kind == "uniform" {
		add("distribution-type")
	}
	switch c.Scheme {
	case "bgv":
		t := c.T
		switch {
		case t == 0:
			add("t-zero")
		case t < 2 || !h.IsPrime64(t):
			add("t-not-prime")
		case t%16 != 1:
			add("t-order-below-16")
		}
		if c.LogQ == nil && len(c.Q) > 0 {
			for _, q := range c.Q {
				if q == t {
					add("t-divides-Q")
				}
			}
			if t > c.Q[0]>>1 {
				// the decoder centres modulo Q_level: lattigo requires t <= Q[0]/2 (fix fb8dc0f)
				add("t-above-half-Q0")
			}
		}
	case "ckks":
		if c.LogScale > 128 {
			add("logscale-above-128")
		}
	}
	return
}

// soft lists properties that are not rejected by a stated rule but matter to the arithmetic (decided by the smoke battery).
func (c LitCase) soft() (v []string) {
	if c.ringType() == ring.ConjugateInvariant && c.LogN%2 == 1 && c.LogQ == nil {
		for _, q := range c.Q {
			if bits.Len64(q) == 61 && math.Round(math.Log2(float64(q))) >= 61 {
				// above MaxModuliSize=60 by rounding, accepted; the conjugate-invariant lazy NTT of odd log2(N) leaves no headroom
				v = append(v, ciOddKey)
				break
			}
		}
	}
	for _, q := range c.Q {
		if bits.Len64(q) >= 62 && c.LogQ == nil {
			v = append(v, fmt.Sprintf("Q-%dbit", bits.Len64(q)))
			break
		}
	}
	for _, p := range c.P {
		if bits.Len64(p) >= 62 && c.LogP == nil {
			v = append(v, fmt.Sprintf("P-%dbit", bits.Len64(p)))
			break
		}
	}
	if c.Scheme == "bgv" && c.LogP == nil {
		for _, p := range c.P {
			if p == c.T {
				v = append(v, "t-in-P")
			}
		}
	}
	return
}

// ---------------------------------------------------------------------------------------------------------------
// construction

type built struct {
	rl   rlwe.Parameters
	bg   *bgv.Parameters
	ck   *ckks.Parameters
	warn bool // rlwe: valid object returned together with a warning
}

func (c LitCase) rlweLiteral() rlwe.ParametersLiteral {
	return rlwe.ParametersLiteral{LogN: c.LogN, LogNthRoot: c.LogNthRoot, Q: c.Q, P: c.P, LogQ: c.LogQ, LogP: c.LogP,
		Xs: distOrNil(c.Xs), Xe: distOrNil(c.Xe), RingType: c.ringType(), NTTFlag: c.NTT}
}

func (c LitCase) bgvLiteral() bgv.ParametersLiteral {
	return bgv.ParametersLiteral{LogN: c.LogN, LogNthRoot: c.LogNthRoot, Q: c.Q, P: c.P, LogQ: c.LogQ, LogP: c.LogP,
		Xs: distOrNil(c.Xs), Xe: distOrNil(c.Xe), PlaintextModulus: c.T}
}

func (c LitCase) ckksLiteral() ckks.ParametersLiteral {
	return ckks.ParametersLiteral{LogN: c.LogN, LogNthRoot: c.LogNthRoot, Q: c.Q, P: c.P, LogQ: c.LogQ, LogP: c.LogP,
		Xs: distOrNil(c.Xs), Xe: distOrNil(c.Xe), RingType: c.ringType(), LogDefaultScale: c.LogScale}
}

// construct builds the parameters (directly or through the JSON form of the literal).
func (c LitCase) construct() (b built, err error) {
	switch c.Scheme {
	case "rlwe":
		lit := c.rlweLiteral()
		if c.ViaJSON {
			js, e := json.Marshal(lit)
			if e != nil {
				return b, h.Failf("C19:rlwe:literal-json-marshal", "json.Marshal(literal): %v", e)
			}
			var l2 rlwe.ParametersLiteral
			if e := json.Unmarshal(js, &l2); e != nil {
				return b, fmt.Errorf("json: %w", e)
			}
			lit = l2
		}
		p, e := rlwe.NewParametersFromLiteral(lit)
		if e != nil && p.RingQ() != nil {
			b.warn = true
			e = nil
		}
		b.rl = p
		return b, e
	case "bgv":
		lit := c.bgvLiteral()
		if c.ViaJSON {
			js, e := json.Marshal(lit)
			if e != nil {
				return b, h.Failf("C19:bgv:literal-json-marshal", "json.Marshal(literal): %v", e)
			}
			var l2 bgv.ParametersLiteral
			if e := json.Unmarshal(js, &l2); e != nil {
				return b, fmt.Errorf("json: %w", e)
			}
			lit = l2
		}
		p, e := bgv.NewParametersFromLiteral(lit)
		if e == nil {
			b.bg, b.rl = &p, p.Parameters
		}
		return b, e
	default:
		lit := c.ckksLiteral()
		if c.ViaJSON {
			js, e := json.Marshal(lit)
			if e != nil {
				return b, h.Failf("C19:ckks:literal-json-marshal", "json.Marshal(literal): %v", e)
			}
			var l2 ckks.ParametersLiteral
			if e := json.Unmarshal(js, &l2); e != nil {
				return b, fmt.Errorf("json: %w", e)
			}
			lit = l2
		}
		p, e := ckks.NewParametersFromLiteral(lit)
		if e == nil {
			b.ck, b.rl = &p, p.Parameters
		}
		return b, e
	}
}

const ciOddKey = "Q-log2=61:ci-odd-logN"

const hangKey = "C19:GenModuli:hang:root-order-2^62-or-more"

// constructGuarded runs construct; literals for which a non-terminating prime search is predicted are run under a
// watchdog (see watchdog_test.go).
func (c LitCase) constructGuarded(rec *h.Rec) (b built, err error, skipped bool) {
	if !c.hangPredicted() {
		b, err = c.construct()
		return b, err, false
	}
	msg := fmt.Sprintf("NewParametersFromLiteral with LogN=%d LogNthRoot=%d LogQ=%v LogP=%v does not return (root order 2^%d: NTTFriendlyPrimesGenerator never terminates)", c.LogN, c.LogNthRoot, c.LogQ, c.LogP, c.effLogNthRoot())
	if rec.Known(hangKey, msg) {
		rec.Class("known=genmoduli-hang(not executed)")
		return b, nil, true
	}
	var (
		bb built
		ee error
	)
	pan, werr := guarded(rec, hangKey, msg, func() { bb, ee = c.construct() })
	if werr != nil {
		return b, werr, true
	}
	if pan != nil {
		return b, h.Failf("C19:"+c.Scheme+":panic-in-constructor:huge-root-order", "panic: %v", pan), true
	}
	return bb, ee, false
}

// ---------------------------------------------------------------------------------------------------------------
// the property body

func runLiteral(c LitCase, rec *h.Rec) error {
	viol := c.violations()
	soft := c.soft()
	rec.Class("scheme=" + c.Scheme)
	rec.Class("mut=" + c.Mut)
	rec.Classf("logN=%s", logNClass(c.LogN))
	if c.ViaJSON {
		rec.Class("via=json")
	}
	for _, s := range soft {
		rec.Class("soft=" + s)
	}

	qSnap, pSnap := append([]uint64(nil), c.Q...), append([]uint64(nil), c.P...)
	b, err, skipped := c.constructGuarded(rec)
	if skipped {
		if err != nil {
			return err
		}
		rec.NonTrivial(fmt.Sprintf("%s|hang-excluded|%s", c.Scheme, c.Mut))
		return nil
	}
	if f, ok := err.(*h.Failure); ok {
		return f
	}

	if err != nil {
		// rejected: clean (no panic - the harness turns a panic into a failure). A literal the generator built to be
		// valid in every documented respect must not be rejected.
		rec.Class("outcome=rejected")
		if len(viol) == 0 && len(soft) == 0 && c.Mut == "tResidue" && c.LogQ == nil && c.LogP == nil {
			// a prime t = 1 mod 16 below Q0/2 is a valid plaintext modulus whatever its residue modulo 2N (fewer slots)
			return h.Failf("C19:bgv:rejected-valid:t-residue", "plaintext modulus t=%d (= %d mod %d, = 1 mod 16) rejected: %v", c.T, c.T%c.root(), c.root(), err)
		}
		if len(viol) == 0 && len(soft) == 0 && c.Mut == "none" && c.LogQ == nil && c.LogP == nil {
			return h.Failf("C19:"+c.Scheme+":rejected-valid", "literal valid in every documented respect was rejected: %v", err)
		}
		if len(viol) == 1 {
			rec.NonTrivial(fmt.Sprintf("%s|rejected|%s|%s", c.Scheme, viol[0], logNClass(c.LogN)))
		} else if len(viol) == 0 {
			rec.Class("rejected-without-listed-violation=" + c.Mut)
		}
		return nil
	}

	rec.Class("outcome=accepted")
	if b.bg != nil {
		rec.Classf("t-slots=%d/N=%d", b.bg.MaxSlots(), b.bg.N())
	}
	if b.warn {
		rec.Class("outcome=accepted-with-warning")
	}
	for _, vv := range viol {
		key := "C19:" + c.Scheme + ":accepted-invalid:" + vv
		msg := fmt.Sprintf("literal violating requirement %q was accepted without error (all violations: %v)", vv, viol)
		if rec.Known(key, msg) {
			rec.Class("known=" + key)
			// the object is unsound by the stated requirement; do not run arithmetic on it
			return nil
		}
		return h.Failf(key, "%s", msg)
	}

	p := b.rl
	if c.LogN >= 0 && c.LogN < 40 {
		dv := append(distViolations(c.Xs, 1<<uint(c.LogN), true), distViolations(c.Xe, 1<<uint(c.LogN), false)...)
		if len(dv) > 0 {
			// accepted although the distribution cannot be sampled as documented; the derived Hamming weight shows it
			key := "C19:accepted-invalid-distribution"
			msg := fmt.Sprintf("%s literal with Xs=%+v Xe=%+v (%v) accepted without error; XsHammingWeight() = %d for N = %d", c.Scheme, c.Xs, c.Xe, dv, p.XsHammingWeight(), p.N())
			for _, d := range dv {
				rec.Class("accepted-invalid-distribution=" + d)
			}
			if rec.Known(key, msg) {
				rec.Class("known=" + key)
				rec.NonTrivial(fmt.Sprintf("%s|accepted-invalid-distribution|%v", c.Scheme, dv))
				return nil // no sampling on such parameters (samplers: C17)
			}
			return h.Failf(key, "%s", msg)
		}
	}
	if e := structural(c, p, rec); e != nil {
		return e
	}
	if e := accessors(c, b, rec); e != nil {
		return e
	}
	dec, e := serial(c, b, rec)
	if e != nil {
		return e
	}
	extreme := extremeClass(c, p)
	if c.LogN <= 10 && !b.warn {
		// the object has a history: half of the cases run the battery on the parameters decoded from the binary form
		// (second life of the literal), the others on the object the constructor returned - after it has been serialised
		target := b
		if c.Seed&1 == 1 && dec.rl.RingQ() != nil {
			target = dec
			rec.Class("smoke-on=decoded")
		}
		if e := smoke(c, target, soft, rec); e != nil {
			return e
		}
		// the literal's slices are inputs: untouched by construction, encoding and use
		for i := range qSnap {
			if c.Q[i] != qSnap[i] {
				return h.Failf("C19:"+c.Scheme+":literal-Q-modified", "the Q slice of the literal was modified: %v, was %v", c.Q, qSnap)
			}
		}
		for i := range pSnap {
			if c.P[i] != pSnap[i] {
				return h.Failf("C19:"+c.Scheme+":literal-P-modified", "the P slice of the literal was modified: %v, was %v", c.P, pSnap)
			}
		}
		// and the parameters do not alias what their accessors hand out
		if q := p.Q(); len(q) > 0 {
			q[0] ^= 1
			if p.Q()[0] != q[0]^1 || p.RingQ().SubRings[0].Modulus != q[0]^1 {
				return h.Failf("C19:"+c.Scheme+":accessor-aliases-state", "writing into the slice returned by Q() changed the parameters")
			}
		}
	}
	if extreme != "" || len(soft) > 0 {
		rec.NonTrivial(fmt.Sprintf("%s|accepted|%s|%v|%s|json=%v", c.Scheme, extreme, soft, logNClass(c.LogN), c.ViaJSON))
	}
	return nil
}

func logNClass(l int) string {
	switch {
	case l < rlwe.MinLogN:
		return "<min"
	case l == rlwe.MinLogN:
		return "min"
	case l > rlwe.MaxLogN:
		return ">max"
	case l == rlwe.MaxLogN:
		return "max"
	case l <= 7:
		return "5-7"
	case l <= 10:
		return "8-10"
	default:
		return "11-19"
	}
}

// extremeClass: valid with an extreme (prime of 2-8 or >= 60 bits, LogN at an end, t close to Q0, custom root order).
func extremeClass(c LitCase, p rlwe.Parameters) string {
	s := ""
	for _, q := range p.QP() {
		if bits.Len64(q) <= 8 {
			s += "tiny-prime,"
			break
		}
	}
	for _, q := range p.QP() {
		if bits.Len64(q) >= 60 {
			s += "60+bit-prime,"
			break
		}
	}
	if c.LogN == rlwe.MinLogN || c.LogN == rlwe.MaxLogN {
		s += "logN-end,"
	}
	if c.Scheme == "bgv" && len(p.Q()) > 0 && c.T > p.Q()[0]/4 {
		s += "t-close-Q0,"
	}
	if c.Scheme == "bgv" && c.T%c.root() != 1 {
		s += "t-low-order,"
	}
	if c.LogNthRoot > 0 && (c.LogQ != nil || c.LogP != nil) && c.effLogNthRoot() == c.LogNthRoot {
		s += "custom-root,"
	}
	return s
}

// structural: accepted => moduli distinct, prime, = 1 mod root order; generated moduli have the requested sizes.
func structural(c LitCase, p rlwe.Parameters, rec *h.Rec) error {
	pre := "C19:" + c.Scheme + ":accepted:"
	m := c.root()
	all := p.QP()
	if hasDup(all) {
		return h.Failf(pre+"moduli-not-distinct", "accepted parameters have repeated moduli: Q=%v P=%v", p.Q(), p.P())
	}
	for _, q := range all {
		if !h.IsPrime64(q) {
			return h.Failf(pre+"composite-modulus", "accepted parameters contain the composite modulus %d", q)
		}
		if q%m != 1 {
			return h.Failf(pre+"modulus-not-1-mod-root", "accepted modulus %d is not 1 mod %d", q, m)
		}
	}
	if uint64(p.NthRoot()) != m {
		return h.Failf(pre+"nthroot", "NthRoot() = %d, want %d", p.NthRoot(), m)
	}
	cmp := func(got, lit []uint64, logs []int, name string) error {
		if logs == nil {
			if len(got) != len(lit) {
				return h.Failf(pre+"moduli-differ-from-literal", "%s = %v, literal %v", name, got, lit)
			}
			for i := range got {
				if got[i] != lit[i] {
					return h.Failf(pre+"moduli-differ-from-literal", "%s = %v, literal %v", name, got, lit)
				}
			}
			return nil
		}
		if len(got) != len(logs) {
			return h.Failf(pre+"generated-count", "%d %s moduli generated for %d requested sizes", len(got), name, len(logs))
		}
		k := c.effLogNthRoot()
		for i, q := range got {
			if r := int(math.Round(math.Log2(float64(q)))); r != logs[i] {
				return h.Failf(pre+"generated-size", "%s[%d] = %d has round(log2) = %d, requested %d", name, i, q, r, logs[i])
			}
			if k < 64 && q%(uint64(1)<<uint(k)) != 1 {
				if c.ViaJSON && c.Scheme == "rlwe" {
					key := "C19:rlwe:literal-json:LogNthRoot-dropped"
					msg := fmt.Sprintf("literal -> JSON -> literal loses LogNthRoot=%d: generated %s[%d] = %d is not 1 mod 2^%d", c.LogNthRoot, name, i, q, k)
					if rec.Known(key, msg) {
						rec.Class("known=" + key)
						continue
					}
					return h.Failf(key, "%s", msg)
				}
				if logs[i] < k {
					// same root cause as C19:GenModuli:not-1-mod-root-order:size-below-root-order (Fermat primes)
					key := "C19:literal:generated-not-1-mod-custom-root:size-below-root-order"
					msg := fmt.Sprintf("%s literal LogN=%d LogNthRoot=%d: generated %s[%d] = %d (requested %d bits) is not 1 mod 2^%d and was accepted", c.Scheme, c.LogN, c.LogNthRoot, name, i, q, logs[i], k)
					if rec.Known(key, msg) {
						rec.Class("known=" + key)
						continue
					}
					return h.Failf(key, "%s", msg)
				}
				return h.Failf(pre+"generated-not-1-mod-custom-root", "%s[%d] = %d is not 1 mod 2^%d (LogNthRoot)", name, i, q, k)
			}
		}
		return nil
	}
	if e := cmp(p.Q(), c.Q, c.LogQ, "Q"); e != nil {
		return e
	}
	if len(c.P) > 0 || c.LogP != nil {
		if e := cmp(p.P(), c.P, c.LogP, "P"); e != nil {
			return e
		}
	} else if p.PCount() != 0 {
		return h.Failf(pre+"moduli-differ-from-literal", "P = %v although the literal has none", p.P())
	}
	return nil
}

func prodBig(a []uint64) *big.Int { return h.ProdU(a) }

// accessors: derived quantities equal their definitions recomputed here.
func accessors(c LitCase, b built, rec *h.Rec) error {
	p := b.rl
	pre := "C19:" + c.Scheme + ":accessor:"
	fail := func(name string, got, want any) error {
		return h.Failf(pre+name, "%s = %v, definition gives %v (Q=%v P=%v logN=%d ci=%v)", name, got, want, p.Q(), p.P(), c.LogN, c.CI)
	}
	Q, P := p.Q(), p.P()
	n := 1 << uint(c.LogN)
	m := c.root()
	type kv struct {
		name      string
		got, want int
	}
	logRoot := bits.Len64(m) - 1
	maxbit := 0
	for _, q := range append(append([]uint64{}, Q...), P...) {
		if l := bits.Len64(q); l > maxbit {
			maxbit = l
		}
	}
	for _, x := range []kv{
		{"N", p.N(), n}, {"LogN", p.LogN(), c.LogN}, {"NthRoot", p.NthRoot(), int(m)}, {"LogNthRoot", p.LogNthRoot(), logRoot},
		{"MaxLevel", p.MaxLevel(), len(Q) - 1}, {"MaxLevelQ", p.MaxLevelQ(), len(Q) - 1}, {"MaxLevelP", p.MaxLevelP(), len(P) - 1},
		{"QCount", p.QCount(), len(Q)}, {"PCount", p.PCount(), len(P)}, {"QPCount", p.QPCount(), len(Q) + len(P)},
		{"MaxBit", p.MaxBit(p.MaxLevelQ(), p.MaxLevelP()), maxbit},
	} {
		if x.got != x.want {
			return fail(x.name, x.got, x.want)
		}
	}
	if p.RingType() != c.ringType() {
		return fail("RingType", p.RingType(), c.ringType())
	}
	if c.Scheme == "rlwe" && p.NTTFlag() != c.NTT {
		return fail("NTTFlag", p.NTTFlag(), c.NTT)
	}
	if c.Scheme != "rlwe" && !p.NTTFlag() {
		return fail("NTTFlag", p.NTTFlag(), true)
	}
	if p.QBigInt().Cmp(prodBig(Q)) != 0 {
		return fail("QBigInt", p.QBigInt(), prodBig(Q))
	}
	if p.PBigInt().Cmp(prodBig(P)) != 0 {
		return fail("PBigInt", p.PBigInt(), prodBig(P))
	}
	if p.QPBigInt().Cmp(prodBig(p.QP())) != 0 {
		return fail("QPBigInt", p.QPBigInt(), prodBig(p.QP()))
	}
	if w := log2Big(prodBig(Q)); math.Abs(p.LogQ()-w) > 1e-6 {
		return fail("LogQ", p.LogQ(), w)
	}
	wantLogP := 0.0
	if len(P) > 0 {
		wantLogP = log2Big(prodBig(P))
	}
	if math.Abs(p.LogP()-wantLogP) > 1e-6 {
		return fail("LogP", p.LogP(), wantLogP)
	}
	if w := log2Big(prodBig(p.QP())); math.Abs(p.LogQP()-w) > 1e-6 {
		return fail("LogQP", p.LogQP(), w)
	}
	for i, l := range p.LogQi() {
		if w := int(math.Round(math.Log2(float64(Q[i])))); l != w {
			return fail("LogQi", p.LogQi(), w)
		}
	}
	// Galois elements: GaloisGen^k mod NthRoot
	ord := int64(m / 4)
	bm := new(big.Int).SetUint64(m)
	pow5 := func(k int64) uint64 {
		e := ((k % ord) + ord) % ord
		return new(big.Int).Exp(big.NewInt(5), big.NewInt(e), bm).Uint64()
	}
	rng := h.NewSplitMix(c.Seed ^ 0x6a10)
	ks := []int{0, 1, -1, 2, n / 2, n/2 - 1, n, -n, int(rng.Uint64() >> 34), -int(rng.Uint64() >> 34)}
	gs := p.GaloisElements(ks)
	for i, k := range ks {
		w := pow5(int64(k))
		if g := p.GaloisElement(k); g != w {
			return fail(fmt.Sprintf("GaloisElement(%d)", k), g, w)
		}
		if gs[i] != w {
			return fail(fmt.Sprintf("GaloisElements[%d]", k), gs[i], w)
		}
		inv := p.ModInvGaloisElement(w)
		if mulmod(inv, w, m) != 1%m {
			return fail(fmt.Sprintf("ModInvGaloisElement(%d)", w), inv, "inverse mod NthRoot")
		}
		if d := p.SolveDiscreteLogGaloisElement(w); pow5(int64(d)) != w {
			return fail(fmt.Sprintf("SolveDiscreteLogGaloisElement(%d)", w), d, fmt.Sprintf("k with 5^k = %d", w))
		}
	}
	if c.ringType() == ring.Standard {
		if g := p.GaloisElementOrderTwoOrthogonalSubgroup(); g != m-1 {
			return fail("GaloisElementOrderTwoOrthogonalSubgroup", g, m-1)
		}
	}

	if b.ck != nil {
		cp := *b.ck
		slots := n / 2
		logSlots := c.LogN - 1
		if c.ringType() == ring.ConjugateInvariant {
			slots, logSlots = n, c.LogN
		}
		per := 1
		if c.LogScale > 64 {
			per = 2
		}
		for _, x := range []kv{
			{"ckks.MaxLevel", cp.MaxLevel(), len(Q) - 1}, {"ckks.MaxSlots", cp.MaxSlots(), slots}, {"ckks.LogMaxSlots", cp.LogMaxSlots(), logSlots},
			{"ckks.LogDefaultScale", cp.LogDefaultScale(), c.LogScale}, {"ckks.LevelsConsumedPerRescaling", cp.LevelsConsumedPerRescaling(), per},
			{"ckks.MaxDepth", cp.MaxDepth(), (len(Q) - 1) / per}, {"ckks.LogMaxDimensions.Cols", cp.LogMaxDimensions().Cols, logSlots},
			{"ckks.LogMaxDimensions.Rows", cp.LogMaxDimensions().Rows, 0}, {"ckks.MaxDimensions.Cols", cp.MaxDimensions().Cols, slots},
			{"ckks.MaxDimensions.Rows", cp.MaxDimensions().Rows, 1},
		} {
			if x.got != x.want {
				return fail(x.name, x.got, x.want)
			}
		}
		for l := range Q {
			if w := prodBig(Q[:l+1]).BitLen(); cp.LogQLvl(l) != w {
				return fail(fmt.Sprintf("ckks.LogQLvl(%d)", l), cp.LogQLvl(l), w)
			}
		}
		if g := cp.GaloisElementForRotation(3); g != pow5(3) {
			return fail("ckks.GaloisElementForRotation(3)", g, pow5(3))
		}
		if c.ringType() == ring.Standard {
			if g := cp.GaloisElementForComplexConjugation(); g != m-1 {
				return fail("ckks.GaloisElementForComplexConjugation", g, m-1)
			}
		}
	}
	if b.bg != nil {
		bp := *b.bg
		// largest power of two `order` <= 2^bitlen(t) with t = 1 mod order; plaintext ring degree min(N, order/2)
		order := uint64(1) << uint(bits.Len64(c.T))
		for order > 1 && c.T%order != 1 {
			order >>= 1
		}
		nt := n
		if int(order/2) < nt {
			nt = int(order / 2)
		}
		lognt := bits.Len(uint(nt)) - 1
		for _, x := range []kv{
			{"bgv.RingT.N", bp.RingT().N(), nt}, {"bgv.MaxSlots", bp.MaxSlots(), nt}, {"bgv.LogMaxSlots", bp.LogMaxSlots(), lognt},
			{"bgv.MaxDimensions.Rows", bp.MaxDimensions().Rows, 2}, {"bgv.MaxDimensions.Cols", bp.MaxDimensions().Cols, nt / 2},
			{"bgv.LogMaxDimensions.Rows", bp.LogMaxDimensions().Rows, 1}, {"bgv.LogMaxDimensions.Cols", bp.LogMaxDimensions().Cols, lognt - 1},
		} {
			if x.got != x.want {
				return fail(x.name, x.got, x.want)
			}
		}
		if bp.PlaintextModulus() != c.T {
			return fail("bgv.PlaintextModulus", bp.PlaintextModulus(), c.T)
		}
		if g := bp.GaloisElementForColRotation(-2); g != pow5(-2) {
			return fail("bgv.GaloisElementForColRotation(-2)", g, pow5(-2))
		}
		if g := bp.GaloisElementForRowRotation(); g != m-1 {
			return fail("bgv.GaloisElementForRowRotation", g, m-1)
		}
	}
	return nil
}

// serial: Parameters survive JSON and binary encodings as Equal objects.
func serial(c LitCase, b built, rec *h.Rec) (dec built, err error) {
	pre := "C19:" + c.Scheme + ":serial:"
	switch {
	case b.bg != nil:
		js, e := b.bg.MarshalJSON()
		if e != nil {
			return dec, h.Failf(pre+"marshal-json-error", "%v", e)
		}
		var q bgv.Parameters
		if e := q.UnmarshalJSON(js); e != nil {
			return dec, h.Failf(pre+"unmarshal-json-error", "UnmarshalJSON(MarshalJSON(p)): %v; json=%s", e, js)
		}
		if !b.bg.Equal(&q) || !q.Equal(b.bg) {
			return dec, h.Failf(pre+"json-not-equal", "UnmarshalJSON(MarshalJSON(p)) is not Equal to p; json=%s", js)
		}
		bin, e := b.bg.MarshalBinary()
		if e != nil {
			return dec, h.Failf(pre+"marshal-binary-error", "%v", e)
		}
		var r bgv.Parameters
		if e := r.UnmarshalBinary(bin); e != nil {
			return dec, h.Failf(pre+"unmarshal-binary-error", "UnmarshalBinary(MarshalBinary(p)): %v", e)
		}
		if !b.bg.Equal(&r) {
			return dec, h.Failf(pre+"binary-not-equal", "UnmarshalBinary(MarshalBinary(p)) is not Equal to p")
		}
		dec = built{rl: r.Parameters, bg: &r}
		if r.MaxSlots() != b.bg.MaxSlots() || r.RingQMul() == nil {
			return dec, h.Failf(pre+"binary-derived-state", "decoded parameters differ in derived state (MaxSlots %d vs %d)", r.MaxSlots(), b.bg.MaxSlots())
		}
	case b.ck != nil:
		js, e := b.ck.MarshalJSON()
		if e != nil {
			return dec, h.Failf(pre+"marshal-json-error", "%v", e)
		}
		var q ckks.Parameters
		if e := q.UnmarshalJSON(js); e != nil {
			return dec, h.Failf(pre+"unmarshal-json-error", "UnmarshalJSON(MarshalJSON(p)): %v; json=%s", e, js)
		}
		if !b.ck.Equal(&q) || !q.Equal(b.ck) {
			return dec, h.Failf(pre+"json-not-equal", "UnmarshalJSON(MarshalJSON(p)) is not Equal to p; json=%s", js)
		}
		bin, e := b.ck.MarshalBinary()
		if e != nil {
			return dec, h.Failf(pre+"marshal-binary-error", "%v", e)
		}
		var r ckks.Parameters
		if e := r.UnmarshalBinary(bin); e != nil {
			return dec, h.Failf(pre+"unmarshal-binary-error", "UnmarshalBinary(MarshalBinary(p)): %v", e)
		}
		if !b.ck.Equal(&r) {
			return dec, h.Failf(pre+"binary-not-equal", "UnmarshalBinary(MarshalBinary(p)) is not Equal to p")
		}
		dec = built{rl: r.Parameters, ck: &r}
	default:
		p := b.rl
		js, e := p.MarshalJSON()
		if e != nil {
			return dec, h.Failf(pre+"marshal-json-error", "%v", e)
		}
		var q rlwe.Parameters
		e = q.UnmarshalJSON(js)
		if e != nil && !(b.warn && q.RingQ() != nil) {
			if b.warn {
				// parameters accepted with a warning (sigma = 0): own key, the search continues behind it
				key := pre + "noiseless-params-do-not-survive-json"
				msg := fmt.Sprintf("UnmarshalJSON(MarshalJSON(p)): %v; json=%s", e, js)
				if rec.Known(key, msg) {
					rec.Class("known=" + key)
					return dec, nil
				}
				return dec, h.Failf(key, "%s", msg)
			}
			return dec, h.Failf(pre+"unmarshal-json-error", "UnmarshalJSON(MarshalJSON(p)): %v; json=%s", e, js)
		}
		if !p.Equal(&q) || !q.Equal(&p) {
			return dec, h.Failf(pre+"json-not-equal", "UnmarshalJSON(MarshalJSON(p)) is not Equal to p; json=%s", js)
		}
		bin, e := p.MarshalBinary()
		if e != nil {
			return dec, h.Failf(pre+"marshal-binary-error", "%v", e)
		}
		if len(bin) != p.BinarySize() {
			return dec, h.Failf(pre+"binary-size", "MarshalBinary wrote %d bytes, BinarySize() = %d", len(bin), p.BinarySize())
		}
		var r rlwe.Parameters
		e = r.UnmarshalBinary(bin)
		if e != nil && !(b.warn && r.RingQ() != nil) {
			return dec, h.Failf(pre+"unmarshal-binary-error", "UnmarshalBinary(MarshalBinary(p)): %v", e)
		}
		if !p.Equal(&r) {
			return dec, h.Failf(pre+"binary-not-equal", "UnmarshalBinary(MarshalBinary(p)) is not Equal to p")
		}
		dec = built{rl: r, warn: b.warn}
	}
	return dec, nil
}

// smoke: the functional battery on an accepted context.
func smoke(c LitCase, b built, soft []string, rec *h.Rec) error {
	p := b.rl
	// an oversize modulus that lattigo generated itself (LogQ/LogP request) is not the lax-CheckModuli finding
	generated := func(e error, gen bool) error {
		if f, ok := e.(*h.Failure); ok && gen && strings.Contains(f.Key, "oversize-modulus") {
			return &h.Failure{Key: f.Key + ":generated-by-GenModuli", Msg: f.Msg}
		}
		return e
	}
	if e := ringSmoke(p.RingQ(), "Q", c.Seed, rec); e != nil {
		return knownOr(generated(e, c.LogQ != nil), rec)
	}
	if e := ringSmoke(p.RingP(), "P", c.Seed+1, rec); e != nil {
		return knownOr(generated(e, c.LogP != nil), rec)
	}
	switch {
	case b.bg != nil:
		if e := ringSmoke(b.bg.RingT(), "T", c.Seed+2, rec); e != nil {
			return knownOr(e, rec)
		}
		if e := ringSmoke(b.bg.RingQMul(), "QMul", c.Seed+3, rec); e != nil {
			return knownOr(e, rec)
		}
		lvl, e := bgvSmoke(*b.bg, c.Seed, rec)
		rec.Class("bgv-smoke=" + lvl)
		if e != nil {
			return knownOr(qualify(e, soft), rec)
		}
	case b.ck != nil:
		lvl, e := ckksSmoke(*b.ck, c.Seed, rec)
		rec.Class("ckks-smoke=" + lvl)
		if e != nil {
			return knownOr(qualify(e, soft), rec)
		}
		// scale-independent: sk and pk encryption of a uniform polynomial within the fresh noise bound
		asserted, e := rlweSmoke(p, c.Seed, rec)
		rec.Classf("rlwe-smoke-asserted=%v", asserted)
		if e != nil {
			return knownOr(qualify(e, soft), rec)
		}
	default:
		asserted, e := rlweSmoke(p, c.Seed, rec)
		rec.Classf("rlwe-smoke-asserted=%v", asserted)
		if e != nil {
			return knownOr(qualify(e, soft), rec)
		}
	}
	return nil
}

// qualify appends the soft class (oversize prime, t in P) to the key of a scheme-level smoke failure so that the
// finding names the input class.
func qualify(e error, soft []string) error {
	f, ok := e.(*h.Failure)
	if !ok || len(soft) == 0 {
		return e
	}
	if soft[0] == ciOddKey {
		return &h.Failure{Key: "C19:accepted:oversize-modulus:" + ciOddKey + ":encryption-wrong", Msg: f.Key + ": " + f.Msg}
	}
	return &h.Failure{Key: f.Key + ":" + soft[0], Msg: f.Msg}
}

func knownOr(e error, rec *h.Rec) error {
	f, ok := e.(*h.Failure)
	if !ok {
		return e
	}
	if rec.Known(f.Key, f.Msg) {
		rec.Class("known=" + f.Key)
		return nil
	}
	return e
}

// ---------------------------------------------------------------------------------------------------------------
// generator

func maxLogNArith() int {
	if h.Thorough() {
		return 9
	}
	return 7
}

// pickPrime draws an NTT-friendly prime of exactly `bitsz` bits (2..63) for root order m; ok=false if none exists.
func pickPrime(t *rapid.T, bitsz int, m uint64, label string) (uint64, bool) {
	top := rapid.Bool().Draw(t, label+"_top")
	ps := h.Primes(bitsz, m, 8, top)
	if len(ps) == 0 {
		ps = h.Primes(bitsz, m, 8, !top)
	}
	if len(ps) == 0 {
		return 0, false
	}
	return ps[rapid.IntRange(0, len(ps)-1).Draw(t, label+"_idx")], true
}

// nonFriendlyPrime: a prime of about the given size that is NOT 1 mod m.
func nonFriendlyPrime(start uint64, m uint64) uint64 {
	if start < 3 {
		start = 3
	}
	for x := start | 1; ; x += 2 {
		if x%m != 1 && h.IsPrime64(x) {
			return x
		}
	}
}

// friendlyComposite: a composite k*m+1 near start.
func friendlyComposite(start uint64, m uint64) uint64 {
	x := start - start%m + 1
	for ; ; x += m {
		if x > 3 && !h.IsPrime64(x) {
			return x
		}
	}
}

func genLiteral(t *rapid.T) LitCase {
	var c LitCase
	c.Seed = rapid.Uint64().Draw(t, "seed")
	c.Scheme = []string{"rlwe", "bgv", "ckks"}[rapid.IntRange(0, 2).Draw(t, "scheme")]
	// ring degree: mostly small; the ends of the range and a few large degrees with low weight
	switch rapid.IntRange(0, 19).Draw(t, "logNk") {
	case 0:
		c.LogN = rlwe.MinLogN
	case 1:
		c.LogN = rapid.IntRange(8, 10).Draw(t, "logNmid")
	case 2:
		if h.Thorough() {
			c.LogN = rapid.SampledFrom([]int{11, 12, 13, 16, rlwe.MaxLogN - 1, rlwe.MaxLogN}).Draw(t, "logNbig")
		} else {
			c.LogN = rapid.SampledFrom([]int{11, 13}).Draw(t, "logNbig")
		}
	default:
		c.LogN = rapid.IntRange(rlwe.MinLogN, maxLogNArith()).Draw(t, "logN")
	}
	if c.Scheme != "bgv" {
		c.CI = rapid.IntRange(0, 3).Draw(t, "ci") == 0
	}
	c.NTT = rapid.Bool().Draw(t, "ntt")
	c.ViaJSON = rapid.IntRange(0, 3).Draw(t, "viaJSON") == 0
	m := c.root()
	minb := h.MinPrimeBits(m)
	big := c.LogN > 10
	logMode := rapid.IntRange(0, 3).Draw(t, "logMode") == 0

	nQ := rapid.IntRange(1, 4).Draw(t, "nQ")
	nP := rapid.IntRange(0, 2).Draw(t, "nP")
	if big {
		nQ, nP = rapid.IntRange(1, 2).Draw(t, "nQbig"), rapid.IntRange(0, 1).Draw(t, "nPbig")
	}
	used := map[uint64]bool{}
	if logMode {
		lo := c.effLogNthRoot() + 3
		if lo > 58 {
			lo = 58
		}
		c.LogQ = h.GenSizes(t, nQ, lo, 60, "lq")
		if nP > 0 {
			c.LogP = h.GenSizes(t, nP, lo, 61, "lp")
		}
	} else {
		qs := make([]int, nQ)
		for i := range qs {
			switch rapid.IntRange(0, 9).Draw(t, fmt.Sprintf("qszk%d", i)) {
			case 0:
				qs[i] = minb
			case 1:
				qs[i] = 60
			case 2:
				qs[i] = 61
			case 3:
				qs[i] = rapid.IntRange(minb, minb+6).Draw(t, fmt.Sprintf("qszs%d", i))
			default:
				qs[i] = rapid.IntRange(minb, 61).Draw(t, fmt.Sprintf("qsz%d", i))
			}
		}
		c.Q = h.GenPrimes(t, qs, m, used, "q")
		if nP > 0 {
			c.P = h.GenPrimes(t, h.GenSizes(t, nP, minb, 61, "p"), m, used, "p")
		}
	}
	// scheme specific
	switch c.Scheme {
	case "bgv":
		// t prime, = 1 mod 2N (or a smaller power of two >= 16), below Q0
		q0bits := 60
		if !logMode {
			q0bits = bits.Len64(c.Q[0])
		} else {
			q0bits = c.LogQ[0] - 1
		}
		tm := m
		if rapid.IntRange(0, 4).Draw(t, "tLowOrder") == 0 {
			tm = uint64(16) << uint(rapid.IntRange(0, c.LogN+1-4).Draw(t, "tOrder"))
		}
		tb := rapid.IntRange(h.MinPrimeBits(tm), 40).Draw(t, "tbits")
		if tb >= q0bits-1 {
			tb = q0bits - 2 // t < 2^(q0bits-2) <= Q0/2
		}
		if tb < h.MinPrimeBits(tm) {
			tb = h.MinPrimeBits(tm)
		}
		for ; tb < 62; tb++ {
			if tt, ok := pickPrime(t, tb, tm, "t"); ok && !used[tt] {
				c.T = tt
				break
			}
		}
	case "ckks":
		switch rapid.IntRange(0, 5).Draw(t, "scalek") {
		case 0:
			c.LogScale = rapid.IntRange(0, 128).Draw(t, "scaleAny")
		default:
			// a scale the first prime can hold (so that the encode/encrypt smoke is assertable)
			hi := 45
			q0 := 60
			if !logMode {
				q0 = bits.Len64(c.Q[0])
			} else {
				q0 = c.LogQ[0]
			}
			if lim := q0 - c.LogN - 6; lim < hi {
				hi = lim
			}
			if hi < 14 {
				hi = 14
			}
			c.LogScale = rapid.IntRange(14, hi).Draw(t, "scale")
		}
	}
	if rapid.IntRange(0, 3).Draw(t, "dists") == 0 {
		c.Xs = h.GenDist(t, true, 1<<uint(c.LogN), "xs")
		c.Xe = h.GenDist(t, false, 1<<uint(c.LogN), "xe")
	}
	c.Mut = "none"
	if rapid.IntRange(0, 9).Draw(t, "mutate") < 4 {
		return c
	}

	// exactly one mutation ------------------------------------------------------------------------------------
	muts := []string{"logN", "logNthRoot", "emptyQ", "noQ", "bothQ", "bothP"}
	if !logMode {
		muts = append(muts, "dupQ", "dupP", "sharedQP", "composite", "nonNTT", "zero", "one", "two", "bits62Q", "bits62P", "bits63P", "bits63Q", "bits64", "tinyAll")
		if c.ringType() == ring.ConjugateInvariant {
			// a standard-ring prime in a conjugate-invariant chain: 1 mod 2N but not 1 mod the root order 4N (listed
			// several times: it is the only way to separate the two root orders)
			muts = append(muts, "halfFriendlyQ", "halfFriendlyP", "halfFriendlyQ", "halfFriendlyP", "halfFriendlyAll")
		}
	} else {
		muts = append(muts, "logSize", "logLong", "logSmall", "logNthRoot", "negLogNAndRoot")
	}
	if c.Scheme == "bgv" {
		muts = append(muts, "t0", "t1", "tInQ", "tInP", "tAboveQ0", "tComposite", "tEven", "tBadResidue", "tCloseQ0", "tMultiple")
		// every odd residue class of t modulo 2N (capped at 256): accepted with min(N, order/2) slots iff t = 1 mod 16
		for i, k := 0, map[bool]int{false: 2, true: 8}[h.Thorough()]; i < k; i++ {
			muts = append(muts, "tResidue")
		}
	}
	if c.Scheme == "ckks" {
		muts = append(muts, "scale129", "scaleNeg")
	}
	if c.Scheme != "bgv" {
		muts = append(muts, "sigma0")
	}
	muts = append(muts, "badDist", "badDist")
	c.Mut = muts[rapid.IntRange(0, len(muts)-1).Draw(t, "mut")]
	inQ := rapid.Bool().Draw(t, "mutInQ") || len(c.P) == 0
	target := func() *uint64 {
		if inQ {
			return &c.Q[rapid.IntRange(0, len(c.Q)-1).Draw(t, "mutIdxQ")]
		}
		return &c.P[rapid.IntRange(0, len(c.P)-1).Draw(t, "mutIdxP")]
	}
	switch c.Mut {
	case "logN":
		c.LogN = rapid.SampledFrom([]int{rlwe.MinLogN - 1, rlwe.MaxLogN + 1, 0, -1, 1, 2, 31, 62, 63, 64, 65, -64, 1 << 20, math.MinInt64 / 2}).Draw(t, "badLogN")
	case "logNthRoot":
		c.LogNthRoot = rapid.SampledFrom([]int{c.LogN + 2, c.LogN + 3, c.LogN + 5, -3, 1, 30, 58, 59, 60, 61, 62, 63, 64, 65, 100, 1 << 30}).Draw(t, "rootOrder")
	case "negLogNAndRoot":
		c.LogN = rapid.SampledFrom([]int{-2, -17, -100}).Draw(t, "negLogN")
		c.LogNthRoot = rapid.SampledFrom([]int{-1, -16, -64}).Draw(t, "negRoot")
	case "emptyQ":
		if logMode {
			c.LogQ = []int{}
		} else {
			c.Q = []uint64{}
		}
	case "noQ":
		c.Q, c.LogQ = nil, nil
	case "bothQ":
		if logMode {
			c.Q = h.GenPrimes(t, []int{40}, m, used, "bq")
		} else {
			c.LogQ = []int{40}
		}
	case "bothP":
		if c.LogP != nil {
			c.P = h.GenPrimes(t, []int{41}, m, used, "bp")
		} else {
			if c.P == nil {
				c.P = h.GenPrimes(t, []int{41}, m, used, "bp")
			}
			c.LogP = []int{41}
		}
	case "dupQ":
		c.Q = append(c.Q, c.Q[rapid.IntRange(0, len(c.Q)-1).Draw(t, "dupIdx")])
	case "dupP":
		if len(c.P) == 0 {
			c.P = h.GenPrimes(t, []int{45}, m, used, "dp")
		}
		c.P = append(c.P, c.P[rapid.IntRange(0, len(c.P)-1).Draw(t, "dupIdx")])
	case "sharedQP":
		c.P = append(c.P, c.Q[rapid.IntRange(0, len(c.Q)-1).Draw(t, "shIdx")])
	case "composite":
		p := target()
		*p = friendlyComposite(*p, m)
	case "halfFriendlyQ", "halfFriendlyP", "halfFriendlyAll":
		// prime = 2N+1 mod 4N of about the same size (what a chain built for the standard ring contains)
		half := func(start uint64) uint64 {
			if start < m {
				start = m
			}
			for x := start - start%m + m/2 + 1; ; x += m {
				if h.IsPrime64(x) && !used[x] {
					used[x] = true
					return x
				}
			}
		}
		switch c.Mut {
		case "halfFriendlyQ":
			i := rapid.IntRange(0, len(c.Q)-1).Draw(t, "hfIdx")
			c.Q[i] = half(c.Q[i])
		case "halfFriendlyP":
			if len(c.P) == 0 {
				c.P = h.GenPrimes(t, []int{50}, m, used, "hp")
			}
			i := rapid.IntRange(0, len(c.P)-1).Draw(t, "hfIdx")
			c.P[i] = half(c.P[i])
		default:
			for i := range c.Q {
				c.Q[i] = half(c.Q[i])
			}
			for i := range c.P {
				c.P[i] = half(c.P[i])
			}
		}
	case "nonNTT":
		p := target()
		*p = nonFriendlyPrime(*p, m)
	case "zero":
		*target() = 0
	case "one":
		*target() = 1
	case "two":
		*target() = 2
	case "bits62Q", "bits62P", "bits63P", "bits63Q", "bits64":
		nb := 62
		if c.Mut == "bits63P" || c.Mut == "bits63Q" {
			nb = 63
		}
		var v uint64
		if c.Mut == "bits64" {
			// largest k*m+1 prime below 2^64
			for v = ^uint64(0) - (^uint64(0))%m + 1; !h.IsPrime64(v); v -= m {
			}
		} else {
			v, _ = pickPrime(t, nb, m, "big")
		}
		switch c.Mut {
		case "bits62P", "bits63P":
			c.P = append(c.P, v)
		case "bits64":
			*target() = v
		default:
			c.Q[rapid.IntRange(0, len(c.Q)-1).Draw(t, "bigIdx")] = v
		}
	case "tinyAll":
		// every modulus among the smallest admissible primes (valid, extreme)
		used2 := map[uint64]bool{c.T: true}
		sz := make([]int, len(c.Q))
		for i := range sz {
			sz[i] = minb
		}
		c.Q = h.GenPrimes(t, sz, m, used2, "tq")
		if len(c.P) > 0 {
			c.P = h.GenPrimes(t, []int{minb}, m, used2, "tp")
		}
	case "logSize":
		v := rapid.SampledFrom([]int{0, -1, 61, 62, 63, 64, 65, 1 << 20, 1, 2, 3, 4, 8, 16}).Draw(t, "badSize")
		if rapid.Bool().Draw(t, "inLogQ") || c.LogP == nil {
			c.LogQ[rapid.IntRange(0, len(c.LogQ)-1).Draw(t, "lsIdx")] = v
		} else {
			c.LogP[rapid.IntRange(0, len(c.LogP)-1).Draw(t, "lsIdx")] = v
		}
	case "logLong":
		// exhaustion: many primes of a size for which few exist
		b := c.effLogNthRoot() + rapid.IntRange(0, 4).Draw(t, "exhB")
		if b > 60 {
			b = 60
		}
		k := rapid.IntRange(2, 40).Draw(t, "exhK")
		c.LogQ = make([]int, k)
		for i := range c.LogQ {
			c.LogQ[i] = b
		}
	case "logSmall":
		for i := range c.LogQ {
			c.LogQ[i] = rapid.IntRange(1, c.effLogNthRoot()+1).Draw(t, fmt.Sprintf("small%d", i))
		}
	case "t0":
		c.T = 0
	case "t1":
		c.T = 1
	case "tInQ":
		if !logMode {
			c.T = c.Q[rapid.IntRange(0, len(c.Q)-1).Draw(t, "tq")]
		} else {
			c.T = 0
		}
	case "tInP":
		if !logMode {
			// a P prime below Q0 that is also the plaintext modulus
			c.P = append(c.P, c.T)
		}
	case "tAboveQ0":
		if !logMode {
			if v, ok := pickPrime(t, bits.Len64(c.Q[0])+1, m, "tbig"); ok {
				c.T = v
			}
		}
	case "tComposite":
		c.T = friendlyComposite(c.T, m)
	case "tEven":
		c.T = c.T + 1
	case "tResidue":
		mod := m
		if mod > 256 {
			mod = 256
		}
		r := uint64(rapid.IntRange(0, int(mod/2)-1).Draw(t, "tRes"))*2 + 1
		q0b := 40
		if !logMode {
			q0b = bits.Len64(c.Q[0])
		} else {
			q0b = c.LogQ[0] - 1
		}
		tb := rapid.IntRange(5, 36).Draw(t, "tResBits")
		if tb > q0b-2 {
			tb = q0b - 2
		}
		if tb < 5 {
			tb = 5
		}
		start := uint64(1) << uint(tb-1)
		for x := start - start%mod + r; ; x += mod {
			if x > 16 && h.IsPrime64(x) && !used[x] {
				c.T = x
				break
			}
		}
	case "tBadResidue":
		c.T = nonFriendlyPrime(c.T, 16)
	case "tCloseQ0":
		if !logMode {
			// the largest admissible plaintext modulus: prime = 1 mod 2N just below Q0/2
			for v := (c.Q[0] >> 1) - ((c.Q[0]>>1)-1)%m; v > m; v -= m {
				if h.IsPrime64(v) && !used[v] {
					c.T = v
					break
				}
			}
		}
	case "tMultiple":
		if !logMode && len(c.Q) > 1 {
			c.T = 3 * c.Q[len(c.Q)-1]
		}
	case "scale129":
		c.LogScale = rapid.SampledFrom([]int{129, 200, 1 << 20}).Draw(t, "bigScale")
	case "scaleNeg":
		c.LogScale = rapid.SampledFrom([]int{-1, -20, 0, 128, 64, 65}).Draw(t, "oddScale")
	case "badDist":
		// NaN and P = 1 included: no sampling is ever done on parameters with such a distribution (NaN makes TernarySampler
		// recurse until the stack overflows, P = 1 panics at the first sampling)
		n := 1
		if c.LogN >= 0 && c.LogN < 30 {
			n = 1 << uint(c.LogN)
		}
		switch rapid.IntRange(0, 16).Draw(t, "badDistK") {
		case 11:
			c.Xs, c.ViaJSON = h.DistSpec{Kind: "ternaryPNaN"}, false
		case 12:
			c.Xs = h.DistSpec{Kind: "ternaryP", P: 1}
		case 13:
			c.Xe, c.ViaJSON = h.DistSpec{Kind: "gaussSigmaNaN", Bound: 19.2}, false
		case 14:
			c.Xe, c.ViaJSON = h.DistSpec{Kind: "gaussBoundNaN", Sigma: 3.2}, false
		case 15:
			c.Xe = h.DistSpec{Kind: "ternaryP", P: 1}
		case 16:
			c.Xs, c.ViaJSON = h.DistSpec{Kind: "ternaryPNaN"}, false
		case 0:
			// tolerated extreme: H above N (capped by the sampler)
			c.Xs = h.DistSpec{Kind: "ternaryH", H: n + rapid.IntRange(1, n).Draw(t, "hOver")}
		case 1:
			c.Xs = h.DistSpec{Kind: "ternaryH", H: -rapid.IntRange(1, 64).Draw(t, "hNeg")}
		case 2:
			c.Xs = h.DistSpec{Kind: "ternaryP", P: 1 + rapid.Float64Range(0.01, 3).Draw(t, "pOver")}
		case 3:
			c.Xs = h.DistSpec{Kind: "ternaryP", P: -rapid.Float64Range(0.01, 3).Draw(t, "pNeg")}
		case 4:
			c.Xs = h.DistSpec{Kind: "ternaryPH", P: 0.5, H: rapid.IntRange(1, n).Draw(t, "hBoth")}
		case 5:
			c.Xe = h.DistSpec{Kind: "gauss", Sigma: -3.2, Bound: 19.2}
		case 6:
			c.Xe = h.DistSpec{Kind: "gauss", Sigma: 3.2, Bound: -19.2}
		case 7:
			c.Xe = h.DistSpec{Kind: "ternaryH", H: -1}
		case 8:
			c.Xs = h.DistSpec{Kind: "uniform"}
		case 9:
			c.Xe = h.DistSpec{Kind: "uniform"}
		default:
			c.Xs = h.DistSpec{Kind: "gauss", Sigma: 3.2, Bound: -1}
		}
	case "sigma0":
		c.Xe = h.DistSpec{Kind: "gauss", Sigma: 0, Bound: 0}
	}
	return c
}

var propLiteral = h.NewProp("TestPropLiteral", h.Budget{Quick: 3000, Thorough: 40000}, genLiteral, runLiteral)
