package c19

import (
	"fmt"
	"os"
	"runtime"
	"strconv"
	"strings"
	"sync"
	"sync/atomic"
	"testing"
	"time"

	"verif/internal/h"
)

// Wall-clock watchdog for calls that a regression could turn into an endless loop. A goroutine cannot be stopped, so
// the rules are: the call runs in its own goroutine; the first deadline is generous (>= 100x the worst time measured
// on the unchanged tree, never below 60 s: 200 s); its expiry is NOT a verdict - the watchdog keeps waiting for the same
// goroutine up to a hard limit of 600 s in total, sampling /proc/loadavg; a call that returns in that time continues
// normally (class slow-but-returned). Only after the hard limit is the hang key reported, and if the machine is
// overloaded at that moment (1-minute load average > 3 x NumCPU) the key is C19:harness:watchdog-under-load instead,
// which the driver reports as INCONCLUSIVE. At most ONE such wait per process: afterwards guarded calls are not
// executed any more and fail fast with the key of the first expiry (so a shard stays far below the driver's wall ceiling).

const (
	// worst guarded call measured on the unchanged tree: 0.06 s in the quick tier (idle), 1.80 s over a whole thorough run
	// with 16 shards on 16 cores (two bootstrapping.NewParametersFromLiteral calls with a wild size request, logN 10);
	// predicted-hang literals / GenModuli requests return an error in < 1 ms. First deadline: > 100 x 1.80 s.
	underLoadKey = "C19:harness:watchdog-under-load"
)

var (
	watchdogFirst = 200 * time.Second
	watchdogHard  = 600 * time.Second
)

var (
	leakedSpinners atomic.Int32 // goroutines left spinning in this process (never more than two; in practice one)
	expiredMu      sync.Mutex
	expiredKey     string // key reported by the first hard expiry in this process ("" = none yet)
	expiredNote    string
	slowestGuarded atomic.Int64 // nanoseconds, for C19_WATCHDOG_TIMING
)

func loadAvg1() (float64, bool) {
	b, err := os.ReadFile("/proc/loadavg")
	if err != nil {
		return 0, false
	}
	f := strings.Fields(string(b))
	if len(f) == 0 {
		return 0, false
	}
	v, err := strconv.ParseFloat(f[0], 64)
	return v, err == nil
}

// guarded runs f under the watchdog. err == nil when f returned (in time or slowly); pan is the value f panicked with,
// if any (the caller names that failure). hangKey names the defect "the call does not return"; what describes the call.
func guarded(rec *h.Rec, hangKey, what string, f func()) (pan any, err error) {
	expiredMu.Lock()
	if expiredKey != "" {
		k, n := expiredKey, expiredNote
		expiredMu.Unlock()
		// same key as the first expiry, whatever call is guarded now (its goroutine is still spinning: no second wait)
		return nil, h.Failf(k, "%s: not executed, an earlier guarded call of this process did not return (%s)", what, n)
	}
	expiredMu.Unlock()
	if leakedSpinners.Load() >= 2 {
		return nil, h.Failf(hangKey, "%s: not executed, two spinning goroutines already leaked in this process", what)
	}

	done := make(chan any, 1)
	start := time.Now()
	go func() {
		defer func() { done <- recover() }()
		f()
	}()
	finish := func(p any, slow bool) (any, error) {
		d := time.Since(start)
		for {
			old := slowestGuarded.Load()
			if int64(d) <= old || slowestGuarded.CompareAndSwap(old, int64(d)) {
				break
			}
		}
		if os.Getenv("C19_WATCHDOG_TIMING") != "" && d > 20*time.Millisecond {
			fmt.Fprintf(os.Stderr, "C19 watchdog: %s took %v\n", what, d)
		}
		if slow {
			rec.Class("slow-but-returned")
			rec.Note("guarded_call_seconds", d.Seconds())
		}
		return p, nil
	}
	select {
	case p := <-done:
		return finish(p, false)
	case <-time.After(watchdogFirst):
	}
	// first deadline passed: no verdict yet
	maxLoad := 0.0
	tick := time.NewTicker(5 * time.Second)
	defer tick.Stop()
	hard := time.After(watchdogHard - watchdogFirst)
	for {
		select {
		case p := <-done:
			return finish(p, true)
		case <-tick.C:
			if l, ok := loadAvg1(); ok && l > maxLoad {
				maxLoad = l
			}
		case <-hard:
			leakedSpinners.Add(1)
			l, ok := loadAvg1()
			note := fmt.Sprintf("no result after %v; 1-minute load average now %.1f, maximum while waiting %.1f, %d CPUs", watchdogHard, l, maxLoad, runtime.NumCPU())
			key := hangKey
			if ok && l > 3*float64(runtime.NumCPU()) {
				key = underLoadKey
			}
			expiredMu.Lock()
			expiredKey, expiredNote = key, what+": "+note
			expiredMu.Unlock()
			return nil, h.Failf(key, "%s does not return (%s)", what, note)
		}
	}
}

// TestWatchdogSelf exercises the watchdog with shortened deadlines (not a property; run by hand).
func TestWatchdogSelf(t *testing.T) {
	f0, h0 := watchdogFirst, watchdogHard
	defer func() {
		watchdogFirst, watchdogHard = f0, h0
		expiredMu.Lock()
		expiredKey, expiredNote = "", ""
		expiredMu.Unlock()
		leakedSpinners.Store(0)
	}()
	watchdogFirst, watchdogHard = 100*time.Millisecond, 1500*time.Millisecond
	rec := &h.Rec{}
	if pan, err := guarded(rec, "K", "fast", func() {}); pan != nil || err != nil {
		t.Fatalf("fast call: %v %v", pan, err)
	}
	if pan, err := guarded(rec, "K", "slow", func() { time.Sleep(400 * time.Millisecond) }); pan != nil || err != nil {
		t.Fatalf("slow call must be accepted: %v %v", pan, err)
	}
	if pan, err := guarded(rec, "K", "panics", func() { panic("boom") }); pan != "boom" || err != nil {
		t.Fatalf("panic must be handed to the caller: %v %v", pan, err)
	}
	block := make(chan struct{})
	_, err := guarded(rec, "K", "hangs", func() { <-block })
	f, ok := err.(*h.Failure)
	if !ok || (f.Key != "K" && f.Key != underLoadKey) {
		t.Fatalf("hang must be reported with the hang key or the under-load key, got %v", err)
	}
	first := f.Key
	_, err = guarded(rec, "OTHER", "after the expiry", func() { t.Error("must not be executed") })
	if f, ok := err.(*h.Failure); !ok || f.Key != first {
		t.Fatalf("after an expiry guarded calls must fail fast with the key %q, got %v", first, err)
	}
	close(block)
}
