package c19

import (
	"fmt"
	"math"

	"verif/internal/h"

	"github.com/tuneinsight/lattigo/v6/core/rlwe"
	"pgregory.net/rapid"
)

// GenCase is one direct request to rlwe.GenModuli.
type GenCase struct {
	LogNthRoot int   `json:"logNthRoot"`
	LogQ       []int `json:"logQ"`
	LogP       []int `json:"logP"`
}

func (c GenCase) hangPredicted() bool {
	for _, b := range c.LogQ {
		if b <= 0 || b > rlwe.MaxModuliSize {
			return false
		}
	}
	for _, b := range c.LogP {
		if b <= 0 || b > rlwe.MaxModuliSize+1 {
			return false
		}
	}
	if c.LogNthRoot < 62 {
		return false
	}
	for _, b := range append(append([]int{}, c.LogQ...), c.LogP...) {
		if b == 61 || (c.LogNthRoot >= 64 && !isFermatExp(b)) {
			return true
		}
	}
	return false
}

func genGenModuli(t *rapid.T) GenCase {
	var c GenCase
	switch rapid.IntRange(0, 9).Draw(t, "rootk") {
	case 0:
		c.LogNthRoot = rapid.SampledFrom([]int{21, 22, 30, 40, 50, 58, 59, 60, 61, 62, 63}).Draw(t, "bigRoot")
	case 1:
		c.LogNthRoot = rapid.IntRange(12, 21).Draw(t, "midRoot")
	default:
		c.LogNthRoot = rapid.IntRange(rlwe.MinLogN+1, 11).Draw(t, "root")
	}
	size := func(label string, isP bool) int {
		hi := 60
		if isP {
			hi = 61
		}
		switch rapid.IntRange(0, 11).Draw(t, label+"_k") {
		case 0:
			return rapid.SampledFrom([]int{0, -1, 61, 62, 63, 64, 65, -64, 1 << 31}).Draw(t, label+"_bad")
		case 1:
			return rapid.IntRange(1, c.LogNthRoot).Draw(t, label+"_small") // below the root order: no prime = 1 mod 2^k of that size
		case 2, 3:
			lo := c.LogNthRoot + 1
			if lo > hi {
				lo = hi
			}
			return rapid.IntRange(lo, min(lo+3, hi)).Draw(t, label+"_edge") // few primes exist
		case 4:
			return hi
		case 5:
			return hi - 1
		default:
			lo := c.LogNthRoot + 1
			if lo > hi {
				lo = hi
			}
			return rapid.IntRange(lo, hi).Draw(t, label)
		}
	}
	nQ := rapid.IntRange(0, 6).Draw(t, "nQ")
	nP := rapid.IntRange(0, 3).Draw(t, "nP")
	switch rapid.IntRange(0, 7).Draw(t, "shape") {
	case 0:
		// long list of one size (exhaustion, many equal sizes)
		b := size("long", false)
		k := rapid.IntRange(2, 48).Draw(t, "longK")
		c.LogQ = make([]int, k)
		for i := range c.LogQ {
			c.LogQ[i] = b
		}
		if nP > 0 {
			c.LogP = []int{b} // same size in Q and P: must stay distinct
		}
	default:
		if nQ > 0 || rapid.Bool().Draw(t, "emptyNotNilQ") {
			c.LogQ = make([]int, nQ)
			for i := range c.LogQ {
				c.LogQ[i] = size(fmt.Sprintf("q%d", i), false)
			}
		}
		if nP > 0 {
			c.LogP = make([]int, nP)
			for i := range c.LogP {
				c.LogP[i] = size(fmt.Sprintf("p%d", i), true)
			}
		}
	}
	return c
}

func runGenModuli(c GenCase, rec *h.Rec) error {
	rec.Classf("root=%s", func() string {
		switch {
		case c.LogNthRoot <= 11:
			return "5-11"
		case c.LogNthRoot <= 21:
			return "12-21"
		default:
			return fmt.Sprintf("%d", c.LogNthRoot)
		}
	}())
	if c.hangPredicted() {
		msg := fmt.Sprintf("rlwe.GenModuli(%d, %v, %v) does not return", c.LogNthRoot, c.LogQ, c.LogP)
		if rec.Known(hangKey, msg) {
			rec.Class("known=genmoduli-hang(not executed)")
			return nil
		}
		// not listed (any more): execute under the watchdog (watchdog_test.go)
		var e error
		pan, werr := guarded(rec, hangKey, msg, func() { _, _, e = rlwe.GenModuli(c.LogNthRoot, c.LogQ, c.LogP) })
		if werr != nil {
			return werr
		}
		if pan != nil {
			return h.Failf("C19:GenModuli:panic:huge-root-order", "GenModuli(%d, %v, %v): panic: %v", c.LogNthRoot, c.LogQ, c.LogP, pan)
		}
		_ = e // an error or a (possibly useless) chain: what matters here is that the call returned
		rec.Class("outcome=huge-root-order-returned")
		rec.NonTrivial(fmt.Sprintf("huge-root|root=%d", c.LogNthRoot))
		return nil
	}
	badSize := false
	for _, b := range c.LogQ {
		if b <= 0 || b > rlwe.MaxModuliSize {
			badSize = true
		}
	}
	for _, b := range c.LogP {
		if b <= 0 || b > rlwe.MaxModuliSize+1 {
			badSize = true
		}
	}
	q, p, err := rlwe.GenModuli(c.LogNthRoot, c.LogQ, c.LogP)
	if err != nil {
		rec.Class("outcome=error")
		if !badSize {
			rec.NonTrivial(fmt.Sprintf("exhausted|root=%d|n=%d", c.LogNthRoot, len(c.LogQ)+len(c.LogP)))
		} else {
			rec.NonTrivial(fmt.Sprintf("bad-size|root=%d", c.LogNthRoot))
		}
		return nil
	}
	rec.Class("outcome=ok")
	if badSize {
		return h.Failf("C19:GenModuli:accepted-size-out-of-range", "GenModuli(%d, %v, %v) returned no error although a size is outside ]0,60] (Q) / ]0,61] (P)", c.LogNthRoot, c.LogQ, c.LogP)
	}
	if len(q) != len(c.LogQ) || len(p) != len(c.LogP) {
		return h.Failf("C19:GenModuli:count", "GenModuli(%d, %v, %v) returned %d/%d moduli", c.LogNthRoot, c.LogQ, c.LogP, len(q), len(p))
	}
	all := append(append([]uint64{}, q...), p...)
	req := append(append([]int{}, c.LogQ...), c.LogP...)
	if hasDup(all) {
		return h.Failf("C19:GenModuli:not-distinct", "GenModuli(%d, %v, %v) returned repeated moduli: q=%v p=%v", c.LogNthRoot, c.LogQ, c.LogP, q, p)
	}
	m := uint64(1) << uint(c.LogNthRoot)
	extreme := false
	for i, x := range all {
		if !h.IsPrime64(x) {
			return h.Failf("C19:GenModuli:composite", "GenModuli(%d, %v, %v) returned the composite %d", c.LogNthRoot, c.LogQ, c.LogP, x)
		}
		if r := int(math.Round(math.Log2(float64(x)))); r != req[i] {
			return h.Failf("C19:GenModuli:size", "GenModuli(%d, %v, %v): modulus %d has round(log2) = %d, requested %d", c.LogNthRoot, c.LogQ, c.LogP, x, r, req[i])
		}
		if x%m != 1 {
			key := "C19:GenModuli:not-1-mod-root-order"
			if req[i] < c.LogNthRoot {
				key += ":size-below-root-order"
			}
			msg := fmt.Sprintf("GenModuli(%d, %v, %v) returned %d which is not 1 mod 2^%d", c.LogNthRoot, c.LogQ, c.LogP, x, c.LogNthRoot)
			if rec.Known(key, msg) {
				rec.Class("known=" + key)
				continue
			}
			return h.Failf(key, "%s", msg)
		}
		if req[i] <= c.LogNthRoot+3 || req[i] >= 60 {
			extreme = true
		}
	}
	// reproducible
	q2, p2, err2 := rlwe.GenModuli(c.LogNthRoot, c.LogQ, c.LogP)
	if err2 != nil || fmt.Sprint(q2, p2) != fmt.Sprint(q, p) {
		return h.Failf("C19:GenModuli:not-deterministic", "two identical requests returned %v %v and %v %v (%v)", q, p, q2, p2, err2)
	}
	if extreme || len(all) >= 8 {
		rec.NonTrivial(fmt.Sprintf("ok|root=%d|n=%d|extreme=%v", c.LogNthRoot, len(all), extreme))
	}
	return nil
}

var propGenModuli = h.NewProp("TestPropGenModuli", h.Budget{Quick: 8000, Thorough: 200000}, genGenModuli, runGenModuli)
