package c19

import (
	"fmt"

	"verif/internal/h"

	"github.com/tuneinsight/lattigo/v6/ring"
	"pgregory.net/rapid"
)

// RingCase is one call of a ring constructor (ring/ring.go, ring/subring.go: "All moduli must also be equal to 1 modulo
// the root of unity ... An error is returned with a nil *Ring in the case of non NTT-enabling parameters").
type RingCase struct {
	Ctor    string   `json:"ctor"` // NewRing | NewRingConjugateInvariant | NewRingFromType | NewRingWithCustomNTT
	CI      bool     `json:"ci"`   // transform / ring type (for the last two constructors)
	LogN    int      `json:"logN"`
	RootMul int      `json:"rootMul"` // NewRingWithCustomNTT: NthRoot = natural root order << RootMul
	Moduli  []uint64 `json:"moduli"`
	Seed    uint64   `json:"seed"`
	Mut     string   `json:"mut"` // informational
}

func (c RingCase) ci() bool {
	switch c.Ctor {
	case "NewRing":
		return false
	case "NewRingConjugateInvariant":
		return true
	}
	return c.CI
}

// nthRoot is the root order the constructor is asked for.
func (c RingCase) nthRoot() uint64 {
	m := uint64(2) << uint(c.LogN)
	if c.ci() {
		m <<= 1
	}
	if c.Ctor == "NewRingWithCustomNTT" {
		m <<= uint(c.RootMul)
	}
	return m
}

func (c RingCase) violations() (v []string) {
	add := func(s string) {
		for _, x := range v {
			if x == s {
				return
			}
		}
		v = append(v, s)
	}
	if len(c.Moduli) == 0 {
		add("empty")
	}
	m := c.nthRoot()
	for _, q := range c.Moduli {
		switch {
		case q < 2:
			add("0-or-1")
		case !h.IsPrime64(q):
			add("composite")
		case q%m != 1 && q%(uint64(2)<<uint(c.LogN)) == 1:
			add("1-mod-2N-but-not-1-mod-root-order")
		case q%m != 1:
			add("not-1-mod-2N")
		}
	}
	if hasDup(c.Moduli) {
		add("duplicate")
	}
	return
}

func (c RingCase) build() (*ring.Ring, error) {
	n := 1 << uint(c.LogN)
	switch c.Ctor {
	case "NewRing":
		return ring.NewRing(n, c.Moduli)
	case "NewRingConjugateInvariant":
		return ring.NewRingConjugateInvariant(n, c.Moduli)
	case "NewRingFromType":
		if c.CI {
			return ring.NewRingFromType(n, c.Moduli, ring.ConjugateInvariant)
		}
		return ring.NewRingFromType(n, c.Moduli, ring.Standard)
	default:
		if c.CI {
			return ring.NewRingWithCustomNTT(n, c.Moduli, ring.NewNumberTheoreticTransformerConjugateInvariant, int(c.nthRoot()))
		}
		return ring.NewRingWithCustomNTT(n, c.Moduli, ring.NewNumberTheoreticTransformerStandard, int(c.nthRoot()))
	}
}

func genRingCtor(t *rapid.T) RingCase {
	var c RingCase
	c.Seed = rapid.Uint64().Draw(t, "seed")
	c.Ctor = rapid.SampledFrom([]string{"NewRing", "NewRingConjugateInvariant", "NewRingFromType", "NewRingWithCustomNTT"}).Draw(t, "ctor")
	c.CI = rapid.Bool().Draw(t, "ci")
	c.LogN = rapid.IntRange(4, 8).Draw(t, "logN")
	if c.Ctor == "NewRingWithCustomNTT" {
		c.RootMul = rapid.IntRange(0, 3).Draw(t, "rootMul")
	}
	m := c.nthRoot()
	n := rapid.IntRange(1, 4).Draw(t, "n")
	used := map[uint64]bool{}
	c.Moduli = h.GenPrimes(t, h.GenSizes(t, n, h.MinPrimeBits(m), 61, "q"), m, used, "q")
	c.Mut = "none"
	if rapid.IntRange(0, 9).Draw(t, "mutate") < 4 {
		return c
	}
	muts := []string{"dup", "composite", "nonNTT", "zero", "one", "empty"}
	if m > uint64(2)<<uint(c.LogN) {
		// the class that separates "1 mod 2N" from "1 mod the root order"
		muts = append(muts, "halfFriendly", "halfFriendly", "halfFriendly", "halfFriendlyAll", "stdFriendly")
	}
	c.Mut = rapid.SampledFrom(muts).Draw(t, "mut")
	i := rapid.IntRange(0, len(c.Moduli)-1).Draw(t, "idx")
	// a prime = 1 mod `lower` but not 1 mod m, of about the size of start
	between := func(start, lower uint64) uint64 {
		if start < m {
			start = m
		}
		for x := start - start%lower + 1; ; x += lower {
			if x%m != 1 && h.IsPrime64(x) && !used[x] {
				used[x] = true
				return x
			}
		}
	}
	switch c.Mut {
	case "dup":
		c.Moduli = append(c.Moduli, c.Moduli[i])
	case "composite":
		c.Moduli[i] = friendlyComposite(c.Moduli[i], m)
	case "nonNTT":
		c.Moduli[i] = nonFriendlyPrime(c.Moduli[i], uint64(2)<<uint(c.LogN))
	case "zero":
		c.Moduli[i] = 0
	case "one":
		c.Moduli[i] = 1
	case "empty":
		c.Moduli = []uint64{}
	case "halfFriendly":
		c.Moduli[i] = between(c.Moduli[i], m/2)
	case "halfFriendlyAll":
		for j := range c.Moduli {
			c.Moduli[j] = between(c.Moduli[j], m/2)
		}
	case "stdFriendly":
		c.Moduli[i] = between(c.Moduli[i], uint64(2)<<uint(c.LogN))
	}
	return c
}

func runRingCtor(c RingCase, rec *h.Rec) error {
	viol := c.violations()
	rec.Class("ctor=" + c.Ctor)
	rec.Class("mut=" + c.Mut)
	rec.Classf("ci=%v", c.ci())
	if c.Ctor == "NewRingWithCustomNTT" {
		rec.Classf("rootMul=%d", c.RootMul)
	}
	r, err := c.build()
	if err != nil {
		// (a non-nil *Ring may come with the error: ring_test.go requires it for non NTT-enabling moduli, whatever the doc says)
		if len(viol) == 0 {
			return h.Failf("C19:ring:"+c.Ctor+":rejected-valid", "distinct primes = 1 mod %d rejected: %v", c.nthRoot(), err)
		}
		rec.Class("outcome=rejected")
		if len(viol) == 1 {
			rec.NonTrivial(fmt.Sprintf("%s|ci=%v|mul=%d|rejected|%s", c.Ctor, c.ci(), c.RootMul, viol[0]))
		}
		return nil
	}
	rec.Class("outcome=accepted")
	if len(viol) > 0 {
		return h.Failf("C19:ring:"+c.Ctor+":accepted-invalid:"+viol[0], "%s(N=%d, %v) with root order %d returned no error although the moduli violate: %v",
			c.Ctor, 1<<uint(c.LogN), c.Moduli, c.nthRoot(), viol)
	}
	if r.NthRoot() != c.nthRoot() || r.N() != 1<<uint(c.LogN) || r.ModuliChainLength() != len(c.Moduli) {
		return h.Failf("C19:ring:"+c.Ctor+":shape", "N=%d NthRoot=%d #moduli=%d, want %d %d %d", r.N(), r.NthRoot(), r.ModuliChainLength(), 1<<uint(c.LogN), c.nthRoot(), len(c.Moduli))
	}
	wantType := ring.Standard
	if c.ci() {
		wantType = ring.ConjugateInvariant
	}
	if r.Type() != wantType {
		return h.Failf("C19:ring:"+c.Ctor+":type", "ring type %v, want %v", r.Type(), wantType)
	}
	// arithmetic: only for the natural root order (2N standard, 4N conjugate invariant); the product is compared with
	// the schoolbook product in Z_q[X]/(X^N+1), through the symmetric embedding into degree 2N for the CI ring
	if c.RootMul == 0 {
		if e := ringSmoke(r, "Q", c.Seed, rec); e != nil {
			return e
		}
		rec.NonTrivial(fmt.Sprintf("%s|ci=%v|accepted|n=%d", c.Ctor, c.ci(), len(c.Moduli)))
	}
	return nil
}

var propRingCtor = h.NewProp("TestPropRingCtor", h.Budget{Quick: 1600, Thorough: 30000}, genRingCtor, runRingCtor)
