package c19

import (
	"fmt"
	"math"

	"verif/internal/h"

	"github.com/tuneinsight/lattigo/v6/circuits/ckks/bootstrapping"
	"github.com/tuneinsight/lattigo/v6/ring"
	"github.com/tuneinsight/lattigo/v6/schemes/ckks"
	"pgregory.net/rapid"
)

// BootCase is a residual CKKS literal (explicit primes) plus a bootstrapping literal, all plain data.
// Prime sizes are kept in 1..61 and per-matrix sums <= 61: sizes outside make NTTFriendlyPrimesGenerator walk up to
// 2^64/NthRoot candidates (not generated, see assumptions.txt).
type BootCase struct {
	ResLogN  int      `json:"resLogN"`
	CI       bool     `json:"ci"`
	Q        []uint64 `json:"Q"`
	P        []uint64 `json:"P"`
	LogScale int      `json:"logScale"`

	LogN     *int      `json:"logN"`
	LogP     []int     `json:"logP"`
	LogSlots *int      `json:"logSlots"`
	C2S      [][]int   `json:"c2s"`
	S2C      [][]int   `json:"s2c"`
	EvalMod  *int      `json:"evalModLogScale"`
	EphH     *int      `json:"ephemeralH"`
	IterPrec []float64 `json:"iterPrec"`
	IterBits int       `json:"iterReservedBits"`
	MsgRatio *int      `json:"logMessageRatio"`
	K        *int      `json:"k"`
	Mod1Deg  *int      `json:"mod1Degree"`
	DblAngle *int      `json:"doubleAngle"`
	InvDeg   *int      `json:"mod1InvDegree"`
}

// wildSizes are prime-size requests outside the supported 1..61.
var wildSizes = []int{0, -1, -7, -64, -1 << 40, 62, 63, 64, 65, 100, 128, 1 << 20, 1 << 40}

func optInt(t *rapid.T, label string, lo, hi int, bad []int) *int {
	switch rapid.IntRange(0, 14).Draw(t, label+"_k") {
	case 0, 1, 2, 3, 4:
		return nil
	case 5:
		if len(bad) > 0 {
			v := rapid.SampledFrom(bad).Draw(t, label+"_bad")
			return &v
		}
	}
	v := rapid.IntRange(lo, hi).Draw(t, label)
	return &v
}

func genBoot(t *rapid.T) BootCase {
	var c BootCase
	c.ResLogN = rapid.IntRange(4, 8).Draw(t, "resLogN")
	c.CI = rapid.IntRange(0, 4).Draw(t, "ci") == 0
	bootLogN := c.ResLogN
	if c.CI {
		bootLogN = c.ResLogN + 1
	} else {
		bootLogN += rapid.IntRange(0, 2).Draw(t, "ringUp")
	}
	switch rapid.IntRange(0, 7).Draw(t, "logNk") {
	case 0:
		v := rapid.SampledFrom([]int{c.ResLogN - 1, c.ResLogN + 3, 3, 0, 21}).Draw(t, "badLogN")
		c.LogN = &v
	default:
		v := bootLogN
		c.LogN = &v
	}
	// residual primes = 1 mod 2^(bootLogN+1) (what the doc asks the caller to ensure), sometimes only mod 2N
	m := uint64(2) << uint(bootLogN)
	if c.CI {
		m = uint64(4) << uint(c.ResLogN)
	}
	if !c.CI && rapid.IntRange(0, 9).Draw(t, "weakRoot") == 0 {
		m = uint64(2) << uint(c.ResLogN)
	}
	used := map[uint64]bool{}
	nQ := rapid.IntRange(1, 3).Draw(t, "nQ")
	sz := make([]int, nQ)
	for i := range sz {
		sz[i] = rapid.IntRange(30, 60).Draw(t, fmt.Sprintf("qsz%d", i))
	}
	c.Q = h.GenPrimes(t, sz, m, used, "q")
	if rapid.Bool().Draw(t, "hasP") {
		c.P = h.GenPrimes(t, []int{61}, m, used, "p")
	}
	c.LogScale = rapid.IntRange(20, 50).Draw(t, "scale")
	if rapid.IntRange(0, 9).Draw(t, "prec128") == 0 {
		c.LogScale = rapid.IntRange(65, 100).Draw(t, "scale128")
	}

	if rapid.IntRange(0, 2).Draw(t, "hasLogP") == 0 {
		c.LogP = h.GenSizes(t, rapid.IntRange(0, 3).Draw(t, "nLogP"), bootLogN+8, 61, "lp")
	}
	if c.LogP != nil && len(c.LogP) > 0 && rapid.IntRange(0, 5).Draw(t, "lpWild") == 0 {
		c.LogP[rapid.IntRange(0, len(c.LogP)-1).Draw(t, "lpWildI")] = rapid.SampledFrom(wildSizes).Draw(t, "lpWildV")
	}
	c.LogSlots = optInt(t, "logSlots", 1, bootLogN-1, []int{0, -1, bootLogN, bootLogN + 5})
	mat := func(label string) [][]int {
		if rapid.IntRange(0, 2).Draw(t, label+"_nil") == 0 {
			return nil
		}
		out := make([][]int, rapid.IntRange(0, 4).Draw(t, label+"_n"))
		for i := range out {
			k := rapid.IntRange(0, 2).Draw(t, fmt.Sprintf("%s_k%d", label, i))
			budget := 61
			for j := 0; j < k; j++ {
				lo := bootLogN + 6
				if lo > 30 {
					lo = 30
				}
				if budget < lo {
					break
				}
				v := rapid.IntRange(lo, min(budget, 58)).Draw(t, fmt.Sprintf("%s_%d_%d", label, i, j))
				out[i] = append(out[i], v)
				budget -= v
			}
		}
		// a size request outside 1..61 (negative, zero, 62..65, huge), in one entry
		if len(out) > 0 && rapid.IntRange(0, 9).Draw(t, label+"_wild") == 0 {
			i := rapid.IntRange(0, len(out)-1).Draw(t, label+"_wildI")
			out[i] = append(out[i], rapid.SampledFrom(wildSizes).Draw(t, label+"_wildV"))
		}
		return out
	}
	c.C2S, c.S2C = mat("c2s"), mat("s2c")
	c.EvalMod = optInt(t, "evalMod", bootLogN+8, 60, []int{-1, 61, 0, 100})
	c.EphH = optInt(t, "ephH", 0, 64, []int{-1, 1 << uint(bootLogN), (1 << uint(bootLogN)) + 1})
	if rapid.IntRange(0, 4).Draw(t, "iter") == 0 {
		n := rapid.IntRange(0, 2).Draw(t, "iterN")
		for i := 0; i < n; i++ {
			c.IterPrec = append(c.IterPrec, rapid.SampledFrom([]float64{0, 8, 16.5, 25}).Draw(t, fmt.Sprintf("prec%d", i)))
		}
		if c.IterPrec == nil {
			c.IterPrec = []float64{}
		}
		c.IterBits = rapid.SampledFrom([]int{0, bootLogN + 8, 40, 61, 62, 100, -1, -64, -1 << 40}).Draw(t, "iterBits")
	}
	c.MsgRatio = optInt(t, "msgRatio", 0, 12, []int{-1})
	c.K = optInt(t, "K", 1, 32, []int{-1, 0})
	c.Mod1Deg = optInt(t, "mod1deg", 1, 63, []int{-1, 0})
	c.DblAngle = optInt(t, "dbl", 0, 4, []int{-1})
	c.InvDeg = optInt(t, "invdeg", 0, 9, []int{-1})
	return c
}

func runBoot(c BootCase, rec *h.Rec) error {
	rt := ring.Standard
	if c.CI {
		rt = ring.ConjugateInvariant
	}
	res, err := ckks.NewParametersFromLiteral(ckks.ParametersLiteral{LogN: c.ResLogN, Q: c.Q, P: c.P, RingType: rt, LogDefaultScale: c.LogScale})
	if err != nil {
		return h.Failf("C19:boot:residual-rejected", "valid residual literal rejected: %v", err)
	}
	lit := bootstrapping.ParametersLiteral{LogN: c.LogN, LogP: c.LogP, LogSlots: c.LogSlots, CoeffsToSlotsFactorizationDepthAndLogScales: c.C2S,
		SlotsToCoeffsFactorizationDepthAndLogScales: c.S2C, EvalModLogScale: c.EvalMod, EphemeralSecretWeight: c.EphH, LogMessageRatio: c.MsgRatio,
		K: c.K, Mod1Degree: c.Mod1Deg, DoubleAngle: c.DblAngle, Mod1InvDegree: c.InvDeg}
	if c.IterPrec != nil {
		lit.IterationsParameters = &bootstrapping.IterationsParameters{BootstrappingPrecision: c.IterPrec, ReservedPrimeBitSize: c.IterBits}
	}
	// the literal survives its own encoding
	bin, err := lit.MarshalBinary()
	if err != nil {
		return h.Failf("C19:boot:literal-marshal", "%v", err)
	}
	var lit2 bootstrapping.ParametersLiteral
	if err := lit2.UnmarshalBinary(bin); err != nil {
		return h.Failf("C19:boot:literal-unmarshal", "UnmarshalBinary(MarshalBinary(literal)): %v; %s", err, bin)
	}
	// every prime-size request the constructor will make; one outside 1..61 cannot be served
	wild := false
	for _, b := range c.LogP {
		if b < 1 || b > 61 {
			wild = true
		}
	}
	for _, mtx := range [][][]int{c.C2S, c.S2C} {
		for _, row := range mtx {
			for _, b := range row {
				if b < 1 || b > 61 {
					wild = true
				}
			}
		}
	}
	if c.IterPrec != nil && c.IterBits < 0 {
		wild = true
	}
	var bp, bp2 bootstrapping.Parameters
	var err2 error
	if !wild {
		bp, err = bootstrapping.NewParametersFromLiteral(res, lit)
		bp2, err2 = bootstrapping.NewParametersFromLiteral(res, lit2)
	} else {
		// bounded time: the prime search must not walk through 2^64/NthRoot candidates
		rec.Class("sizes=wild")
		const hk = "C19:boot:size-request-outside-1..61:does-not-return"
		pan, werr := guarded(rec, hk, "bootstrapping.NewParametersFromLiteral with a size request outside 1..61, literal "+string(bin), func() {
			bp, err = bootstrapping.NewParametersFromLiteral(res, lit)
			bp2, err2 = bootstrapping.NewParametersFromLiteral(res, lit2)
		})
		if werr != nil {
			return werr
		}
		if pan != nil {
			return h.Failf("C19:boot:size-request-outside-1..61:panic", "bootstrapping.NewParametersFromLiteral panics: %v; literal %s", pan, bin)
		}
	}
	if (err == nil) != (err2 == nil) {
		return h.Failf("C19:boot:literal-encoding-changes-outcome", "literal: %v; decoded literal: %v; %s", err, err2, bin)
	}
	if err != nil {
		rec.Class("outcome=rejected")
		rec.NonTrivial("rejected|" + errClass(err.Error()))
		return nil
	}
	rec.Class("outcome=accepted")
	if !bp.Equal(&bp2) {
		return h.Failf("C19:boot:literal-encoding-changes-parameters", "parameters built from the decoded literal differ; %s", bin)
	}
	b := bp.BootstrappingParameters
	logN := 16
	if c.LogN != nil {
		logN = *c.LogN
	}
	if b.LogN() != logN {
		return h.Failf("C19:boot:logN", "bootstrapping LogN = %d, literal %d", b.LogN(), logN)
	}
	if !bp.ResidualParameters.Equal(&res) {
		return h.Failf("C19:boot:residual-changed", "ResidualParameters differ from the input")
	}
	rq, bq := res.Q(), b.Q()
	for i := range rq {
		if i >= len(bq) || bq[i] != rq[i] {
			return h.Failf("C19:boot:Q-prefix", "residual Q %v is not a prefix of the bootstrapping Q %v", rq, bq)
		}
	}
	all := b.QP()
	if hasDup(all) {
		return h.Failf("C19:boot:moduli-not-distinct", "Q=%v P=%v", b.Q(), b.P())
	}
	m := uint64(2) << uint(logN)
	for _, q := range all {
		if !h.IsPrime64(q) || q%m != 1 {
			return h.Failf("C19:boot:modulus-not-ntt-friendly", "%d is not a prime = 1 mod %d", q, m)
		}
	}
	if c.LogP != nil {
		if len(b.P()) != len(c.LogP) {
			return h.Failf("C19:boot:P-count", "%d P primes for LogP=%v", len(b.P()), c.LogP)
		}
		for i, p := range b.P() {
			if r := int(math.Round(math.Log2(float64(p)))); r != c.LogP[i] {
				key := "C19:boot:P-size"
				if c.LogP[i] < 1 || c.LogP[i] > 61 {
					key = "C19:boot:size-request-outside-1..61:accepted-with-other-size"
				}
				msg := fmt.Sprintf("P[%d]=%d has round(log2)=%d, requested %d (LogP=%v)", i, p, r, c.LogP[i], c.LogP)
				if rec.Known(key, msg) {
					rec.Class("known=" + key)
					break
				}
				return h.Failf(key, "%s", msg)
			}
		}
	}
	// sizes of the primes appended for the circuit: reserved prime, one per SlotsToCoeffs matrix (sum of its scales, plus the
	// default scale when that stays below 61), Mod1 depth x EvalModLogScale, one per CoeffsToSlots matrix
	{
		var want []int
		if bp.IterationsParameters != nil && bp.IterationsParameters.ReservedPrimeBitSize > 0 {
			want = append(want, bp.IterationsParameters.ReservedPrimeBitSize)
		}
		s2cLit := c.S2C
		if s2cLit == nil {
			ls := logN - 1
			if c.LogSlots != nil {
				ls = *c.LogSlots
			}
			for i := 0; i < min(3, max(ls, 1)); i++ {
				s2cLit = append(s2cLit, []int{39})
			}
		}
		for _, row := range s2cLit {
			q := 0
			for _, v := range row {
				q += v
			}
			if q+res.LogDefaultScale() < 61 {
				q += res.LogDefaultScale()
			}
			want = append(want, q)
		}
		em := 60
		if c.EvalMod != nil {
			em = *c.EvalMod
		}
		for i := 0; i < bp.Mod1ParametersLiteral.Depth(); i++ {
			want = append(want, em)
		}
		c2sLit := c.C2S
		if c2sLit == nil {
			ls := logN - 1
			if c.LogSlots != nil {
				ls = *c.LogSlots
			}
			for i := 0; i < min(4, max(ls, 1)); i++ {
				c2sLit = append(c2sLit, []int{56})
			}
		}
		for _, row := range c2sLit {
			q := 0
			for _, v := range row {
				q += v
			}
			want = append(want, q)
		}
		got := b.Q()[len(res.Q()):]
		if len(got) != len(want) {
			return h.Failf("C19:boot:appended-count", "%d primes appended, the literal asks for %d (%v)", len(got), len(want), want)
		}
		for i, q := range got {
			if r := int(math.Round(math.Log2(float64(q)))); r != want[i] {
				key := "C19:boot:appended-size"
				if want[i] < 1 || want[i] > 61 {
					key = "C19:boot:size-request-outside-1..61:accepted-with-other-size"
				}
				msg := fmt.Sprintf("appended prime %d = %d has round(log2) = %d, the literal asks for %d bits (all requests %v); literal %s", i, q, r, want[i], want, bin)
				if rec.Known(key, msg) {
					rec.Class("known=" + key)
					break
				}
				return h.Failf(key, "%s", msg)
			}
		}
	}
	// level bookkeeping
	s2c, mod1, c2s := bp.SlotsToCoeffsParameters, bp.Mod1ParametersLiteral, bp.CoeffsToSlotsParameters
	reserved := 0
	if bp.IterationsParameters != nil && bp.IterationsParameters.ReservedPrimeBitSize > 0 {
		reserved = 1
	}
	if s2c.LevelQ != res.MaxLevel()+len(s2c.Levels)+reserved || mod1.LevelQ != s2c.LevelQ+mod1.Depth() || c2s.LevelQ != mod1.LevelQ+len(c2s.Levels) || b.MaxLevel() != c2s.LevelQ {
		return h.Failf("C19:boot:levels", "levels do not add up: residual %d, S2C %d (+%d matrices, reserved %d), Mod1 %d (depth %d), C2S %d (+%d matrices), MaxLevel %d",
			res.MaxLevel(), s2c.LevelQ, len(s2c.Levels), reserved, mod1.LevelQ, mod1.Depth(), c2s.LevelQ, len(c2s.Levels), b.MaxLevel())
	}
	wantSlots := logN - 1
	if c.LogSlots != nil {
		wantSlots = *c.LogSlots
	}
	if bp.LogMaxSlots() != wantSlots || bp.LogMaxDimensions().Cols != wantSlots {
		return h.Failf("C19:boot:logslots", "LogMaxSlots = %d, want %d", bp.LogMaxSlots(), wantSlots)
	}
	wantH := 32
	if c.EphH != nil {
		wantH = *c.EphH
	}
	if bp.EphemeralSecretWeight != wantH {
		return h.Failf("C19:boot:ephemeral-weight", "EphemeralSecretWeight = %d, want %d", bp.EphemeralSecretWeight, wantH)
	}
	// encodings
	pb, err := bp.MarshalBinary()
	if err != nil {
		return h.Failf("C19:boot:marshal", "%v", err)
	}
	var bp3 bootstrapping.Parameters
	if err := bp3.UnmarshalBinary(pb); err != nil {
		return h.Failf("C19:boot:unmarshal", "UnmarshalBinary(MarshalBinary(p)): %v", err)
	}
	if !bp.Equal(&bp3) {
		return h.Failf("C19:boot:encoding-not-equal", "bootstrapping.Parameters do not survive MarshalBinary/UnmarshalBinary as an Equal object")
	}
	rec.NonTrivial(fmt.Sprintf("accepted|ci=%v|up=%d|iter=%v|slots=%v|c2s=%d|s2c=%d", c.CI, logN-c.ResLogN, c.IterPrec != nil, c.LogSlots != nil, len(c2s.Levels), len(s2c.Levels)))
	return nil
}

func errClass(s string) string {
	if len(s) > 60 {
		s = s[:60]
	}
	out := []byte{}
	for i := 0; i < len(s); i++ {
		if s[i] >= '0' && s[i] <= '9' {
			continue
		}
		out = append(out, s[i])
	}
	return string(out)
}

var propBoot = h.NewProp("TestPropBootLiteral", h.Budget{Quick: 600, Thorough: 12000}, genBoot, runBoot)
