package c05

import (
	"fmt"
	"math/big"
	"math/bits"
	"testing"

	"verif/internal/h"

	"pgregory.net/rapid"
)

func TestMain(m *testing.M) { h.Main(m, "C05") }

func TestReplay(t *testing.T) { h.ReplayAll(t) }

// ---------------------------------------------------------------------------------------------------------------
// Case data (plain JSON)
// ---------------------------------------------------------------------------------------------------------------

// Init describes one initial pool element (a fresh ciphertext or a plaintext).
type Init struct {
	Pt    bool   `json:"pt,omitempty"`
	Level int    `json:"level"` // reduced mod (maxLevel+1)
	Scale uint64 `json:"scale"` // reduced into [1,t-1]
	Pat   string `json:"pat"`
	Seed  uint64 `json:"seed"`
	SK    bool   `json:"sk,omitempty"`   // encrypt under the secret key instead of the public key
	Flip  bool   `json:"flip,omitempty"` // plaintext only: encoded in the OTHER domain than the program (IsBatched mismatch: documented error)
}

// Operand describes the second operand of a binary operation.
type Operand struct {
	Kind string `json:"kind"`          // ct pt big u64 i64 int vu64 vi64
	Idx  int    `json:"idx,omitempty"` // pool selector for ct / pt
	Val  string `json:"val,omitempty"` // decimal integer for the scalar kinds
	Pat  string `json:"pat,omitempty"` // value pattern for the vector kinds
	Seed uint64 `json:"seed,omitempty"`
	Len  int    `json:"len,omitempty"` // vector length selector: 0 full, 1 half, 2 one, 3 slots+1 (oversize)
}

// Step is one evaluator call.
type Step struct {
	Op       string  `json:"op"`
	A        int     `json:"a"` // selector of op0 among the live ciphertexts
	B        Operand `json:"b"`
	Acc      int     `json:"acc,omitempty"`      // selector of the accumulator (MulThenAdd forms) / second ct (MatchScalesAndLevel)
	AccAlias bool    `json:"accAlias,omitempty"` // MulThenAdd with ct operand: use op0 as accumulator (documented error)
	OutLevel int     `json:"outLevel,omitempty"` // fresh output: 0 natural level, 1 maximum level, 2 natural-1
	OutDeg   int     `json:"outDeg,omitempty"`   // fresh output of Add/Sub: 0 natural degree, 1 degree 2
	OutReg   int     `json:"outReg,omitempty"`   // non-New forms: 0 fresh output; k>0 an existing pool ciphertext other than the inputs (even k prefers one of degree 2)
	N        int     `json:"n,omitempty"`        // DropLevel: number of levels (reduced mod level+1)
	Deg0     bool    `json:"deg0,omitempty"`     // use a degree-0 ciphertext as op0 (plaintext-only operands: documented error)
}

// ProgCase is a straight-line program over one parameter set.
type ProgCase struct {
	Params h.BGVSpec `json:"params"`
	BFV    bool      `json:"bfv"`              // scale-invariant evaluator
	NoRlk  bool      `json:"noRlk,omitempty"`  // evaluator without relinearisation key
	Coeffs bool      `json:"coeffs,omitempty"` // coefficient-domain program: every plaintext / ciphertext has IsBatched = false
	// relinearisation key parameters: RlkLevelP = k > 0 uses #P-1-(k mod #P) auxiliary primes (only with >= 2 P);
	// RlkBase2 = w > 0 asks for base-2^w digits (honoured by lattigo only when the key has at most one P)
	RlkLevelP int    `json:"rlkLevelP,omitempty"`
	RlkBase2  int    `json:"rlkBase2,omitempty"`
	Seed      uint64 `json:"seed"`
	Init      []Init `json:"init"`
	Steps     []Step `json:"steps"`
}

func (c ProgCase) RandSeed() uint64 { return c.Seed }

// ---------------------------------------------------------------------------------------------------------------
// Generators (rapid draws only)
// ---------------------------------------------------------------------------------------------------------------

var slotPatterns = []string{"uniform", "uniform", "zero", "one", "max", "half", "mix"}
var signedPatterns = []string{"uniform", "extremes", "mix", "negt", "zero"}

var scalarKinds = []string{"big", "u64", "i64", "int"}

var opNames = []string{
	"Add", "AddNew", "Sub", "SubNew",
	"Mul", "MulNew", "MulRelin", "MulRelinNew",
	"MulThenAdd", "MulRelinThenAdd",
	"MulScaleInvariant", "MulScaleInvariantNew", "MulRelinScaleInvariant", "MulRelinScaleInvariantNew",
	"Rescale", "RescaleInPlace", "DropLevel", "MatchScalesAndLevel", "Relinearize", "RelinearizeNew",
}

// weights (same order as opNames)
var opWeights = []int{
	5, 5, 5, 5,
	5, 5, 5, 6,
	6, 6,
	3, 3, 3, 4,
	4, 5, 3, 4, 2, 2,
}

func drawWeighted(t *rapid.T, w []int, label string) int {
	tot := 0
	for _, x := range w {
		tot += x
	}
	r := rapid.IntRange(0, tot-1).Draw(t, label)
	for i, x := range w {
		if r < x {
			return i
		}
		r -= x
	}
	return len(w) - 1
}

// genPlainModulus draws a prime t = 1 mod 2^(logn+1) with about tbits bits, t <= q0/2 (required by bgv.NewParameters), not in used.
func genPlainModulus(t *rapid.T, logn, tbits int, q0 uint64, used map[uint64]bool) uint64 {
	m := uint64(2) << logn
	pick := rapid.IntRange(0, 23).Draw(t, "t_pick")
	if mb := h.MinPrimeBits(m); tbits < mb {
		tbits = mb
	}
	for b := tbits; b >= 5; b-- {
		cands := append(h.Primes(b, m, 12, false), h.Primes(b, m, 12, true)...)
		var avail []uint64
		seen := map[uint64]bool{}
		for _, p := range cands {
			if p <= q0>>1 && !used[p] && !seen[p] {
				avail = append(avail, p)
				seen[p] = true
			}
		}
		if len(avail) > 0 {
			return avail[pick%len(avail)]
		}
	}
	// go upward if nothing below (tiny tbits with large m)
	for b := tbits + 1; b <= 60; b++ {
		for _, p := range h.Primes(b, m, 12, false) {
			if p <= q0>>1 && !used[p] {
				return p
			}
		}
	}
	t.Fatalf("no plaintext modulus")
	return 0
}

func genParams(t *rapid.T) h.BGVSpec {
	var s h.BGVSpec
	if h.Thorough() {
		// log2 N up to 10, the large rings less often (cost)
		s.LogN = []int{4, 5, 6, 7, 4, 5, 6, 7, 5, 6, 8, 8, 9, 10}[rapid.IntRange(0, 13).Draw(t, "logN")]
	} else {
		s.LogN = rapid.IntRange(4, 7).Draw(t, "logN")
	}
	s.NTT = true
	s.Xs, s.Xe = h.DefaultXs, h.DefaultXe
	if rapid.IntRange(0, 3).Draw(t, "distk") == 3 {
		// non-default secret / error distributions (ternary with other densities or fixed Hamming weight, Gaussian
		// secret; narrow / wide Gaussian or ternary error); the noise model takes its constants from them
		s.Xs = h.GenDist(t, true, 1<<s.LogN, "xs")
		s.Xe = h.GenDist(t, false, 1<<s.LogN, "xe")
	}
	m := uint64(2) << s.LogN
	nQ := rapid.IntRange(1, 5).Draw(t, "nQ")
	nP := []int{1, 1, 1, 2, 2, 0}[rapid.IntRange(0, 5).Draw(t, "nP")] // 0: no auxiliary modulus at all
	used := map[uint64]bool{}
	qs := h.GenSizes(t, nQ, 30, 60, "q")
	s.Q = h.GenPrimes(t, qs, m, used, "q")
	maxq := 0
	for _, b := range qs {
		if b > maxq {
			maxq = b
		}
	}
	var ps []int
	if rapid.IntRange(0, 4).Draw(t, "pmode") == 0 {
		ps = h.GenSizes(t, nP, 40, 61, "p") // possibly smaller than the Q primes: large key-switch noise
	} else {
		lo := maxq
		if lo < 50 {
			lo = 50
		}
		ps = h.GenSizes(t, nP, lo, 61, "p")
	}
	if nP > 0 {
		s.P = h.GenPrimes(t, ps, m, used, "p")
	}

	// plaintext modulus
	logn := s.LogN
	if rapid.IntRange(0, 9).Draw(t, "gapk") >= 6 {
		logn = rapid.IntRange(3, s.LogN).Draw(t, "logn")
	}
	q0bits := bits.Len64(s.Q[0])
	hi := q0bits
	if hi > 60 {
		hi = 60
	}
	var tbits int
	switch rapid.IntRange(0, 7).Draw(t, "tbk") {
	case 0:
		tbits = 8
	case 1:
		tbits = 17
	case 2:
		tbits = hi
	case 3:
		tbits = hi - 1
	default:
		tbits = rapid.IntRange(8, hi).Draw(t, "tbits")
	}
	s.T = genPlainModulus(t, logn, tbits, s.Q[0], used)
	return s
}

func genScale(t *rapid.T, tmod uint64, label string) uint64 {
	switch rapid.IntRange(0, 9).Draw(t, label+"k") {
	case 0, 1, 2, 3:
		return 1
	case 4, 5:
		return uint64(rapid.IntRange(2, 7).Draw(t, label+"s"))
	case 6:
		return tmod - 1
	default:
		return rapid.Uint64Range(1, tmod-1).Draw(t, label+"u")
	}
}

// genScalarString draws an integer (decimal string) from classes that depend on t.
func genScalarString(t *rapid.T, tmod uint64, kind string, label string) string {
	T := new(big.Int).SetUint64(tmod)
	half := new(big.Int).Rsh(T, 1)
	one := big.NewInt(1)
	two63 := new(big.Int).Lsh(one, 63)
	two64 := new(big.Int).Lsh(one, 64)
	v := new(big.Int)
	ncls := 16
	if kind == "big" {
		ncls = 18
	}
	switch rapid.IntRange(0, ncls-1).Draw(t, label+"_cls") {
	case 0, 1:
		v.SetUint64(rapid.Uint64Range(0, tmod-1).Draw(t, label+"_u"))
	case 2:
		v.SetInt64(0)
	case 3:
		v.SetInt64(1)
	case 4:
		v.Sub(T, one)
	case 5:
		v.Set(half)
	case 6:
		v.Add(half, one)
	case 7:
		v.SetInt64(-1)
	case 8:
		v.Neg(T)
	case 9:
		v.Neg(T).Sub(v, one)
	case 10:
		v.Neg(two63) // MinInt64
	case 11:
		v.Sub(two63, one) // MaxInt64
	case 12:
		v.Set(two63)
	case 13:
		v.Sub(two64, one)
	case 14:
		v.Set(T)
	case 15:
		v.SetInt64(int64(rapid.IntRange(2, 9).Draw(t, label+"_s")))
	case 16:
		v.Add(two64, new(big.Int).SetUint64(rapid.Uint64().Draw(t, label+"_b")))
	case 17:
		v.Lsh(one, 70).Add(v, new(big.Int).SetUint64(rapid.Uint64().Draw(t, label+"_b"))).Neg(v)
	}
	return v.String()
}

func genOperand(t *rapid.T, tmod uint64, label string) Operand {
	var o Operand
	switch k := rapid.IntRange(0, 19).Draw(t, label+"_kind"); {
	case k < 7:
		o.Kind = "ct"
		o.Idx = rapid.IntRange(0, 7).Draw(t, label+"_idx")
	case k < 10:
		o.Kind = "pt"
		o.Idx = rapid.IntRange(0, 3).Draw(t, label+"_idx")
	case k < 15:
		o.Kind = scalarKinds[rapid.IntRange(0, 3).Draw(t, label+"_sk")]
		o.Val = genScalarString(t, tmod, o.Kind, label)
	default:
		if rapid.Bool().Draw(t, label+"_signed") {
			o.Kind = "vi64"
			o.Pat = signedPatterns[rapid.IntRange(0, len(signedPatterns)-1).Draw(t, label+"_pat")]
		} else {
			o.Kind = "vu64"
			o.Pat = slotPatterns[rapid.IntRange(0, len(slotPatterns)-1).Draw(t, label+"_pat")]
		}
		o.Seed = rapid.Uint64().Draw(t, label+"_seed")
		switch rapid.IntRange(0, 15).Draw(t, label+"_len") {
		case 12, 13:
			o.Len = 1
		case 14:
			o.Len = 2
		case 15:
			o.Len = 3
		}
	}
	return o
}

func genProg(t *rapid.T) ProgCase {
	var c ProgCase
	c.Params = genParams(t)
	c.BFV = rapid.IntRange(0, 2).Draw(t, "mode") == 2
	c.NoRlk = rapid.IntRange(0, 11).Draw(t, "norlk") == 11
	c.Seed = rapid.Uint64().Draw(t, "seed")
	c.Coeffs = rapid.IntRange(0, 4).Draw(t, "coeffs") == 4
	if rapid.IntRange(0, 3).Draw(t, "rlkLevelP") == 3 {
		c.RlkLevelP = 1
	}
	if rapid.IntRange(0, 4).Draw(t, "rlkBase2k") == 4 {
		c.RlkBase2 = rapid.IntRange(6, 30).Draw(t, "rlkBase2")
	}
	tmod := c.Params.T

	nct := rapid.IntRange(2, 4).Draw(t, "nct")
	npt := rapid.IntRange(1, 2).Draw(t, "npt")
	for i := 0; i < nct+npt; i++ {
		l := fmt.Sprintf("init%d", i)
		in := Init{Pt: i >= nct}
		switch rapid.IntRange(0, 3).Draw(t, l+"_lk") {
		case 3:
			in.Level = rapid.IntRange(0, 4).Draw(t, l+"_level")
		default:
			in.Level = len(c.Params.Q) - 1
		}
		in.Scale = genScale(t, tmod, l+"_scale")
		in.Pat = slotPatterns[rapid.IntRange(0, len(slotPatterns)-1).Draw(t, l+"_pat")]
		in.Seed = rapid.Uint64().Draw(t, l+"_seed")
		in.SK = rapid.IntRange(0, 3).Draw(t, l+"_sk") == 3
		if in.Pt {
			in.Flip = rapid.IntRange(0, 11).Draw(t, l+"_flip") == 11
		}
		c.Init = append(c.Init, in)
	}

	maxSteps := 12
	if h.Thorough() {
		maxSteps = 25
	}
	ns := rapid.IntRange(1, maxSteps).Draw(t, "nsteps")
	for i := 0; i < ns; i++ {
		l := fmt.Sprintf("s%d", i)
		var s Step
		s.Op = opNames[drawWeighted(t, opWeights, l+"_op")]
		s.A = rapid.IntRange(0, 7).Draw(t, l+"_a")
		switch s.Op {
		case "Rescale", "RescaleInPlace", "Relinearize", "RelinearizeNew":
		case "DropLevel":
			s.N = rapid.IntRange(0, 4).Draw(t, l+"_n")
		case "MatchScalesAndLevel":
			s.Acc = rapid.IntRange(0, 7).Draw(t, l+"_acc")
		default:
			s.B = genOperand(t, tmod, l+"_b")
		}
		switch s.Op {
		case "MulThenAdd", "MulRelinThenAdd":
			s.Acc = rapid.IntRange(0, 7).Draw(t, l+"_acc")
			s.AccAlias = rapid.IntRange(0, 19).Draw(t, l+"_alias") == 19
		case "Add", "Sub", "Mul", "MulRelin", "MulScaleInvariant", "MulRelinScaleInvariant", "Rescale", "Relinearize":
			switch rapid.IntRange(0, 5).Draw(t, l+"_ol") {
			case 4:
				s.OutLevel = 1
			case 5:
				s.OutLevel = 2
			}
			if s.Op == "Add" || s.Op == "Sub" {
				if rapid.IntRange(0, 5).Draw(t, l+"_od") == 5 {
					s.OutDeg = 1
				}
			}
			if r := rapid.IntRange(0, 13).Draw(t, l+"_oreg"); r >= 8 {
				s.OutReg = r - 7 // 1..6
			}
		}
		switch s.Op {
		case "Add", "AddNew", "Sub", "SubNew", "Mul", "MulNew":
			s.Deg0 = rapid.IntRange(0, 39).Draw(t, l+"_deg0") == 39
		}
		c.Steps = append(c.Steps, s)
	}
	return c
}

// ---------------------------------------------------------------------------------------------------------------
// Modular helpers (independent of lattigo)
// ---------------------------------------------------------------------------------------------------------------

func mulmod(a, b, q uint64) uint64 {
	hi, lo := bits.Mul64(a%q, b%q)
	_, r := bits.Div64(hi, lo, q)
	return r
}

func addmod(a, b, q uint64) uint64 {
	s, c := bits.Add64(a%q, b%q, 0)
	if c != 0 || s >= q {
		s -= q
	}
	return s
}

func submod(a, b, q uint64) uint64 { return addmod(a, q-b%q, q) }

func powmod(a, e, q uint64) uint64 {
	r := uint64(1) % q
	a %= q
	for e > 0 {
		if e&1 == 1 {
			r = mulmod(r, a, q)
		}
		a = mulmod(a, a, q)
		e >>= 1
	}
	return r
}

func invmod(a, q uint64) uint64 { return powmod(a, q-2, q) } // q prime

func bigModU(x *big.Int, q uint64) uint64 {
	return h.Mod(x, new(big.Int).SetUint64(q)).Uint64()
}

var propProg = h.NewProp("TestPropProgram", h.Budget{Quick: 2400, Thorough: 60000}, genProg, runProg)

func TestPropProgram(t *testing.T) { propProg.Check(t) }
