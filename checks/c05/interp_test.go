package c05

import (
	"errors"
	"fmt"
	"math"
	"math/big"
	"os"
	"strings"

	"verif/internal/h"

	"github.com/tuneinsight/lattigo/v6/core/rlwe"
	"github.com/tuneinsight/lattigo/v6/schemes/bgv"
)

// entry is one pool element: a lattigo object, its model vector over Z_t and a hard bound B on the infinity norm of
// v = [T * Dec(ct)]_Q (centred), the quantity that must stay below Q/2 for decoding to be exact.
type entry struct {
	ct      *rlwe.Ciphertext
	pt      *rlwe.Plaintext
	vals    []uint64
	B       *big.Int
	dead    bool // noise bound over budget: no claim is made about it and it is not used any more
	flipped bool // plaintext encoded in the other domain (IsBatched differs from the program's)
}

func (e *entry) level() int {
	if e.ct != nil {
		return e.ct.Level()
	}
	return e.pt.Level()
}

func (e *entry) degree() int {
	if e.ct != nil {
		return e.ct.Degree()
	}
	return 0
}

func (e *entry) scale() uint64 {
	if e.ct != nil {
		return e.ct.Scale.Uint64()
	}
	return e.pt.Scale.Uint64()
}

type ctx struct {
	c         ProgCase
	rec       *h.Rec
	params    bgv.Parameters
	t         uint64
	tB        *big.Int
	N         int
	slots     int
	maxLevel  int
	Q         []*big.Int // modulus at each level (product of the case's own primes)
	eks       []*big.Int // key-switch noise bound (on Dec, not multiplied by T) per level
	ecd       *bgv.Encoder
	encPk     *rlwe.Encryptor
	encSk     *rlwe.Encryptor
	dec       *rlwe.Decryptor
	sk        *rlwe.SecretKey
	eval      *bgv.Evaluator
	mode      string
	hasRlk    bool
	pool      []*entry
	calib     bool
	Be, S1    int64 // |error coefficient| <= Be, ||secret||_1 <= S1
	rlkLevelP int
	rlkBase2  int
	qmulClash bool // a Q prime is also a prime of the auxiliary basis QMul chosen by bgv.NewParameters (never generated; replay only)

	// bookkeeping for the non-trivial rule
	trace       []string
	mulThenOp   bool
	sawMul      bool
	mismatch    bool
	reused      bool
	argModified string
	nonCt       bool
	errCases    int
	overBudget  int
	minMarginLg float64
}

var errKnown = errors.New("known finding")

// fail returns a failure unless the key is a listed known finding (then errKnown).
func (x *ctx) fail(key, format string, a ...any) error {
	msg := fmt.Sprintf(format, a...)
	if x.rec.Known(key, msg) {
		x.rec.Class("known=" + key)
		return errKnown
	}
	return h.Failf(key, "%s", msg)
}

func bi(v int64) *big.Int { return big.NewInt(v) }

func mulB(a *big.Int, bs ...*big.Int) *big.Int {
	r := new(big.Int).Set(a)
	for _, b := range bs {
		r.Mul(r, b)
	}
	return r
}

func addB(a *big.Int, bs ...*big.Int) *big.Int {
	r := new(big.Int).Set(a)
	for _, b := range bs {
		r.Add(r, b)
	}
	return r
}

func newCtx(c ProgCase, rec *h.Rec) (*ctx, error) {
	params, err := c.Params.Build()
	if err != nil {
		return nil, h.Failf("C05:harness:params", "parameters rejected: %v", err)
	}
	x := &ctx{c: c, rec: rec, params: params, t: params.PlaintextModulus(), N: params.N(), slots: params.MaxSlots(), maxLevel: params.MaxLevel()}
	if x.t != c.Params.T {
		return nil, h.Failf("C05:harness:params", "plaintext modulus mismatch")
	}
	x.tB = h.BU(x.t)
	x.calib = os.Getenv("C05_CALIB") != ""
	x.minMarginLg = math.Inf(1)
	for l := 0; l <= x.maxLevel; l++ {
		x.Q = append(x.Q, h.ProdU(c.Params.Q[:l+1]))
	}
	// distribution-dependent constants: |e| <= Be, ||s||_1 <= S1 (also for the ephemeral secret of public-key encryption)
	x.Be = int64(c.Params.Xe.AbsBound())
	if x.Be < 1 {
		x.Be = 1
	}
	x.S1 = int64(h.SecretL1(c.Params.Xs, x.N))
	if x.S1 < 1 {
		x.S1 = 1
	}
	// relinearisation-key parameterisation: LevelP in -1..#P-1, power-of-two digits only when LevelP <= 0
	nP := len(c.Params.P)
	x.rlkLevelP = nP - 1
	if nP > 1 && c.RlkLevelP > 0 {
		x.rlkLevelP = nP - 1 - c.RlkLevelP%nP
	}
	if x.rlkLevelP <= 0 && c.RlkBase2 > 0 {
		x.rlkBase2 = c.RlkBase2
	}
	// key-switch noise bound per level (on Dec, not multiplied by T):
	//   RNS digits (w = 0):  sum over digits of N * (alpha+1) * Qdigit * Be / P
	//   base-2^w digits:     sum over primes of (ceil(bits(q)/w)+1) * N * 2^w * 2*Be / P
	// plus the rounding of the division by P, (alpha+2)(1+S1)+1
	alpha := x.rlkLevelP + 1
	P := bi(1)
	if x.rlkLevelP >= 0 {
		P = h.ProdU(c.Params.P[:x.rlkLevelP+1])
	}
	if alpha < 1 {
		alpha = 1
	}
	for l := 0; l <= x.maxLevel; l++ {
		sum := new(big.Int)
		if x.rlkBase2 > 0 {
			for j := 0; j <= l; j++ {
				nd := (h.BU(c.Params.Q[j]).BitLen() + x.rlkBase2 - 1) / x.rlkBase2
				sum.Add(sum, mulB(new(big.Int).Lsh(bi(1), uint(x.rlkBase2)), bi(int64(nd+1)), bi(int64(x.N)), bi(2*x.Be)))
			}
		} else {
			for j := 0; j*alpha <= l; j++ {
				hi := (j + 1) * alpha
				if hi > l+1 {
					hi = l + 1
				}
				qd := h.ProdU(c.Params.Q[j*alpha : hi])
				sum.Add(sum, mulB(qd, bi(int64(x.N)), bi(int64(alpha+1)), bi(x.Be)))
			}
		}
		sum.Div(sum, P)
		sum.Add(sum, bi(int64(alpha+2)*(1+x.S1)+1))
		x.eks = append(x.eks, sum)
	}

	for _, qm := range params.RingQMul().ModuliChain() {
		for _, q := range c.Params.Q {
			if q == qm {
				x.qmulClash = true
			}
		}
	}

	kgen := rlwe.NewKeyGenerator(params)
	sk, pk := kgen.GenKeyPairNew()
	x.sk = sk
	x.ecd = bgv.NewEncoder(params)
	x.encPk = rlwe.NewEncryptor(params, pk)
	x.encSk = rlwe.NewEncryptor(params, sk)
	x.dec = rlwe.NewDecryptor(params, sk)
	var evk *rlwe.MemEvaluationKeySet
	if c.NoRlk {
		evk = rlwe.NewMemEvaluationKeySet(nil)
	} else {
		lp, w := x.rlkLevelP, x.rlkBase2
		evk = rlwe.NewMemEvaluationKeySet(kgen.GenRelinearizationKeyNew(sk, rlwe.EvaluationKeyParameters{LevelP: &lp, BaseTwoDecomposition: &w}))
		x.hasRlk = true
	}
	x.eval = bgv.NewEvaluator(params, evk, c.BFV)
	x.mode = "bgv"
	if c.BFV {
		x.mode = "bfv"
	}
	return x, nil
}

// ---------------------------------------------------------------------------------------------------------------
// values
// ---------------------------------------------------------------------------------------------------------------

func (x *ctx) slotValues(pat string, seed uint64) []uint64 {
	rng := h.NewSplitMix(seed)
	t := x.t
	out := make([]uint64, x.slots)
	special := []uint64{0, 1, t - 1, t / 2, t/2 + 1, t/2 - 1}
	for i := range out {
		switch pat {
		case "zero":
		case "one":
			out[i] = 1
		case "max":
			out[i] = t - 1
		case "half":
			out[i] = t/2 + uint64(i&1)
		case "mix":
			if rng.Intn(2) == 0 {
				out[i] = special[rng.Intn(len(special))]
			} else {
				out[i] = rng.Uint64() % t
			}
		default:
			out[i] = rng.Uint64() % t
		}
	}
	return out
}

// signedValues returns n int64 values and their residues mod t.
func (x *ctx) signedValues(pat string, seed uint64, n int) ([]int64, []uint64) {
	rng := h.NewSplitMix(seed)
	t := int64(x.t)
	ext := []int64{math.MinInt64, math.MaxInt64, -t, -t - 1, -1, t, t + 1, math.MinInt64 + 1, -t + 1, 0, 1}
	v := make([]int64, n)
	for i := range v {
		switch pat {
		case "zero":
		case "extremes":
			v[i] = ext[rng.Intn(len(ext))]
		case "negt":
			v[i] = -t - int64(rng.Intn(3)) + 1
		case "mix":
			if rng.Intn(2) == 0 {
				v[i] = ext[rng.Intn(len(ext))]
			} else {
				v[i] = int64(rng.Uint64()) // all of int64
			}
		default:
			v[i] = int64(rng.Uint64()%x.t) - t/2 // centred
		}
	}
	m := make([]uint64, n)
	for i := range v {
		m[i] = bigModU(big.NewInt(v[i]), x.t)
	}
	return v, m
}

func (x *ctx) vecOp(f func(a, b, q uint64) uint64, a, b []uint64) []uint64 {
	out := make([]uint64, len(a))
	for i := range a {
		out[i] = f(a[i], b[i], x.t)
	}
	return out
}

// mulVals is the product of two plaintext values: slot-wise for batched programs, the negacyclic convolution in
// Z_t[Y]/(Y^n+1) for coefficient-domain programs (n = degree of the plaintext ring).
func (x *ctx) mulVals(a, b []uint64) []uint64 {
	if !x.c.Coeffs {
		return x.vecOp(mulmod, a, b)
	}
	n := len(a)
	out := make([]uint64, n)
	for i := 0; i < n; i++ {
		if a[i] == 0 {
			continue
		}
		for j := 0; j < n; j++ {
			if b[j] == 0 {
				continue
			}
			p := mulmod(a[i], b[j], x.t)
			if k := i + j; k >= n {
				out[k-n] = submod(out[k-n], p, x.t)
			} else {
				out[k] = addmod(out[k], p, x.t)
			}
		}
	}
	return out
}

// addScalarVals adds / subtracts the constant c: to every slot of a batched value, to the constant coefficient of a
// coefficient-domain value (the scalar is the constant polynomial in both cases).
func (x *ctx) addScalarVals(f func(a, b, q uint64) uint64, a []uint64, c uint64) []uint64 {
	if !x.c.Coeffs {
		return x.vecScalar(f, a, c)
	}
	out := append([]uint64(nil), a...)
	out[0] = f(out[0], c, x.t)
	return out
}

func (x *ctx) vecScalar(f func(a, b, q uint64) uint64, a []uint64, s uint64) []uint64 {
	out := make([]uint64, len(a))
	for i := range a {
		out[i] = f(a[i], s, x.t)
	}
	return out
}

// ---------------------------------------------------------------------------------------------------------------
// pool
// ---------------------------------------------------------------------------------------------------------------

func (x *ctx) freshBound() *big.Int {
	// v = m + T*e with m in [0,t) and |e| <= Be*(2N+1) + N + 2 (public-key encryption, ternary secret/ephemeral)
	e := bi(x.Be*(2*x.S1+1) + x.S1 + 2)
	return addB(x.tB, mulB(x.tB, e))
}

func (x *ctx) addInit(in Init) error {
	level := in.Level % (x.maxLevel + 1)
	scale := in.Scale % x.t
	if scale == 0 {
		scale = 1
	}
	vals := x.slotValues(in.Pat, in.Seed)
	pt := bgv.NewPlaintext(x.params, level)
	pt.Scale = x.params.NewScale(scale)
	pt.IsBatched = !x.c.Coeffs
	if in.Pt && in.Flip {
		pt.IsBatched = x.c.Coeffs
	}
	if err := x.ecd.Encode(vals, pt); err != nil {
		return h.Failf("C05:init:encode", "Encode: %v", err)
	}
	if in.Pt {
		x.pool = append(x.pool, &entry{pt: pt, vals: vals, B: new(big.Int).Set(x.tB), flipped: in.Flip})
		return nil
	}
	enc := x.encPk
	if in.SK {
		enc = x.encSk
	}
	ct, err := enc.EncryptNew(pt)
	if err != nil {
		return h.Failf("C05:init:encrypt", "EncryptNew: %v", err)
	}
	e := &entry{ct: ct, vals: vals, B: x.freshBound()}
	sc := scale
	if err := x.verify(e, "C05:init", 1, level, &sc, 0); err != nil {
		return err
	}
	x.pool = append(x.pool, e)
	return nil
}

func (x *ctx) liveCts() []*entry {
	var out []*entry
	for _, e := range x.pool {
		if e.ct != nil && !e.dead {
			out = append(out, e)
		}
	}
	return out
}

func (x *ctx) pts() []*entry {
	var out []*entry
	for _, e := range x.pool {
		if e.pt != nil {
			out = append(out, e)
		}
	}
	return out
}

func pick(list []*entry, sel int, avoid ...*entry) *entry {
	n := len(list)
	for k := 0; k < n; k++ {
		e := list[((sel%n)+n+k)%n]
		ok := true
		for _, a := range avoid {
			if a == e {
				ok = false
			}
		}
		if ok {
			return e
		}
	}
	return nil
}

// budgetOK reports whether the bound leaves a factor 8 below Q at the level.
func (x *ctx) budgetOK(B *big.Int, level int) bool {
	return new(big.Int).Lsh(B, 3).Cmp(x.Q[level]) < 0
}

func (x *ctx) decode(ct *rlwe.Ciphertext, scale uint64) ([]uint64, error) {
	pt := x.dec.DecryptNew(ct)
	if scale != 0 {
		pt.Scale = x.params.NewScale(scale)
	}
	got := make([]uint64, x.slots)
	if err := x.ecd.Decode(pt, got); err != nil {
		return nil, err
	}
	return got, nil
}

// actualNorm measures |[T*Dec(ct)]_Q|_inf with lattigo's own ring code (diagnostics / calibration only).
func (x *ctx) actualNorm(ct *rlwe.Ciphertext) *big.Int {
	pt := x.dec.DecryptNew(ct)
	ringQ := x.params.RingQ().AtLevel(ct.Level())
	tmp := ringQ.NewPoly()
	ringQ.INTT(pt.Value, tmp)
	ringQ.MulScalar(tmp, x.t, tmp)
	coeffs := make([]*big.Int, x.N)
	for i := range coeffs {
		coeffs[i] = new(big.Int)
	}
	ringQ.PolyToBigintCentered(tmp, 1, coeffs)
	return h.InfNorm(coeffs)
}

func firstDiff(a, b []uint64) int {
	for i := range a {
		if a[i] != b[i] {
			return i
		}
	}
	return -1
}

// verify checks recorded degree / level / (documented) scale, then exact decoding with the recorded scale when the
// noise bound is inside the budget. altScale != 0 is an alternative scale tried only to name the failure precisely.
func (x *ctx) verify(e *entry, key string, wantDeg, wantLvl int, wantScale *uint64, altScale uint64) error {
	ct := e.ct
	if wantDeg < 0 {
		wantDeg = ct.Degree()
	}
	if wantLvl < 0 {
		wantLvl = ct.Level()
	}
	if ct.Degree() != wantDeg {
		return x.fail(key+":degree", "recorded degree %d, documented %d%s", ct.Degree(), wantDeg, x.decodeNote(e))
	}
	if ct.Level() != wantLvl {
		return x.fail(key+":level", "recorded level %d, documented %d%s", ct.Level(), wantLvl, x.decodeNote(e))
	}
	for i := range ct.Value {
		if ct.Value[i].Level() != wantLvl {
			return x.fail(key+":level", "component %d has level %d, ciphertext level %d", i, ct.Value[i].Level(), wantLvl)
		}
	}
	if s := ct.Scale.Uint64(); s == 0 || s >= x.t || !ct.Scale.Value.IsInt() {
		return x.fail(key+":scale-range", "recorded scale %s is not in [1,t)", ct.Scale.Value.Text('f', 3))
	}
	if wantScale != nil && ct.Scale.Uint64() != *wantScale {
		if err := x.fail(key+":scale", "recorded scale %d, documented %d (t=%d)", ct.Scale.Uint64(), *wantScale, x.t); err != errKnown {
			return err
		}
		// known: go on with the recorded scale
	}
	if !x.budgetOK(e.B, wantLvl) {
		e.dead = true
		x.overBudget++
		x.rec.Class("over-budget@" + strings.TrimPrefix(key, "C05:"))
		return nil
	}
	x.rec.Class("asserted@" + strings.TrimPrefix(key, "C05:"))
	got, err := x.decode(ct, 0)
	if err != nil {
		return x.fail(key+":decode-error", "Decode: %v", err)
	}
	if m := float64(x.Q[wantLvl].BitLen() - e.B.BitLen()); m < x.minMarginLg {
		x.minMarginLg = m
	}
	if i := firstDiff(got, e.vals); i >= 0 {
		suffix := ":decode"
		extra := ""
		if altScale != 0 && altScale != ct.Scale.Uint64() {
			if g2, err2 := x.decode(ct, altScale); err2 == nil && firstDiff(g2, e.vals) < 0 {
				suffix = ":scale-not-propagated"
				key = familyKey(key)
				extra = fmt.Sprintf("; decoding with op0's scale %d instead of the recorded %d gives the exact result", altScale, ct.Scale.Uint64())
			}
		}
		// self-diagnosis: a mismatch that disappears when the same ciphertext is decrypted and decoded again (or with a
		// fresh decryptor / encoder) is not a property of the ciphertext
		if g2, err2 := x.decode(ct, 0); err2 == nil && firstDiff(g2, e.vals) < 0 {
			suffix, extra = ":nonreproducible", extra+"; a second Decrypt+Decode of the same ciphertext gives the model value"
		} else {
			ecd2, dec2 := bgv.NewEncoder(x.params), rlwe.NewDecryptor(x.params, x.sk)
			g3 := make([]uint64, x.slots)
			if err3 := ecd2.Decode(dec2.DecryptNew(ct), g3); err3 == nil && firstDiff(g3, e.vals) < 0 {
				suffix, extra = ":nonreproducible", extra+"; a fresh Decryptor+Encoder decode the same ciphertext to the model value"
			}
		}
		act := x.actualNorm(ct)
		return x.fail(key+suffix, "slot %d: decoded %d, model %d (t=%d, recorded scale %d, level %d, degree %d, noise bound 2^%d, measured |T*Dec| 2^%d, Q 2^%d)%s",
			i, got[i], e.vals[i], x.t, ct.Scale.Uint64(), ct.Level(), ct.Degree(), e.B.BitLen(), act.BitLen(), x.Q[wantLvl].BitLen(), extra)
	}
	if x.calib {
		// calibration of the noise model (C05_CALIB=1, development only): the measured norm must not exceed the bound
		act := x.actualNorm(ct)
		if act.Cmp(e.B) > 0 {
			return h.Failf("C05:calibration:"+key, "actual |T*Dec| = 2^%d exceeds the model bound 2^%d (Q=2^%d)", act.BitLen(), e.B.BitLen(), x.Q[wantLvl].BitLen())
		}
		x.rec.Classf("calib-slack-bits=%d", 8*((e.B.BitLen()-act.BitLen())/8))
	}
	return nil
}

// familyKey maps "C05:<mode>:<Op>:scalar" to the lattigo call site that serves the scalar operand: Sub delegates to Add,
// every multiplication (with or without relinearisation, scale-invariant or not) to the *big.Int branch of Mul.
func familyKey(key string) string {
	parts := strings.Split(key, ":")
	i := 1
	if len(parts) > 1 && (parts[1] == "bgv" || parts[1] == "bfv") {
		i = 2
	}
	if len(parts) < i+2 {
		return key
	}
	fam := "Mul"
	if strings.HasPrefix(parts[i], "Add") || strings.HasPrefix(parts[i], "Sub") {
		fam = "Add"
	}
	return "C05:" + fam + ":" + strings.Join(parts[i+1:], ":")
}

// decodeNote says (for messages only) whether the object still decodes to the model.
func (x *ctx) decodeNote(e *entry) string {
	defer func() { _ = recover() }()
	got, err := x.decode(e.ct, 0)
	if err != nil {
		return "; Decode fails: " + err.Error()
	}
	if i := firstDiff(got, e.vals); i >= 0 {
		return fmt.Sprintf("; decoding is wrong as well (slot %d: decoded %d, model %d)", i, got[i], e.vals[i])
	}
	return "; decoding with the recorded metadata is exact"
}

// recheck verifies that an operand that is not documented as modified still decrypts to its model.
func (x *ctx) recheck(e *entry, key string) error {
	if e != nil && e.pt != nil {
		got := make([]uint64, x.slots)
		if err := x.ecd.Decode(e.pt, got); err != nil {
			return x.fail(key+":plaintext-operand-modified", "Decode: %v", err)
		}
		if i := firstDiff(got, e.vals); i >= 0 {
			return x.fail(key+":plaintext-operand-modified", "a plaintext operand no longer decodes to its value: position %d decoded %d, model %d", i, got[i], e.vals[i])
		}
		return nil
	}
	if e == nil || e.ct == nil || e.dead {
		return nil
	}
	got, err := x.decode(e.ct, 0)
	if err != nil {
		return x.fail(key+":operand-modified", "Decode: %v", err)
	}
	if i := firstDiff(got, e.vals); i >= 0 {
		return x.fail(key+":operand-modified", "an input ciphertext no longer decrypts to its value: slot %d decoded %d, model %d", i, got[i], e.vals[i])
	}
	return nil
}

// ---------------------------------------------------------------------------------------------------------------
// operands
// ---------------------------------------------------------------------------------------------------------------

type opnd struct {
	kind     string
	class    string // ct pt scalar vector
	e        *entry
	arg      rlwe.Operand
	sval     uint64   // scalar mod t
	vvals    []uint64 // vector model, padded to slots
	oversize bool
}

func (x *ctx) operand(o Operand) *opnd {
	r := &opnd{kind: o.Kind}
	switch o.Kind {
	case "ct":
		r.class = "ct"
		r.e = pick(x.liveCts(), o.Idx)
		if r.e == nil {
			return nil
		}
		r.arg = r.e.ct
	case "pt":
		r.class = "pt"
		r.e = pick(x.pts(), o.Idx)
		if r.e == nil {
			return nil
		}
		r.arg = r.e.pt
	case "big", "u64", "i64", "int":
		r.class = "scalar"
		v, ok := new(big.Int).SetString(o.Val, 10)
		if !ok {
			v = new(big.Int)
		}
		two64 := new(big.Int).Lsh(bi(1), 64)
		switch o.Kind {
		case "big":
			r.arg = new(big.Int).Set(v)
		case "u64":
			v = h.Mod(v, two64)
			r.arg = v.Uint64()
		case "i64", "int":
			v = h.Mod(v, two64)
			s := int64(v.Uint64())
			v = big.NewInt(s)
			if o.Kind == "i64" {
				r.arg = s
			} else {
				r.arg = int(s)
			}
		}
		r.sval = bigModU(v, x.t)
	case "vu64", "vi64":
		r.class = "vector"
		n := x.slots
		switch o.Len {
		case 1:
			n = x.slots / 2
		case 2:
			n = 1
		case 3:
			n = x.slots + 1
			r.oversize = true
		}
		r.vvals = make([]uint64, x.slots)
		if o.Kind == "vu64" {
			full := x.slotValues(o.Pat, o.Seed)
			v := make([]uint64, n)
			for i := range v {
				v[i] = full[i%x.slots]
			}
			copy(r.vvals, v)
			r.arg = v
		} else {
			v, m := x.signedValues(o.Pat, o.Seed, n)
			copy(r.vvals, m)
			r.arg = v
		}
	default:
		return nil
	}
	return r
}

func (x *ctx) freshOut(deg, level int) *rlwe.Ciphertext {
	return bgv.NewCiphertext(x.params, deg, level)
}

func (x *ctx) outLevel(sel, natural int) int {
	switch sel {
	case 1:
		return x.maxLevel
	case 2:
		if natural > 0 {
			return natural - 1
		}
	}
	return natural
}

func imin(a ...int) int {
	m := a[0]
	for _, v := range a[1:] {
		if v < m {
			m = v
		}
	}
	return m
}

func imax(a ...int) int {
	m := a[0]
	for _, v := range a[1:] {
		if v > m {
			m = v
		}
	}
	return m
}

// ---------------------------------------------------------------------------------------------------------------
// noise transfer functions
// ---------------------------------------------------------------------------------------------------------------

func (x *ctx) nB() *big.Int { return bi(int64(x.N)) }

// tensor bound for the standard (BGV) product: v = v0 * v1 (negacyclic)
func (x *ctx) tensorStd(B0, B1 *big.Int) *big.Int { return mulB(x.nB(), B0, B1) }

// tensorSI bounds the scale-invariant product at `level` (see assumptions.txt for the derivation).
func (x *ctx) tensorSI(B0, B1 *big.Int, level int) *big.Int {
	N := x.nB()
	sum := addB(B0, B1)
	a := new(big.Int).Div(mulB(N, B0, B1), x.Q[level])
	a.Add(a, bi(1))
	b := mulB(N, addB(new(big.Int).Rsh(x.tB, 1), bi(2)), sum)
	c := mulB(x.tB, N, bi(x.S1+3), sum)
	R := bi(int64(level + 4))
	d := mulB(x.tB, x.tB, R, addB(bi(1+x.S1), mulB(bi(x.S1), bi(x.S1))))
	r := addB(a, b, c, d)
	return r.Lsh(r, 1)
}

func (x *ctx) ksNoise(level int) *big.Int { return mulB(x.tB, x.eks[level]) }

func (x *ctx) rescaleBound(B0 *big.Int, q uint64) *big.Int {
	r := new(big.Int).Div(B0, h.BU(q))
	rr := mulB(x.tB, addB(bi(1+x.S1), mulB(bi(x.S1), bi(x.S1))))
	rr.Rsh(rr, 1)
	return addB(r, rr, bi(2))
}

// ---------------------------------------------------------------------------------------------------------------
// run
// ---------------------------------------------------------------------------------------------------------------

func runProg(c ProgCase, rec *h.Rec) error {
	x, err := newCtx(c, rec)
	if err != nil {
		return err
	}
	for _, in := range c.Init {
		if err := x.addInit(in); err != nil {
			if err == errKnown {
				continue
			}
			return err
		}
	}
	for _, st := range c.Steps {
		if len(x.liveCts()) == 0 {
			break
		}
		if err := x.step(st); err != nil && err != errKnown {
			return err
		}
	}
	// final sweep: every live pool element still decrypts to its model
	for _, e := range x.pool {
		if err := x.recheck(e, "C05:final-sweep"); err != nil && err != errKnown {
			return err
		}
	}
	x.book()
	return nil
}

func (x *ctx) book() {
	rec := x.rec
	p := x.c.Params
	rec.Classf("mode=%s", x.mode)
	rec.Classf("logN=%d", p.LogN)
	rec.Classf("nQ=%d", len(p.Q))
	gap := "gap=no"
	if x.slots < x.N {
		gap = "gap=yes"
	}
	rec.Class(gap)
	tb := h.BU(x.t).BitLen()
	tcls := "t<=16b"
	switch {
	case tb > 48:
		tcls = "t>48b"
	case tb > 32:
		tcls = "t33-48b"
	case tb > 16:
		tcls = "t17-32b"
	}
	rec.Class(tcls)
	if x.c.NoRlk {
		rec.Class("no-rlk")
	}
	dom := "domain=slots"
	if x.c.Coeffs {
		dom = "domain=coeffs"
	}
	rec.Class(dom)
	rec.Classf("nP=%d", len(p.P))
	rec.Classf("rlk:levelP=%d/base2=%v", x.rlkLevelP, x.rlkBase2 > 0)
	rec.Classf("xs=%s/xe=%s", p.Xs.Kind, p.Xe.Kind)
	rec.Classf("steps-executed=%d", imin(len(x.trace), 12))
	for _, s := range x.trace {
		rec.Class("op=" + s)
	}
	if x.overBudget > 0 {
		rec.Class("had-over-budget")
	}
	if x.errCases > 0 {
		rec.Class("had-documented-error")
	}
	if !math.IsInf(x.minMarginLg, 1) {
		rec.Note("min-margin-bits", x.minMarginLg)
	}
	if x.reused {
		rec.Class("had-reused-receiver")
	}
	if len(x.trace) >= 3 && (x.mulThenOp || x.mismatch || x.nonCt) {
		rec.NonTrivial(fmt.Sprintf("%s|%s|logN%d|nQ%d|nP%d|%s|%s|%s", x.mode, dom, p.LogN, len(p.Q), len(p.P), gap, tcls, strings.Join(x.trace, ",")))
	}
}

func (x *ctx) note(op, class string) {
	x.trace = append(x.trace, op+"/"+class)
	if x.sawMul {
		x.mulThenOp = true
	}
	if strings.HasPrefix(op, "Mul") {
		x.sawMul = true
	}
	if class != "ct" && class != "-" {
		x.nonCt = true
	}
}
