package c05

import (
	"fmt"
	"math/big"
	"testing"

	"verif/internal/h"

	"github.com/tuneinsight/lattigo/v6/schemes/bgv"
	"pgregory.net/rapid"
)

// CompositeCase: a BGV literal whose plaintext modulus is a composite number congruent to 1 mod 2n. The scale
// arithmetic of the evaluator (inverses by Fermat exponentiation, scale matching) is only valid for a prime t, so the
// constructor must refuse such a literal with an error (it does: ring.NewRing rejects a non-prime modulus) and must
// not panic.
type CompositeCase struct {
	LogN int      `json:"logN"`
	Q    []uint64 `json:"Q"`
	P    []uint64 `json:"P,omitempty"`
	T    uint64   `json:"t"`
	Why  string   `json:"why"` // how t was built
}

func genComposite(t *rapid.T) CompositeCase {
	var c CompositeCase
	c.LogN = rapid.IntRange(4, 7).Draw(t, "logN")
	m := uint64(2) << c.LogN
	used := map[uint64]bool{}
	c.Q = h.GenPrimes(t, []int{60, rapid.IntRange(30, 60).Draw(t, "q1")}, m, used, "q")
	if rapid.Bool().Draw(t, "withP") {
		c.P = h.GenPrimes(t, []int{61}, m, used, "p")
	}
	logn := rapid.IntRange(3, c.LogN).Draw(t, "logn")
	mt := uint64(2) << logn
	switch rapid.IntRange(0, 2).Draw(t, "kind") {
	case 0: // product of two NTT-friendly primes: congruent to 1 mod 2n
		ps := h.GenPrimes(t, []int{rapid.IntRange(8, 28).Draw(t, "a"), rapid.IntRange(8, 28).Draw(t, "b")}, mt, nil, "f")
		c.T, c.Why = ps[0]*ps[1], fmt.Sprintf("%d*%d", ps[0], ps[1])
	case 1: // square of an NTT-friendly prime
		ps := h.GenPrimes(t, []int{rapid.IntRange(8, 28).Draw(t, "a")}, mt, nil, "f")
		c.T, c.Why = ps[0]*ps[0], fmt.Sprintf("%d^2", ps[0])
	default: // k*2n+1 that is not prime
		k := rapid.Uint64Range(1, 1<<20).Draw(t, "k")
		for ; ; k++ {
			if v := k*mt + 1; !h.IsPrime64(v) {
				c.T, c.Why = v, fmt.Sprintf("%d*%d+1", k, mt)
				break
			}
		}
	}
	return c
}

func runComposite(c CompositeCase, rec *h.Rec) (err error) {
	if new(big.Int).SetUint64(c.T).ProbablyPrime(0) || c.T > c.Q[0]>>1 {
		rec.Class("skipped")
		return nil
	}
	_, perr := bgv.NewParametersFromLiteral(bgv.ParametersLiteral{LogN: c.LogN, Q: c.Q, P: c.P, PlaintextModulus: c.T})
	rec.Classf("kind=%s", map[bool]string{true: "with-P", false: "no-P"}[len(c.P) > 0])
	if perr == nil {
		return h.Failf("C05:params:composite-plaintext-modulus-accepted", "bgv.NewParametersFromLiteral accepted the composite plaintext modulus t=%d (%s); the evaluator's scale arithmetic assumes a prime t", c.T, c.Why)
	}
	rec.NonTrivial(fmt.Sprintf("logN%d|%v|%s", c.LogN, len(c.P) > 0, map[bool]string{true: "sq", false: "other"}[c.Why[len(c.Why)-2:] == "^2"]))
	return nil
}

var propComposite = h.NewProp("TestPropCompositeModulusRejected", h.Budget{Quick: 60, Thorough: 600}, genComposite, runComposite)

func TestPropCompositeModulusRejected(t *testing.T) { propComposite.Check(t) }
