package c05

import (
	"fmt"
	"math/big"
	"strings"

	"github.com/tuneinsight/lattigo/v6/core/rlwe"
	"github.com/tuneinsight/lattigo/v6/schemes/bgv"
)

// key builds the failure-key prefix. The evaluator mode is part of it only where the code path depends on it
// (multiplications dispatch to the scale-invariant forms, Rescale is a no-op in BFV mode).
func (x *ctx) key(op, class string) string {
	if (strings.HasPrefix(op, "Mul") && !strings.HasSuffix(op, "ThenAdd")) || strings.HasPrefix(op, "Rescale") {
		return fmt.Sprintf("C05:%s:%s:%s", x.mode, op, class)
	}
	return fmt.Sprintf("C05:%s:%s", op, class)
}

// expectErr handles the documented failure conditions: returns (handled, failure).
func (x *ctx) expectErr(key, reason string, err error) error {
	x.errCases++
	x.rec.Class("documented-error=" + reason)
	if err == nil {
		return x.fail(key+":"+reason+":no-error", "documented failure condition (%s) was not reported as an error", reason)
	}
	return nil
}

func (x *ctx) unexpected(key string, err error) error {
	return x.fail(key+":unexpected-error", "unexpected error: %v", err)
}

func (x *ctx) step(st Step) error {
	x.argModified = ""
	err := x.step1(st)
	if (err == nil || err == errKnown) && x.argModified != "" {
		return x.fail("C05:"+st.Op+":operand-value-modified", "%s", x.argModified)
	}
	return err
}

func (x *ctx) step1(st Step) error {
	switch st.Op {
	case "Add", "AddNew", "Sub", "SubNew":
		return x.stepAddSub(st)
	case "Mul", "MulNew", "MulRelin", "MulRelinNew", "MulScaleInvariant", "MulScaleInvariantNew", "MulRelinScaleInvariant", "MulRelinScaleInvariantNew":
		return x.stepMul(st)
	case "MulThenAdd", "MulRelinThenAdd":
		return x.stepMulThenAdd(st)
	case "Rescale", "RescaleInPlace":
		return x.stepRescale(st)
	case "DropLevel":
		return x.stepDropLevel(st)
	case "MatchScalesAndLevel":
		return x.stepMatch(st)
	case "Relinearize", "RelinearizeNew":
		return x.stepRelin(st)
	}
	return nil
}

// deg0Ciphertext builds a degree-0 "ciphertext" holding a plaintext (for the plaintext-only failure condition).
func (x *ctx) deg0Ciphertext(pt *rlwe.Plaintext) *rlwe.Ciphertext {
	ct := bgv.NewCiphertext(x.params, 0, pt.Level())
	ct.Value[0].Copy(pt.Value)
	*ct.MetaData = *pt.MetaData
	return ct
}

func (x *ctx) call2(op string, op0 *rlwe.Ciphertext, arg rlwe.Operand, out *rlwe.Ciphertext) (*rlwe.Ciphertext, error) {
	ev := x.eval
	var err error
	// value operands are snapshotted and compared after the call
	switch v := arg.(type) {
	case *big.Int:
		snap := new(big.Int).Set(v)
		defer func() {
			if snap.Cmp(v) != 0 {
				x.argModified = fmt.Sprintf("the caller's *big.Int operand was %s and is %s after the call", snap, v)
			}
		}()
	case []uint64:
		snap := append([]uint64(nil), v...)
		defer func() {
			if i := firstDiff(snap, v); i >= 0 {
				x.argModified = fmt.Sprintf("the caller's []uint64 operand changed at index %d: %d -> %d", i, snap[i], v[i])
			}
		}()
	case []int64:
		snap := append([]int64(nil), v...)
		defer func() {
			for i := range snap {
				if snap[i] != v[i] {
					x.argModified = fmt.Sprintf("the caller's []int64 operand changed at index %d: %d -> %d", i, snap[i], v[i])
					break
				}
			}
		}()
	}
	switch op {
	case "Add":
		err = ev.Add(op0, arg, out)
	case "AddNew":
		out, err = ev.AddNew(op0, arg)
	case "Sub":
		err = ev.Sub(op0, arg, out)
	case "SubNew":
		out, err = ev.SubNew(op0, arg)
	case "Mul":
		err = ev.Mul(op0, arg, out)
	case "MulNew":
		out, err = ev.MulNew(op0, arg)
	case "MulRelin":
		err = ev.MulRelin(op0, arg, out)
	case "MulRelinNew":
		out, err = ev.MulRelinNew(op0, arg)
	case "MulScaleInvariant":
		err = ev.MulScaleInvariant(op0, arg, out)
	case "MulScaleInvariantNew":
		out, err = ev.MulScaleInvariantNew(op0, arg)
	case "MulRelinScaleInvariant":
		err = ev.MulRelinScaleInvariant(op0, arg, out)
	case "MulRelinScaleInvariantNew":
		out, err = ev.MulRelinScaleInvariantNew(op0, arg)
	case "MulThenAdd":
		err = ev.MulThenAdd(op0, arg, out)
	case "MulRelinThenAdd":
		err = ev.MulRelinThenAdd(op0, arg, out)
	default:
		panic("call2: " + op)
	}
	return out, err
}

func (x *ctx) stepAddSub(st Step) error {
	isSub := strings.HasPrefix(st.Op, "Sub")
	isNew := strings.HasSuffix(st.Op, "New")
	a := pick(x.liveCts(), st.A)
	b := x.operand(st.B)
	if a == nil || b == nil {
		return nil
	}
	key := x.key(st.Op, b.class)
	f := addmod
	if isSub {
		f = submod
	}

	if st.Deg0 && b.class == "pt" {
		// plaintext-only operands: documented error of InitOutputBinaryOp
		pts := x.pts()
		p0 := pick(pts, st.A)
		op0 := x.deg0Ciphertext(p0.pt)
		var out *rlwe.Ciphertext
		if !isNew {
			out = x.freshOut(1, imin(p0.level(), b.e.level()))
		}
		_, err := x.call2(st.Op, op0, b.arg, out)
		x.note(st.Op, "pt-only")
		return x.expectErr(key, "plaintext-only", err)
	}

	d0, l0, s0 := a.degree(), a.level(), a.scale()
	var out *rlwe.Ciphertext
	var reg *entry
	var wantDeg, wantLvl int
	var vals []uint64
	var B *big.Int
	var alt uint64

	switch b.class {
	case "ct", "pt":
		d1, l1, s1 := b.e.degree(), b.e.level(), b.e.scale()
		wantDeg, wantLvl = imax(d0, d1), imin(l0, l1)
		if !isNew {
			od := wantDeg
			if st.OutDeg == 1 {
				od = 2
			}
			out, reg = x.receiver(st, od, wantLvl, a, b.e)
			wantDeg, wantLvl = imax(wantDeg, out.Degree()), imin(wantLvl, out.Level())
		}
		vals = x.vecOp(f, a.vals, b.e.vals)
		B = addB(a.B, b.e.B)
		if d1 > d0 {
			key += ":op1-degree>op0"
			if s0 == s1 {
				key += ":equal-scales"
			}
		}
		if s0 != s1 {
			B = nil // computed from the recorded result scale after the call (matchBound)
			x.mismatch = true
			x.rec.Class("scale-mismatch=" + st.Op + "/" + b.class)
		}
	case "scalar", "vector":
		wantDeg, wantLvl = d0, l0
		if !isNew {
			out, reg = x.receiver(st, d0, wantLvl, a)
			wantLvl = imin(wantLvl, out.Level())
			if out.Degree() > d0 {
				wantDeg = -1 // no comment states the degree left in a receiver of higher degree: exact decoding decides
			}
		}
		if b.class == "scalar" {
			vals = x.addScalarVals(f, a.vals, b.sval)
		} else {
			vals = x.vecOp(f, a.vals, b.vvals)
		}
		B = addB(a.B, x.tB)
		alt = s0
	}

	res, err := x.call2(st.Op, a.ct, b.arg, out)
	x.note(st.Op, b.class)
	if reg != nil && (err != nil || b.oversize) {
		reg.dead = true // the receiver may have been resized before the error: its old value is not claimed any more
	}
	if b.e != nil && b.e.flipped {
		return x.expectErr(key, "batched-mismatch", err) // InitOutputBinaryOp check 5: op0.IsBatched == op1.IsBatched
	}
	if b.oversize {
		return x.expectErr(key, "oversize-vector", err)
	}
	if err != nil {
		return x.unexpected(key, err)
	}
	if B == nil {
		B = x.matchBound(res.Scale.Uint64(), s0, a.B, b.e.scale(), b.e.B)
	}
	if err := x.store(reg, res, vals, B, key, wantDeg, wantLvl, nil, alt); err != nil {
		return err
	}
	if err := x.recheck(a, key); err != nil {
		return err
	}
	return x.recheck(b.e, key)
}

// matchBound bounds the noise after a scale-matching combination: an implementation that brings operand i (scale
// si, bound Bi) to the recorded result scale S multiplies it by an integer congruent to S/si mod t; for the canonical
// representative u in [1,t) as well as for the centred one the factor is at most u, hence B <= u0*B0 + u1*B1
// (always <= t*(B0+B1)).
func (x *ctx) matchBound(S, s0 uint64, B0 *big.Int, s1 uint64, B1 *big.Int) *big.Int {
	S %= x.t
	if S == 0 || s0%x.t == 0 || s1%x.t == 0 {
		return mulB(x.tB, addB(B0, B1))
	}
	u0 := mulmod(S, invmod(s0, x.t), x.t)
	u1 := mulmod(S, invmod(s1, x.t), x.t)
	return addB(mulB(B0, new(big.Int).SetUint64(u0)), mulB(B1, new(big.Int).SetUint64(u1)))
}

// receiver returns the output object of a non-New form. st.OutReg == 0: a fresh ciphertext of the given degree at the
// level selected by st.OutLevel. st.OutReg > 0: an EXISTING pool ciphertext other than the inputs (live or retired,
// possibly of higher degree and/or level than the result and with another scale); its old value is dead afterwards and
// the register holds the result (second return value).
func (x *ctx) receiver(st Step, deg, lvl int, avoid ...*entry) (*rlwe.Ciphertext, *entry) {
	if st.OutReg == 0 && x.ctCount() >= poolCap && st.A%2 == 0 {
		st.OutReg = 1 + st.A + st.Acc // full register file: every second call must re-use a register
	}
	if st.OutReg > 0 {
		var cands, deg2 []*entry
		for _, e := range x.pool {
			if e.ct == nil {
				continue
			}
			skip := false
			for _, a := range avoid {
				if a == e {
					skip = true
				}
			}
			if skip {
				continue
			}
			cands = append(cands, e)
			if e.degree() == 2 {
				deg2 = append(deg2, e)
			}
		}
		if st.OutReg%2 == 0 && len(deg2) > 0 {
			cands = deg2 // every second selector prefers a receiver that holds a degree-2 ciphertext
		}
		if reg := pick(cands, (st.OutReg-1)/2); reg != nil {
			return reg.ct, reg
		}
	}
	return x.freshOut(deg, x.outLevel(st.OutLevel, lvl)), nil
}

// store books the result of a step: a new pool element, or the overwritten register.
func (x *ctx) store(reg *entry, res *rlwe.Ciphertext, vals []uint64, B *big.Int, key string, wantDeg, wantLvl int, wantScale *uint64, alt uint64) error {
	if reg != nil {
		cls := "receiver=existing"
		if reg.dead {
			cls += "/retired"
		}
		x.rec.Class(cls)
		reg.vals, reg.B, reg.dead = vals, B, false
		x.reused = true
		if err := x.verify(reg, key+":reused-receiver", wantDeg, wantLvl, wantScale, alt); err != nil {
			reg.dead = true
			return err
		}
		return nil
	}
	e := &entry{ct: res, vals: vals, B: B}
	if err := x.verify(e, key, wantDeg, wantLvl, wantScale, alt); err != nil {
		return err
	}
	x.pool = append(x.pool, e)
	x.evict(e)
	return nil
}

// poolCap is the size of the ciphertext register file: a result that needs a new register when the file is full
// evicts the oldest ciphertext, so that long programs keep working on (and writing into) registers with a history.
const poolCap = 6

func (x *ctx) ctCount() (n int) {
	for _, e := range x.pool {
		if e.ct != nil {
			n++
		}
	}
	return
}

func (x *ctx) evict(keep *entry) {
	for x.ctCount() > poolCap {
		victim := -1
		// retired elements go first, then the oldest
		for i, e := range x.pool {
			if e.ct != nil && e != keep && e.dead {
				victim = i
				break
			}
		}
		if victim < 0 {
			for i, e := range x.pool {
				if e.ct != nil && e != keep {
					victim = i
					break
				}
			}
		}
		if victim < 0 {
			return
		}
		x.pool = append(x.pool[:victim:victim], x.pool[victim+1:]...)
		x.rec.Class("evicted")
	}
}

// negQInv returns (-Q_level)^-1 mod t.
func (x *ctx) negQInv(level int) uint64 {
	q := bigModU(x.Q[level], x.t)
	return invmod(x.t-q, x.t)
}

func (x *ctx) stepMul(st Step) error {
	relin := strings.Contains(st.Op, "Relin")
	isNew := strings.HasSuffix(st.Op, "New")
	siName := strings.Contains(st.Op, "ScaleInvariant")
	si := siName || x.c.BFV
	a := pick(x.liveCts(), st.A)
	b := x.operand(st.B)
	if a == nil || b == nil {
		return nil
	}
	key := x.key(st.Op, b.class)

	if st.Deg0 && b.class == "pt" {
		p0 := pick(x.pts(), st.A)
		op0 := x.deg0Ciphertext(p0.pt)
		var out *rlwe.Ciphertext
		if !isNew {
			out = x.freshOut(1, imin(p0.level(), b.e.level()))
		}
		_, err := x.call2(st.Op, op0, b.arg, out)
		x.note(st.Op, "pt-only")
		return x.expectErr(key, "plaintext-only", err)
	}

	d0, l0, s0 := a.degree(), a.level(), a.scale()
	var out *rlwe.Ciphertext
	var reg *entry
	var wantDeg, wantLvl int
	var vals []uint64
	var B *big.Int
	var alt uint64
	var wantScale *uint64
	reason := ""

	switch b.class {
	case "ct":
		d1, l1, s1 := b.e.degree(), b.e.level(), b.e.scale()
		wantLvl = imin(l0, l1)
		wantDeg = 2
		if relin {
			wantDeg = 1
		}
		if !isNew {
			out, reg = x.receiver(st, wantDeg, wantLvl, a, b.e)
			wantLvl = imin(wantLvl, out.Level())
		}
		if d0+d1 > 2 {
			reason = "degree-too-high"
		} else if relin && !x.hasRlk {
			reason = "no-relin-key"
		}
		vals = x.mulVals(a.vals, b.e.vals)
		sc := mulmod(s0, s1, x.t)
		if si {
			if x.qmulClash {
				key = "C05:scale-invariant-product:Q-overlaps-QMul"
			}
			B = x.tensorSI(a.B, b.e.B, wantLvl)
			sc = mulmod(sc, x.negQInv(wantLvl), x.t)
		} else {
			B = x.tensorStd(a.B, b.e.B)
		}
		if relin {
			B = addB(B, x.ksNoise(wantLvl))
		}
		wantScale = &sc
	case "pt":
		l1, s1 := b.e.level(), b.e.scale()
		wantLvl, wantDeg = imin(l0, l1), d0
		if b.e.flipped {
			reason = "batched-mismatch" // InitOutputBinaryOp check 5
		}
		if !isNew {
			out, reg = x.receiver(st, wantDeg, wantLvl, a)
			wantLvl = imin(wantLvl, out.Level())
		}
		vals = x.mulVals(a.vals, b.e.vals)
		B = x.tensorStd(a.B, x.tB)
		sc := mulmod(s0, s1, x.t)
		if siName {
			// the *ScaleInvariant methods document op0.Scale*op1.Scale for a plaintext operand (standard tensoring) and
			// op0.Scale*op1.Scale*(-Q)^-1 only for ciphertexts (comment corrected by the fix of finding
			// C05:MulScaleInvariant:pt:si-doc:scale; before it the comment promised the (-Q)^-1 factor here too)
			key = "C05:" + strings.TrimSuffix(st.Op, "New") + ":pt:si-doc" // one call site for both modes and the New form
		}
		wantScale = &sc
	case "scalar":
		wantLvl, wantDeg = l0, d0
		if !isNew {
			out, reg = x.receiver(st, wantDeg, wantLvl, a)
			wantLvl = imin(wantLvl, out.Level())
			if out.Degree() > d0 {
				wantDeg = -1 // no comment states the degree left in a receiver of higher degree: exact decoding decides
			}
		}
		vals = x.vecScalar(mulmod, a.vals, b.sval)
		B = mulB(a.B, addB(new(big.Int).Rsh(x.tB, 1), bi(1)))
		alt = s0
	case "vector":
		wantLvl, wantDeg = l0, d0
		if !isNew {
			out, reg = x.receiver(st, wantDeg, wantLvl, a)
			wantLvl = imin(wantLvl, out.Level())
			if out.Degree() > d0 {
				wantDeg = -1
			}
		}
		vals = x.mulVals(a.vals, b.vvals)
		B = x.tensorStd(a.B, x.tB)
		alt = s0
	}

	res, err := x.call2(st.Op, a.ct, b.arg, out)
	x.note(st.Op, b.class)
	if reg != nil && (err != nil || b.oversize || reason != "") {
		reg.dead = true // the receiver may have been touched before the error: its old value is not claimed any more
	}
	if b.oversize {
		return x.expectErr(key, "oversize-vector", err)
	}
	if reason != "" {
		return x.expectErr(key, reason, err)
	}
	if err != nil {
		return x.unexpected(key, err)
	}
	if err := x.store(reg, res, vals, B, key, wantDeg, wantLvl, wantScale, alt); err != nil {
		return err
	}
	if err := x.recheck(a, key); err != nil {
		return err
	}
	return x.recheck(b.e, key)
}

func (x *ctx) stepMulThenAdd(st Step) error {
	relin := strings.Contains(st.Op, "Relin")
	a := pick(x.liveCts(), st.A)
	b := x.operand(st.B)
	if a == nil || b == nil {
		return nil
	}
	key := x.key(st.Op, b.class)
	elem := b.class == "ct" || b.class == "pt"

	if st.AccAlias && elem {
		// documented: error if op0 == opOut (or op1 == opOut)
		d1 := b.e.degree()
		_, err := x.call2(st.Op, a.ct, b.arg, a.ct)
		x.note(st.Op, "alias")
		if a.degree()+d1 > 2 {
			return x.expectErr(key, "degree-too-high", err)
		}
		if err2 := x.expectErr(key, "output-is-input", err); err2 != nil {
			return err2
		}
		return x.recheck(a, key)
	}

	var acc *entry
	if b.class == "ct" {
		acc = pick(x.liveCts(), st.Acc, a, b.e)
	} else {
		acc = pick(x.liveCts(), st.Acc, a)
	}
	if acc == nil {
		return nil
	}
	d0, l0, s0 := a.degree(), a.level(), a.scale()
	dacc, lacc, sacc := acc.degree(), acc.level(), acc.scale()
	var wantDeg, wantLvl int
	var vals []uint64
	var B, BpSaved *big.Int
	var target uint64
	reason := ""

	switch b.class {
	case "ct", "pt":
		d1, l1, s1 := b.e.degree(), b.e.level(), b.e.scale()
		wantLvl = imin(l0, l1, lacc)
		if b.class == "ct" {
			if relin {
				wantDeg = imax(1, dacc)
			} else {
				wantDeg = 2
			}
			if d0+d1 > 2 {
				reason = "degree-too-high"
			} else if relin && !x.hasRlk {
				reason = "no-relin-key"
			}
		} else {
			wantDeg = imax(d0, dacc)
			if b.e.flipped {
				reason = "batched-mismatch"
			}
		}
		prod := x.mulVals(a.vals, b.e.vals)
		vals = x.vecOp(addmod, acc.vals, prod)
		Bp := x.tensorStd(a.B, b.e.B)
		if relin && b.class == "ct" {
			Bp = addB(Bp, x.ksNoise(wantLvl))
		}
		B = addB(acc.B, Bp)
		if target = mulmod(s0, s1, x.t); target != sacc {
			B = nil // from the recorded scale after the call
			BpSaved = Bp
			x.mismatch = true
			x.rec.Class("scale-mismatch=" + st.Op + "/" + b.class)
		}
	case "scalar":
		wantLvl, wantDeg = imin(l0, lacc), imax(d0, dacc)
		vals = x.vecOp(addmod, acc.vals, x.vecScalar(mulmod, a.vals, b.sval))
		B = addB(acc.B, mulB(a.B, addB(new(big.Int).Rsh(x.tB, 1), bi(1))))
		if s0 != sacc {
			x.mismatch = true
			x.rec.Class("scale-mismatch=" + st.Op + "/" + b.class)
		}
	case "vector":
		wantLvl, wantDeg = imin(l0, lacc), imax(d0, dacc)
		vals = x.vecOp(addmod, acc.vals, x.mulVals(a.vals, b.vvals))
		B = addB(acc.B, x.tensorStd(a.B, x.tB))
		if s0 != sacc {
			x.mismatch = true
			x.rec.Class("scale-mismatch=" + st.Op + "/" + b.class)
		}
	}
	// shape class used in failure keys: accumulator level / degree relative to op0
	shape := ""
	if !elem {
		switch {
		case lacc > l0 && dacc > d0:
			shape = ":acc-level+degree>op0"
		case lacc > l0:
			shape = ":acc-level>op0"
		case dacc > d0:
			shape = ":acc-degree>op0"
		}
	}

	_, err := x.call2(st.Op, a.ct, b.arg, acc.ct)
	x.note(st.Op, b.class)
	if b.oversize {
		acc.dead = true // the accumulator may have been resized before the error
		return x.expectErr(key, "oversize-vector", err)
	}
	if reason != "" {
		if reason == "no-relin-key" {
			acc.dead = true // the error is raised after the accumulator has been touched; no claim
		}
		if err2 := x.expectErr(key, reason, err); err2 != nil {
			return err2
		}
		return x.recheck(acc, key)
	}
	if err != nil {
		acc.dead = true
		return x.unexpected(key, err)
	}
	if B == nil {
		B = x.matchBound(acc.ct.Scale.Uint64(), sacc, acc.B, target, BpSaved)
		if relin && b.class == "ct" {
			B = addB(B, x.ksNoise(wantLvl)) // the key-switch noise is added after the scaling of the product
		}
	}
	acc.vals, acc.B = vals, B
	if !elem {
		// nothing is documented about the shape of the accumulator for scalar / vector operands: only exact decoding
		// with the recorded metadata is demanded
		wantDeg, wantLvl = -1, -1
	}
	if err := x.verify(acc, key+shape, wantDeg, wantLvl, nil, 0); err != nil {
		acc.dead = true
		return err
	}
	if err := x.recheck(a, key); err != nil {
		return err
	}
	return x.recheck(b.e, key)
}

func (x *ctx) stepRescale(st Step) error {
	a := pick(x.liveCts(), st.A)
	if a == nil {
		return nil
	}
	inPlace := st.Op == "RescaleInPlace"
	key := x.key(st.Op, "-")
	d0, l0, s0 := a.degree(), a.level(), a.scale()
	out := a.ct
	var reg *entry
	reason := ""
	if !inPlace {
		ol := l0 - 1
		switch st.OutLevel {
		case 1:
			ol = x.maxLevel
		case 2:
			if l0-2 >= 0 {
				ol = l0 - 2
				reason = "output-level-too-small"
			}
		}
		if ol < 0 {
			ol = 0
		}
		out = x.freshOut(d0, ol)
		if st.OutReg > 0 {
			// an existing pool ciphertext of any degree as receiver (documented error if its level is below l0-1)
			reason = ""
			if o, r := x.receiver(st, d0, ol, a); r != nil {
				out, reg = o, r
				if out.Level() < l0-1 {
					reason = "output-level-too-small"
				}
			}
		}
	}
	if l0 == 0 {
		reason = "level-0"
	}
	err := x.eval.Rescale(a.ct, out)
	x.note(st.Op, "-")
	if reg != nil && !x.c.BFV && (err != nil || reason != "") {
		reg.dead = true
	}
	if x.c.BFV {
		// documented no-op of the scale-invariant evaluator
		if err != nil {
			return x.unexpected(key, err)
		}
		return x.recheck(a, key)
	}
	if reason != "" {
		if err2 := x.expectErr(key, reason, err); err2 != nil {
			return err2
		}
		return x.recheck(a, key)
	}
	if err != nil {
		return x.unexpected(key, err)
	}
	q := x.c.Params.Q[l0]
	sc := mulmod(s0, invmod(q%x.t, x.t), x.t)
	B := x.rescaleBound(a.B, q)
	if inPlace {
		a.B = B
		if err := x.verify(a, key, d0, l0-1, &sc, 0); err != nil {
			a.dead = true
			return err
		}
		return nil
	}
	if err := x.store(reg, out, a.vals, B, key, d0, l0-1, &sc, 0); err != nil {
		return err
	}
	return x.recheck(a, key)
}

func (x *ctx) stepDropLevel(st Step) error {
	a := pick(x.liveCts(), st.A)
	if a == nil {
		return nil
	}
	key := x.key(st.Op, "-")
	d0, l0 := a.degree(), a.level()
	n := st.N % (l0 + 1)
	x.eval.DropLevel(a.ct, n)
	x.note(st.Op, "-")
	if err := x.verify(a, key, d0, l0-n, nil, 0); err != nil {
		a.dead = true
		return err
	}
	return nil
}

func (x *ctx) stepMatch(st Step) error {
	a := pick(x.liveCts(), st.A)
	if a == nil {
		return nil
	}
	b := pick(x.liveCts(), st.Acc, a)
	if b == nil {
		return nil
	}
	key := x.key(st.Op, "ct")
	lvl := imin(a.level(), b.level())
	da, db := a.degree(), b.degree()
	if a.scale() != b.scale() {
		x.mismatch = true
		x.rec.Class("scale-mismatch=" + st.Op + "/ct")
	}
	sa, sb := a.scale(), b.scale()
	x.eval.MatchScalesAndLevel(a.ct, b.ct)
	x.note(st.Op, "ct")
	zero := new(big.Int)
	a.B = x.matchBound(a.ct.Scale.Uint64(), sa, a.B, 1, zero)
	b.B = x.matchBound(b.ct.Scale.Uint64(), sb, b.B, 1, zero)
	if a.ct.Scale.Cmp(b.ct.Scale) != 0 {
		a.dead, b.dead = true, true
		return x.fail(key+":scales-differ", "after MatchScalesAndLevel the recorded scales are %d and %d", a.ct.Scale.Uint64(), b.ct.Scale.Uint64())
	}
	if err := x.verify(a, key+":first", da, lvl, nil, 0); err != nil {
		a.dead, b.dead = true, true
		return err
	}
	if err := x.verify(b, key+":second", db, lvl, nil, 0); err != nil {
		a.dead, b.dead = true, true
		return err
	}
	return nil
}

func (x *ctx) stepRelin(st Step) error {
	a := pick(x.liveCts(), st.A)
	if a == nil {
		return nil
	}
	// prefer a degree-2 ciphertext when there is one (otherwise the documented error is exercised)
	if a.degree() != 2 && st.A%8 != 7 {
		for _, e := range x.liveCts() {
			if e.degree() == 2 {
				a = e
				break
			}
		}
	}
	isNew := st.Op == "RelinearizeNew"
	key := x.key(st.Op, "-")
	d0, l0 := a.degree(), a.level()
	reason := ""
	if d0 != 2 {
		reason = "degree-not-2"
	} else if !x.hasRlk {
		reason = "no-relin-key"
	}
	wantLvl := l0
	var out *rlwe.Ciphertext
	var reg *entry
	var err error
	if isNew {
		out, err = x.eval.RelinearizeNew(a.ct)
	} else {
		out, reg = x.receiver(st, 1, l0, a)
		wantLvl = imin(l0, out.Level())
		err = x.eval.Relinearize(a.ct, out)
	}
	x.note(st.Op, "-")
	if reg != nil && (err != nil || reason != "") {
		reg.dead = true
	}
	if reason != "" {
		if err2 := x.expectErr(key, reason, err); err2 != nil {
			return err2
		}
		return x.recheck(a, key)
	}
	if err != nil {
		return x.unexpected(key, err)
	}
	if err := x.store(reg, out, a.vals, addB(a.B, x.ksNoise(wantLvl)), key, 1, wantLvl, nil, 0); err != nil {
		return err
	}
	return x.recheck(a, key)
}
