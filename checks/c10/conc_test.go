package c10

import (
	"fmt"
	"sync"
	"testing"

	"verif/internal/h"

	"pgregory.net/rapid"
)

// parallel runs body(i) for i in [0,g) on g goroutines started together and waits for them.
func parallel(g int, body func(i int)) {
	var wg sync.WaitGroup
	start := make(chan struct{})
	for i := 0; i < g; i++ {
		wg.Add(1)
		go func(i int) {
			defer wg.Done()
			<-start
			body(i)
		}(i)
	}
	close(start)
	wg.Wait()
}

// rotateOps gives goroutine i the same operations in a rotated order, so that at any moment different goroutines
// execute different operations on the shared keys / parameters / inputs.
func rotateOps(ops []Op, i int) ([]Op, []int) {
	n := len(ops)
	out := make([]Op, n)
	idx := make([]int, n)
	for j := range ops {
		idx[j] = (j + i) % n
		out[j] = ops[idx[j]]
	}
	return out, idx
}

const lateKeyNilMapKey = "C10:rlwe.Evaluator:late-galois-key:differs-from-new-evaluator"

// checkLateKeys: an evaluator whose (shared) key set received Galois keys after construction must behave like an
// evaluator constructed afterwards - the lazily filled automorphism-index cache exists for exactly this.
func (e *evalEnv) checkLateKeys(orig evalObj, got []string, rec *h.Rec) error {
	if len(e.c.LateRots) == 0 {
		return nil
	}
	fresh := e.runOps(e.newEvaluator(e.evk), e.c.Ops)
	if d := firstDiff(fresh, got); d >= 0 {
		msg := fmt.Sprintf("%s constructed before Galois keys %v were added to its key set: op #%d %+v gives %s, a new evaluator on the same key set gives %s",
			evalTypeName(e.c), e.c.LateRots, d, e.c.Ops[d], got[d], fresh[d])
		if rec.Known(lateKeyNilMapKey, msg) {
			rec.Class("known=" + lateKeyNilMapKey)
			return nil
		}
		return h.Failf(lateKeyNilMapKey, "%s", msg)
	}
	return nil
}

const lateKeyRaceKey = "C10:race@core/rlwe.Evaluator.CheckAndGetGaloisKey"

func runEvalConcurrent(c EvalCase, rec *h.Rec) error {
	e, err := buildEvalEnv(c)
	if err != nil {
		rec.Class("params-rejected")
		return nil
	}
	tn := evalTypeName(c)
	in0 := e.inputsDigest()
	orig := e.newEvaluator(e.evk)
	lateBefore := c.Seed%3 == 0
	if lateBefore {
		e.addLateKeys() // keys put into the shared key set after the evaluator was constructed, before the copies are taken
	}
	if c.UseBefore {
		e.runOps(orig, c.Ops)
	}
	g := c.Goroutines
	objs := make([]evalObj, g)
	objs[0] = orig // "the receiver and the returned evaluators can be used concurrently"
	for i := 1; i < g; i++ {
		switch {
		case i%3 == 2 && e.evk != nil, i == 1 && g == 2 && e.evk != nil && c.Seed&2 == 0:
			// rebinding to the same key set: WithKey shares the buffers of its receiver, so the receiver is a private
			// shallow copy that nobody else uses
			objs[i] = orig.shallowCopy().withKey(e.evk)
		case i%3 == 1:
			objs[i] = orig.shallowCopy()
		default:
			objs[i] = objs[i-1].shallowCopy() // copy of a copy
		}
	}
	if !lateBefore {
		e.addLateKeys() // history: the key set grows after every copy was derived (and before any concurrent use)
	}
	// sequential reference: the same original, used alone
	want := e.runOps(orig, c.Ops)
	if err := e.checkLateKeys(orig, want, rec); err != nil {
		return err
	}

	if len(c.LateRots) > 0 && rec.Known(lateKeyRaceKey, "shared automorphism index map filled lazily (scenario skipped: the race detector would fail the process)") {
		rec.Class("known=" + lateKeyRaceKey)
		// still check the sequential behaviour of the copies
		for i := 0; i < g; i++ {
			if d := firstDiff(want, e.runOps(objs[i], c.Ops)); d >= 0 {
				return h.Failf(fmt.Sprintf("C10:%s.ShallowCopy:behaviour:%s", tn, c.Ops[d].Kind), "copy #%d differs from the reference at op #%d %+v", i, d, c.Ops[d])
			}
		}
		e.describe(c, want, rec)
		return nil
	}

	results := make([][]string, g)
	n, site, report := raceWatch(func() {
		parallel(g, func(i int) {
			ops, idx := rotateOps(c.Ops, i)
			res := e.runOps(objs[i], ops)
			out := make([]string, len(ops))
			for j := range res {
				out[idx[j]] = res[j]
			}
			results[i] = out
		})
	})
	if n > 0 {
		return h.Failf("C10:race@"+site, "%s: %d data race(s) reported while %d goroutines used their own ShallowCopy (sharing keys, parameters, inputs):\n%s", tn, n, g, report)
	}
	for i := 0; i < g; i++ {
		if d := firstDiff(want, results[i]); d >= 0 {
			return h.Failf(fmt.Sprintf("C10:%s.ShallowCopy:parallel-result:%s", tn, c.Ops[d].Kind),
				"%s: goroutine %d of %d: op #%d %+v gives %s in parallel but %s sequentially", tn, i, g, d, c.Ops[d], results[i][d], want[d])
		}
	}
	if in1 := e.inputsDigest(); in1 != in0 {
		return h.Failf("C10:"+tn+":inputs-modified", "an operation with a fresh output modified its inputs")
	}
	rec.Classf("G=%d", g)
	e.describe(c, want, rec)
	return nil
}

var propEvalConc = h.NewProp("TestPropConcurrentEvaluators", h.Budget{Quick: 160, Thorough: 3200},
	func(t *rapid.T) EvalCase { return genEvalCase(t, true) }, runEvalConcurrent)

func TestPropConcurrentEvaluators(t *testing.T) { propEvalConc.Check(t) }
