//go:build race

package c10

import (
	"fmt"
	"os"
	"regexp"
	"runtime"
	"strings"
	"sync"
	"syscall"
)

const raceEnabled = true

var raceMu sync.Mutex

var lattigoFrame = regexp.MustCompile(`github\.com/tuneinsight/lattigo/v6/(\S+)\(\)`)

// raceWatch runs f and reports the data races the Go race detector found while it ran: their number, a key naming
// the first lattigo function of the first report, and the text of that report (read back from a redirected stderr).
func raceWatch(f func()) (n int, site string, report string) {
	raceMu.Lock()
	defer raceMu.Unlock()
	path := fmt.Sprintf("%s/c10-race-%d.log", os.TempDir(), os.Getpid())
	tmp, err := os.Create(path)
	saved := -1
	if err == nil {
		if saved, err = syscall.Dup(2); err == nil {
			if err = syscall.Dup2(int(tmp.Fd()), 2); err != nil {
				syscall.Close(saved)
				saved = -1
			}
		}
	}
	before := runtime.RaceErrors()
	func() {
		defer func() {
			if saved >= 0 {
				_ = syscall.Dup2(saved, 2)
				syscall.Close(saved)
			}
		}()
		f()
	}()
	n = runtime.RaceErrors() - before
	if tmp != nil {
		tmp.Close()
		b, _ := os.ReadFile(path)
		os.Remove(path)
		if len(b) > 0 {
			os.Stderr.Write(b) // keep it in the shard log
		}
		report = string(b)
	}
	if n > 0 {
		site = "unknown"
		if i := strings.Index(report, "WARNING: DATA RACE"); i >= 0 {
			rep := report[i:]
			if j := strings.Index(rep, "=================="); j > 0 {
				rep = rep[:j]
			}
			report = rep
			if m := lattigoFrame.FindStringSubmatch(rep); m != nil {
				site = m[1]
			}
		}
		if len(report) > 3000 {
			report = report[:3000]
		}
	} else {
		report = ""
	}
	return
}
