package c10

import (
	"fmt"
	"math/big"
	"sort"
	"strings"
	"testing"

	"verif/internal/h"

	"github.com/tuneinsight/lattigo/v6/core/rgsw"
	"github.com/tuneinsight/lattigo/v6/core/rlwe"
	"github.com/tuneinsight/lattigo/v6/ring"
	"github.com/tuneinsight/lattigo/v6/ring/ringqp"
	"github.com/tuneinsight/lattigo/v6/schemes/bgv"
	"github.com/tuneinsight/lattigo/v6/schemes/ckks"
	"github.com/tuneinsight/lattigo/v6/utils/bignum"
	"pgregory.net/rapid"
)

// ---------------------------------------------------------------------------------------------------------------------
// Encryptors, decryptors, key generators, encoders, basis extenders, rings and samplers.
// ---------------------------------------------------------------------------------------------------------------------

// ObjCase is one generated case of TestPropObjectCopy.
type ObjCase struct {
	Kind      string     `json:"kind"` // <type>.<constructor>
	RLWE      h.RLWESpec `json:"params"`
	T         uint64     `json:"t,omitempty"`
	LogScale  int        `json:"logScale,omitempty"`
	Prec      uint       `json:"prec,omitempty"`
	Seed      uint64     `json:"seed"`
	KeyKind   string     `json:"keyKind,omitempty"` // sk | pk | nil
	Levels    []int      `json:"levels"`
	NOps      int        `json:"nops"`
	G         int        `json:"goroutines"`
	UseBefore bool       `json:"useBefore,omitempty"`
}

func (c ObjCase) RandSeed() uint64 { return c.Seed }

var objKinds = []string{
	"rlwe.Decryptor.ShallowCopy", "rlwe.Decryptor.WithKey",
	"rlwe.Encryptor.ShallowCopy", "rlwe.Encryptor.ShallowCopy", "rlwe.Encryptor.WithKey", "rlwe.Encryptor.WithPRNG",
	"rlwe.KeyGenerator.Encryptor.ShallowCopy",
	"rgsw.Encryptor.ShallowCopy",
	"bgv.Encoder.ShallowCopy", "bgv.Encoder.ShallowCopy", "ckks.Encoder.ShallowCopy", "ckks.Encoder.ShallowCopy",
	"ring.BasisExtender.ShallowCopy", "ring.BasisExtender.ShallowCopy",
	"ring.Ring.AtLevel", "ringqp.Ring.AtLevel",
	"ring.UniformSampler.AtLevel", "ring.GaussianSampler.AtLevel", "ring.TernarySampler.AtLevel", "ringqp.UniformSampler.AtLevel",
	"ring.UniformSampler.WithPRNG", "ringqp.UniformSampler.WithPRNG",
	"rlwe.MemEvaluationKeySet.ShallowCopy",
}

func genObjCase(t *rapid.T) ObjCase {
	var c ObjCase
	c.Kind = objKinds[rapid.IntRange(0, len(objKinds)-1).Draw(t, "kind")]
	tr := true
	switch {
	case strings.HasPrefix(c.Kind, "bgv."):
		c.RLWE = genRLWE(t, 4, 6, 3, 1, false, &tr)
		c.T = pick(t, "t", uint64(17), 97, 257, 65537)
	case strings.HasPrefix(c.Kind, "ckks."):
		c.RLWE = genRLWE(t, 4, 6, 3, 1, true, &tr)
		c.LogScale = rapid.IntRange(20, 45).Draw(t, "logScale")
		c.Prec = pick(t, "prec", uint(0), 0, 53, 64, 128)
	case strings.HasPrefix(c.Kind, "ring.BasisExtender"), strings.HasPrefix(c.Kind, "ringqp."):
		lo, hi := bigLogN(t, 4, 6)
		c.RLWE = h.GenRLWESpec(t, h.RLWEOpts{MinLogN: lo, MaxLogN: hi, MinQ: 1, MaxQ: 4, MinP: 1, MaxP: 3, MinBits: 30, MaxBits: 60, NTT: &tr, DefaultDists: true})
	default:
		// encryption / decryption scenarios carry a noise oracle: keep Q >= 2^40 so that the bound is << Q
		lo, hi := bigLogN(t, 4, 6)
		c.RLWE = h.GenRLWESpec(t, h.RLWEOpts{MinLogN: lo, MaxLogN: hi, MinQ: 1, MaxQ: 3, MinP: 0, MaxP: 2, MinBits: 40, MaxBits: 60, AllowCI: true, PBits: 61})
	}
	if strings.Contains(c.Kind, "Sampler") {
		// the sampler kind under test is built explicitly; parameters only provide the rings
		c.RLWE.Xs, c.RLWE.Xe = h.DefaultXs, h.DefaultXe
	}
	if strings.HasPrefix(c.Kind, "rgsw.") {
		c.RLWE.Xs, c.RLWE.Xe = h.DefaultXs, h.DefaultXe
	}
	c.Seed = rapid.Uint64().Draw(t, "seed")
	c.KeyKind = pick(t, "keyKind", "sk", "sk", "pk", "pk", "nil")
	maxL := len(c.RLWE.Q) - 1
	for i := 0; i < 4; i++ {
		if rapid.Bool().Draw(t, fmt.Sprintf("lvlmax%d", i)) {
			c.Levels = append(c.Levels, maxL)
		} else {
			c.Levels = append(c.Levels, rapid.IntRange(0, maxL).Draw(t, fmt.Sprintf("lvl%d", i)))
		}
	}
	c.NOps = rapid.IntRange(1, 5).Draw(t, "nops")
	c.G = pick(t, "goroutines", 1, 2, 2, 3, 4, 8, 16)
	c.UseBefore = rapid.Bool().Draw(t, "useBefore")
	return c
}

// subject is one (original, copy) pair together with the operations that can be applied to either.
type subject struct {
	orig, cp, ref any        // pointers; ref is what the copy must be configured like (orig for ShallowCopy)
	fresh         bool       // the constructor documents re-allocated buffers / fresh randomness
	exact         bool       // operations are deterministic: results are compared bit by bit
	concurrent    bool       // documented as usable concurrently with the receiver
	skip          []string   // configuration paths the constructor replaces
	refRun        any        // object giving the reference results (default: ref)
	another       func() any // one more copy (for the parallel part)
	run           func(obj any, i int) string
	feats         []string
}

func centeredMax(r *ring.Ring, p ring.Poly) *big.Int {
	n := r.N()
	coeffs := make([]*big.Int, n)
	for i := range coeffs {
		coeffs[i] = new(big.Int)
	}
	r.PolyToBigintCentered(p, 1, coeffs)
	max := new(big.Int)
	for _, c := range coeffs {
		if c.CmpAbs(max) > 0 {
			max.Abs(c)
		}
	}
	return max
}

// decryptsTo checks that ct decrypts under sk to pt (nil: zero) up to the fresh-encryption noise bound.
func decryptsTo(p rlwe.Parameters, sk *rlwe.SecretKey, ct *rlwe.Ciphertext, pt *rlwe.Plaintext, bound int64) string {
	dec := rlwe.NewDecryptor(p, sk)
	out := dec.DecryptNew(ct)
	r := p.RingQ().AtLevel(ct.Level())
	diff := r.NewPoly()
	if pt != nil {
		r.Sub(out.Value, pt.Value, diff)
	} else {
		diff.Copy(out.Value)
	}
	if ct.IsNTT {
		r.INTT(diff, diff)
	}
	if m := centeredMax(r, diff); m.Cmp(big.NewInt(bound)) > 0 {
		return fmt.Sprintf("bad-decryption(noise 2^%d > bound %d)", m.BitLen(), bound)
	}
	return "ok"
}

func noiseBound(p rlwe.Parameters) int64 {
	b := int64(20)
	if g, ok := p.Xe().(ring.DiscreteGaussian); ok {
		b = int64(g.Bound) + 1
	}
	s := int64(1)
	if g, ok := p.Xs().(ring.DiscreteGaussian); ok {
		s = int64(g.Bound) + 1
	}
	n := int64(p.N())
	// pk encryption: e0 + u*e_pk + s*e1 (+ rounding of the division by P); sk encryption: e
	return 2*n*b*s + b + n*s + 64
}

func buildSubject(c ObjCase) (*subject, error) {
	p, err := c.RLWE.Build()
	if err != nil {
		return nil, err
	}
	rng := h.NewSplitMix(c.Seed ^ 0x5151)
	prng := h.KeyedPRNG(fmt.Sprintf("c10-obj-%d", c.Seed))
	s := &subject{}
	lvl := func(i int) int { return c.Levels[i%len(c.Levels)] }
	if len(c.RLWE.P) == 0 {
		s.feats = append(s.feats, "noP")
	}
	if c.RLWE.CI {
		s.feats = append(s.feats, "CI")
	}
	if !c.RLWE.NTT {
		s.feats = append(s.feats, "nonNTT")
	}
	for _, l := range c.Levels {
		if l < p.MaxLevel() {
			s.feats = append(s.feats, "lowLevel")
			break
		}
	}
	if c.UseBefore {
		s.feats = append(s.feats, "usedBefore")
	}

	switch c.Kind {
	case "rlwe.Decryptor.ShallowCopy", "rlwe.Decryptor.WithKey":
		kgen := rlwe.NewKeyGenerator(p)
		sk, sk2 := kgen.GenSecretKeyNew(), kgen.GenSecretKeyNew()
		var cts []*rlwe.Ciphertext
		for i := 0; i < 4; i++ {
			ct := rlwe.NewCiphertextRandom(prng, p, 1+i%3, lvl(i))
			ct.IsNTT = (i%2 == 0) == p.NTTFlag()
			cts = append(cts, ct)
		}
		orig := rlwe.NewDecryptor(p, sk)
		s.orig, s.exact, s.concurrent, s.fresh = orig, true, true, true
		if c.Kind == "rlwe.Decryptor.ShallowCopy" {
			s.cp, s.ref = orig.ShallowCopy(), orig
			s.another = func() any { return orig.ShallowCopy() }
		} else {
			s.cp, s.ref = orig.WithKey(sk2), rlwe.NewDecryptor(p, sk2)
			s.another = func() any { return orig.WithKey(sk2) }
			s.feats = append(s.feats, "rebound")
		}
		s.run = func(obj any, i int) string {
			d := obj.(*rlwe.Decryptor)
			ct := cts[i%4]
			if i%2 == 0 {
				return dg(d.DecryptNew(ct))
			}
			pt := rlwe.NewPlaintext(p, lvl(i+1))
			d.Decrypt(ct, pt)
			return dg(pt)
		}

	case "rlwe.Encryptor.ShallowCopy", "rlwe.Encryptor.WithKey", "rlwe.Encryptor.WithPRNG", "rlwe.KeyGenerator.Encryptor.ShallowCopy":
		kgen := rlwe.NewKeyGenerator(p)
		sk := kgen.GenSecretKeyNew()
		pk := kgen.GenPublicKeyNew(sk)
		sk2 := kgen.GenSecretKeyNew()
		pk2 := kgen.GenPublicKeyNew(sk2)
		key := func(kind string, a *rlwe.SecretKey, b *rlwe.PublicKey) rlwe.EncryptionKey {
			switch kind {
			case "sk":
				return a
			case "pk":
				return b
			}
			return nil
		}
		bound := noiseBound(p)
		s.feats = append(s.feats, "key="+c.KeyKind)
		decKey := sk
		var pts []*rlwe.Plaintext
		for i := 0; i < 4; i++ {
			pt := rlwe.NewPlaintextRandom(prng, p, lvl(i))
			pt.IsNTT = p.NTTFlag()
			pts = append(pts, pt)
		}
		if c.Kind == "rlwe.KeyGenerator.Encryptor.ShallowCopy" {
			// KeyGenerator has no copy constructor of its own; its exported embedded *Encryptor has.
			orig := kgen
			cpEnc := kgen.Encryptor.ShallowCopy()
			s.orig, s.cp, s.ref = orig.Encryptor, cpEnc, orig.Encryptor
			s.fresh, s.concurrent = true, true
			s.another = func() any { return kgen.Encryptor.ShallowCopy() }
			s.run = func(obj any, i int) string {
				kg := &rlwe.KeyGenerator{Encryptor: obj.(*rlwe.Encryptor)}
				return safe(func() string {
					skn := kg.GenSecretKeyNew()
					pkn := kg.GenPublicKeyNew(skn)
					// a public key is an encryption of zero in R_QP: check it over Q
					ct := &rlwe.Ciphertext{Element: rlwe.Element[ring.Poly]{Value: []ring.Poly{pkn.Value[0].Q, pkn.Value[1].Q}, MetaData: &rlwe.MetaData{}}}
					ct.IsNTT, ct.IsMontgomery = true, true
					r := p.RingQ()
					c0, c1 := r.NewPoly(), r.NewPoly()
					r.IMForm(ct.Value[0], c0)
					r.IMForm(ct.Value[1], c1)
					chk := &rlwe.Ciphertext{Element: rlwe.Element[ring.Poly]{Value: []ring.Poly{c0, c1}, MetaData: &rlwe.MetaData{}}}
					chk.IsNTT = true
					return decryptsTo(p, skn, chk, nil, bound)
				})
			}
			break
		}
		orig := rlwe.NewEncryptor(p, key(c.KeyKind, sk, pk))
		s.orig = orig
		switch c.Kind {
		case "rlwe.Encryptor.ShallowCopy":
			s.cp, s.ref, s.fresh, s.concurrent = orig.ShallowCopy(), orig, true, true
			s.another = func() any { return orig.ShallowCopy() }
		case "rlwe.Encryptor.WithKey":
			nk := []string{"sk", "pk"}[rng.Intn(2)]
			s.cp = orig.WithKey(key(nk, sk2, pk2))
			s.ref = rlwe.NewEncryptor(p, key(nk, sk2, pk2))
			decKey = sk2
			s.feats = append(s.feats, "rebound="+nk)
		case "rlwe.Encryptor.WithPRNG":
			s.cp = orig.WithPRNG(h.KeyedPRNG("c10-withprng"))
			s.ref = orig
			s.skip = []string{"uniformSampler"}
		}
		origHasKey := c.KeyKind != "nil"
		s.run = func(obj any, i int) string {
			enc := obj.(*rlwe.Encryptor)
			dk := sk
			if obj != s.orig && c.Kind == "rlwe.Encryptor.WithKey" {
				dk = decKey
			}
			if obj == s.ref && c.Kind == "rlwe.Encryptor.WithKey" {
				dk = decKey
			}
			return safe(func() string {
				pt := pts[i%4]
				switch i % 3 {
				case 0:
					ct, err := enc.EncryptNew(pt)
					if err != nil {
						return "err"
					}
					return decryptsTo(p, dk, ct, pt, bound)
				case 1:
					ct := rlwe.NewCiphertext(p, 1, lvl(i+1))
					if err := enc.Encrypt(pt, ct); err != nil {
						return "err"
					}
					if ct.Level() > pt.Level() {
						return "level-not-reduced"
					}
					ptl := pt
					if ct.Level() < pt.Level() {
						ptl = pt.CopyNew()
						ptl.Resize(0, ct.Level())
					}
					return decryptsTo(p, dk, ct, ptl, bound)
				default:
					if !origHasKey && (c.Kind != "rlwe.Encryptor.WithKey" || obj == s.orig) {
						ct := rlwe.NewCiphertext(p, 1, lvl(i))
						if err := enc.EncryptZero(ct); err != nil {
							return "err"
						}
						return "no-error-without-key"
					}
					ct := enc.EncryptZeroNew(lvl(i))
					return decryptsTo(p, dk, ct, nil, bound)
				}
			})
		}

	case "rlwe.MemEvaluationKeySet.ShallowCopy":
		// "ShallowCopy returns a thread-safe copy of the underlying object": every goroutine reads keys through its own
		// copy (of a copy) and uses them in its own evaluator
		kgen := rlwe.NewKeyGenerator(p)
		sk := kgen.GenSecretKeyNew()
		var rlk *rlwe.RelinearizationKey
		if c.KeyKind != "nil" {
			rlk = kgen.GenRelinearizationKeyNew(sk)
		}
		rots := []int{1, 2, 5}
		var gks []*rlwe.GaloisKey
		for _, k := range rots[:1+rng.Intn(3)] {
			gks = append(gks, kgen.GenGaloisKeyNew(p.GaloisElement(k), sk))
		}
		orig := rlwe.NewMemEvaluationKeySet(rlk, gks...)
		cpSet := orig.ShallowCopy()
		s.orig, s.cp, s.ref, s.exact, s.concurrent = orig, cpSet, orig, true, true
		s.feats = append(s.feats, "keyset")
		s.another = func() any { return cpSet.ShallowCopy() }
		ct := rlwe.NewCiphertextRandom(prng, p, 1, lvl(0))
		ct.IsNTT = p.NTTFlag()
		ct2 := rlwe.NewCiphertextRandom(prng, p, 2, lvl(1))
		ct2.IsNTT = p.NTTFlag()
		s.run = func(obj any, i int) string {
			ks := obj.(rlwe.EvaluationKeySet)
			return safe(func() string {
				switch i % 4 {
				case 0:
					l := append([]uint64(nil), ks.GetGaloisKeysList()...)
					sort.Slice(l, func(a, b int) bool { return l[a] < l[b] })
					return fmt.Sprint(l)
				case 1:
					gk, err := ks.GetGaloisKey(p.GaloisElement(rots[i%3]))
					if err != nil {
						return "err"
					}
					return dg(gk)
				case 2:
					out := rlwe.NewCiphertext(p, 1, ct.Level())
					return dgCt(out, rlwe.NewEvaluator(p, ks).Automorphism(ct, p.GaloisElement(rots[i%3]), out))
				}
				out := rlwe.NewCiphertext(p, 1, ct2.Level())
				return dgCt(out, rlwe.NewEvaluator(p, ks).Relinearize(ct2, out))
			})
		}

	case "rgsw.Encryptor.ShallowCopy":
		kgen := rlwe.NewKeyGenerator(p)
		sk := kgen.GenSecretKeyNew()
		orig := rgsw.NewEncryptor(p, sk)
		s.orig, s.cp, s.ref, s.fresh, s.concurrent = orig, orig.ShallowCopy(), orig, true, true
		s.another = func() any { return orig.ShallowCopy() }
		one := rlwe.NewPlaintext(p, p.MaxLevel())
		one.IsNTT = false
		for j := range one.Value.Coeffs {
			one.Value.Coeffs[j][0] = 1
		}
		bound := noiseBound(p)
		s.run = func(obj any, i int) string {
			enc := obj.(*rgsw.Encryptor)
			return safe(func() string {
				if i%2 == 1 {
					// the embedded rlwe.Encryptor
					ct := enc.EncryptZeroNew(lvl(i))
					return decryptsTo(p, sk, ct, nil, bound)
				}
				ct := rgsw.NewCiphertext(p, p.MaxLevel(), p.MaxLevelP(), 0)
				if err := enc.Encrypt(one, ct); err != nil {
					return "err"
				}
				// every row of the first gadget matrix is an RLWE encryption (over QP, Montgomery+NTT) of w_i * P * m
				// -> the second component is uniform, the structure is fixed: check shape only, semantics belong to C03
				return fmt.Sprintf("shape=%d/%d", len(ct.Value[0].Value), len(ct.Value[1].Value))
			})
		}

	case "bgv.Encoder.ShallowCopy":
		bp, err := (h.BGVSpec{RLWESpec: c.RLWE, T: c.T}).Build()
		if err != nil {
			return nil, err
		}
		orig := bgv.NewEncoder(bp)
		s.orig, s.cp, s.ref, s.fresh, s.exact, s.concurrent = orig, orig.ShallowCopy(), orig, true, true, true
		s.another = func() any { return orig.ShallowCopy() }
		if bp.MaxSlots() < bp.N() {
			s.feats = append(s.feats, "tGap")
		}
		vals := make([][]uint64, 4)
		for k := range vals {
			vals[k] = make([]uint64, bp.MaxSlots())
			for j := range vals[k] {
				vals[k][j] = rng.Uint64() % c.T
			}
		}
		s.run = func(obj any, i int) string {
			ecd := obj.(*bgv.Encoder)
			return safe(func() string {
				pt := bgv.NewPlaintext(bp, lvl(i))
				pt.Scale = rlwe.NewScaleModT(uint64(3+i), c.T)
				if i%3 == 1 {
					pt.IsBatched = false
				}
				if i%3 == 2 {
					// signed input
					v := make([]int64, len(vals[i%4]))
					for j, x := range vals[i%4] {
						v[j] = int64(x) - int64(c.T/2)
					}
					if err := ecd.Encode(v, pt); err != nil {
						return "err"
					}
					out := make([]int64, len(v))
					if err := ecd.Decode(pt, out); err != nil {
						return "err"
					}
					return dg(pt) + fmt.Sprint(out)
				}
				if err := ecd.Encode(vals[i%4], pt); err != nil {
					return "err"
				}
				out := make([]uint64, len(vals[i%4]))
				if err := ecd.Decode(pt, out); err != nil {
					return "err"
				}
				return dg(pt) + fmt.Sprint(out)
			})
		}

	case "ckks.Encoder.ShallowCopy":
		cp, err := (h.CKKSSpec{RLWESpec: c.RLWE, LogScale: c.LogScale}).Build()
		if err != nil {
			return nil, err
		}
		var orig *ckks.Encoder
		if c.Prec != 0 {
			orig = ckks.NewEncoder(cp, c.Prec)
			s.feats = append(s.feats, fmt.Sprintf("prec=%d", c.Prec))
		} else {
			orig = ckks.NewEncoder(cp)
		}
		s.orig, s.cp, s.ref, s.fresh, s.exact, s.concurrent = orig, orig.ShallowCopy(), orig, true, true, true
		s.another = func() any { return orig.ShallowCopy() }
		slots := cp.MaxSlots()
		vals := make([][]complex128, 4)
		for k := range vals {
			vals[k] = make([]complex128, slots>>(k%2))
			for j := range vals[k] {
				vals[k][j] = complex(rng.Float64()*2-1, rng.Float64()*2-1)
			}
		}
		s.run = func(obj any, i int) string {
			ecd := obj.(*ckks.Encoder)
			return safe(func() string {
				pt := ckks.NewPlaintext(cp, lvl(i))
				v := vals[i%4]
				pt.LogDimensions.Cols = cp.LogMaxSlots() - (i%4)%2
				switch i % 3 {
				case 1:
					// coefficient domain, real input
					pt.IsBatched = false
					f := make([]float64, cp.N())
					for j := range f {
						f[j] = real(v[j%len(v)])
					}
					if err := ecd.Encode(f, pt); err != nil {
						return "err"
					}
					out := make([]float64, cp.N())
					if err := ecd.Decode(pt, out); err != nil {
						return "err"
					}
					return dg(pt) + fmt.Sprint(out)
				case 2:
					// arbitrary precision input
					b := make([]*bignum.Complex, len(v))
					for j := range b {
						b[j] = bignum.ToComplex(v[j], 128)
					}
					if err := ecd.Encode(b, pt); err != nil {
						return "err"
					}
					out := make([]*bignum.Complex, len(v))
					if err := ecd.Decode(pt, out); err != nil {
						return "err"
					}
					var sb strings.Builder
					for _, x := range out {
						sb.WriteString(x[0].Text('p', 0) + "," + x[1].Text('p', 0) + ";")
					}
					return dg(pt) + hashBytes([]byte(sb.String()))
				}
				if err := ecd.Encode(v, pt); err != nil {
					return "err"
				}
				out := make([]complex128, len(v))
				if err := ecd.Decode(pt, out); err != nil {
					return "err"
				}
				return dg(pt) + fmt.Sprint(out)
			})
		}

	case "ring.BasisExtender.ShallowCopy":
		rQ, rP := p.RingQ(), p.RingP()
		orig := ring.NewBasisExtender(rQ, rP)
		s.orig, s.cp, s.ref, s.fresh, s.exact, s.concurrent = orig, orig.ShallowCopy(), orig, true, true, true
		s.another = func() any { return orig.ShallowCopy() }
		us := ringqp.NewUniformSampler(prng, *p.RingQP())
		ins := make([]ringqp.Poly, 3)
		for k := range ins {
			ins[k] = p.RingQP().NewPoly()
			us.Read(ins[k])
		}
		s.run = func(obj any, i int) string {
			be := obj.(*ring.BasisExtender)
			return safe(func() string {
				lq := lvl(i)
				lp := int(uint(i*7+lq) % uint(p.PCount()))
				in := ins[i%3]
				outQ, outP := rQ.NewPoly(), rP.NewPoly()
				switch i % 5 {
				case 0:
					be.ModUpQtoP(lq, lp, in.Q, outP)
					return dgPoly(outP)
				case 1:
					be.ModUpPtoQ(lp, lq, in.P, outQ)
					return dgPoly(outQ)
				case 2:
					be.ModDownQPtoQ(lq, lp, in.Q, in.P, outQ)
					return dgPoly(outQ)
				case 3:
					be.ModDownQPtoQNTT(lq, lp, in.Q, in.P, outQ)
					return dgPoly(outQ)
				}
				be.ModDownQPtoP(lq, lp, in.Q, in.P, outP)
				return dgPoly(outP)
			})
		}

	case "ring.Ring.AtLevel", "ringqp.Ring.AtLevel":
		// AtLevel views are documented as thread safe: every goroutine works with its own view of the shared ring
		rQ := p.RingQ()
		us := ring.NewUniformSampler(prng, rQ)
		a, b := us.ReadNew(), us.ReadNew()
		s.exact, s.concurrent, s.fresh = true, true, false
		if c.Kind == "ring.Ring.AtLevel" {
			l := lvl(0)
			s.orig, s.cp, s.ref = rQ, rQ.AtLevel(l), rQ.AtLevel(l)
			s.another = func() any { return rQ.AtLevel(lvl(1)) }
			s.run = func(obj any, i int) string {
				r := obj.(*ring.Ring).AtLevel(lvl(i)) // a view of a view
				return safe(func() string {
					out := r.NewPoly()
					switch i % 4 {
					case 0:
						r.NTT(a, out)
					case 1:
						r.MulCoeffsBarrett(a, b, out)
					case 2:
						r.INTT(a, out)
						r.MForm(out, out)
					default:
						r.Add(a, b, out)
						r.Neg(out, out)
					}
					return fmt.Sprintf("L%d:%s", r.Level(), dgPoly(out))
				})
			}
		} else {
			rqp := p.RingQP()
			l := lvl(0)
			v := rqp.AtLevel(l, p.MaxLevelP())
			w := rqp.AtLevel(l, p.MaxLevelP())
			s.orig, s.cp, s.ref = rqp, &v, &w
			s.another = func() any { x := rqp.AtLevel(lvl(1), p.MaxLevelP()); return &x }
			uqp := ringqp.NewUniformSampler(prng, *rqp)
			x, y := rqp.NewPoly(), rqp.NewPoly()
			uqp.Read(x)
			uqp.Read(y)
			s.run = func(obj any, i int) string {
				r := obj.(*ringqp.Ring).AtLevel(lvl(i), int(uint(i)%uint(p.PCount()+1))-1)
				return safe(func() string {
					out := rqp.NewPoly()
					switch i % 3 {
					case 0:
						r.NTT(x, out)
					case 1:
						r.MulCoeffsMontgomery(x, y, out)
					default:
						r.Add(x, y, out)
					}
					return dgPoly(out.Q) + dgPoly(out.P)
				})
			}
		}

	default:
		return buildSamplerSubject(c, p, s)
	}
	return s, nil
}

// buildSamplerSubject: AtLevel / WithPRNG of the ring samplers. Documented as NOT usable concurrently with the
// base sampler, hence sequential only. Oracle: the level view, driven by the same keyed PRNG stream, samples exactly
// what a sampler constructed on ring.AtLevel(level) samples, into a polynomial of that level.
func buildSamplerSubject(c ObjCase, p rlwe.Parameters, s *subject) (*subject, error) {
	rQ := p.RingQ()
	l := c.Levels[0]
	label := fmt.Sprintf("c10-sampler-%d", c.Seed)
	rng := h.NewSplitMix(c.Seed)
	mont := rng.Intn(2) == 0
	var dist ring.DistributionParameters
	switch c.Kind {
	case "ring.GaussianSampler.AtLevel":
		dist = ring.DiscreteGaussian{Sigma: 3.2, Bound: 19.2}
	case "ring.TernarySampler.AtLevel":
		if rng.Intn(2) == 0 {
			dist = ring.Ternary{P: []float64{0.5, 1.0 / 3, 0.25}[rng.Intn(3)]}
		} else {
			dist = ring.Ternary{H: 1 + rng.Intn(rQ.N())}
		}
		s.feats = append(s.feats, fmt.Sprintf("%+v", dist))
	default:
		dist = ring.Uniform{}
	}
	s.exact = true
	mk := func(r *ring.Ring) (ring.Sampler, error) { return ring.NewSampler(h.KeyedPRNG(label), r, dist, mont) }
	switch c.Kind {
	case "ring.UniformSampler.AtLevel", "ring.GaussianSampler.AtLevel", "ring.TernarySampler.AtLevel":
		base, err := mk(rQ)
		if err != nil {
			return nil, err
		}
		refS, err := mk(rQ.AtLevel(l))
		if err != nil {
			return nil, err
		}
		s.orig, s.cp, s.ref = base, base.AtLevel(l), refS
		s.skip = []string{"baseSampler.prng", "randomBuffer"}
		s.run = func(obj any, i int) string {
			sm := obj.(ring.Sampler)
			if obj == s.orig {
				return "base" // the base sampler is not exercised: it shares its PRNG with the view
			}
			return safe(func() string {
				pol := rQ.AtLevel(l).NewPoly()
				switch i % 3 {
				case 0:
					sm.Read(pol)
				case 1:
					pol = sm.ReadNew()
				default:
					for j := range pol.Coeffs {
						for k := range pol.Coeffs[j] {
							pol.Coeffs[j][k] = uint64(k)
						}
					}
					sm.ReadAndAdd(pol)
				}
				return fmt.Sprintf("L%d:%s", pol.Level(), dgPoly(pol))
			})
		}
	case "ringqp.UniformSampler.AtLevel":
		rqp := *p.RingQP()
		lp := p.MaxLevelP()
		base := ringqp.NewUniformSampler(h.KeyedPRNG(label), rqp)
		view := base.AtLevel(l, lp)
		refS := ringqp.NewUniformSampler(h.KeyedPRNG(label), rqp.AtLevel(l, lp))
		s.orig, s.cp, s.ref = &base, &view, &refS
		s.skip = []string{"samplerQ.baseSampler.prng", "samplerQ.randomBuffer", "samplerP.baseSampler.prng", "samplerP.randomBuffer"}
		s.run = func(obj any, i int) string {
			if obj == s.orig {
				return "base"
			}
			sm := obj.(*ringqp.UniformSampler)
			return safe(func() string {
				pol := rqp.AtLevel(l, lp).NewPoly()
				sm.Read(pol)
				return dgPoly(pol.Q) + dgPoly(pol.P)
			})
		}
	case "ring.UniformSampler.WithPRNG":
		base := ring.NewUniformSampler(h.KeyedPRNG(label+"-base"), rQ.AtLevel(l))
		if c.UseBefore {
			base.ReadNew()
		}
		s.orig, s.cp, s.ref = base, base.WithPRNG(h.KeyedPRNG(label)), ring.NewUniformSampler(h.KeyedPRNG(label), rQ.AtLevel(l))
		s.skip = []string{"baseSampler.prng", "randomBuffer"}
		s.fresh = true
		s.run = func(obj any, i int) string {
			if obj == s.orig {
				return "base"
			}
			return safe(func() string { return dgPoly(obj.(*ring.UniformSampler).ReadNew()) })
		}
	case "ringqp.UniformSampler.WithPRNG":
		rqp := p.RingQP().AtLevel(l, p.MaxLevelP())
		base := ringqp.NewUniformSampler(h.KeyedPRNG(label+"-base"), rqp)
		if c.UseBefore {
			base.ReadNew()
		}
		cp := base.WithPRNG(h.KeyedPRNG(label))
		refS := ringqp.NewUniformSampler(h.KeyedPRNG(label), rqp)
		s.orig, s.cp, s.ref = &base, &cp, &refS
		s.skip = []string{"samplerQ.baseSampler.prng", "samplerQ.randomBuffer", "samplerP.baseSampler.prng", "samplerP.randomBuffer"}
		s.fresh = true
		s.run = func(obj any, i int) string {
			if obj == s.orig {
				return "base"
			}
			return safe(func() string {
				pol := obj.(*ringqp.UniformSampler).ReadNew()
				return dgPoly(pol.Q) + dgPoly(pol.P)
			})
		}
	default:
		return nil, fmt.Errorf("unknown kind %s", c.Kind)
	}
	return s, nil
}

func runSeq(s *subject, obj any, n int) []string {
	out := make([]string, n)
	for i := 0; i < n; i++ {
		out[i] = s.run(obj, i)
	}
	return out
}

func verdictsOK(res []string) (int, string) {
	for i, r := range res {
		if r != "ok" && r != "err" && !strings.HasPrefix(r, "shape=") {
			return i, r
		}
	}
	return -1, ""
}

func runObj(c ObjCase, rec *h.Rec) error {
	s, err := buildSubject(c)
	if err != nil {
		rec.Class("rejected")
		return nil
	}
	name := c.Kind
	sampler := strings.Contains(name, "Sampler")
	if c.UseBefore && !sampler {
		runSeq(s, s.orig, c.NOps)
	}
	// (1) configuration
	shape := !(c.UseBefore && s.ref == s.orig)
	for _, d := range compareConfig(takeSnapshot(s.ref), takeSnapshot(s.cp), s.fresh, shape, s.skip) {
		key := fmt.Sprintf("C10:%s:config:%s:%s", name, d.kind, stripIdx(d.path))
		msg := fmt.Sprintf("%s: %s at field path %q", name, d.kind, d.path)
		if !rec.Known(key, msg) {
			return h.Failf(key, "%s", msg)
		}
		rec.Class("known=" + key)
	}
	// (2) behaviour
	refRun := s.ref
	want := runSeq(s, refRun, c.NOps)
	var origWant []string
	if s.ref != s.orig {
		origWant = runSeq(s, s.orig, c.NOps)
	} else {
		origWant = want
	}
	before := takeSnapshot(s.orig)
	got := runSeq(s, s.cp, c.NOps)
	if !sampler {
		// second life of the copy on other operation indices (other inputs / levels): see perturbOps
		for i := c.NOps + 6; i > c.NOps; i-- {
			s.run(s.cp, i)
		}
	}
	after := takeSnapshot(s.orig)

	if s.exact {
		if i := firstDiff(want, got); i >= 0 {
			key := fmt.Sprintf("C10:%s:behaviour:op%d", name, i%5)
			if sampler {
				key = fmt.Sprintf("C10:%s:behaviour", name)
			}
			msg := fmt.Sprintf("%s: op #%d gives %s on the copy but %s on the reference object", name, i, got[i], want[i])
			if !rec.Known(key, msg) {
				return h.Failf(key, "%s", msg)
			}
			rec.Class("known=" + key)
		}
	} else {
		if i, r := verdictsOK(got); i >= 0 {
			return h.Failf(fmt.Sprintf("C10:%s:behaviour:%s", name, strings.SplitN(r, "(", 2)[0]), "%s: op #%d on the copy: %s", name, i, r)
		}
		if i, r := verdictsOK(want); i >= 0 {
			return h.Failf(fmt.Sprintf("C10:%s:reference:%s", name, strings.SplitN(r, "(", 2)[0]), "%s: op #%d on the reference object: %s", name, i, r)
		}
		if i := firstDiff(want, got); i >= 0 {
			return h.Failf(fmt.Sprintf("C10:%s:behaviour:error-pattern", name), "%s: op #%d gives %s on the copy but %s on the reference object", name, i, got[i], want[i])
		}
	}
	// (3) independence
	if s.fresh && !sampler {
		for _, d := range compareState(before, after, clsCache) {
			return h.Failf(fmt.Sprintf("C10:%s:original-changed:%s", name, stripIdx(d.path)), "%s: using the copy changed the original at %q", name, d.path)
		}
	}
	if !sampler {
		again := runSeq(s, s.orig, c.NOps)
		if s.exact {
			if i := firstDiff(origWant, again); i >= 0 {
				return h.Failf(fmt.Sprintf("C10:%s:original-results-changed", name), "%s: op #%d on the original gives %s after the copy was used, %s before", name, i, again[i], origWant[i])
			}
		} else if i, r := verdictsOK(again); i >= 0 {
			return h.Failf(fmt.Sprintf("C10:%s:original-broken:%s", name, strings.SplitN(r, "(", 2)[0]), "%s: op #%d on the original after the copy was used: %s", name, i, r)
		}
	}
	// (4) concurrency
	if s.concurrent && c.G > 1 {
		objs := []any{s.orig, s.cp}
		for len(objs) < c.G {
			objs = append(objs, s.another())
		}
		objs = objs[:c.G]
		if strings.HasSuffix(name, "Ring.AtLevel") {
			objs[0] = s.cp // the ring itself is only shared through its views
		}
		results := make([][]string, len(objs))
		n, site, report := raceWatch(func() {
			parallel(len(objs), func(i int) { results[i] = runSeq(s, objs[i], c.NOps) })
		})
		if n > 0 {
			return h.Failf("C10:race@"+site, "%s: %d data race(s) with %d goroutines, each using its own copy:\n%s", name, n, len(objs), report)
		}
		for i := range objs {
			ref := want
			if objs[i] == s.orig {
				ref = origWant
			}
			if s.exact {
				if strings.HasSuffix(name, "Ring.AtLevel") {
					ref = want
				}
				if d := firstDiff(ref, results[i]); d >= 0 {
					return h.Failf(fmt.Sprintf("C10:%s:parallel-result", name), "%s: goroutine %d/%d op #%d gives %s in parallel, %s sequentially", name, i, len(objs), d, results[i][d], ref[d])
				}
			} else if d, r := verdictsOK(results[i]); d >= 0 {
				return h.Failf(fmt.Sprintf("C10:%s:parallel-result:%s", name, strings.SplitN(r, "(", 2)[0]), "%s: goroutine %d/%d op #%d: %s", name, i, len(objs), d, r)
			}
		}
		rec.Classf("G=%d", len(objs))
	}
	rec.Class("kind=" + name)
	for _, f := range s.feats {
		rec.Class("feat=" + f)
	}
	okc := 0
	for _, r := range want {
		if r != "err" && r != "panic" && r != "base" {
			okc++
		}
	}
	if len(s.feats) > 0 && okc > 0 {
		g := 1
		if s.concurrent {
			g = c.G
		}
		rec.NonTrivial(fmt.Sprintf("%s|%v|G=%d|nops=%d", name, s.feats, g, c.NOps))
	}
	return nil
}

var propObj = h.NewProp("TestPropObjectCopy", h.Budget{Quick: 500, Thorough: 10000}, genObjCase, runObj)

func TestPropObjectCopy(t *testing.T) { propObj.Check(t) }
