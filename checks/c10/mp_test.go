package c10

import (
	"fmt"
	"strings"
	"testing"

	"verif/internal/h"

	"github.com/tuneinsight/lattigo/v6/core/rlwe"
	"github.com/tuneinsight/lattigo/v6/multiparty"
	"github.com/tuneinsight/lattigo/v6/multiparty/mpbgv"
	"github.com/tuneinsight/lattigo/v6/multiparty/mpckks"
	"github.com/tuneinsight/lattigo/v6/ring"
	"github.com/tuneinsight/lattigo/v6/schemes/bgv"
	"github.com/tuneinsight/lattigo/v6/schemes/ckks"
	"pgregory.net/rapid"
)

// ---------------------------------------------------------------------------------------------------------------------
// Multiparty protocols (multiparty, mpbgv, mpckks): ShallowCopy / WithParams.
// Every scenario is a complete single-party run of the protocol (the N-party case is the same algebra on summed
// shares) whose final result is checked semantically (decrypts / decodes to the expected message).
// ---------------------------------------------------------------------------------------------------------------------

// MPCase is one generated multiparty case.
type MPCase struct {
	Kind      string   `json:"kind"`
	LogN      int      `json:"logN"`
	Q         []uint64 `json:"Q"`
	P         []uint64 `json:"P,omitempty"`
	QOut      []uint64 `json:"Qout,omitempty"` // output parameters of the masked transforms (empty: same as input)
	T         uint64   `json:"t,omitempty"`
	LogScale  int      `json:"logScale,omitempty"`
	Seed      uint64   `json:"seed"`
	Level     int      `json:"level"`
	Sigma     float64  `json:"sigma"` // noise flooding
	BaseTwo   int      `json:"baseTwo,omitempty"`
	G         int      `json:"goroutines"`
	UseBefore bool     `json:"useBefore,omitempty"`
	Transform bool     `json:"transform,omitempty"`
	Rounds    int      `json:"rounds,omitempty"` // protocol rounds per goroutine in the parallel part (0 = 1)
}

func (c MPCase) RandSeed() uint64 { return c.Seed }

var mpKinds = []string{"multiparty.PublicKeyGenProtocol", "multiparty.KeySwitchProtocol", "multiparty.PublicKeySwitchProtocol", "multiparty.EvaluationKeyGenProtocol",
	"multiparty.GaloisKeyGenProtocol", "multiparty.RelinearizationKeyGenProtocol", "mpbgv.EncToShareProtocol", "mpbgv.ShareToEncProtocol", "mpbgv.RefreshProtocol",
	"mpbgv.MaskedTransformProtocol", "mpbgv.MaskedTransformProtocol", "mpckks.EncToShareProtocol", "mpckks.ShareToEncProtocol", "mpckks.RefreshProtocol",
	"mpckks.MaskedLinearTransformationProtocol", "mpckks.MaskedLinearTransformationProtocol.WithParams"}

func genMPCase(t *rapid.T) MPCase {
	var c MPCase
	c.Kind = mpKinds[rapid.IntRange(0, len(mpKinds)-1).Draw(t, "kind")]
	lo, hi := bigLogN(t, 4, 6)
	if hi > 8 {
		lo, hi = 7, 8
	}
	c.LogN = rapid.IntRange(lo, hi).Draw(t, "logN")
	m := uint64(2) << c.LogN
	nq := rapid.IntRange(2, 3).Draw(t, "nQ")
	np := rapid.IntRange(1, 2).Draw(t, "nP")
	used := map[uint64]bool{}
	sizes := func(n, b int) []int {
		out := make([]int, n)
		for i := range out {
			out[i] = b
		}
		return out
	}
	// messages must survive the protocol noise: 50-bit limbs for Q
	c.Q = h.GenPrimes(t, sizes(nq, 50), m, used, "q")
	c.P = h.GenPrimes(t, sizes(np, 55), m, used, "p")
	if rapid.Bool().Draw(t, "otherOut") {
		c.QOut = h.GenPrimes(t, sizes(rapid.IntRange(2, 4).Draw(t, "nQout"), 50), m, used, "qo")
	}
	c.T = pick(t, "t", uint64(257), 65537)
	c.LogScale = 30
	c.Seed = rapid.Uint64().Draw(t, "seed")
	c.Level = rapid.IntRange(0, nq-1).Draw(t, "level")
	c.Sigma = pick(t, "sigma", 3.2, 8.0, 64.0)
	c.BaseTwo = pick(t, "base2", 0, 0, 16)
	c.G = pick(t, "goroutines", 1, 2, 3, 4, 8)
	c.UseBefore = rapid.Bool().Draw(t, "useBefore")
	c.Transform = rapid.Bool().Draw(t, "transform")
	c.Rounds = rapid.IntRange(1, 3).Draw(t, "rounds")
	return c
}

type mpSubject struct {
	orig, cp any
	another  func() any
	round    func(obj any) string // complete protocol round, "ok" or a description of what went wrong
	feats    []string
	skip     []string
	inputs   []any // secret keys, public keys, ciphertexts, plaintexts handed to the rounds: must never change
}

func (c MPCase) spec(q []uint64) h.RLWESpec {
	return h.RLWESpec{LogN: c.LogN, Q: q, P: c.P, Xs: h.DefaultXs, Xe: h.DefaultXe, NTT: true}
}

func buildMP(c MPCase) (*mpSubject, error) {
	s := &mpSubject{}
	noise := ring.DiscreteGaussian{Sigma: c.Sigma, Bound: 6 * c.Sigma}
	crs := func() multiparty.CRS { return h.KeyedPRNG(fmt.Sprintf("c10-crs-%d", c.Seed)) }
	rng := h.NewSplitMix(c.Seed ^ 0x77)
	var ep []rlwe.EvaluationKeyParameters
	if c.BaseTwo != 0 {
		b := c.BaseTwo
		ep = []rlwe.EvaluationKeyParameters{{BaseTwoDecomposition: &b}}
		s.feats = append(s.feats, "base2")
	}
	if c.Level < len(c.Q)-1 {
		s.feats = append(s.feats, "lowLevel")
	}
	if c.UseBefore {
		s.feats = append(s.feats, "usedBefore")
	}
	s.feats = append(s.feats, fmt.Sprintf("sigma=%g", c.Sigma))

	switch c.Kind {
	case "multiparty.PublicKeyGenProtocol", "multiparty.KeySwitchProtocol", "multiparty.PublicKeySwitchProtocol", "multiparty.EvaluationKeyGenProtocol",
		"multiparty.GaloisKeyGenProtocol", "multiparty.RelinearizationKeyGenProtocol":
		p, err := c.spec(c.Q).Build()
		if err != nil {
			return nil, err
		}
		kgen := rlwe.NewKeyGenerator(p)
		sk, sk2 := kgen.GenSecretKeyNew(), kgen.GenSecretKeyNew()
		pk2 := kgen.GenPublicKeyNew(sk2)
		pt := rlwe.NewPlaintextRandom(h.KeyedPRNG(fmt.Sprintf("c10-mp-pt-%d", c.Seed)), p, c.Level)
		pt.IsNTT = true
		ct, err := rlwe.NewEncryptor(p, sk).EncryptNew(pt)
		if err != nil {
			return nil, err
		}
		bound := 3*noiseBound(p) + int64(8*6*c.Sigma) + int64(p.N())*int64(6*c.Sigma+20) + 256
		s.inputs = []any{sk, sk2, pk2, pt, ct}
		switch c.Kind {
		case "multiparty.PublicKeyGenProtocol":
			o := multiparty.NewPublicKeyGenProtocol(p)
			cp := o.ShallowCopy()
			s.orig, s.cp = &o, &cp
			s.another = func() any { x := o.ShallowCopy(); return &x }
			s.round = func(obj any) string {
				pr := obj.(*multiparty.PublicKeyGenProtocol)
				crp := pr.SampleCRP(crs())
				sh := pr.AllocateShare()
				pr.GenShare(sk, crp, &sh)
				pk := rlwe.NewPublicKey(p)
				pr.GenPublicKey(sh, crp, pk)
				r := p.RingQ()
				c0, c1 := r.NewPoly(), r.NewPoly()
				r.IMForm(pk.Value[0].Q, c0)
				r.IMForm(pk.Value[1].Q, c1)
				chk := &rlwe.Ciphertext{Element: rlwe.Element[ring.Poly]{Value: []ring.Poly{c0, c1}, MetaData: &rlwe.MetaData{}}}
				chk.IsNTT = true
				return decryptsTo(p, sk, chk, nil, bound)
			}
		case "multiparty.KeySwitchProtocol":
			o, err := multiparty.NewKeySwitchProtocol(p, noise)
			if err != nil {
				return nil, err
			}
			cp := o.ShallowCopy()
			s.orig, s.cp = &o, &cp
			s.another = func() any { x := o.ShallowCopy(); return &x }
			s.round = func(obj any) string {
				pr := obj.(*multiparty.KeySwitchProtocol)
				sh := pr.AllocateShare(ct.Level())
				pr.GenShare(sk, sk2, ct, &sh)
				out := rlwe.NewCiphertext(p, 1, ct.Level())
				pr.KeySwitch(ct, sh, out)
				return decryptsTo(p, sk2, out, pt, bound)
			}
		case "multiparty.PublicKeySwitchProtocol":
			o, err := multiparty.NewPublicKeySwitchProtocol(p, noise)
			if err != nil {
				return nil, err
			}
			cp := o.ShallowCopy()
			s.orig, s.cp = &o, &cp
			s.another = func() any { x := o.ShallowCopy(); return &x }
			s.round = func(obj any) string {
				pr := obj.(*multiparty.PublicKeySwitchProtocol)
				sh := pr.AllocateShare(ct.Level())
				pr.GenShare(sk, pk2, ct, &sh)
				out := rlwe.NewCiphertext(p, 1, ct.Level())
				pr.KeySwitch(ct, sh, out)
				return decryptsTo(p, sk2, out, pt, bound)
			}
		case "multiparty.EvaluationKeyGenProtocol":
			o := multiparty.NewEvaluationKeyGenProtocol(p)
			cp := o.ShallowCopy()
			s.orig, s.cp = &o, &cp
			s.another = func() any { x := o.ShallowCopy(); return &x }
			ev := rlwe.NewEvaluator(p, nil)
			s.round = func(obj any) string {
				pr := obj.(*multiparty.EvaluationKeyGenProtocol)
				crp := pr.SampleCRP(crs(), ep...)
				sh := pr.AllocateShare(ep...)
				if err := pr.GenShare(sk, sk2, crp, &sh); err != nil {
					return "err:" + err.Error()
				}
				evk := rlwe.NewEvaluationKey(p, ep...)
				if err := pr.GenEvaluationKey(sh, crp, evk); err != nil {
					return "err:" + err.Error()
				}
				// the generated key must re-encrypt ct from sk to sk2 (key-switching noise << Q = 2^100+)
				out := rlwe.NewCiphertext(p, 1, ct.Level())
				if err := ev.ShallowCopy().ApplyEvaluationKey(ct, evk, out); err != nil {
					return "err:" + err.Error()
				}
				return decryptsTo(p, sk2, out, pt, 1<<40)
			}
		case "multiparty.GaloisKeyGenProtocol":
			o := multiparty.NewGaloisKeyGenProtocol(p)
			cp := o.ShallowCopy()
			s.orig, s.cp = &o, &cp
			s.another = func() any { x := o.ShallowCopy(); return &x }
			galEl := p.GaloisElement(1 + rng.Intn(5))
			s.round = func(obj any) string {
				pr := obj.(*multiparty.GaloisKeyGenProtocol)
				crp := pr.SampleCRP(crs(), ep...)
				sh := pr.AllocateShare(ep...)
				if err := pr.GenShare(sk, galEl, crp, &sh); err != nil {
					return "err:" + err.Error()
				}
				gk := rlwe.NewGaloisKey(p, ep...)
				if err := pr.GenGaloisKey(sh, crp, gk); err != nil {
					return "err:" + err.Error()
				}
				ev := rlwe.NewEvaluator(p, rlwe.NewMemEvaluationKeySet(nil, gk))
				out := rlwe.NewCiphertext(p, 1, ct.Level())
				if err := ev.Automorphism(ct, galEl, out); err != nil {
					return "err:" + err.Error()
				}
				want := rlwe.NewPlaintext(p, ct.Level())
				want.IsNTT = true
				idx, err := ring.AutomorphismNTTIndex(p.N(), p.RingQ().NthRoot(), galEl)
				if err != nil {
					return "err:" + err.Error()
				}
				p.RingQ().AtLevel(ct.Level()).AutomorphismNTTWithIndex(pt.Value, idx, want.Value)
				return decryptsTo(p, sk, out, want, 1<<40)
			}
		default:
			o := multiparty.NewRelinearizationKeyGenProtocol(p)
			cp := o.ShallowCopy()
			s.orig, s.cp = &o, &cp
			s.another = func() any { x := o.ShallowCopy(); return &x }
			s.round = func(obj any) string {
				pr := obj.(*multiparty.RelinearizationKeyGenProtocol)
				crp := pr.SampleCRP(crs(), ep...)
				eph, s1, s2 := pr.AllocateShare(ep...)
				pr.GenShareRoundOne(sk, crp, eph, &s1)
				pr.GenShareRoundTwo(eph, sk, s1, &s2)
				rlk := rlwe.NewRelinearizationKey(p, ep...)
				pr.GenRelinearizationKey(s1, s2, rlk)
				// relinearise (c0, c1, c2) = (ct0, ct1, 0) + a degree-2 part whose decryption is known: use ct (x) 1
				ev := rlwe.NewEvaluator(p, rlwe.NewMemEvaluationKeySet(rlk))
				c2 := rlwe.NewCiphertext(p, 2, ct.Level())
				c2.Value[0].Copy(ct.Value[0])
				c2.Value[1].Copy(ct.Value[1])
				*c2.MetaData = *ct.MetaData
				out := rlwe.NewCiphertext(p, 1, ct.Level())
				if err := ev.Relinearize(c2, out); err != nil {
					return "err:" + err.Error()
				}
				return decryptsTo(p, sk, out, pt, 1<<40)
			}
		}

	case "mpbgv.EncToShareProtocol", "mpbgv.ShareToEncProtocol", "mpbgv.RefreshProtocol", "mpbgv.MaskedTransformProtocol":
		pin, err := (h.BGVSpec{RLWESpec: c.spec(c.Q), T: c.T}).Build()
		if err != nil {
			return nil, err
		}
		pout := pin
		if len(c.QOut) > 0 && c.Kind == "mpbgv.MaskedTransformProtocol" {
			if pout, err = (h.BGVSpec{RLWESpec: c.spec(c.QOut), T: c.T}).Build(); err != nil {
				return nil, err
			}
			s.feats = append(s.feats, fmt.Sprintf("paramsOut:%d->%d limbs", len(c.Q), len(c.QOut)))
		}
		kgen := rlwe.NewKeyGenerator(pin)
		sk := kgen.GenSecretKeyNew()
		skOut := sk
		if !pout.Equal(&pin) {
			skOut = rlwe.NewKeyGenerator(pout).GenSecretKeyNew()
		}
		ecd := bgv.NewEncoder(pin)
		vals := make([]uint64, pin.MaxSlots())
		for i := range vals {
			vals[i] = rng.Uint64() % c.T
		}
		pt := bgv.NewPlaintext(pin, c.Level)
		if err := ecd.Encode(vals, pt); err != nil {
			return nil, err
		}
		ct, err := rlwe.NewEncryptor(pin, sk).EncryptNew(pt)
		if err != nil {
			return nil, err
		}
		s.inputs = []any{sk, skOut, pt, ct}
		same := func(got []uint64, want []uint64) string {
			for i := range want {
				if got[i] != want[i] {
					return fmt.Sprintf("wrong-message(slot %d: %d != %d)", i, got[i], want[i])
				}
			}
			return "ok"
		}
		switch c.Kind {
		case "mpbgv.EncToShareProtocol":
			o, err := mpbgv.NewEncToShareProtocol(pin, noise)
			if err != nil {
				return nil, err
			}
			cp := o.ShallowCopy()
			s.orig, s.cp = &o, &cp
			s.another = func() any { x := o.ShallowCopy(); return &x }
			s.round = func(obj any) string {
				pr := obj.(*mpbgv.EncToShareProtocol)
				pub := pr.AllocateShare(ct.Level())
				sec := mpbgv.NewAdditiveShare(pin)
				pr.GenShare(sk, ct, &sec, &pub)
				pr.GetShare(&sec, pub, ct, &sec)
				got := make([]uint64, len(vals))
				if err := bgv.NewEncoder(pin).DecodeRingT(sec.Value, ct.Scale, got); err != nil {
					return "err:" + err.Error()
				}
				return same(got, vals)
			}
		case "mpbgv.ShareToEncProtocol":
			o, err := mpbgv.NewShareToEncProtocol(pin, noise)
			if err != nil {
				return nil, err
			}
			cp := o.ShallowCopy()
			s.orig, s.cp = &o, &cp
			s.another = func() any { x := o.ShallowCopy(); return &x }
			sec := mpbgv.NewAdditiveShare(pin)
			if err := ecd.EncodeRingT(vals, pt.Scale, sec.Value); err != nil {
				return nil, err
			}
			s.round = func(obj any) string {
				pr := obj.(*mpbgv.ShareToEncProtocol)
				crp := pr.SampleCRP(c.Level, crs())
				sh := pr.AllocateShare(c.Level)
				if err := pr.GenShare(sk, crp, sec, &sh); err != nil {
					return "err:" + err.Error()
				}
				out := bgv.NewCiphertext(pin, 1, c.Level)
				*out.MetaData = *ct.MetaData
				if err := pr.GetEncryption(sh, crp, out); err != nil {
					return "err:" + err.Error()
				}
				got := make([]uint64, len(vals))
				if err := bgv.NewEncoder(pin).Decode(rlwe.NewDecryptor(pin, sk).DecryptNew(out), got); err != nil {
					return "err:" + err.Error()
				}
				return same(got, vals)
			}
		case "mpbgv.RefreshProtocol":
			o, err := mpbgv.NewRefreshProtocol(pin, noise)
			if err != nil {
				return nil, err
			}
			cp := o.ShallowCopy()
			s.orig, s.cp = &o, &cp
			s.another = func() any { x := o.ShallowCopy(); return &x }
			s.round = func(obj any) string {
				pr := obj.(*mpbgv.RefreshProtocol)
				crp := pr.SampleCRP(pin.MaxLevel(), crs())
				sh := pr.AllocateShare(ct.Level(), pin.MaxLevel())
				if err := pr.GenShare(sk, ct, crp, &sh); err != nil {
					return "err:" + err.Error()
				}
				out := bgv.NewCiphertext(pin, 1, pin.MaxLevel())
				if err := pr.Finalize(ct, crp, sh, out); err != nil {
					return "err:" + err.Error()
				}
				got := make([]uint64, len(vals))
				if err := bgv.NewEncoder(pin).Decode(rlwe.NewDecryptor(pin, sk).DecryptNew(out), got); err != nil {
					return "err:" + err.Error()
				}
				return same(got, vals)
			}
		default:
			o, err := mpbgv.NewMaskedTransformProtocol(pin, pout, noise)
			if err != nil {
				return nil, err
			}
			cp := o.ShallowCopy()
			s.orig, s.cp = &o, &cp
			s.another = func() any { x := o.ShallowCopy(); return &x }
			var tf *mpbgv.MaskedTransformFunc
			want := append([]uint64(nil), vals...)
			if c.Transform {
				s.feats = append(s.feats, "transform")
				tf = &mpbgv.MaskedTransformFunc{Decode: true, Encode: true, Func: func(x []uint64) {
					for i := range x {
						x[i] = (x[i] * 3) % c.T // linear
					}
				}}
				tf.Func(want)
			}
			s.round = func(obj any) string {
				pr := obj.(*mpbgv.MaskedTransformProtocol)
				crp := pr.SampleCRP(pout.MaxLevel(), crs())
				sh := pr.AllocateShare(ct.Level(), pout.MaxLevel())
				if err := pr.GenShare(sk, skOut, ct, crp, tf, &sh); err != nil {
					return "err:" + err.Error()
				}
				out := bgv.NewCiphertext(pout, 1, pout.MaxLevel())
				if err := pr.Transform(ct, tf, crp, sh, out); err != nil {
					return "err:" + err.Error()
				}
				got := make([]uint64, len(vals))
				if err := bgv.NewEncoder(pout).Decode(rlwe.NewDecryptor(pout, skOut).DecryptNew(out), got); err != nil {
					return "err:" + err.Error()
				}
				return same(got, want)
			}
		}

	default: // mpckks
		pin, err := (h.CKKSSpec{RLWESpec: c.spec(c.Q), LogScale: c.LogScale}).Build()
		if err != nil {
			return nil, err
		}
		pout := pin
		otherOut := len(c.QOut) > 0 && (c.Kind == "mpckks.MaskedLinearTransformationProtocol" || c.Kind == "mpckks.MaskedLinearTransformationProtocol.WithParams")
		if otherOut {
			if pout, err = (h.CKKSSpec{RLWESpec: c.spec(c.QOut), LogScale: c.LogScale}).Build(); err != nil {
				return nil, err
			}
			s.feats = append(s.feats, fmt.Sprintf("paramsOut:%d->%d limbs", len(c.Q), len(c.QOut)))
		}
		kgen := rlwe.NewKeyGenerator(pin)
		sk := kgen.GenSecretKeyNew()
		skOut := sk
		if otherOut {
			skOut = rlwe.NewKeyGenerator(pout).GenSecretKeyNew()
		}
		ecd := ckks.NewEncoder(pin)
		vals := make([]complex128, pin.MaxSlots())
		for i := range vals {
			vals[i] = complex(rng.Float64()*2-1, rng.Float64()*2-1)
		}
		pt := ckks.NewPlaintext(pin, c.Level)
		if err := ecd.Encode(vals, pt); err != nil {
			return nil, err
		}
		ct, err := rlwe.NewEncryptor(pin, sk).EncryptNew(pt)
		if err != nil {
			return nil, err
		}
		s.inputs = []any{sk, skOut, pt, ct}
		// 2^30 scale, flooding sigma <= 64, N <= 64: errors stay far below 2^-8
		closeTo := func(pp ckks.Parameters, key *rlwe.SecretKey, out *rlwe.Ciphertext, want []complex128) string {
			got := make([]complex128, len(want))
			if err := ckks.NewEncoder(pp).Decode(rlwe.NewDecryptor(pp, key).DecryptNew(out), got); err != nil {
				return "err:" + err.Error()
			}
			for i := range want {
				d := got[i] - want[i]
				if real(d) > 1.0/256 || real(d) < -1.0/256 || imag(d) > 1.0/256 || imag(d) < -1.0/256 {
					return fmt.Sprintf("wrong-message(slot %d: %v != %v)", i, got[i], want[i])
				}
			}
			return "ok"
		}
		logBound := uint(40)
		switch c.Kind {
		case "mpckks.EncToShareProtocol":
			o, err := mpckks.NewEncToShareProtocol(pin, noise)
			if err != nil {
				return nil, err
			}
			cp := o.ShallowCopy()
			s.orig, s.cp = &o, &cp
			s.another = func() any { x := o.ShallowCopy(); return &x }
			s2e, err := mpckks.NewShareToEncProtocol(pin, noise)
			if err != nil {
				return nil, err
			}
			s.round = func(obj any) string {
				pr := obj.(*mpckks.EncToShareProtocol)
				pub := pr.AllocateShare(ct.Level())
				sec := mpckks.NewAdditiveShare(pin, ct.LogSlots())
				if err := pr.GenShare(sk, logBound, ct, &sec, &pub); err != nil {
					return "err:" + err.Error()
				}
				pr.GetShare(&sec, pub, ct, &sec)
				// turn the additive share back into a ciphertext with an independent ShareToEnc instance
				x := s2e.ShallowCopy()
				crp := x.SampleCRP(pin.MaxLevel(), crs())
				sh := x.AllocateShare(pin.MaxLevel())
				if err := x.GenShare(sk, crp, ct.MetaData, sec, &sh); err != nil {
					return "err:" + err.Error()
				}
				out := ckks.NewCiphertext(pin, 1, pin.MaxLevel())
				*out.MetaData = *ct.MetaData
				if err := x.GetEncryption(sh, crp, out); err != nil {
					return "err:" + err.Error()
				}
				return closeTo(pin, sk, out, vals)
			}
		case "mpckks.ShareToEncProtocol":
			o, err := mpckks.NewShareToEncProtocol(pin, noise)
			if err != nil {
				return nil, err
			}
			cp := o.ShallowCopy()
			s.orig, s.cp = &o, &cp
			s.another = func() any { x := o.ShallowCopy(); return &x }
			e2s, err := mpckks.NewEncToShareProtocol(pin, noise)
			if err != nil {
				return nil, err
			}
			s.round = func(obj any) string {
				pr := obj.(*mpckks.ShareToEncProtocol)
				y := e2s.ShallowCopy()
				pub := y.AllocateShare(ct.Level())
				sec := mpckks.NewAdditiveShare(pin, ct.LogSlots())
				if err := y.GenShare(sk, logBound, ct, &sec, &pub); err != nil {
					return "err:" + err.Error()
				}
				y.GetShare(&sec, pub, ct, &sec)
				crp := pr.SampleCRP(pin.MaxLevel(), crs())
				sh := pr.AllocateShare(pin.MaxLevel())
				if err := pr.GenShare(sk, crp, ct.MetaData, sec, &sh); err != nil {
					return "err:" + err.Error()
				}
				out := ckks.NewCiphertext(pin, 1, pin.MaxLevel())
				*out.MetaData = *ct.MetaData
				if err := pr.GetEncryption(sh, crp, out); err != nil {
					return "err:" + err.Error()
				}
				return closeTo(pin, sk, out, vals)
			}
		case "mpckks.RefreshProtocol":
			o, err := mpckks.NewRefreshProtocol(pin, 128, noise)
			if err != nil {
				return nil, err
			}
			cp := o.ShallowCopy()
			s.orig, s.cp = &o, &cp
			s.another = func() any { x := o.ShallowCopy(); return &x }
			s.round = func(obj any) string {
				pr := obj.(*mpckks.RefreshProtocol)
				crp := pr.SampleCRP(pin.MaxLevel(), crs())
				sh := pr.AllocateShare(ct.Level(), pin.MaxLevel())
				if err := pr.GenShare(sk, logBound, ct, crp, &sh); err != nil {
					return "err:" + err.Error()
				}
				out := ckks.NewCiphertext(pin, 1, pin.MaxLevel())
				if err := pr.Finalize(ct, crp, sh, out); err != nil {
					return "err:" + err.Error()
				}
				return closeTo(pin, sk, out, vals)
			}
		default:
			o, err := mpckks.NewMaskedLinearTransformationProtocol(pin, pout, 128, noise)
			if err != nil {
				return nil, err
			}
			var cp mpckks.MaskedLinearTransformationProtocol
			if c.Kind == "mpckks.MaskedLinearTransformationProtocol" {
				cp = o.ShallowCopy()
				s.another = func() any { x := o.ShallowCopy(); return &x }
			} else {
				// rebinding the output parameters on a shallow copy must work like on the original; the reference
				// object for the configuration is a protocol constructed for (paramsIn, paramsOut) directly
				base, err := mpckks.NewMaskedLinearTransformationProtocol(pin, pin, 128, noise)
				if err != nil {
					return nil, err
				}
				sc := base.ShallowCopy()
				var ok bool
				if _, ok = safeWithParams(base, pout); !ok {
					return nil, fmt.Errorf("WithParams panics on the original")
				}
				if cp, ok = safeWithParams(sc, pout); !ok {
					return nil, errWithParamsPanic
				}
				s.another = func() any { x := base.WithParams(pout); return &x }
				s.feats = append(s.feats, "WithParams(ShallowCopy)")
			}
			s.orig, s.cp = &o, &cp
			s.round = func(obj any) string {
				pr := obj.(*mpckks.MaskedLinearTransformationProtocol)
				crp := pr.SampleCRP(pout.MaxLevel(), crs())
				sh := pr.AllocateShare(ct.Level(), pout.MaxLevel())
				if err := pr.GenShare(sk, skOut, logBound, ct, crp, nil, &sh); err != nil {
					return "err:" + err.Error()
				}
				out := ckks.NewCiphertext(pout, 1, pout.MaxLevel())
				if err := pr.Transform(ct, nil, crp, sh, out); err != nil {
					return "err:" + err.Error()
				}
				return closeTo(pout, skOut, out, vals)
			}
		}
	}
	return s, nil
}

// safeWithParams calls WithParams and converts a panic into a zero protocol (the round on it then reports the failure).
func safeWithParams(m mpckks.MaskedLinearTransformationProtocol, p ckks.Parameters) (out mpckks.MaskedLinearTransformationProtocol, ok bool) {
	defer func() {
		if r := recover(); r != nil {
			out, ok = mpckks.MaskedLinearTransformationProtocol{}, false
		}
	}()
	return m.WithParams(p), true
}

var errWithParamsPanic = fmt.Errorf("ShallowCopy().WithParams panics")

const mpbgvTmpPtKey = "C10:mpbgv.MaskedTransformProtocol.ShallowCopy:tmpPt-allocated-from-paramsIn"

const mpckksNoiseKey = "C10:mpckks.MaskedLinearTransformationProtocol.ShallowCopy:noise-dropped"

func runMP(c MPCase, rec *h.Rec) error {
	s, err := buildMP(c)
	if err == errWithParamsPanic {
		msg := "mpckks.MaskedLinearTransformationProtocol: ShallowCopy().WithParams(paramsOut) panics although WithParams(paramsOut) on the original succeeds"
		if rec.Known(mpckksNoiseKey, msg) {
			rec.Class("known=" + mpckksNoiseKey)
			return nil
		}
		return h.Failf(mpckksNoiseKey, "%s", msg)
	}
	if err != nil {
		rec.Class("rejected")
		return nil
	}
	name := c.Kind + ".ShallowCopy"
	if c.Kind == "mpckks.MaskedLinearTransformationProtocol.WithParams" {
		name = c.Kind
	}
	// variants: the same protocol configuration with other secrets, ciphertexts, levels, Galois elements and CRPs. The
	// original works on variant 0, the copy on variant 1, goroutine i on variants i, i+1, ...: a scratch area shared
	// between two instances then sees different data (identical data would hide the sharing from every dynamic oracle).
	build := func() ([]*mpSubject, error) {
		nv := 2
		if c.G > nv {
			nv = c.G
		}
		if nv > 4 {
			nv = 4
		}
		vs := make([]*mpSubject, nv)
		for v := range vs {
			cv := c
			cv.Seed = c.Seed + uint64(v)*0x9e3779b97f4a7c15
			cv.Level = (c.Level + v) % len(c.Q)
			var err error
			if vs[v], err = buildMP(cv); err != nil {
				return nil, err
			}
		}
		return vs, nil
	}
	vs, err := build()
	if err != nil {
		rec.Class("rejected")
		return nil
	}
	s = vs[0]
	round := func(obj any, v int) string { return safe(func() string { return vs[v%len(vs)].round(obj) }) }
	inputsDigest := func() string {
		var sb strings.Builder
		for _, v := range vs {
			for _, in := range v.inputs {
				sn := takeSnapshot(in)
				for _, p := range sn.order {
					fmt.Fprintf(&sb, "%x.", sn.nodes[p].hash)
				}
			}
		}
		return hashBytes([]byte(sb.String()))
	}
	in0 := inputsDigest()
	if r := round(s.orig, 0); r != "ok" {
		// the scenario itself must be valid before anything is said about the copy
		return h.Failf(fmt.Sprintf("C10:harness:%s:reference-round", name), "%s: protocol round on the original: %s", name, r)
	}
	if !c.UseBefore {
		// rebuild so that the copy is taken from an unused original
		if vs, err = build(); err != nil {
			return nil
		}
		s = vs[0]
		in0 = inputsDigest()
	}
	// (1) configuration
	tmpPtIssue := false
	for _, d := range compareConfig(takeSnapshot(s.orig), takeSnapshot(s.cp), true, !c.UseBefore, s.skip) {
		key := fmt.Sprintf("C10:%s:config:%s:%s", name, d.kind, stripIdx(d.path))
		msg := fmt.Sprintf("%s: %s at field path %q (copy vs original)", name, d.kind, d.path)
		if strings.HasPrefix(c.Kind, "mpckks.") && (strings.HasPrefix(d.path, "noise") || strings.Contains(d.path, ".noise")) && !strings.Contains(d.path, "KeySwitchProtocol") {
			key = mpckksNoiseKey
		}
		if c.Kind == "mpbgv.MaskedTransformProtocol" && strings.HasPrefix(d.path, "tmpPt") {
			key, tmpPtIssue = mpbgvTmpPtKey, true
		}
		if !rec.Known(key, msg) {
			return h.Failf(key, "%s", msg)
		}
		rec.Class("known=" + key)
	}
	// (2) behaviour + (3) independence
	before := takeSnapshot(s.orig)
	r := round(s.cp, 1)
	if r == "ok" {
		r = round(s.cp, 0) // second use of the copy, on the original's data
	}
	if r == "ok" {
		r = round(s.cp, 1)
	}
	after := takeSnapshot(s.orig)
	if r != "ok" {
		key := fmt.Sprintf("C10:%s:behaviour:%s", name, keyPart(r))
		msg := fmt.Sprintf("%s: the protocol round that succeeds on the original gives on the copy: %s", name, r)
		if tmpPtIssue || (c.Kind == "mpbgv.MaskedTransformProtocol" && len(c.QOut) > len(c.Q)) {
			// output modulus chain longer than the input one: the copy's tmpPt (allocated from paramsIn) is too short
			key = mpbgvTmpPtKey
		}
		if !rec.Known(key, msg) {
			return h.Failf(key, "%s", msg)
		}
		rec.Class("known=" + key)
	}
	for _, d := range compareState(before, after, clsCache) {
		return h.Failf(fmt.Sprintf("C10:%s:original-changed:%s", name, stripIdx(d.path)), "%s: using the copy changed the original at %q", name, d.path)
	}
	if r2 := round(s.orig, 0); r2 != "ok" {
		return h.Failf(fmt.Sprintf("C10:%s:original-broken:%s", name, keyPart(r2)), "%s: round on the original after the copy was used: %s", name, r2)
	}
	// (4) concurrency
	if c.G > 1 && r == "ok" && s.another != nil {
		objs := []any{s.orig, s.cp}
		for len(objs) < c.G {
			objs = append(objs, s.another())
		}
		objs = objs[:c.G]
		res := make([]string, len(objs))
		rounds := c.Rounds
		if rounds < 1 {
			rounds = 1
		}
		n, site, report := raceWatch(func() {
			parallel(len(objs), func(i int) {
				res[i] = "ok"
				for k := 0; k < rounds && res[i] == "ok"; k++ {
					res[i] = round(objs[i], i+k)
				}
			})
		})
		if n > 0 {
			return h.Failf("C10:race@"+site, "%s: %d data race(s) with %d goroutines, each using its own copy:\n%s", name, n, len(objs), report)
		}
		for i, x := range res {
			if x != "ok" {
				return h.Failf(fmt.Sprintf("C10:%s:parallel-result:%s", name, keyPart(x)), "%s: goroutine %d/%d: %s", name, i, len(objs), x)
			}
		}
		rec.Classf("G=%d", len(objs))
	}
	if in1 := inputsDigest(); in1 != in0 {
		return h.Failf(fmt.Sprintf("C10:%s:inputs-modified", name), "%s: a protocol round modified a secret key, public key, plaintext or ciphertext it was given", name)
	}
	rec.Class("kind=" + name)
	for _, f := range s.feats {
		rec.Class("feat=" + f)
	}
	rec.NonTrivial(fmt.Sprintf("%s|%v|G=%d", name, s.feats, c.G))
	return nil
}

func keyPart(r string) string {
	for i, ch := range r {
		if ch == '(' || ch == ':' {
			return r[:i]
		}
	}
	return r
}

var propMP = h.NewProp("TestPropMultipartyCopy", h.Budget{Quick: 240, Thorough: 4800}, genMPCase, runMP)

func TestPropMultipartyCopy(t *testing.T) { propMP.Check(t) }
