package c10

import (
	"fmt"
	"math/big"
	"reflect"
	"strings"
	"testing"

	"verif/internal/h"

	"github.com/tuneinsight/lattigo/v6/core/rgsw"
	"github.com/tuneinsight/lattigo/v6/core/rlwe"
	"github.com/tuneinsight/lattigo/v6/multiparty"
	"github.com/tuneinsight/lattigo/v6/ring"
	"github.com/tuneinsight/lattigo/v6/ring/ringqp"
	"github.com/tuneinsight/lattigo/v6/utils/structs"
	"pgregory.net/rapid"
)

// ---------------------------------------------------------------------------------------------------------------------
// Deep copies (CopyNew / Copy) of polynomials, ciphertexts, plaintexts, keys, shares and generic containers.
// ---------------------------------------------------------------------------------------------------------------------

// DeepCase is one generated deep-copy case.
type DeepCase struct {
	Type    string     `json:"type"`
	RLWE    h.RLWESpec `json:"params"`
	Seed    uint64     `json:"seed"`
	Level   int        `json:"level"`
	Degree  int        `json:"degree"`
	BaseTwo int        `json:"baseTwo,omitempty"`
	ModT    uint64     `json:"modT,omitempty"`       // scale modulus (0: floating-point scale)
	Flags   int        `json:"flags"`                // metadata flags bit field
	Into    bool       `json:"into,omitempty"`       // use Copy(into existing) instead of CopyNew where both exist
	Compr   bool       `json:"compressed,omitempty"` // compressed (seeded) evaluation keys
}

func (c DeepCase) RandSeed() uint64 { return c.Seed }

var deepTypes = []string{"ring.Poly", "ringqp.Poly", "rlwe.Ciphertext", "rlwe.Plaintext", "rlwe.ElementQP", "rlwe.MetaData", "rlwe.SecretKey", "rlwe.PublicKey",
	"rlwe.EvaluationKey", "rlwe.RelinearizationKey", "rlwe.GaloisKey", "rlwe.GadgetCiphertext", "rlwe.VectorQP", "rgsw.Ciphertext.parts", "structs.VectorU64",
	"structs.MatrixU64", "structs.VectorPoly", "structs.MatrixQP", "structs.MapGaloisKey", "multiparty.RelinShare", "multiparty.PKSShare"}

func genDeepCase(t *rapid.T) DeepCase {
	var c DeepCase
	c.Type = deepTypes[rapid.IntRange(0, len(deepTypes)-1).Draw(t, "type")]
	c.RLWE = genRLWE(t, 4, 6, 3, 2, true, nil)
	c.RLWE.Xs, c.RLWE.Xe = h.DefaultXs, h.DefaultXe
	c.Seed = rapid.Uint64().Draw(t, "seed")
	c.Level = rapid.IntRange(0, len(c.RLWE.Q)-1).Draw(t, "level")
	c.Degree = rapid.IntRange(0, 2).Draw(t, "degree")
	c.BaseTwo = pick(t, "base2", 0, 0, 8, 16)
	c.ModT = pick(t, "modT", uint64(0), 0, 65537, 257)
	c.Flags = rapid.IntRange(0, 31).Draw(t, "flags")
	c.Into = rapid.Bool().Draw(t, "into")
	c.Compr = rapid.IntRange(0, 2).Draw(t, "compressed") == 0
	return c
}

func (c DeepCase) metaData() *rlwe.MetaData {
	m := &rlwe.MetaData{}
	if c.ModT != 0 {
		m.Scale = rlwe.NewScaleModT(12345, c.ModT)
	} else {
		m.Scale = rlwe.NewScale(1.5 * float64(uint64(1)<<40))
	}
	m.LogDimensions = ring.Dimensions{Rows: c.Flags & 1, Cols: 3}
	m.IsBatched = c.Flags&2 != 0
	m.IsNTT = c.Flags&4 != 0
	m.IsMontgomery = c.Flags&8 != 0
	return m
}

// scramble overwrites every mutable leaf reachable from v (coefficients, flags, scale mantissa and modulus, Galois
// element ...) in place, without replacing pointers or slices.
func scramble(v reflect.Value, seen map[uintptr]bool) {
	switch v.Kind() {
	case reflect.Ptr:
		if v.IsNil() || seen[v.Pointer()] {
			return
		}
		seen[v.Pointer()] = true
		if v.Type().Elem() == tBigInt {
			b := v.Interface().(*big.Int)
			b.Add(b, big.NewInt(1))
			return
		}
		scramble(v.Elem(), seen)
	case reflect.Interface:
		if !v.IsNil() && v.Elem().Kind() == reflect.Ptr {
			scramble(v.Elem(), seen)
		}
	case reflect.Struct:
		switch v.Type() {
		case tBigInt:
			b := v.Addr().Interface().(*big.Int)
			b.Add(b, big.NewInt(1))
			return
		case tBigFloat:
			b := v.Addr().Interface().(*big.Float)
			// in-place update of the mantissa words (same precision, so the backing array is reused)
			b.Add(b, new(big.Float).SetPrec(b.Prec()).SetInt64(3))
			return
		}
		for i := 0; i < v.NumField(); i++ {
			scramble(rw(v.Field(i)), seen)
		}
	case reflect.Slice, reflect.Array:
		for i := 0; i < v.Len(); i++ {
			scramble(v.Index(i), seen)
		}
	case reflect.Map:
		for _, k := range v.MapKeys() {
			e := v.MapIndex(k)
			if e.Kind() == reflect.Ptr {
				scramble(e, seen)
			}
		}
	case reflect.Bool:
		v.SetBool(!v.Bool())
	case reflect.Int, reflect.Int8, reflect.Int16, reflect.Int32, reflect.Int64:
		v.SetInt(v.Int() ^ 1)
	case reflect.Uint, reflect.Uint8, reflect.Uint16, reflect.Uint32, reflect.Uint64:
		v.SetUint(v.Uint() ^ 1)
	case reflect.Float32, reflect.Float64:
		v.SetFloat(v.Float() + 1)
	}
}

// deepPair builds an object of the case's type and its deep copy; both are returned as pointers.
func deepPair(c DeepCase) (orig, cp any, method string, err error) {
	p, err := c.RLWE.Build()
	if err != nil {
		return nil, nil, "", err
	}
	prng := h.KeyedPRNG(fmt.Sprintf("c10-deep-%d", c.Seed))
	rng := h.NewSplitMix(c.Seed)
	levelP := p.MaxLevelP()
	var ep []rlwe.EvaluationKeyParameters
	if c.BaseTwo != 0 || c.Compr {
		b := c.BaseTwo
		ep = []rlwe.EvaluationKeyParameters{{BaseTwoDecomposition: &b, Compressed: c.Compr}}
	}
	var epPlain []rlwe.EvaluationKeyParameters // multiparty shares are never compressed
	if c.BaseTwo != 0 {
		b := c.BaseTwo
		epPlain = []rlwe.EvaluationKeyParameters{{BaseTwoDecomposition: &b}}
	}
	kgen := rlwe.NewKeyGenerator(p)
	randPoly := func(level int) ring.Poly {
		return ring.NewUniformSampler(prng, p.RingQ().AtLevel(level)).ReadNew()
	}
	randQP := func() ringqp.Poly {
		s := ringqp.NewUniformSampler(prng, *p.RingQP())
		pl := p.RingQP().NewPoly()
		s.Read(pl)
		return pl
	}
	method = "CopyNew"
	switch c.Type {
	case "ring.Poly":
		o := randPoly(c.Level)
		if c.Into {
			method = "Copy"
			d := ring.NewPoly(p.N(), c.Level)
			d.Copy(o)
			return &o, &d, method, nil
		}
		return &o, o.CopyNew(), method, nil
	case "ringqp.Poly":
		o := randQP()
		if c.Into {
			method = "Copy"
			d := p.RingQP().NewPoly()
			d.Copy(o)
			return &o, &d, method, nil
		}
		return &o, o.CopyNew(), method, nil
	case "rlwe.Ciphertext":
		o := rlwe.NewCiphertextRandom(prng, p, c.Degree, c.Level)
		*o.MetaData = *c.metaData()
		if c.Into {
			method = "Copy"
			d := rlwe.NewCiphertext(p, c.Degree, c.Level)
			d.Copy(o)
			return o, d, method, nil
		}
		return o, o.CopyNew(), method, nil
	case "rlwe.Plaintext":
		o := rlwe.NewPlaintextRandom(prng, p, c.Level)
		*o.MetaData = *c.metaData()
		if c.Into {
			method = "Copy"
			d := rlwe.NewPlaintext(p, c.Level)
			d.Copy(o)
			return o, d, method, nil
		}
		return o, o.CopyNew(), method, nil
	case "rlwe.ElementQP":
		o := &rlwe.Element[ringqp.Poly]{Value: []ringqp.Poly{randQP(), randQP()}, MetaData: c.metaData()}
		return o, o.CopyNew(), method, nil
	case "rlwe.MetaData":
		o := c.metaData()
		return o, o.CopyNew(), method, nil
	case "rlwe.SecretKey":
		o := kgen.GenSecretKeyNew()
		return o, o.CopyNew(), method, nil
	case "rlwe.PublicKey":
		o := kgen.GenPublicKeyNew(kgen.GenSecretKeyNew())
		return o, o.CopyNew(), method, nil
	case "rlwe.VectorQP":
		o := rlwe.VectorQP{randQP(), randQP(), randQP()}
		return &o, o.CopyNew(), method, nil
	case "rlwe.EvaluationKey":
		o := kgen.GenEvaluationKeyNew(kgen.GenSecretKeyNew(), kgen.GenSecretKeyNew(), ep...)
		return o, o.CopyNew(), method, nil
	case "rlwe.RelinearizationKey":
		o := kgen.GenRelinearizationKeyNew(kgen.GenSecretKeyNew(), ep...)
		return o, o.CopyNew(), method, nil
	case "rlwe.GaloisKey":
		o := kgen.GenGaloisKeyNew(p.GaloisElement(1+int(rng.Uint64()%5)), kgen.GenSecretKeyNew(), ep...)
		return o, o.CopyNew(), method, nil
	case "rlwe.GadgetCiphertext":
		o := kgen.GenEvaluationKeyNew(kgen.GenSecretKeyNew(), kgen.GenSecretKeyNew(), ep...)
		return &o.GadgetCiphertext, o.GadgetCiphertext.CopyNew(), method, nil
	case "rgsw.Ciphertext.parts":
		o := rgsw.NewCiphertext(p, c.Level, levelP, c.BaseTwo)
		if err := rgsw.NewEncryptor(p, kgen.GenSecretKeyNew()).Encrypt(nil, o); err != nil {
			return nil, nil, "", err
		}
		return &o.Value[1], o.Value[1].CopyNew(), method, nil
	case "structs.VectorU64":
		o := structs.Vector[uint64]{rng.Uint64(), rng.Uint64(), rng.Uint64()}
		d := o.CopyNew()
		return &o, &d, method, nil
	case "structs.MatrixU64":
		o := structs.Matrix[uint64]{{rng.Uint64()}, {rng.Uint64(), rng.Uint64()}, {}}
		d := o.CopyNew()
		return &o, &d, method, nil
	case "structs.VectorPoly":
		o := structs.Vector[ring.Poly]{randPoly(c.Level), randPoly(0)}
		d := o.CopyNew()
		return &o, &d, method, nil
	case "structs.MatrixQP":
		o := structs.Matrix[ringqp.Poly]{{randQP()}, {randQP(), randQP()}}
		d := o.CopyNew()
		return &o, &d, method, nil
	case "structs.MapGaloisKey":
		sk := kgen.GenSecretKeyNew()
		o := structs.Map[uint64, rlwe.GaloisKey]{}
		for _, k := range []int{1, 2} {
			g := p.GaloisElement(k)
			o[g] = kgen.GenGaloisKeyNew(g, sk, ep...)
		}
		return &o, o.CopyNew(), method, nil
	case "multiparty.RelinShare":
		rkg := multiparty.NewRelinearizationKeyGenProtocol(p)
		_, s1, _ := rkg.AllocateShare(epPlain...)
		crp := rkg.SampleCRP(prng, epPlain...)
		eph, _, _ := rkg.AllocateShare(epPlain...)
		rkg.GenShareRoundOne(kgen.GenSecretKeyNew(), crp, eph, &s1)
		return &s1.GadgetCiphertext, s1.GadgetCiphertext.CopyNew(), method, nil
	case "multiparty.PKSShare":
		pcks, err := multiparty.NewPublicKeySwitchProtocol(p, ring.DiscreteGaussian{Sigma: 3.2, Bound: 19.2})
		if err != nil {
			return nil, nil, "", err
		}
		sh := pcks.AllocateShare(c.Level)
		ct := rlwe.NewCiphertextRandom(prng, p, 1, c.Level)
		ct.IsNTT = p.NTTFlag()
		sk := kgen.GenSecretKeyNew()
		pcks.GenShare(sk, kgen.GenPublicKeyNew(sk), ct, &sh)
		return &sh.Element, sh.Element.CopyNew(), method, nil
	}
	return nil, nil, "", fmt.Errorf("unknown type %s", c.Type)
}

func runDeep(c DeepCase, rec *h.Rec) error {
	orig, cp, method, err := deepPair(c)
	if err != nil {
		rec.Class("rejected")
		return nil
	}
	name := c.Type + "." + method
	so, sc := takeSnapshot(orig), takeSnapshot(cp)

	// complete: same structure, same values
	for _, d := range compareConfig(so, sc, false, true, nil) {
		return h.Failf(fmt.Sprintf("C10:%s:incomplete:%s:%s", name, d.kind, stripIdx(d.path)), "%s: %s at %q", name, d.kind, d.path)
	}
	// independent (static): no memory in common
	var shared []string
	addrs := map[uintptr]string{}
	for _, p := range so.order {
		if n := so.nodes[p]; n.addr != 0 && n.n != 0 {
			addrs[n.addr] = p
		}
	}
	for _, p := range sc.order {
		if n := sc.nodes[p]; n.addr != 0 && n.n != 0 {
			if q, ok := addrs[n.addr]; ok {
				shared = append(shared, q)
			}
		}
	}
	// independent (dynamic): overwrite every mutable leaf of the copy, the original must not move
	scramble(reflect.ValueOf(cp), map[uintptr]bool{})
	so2 := takeSnapshot(orig)
	changed := compareState(so, so2)
	sc2 := takeSnapshot(cp)
	if len(compareState(sc, sc2)) == 0 {
		return h.Failf("C10:harness:scramble-ineffective", "%s: the mutation pass changed nothing in the copy", name)
	}
	if len(changed) > 0 {
		d := changed[0]
		key := fmt.Sprintf("C10:%s:mutating-copy-changes-original:%s", name, stripIdx(d.path))
		onlyScale := true
		for _, x := range changed {
			if !strings.Contains(x.path, "Scale.") {
				onlyScale = false
				d = x
				key = fmt.Sprintf("C10:%s:mutating-copy-changes-original:%s", name, stripIdx(d.path))
				break
			}
		}
		if onlyScale {
			key = "C10:rlwe.MetaData.CopyNew:scale-memory-shared"
		}
		msg := fmt.Sprintf("%s: overwriting the copy in place changed the original at %q (shared memory at %v)", name, d.path, shared)
		if rec.Known(key, msg) {
			rec.Class("known=" + key)
		} else {
			return h.Failf(key, "%s", msg)
		}
	}
	var sharedOther []string
	for _, q := range shared {
		if !strings.Contains(q, "Scale.") {
			sharedOther = append(sharedOther, q)
		}
	}
	shared = sharedOther
	if len(changed) == 0 && len(shared) > 0 {
		return h.Failf(fmt.Sprintf("C10:%s:shared-memory:%s", name, stripIdx(shared[0])), "%s: copy and original share memory at %v", name, shared)
	}
	rec.Class("type=" + name)
	feat := ""
	if c.ModT != 0 {
		feat += "modT,"
	}
	if c.BaseTwo != 0 {
		feat += "base2,"
	}
	if c.Compr && (strings.Contains(c.Type, "Key") || strings.Contains(c.Type, "Gadget")) {
		feat += "compressed,"
	}
	if len(c.RLWE.P) == 0 {
		feat += "noP,"
	}
	if c.Level < len(c.RLWE.Q)-1 {
		feat += "lowLevel,"
	}
	if c.Flags != 0 {
		feat += "flags,"
	}
	if feat != "" {
		rec.NonTrivial(fmt.Sprintf("%s|%s|deg=%d", name, feat, c.Degree))
	}
	return nil
}

var propDeep = h.NewProp("TestPropDeepCopy", h.Budget{Quick: 400, Thorough: 8000}, genDeepCase, runDeep)

func TestPropDeepCopy(t *testing.T) { propDeep.Check(t) }
