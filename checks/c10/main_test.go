// Package c10 decides property C10: copies (ShallowCopy / WithKey / WithPRNG / AtLevel / CopyNew) are complete,
// independent and safe to use concurrently. The package is built with -race by the driver.
package c10

import (
	"crypto/sha256"
	"encoding"
	"encoding/hex"
	"fmt"
	"sort"
	"strings"
	"testing"

	"verif/internal/h"

	"github.com/tuneinsight/lattigo/v6/core/rlwe"
	"github.com/tuneinsight/lattigo/v6/ring"
	"pgregory.net/rapid"
)

func TestMain(m *testing.M) { h.Main(m, "C10") }

func TestReplay(t *testing.T) { h.ReplayAll(t) }

// digests -----------------------------------------------------------------------------------------------------------

func hashBytes(b []byte) string {
	s := sha256.Sum256(b)
	return hex.EncodeToString(s[:8])
}

// dg returns a short digest of a serialisable lattigo object (bit-exact content incl. metadata).
func dg(v encoding.BinaryMarshaler) string {
	b, err := v.MarshalBinary()
	if err != nil {
		return "marshal-error:" + err.Error()
	}
	return hashBytes(b)
}

func dgPoly(p ring.Poly) string {
	var sb strings.Builder
	for _, c := range p.Coeffs {
		fmt.Fprintf(&sb, "%d:", len(c))
		for _, x := range c {
			fmt.Fprintf(&sb, "%x,", x)
		}
	}
	return hashBytes([]byte(sb.String()))
}

func dgErr(err error) string {
	if err == nil {
		return "ok"
	}
	return "err"
}

// firstDiff returns the index of the first differing entry (or -1).
func firstDiff(a, b []string) int {
	n := len(a)
	if len(b) < n {
		n = len(b)
	}
	for i := 0; i < n; i++ {
		if a[i] != b[i] {
			return i
		}
	}
	if len(a) != len(b) {
		return n
	}
	return -1
}

// small generator helpers --------------------------------------------------------------------------------------------

func pick[T any](t *rapid.T, label string, xs ...T) T {
	return xs[rapid.IntRange(0, len(xs)-1).Draw(t, label)]
}

func sortedKeys[V any](m map[string]V) []string {
	ks := make([]string, 0, len(m))
	for k := range m {
		ks = append(ks, k)
	}
	sort.Strings(ks)
	return ks
}

// genQP draws an RLWE literal suited for exact differential execution (results are compared bit by bit between
// original and copy, so noise growth is irrelevant; sizes only have to be accepted by the constructors).
// bigLogN widens the ring-degree range in the thorough tier: one case in ten uses N = 2*maxN .. 8*maxN.
func bigLogN(t *rapid.T, minLogN, maxLogN int) (int, int) {
	if h.Thorough() && rapid.IntRange(0, 9).Draw(t, "bigN") == 0 {
		return maxLogN + 1, maxLogN + 3
	}
	return minLogN, maxLogN
}

func genRLWE(t *rapid.T, minLogN, maxLogN, maxQ, maxP int, allowCI bool, ntt *bool) h.RLWESpec {
	minLogN, maxLogN = bigLogN(t, minLogN, maxLogN)
	return h.GenRLWESpec(t, h.RLWEOpts{MinLogN: minLogN, MaxLogN: maxLogN, MinQ: 1, MaxQ: maxQ, MinP: 0, MaxP: maxP,
		MinBits: 30, MaxBits: 60, AllowCI: allowCI, NTT: ntt, DefaultDists: false, PBits: 61})
}

// keys ---------------------------------------------------------------------------------------------------------------

// galoisElements returns the generated Galois elements (rotations by the given steps and the conjugation/row swap).
func galoisElements(p rlwe.Parameters, steps []int, conj bool) []uint64 {
	var out []uint64
	seen := map[uint64]bool{}
	for _, k := range steps {
		g := p.GaloisElement(k)
		if !seen[g] {
			seen[g] = true
			out = append(out, g)
		}
	}
	if conj && p.RingType() == ring.Standard {
		g := p.GaloisElementOrderTwoOrthogonalSubgroup()
		if !seen[g] {
			out = append(out, g)
		}
	}
	return out
}
