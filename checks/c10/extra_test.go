package c10

import (
	"fmt"
	"os"
	"sort"
	"strings"
	"sync"
	"testing"

	"verif/internal/h"

	"github.com/tuneinsight/lattigo/v6/circuits/ckks/bootstrapping"
	"github.com/tuneinsight/lattigo/v6/core/rlwe"
	"github.com/tuneinsight/lattigo/v6/ring"
	"github.com/tuneinsight/lattigo/v6/schemes/ckks"
	"pgregory.net/rapid"
)

// ---------------------------------------------------------------------------------------------------------------------
// rlwe.RingPackingEvaluator.ShallowCopy
// ---------------------------------------------------------------------------------------------------------------------

// PackCase is one generated ring-packing case.
type PackCase struct {
	RLWE      h.RLWESpec `json:"params"`
	LogNSmall int        `json:"logNSmall"`
	Seed      uint64     `json:"seed"`
	Keys      string     `json:"keys"` // all | switch (ring-switching keys only: naive methods) | same (MinLogN == MaxLogN)
	Ops       []Op       `json:"ops"`
	G         int        `json:"goroutines"`
	UseBefore bool       `json:"useBefore,omitempty"`
}

func (c PackCase) RandSeed() uint64 { return c.Seed }

var packOps = []string{"split", "merge", "extract", "extractnaive", "repack", "repacknaive", "roundtrip"}

func genPackCase(t *rapid.T) PackCase {
	var c PackCase
	plo, phi := bigLogN(t, 5, 7)
	c.RLWE = h.GenRLWESpec(t, h.RLWEOpts{MinLogN: plo, MaxLogN: phi, MinQ: 1, MaxQ: 2, MinP: 1, MaxP: 1, MinBits: 45, MaxBits: 58, PBits: 60, DefaultDists: true})
	c.Keys = pick(t, "keys", "all", "all", "switch")
	c.LogNSmall = c.RLWE.LogN - rapid.IntRange(1, 2).Draw(t, "drop")
	if c.Keys == "same" {
		c.LogNSmall = c.RLWE.LogN
	}
	// the primes must be NTT friendly for every ring degree down to LogNSmall: they are (1 mod 2^(LogN+1)), which implies it
	c.Seed = rapid.Uint64().Draw(t, "seed")
	n := rapid.IntRange(1, 4).Draw(t, "nops")
	for i := 0; i < n; i++ {
		c.Ops = append(c.Ops, Op{Kind: packOps[rapid.IntRange(0, len(packOps)-1).Draw(t, fmt.Sprintf("op%d", i))],
			A: rapid.IntRange(0, 1).Draw(t, fmt.Sprintf("a%d", i)), K: rapid.IntRange(0, 3).Draw(t, fmt.Sprintf("k%d", i)), N: rapid.IntRange(1, 4).Draw(t, fmt.Sprintf("n%d", i))})
	}
	c.G = pick(t, "goroutines", 1, 2, 3, 4, 8)
	c.UseBefore = rapid.Bool().Draw(t, "useBefore")
	return c
}

func dgCtMap(m map[int]*rlwe.Ciphertext, err error) string {
	if err != nil {
		return "err"
	}
	ks := make([]int, 0, len(m))
	for k := range m {
		ks = append(ks, k)
	}
	sort.Ints(ks)
	var sb strings.Builder
	for _, k := range ks {
		fmt.Fprintf(&sb, "%d:%s;", k, dgCt(m[k], nil))
	}
	return sb.String()
}

func runPack(c PackCase, rec *h.Rec) error {
	p, err := c.RLWE.Build()
	if err != nil {
		rec.Class("rejected")
		return nil
	}
	kgen := rlwe.NewKeyGenerator(p)
	sk := kgen.GenSecretKeyNew()
	ep := rlwe.EvaluationKeyParameters{}
	evk := &rlwe.RingPackingEvaluationKey{}
	var ski map[int]*rlwe.SecretKey
	ok := func() (ok bool) {
		defer func() {
			if r := recover(); r != nil {
				ok = false
			}
		}()
		if ski, err = evk.GenRingSwitchingKeys(p, sk, c.LogNSmall, ep); err != nil {
			return false
		}
		if c.Keys != "switch" {
			evk.GenRepackEvaluationKeys(evk.Parameters[c.LogNSmall], ski[c.LogNSmall], ep)
			evk.GenRepackEvaluationKeys(evk.Parameters[p.LogN()], ski[p.LogN()], ep)
			evk.GenExtractEvaluationKeys(evk.Parameters[c.LogNSmall], ski[c.LogNSmall], ep)
		}
		return true
	}()
	if !ok {
		rec.Class("keygen-rejected")
		return nil
	}
	prng := h.KeyedPRNG(fmt.Sprintf("c10-pack-%d", c.Seed))
	enc := rlwe.NewEncryptor(p, sk)
	var cts []*rlwe.Ciphertext
	for i := 0; i < 2; i++ {
		pt := rlwe.NewPlaintextRandom(prng, p, p.MaxLevel())
		pt.IsNTT = true
		ct := rlwe.NewCiphertext(p, 1, p.MaxLevel())
		ct.IsNTT = true
		if err := enc.Encrypt(pt, ct); err != nil {
			rec.Class("rejected")
			return nil
		}
		cts = append(cts, ct)
	}
	var small []*rlwe.Ciphertext
	ps := evk.Parameters[c.LogNSmall].GetRLWEParameters()
	encS := rlwe.NewEncryptor(ps, ski[c.LogNSmall])
	for i := 0; i < 4; i++ {
		pt := rlwe.NewPlaintextRandom(prng, ps, ps.MaxLevel())
		pt.IsNTT = true
		ct := rlwe.NewCiphertext(ps, 1, ps.MaxLevel())
		ct.IsNTT = true
		if err := encS.Encrypt(pt, ct); err != nil {
			rec.Class("rejected")
			return nil
		}
		small = append(small, ct)
	}
	run := func(ev *rlwe.RingPackingEvaluator, op Op) string {
		return op.Kind + "=" + safe(func() string {
			ct := cts[op.A]
			idx := map[int]bool{}
			for j := 0; j < op.N; j++ {
				idx[(op.K+j*(op.K+1))%p.N()] = true
			}
			in := map[int]*rlwe.Ciphertext{}
			for j := 0; j < op.N; j++ {
				in[(op.K+j*(op.K+1))%p.N()] = small[j].CopyNew()
			}
			switch op.Kind {
			case "split":
				a, b, err := ev.SplitNew(ct)
				if err != nil {
					return "err"
				}
				return dgCt(a, nil) + dgCt(b, nil)
			case "merge":
				half := evk.Parameters[p.LogN()-1]
				if half == nil {
					return "err"
				}
				hp := half.GetRLWEParameters()
				a, b := rlwe.NewCiphertextRandom(h.KeyedPRNG("c10-merge-a"), hp, 1, hp.MaxLevel()), rlwe.NewCiphertextRandom(h.KeyedPRNG("c10-merge-b"), hp, 1, hp.MaxLevel())
				a.IsNTT, b.IsNTT = true, true
				out := rlwe.NewCiphertext(p, 1, p.MaxLevel())
				return dgCt(out, ev.Merge(a, b, out))
			case "extract":
				return dgCtMap(ev.Extract(ct, idx))
			case "extractnaive":
				return dgCtMap(ev.ExtractNaive(ct, idx))
			case "repack":
				return dgCt(ev.Repack(in))
			case "repacknaive":
				return dgCt(ev.RepackNaive(in))
			default:
				m, err := ev.Extract(ct, idx)
				if err != nil {
					return "err"
				}
				return dgCt(ev.Repack(m))
			}
		})
	}
	runAll := func(ev *rlwe.RingPackingEvaluator, ops []Op) []string {
		out := make([]string, len(ops))
		for i, op := range ops {
			out[i] = run(ev, op)
		}
		return out
	}

	const name = "rlwe.RingPackingEvaluator.ShallowCopy"
	orig := rlwe.NewRingPackingEvaluator(evk)
	if c.UseBefore {
		runAll(orig, c.Ops)
	}
	cp := orig.ShallowCopy()
	for _, d := range compareConfig(takeSnapshot(orig), takeSnapshot(cp), true, !c.UseBefore, nil) {
		return h.Failf(fmt.Sprintf("C10:%s:config:%s:%s", name, d.kind, stripIdx(d.path)), "%s: %s at field path %q (copy vs original)", name, d.kind, d.path)
	}
	want := runAll(orig, c.Ops)
	before := takeSnapshot(orig)
	got := runAll(cp, c.Ops)
	after := takeSnapshot(orig)
	if i := firstDiff(want, got); i >= 0 {
		return h.Failf(fmt.Sprintf("C10:%s:behaviour:%s", name, c.Ops[i].Kind), "%s: op #%d %+v gives %s on the copy, %s on the original", name, i, c.Ops[i], got[i], want[i])
	}
	for _, d := range compareState(before, after, clsCache) {
		return h.Failf(fmt.Sprintf("C10:%s:original-changed:%s", name, stripIdx(d.path)), "%s: using the copy changed the original at %q", name, d.path)
	}
	if i := firstDiff(want, runAll(orig, c.Ops)); i >= 0 {
		return h.Failf(fmt.Sprintf("C10:%s:original-results-changed:%s", name, c.Ops[i].Kind), "%s: op #%d on the original changed after the copy was used", name, i)
	}
	if c.G > 1 {
		objs := []*rlwe.RingPackingEvaluator{orig, cp}
		for len(objs) < c.G {
			objs = append(objs, objs[len(objs)-2].ShallowCopy())
		}
		objs = objs[:c.G]
		res := make([][]string, len(objs))
		n, site, report := raceWatch(func() {
			parallel(len(objs), func(i int) {
				ops, idx := rotateOps(c.Ops, i)
				r := runAll(objs[i], ops)
				out := make([]string, len(r))
				for j := range r {
					out[idx[j]] = r[j]
				}
				res[i] = out
			})
		})
		if n > 0 {
			return h.Failf("C10:race@"+site, "%s: %d data race(s) with %d goroutines, each using its own copy:\n%s", name, n, len(objs), report)
		}
		for i := range objs {
			if d := firstDiff(want, res[i]); d >= 0 {
				return h.Failf(fmt.Sprintf("C10:%s:parallel-result:%s", name, c.Ops[d].Kind), "%s: goroutine %d/%d op #%d gives %s in parallel, %s sequentially", name, i, len(objs), d, res[i][d], want[d])
			}
		}
		rec.Classf("G=%d", len(objs))
	}
	okOps := map[string]bool{}
	for _, r := range want {
		k := r[:strings.Index(r, "=")]
		st := "ok"
		if strings.HasSuffix(r, "=err") {
			st = "err"
		} else if strings.HasSuffix(r, "=panic") {
			st = "panic"
		} else {
			okOps[k] = true
		}
		rec.Class("op:" + k + ":" + st)
	}
	rec.Class("keys=" + c.Keys)
	if len(okOps) > 0 && (c.Keys != "all" || c.UseBefore || !c.RLWE.NTT || p.LogN()-c.LogNSmall > 1 || len(c.RLWE.Q) > 1) {
		rec.NonTrivial(fmt.Sprintf("pack|%s|drop=%d|used=%v|%v|G=%d", c.Keys, p.LogN()-c.LogNSmall, c.UseBefore, sortedKeys(okOps), c.G))
	}
	return nil
}

var propPack = h.NewProp("TestPropRingPackingCopy", h.Budget{Quick: 120, Thorough: 2400}, genPackCase, runPack)

func TestPropRingPackingCopy(t *testing.T) { propPack.Check(t) }

// ---------------------------------------------------------------------------------------------------------------------
// bootstrapping.Evaluator.ShallowCopy (small, insecure parameters in the style of lattigo's own short tests)
// ---------------------------------------------------------------------------------------------------------------------

// BootCase is one generated bootstrapping case.
type BootCase struct {
	Variant   string `json:"variant"` // same | degree (residual ring of half the degree) | tiny (N1=2^7, N2=2^9) | type (conjugate-invariant residual ring)
	Eph       bool   `json:"ephemeral"`
	Many      int    `json:"many"` // 1: Bootstrap, >1: BootstrapMany of that many ciphertexts
	Seed      uint64 `json:"seed"`
	Parallel  bool   `json:"parallel"`
	UseBefore bool   `json:"useBefore,omitempty"`
}

func (c BootCase) RandSeed() uint64 { return c.Seed }

func genBootCase(t *rapid.T) BootCase {
	return BootCase{
		Variant:   pick(t, "variant", "same", "degree", "tiny", "tiny", "type"),
		Eph:       rapid.Bool().Draw(t, "eph"),
		Many:      pick(t, "many", 1, 2, 3, 5),
		Seed:      rapid.Uint64().Draw(t, "seed"),
		Parallel:  rapid.IntRange(0, 2).Draw(t, "parallel") != 0,
		UseBefore: rapid.Bool().Draw(t, "useBefore"),
	}
}

type bootEnv struct {
	params ckks.Parameters
	btp    bootstrapping.Parameters
	keys   *bootstrapping.EvaluationKeys
	sk     *rlwe.SecretKey
	err    error
}

var (
	bootMu    sync.Mutex
	bootCache = map[string]*bootEnv{}
)

// getBootEnv builds (once per variant) parameters and bootstrapping keys. The keys are generated under a fixed seed
// of their own so that they do not depend on which case came first; the verdict of a case never depends on them.
func getBootEnv(variant string, eph bool) *bootEnv {
	key := fmt.Sprintf("%s/%v", variant, eph)
	bootMu.Lock()
	defer bootMu.Unlock()
	if e, ok := bootCache[key]; ok {
		return e
	}
	e := &bootEnv{}
	bootCache[key] = e
	lit := ckks.ParametersLiteral{LogN: 10, LogQ: []int{60, 40}, LogP: []int{61}, LogDefaultScale: 40}
	bl := bootstrapping.ParametersLiteral{}
	logN2 := 10
	switch variant {
	case "tiny":
		// residual ring much smaller than the bootstrapping ring: BootstrapMany packs sparse ciphertexts into
		// ciphertexts of degree N1 and those into one of degree N2 (tables xPow2N1/xPow2InvN1 and xPow2N2/xPow2InvN2)
		logN2 = 9
		lit.LogNthRoot = logN2 + 1
		lit.LogN = 7
	case "degree":
		lit.LogNthRoot = lit.LogN + 1
		lit.LogN--
	case "type":
		lit.RingType = ring.ConjugateInvariant
		lit.LogNthRoot = lit.LogN + 1
		lit.LogN--
	}
	bl.LogN = &logN2
	if !eph {
		z := 0
		bl.EphemeralSecretWeight = &z
	}
	h.SeedRand(0xb007 + uint64(len(key)))
	if e.params, e.err = ckks.NewParametersFromLiteral(lit); e.err != nil {
		return e
	}
	if e.btp, e.err = bootstrapping.NewParametersFromLiteral(e.params, bl); e.err != nil {
		return e
	}
	if variant != "type" {
		e.btp.SlotsToCoeffsParameters.LogSlots = e.btp.BootstrappingParameters.LogN() - 1
		e.btp.CoeffsToSlotsParameters.LogSlots = e.btp.BootstrappingParameters.LogN() - 1
	}
	e.btp.Mod1ParametersLiteral.LogMessageRatio += 16 - e.params.LogN()
	e.sk = rlwe.NewKeyGenerator(e.params).GenSecretKeyNew()
	e.keys, _, e.err = e.btp.GenEvaluationKeys(e.sk)
	return e
}

func runBoot(c BootCase, rec *h.Rec) error {
	if !h.Thorough() && os.Getenv("C10_BOOT_QUICK") == "" && os.Getenv("VERIF_REPLAY_FILE") == "" {
		// Quick tier: only the tiny ring-switching configuration (N1=2^7 < N2=2^9), BootstrapMany of 2..5 sparse
		// ciphertexts, no parallel part: key generation for the larger rings under -race costs minutes per process.
		// The other variants live in the thorough tier (C10_BOOT_QUICK=1 runs them in the quick tier as well; an
		// explicit --replay is always executed as written).
		c.Variant, c.Eph, c.Parallel, c.UseBefore = "tiny", false, false, false
		if c.Many < 2 {
			c.Many = 2 + int(c.Seed%2)
		}
		rec.Class("quick-tier-tiny")
	}
	e := getBootEnv(c.Variant, c.Eph)
	h.SeedRand(c.Seed)
	if e.err != nil {
		return h.Failf("C10:harness:bootstrapping-setup", "%s: %v", c.Variant, e.err)
	}
	const name = "bootstrapping.Evaluator.ShallowCopy"
	orig, err := bootstrapping.NewEvaluator(e.btp, e.keys)
	if err != nil {
		return h.Failf("C10:harness:bootstrapping-setup", "NewEvaluator: %v", err)
	}
	rng := h.NewSplitMix(c.Seed)
	ecd := ckks.NewEncoder(e.params)
	enc := rlwe.NewEncryptor(e.params, e.sk)
	var expected [][]complex128
	mkCt := func(slotsShift int) *rlwe.Ciphertext {
		pt := ckks.NewPlaintext(e.params, 0)
		logSlots := e.params.LogMaxSlots() - slotsShift
		if logSlots < 0 {
			logSlots = 0
		}
		pt.LogDimensions.Cols = logSlots
		v := make([]complex128, 1<<logSlots)
		for i := range v {
			v[i] = complex(rng.Float64()*2-1, rng.Float64()*2-1)
		}
		expected = append(expected, v)
		if err := ecd.Encode(v, pt); err != nil {
			panic(err)
		}
		ct, err := enc.EncryptNew(pt)
		if err != nil {
			panic(err)
		}
		return ct
	}
	shift := 0
	if c.Many > 1 {
		shift = 2 // sparsely packed inputs: BootstrapMany packs them together
	}
	var ins []*rlwe.Ciphertext
	for i := 0; i < c.Many; i++ {
		ins = append(ins, mkCt(shift))
	}
	// runOut bootstraps the inputs and returns one digest per output ciphertext plus the ciphertexts themselves.
	runOut := func(ev *bootstrapping.Evaluator) (dgs []string, outs []*rlwe.Ciphertext) {
		defer func() {
			if r := recover(); r != nil {
				dgs, outs = []string{"panic"}, nil
			}
		}()
		if c.Many == 1 {
			out, err := ev.Bootstrap(ins[0].CopyNew())
			if err != nil {
				return []string{"err"}, nil
			}
			return []string{dgCt(out, nil)}, []*rlwe.Ciphertext{out}
		}
		cts := make([]rlwe.Ciphertext, len(ins))
		for i := range ins {
			cts[i] = *ins[i].CopyNew()
		}
		out, err := ev.BootstrapMany(cts)
		if err != nil {
			return []string{"err"}, nil
		}
		for i := range out {
			dgs = append(dgs, dgCt(&out[i], nil))
			outs = append(outs, &out[i])
		}
		return
	}
	run := func(ev *bootstrapping.Evaluator) string {
		d, _ := runOut(ev)
		return strings.Join(d, "|")
	}
	// worst slot error of output i with respect to the encrypted message (the bootstrapping is approximate: a case
	// counts as exercising the configuration only when the ORIGINAL returns the messages)
	dec := rlwe.NewDecryptor(e.params, e.sk)
	maxErr := func(ct *rlwe.Ciphertext, want []complex128) float64 {
		have := make([]complex128, len(want))
		if err := ckks.NewEncoder(e.params).Decode(dec.DecryptNew(ct), have); err != nil {
			return 1e300
		}
		m := 0.0
		for i := range want {
			d := have[i] - want[i]
			if a := real(d)*real(d) + imag(d)*imag(d); a > m {
				m = a
			}
		}
		return m
	}
	if c.UseBefore {
		run(orig)
	}
	cp := orig.ShallowCopy()
	for _, d := range compareConfig(takeSnapshotShared(orig), takeSnapshotShared(cp), true, !c.UseBefore, nil) {
		return h.Failf(fmt.Sprintf("C10:%s:config:%s:%s", name, d.kind, stripIdx(d.path)), "%s (%s): %s at field path %q (copy vs original)", name, c.Variant, d.kind, d.path)
	}
	wantD, wantOut := runOut(orig)
	want := strings.Join(wantD, "|")
	accurate := len(wantOut) == len(ins)
	for i := range wantOut {
		if maxErr(wantOut[i], expected[i]) > 1.0/(1<<16) { // squared error: |error| <= 2^-8
			accurate = false
		}
	}
	before := takeSnapshotShared(orig)
	gotD, gotOut := runOut(cp)
	cp2 := cp.ShallowCopy() // a copy of a copy, taken after the copy was used
	got2D, _ := runOut(cp2)
	after := takeSnapshotShared(orig)
	for who, d := range map[string][]string{"copy": gotD, "copy of the copy": got2D} {
		if i := firstDiff(wantD, d); i >= 0 {
			detail := ""
			if who == "copy" && accurate && i < len(gotOut) {
				detail = fmt.Sprintf(" (squared slot error of the copy's output w.r.t. the message: %.3g, of the original's: %.3g)", maxErr(gotOut[i], expected[i]), maxErr(wantOut[i], expected[i]))
			}
			return h.Failf(fmt.Sprintf("C10:%s:behaviour:%s", name, c.Variant), "%s (%s, %d ciphertexts): output #%d of the %s differs from the original evaluator's output%s", name, c.Variant, c.Many, i, who, detail)
		}
	}
	for _, d := range compareConfig(takeSnapshotShared(orig), takeSnapshotShared(cp2), true, false, nil) {
		return h.Failf(fmt.Sprintf("C10:%s:config:%s:%s", name, d.kind, stripIdx(d.path)), "%s (%s): copy of a copy: %s at field path %q", name, c.Variant, d.kind, d.path)
	}
	for _, d := range compareState(before, after, clsCache) {
		return h.Failf(fmt.Sprintf("C10:%s:original-changed:%s", name, stripIdx(d.path)), "%s: using the copy changed the original at %q", name, d.path)
	}
	if c.Parallel {
		objs := []*bootstrapping.Evaluator{orig, cp}
		res := make([]string, len(objs))
		n, site, report := raceWatch(func() { parallel(len(objs), func(i int) { res[i] = run(objs[i]) }) })
		if n > 0 {
			return h.Failf("C10:race@"+site, "%s: %d data race(s) with %d goroutines, each using its own copy:\n%s", name, n, len(objs), report)
		}
		for i := range res {
			if res[i] != want {
				return h.Failf(fmt.Sprintf("C10:%s:parallel-result:%s", name, c.Variant), "%s: goroutine %d gives %s in parallel, %s sequentially", name, i, res[i], want)
			}
		}
		rec.Class("parallel")
	}
	st := "ok"
	if want == "err" || want == "panic" {
		st = want
	}
	rec.Classf("variant=%s/eph=%v/many=%d:%s", c.Variant, c.Eph, c.Many, st)
	rec.Classf("original-accurate=%v", accurate)
	if st == "ok" && accurate {
		rec.NonTrivial(fmt.Sprintf("boot|%s|eph=%v|many=%d|used=%v|par=%v", c.Variant, c.Eph, c.Many, c.UseBefore, c.Parallel))
	}
	return nil
}

var propBoot = h.NewProp("TestPropBootstrappingCopy", h.Budget{Quick: 4, Thorough: 32}, genBootCase, runBoot)

func TestPropBootstrappingCopy(t *testing.T) { propBoot.Check(t) }
