//go:build !race

package c10

const raceEnabled = false

// raceWatch without the race detector only runs f (the driver always builds this package with -race).
func raceWatch(f func()) (n int, site string, report string) { f(); return 0, "", "" }
