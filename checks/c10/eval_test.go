package c10

import (
	"fmt"
	"strings"
	"testing"

	"verif/internal/h"

	"github.com/tuneinsight/lattigo/v6/circuits/ckks/lintrans"
	"github.com/tuneinsight/lattigo/v6/core/rgsw"
	"github.com/tuneinsight/lattigo/v6/core/rlwe"
	"github.com/tuneinsight/lattigo/v6/ring"
	"github.com/tuneinsight/lattigo/v6/schemes/bgv"
	"github.com/tuneinsight/lattigo/v6/schemes/ckks"
	"pgregory.net/rapid"
)

// ---------------------------------------------------------------------------------------------------------------------
// Evaluators of every layer (rlwe, rgsw, bgv/bfv, ckks): ShallowCopy and WithKey.
// ---------------------------------------------------------------------------------------------------------------------

// KeyCfg describes an evaluation-key set.
type KeyCfg struct {
	Nil     bool  `json:"nil,omitempty"` // no key set at all (nil interface)
	Relin   bool  `json:"relin,omitempty"`
	Rots    []int `json:"rots,omitempty"`
	Conj    bool  `json:"conj,omitempty"`
	BaseTwo int   `json:"baseTwo,omitempty"` // base-2 gadget decomposition (0 = none)
	Inner   bool  `json:"inner,omitempty"`   // keys for InnerSum(batch 1, n<=4) / Replicate
}

// Op is one operation applied to an evaluator.
type Op struct {
	Kind string `json:"kind"`
	A    int    `json:"a"`
	B    int    `json:"b"`
	K    int    `json:"k"`
	N    int    `json:"n,omitempty"`
}

// EvalCase is one generated case of TestPropEvaluatorCopy / TestPropConcurrentEvaluators.
type EvalCase struct {
	Scheme         string     `json:"scheme"` // rlwe | rgsw | bgv | ckks
	RLWE           h.RLWESpec `json:"params"`
	T              uint64     `json:"t,omitempty"`
	LogScale       int        `json:"logScale,omitempty"`
	Seed           uint64     `json:"seed"`
	Mode           string     `json:"mode"` // ShallowCopy | WithKey
	ScaleInvariant bool       `json:"scaleInvariant,omitempty"`
	Keys           KeyCfg     `json:"keys"`
	NewKeys        KeyCfg     `json:"newKeys"`            // WithKey: the key set bound to the copy
	LateRots       []int      `json:"lateRots,omitempty"` // Galois keys added to the shared key set after construction
	LateNew        []int      `json:"lateNew,omitempty"`  // Galois keys added to the NEW key set after the copy was derived with WithKey
	Chain2         string     `json:"chain2,omitempty"`   // second derivation applied to the copy: "" | ShallowCopy | WithKey
	UseBefore      bool       `json:"useBefore,omitempty"`
	Levels         []int      `json:"levels"` // levels of the three input ciphertexts
	Ops            []Op       `json:"ops"`
	Goroutines     int        `json:"goroutines,omitempty"` // concurrency prop only
}

func (c EvalCase) RandSeed() uint64 { return c.Seed }

var opKinds = map[string][]string{
	"rlwe": {"automorphism", "automorphism", "hoisted", "relin", "applyevk", "trace", "partial", "replicate", "gadget"},
	"rgsw": {"automorphism", "relin", "applyevk", "extprod", "extprod", "trace"},
	"bgv": {"add-ct", "add-pt", "add-scalar", "add-vec", "sub-ct", "mul-ct", "mul-pt", "mul-scalar", "mul-vec", "mulrelin", "mulrelin", "mulsi", "mulrelinsi",
		"multhenadd", "mulrelinthenadd", "rescale", "rotcol", "rotcol", "rotrow", "innersum", "encode", "relinnew"},
	"ckks": {"add-ct", "add-pt", "add-const", "add-vec", "sub-ct", "mul-ct", "mul-pt", "mul-const", "mul-vec", "mulrelin", "mulrelin", "multhenadd", "multhenadd-const",
		"mulrelinthenadd", "rescale", "rotate", "rotate", "conjugate", "innersum", "hoisted", "encode", "relinnew", "lintrans", "lintrans"},
}

func genKeyCfg(t *rapid.T, label string, allowNil bool) KeyCfg {
	var k KeyCfg
	if allowNil && rapid.IntRange(0, 7).Draw(t, label+"_nil") == 0 {
		k.Nil = true
		return k
	}
	switch rapid.IntRange(0, 5).Draw(t, label+"_initial") {
	case 0:
		return k // empty key set
	case 1:
		k.Relin = true // relinearization key only
		return k
	}
	k.Relin = rapid.IntRange(0, 3).Draw(t, label+"_relin") != 0
	nr := rapid.IntRange(0, 3).Draw(t, label+"_nrot")
	for i := 0; i < nr; i++ {
		k.Rots = append(k.Rots, pick(t, fmt.Sprintf("%s_rot%d", label, i), 1, 2, 3, 4, -1, 7))
	}
	k.Conj = rapid.Bool().Draw(t, label+"_conj")
	k.Inner = rapid.IntRange(0, 2).Draw(t, label+"_inner") == 0
	k.BaseTwo = pick(t, label+"_base2", 0, 0, 0, 8, 16)
	return k
}

func genEvalCase(t *rapid.T, concurrent bool) EvalCase {
	var c EvalCase
	c.Scheme = pick(t, "scheme", "rlwe", "rgsw", "bgv", "bgv", "ckks", "ckks")
	tr := true
	switch c.Scheme {
	case "bgv":
		c.RLWE = genRLWE(t, 4, 6, 3, 2, false, &tr)
		c.RLWE.Xs, c.RLWE.Xe = h.DefaultXs, h.DefaultXe
		c.T = pick(t, "t", uint64(17), 97, 257, 65537)
		c.ScaleInvariant = rapid.Bool().Draw(t, "scaleInvariant")
	case "ckks":
		c.RLWE = genRLWE(t, 4, 6, 3, 2, true, &tr)
		c.LogScale = rapid.IntRange(20, 30).Draw(t, "logScale")
	case "rgsw":
		c.RLWE = genRLWE(t, 4, 6, 2, 1, false, &tr)
	default:
		c.RLWE = genRLWE(t, 4, 6, 3, 2, true, nil)
	}
	// evaluators never sample: the distributions are irrelevant here (and keep the input encryption independent of the
	// sampler AtLevel behaviour that TestPropObjectCopy checks: before fix 92775d7 a ternary error distribution at a
	// level below the maximum made the input encryption panic)
	c.RLWE.Xs, c.RLWE.Xe = h.DefaultXs, h.DefaultXe
	c.Seed = rapid.Uint64().Draw(t, "seed")
	if concurrent {
		c.Mode = "ShallowCopy"
		c.Goroutines = pick(t, "goroutines", 2, 2, 3, 4, 8, 16)
	} else {
		c.Mode = pick(t, "mode", "ShallowCopy", "ShallowCopy", "WithKey")
	}
	c.Keys = genKeyCfg(t, "keys", true)
	if c.Mode == "WithKey" {
		c.NewKeys = genKeyCfg(t, "newKeys", false)
	}
	lateOdds := 2
	if concurrent {
		lateOdds = 1 // the growing key set is the main shared mutable object of the parallel scenarios
	}
	if !c.Keys.Nil && rapid.IntRange(0, lateOdds).Draw(t, "late") == 0 {
		n := rapid.IntRange(1, 2).Draw(t, "nlate")
		for i := 0; i < n; i++ {
			c.LateRots = append(c.LateRots, pick(t, fmt.Sprintf("late%d", i), 5, 6, -2, 9))
		}
	}
	if !concurrent {
		c.Chain2 = pick(t, "chain2", "", "", "ShallowCopy", "WithKey")
		if c.Mode == "WithKey" || c.Chain2 == "WithKey" {
			if c.Mode != "WithKey" {
				c.NewKeys = genKeyCfg(t, "newKeys2", false)
			}
			if rapid.IntRange(0, 2).Draw(t, "lateNewK") != 0 {
				n := rapid.IntRange(1, 2).Draw(t, "nlateNew")
				for i := 0; i < n; i++ {
					c.LateNew = append(c.LateNew, pick(t, fmt.Sprintf("lateNew%d", i), 5, 6, -2, 9, 3))
				}
			}
		}
	}
	c.UseBefore = rapid.Bool().Draw(t, "useBefore")
	maxL := len(c.RLWE.Q) - 1
	for i := 0; i < 3; i++ {
		if rapid.IntRange(0, 2).Draw(t, fmt.Sprintf("lvlk%d", i)) == 0 {
			c.Levels = append(c.Levels, rapid.IntRange(0, maxL).Draw(t, fmt.Sprintf("lvl%d", i)))
		} else {
			c.Levels = append(c.Levels, maxL)
		}
	}
	kinds := opKinds[c.Scheme]
	nops := rapid.IntRange(1, 6).Draw(t, "nops")
	for i := 0; i < nops; i++ {
		op := Op{Kind: kinds[rapid.IntRange(0, len(kinds)-1).Draw(t, fmt.Sprintf("op%d", i))]}
		op.A = rapid.IntRange(0, 2).Draw(t, fmt.Sprintf("a%d", i))
		op.B = rapid.IntRange(0, 2).Draw(t, fmt.Sprintf("b%d", i))
		pool := append(append(append(append([]int{}, c.Keys.Rots...), c.LateRots...), c.NewKeys.Rots...), c.LateNew...)
		pool = append(pool, c.LateNew...) // the keys added after a WithKey derivation are the interesting ones
		pool = append(pool, c.LateRots...)
		if len(pool) > 0 && rapid.IntRange(0, 3).Draw(t, fmt.Sprintf("kk%d", i)) != 0 {
			op.K = pool[rapid.IntRange(0, len(pool)-1).Draw(t, fmt.Sprintf("kp%d", i))]
		} else {
			op.K = pick(t, fmt.Sprintf("k%d", i), 1, 2, 3, 4, -1, 7, 5, 6, -2, 9, 0)
		}
		op.N = pick(t, fmt.Sprintf("n%d", i), 1, 2, 3, 4)
		c.Ops = append(c.Ops, op)
	}
	return c
}

// evalEnv is everything built once per case (deterministically from the seed): parameters, keys, inputs.
type evalEnv struct {
	c       EvalCase
	rp      rlwe.Parameters
	bp      bgv.Parameters
	cp      ckks.Parameters
	prov    rlwe.ParameterProvider
	sk      *rlwe.SecretKey
	sk2     *rlwe.SecretKey
	kgen    *rlwe.KeyGenerator
	evk     *rlwe.MemEvaluationKeySet // nil when c.Keys.Nil
	newEvk  *rlwe.MemEvaluationKeySet
	late    []*rlwe.GaloisKey
	lateNew []*rlwe.GaloisKey
	swk     *rlwe.EvaluationKey
	cts     []*rlwe.Ciphertext
	ct2     *rlwe.Ciphertext // degree-2 ciphertext
	pt      *rlwe.Plaintext
	rgswCt  *rgsw.Ciphertext
	vecU    []uint64
	vecC    []complex128
	maxLvl  int
}

func evkParams(k KeyCfg) []rlwe.EvaluationKeyParameters {
	if k.BaseTwo == 0 {
		return nil
	}
	b := k.BaseTwo
	return []rlwe.EvaluationKeyParameters{{BaseTwoDecomposition: &b}}
}

func (e *evalEnv) galEl(k int) uint64 { return e.rp.GaloisElement(k) }

func (e *evalEnv) buildKeySet(k KeyCfg) *rlwe.MemEvaluationKeySet {
	if k.Nil {
		return nil
	}
	ep := evkParams(k)
	var rlk *rlwe.RelinearizationKey
	if k.Relin {
		rlk = e.kgen.GenRelinearizationKeyNew(e.sk, ep...)
	}
	gals := galoisElements(e.rp, k.Rots, k.Conj)
	if k.Inner {
		have := map[uint64]bool{}
		for _, g := range gals {
			have[g] = true
		}
		for _, g := range append(rlwe.GaloisElementsForInnerSum(e.rp, 1, 4), rlwe.GaloisElementsForReplicate(e.rp, 1, 4)...) {
			if !have[g] {
				have[g] = true
				gals = append(gals, g)
			}
		}
	}
	gks := e.kgen.GenGaloisKeysNew(gals, e.sk, ep...)
	return rlwe.NewMemEvaluationKeySet(rlk, gks...)
}

func buildEvalEnv(c EvalCase) (*evalEnv, error) {
	e := &evalEnv{c: c}
	var err error
	switch c.Scheme {
	case "bgv":
		if e.bp, err = (h.BGVSpec{RLWESpec: c.RLWE, T: c.T}).Build(); err != nil {
			return nil, err
		}
		e.rp = e.bp.Parameters
		e.prov = e.bp
	case "ckks":
		if e.cp, err = (h.CKKSSpec{RLWESpec: c.RLWE, LogScale: c.LogScale}).Build(); err != nil {
			return nil, err
		}
		e.rp = e.cp.Parameters
		e.prov = e.cp
	default:
		if e.rp, err = c.RLWE.Build(); err != nil {
			return nil, err
		}
		e.prov = e.rp
	}
	e.maxLvl = e.rp.MaxLevel()
	e.kgen = rlwe.NewKeyGenerator(e.rp)
	e.sk = e.kgen.GenSecretKeyNew()
	e.sk2 = e.kgen.GenSecretKeyNew()
	e.evk = e.buildKeySet(c.Keys)
	if c.Mode == "WithKey" || c.Chain2 == "WithKey" {
		e.newEvk = e.buildKeySet(c.NewKeys)
	}
	for _, g := range galoisElements(e.rp, c.LateNew, false) {
		e.lateNew = append(e.lateNew, e.kgen.GenGaloisKeyNew(g, e.sk, evkParams(c.NewKeys)...))
	}
	for _, g := range galoisElements(e.rp, c.LateRots, false) {
		e.late = append(e.late, e.kgen.GenGaloisKeyNew(g, e.sk, evkParams(c.Keys)...))
	}
	e.swk = e.kgen.GenEvaluationKeyNew(e.sk, e.sk2)

	rng := h.NewSplitMix(c.Seed ^ 0xabcdef)
	enc := rlwe.NewEncryptor(e.rp, e.sk)
	switch c.Scheme {
	case "bgv":
		ecd := bgv.NewEncoder(e.bp)
		e.vecU = make([]uint64, e.bp.MaxSlots())
		for i := range e.vecU {
			e.vecU[i] = rng.Uint64() % c.T
		}
		for i := 0; i < 3; i++ {
			pt := bgv.NewPlaintext(e.bp, c.Levels[i])
			v := make([]uint64, e.bp.MaxSlots())
			for j := range v {
				v[j] = rng.Uint64() % c.T
			}
			if err = ecd.Encode(v, pt); err != nil {
				return nil, err
			}
			ct, err := enc.EncryptNew(pt)
			if err != nil {
				return nil, err
			}
			e.cts = append(e.cts, ct)
			if i == 0 {
				e.pt = pt
			}
		}
	case "ckks":
		ecd := ckks.NewEncoder(e.cp)
		slots := e.cp.MaxSlots()
		e.vecC = make([]complex128, slots)
		for i := range e.vecC {
			e.vecC[i] = complex(rng.Float64()*2-1, rng.Float64()*2-1)
		}
		for i := 0; i < 3; i++ {
			pt := ckks.NewPlaintext(e.cp, c.Levels[i])
			v := make([]complex128, slots)
			for j := range v {
				v[j] = complex(rng.Float64()*2-1, rng.Float64()*2-1)
			}
			if err = ecd.Encode(v, pt); err != nil {
				return nil, err
			}
			ct, err := enc.EncryptNew(pt)
			if err != nil {
				return nil, err
			}
			e.cts = append(e.cts, ct)
			if i == 0 {
				e.pt = pt
			}
		}
	default:
		prng := h.KeyedPRNG(fmt.Sprintf("c10-in-%d", c.Seed))
		for i := 0; i < 3; i++ {
			pt := rlwe.NewPlaintextRandom(prng, e.rp, c.Levels[i])
			pt.IsNTT = e.rp.NTTFlag()
			ct, err := enc.EncryptNew(pt)
			if err != nil {
				return nil, err
			}
			e.cts = append(e.cts, ct)
			if i == 0 {
				e.pt = pt
			}
		}
		e.ct2 = rlwe.NewCiphertextRandom(prng, e.rp, 2, c.Levels[0])
		e.ct2.IsNTT = e.rp.NTTFlag()
		if c.Scheme == "rgsw" {
			e.rgswCt = rgsw.NewCiphertext(e.rp, e.maxLvl, e.rp.MaxLevelP(), 0)
			ptMax := rlwe.NewPlaintextRandom(prng, e.rp, e.maxLvl)
			ptMax.IsNTT = e.rp.NTTFlag()
			if err = rgsw.NewEncryptor(e.rp, e.sk).Encrypt(ptMax, e.rgswCt); err != nil {
				return nil, err
			}
		}
	}
	return e, nil
}

// evaluator under test: a thin sum type over the four layers.
type evalObj struct {
	r *rlwe.Evaluator
	g *rgsw.Evaluator
	b *bgv.Evaluator
	k *ckks.Evaluator
}

func (o evalObj) ptr() any {
	switch {
	case o.r != nil:
		return o.r
	case o.g != nil:
		return o.g
	case o.b != nil:
		return o.b
	}
	return o.k
}

func ks(s *rlwe.MemEvaluationKeySet) rlwe.EvaluationKeySet {
	if s == nil {
		return nil // a nil interface, not a typed nil pointer
	}
	return s
}

func (e *evalEnv) newEvaluator(evk *rlwe.MemEvaluationKeySet) evalObj {
	switch e.c.Scheme {
	case "bgv":
		if e.c.ScaleInvariant {
			return evalObj{b: bgv.NewEvaluator(e.bp, ks(evk), true)}
		}
		return evalObj{b: bgv.NewEvaluator(e.bp, ks(evk))}
	case "ckks":
		return evalObj{k: ckks.NewEvaluator(e.cp, ks(evk))}
	case "rgsw":
		return evalObj{g: rgsw.NewEvaluator(e.rp, ks(evk))}
	}
	return evalObj{r: rlwe.NewEvaluator(e.rp, ks(evk))}
}

func (o evalObj) shallowCopy() evalObj {
	switch {
	case o.r != nil:
		return evalObj{r: o.r.ShallowCopy()}
	case o.g != nil:
		return evalObj{g: o.g.ShallowCopy()}
	case o.b != nil:
		return evalObj{b: o.b.ShallowCopy()}
	}
	return evalObj{k: o.k.ShallowCopy()}
}

func (o evalObj) withKey(evk rlwe.EvaluationKeySet) evalObj {
	switch {
	case o.r != nil:
		return evalObj{r: o.r.WithKey(evk)}
	case o.g != nil:
		return evalObj{g: o.g.WithKey(evk)}
	case o.b != nil:
		return evalObj{b: o.b.WithKey(evk)}
	}
	return evalObj{k: o.k.WithKey(evk)}
}

func (o evalObj) base() *rlwe.Evaluator {
	switch {
	case o.r != nil:
		return o.r
	case o.g != nil:
		return &o.g.Evaluator
	case o.b != nil:
		return o.b.Evaluator
	}
	return o.k.Evaluator
}

// safe runs f and turns a panic into a digest, so that every operation is a total function of (object, inputs).
func safe(f func() string) (out string) {
	defer func() {
		if r := recover(); r != nil {
			out = "panic"
		}
	}()
	return f()
}

func dgCt(ct *rlwe.Ciphertext, err error) string {
	if err != nil {
		return "err"
	}
	if ct == nil {
		return "nil"
	}
	return dg(ct)
}

// runOp applies one operation with fresh outputs and returns a digest of everything it produced.
func (e *evalEnv) runOp(o evalObj, op Op) string {
	return op.Kind + "=" + safe(func() string {
		a, b := e.cts[op.A], e.cts[op.B]
		lvl := a.Level()
		switch {
		case o.r != nil || o.g != nil:
			ev := o.base()
			out := rlwe.NewCiphertext(e.rp, 1, lvl)
			switch op.Kind {
			case "automorphism":
				return dgCt(out, ev.Automorphism(a, e.galEl(op.K), out))
			case "hoisted":
				buf := ev.BuffDecompQP
				ev.DecomposeNTT(lvl, e.rp.MaxLevelP(), e.rp.PCount(), a.Value[1], a.IsNTT, buf)
				return dgCt(out, ev.AutomorphismHoisted(lvl, a, buf, e.galEl(op.K), out))
			case "relin":
				return dgCt(out, ev.Relinearize(e.ct2, out))
			case "applyevk":
				return dgCt(out, ev.ApplyEvaluationKey(a, e.swk, out))
			case "trace":
				return dgCt(out, ev.Trace(a, op.N, out))
			case "partial":
				return dgCt(out, ev.PartialTracesSum(a, op.N, op.N+1, out))
			case "replicate":
				return dgCt(out, ev.Replicate(a, 1, op.N, out))
			case "gadget":
				ev.GadgetProduct(lvl, a.Value[1], &e.swk.GadgetCiphertext, out)
				return dgCt(out, nil)
			case "extprod":
				o.g.ExternalProduct(a, e.rgswCt, out)
				return dgCt(out, nil)
			}
		case o.b != nil:
			ev := o.b
			switch op.Kind {
			case "add-ct":
				return dgCt(ev.AddNew(a, b))
			case "add-pt":
				return dgCt(ev.AddNew(a, e.pt))
			case "add-scalar":
				return dgCt(ev.AddNew(a, uint64(op.K+3)))
			case "add-vec":
				return dgCt(ev.AddNew(a, e.vecU))
			case "sub-ct":
				return dgCt(ev.SubNew(a, b))
			case "mul-ct":
				return dgCt(ev.MulNew(a, b))
			case "mul-pt":
				return dgCt(ev.MulNew(a, e.pt))
			case "mul-scalar":
				return dgCt(ev.MulNew(a, uint64(op.K+3)))
			case "mul-vec":
				return dgCt(ev.MulNew(a, e.vecU))
			case "mulrelin":
				return dgCt(ev.MulRelinNew(a, b))
			case "mulsi":
				return dgCt(ev.MulScaleInvariantNew(a, b))
			case "mulrelinsi":
				return dgCt(ev.MulRelinScaleInvariantNew(a, b))
			case "multhenadd":
				out := e.cts[(op.B+1)%3].CopyNew()
				out.Resize(2, out.Level())
				return dgCt(out, ev.MulThenAdd(a, b, out))
			case "mulrelinthenadd":
				out := e.cts[(op.B+1)%3].CopyNew()
				return dgCt(out, ev.MulRelinThenAdd(a, b, out))
			case "rescale":
				out := bgv.NewCiphertext(e.bp, 1, lvl)
				return dgCt(out, ev.Rescale(a, out))
			case "rotcol":
				return dgCt(ev.RotateColumnsNew(a, op.K))
			case "rotrow":
				return dgCt(ev.RotateRowsNew(a))
			case "innersum":
				out := bgv.NewCiphertext(e.bp, 1, lvl)
				return dgCt(out, ev.InnerSum(a, 1, op.N, out))
			case "encode":
				pt := bgv.NewPlaintext(e.bp, lvl)
				if err := ev.Encode(e.vecU, pt); err != nil {
					return "err"
				}
				v := make([]uint64, len(e.vecU))
				if err := ev.Decode(pt, v); err != nil {
					return "err"
				}
				return dg(pt) + fmt.Sprint(v)
			case "relinnew":
				c2, err := ev.MulNew(a, b)
				if err != nil {
					return "err"
				}
				return dgCt(ev.RelinearizeNew(c2))
			}
		default:
			ev := o.k
			cst := complex(float64(op.K)+0.5, float64(op.N)-0.25)
			switch op.Kind {
			case "add-ct":
				return dgCt(ev.AddNew(a, b))
			case "add-pt":
				return dgCt(ev.AddNew(a, e.pt))
			case "add-const":
				return dgCt(ev.AddNew(a, cst))
			case "add-vec":
				return dgCt(ev.AddNew(a, e.vecC))
			case "sub-ct":
				return dgCt(ev.SubNew(a, b))
			case "mul-ct":
				return dgCt(ev.MulNew(a, b))
			case "mul-pt":
				return dgCt(ev.MulNew(a, e.pt))
			case "mul-const":
				return dgCt(ev.MulNew(a, cst))
			case "mul-vec":
				return dgCt(ev.MulNew(a, e.vecC))
			case "mulrelin":
				return dgCt(ev.MulRelinNew(a, b))
			case "multhenadd":
				out := ckks.NewCiphertext(e.cp, 2, lvl)
				return dgCt(out, ev.MulThenAdd(a, b, out))
			case "multhenadd-const":
				out := e.cts[(op.B+1)%3].CopyNew()
				return dgCt(out, ev.MulThenAdd(a, cst, out))
			case "mulrelinthenadd":
				out := ckks.NewCiphertext(e.cp, 1, lvl)
				return dgCt(out, ev.MulRelinThenAdd(a, b, out))
			case "rescale":
				out := ckks.NewCiphertext(e.cp, 1, lvl)
				return dgCt(out, ev.Rescale(a, out))
			case "rotate":
				return dgCt(ev.RotateNew(a, op.K))
			case "conjugate":
				return dgCt(ev.ConjugateNew(a))
			case "innersum":
				out := ckks.NewCiphertext(e.cp, 1, lvl)
				return dgCt(out, ev.InnerSum(a, 1, op.N, out))
			case "hoisted":
				m, err := ev.RotateHoistedNew(a, []int{op.K, op.N})
				if err != nil {
					return "err"
				}
				return dgCt(m[op.K], nil) + dgCt(m[op.N], nil)
			case "lintrans":
				// a linear-transformation evaluator built on the evaluator under test: diagonals 0 and K (rotation by K)
				slots := 1 << a.LogDimensions.Cols
				d0, dk := make([]complex128, slots), make([]complex128, slots)
				for j := range d0 {
					d0[j], dk[j] = complex(0.5, 0), complex(0.25, float64(j%3))
				}
				diags := lintrans.Diagonals[complex128]{0: d0, op.K: dk}
				ltp := lintrans.Parameters{DiagonalsIndexList: diags.DiagonalsIndexList(), LevelQ: lvl, LevelP: e.cp.MaxLevelP(),
					Scale: rlwe.NewScale(e.cp.Q()[lvl]), LogDimensions: a.LogDimensions, LogBabyStepGiantStepRatio: -1}
				lt := lintrans.NewTransformation(e.cp, ltp)
				if err := lintrans.Encode(ckks.NewEncoder(e.cp), diags, lt); err != nil {
					return "err"
				}
				return dgCt(lintrans.NewEvaluator(ev).EvaluateNew(a, lt))
			case "encode":
				pt := ckks.NewPlaintext(e.cp, lvl)
				if err := ev.Encode(e.vecC, pt); err != nil {
					return "err"
				}
				v := make([]complex128, len(e.vecC))
				if err := ev.Decode(pt, v); err != nil {
					return "err"
				}
				return dg(pt) + fmt.Sprint(v)
			case "relinnew":
				c2, err := ev.MulNew(a, b)
				if err != nil {
					return "err"
				}
				return dgCt(ev.RelinearizeNew(c2))
			}
		}
		return "unknown-op"
	})
}

func (e *evalEnv) runOps(o evalObj, ops []Op) []string {
	out := make([]string, len(ops))
	for i, op := range ops {
		out[i] = e.runOp(o, op)
	}
	return out
}

// inputsDigest detects an operation that modified a shared input.
func (e *evalEnv) inputsDigest() string {
	var sb strings.Builder
	for _, ct := range e.cts {
		sb.WriteString(dg(ct))
	}
	sb.WriteString(dg(e.pt))
	if e.ct2 != nil {
		sb.WriteString(dg(e.ct2))
	}
	return sb.String()
}

func (e *evalEnv) addLateKeys() {
	for _, gk := range e.late {
		e.evk.GaloisKeys[gk.GaloisElement] = gk
	}
}

func evalTypeName(c EvalCase) string {
	switch c.Scheme {
	case "bgv":
		return "bgv.Evaluator"
	case "ckks":
		return "ckks.Evaluator"
	case "rgsw":
		return "rgsw.Evaluator"
	}
	return "rlwe.Evaluator"
}

// exercised reports whether the op sequence really uses the non-default configuration of the case.
func (e *evalEnv) describe(c EvalCase, res []string, rec *h.Rec) {
	rec.Class("scheme=" + c.Scheme)
	rec.Class("mode=" + c.Mode)
	var feats []string
	if c.ScaleInvariant {
		feats = append(feats, "scaleInvariant")
	}
	if c.Keys.Nil {
		feats = append(feats, "nilKeys")
	}
	if c.Keys.BaseTwo != 0 {
		feats = append(feats, "base2")
	}
	if len(c.LateRots) > 0 {
		feats = append(feats, "lateKeys")
	}
	if len(c.LateNew) > 0 {
		feats = append(feats, "lateKeysAfterWithKey")
	}
	if c.Chain2 != "" {
		feats = append(feats, "chain="+c.Mode+"."+c.Chain2)
	}
	if !c.Keys.Nil && !c.Keys.Relin && len(c.Keys.Rots) == 0 && !c.Keys.Conj && !c.Keys.Inner {
		feats = append(feats, "emptyKeySet")
	}
	if len(c.RLWE.P) == 0 {
		feats = append(feats, "noP")
	}
	if c.RLWE.CI {
		feats = append(feats, "CI")
	}
	if c.Scheme == "bgv" && e.bp.MaxSlots() < e.bp.N() {
		feats = append(feats, "tGap")
	}
	if c.UseBefore {
		feats = append(feats, "usedBefore")
	}
	for _, l := range c.Levels {
		if l < e.maxLvl {
			feats = append(feats, "lowLevel")
			break
		}
	}
	okOps := map[string]bool{}
	for _, r := range res {
		if !strings.HasSuffix(r, "=err") && !strings.HasSuffix(r, "=panic") {
			okOps[r[:strings.Index(r, "=")]] = true
		}
	}
	for _, r := range res {
		k := "ok"
		if strings.HasSuffix(r, "=err") {
			k = "err"
		} else if strings.HasSuffix(r, "=panic") {
			k = "panic"
		}
		rec.Class("op:" + r[:strings.Index(r, "=")] + ":" + k)
	}
	for _, f := range feats {
		rec.Class("feat=" + f)
	}
	if len(feats) > 0 && len(okOps) > 0 {
		rec.NonTrivial(fmt.Sprintf("%s|%s|%v|%v|N=%d|G=%d", c.Scheme, c.Mode, feats, sortedKeys(okOps), 1<<c.RLWE.LogN, c.Goroutines))
	}
}

// perturbOps returns the operations in reverse order on shifted operands / rotation amounts.
func perturbOps(ops []Op) []Op {
	out := make([]Op, len(ops))
	for i, op := range ops {
		op.A, op.B = (op.A+1)%3, (op.B+2)%3
		op.N = op.N%4 + 1
		out[len(ops)-1-i] = op
	}
	return out
}

func runEvalCopy(c EvalCase, rec *h.Rec) error {
	e, err := buildEvalEnv(c)
	if err != nil {
		rec.Class("params-rejected")
		return nil
	}
	tn := evalTypeName(c)
	in0 := e.inputsDigest()

	orig := e.newEvaluator(e.evk)
	lateBefore := len(c.LateRots) > 0 && c.Seed&1 == 0
	if lateBefore {
		e.addLateKeys()
	}
	if c.UseBefore {
		e.runOps(orig, c.Ops)
	}

	// derivation route of the copy: Mode, then optionally Chain2
	derive := func(o evalObj, step string) evalObj {
		if step == "WithKey" {
			return o.withKey(e.newEvk)
		}
		return o.shallowCopy()
	}
	cp := derive(orig, c.Mode)
	if c.Chain2 != "" {
		cp = derive(cp, c.Chain2)
	}
	rebound := c.Mode == "WithKey" || c.Chain2 == "WithKey"
	// the copy shares its buffers with the original only when every step was a WithKey
	fresh := c.Mode == "ShallowCopy" || c.Chain2 == "ShallowCopy"
	ref := orig
	if rebound {
		ref = e.newEvaluator(e.newEvk) // what a newly constructed evaluator bound to the new keys looks like
	}
	var skip []string
	if !lateBefore {
		e.addLateKeys()
	}
	// history: the key set the copy was bound to grows AFTER the derivation
	if rebound {
		for _, gk := range e.lateNew {
			e.newEvk.GaloisKeys[gk.GaloisElement] = gk
		}
	}
	route := c.Mode
	if c.Chain2 != "" {
		route += "." + c.Chain2
	}

	// (1) configuration completeness
	tainted := false
	sRef, sCp := takeSnapshot(ref.ptr()), takeSnapshot(cp.ptr())
	for _, d := range compareConfig(sRef, sCp, fresh, !(!rebound && c.UseBefore), skip) {
		key := fmt.Sprintf("C10:%s.%s:config:%s:%s", tn, route, d.kind, stripIdx(d.path))
		msg := fmt.Sprintf("%s.%s: %s at field path %q (copy vs %s)", tn, route, d.kind, d.path, map[bool]string{false: "original", true: "a new evaluator bound to the same keys"}[rebound])
		if rec.Known(key, msg) {
			tainted = true // behaviour of the copy is expected to differ for this listed reason
			rec.Class("known=" + key)
			continue
		}
		return h.Failf(key, "%s", msg)
	}

	// (2) behavioural differential: reference results
	var want []string
	if !rebound {
		want = e.runOps(orig, c.Ops)
	} else {
		// reference: an evaluator constructed now, on the key set as it is now
		want = e.runOps(e.newEvaluator(e.newEvk), c.Ops)
	}
	origWant := e.runOps(orig, c.Ops)
	if err := e.checkLateKeys(orig, origWant, rec); err != nil {
		return err
	}

	// (3) independence: the original's whole reachable state must not change while the copy is used
	before := takeSnapshot(orig.ptr())
	got := e.runOps(cp, c.Ops)
	// second life of the copy on OTHER operands, in reverse order: a scratch area shared with the original would now
	// hold different contents than what the original itself left there
	e.runOps(cp, perturbOps(c.Ops))
	after := takeSnapshot(orig.ptr())

	if i := firstDiff(want, got); i >= 0 && !tainted {
		key := fmt.Sprintf("C10:%s.%s:behaviour:%s", tn, route, c.Ops[i].Kind)
		msg := fmt.Sprintf("%s.%s (late keys on the original set %v, on the new set %v): op #%d %+v gives %s on the copy but %s on the reference", tn, route, c.LateRots, c.LateNew, i, c.Ops[i], got[i], want[i])
		if !rec.Known(key, msg) {
			return h.Failf(key, "%s", msg)
		}
	}
	ignore := []string{clsCache}
	if !fresh {
		ignore = append(ignore, clsBuffer) // WithKey documents shared buffers
	}
	for _, d := range compareState(before, after, ignore...) {
		key := fmt.Sprintf("C10:%s.%s:original-changed:%s", tn, route, stripIdx(d.path))
		msg := fmt.Sprintf("%s.%s: using the copy changed the original at %q", tn, route, d.path)
		if !rec.Known(key, msg) {
			return h.Failf(key, "%s", msg)
		}
	}
	if got2 := e.runOps(cp, c.Ops); !tainted {
		if i := firstDiff(got, got2); i >= 0 {
			return h.Failf(fmt.Sprintf("C10:%s.%s:copy-second-use:%s", tn, route, c.Ops[i].Kind),
				"%s.%s: op #%d %+v on the copy gives %s the second time, %s the first time", tn, route, i, c.Ops[i], got2[i], got[i])
		}
	}
	again := e.runOps(orig, c.Ops)
	if i := firstDiff(origWant, again); i >= 0 {
		return h.Failf(fmt.Sprintf("C10:%s.%s:original-results-changed:%s", tn, route, c.Ops[i].Kind),
			"%s.%s: after the copy was used, op #%d %+v on the original gives %s instead of %s", tn, route, i, c.Ops[i], again[i], origWant[i])
	}
	if in1 := e.inputsDigest(); in1 != in0 {
		return h.Failf("C10:"+tn+":inputs-modified", "an operation with a fresh output modified its inputs")
	}
	e.describe(c, want, rec)
	return nil
}

var propEvalCopy = h.NewProp("TestPropEvaluatorCopy", h.Budget{Quick: 500, Thorough: 10000},
	func(t *rapid.T) EvalCase { return genEvalCase(t, false) }, runEvalCopy)

func TestPropEvaluatorCopy(t *testing.T) { propEvalCopy.Check(t) }

var _ = ring.Standard
