package c10

import (
	"fmt"
	"hash/fnv"
	"math/big"
	"os"
	"reflect"
	"regexp"
	"sort"
	"strings"
	"unsafe"

	"github.com/tuneinsight/lattigo/v6/ring"
)

// A snapshot is a flat description of everything reachable from an object (exported and unexported fields): one node
// per leaf value (hash of the content) and per reference (pointer / slice / map: address and length). It serves three
// oracles: configuration completeness (copy vs reference object), independence (object before vs after the use of its
// copy) and sharing (same address in two objects).

type node struct {
	hash  uint64  // content hash (leaves) / 0
	addr  uintptr // address of the referenced memory (pointers, slices, maps, big numbers) / 0
	n     int     // length (slices, maps) / -1
	class string  // classification inherited from the field table
	leaf  bool
}

type snapshot struct {
	nodes map[string]node
	order []string
}

// field classes (the table of the DESIGN section). Everything not listed is a "value": it must be equal in the copy.
const (
	clsBuffer = "buffer" // scratch memory: content irrelevant, must be re-allocated by ShallowCopy, shape must suffice
	clsRandom = "random" // randomness source: state irrelevant, must be fresh in ShallowCopy
	clsCache  = "cache"  // lazily filled lookup table: may legitimately differ / grow
	clsRebind = "rebind" // the field the copy constructor is documented to replace
	clsShared = "shared" // large read-only structure compared by identity only (takeSnapshotShared)
)

// sharedFields are not descended into by takeSnapshotShared (bootstrapping: key sets and encoded DFT matrices of
// hundreds of megabytes); a ShallowCopy must reference the very same objects.
var sharedFields = map[string]bool{
	"bootstrapping.Evaluator.EvaluationKeys": true,
	"rlwe.Evaluator.EvaluationKeySet":        true,
	"bootstrapping.Evaluator.S2CDFTMatrix":   true,
	"bootstrapping.Evaluator.C2SDFTMatrix":   true,
	"ckks.DomainSwitcher.stdToci":            true,
	"ckks.DomainSwitcher.ciToStd":            true,
	"dft.Evaluator.Evaluator":                false,
}

// fieldClass maps "<struct type>.<field>" to a class. Unknown fields are values (so a newly added, forgotten field is caught).
var fieldClass = map[string]string{
	"ring.BasisExtender.buffQ": clsBuffer,
	"ring.BasisExtender.buffP": clsBuffer,

	"rlwe.Evaluator.EvaluatorBuffers":  clsBuffer,
	"rlwe.Evaluator.automorphismIndex": clsCache,
	"rlwe.Decryptor.buff":              clsBuffer,
	"rlwe.Encryptor.encryptorBuffers":  clsBuffer,
	"rlwe.Encryptor.prng":              clsRandom,

	"ring.baseSampler.prng":             clsRandom,
	"ring.GaussianSampler.randomBuffer": clsRandom,
	"ring.UniformSampler.randomBuffer":  clsRandom,

	"bgv.Evaluator.evaluatorBuffers": clsBuffer,
	"bgv.Encoder.bufQ":               clsBuffer,
	"bgv.Encoder.bufT":               clsBuffer,
	"bgv.Encoder.bufB":               clsBuffer,

	"ckks.Evaluator.evaluatorBuffers": clsBuffer,
	"ckks.Encoder.bigintCoeffs":       clsBuffer,
	"ckks.Encoder.qHalf":              clsBuffer,
	"ckks.Encoder.buff":               clsBuffer,
	"ckks.Encoder.buffCmplx":          clsBuffer,

	"rgsw.Encryptor.buffQP": clsBuffer,

	"multiparty.EvaluationKeyGenProtocol.buff":     clsBuffer,
	"multiparty.GaloisKeyGenProtocol.skOut":        clsBuffer,
	"multiparty.RelinearizationKeyGenProtocol.buf": clsBuffer,
	"multiparty.KeySwitchProtocol.buf":             clsBuffer,
	"multiparty.KeySwitchProtocol.bufDelta":        clsBuffer,
	"multiparty.PublicKeySwitchProtocol.buf":       clsBuffer,

	"mpbgv.EncToShareProtocol.tmpPlaintextRingT": clsBuffer,
	"mpbgv.EncToShareProtocol.tmpPlaintextRingQ": clsBuffer,
	"mpbgv.ShareToEncProtocol.tmpPlaintextRingQ": clsBuffer,
	"mpbgv.MaskedTransformProtocol.tmpPt":        clsBuffer,
	"mpbgv.MaskedTransformProtocol.tmpMask":      clsBuffer,
	"mpbgv.MaskedTransformProtocol.tmpMaskPerm":  clsBuffer,

	"mpckks.EncToShareProtocol.buff":                 clsBuffer,
	"mpckks.EncToShareProtocol.maskBigint":           clsBuffer,
	"mpckks.ShareToEncProtocol.tmp":                  clsBuffer,
	"mpckks.ShareToEncProtocol.ssBigint":             clsBuffer,
	"mpckks.MaskedLinearTransformationProtocol.mask": clsBuffer,
}

// noStatic (development switch C10_NO_STATIC=1) disables the field-table comparison, so that a sensitivity run shows what
// the dynamic oracles (state snapshots, differential results, race detector) catch on their own.
var noStatic = os.Getenv("C10_NO_STATIC") != ""

// noSnapshot (development switch C10_NO_SNAPSHOT=1) disables the before/after state comparison as well, leaving the
// differential results, the parallel-vs-sequential comparison and the race detector.
var noSnapshot = os.Getenv("C10_NO_SNAPSHOT") != ""

var idxRe = regexp.MustCompile(`\[[^\]]*\]`)

// stripIdx removes slice/map indices from a path (stable failure keys).
func stripIdx(p string) string { return idxRe.ReplaceAllString(p, "[]") }

type walker struct {
	s       *snapshot
	visited map[[2]uintptr]string
	shared  bool
}

// takeSnapshotShared is takeSnapshot with the sharedFields recorded by identity only.
func takeSnapshotShared(obj any) *snapshot {
	w := &walker{s: &snapshot{nodes: map[string]node{}}, visited: map[[2]uintptr]string{}, shared: true}
	w.walk(reflect.ValueOf(obj), "", "")
	return w.s
}

func takeSnapshot(obj any) *snapshot {
	w := &walker{s: &snapshot{nodes: map[string]node{}}, visited: map[[2]uintptr]string{}}
	v := reflect.ValueOf(obj)
	if v.Kind() != reflect.Ptr {
		// make it addressable
		nv := reflect.New(v.Type()).Elem()
		nv.Set(v)
		v = nv
		w.walk(v, "", "")
	} else {
		w.walk(v, "", "")
	}
	return w.s
}

func (w *walker) put(path string, n node) {
	if _, ok := w.s.nodes[path]; !ok {
		w.s.order = append(w.s.order, path)
	}
	w.s.nodes[path] = n
}

func hashOf(parts ...any) uint64 {
	h := fnv.New64a()
	for _, p := range parts {
		fmt.Fprintf(h, "%v|", p)
	}
	return h.Sum64()
}

func typeID(t reflect.Type) uintptr {
	// identity of the type descriptor
	return uintptr((*[2]unsafe.Pointer)(unsafe.Pointer(&t))[1])
}

var (
	tBigInt   = reflect.TypeOf(big.Int{})
	tBigFloat = reflect.TypeOf(big.Float{})
	tRing     = reflect.TypeOf(ring.Ring{})
)

func shortType(t reflect.Type) string {
	s := t.String()
	// drop package paths inside generic instantiations
	if i := strings.Index(s, "["); i >= 0 {
		s = s[:i]
	}
	return strings.TrimPrefix(s, "*")
}

func isBasic(k reflect.Kind) bool {
	switch k {
	case reflect.Bool, reflect.Int, reflect.Int8, reflect.Int16, reflect.Int32, reflect.Int64, reflect.Uint, reflect.Uint8, reflect.Uint16,
		reflect.Uint32, reflect.Uint64, reflect.Float32, reflect.Float64, reflect.Complex64, reflect.Complex128, reflect.String:
		return true
	}
	return false
}

func basicHash(v reflect.Value) uint64 {
	switch v.Kind() {
	case reflect.Bool:
		return hashOf(v.Bool())
	case reflect.Int, reflect.Int8, reflect.Int16, reflect.Int32, reflect.Int64:
		return hashOf(v.Int())
	case reflect.Uint, reflect.Uint8, reflect.Uint16, reflect.Uint32, reflect.Uint64:
		return hashOf(v.Uint())
	case reflect.Float32, reflect.Float64:
		return hashOf(v.Float())
	case reflect.Complex64, reflect.Complex128:
		return hashOf(v.Complex())
	case reflect.String:
		return hashOf(v.String())
	}
	return 0
}

// rw returns a read-write view of a struct field (also unexported ones); parent must be addressable.
func rw(f reflect.Value) reflect.Value {
	if f.CanAddr() {
		return reflect.NewAt(f.Type(), unsafe.Pointer(f.UnsafeAddr())).Elem()
	}
	return f
}

func addressable(v reflect.Value) reflect.Value {
	if v.CanAddr() {
		return v
	}
	nv := reflect.New(v.Type()).Elem()
	nv.Set(v)
	return nv
}

func (w *walker) walk(v reflect.Value, path, class string) {
	if class == clsShared {
		switch v.Kind() {
		case reflect.Ptr, reflect.Map, reflect.Slice:
			if v.IsNil() {
				w.put(path, node{hash: hashOf("nil"), leaf: true, class: class, n: -1})
			} else {
				n := -1
				if v.Kind() != reflect.Ptr {
					n = v.Len()
				}
				w.put(path+"@", node{addr: v.Pointer(), hash: uint64(v.Pointer()), leaf: true, class: class, n: n})
			}
			return
		}
	}
	switch v.Kind() {
	case reflect.Invalid:
		w.put(path, node{hash: hashOf("invalid"), leaf: true, class: class, n: -1})
	case reflect.Ptr:
		if v.IsNil() {
			w.put(path, node{hash: hashOf("nil"), leaf: true, class: class, n: -1})
			return
		}
		et := v.Type().Elem()
		if et == tRing {
			// rings are immutable tables: record identity of the modulus chain and the level, do not descend
			r := v.Interface().(*ring.Ring)
			w.put(path+"*", node{hash: hashOf("ring", r.N(), r.ModuliChain(), r.Level(), r.Type()), leaf: true, class: class, n: -1})
			return
		}
		// cycle protection only (aliasing inside one object is not part of the compared configuration)
		key := [2]uintptr{v.Pointer(), typeID(et)}
		if _, ok := w.visited[key]; ok {
			w.put(path+"->", node{hash: hashOf("cycle"), leaf: true, class: class, n: -1})
			return
		}
		w.visited[key] = path
		w.put(path+"*", node{addr: v.Pointer(), class: class, n: -1})
		w.walk(v.Elem(), path, class)
		delete(w.visited, key)
	case reflect.Interface:
		if v.IsNil() {
			w.put(path, node{hash: hashOf("nil"), leaf: true, class: class, n: -1})
			return
		}
		e := v.Elem()
		w.put(path+"(type)", node{hash: hashOf(e.Type().String()), leaf: true, class: class, n: -1})
		if e.Kind() != reflect.Ptr {
			e = addressable(e)
		}
		w.walk(e, path, class)
	case reflect.Struct:
		t := v.Type()
		switch t {
		case tBigInt:
			b := v.Addr().Interface().(*big.Int)
			var a uintptr
			if bits := b.Bits(); len(bits) > 0 {
				a = uintptr(unsafe.Pointer(&bits[0]))
			}
			w.put(path, node{hash: hashOf("bigint", b.String()), addr: a, leaf: true, class: class, n: -1})
			return
		case tBigFloat:
			b := v.Addr().Interface().(*big.Float)
			w.put(path, node{hash: hashOf("bigfloat", b.Text('p', 0), b.Prec(), b.Mode()), leaf: true, class: class, n: -1})
			return
		}
		st := shortType(t)
		for i := 0; i < t.NumField(); i++ {
			f := t.Field(i)
			c := class
			if fc, ok := fieldClass[st+"."+f.Name]; ok && c == "" {
				c = fc
			}
			if w.shared && c == "" && sharedFields[st+"."+f.Name] {
				c = clsShared
			}
			p := path + "." + f.Name
			if path == "" {
				p = f.Name
			}
			w.walk(rw(v.Field(i)), p, c)
		}
	case reflect.Slice:
		if v.IsNil() || v.Len() == 0 {
			// a nil and an empty slice are not distinguishable through the API
			w.put(path, node{hash: hashOf("empty"), leaf: true, class: class, n: 0})
			return
		}
		if isBasic(v.Type().Elem().Kind()) {
			hh := fnv.New64a()
			for i := 0; i < v.Len(); i++ {
				fmt.Fprintf(hh, "%x,", basicHash(v.Index(i)))
			}
			w.put(path, node{hash: hh.Sum64(), addr: v.Pointer(), n: v.Len(), leaf: true, class: class})
			return
		}
		w.put(path+"#", node{addr: v.Pointer(), n: v.Len(), class: class})
		for i := 0; i < v.Len(); i++ {
			w.walk(v.Index(i), fmt.Sprintf("%s[%d]", path, i), class)
		}
	case reflect.Array:
		if isBasic(v.Type().Elem().Kind()) {
			hh := fnv.New64a()
			for i := 0; i < v.Len(); i++ {
				fmt.Fprintf(hh, "%x,", basicHash(v.Index(i)))
			}
			w.put(path, node{hash: hh.Sum64(), n: v.Len(), leaf: true, class: class})
			return
		}
		for i := 0; i < v.Len(); i++ {
			w.walk(v.Index(i), fmt.Sprintf("%s[%d]", path, i), class)
		}
	case reflect.Map:
		if v.IsNil() {
			w.put(path, node{hash: hashOf("nil"), leaf: true, class: class, n: -1})
			return
		}
		w.put(path+"#", node{addr: v.Pointer(), n: v.Len(), class: class})
		keys := v.MapKeys()
		sort.Slice(keys, func(i, j int) bool { return fmt.Sprint(keys[i].Interface()) < fmt.Sprint(keys[j].Interface()) })
		for _, k := range keys {
			e := v.MapIndex(k)
			if e.Kind() != reflect.Ptr && e.Kind() != reflect.Slice && e.Kind() != reflect.Map {
				e = addressable(e)
			}
			w.walk(e, fmt.Sprintf("%s[%v]", path, k.Interface()), class)
		}
	case reflect.Func:
		w.put(path, node{hash: hashOf("func", v.IsNil()), leaf: true, class: class, n: -1})
	case reflect.Chan, reflect.UnsafePointer, reflect.Uintptr:
		// not part of the observable configuration
	default:
		w.put(path, node{hash: basicHash(v), leaf: true, class: class, n: -1})
	}
}

// diffIssue is one disagreement found by a snapshot comparison.
type diffIssue struct {
	kind string // "value-differs" | "missing-in-copy" | "extra-in-copy" | "shared-buffer" | "shared-randomness" | "buffer-smaller"
	path string
}

func (d diffIssue) String() string { return d.kind + "@" + d.path }

// compareConfig compares the snapshot of a copy with the snapshot of the object it must be configured like.
// fresh = the constructor documents re-allocated buffers / fresh randomness (ShallowCopy): sharing them is an issue.
// skip lists path prefixes that the constructor is documented to replace.
func compareConfig(ref, cp *snapshot, fresh bool, shape bool, skip []string) []diffIssue {
	if noStatic {
		return nil
	}
	var out []diffIssue
	skipped := func(p string) bool {
		for _, s := range skip {
			if strings.HasPrefix(p, s) {
				return true
			}
		}
		return false
	}
	for _, p := range ref.order {
		rn := ref.nodes[p]
		if skipped(p) || rn.class == clsCache || rn.class == clsRebind {
			continue
		}
		cn, ok := cp.nodes[p]
		switch rn.class {
		case clsBuffer:
			if !ok {
				// a buffer the reference has and the copy lacks (only structural nodes are required; parts of a used
				// buffer may have been allocated lazily, so shapes are only compared against an unused reference)
				if shape && (!rn.leaf || rn.n >= 0) {
					out = append(out, diffIssue{"buffer-missing", p})
				}
				continue
			}
			if shape && rn.n >= 0 && cn.n < rn.n {
				out = append(out, diffIssue{"buffer-smaller", p})
			}
			if fresh && rn.addr != 0 && rn.addr == cn.addr && rn.n != 0 {
				out = append(out, diffIssue{"shared-buffer", p})
			}
		case clsRandom:
			if !ok {
				continue
			}
			if strings.HasSuffix(p, "(type)") && rn.hash != cn.hash {
				out = append(out, diffIssue{"value-differs", p})
			}
			if fresh && rn.addr != 0 && rn.addr == cn.addr {
				out = append(out, diffIssue{"shared-randomness", p})
			}
		default:
			if !ok {
				out = append(out, diffIssue{"missing-in-copy", p})
				continue
			}
			if rn.leaf && (rn.hash != cn.hash || rn.n != cn.n) {
				out = append(out, diffIssue{"value-differs", p})
			}
			if !rn.leaf && rn.n != cn.n {
				out = append(out, diffIssue{"value-differs", p})
			}
		}
	}
	for _, p := range cp.order {
		cn := cp.nodes[p]
		if skipped(p) || cn.class != "" {
			continue
		}
		if _, ok := ref.nodes[p]; !ok {
			out = append(out, diffIssue{"extra-in-copy", p})
		}
	}
	return collapse(out)
}

// compareState compares two snapshots of the SAME object taken before and after something that must not change it.
// ignore lists classes whose content may change (e.g. caches; buffers when sharing is documented).
func compareState(before, after *snapshot, ignore ...string) []diffIssue {
	if noSnapshot {
		return nil
	}
	ign := map[string]bool{}
	for _, c := range ignore {
		ign[c] = true
	}
	var out []diffIssue
	for _, p := range before.order {
		bn := before.nodes[p]
		if ign[bn.class] {
			continue
		}
		an, ok := after.nodes[p]
		if !ok {
			out = append(out, diffIssue{"state-changed", p})
			continue
		}
		if bn.hash != an.hash || bn.n != an.n || bn.addr != an.addr {
			out = append(out, diffIssue{"state-changed", p})
		}
	}
	for _, p := range after.order {
		an := after.nodes[p]
		if ign[an.class] {
			continue
		}
		if _, ok := before.nodes[p]; !ok {
			out = append(out, diffIssue{"state-changed", p})
		}
	}
	return collapse(out)
}

// collapse keeps one issue per (kind, index-free path), the first.
func collapse(in []diffIssue) []diffIssue {
	seen := map[string]bool{}
	var out []diffIssue
	for _, d := range in {
		k := d.kind + "@" + stripIdx(d.path)
		if !seen[k] {
			seen[k] = true
			out = append(out, d)
		}
	}
	return out
}

// sharedMutable lists buffer/random-class references that two objects have in common (same address).
func sharedAddrs(a, b *snapshot, classes ...string) []string {
	want := map[string]bool{}
	for _, c := range classes {
		want[c] = true
	}
	addrs := map[uintptr]string{}
	for _, p := range a.order {
		n := a.nodes[p]
		if want[n.class] && n.addr != 0 && n.n != 0 {
			addrs[n.addr] = p
		}
	}
	var out []string
	seen := map[string]bool{}
	for _, p := range b.order {
		n := b.nodes[p]
		if want[n.class] && n.addr != 0 && n.n != 0 {
			if q, ok := addrs[n.addr]; ok && !seen[stripIdx(q)] {
				seen[stripIdx(q)] = true
				out = append(out, q)
			}
		}
	}
	return out
}
