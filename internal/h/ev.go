package h

import (
	"encoding/json"
	"flag"
	"fmt"
	"hash/fnv"
	"os"
	"path/filepath"
	"runtime"
	"sort"
	"strconv"
	"strings"
	"sync"
	"testing"
	"time"

	"pgregory.net/rapid"
)

// Failure is a property violation with a stable key naming the call site / input class.
type Failure struct {
	Key string
	Msg string
}

func (f *Failure) Error() string { return f.Key + ": " + f.Msg }

// Failf builds a Failure.
func Failf(key, format string, a ...any) error {
	return &Failure{Key: key, Msg: fmt.Sprintf(format, a...)}
}

// Rec is the per-case recorder handed to a property body.
type Rec struct {
	classes    []string
	nontrivial bool
	desc       string
	known      map[string]string
	notes      map[string]any
}

// Class adds the case to a histogram class.
func (r *Rec) Class(c string) { r.classes = append(r.classes, c) }

// Classf adds the case to a formatted histogram class.
func (r *Rec) Classf(f string, a ...any) { r.classes = append(r.classes, fmt.Sprintf(f, a...)) }

// NonTrivial marks the case as non-trivial with the given descriptor (distinctness key).
func (r *Rec) NonTrivial(desc string) { r.nontrivial = true; r.desc = desc }

// Note attaches a free-form observation to the case sample.
func (r *Rec) Note(k string, v any) {
	if r.notes == nil {
		r.notes = map[string]any{}
	}
	r.notes[k] = v
}

// Known reports whether key is a listed (status "known") finding; if so the occurrence is counted and
// the caller must continue (or return nil) instead of failing.
func (r *Rec) Known(key, msg string) bool {
	if !IsKnown(key) {
		return false
	}
	if r.known == nil {
		r.known = map[string]string{}
	}
	r.known[key] = msg
	return true
}

// Finding is one entry of known_findings.json.
type Finding struct {
	Property string `json:"property"`
	Key      string `json:"key"`
	Status   string `json:"status"` // "known" | "fixed"
	Commit   string `json:"commit,omitempty"`
	What     string `json:"what"`
}

var (
	knownOnce sync.Once
	knownSet  map[string]Finding
)

// Root returns the /verif directory.
func Root() string {
	if r := os.Getenv("VERIF_ROOT"); r != "" {
		return r
	}
	wd, _ := os.Getwd()
	for d := wd; d != "/" && d != "."; d = filepath.Dir(d) {
		if _, err := os.Stat(filepath.Join(d, "known_findings.json")); err == nil {
			return d
		}
	}
	return "/verif"
}

func loadKnown() {
	knownSet = map[string]Finding{}
	files := []string{filepath.Join(Root(), "known_findings.json")}
	// work-in-progress entries proposed by a check author, consolidated into known_findings.json before release
	more, _ := filepath.Glob(filepath.Join(Root(), "known_findings.d", "*.json"))
	files = append(files, more...)
	for _, file := range files {
		b, err := os.ReadFile(file)
		if err != nil {
			continue
		}
		var f struct {
			Findings []Finding `json:"findings"`
		}
		if err := json.Unmarshal(b, &f); err != nil {
			panic(file + ": " + err.Error())
		}
		// a later file overrides an earlier one: an entry flipped to "fixed" by its author un-masks the key at once
		for _, e := range f.Findings {
			if e.Status == "known" {
				knownSet[e.Key] = e
			} else {
				delete(knownSet, e.Key)
			}
		}
	}
}

// IsKnown reports whether the finding key is listed with status "known".
func IsKnown(key string) bool {
	knownOnce.Do(loadKnown)
	_, ok := knownSet[key]
	return ok
}

type failRec struct {
	Property string          `json:"property"`
	Prop     string          `json:"prop"`
	Key      string          `json:"key"`
	Msg      string          `json:"msg"`
	Case     json.RawMessage `json:"case"`
	File     string          `json:"file,omitempty"`
}

type propEv struct {
	Requested     int               `json:"requested"`
	Evaluations   int               `json:"evaluations"`
	NonTrivial    []uint64          `json:"nontrivial_hashes"`
	Classes       map[string]int    `json:"classes"`
	Samples       []json.RawMessage `json:"samples"`
	ExcludedKnown map[string]int    `json:"excluded_known"`
	KnownMsgs     map[string]string `json:"known_msgs"`
	Failures      []failRec         `json:"failures"`
	WallS         float64           `json:"wall_s"`
	Extra         map[string]any    `json:"extra,omitempty"`
	ntset         map[uint64]struct{}
	sampleKeys    []uint64
	failed        bool
}

type procEv struct {
	Property string             `json:"property"`
	Tier     string             `json:"tier"`
	Seed     uint64             `json:"seed"`
	Shard    int                `json:"shard"`
	Props    map[string]*propEv `json:"props"`
}

var (
	evMu   sync.Mutex
	ev     = &procEv{Props: map[string]*propEv{}}
	propID = "C00"
)

func getProp(name string) *propEv {
	p := ev.Props[name]
	if p == nil {
		p = &propEv{Classes: map[string]int{}, ExcludedKnown: map[string]int{}, KnownMsgs: map[string]string{}, ntset: map[uint64]struct{}{}}
		ev.Props[name] = p
	}
	return p
}

// SetExtra stores an additional evidence key for a prop (e.g. registry audit results).
func SetExtra(prop, key string, v any) {
	evMu.Lock()
	defer evMu.Unlock()
	p := getProp(prop)
	if p.Extra == nil {
		p.Extra = map[string]any{}
	}
	p.Extra[key] = v
}

func hash64(b []byte) uint64 {
	h := fnv.New64a()
	h.Write(b)
	return h.Sum64()
}

// Tier returns "quick" or "thorough".
func Tier() string {
	if os.Getenv("VERIF_TIER") == "thorough" {
		return "thorough"
	}
	return "quick"
}

// Thorough reports whether the thorough tier is running.
func Thorough() bool { return Tier() == "thorough" }

func envInt(name string, def int) int {
	if v, err := strconv.Atoi(os.Getenv(name)); err == nil {
		return v
	}
	return def
}

// Seed returns VERIF_SEED (default 1).
func Seed() uint64 {
	if v, err := strconv.ParseUint(os.Getenv("VERIF_SEED"), 10, 64); err == nil {
		return v
	}
	return 1
}

// Main is the TestMain body of every check package.
func Main(m *testing.M, id string) {
	propID = id
	ev.Property = id
	ev.Tier = Tier()
	ev.Seed = Seed()
	ev.Shard = envInt("VERIF_SHARD", 0)
	code := m.Run()
	RestoreRand()
	if out := os.Getenv("VERIF_EVIDENCE_OUT"); out != "" {
		evMu.Lock()
		for _, p := range ev.Props {
			p.NonTrivial = p.NonTrivial[:0]
			for k := range p.ntset {
				p.NonTrivial = append(p.NonTrivial, k)
			}
			sort.Slice(p.NonTrivial, func(i, j int) bool { return p.NonTrivial[i] < p.NonTrivial[j] })
		}
		b, err := json.Marshal(ev)
		evMu.Unlock()
		if err == nil {
			err = os.WriteFile(out, b, 0o644)
		}
		if err != nil {
			fmt.Fprintln(os.Stderr, "evidence write:", err)
			if code == 0 {
				code = 2
			}
		}
	}
	os.Exit(code)
}

// Budget is the total number of generated cases per tier (split across shards by the driver).
type Budget struct{ Quick, Thorough int }

type replayer interface {
	name() string
	replayFile(t *testing.T, path string, fr *failRec)
}

var registry = map[string]replayer{}

// Prop is a property: a generator of plain-data cases and a deterministic body holding the oracle.
type Prop[C any] struct {
	Name   string
	Budget Budget
	Gen    func(*rapid.T) C
	Run    func(C, *Rec) error
}

// NewProp registers a property under the name of its test function (e.g. "TestPropRoundTrip").
func NewProp[C any](name string, b Budget, gen func(*rapid.T) C, run func(C, *Rec) error) *Prop[C] {
	p := &Prop[C]{Name: name, Budget: b, Gen: gen, Run: run}
	registry[name] = p
	return p
}

func (p *Prop[C]) name() string { return p.Name }

type seeder interface{ RandSeed() uint64 }

func panicKey() (string, string) {
	// first frame inside lattigo names the call site
	pcs := make([]uintptr, 64)
	n := runtime.Callers(3, pcs)
	frames := runtime.CallersFrames(pcs[:n])
	var sb strings.Builder
	site := ""
	for {
		f, more := frames.Next()
		if strings.Contains(f.Function, "tuneinsight/lattigo") && site == "" {
			site = f.Function[strings.LastIndex(f.Function, "/")+1:]
		}
		if !strings.HasPrefix(f.Function, "runtime.") {
			fmt.Fprintf(&sb, "  %s\n    %s:%d\n", f.Function, f.File, f.Line)
		}
		if !more {
			break
		}
	}
	if site == "" {
		site = "harness"
	}
	return site, sb.String()
}

// exec runs the body once on a case, with deterministic lattigo randomness and panic capture.
func (p *Prop[C]) exec(c C, rec *Rec) (err error) {
	js, _ := json.Marshal(c)
	if s, ok := any(c).(seeder); ok {
		SeedRand(s.RandSeed())
	} else {
		SeedRand(hash64(js))
	}
	defer func() {
		if r := recover(); r != nil {
			site, stack := panicKey()
			err = &Failure{Key: "panic@" + site, Msg: fmt.Sprintf("panic: %v\n%s", r, stack)}
		}
	}()
	return p.Run(c, rec)
}

// run executes one case, books it into the evidence, and filters known findings.
// It returns a non-nil failure record only for an unlisted violation.
func (p *Prop[C]) run(c C, count bool) *failRec {
	rec := &Rec{}
	err := p.exec(c, rec)
	js, _ := json.Marshal(c)

	if err != nil {
		f, ok := err.(*Failure)
		if !ok {
			f = &Failure{Key: "error", Msg: err.Error()}
		}
		if rec.Known(f.Key, f.Msg) {
			err = nil
		} else {
			return &failRec{Property: propID, Prop: p.Name, Key: f.Key, Msg: f.Msg, Case: js}
		}
	}

	if !count {
		// still book known findings seen during replay
		evMu.Lock()
		pe := getProp(p.Name)
		for k, m := range rec.known {
			pe.ExcludedKnown[k]++
			pe.KnownMsgs[k] = m
		}
		evMu.Unlock()
		return nil
	}

	evMu.Lock()
	defer evMu.Unlock()
	pe := getProp(p.Name)
	if pe.failed {
		return nil // shrinking phase: do not count
	}
	pe.Evaluations++
	for _, c := range rec.classes {
		pe.Classes[c]++
	}
	for k, m := range rec.known {
		pe.ExcludedKnown[k]++
		pe.KnownMsgs[k] = m
	}
	if rec.nontrivial {
		pe.Classes["nontrivial"]++
		hk := hash64([]byte(rec.desc))
		if _, seen := pe.ntset[hk]; !seen {
			pe.ntset[hk] = struct{}{}
			// keep the 6 distinct non-trivial cases with the smallest descriptor hash (deterministic reservoir)
			const keep = 6
			idx := sort.Search(len(pe.sampleKeys), func(i int) bool { return pe.sampleKeys[i] >= hk })
			if idx < keep {
				sample := map[string]any{"case": json.RawMessage(js), "descriptor": rec.desc, "classes": rec.classes}
				if rec.notes != nil {
					sample["notes"] = rec.notes
				}
				sj, _ := json.Marshal(sample)
				pe.sampleKeys = append(pe.sampleKeys, 0)
				copy(pe.sampleKeys[idx+1:], pe.sampleKeys[idx:])
				pe.sampleKeys[idx] = hk
				pe.Samples = append(pe.Samples, nil)
				copy(pe.Samples[idx+1:], pe.Samples[idx:])
				pe.Samples[idx] = sj
				if len(pe.sampleKeys) > keep {
					pe.sampleKeys = pe.sampleKeys[:keep]
					pe.Samples = pe.Samples[:keep]
				}
			}
		}
	} else {
		pe.Classes["trivial"]++
	}
	return nil
}

func mix(a ...uint64) uint64 {
	var x uint64 = 0x243f6a8885a308d3
	for _, v := range a {
		x ^= v + 0x9e3779b97f4a7c15 + (x << 6) + (x >> 2)
		x *= 0xff51afd7ed558ccd
		x ^= x >> 33
	}
	if x == 0 {
		x = 1
	}
	return x
}

func failDir() string {
	d := os.Getenv("VERIF_FAIL_DIR")
	if d == "" {
		d = filepath.Join(Root(), ".run", propID, "fail")
	}
	_ = os.MkdirAll(d, 0o755)
	return d
}

// Cases returns the number of cases this process runs for the budget.
func (b Budget) Cases() int {
	n := b.Quick
	if Thorough() {
		n = b.Thorough
	}
	if s := os.Getenv("VERIF_SCALE"); s != "" {
		if f, err := strconv.ParseFloat(s, 64); err == nil && f > 0 {
			n = int(float64(n) * f)
		}
	}
	shards := envInt("VERIF_NSHARDS", 1)
	n = (n + shards - 1) / shards
	if n < 1 {
		n = 1
	}
	return n
}

// Check drives the property with rapid. The last failing case rapid evaluates is the shrunk one; it is
// written as a JSON replay file that does not depend on rapid's bit-stream.
func (p *Prop[C]) Check(t *testing.T) {
	n := p.Budget.Cases()
	seed := mix(Seed(), uint64(envInt("VERIF_SHARD", 0)), hash64([]byte(p.Name)))
	_ = flag.Set("rapid.checks", strconv.Itoa(n))
	_ = flag.Set("rapid.seed", strconv.FormatUint(seed, 10))
	_ = flag.Set("rapid.nofailfile", "true")
	if st := os.Getenv("VERIF_SHRINKTIME"); st != "" {
		_ = flag.Set("rapid.shrinktime", st)
	}
	evMu.Lock()
	pe := getProp(p.Name)
	pe.Requested = n
	evMu.Unlock()
	start := time.Now()

	var last *failRec
	defer func() {
		evMu.Lock()
		pe.WallS = time.Since(start).Seconds()
		evMu.Unlock()
		if last != nil {
			file := filepath.Join(failDir(), fmt.Sprintf("%s-%016x.json", p.Name, hash64(append([]byte(last.Key), last.Case...))))
			out := *last
			b, _ := json.MarshalIndent(out, "", " ")
			_ = os.WriteFile(file, b, 0o644)
			last.File = file
			evMu.Lock()
			pe.Failures = append(pe.Failures, *last)
			evMu.Unlock()
			fmt.Printf("FAILCASE property=%s prop=%s key=%q file=%s\n", propID, p.Name, last.Key, file)
		}
	}()

	rapid.Check(t, func(rt *rapid.T) {
		c := p.Gen(rt)
		if fr := p.run(c, true); fr != nil {
			evMu.Lock()
			pe.failed = true
			evMu.Unlock()
			last = fr
			rt.Fatalf("%s: %s\ncase: %s", fr.Key, fr.Msg, string(fr.Case))
		}
	})
}

func (p *Prop[C]) replayFile(t *testing.T, path string, fr *failRec) {
	var c C
	if err := json.Unmarshal(fr.Case, &c); err != nil {
		t.Errorf("replay %s: cannot decode case: %v", path, err)
		fmt.Printf("FAILCASE property=%s prop=%s key=%q file=%s\n", propID, p.Name, "replay-decode", path)
		return
	}
	if got := p.run(c, false); got != nil {
		got.File = path
		evMu.Lock()
		pe := getProp(p.Name)
		pe.Failures = append(pe.Failures, *got)
		evMu.Unlock()
		t.Errorf("replay %s failed: %s: %s", path, got.Key, got.Msg)
		fmt.Printf("FAILCASE property=%s prop=%s key=%q file=%s\n", propID, p.Name, got.Key, path)
	}
}

// ReplayAll re-executes every committed replay file of this property (and VERIF_REPLAY_FILE when set) as a plain
// regression test that bypasses rapid.
func ReplayAll(t *testing.T) {
	var files []string
	if f := os.Getenv("VERIF_REPLAY_FILE"); f != "" {
		files = []string{f}
	} else {
		files, _ = filepath.Glob(filepath.Join(Root(), "replays", propID, "*.json"))
		sort.Strings(files)
	}
	n := 0
	for _, f := range files {
		b, err := os.ReadFile(f)
		if err != nil {
			t.Errorf("replay %s: %v", f, err)
			continue
		}
		var fr failRec
		if err := json.Unmarshal(b, &fr); err != nil {
			t.Errorf("replay %s: %v", f, err)
			continue
		}
		r, ok := registry[fr.Prop]
		if !ok {
			t.Logf("replay %s: unknown prop %q (skipped)", f, fr.Prop)
			continue
		}
		r.replayFile(t, f, &fr)
		n++
	}
	evMu.Lock()
	getProp("TestReplay").Evaluations = n
	evMu.Unlock()
}
