package h

import (
	"fmt"
	"math/big"
	"math/bits"
	"sync"
)

// Independent NTT-friendly prime search (never uses ring.NTTFriendlyPrimesGenerator, which is code under
// test): primes p = k*M+1 with bits.Len64(p) == bitsize. big.Int.ProbablyPrime is exact below 2^64.

type primeKey struct {
	bits int
	m    uint64
	top  bool
}

var (
	primeMu    sync.Mutex
	primeCache = map[primeKey][]uint64{}
)

// IsPrime64 is an independent primality test (Baillie-PSW, exact for 64-bit inputs).
func IsPrime64(p uint64) bool {
	return new(big.Int).SetUint64(p).ProbablyPrime(0)
}

// Primes returns up to count primes p ≡ 1 mod m with exactly `bitsize` bits, scanning downward from 2^bitsize
// when top is true and upward from 2^(bitsize-1) otherwise. The result may be shorter than count (tiny sizes).
func Primes(bitsize int, m uint64, count int, top bool) []uint64 {
	if bitsize < 2 || bitsize > 63 || m == 0 {
		return nil
	}
	primeMu.Lock()
	defer primeMu.Unlock()
	k := primeKey{bitsize, m, top}
	if c, ok := primeCache[k]; ok && len(c) >= count {
		return append([]uint64(nil), c[:count]...)
	}
	lo := uint64(1) << (bitsize - 1)
	hi := (uint64(1) << bitsize) - 1
	var out []uint64
	const maxScan = 200000
	if top {
		// largest candidate <= hi congruent to 1 mod m
		if hi < 1 {
			return nil
		}
		c := hi - (hi-1)%m
		for i := 0; i < maxScan && c >= lo && c >= m+1 && len(out) < count; i++ {
			if IsPrime64(c) {
				out = append(out, c)
			}
			if c < m {
				break
			}
			c -= m
		}
	} else {
		c := lo + (m-(lo-1)%m)%m // smallest >= lo congruent to 1 mod m
		if c%m != 1%m {
			panic("prime scan start")
		}
		if c == 1 {
			c += m
		}
		for i := 0; i < maxScan && c <= hi && len(out) < count; i++ {
			if IsPrime64(c) {
				out = append(out, c)
			}
			if c > hi-m {
				break
			}
			c += m
		}
	}
	primeCache[k] = out
	return append([]uint64(nil), out...)
}

// DistinctPrimes picks n distinct primes ≡ 1 mod m for the given bit sizes; pick(i, avail) chooses an index among
// the available candidates. Sizes for which no unused prime exists are moved to the next larger size.
func DistinctPrimes(sizes []int, m uint64, pick func(i, avail int) int, used map[uint64]bool) ([]uint64, error) {
	if used == nil {
		used = map[uint64]bool{}
	}
	out := make([]uint64, 0, len(sizes))
	for i, s := range sizes {
		found := false
		for sz := s; sz <= 61 && !found; sz++ {
			cands := append(Primes(sz, m, 12, true), Primes(sz, m, 12, false)...)
			var avail []uint64
			seen := map[uint64]bool{}
			for _, c := range cands {
				if !used[c] && !seen[c] {
					avail = append(avail, c)
					seen[c] = true
				}
			}
			if len(avail) == 0 {
				continue
			}
			p := avail[pick(i, len(avail))%len(avail)]
			used[p] = true
			out = append(out, p)
			found = true
		}
		if !found {
			return nil, fmt.Errorf("no prime of >=%d bits ≡ 1 mod %d", s, m)
		}
	}
	return out, nil
}

// MinPrimeBits is the smallest bit size for which a prime ≡ 1 mod m can exist (p > m).
func MinPrimeBits(m uint64) int { return bits.Len64(m) + 0 }

// PrimitiveRoot2N returns an independently found primitive m-th root of unity modulo prime q (m power of two, m | q-1).
func PrimitiveRoot2N(q, m uint64) uint64 {
	bq := new(big.Int).SetUint64(q)
	exp := new(big.Int).SetUint64((q - 1) / m)
	half := new(big.Int).SetUint64(m / 2)
	for g := uint64(2); g < q; g++ {
		r := new(big.Int).Exp(new(big.Int).SetUint64(g), exp, bq)
		// r has order dividing m; it is primitive iff r^(m/2) == -1
		if t := new(big.Int).Exp(r, half, bq); t.Uint64() == q-1 {
			return r.Uint64()
		}
	}
	panic("no primitive root")
}
