package h

import (
	"math/big"
)

// Reference arithmetic on coefficient vectors of unbounded integers. Nothing here calls lattigo.

// BI is a shorthand constructor.
func BI(x int64) *big.Int { return big.NewInt(x) }

// BU converts a uint64.
func BU(x uint64) *big.Int { return new(big.Int).SetUint64(x) }

// ProdU returns the product of the moduli.
func ProdU(qs []uint64) *big.Int {
	p := big.NewInt(1)
	for _, q := range qs {
		p.Mul(p, BU(q))
	}
	return p
}

// Mod returns x mod m in [0,m).
func Mod(x, m *big.Int) *big.Int {
	r := new(big.Int).Mod(x, m)
	if r.Sign() < 0 {
		r.Add(r, m)
	}
	return r
}

// Center returns the representative of x mod m in [-m/2, m/2) (for odd m: (-(m-1)/2 .. (m-1)/2)).
func Center(x, m *big.Int) *big.Int {
	r := Mod(x, m)
	half := new(big.Int).Rsh(m, 1)
	if r.Cmp(half) > 0 {
		r.Sub(r, m)
	}
	return r
}

// FloorDiv returns floor(x/d) for d>0.
func FloorDiv(x, d *big.Int) *big.Int {
	q, r := new(big.Int).QuoRem(x, d, new(big.Int))
	if r.Sign() < 0 {
		q.Sub(q, big.NewInt(1))
	}
	return q
}

// RoundDiv returns floor((x + floor(d/2))/d): rounded half up.
func RoundDiv(x, d *big.Int) *big.Int {
	t := new(big.Int).Rsh(d, 1)
	t.Add(t, x)
	return FloorDiv(t, d)
}

// CRT reconstructs, for each coefficient, the integer in [0,Q) from its residues limbs[i][j] mod qs[i].
func CRT(limbs [][]uint64, qs []uint64) []*big.Int {
	Q := ProdU(qs)
	n := len(limbs[0])
	out := make([]*big.Int, n)
	// precompute (Q/qi) * ((Q/qi)^-1 mod qi)
	cs := make([]*big.Int, len(qs))
	for i, q := range qs {
		bq := BU(q)
		qi := new(big.Int).Div(Q, bq)
		inv := new(big.Int).ModInverse(new(big.Int).Mod(qi, bq), bq)
		cs[i] = qi.Mul(qi, inv)
	}
	tmp := new(big.Int)
	for j := 0; j < n; j++ {
		acc := new(big.Int)
		for i := range qs {
			tmp.SetUint64(limbs[i][j])
			tmp.Mul(tmp, cs[i])
			acc.Add(acc, tmp)
		}
		out[j] = acc.Mod(acc, Q)
	}
	return out
}

// ToRNS writes x mod q_i for each limb.
func ToRNS(x []*big.Int, qs []uint64) [][]uint64 {
	out := make([][]uint64, len(qs))
	tmp := new(big.Int)
	for i, q := range qs {
		bq := BU(q)
		out[i] = make([]uint64, len(x))
		for j := range x {
			tmp.Mod(x[j], bq)
			if tmp.Sign() < 0 {
				tmp.Add(tmp, bq)
			}
			out[i][j] = tmp.Uint64()
		}
	}
	return out
}

// NegacyclicMul returns a*b mod (X^n+1) over the integers (no modular reduction).
func NegacyclicMul(a, b []*big.Int) []*big.Int {
	n := len(a)
	out := make([]*big.Int, n)
	for i := range out {
		out[i] = new(big.Int)
	}
	t := new(big.Int)
	for i := 0; i < n; i++ {
		if a[i].Sign() == 0 {
			continue
		}
		for j := 0; j < n; j++ {
			t.Mul(a[i], b[j])
			k := i + j
			if k >= n {
				out[k-n].Sub(out[k-n], t)
			} else {
				out[k].Add(out[k], t)
			}
		}
	}
	return out
}

// NegacyclicMulU64 multiplies modulo (X^n+1, q) for a single word-sized prime, used as a fast reference.
func NegacyclicMulU64(a, b []uint64, q uint64) []uint64 {
	n := len(a)
	bq := BU(q)
	acc := make([]*big.Int, n)
	for i := range acc {
		acc[i] = new(big.Int)
	}
	t := new(big.Int)
	x := new(big.Int)
	y := new(big.Int)
	for i := 0; i < n; i++ {
		if a[i] == 0 {
			continue
		}
		x.SetUint64(a[i])
		for j := 0; j < n; j++ {
			y.SetUint64(b[j])
			t.Mul(x, y)
			k := i + j
			if k >= n {
				acc[k-n].Sub(acc[k-n], t)
			} else {
				acc[k].Add(acc[k], t)
			}
		}
	}
	out := make([]uint64, n)
	for i := range acc {
		out[i] = Mod(acc[i], bq).Uint64()
	}
	return out
}

// Automorphism returns a(X^g) mod X^n+1 (g odd).
func Automorphism(a []*big.Int, g uint64) []*big.Int {
	n := uint64(len(a))
	out := make([]*big.Int, n)
	mask := 2*n - 1
	for i := uint64(0); i < n; i++ {
		k := (i * (g & mask)) & mask
		v := new(big.Int).Set(a[i])
		if k >= n {
			k -= n
			v.Neg(v)
		}
		out[k] = v
	}
	return out
}

// MulByMonomial returns a * X^k mod X^n+1 for any integer k.
func MulByMonomial(a []*big.Int, k int) []*big.Int {
	n := len(a)
	kk := ((k % (2 * n)) + 2*n) % (2 * n)
	out := make([]*big.Int, n)
	for i := 0; i < n; i++ {
		j := i + kk
		v := new(big.Int).Set(a[i])
		for j >= n {
			j -= n
			v.Neg(v)
		}
		out[j] = v
	}
	return out
}

// CIUnfold maps a conjugate-invariant polynomial of degree n (in Z[X+X^-1]) to the standard ring of degree 2n:
// a_0 + sum_{j>=1} a_j (X^j - X^{2n-j}).
func CIUnfold(a []*big.Int) []*big.Int {
	n := len(a)
	out := make([]*big.Int, 2*n)
	for i := range out {
		out[i] = new(big.Int)
	}
	out[0].Set(a[0])
	for j := 1; j < n; j++ {
		out[j].Set(a[j])
		out[2*n-j].Neg(a[j])
	}
	return out
}

// VecMod reduces every coefficient into [0,m).
func VecMod(a []*big.Int, m *big.Int) []*big.Int {
	out := make([]*big.Int, len(a))
	for i := range a {
		out[i] = Mod(a[i], m)
	}
	return out
}

// VecCenter centres every coefficient modulo m.
func VecCenter(a []*big.Int, m *big.Int) []*big.Int {
	out := make([]*big.Int, len(a))
	for i := range a {
		out[i] = Center(a[i], m)
	}
	return out
}

// VecSub returns a-b.
func VecSub(a, b []*big.Int) []*big.Int {
	out := make([]*big.Int, len(a))
	for i := range a {
		out[i] = new(big.Int).Sub(a[i], b[i])
	}
	return out
}

// VecAdd returns a+b.
func VecAdd(a, b []*big.Int) []*big.Int {
	out := make([]*big.Int, len(a))
	for i := range a {
		out[i] = new(big.Int).Add(a[i], b[i])
	}
	return out
}

// InfNorm returns max |a_i|.
func InfNorm(a []*big.Int) *big.Int {
	m := new(big.Int)
	t := new(big.Int)
	for _, x := range a {
		t.Abs(x)
		if t.Cmp(m) > 0 {
			m.Set(t)
		}
	}
	return m
}

// VecEqual reports element-wise equality.
func VecEqual(a, b []*big.Int) (int, bool) {
	for i := range a {
		if a[i].Cmp(b[i]) != 0 {
			return i, false
		}
	}
	return -1, true
}
