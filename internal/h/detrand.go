// Package h is the shared harness library of the lattigo verification checks.
package h

import (
	"crypto/rand"
	"encoding/binary"
	"io"
	"sync"

	"github.com/tuneinsight/lattigo/v6/utils/sampling"
	"golang.org/x/crypto/blake2b"
)

// detReader is a mutex-protected BLAKE2b XOF used in place of crypto/rand.Reader so that every random
// choice lattigo makes is a pure function of a value drawn from the property-testing library.
type detReader struct {
	mu  sync.Mutex
	xof blake2b.XOF
}

func (d *detReader) Read(p []byte) (int, error) {
	d.mu.Lock()
	defer d.mu.Unlock()
	return d.xof.Read(p)
}

var origReader io.Reader = rand.Reader

// SeedRand replaces crypto/rand.Reader by a keyed XOF. All lattigo randomness (sampling.NewPRNG,
// sampling.RandUint64, bignum.RandInt, ...) is drawn from rand.Reader, hence becomes deterministic.
func SeedRand(seed uint64) {
	var key [16]byte
	binary.LittleEndian.PutUint64(key[:8], seed)
	copy(key[8:], "verifdet")
	xof, err := blake2b.NewXOF(blake2b.OutputLengthUnknown, key[:])
	if err != nil {
		panic(err)
	}
	rand.Reader = &detReader{xof: xof}
}

// RestoreRand puts the operating-system source back.
func RestoreRand() { rand.Reader = origReader }

// KeyedPRNG returns a lattigo keyed PRNG for the given label (deterministic, independent of SeedRand).
func KeyedPRNG(label string) *sampling.KeyedPRNG {
	p, err := sampling.NewKeyedPRNG([]byte(label))
	if err != nil {
		panic(err)
	}
	return p
}

// SplitMix is a tiny deterministic generator used *inside* a case to expand a drawn seed into bulk data
// (coefficient vectors, slot values). It is a pure function of the seed stored in the Case, so replay
// and shrinking are unaffected: the seed itself is the rapid draw.
type SplitMix struct{ s uint64 }

func NewSplitMix(seed uint64) *SplitMix { return &SplitMix{s: seed} }

func (r *SplitMix) Uint64() uint64 {
	r.s += 0x9e3779b97f4a7c15
	z := r.s
	z = (z ^ (z >> 30)) * 0xbf58476d1ce4e5b9
	z = (z ^ (z >> 27)) * 0x94d049bb133111eb
	return z ^ (z >> 31)
}

// Intn returns a value in [0,n).
func (r *SplitMix) Intn(n int) int {
	if n <= 0 {
		return 0
	}
	return int(r.Uint64() % uint64(n))
}

// Float64 returns a value in [0,1).
func (r *SplitMix) Float64() float64 { return float64(r.Uint64()>>11) / (1 << 53) }
