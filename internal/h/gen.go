package h

import (
	"encoding/json"
	"fmt"
	"math"
	"sync"

	"github.com/tuneinsight/lattigo/v6/core/rlwe"
	"github.com/tuneinsight/lattigo/v6/ring"
	"github.com/tuneinsight/lattigo/v6/schemes/bgv"
	"github.com/tuneinsight/lattigo/v6/schemes/ckks"
	"pgregory.net/rapid"
)

// DistSpec is a plain-data description of a secret / error distribution.
type DistSpec struct {
	Kind  string  `json:"kind"` // "ternaryP" | "ternaryH" | "gauss"
	P     float64 `json:"p,omitempty"`
	H     int     `json:"h,omitempty"`
	Sigma float64 `json:"sigma,omitempty"`
	Bound float64 `json:"bound,omitempty"`
}

// Lattigo converts to the lattigo distribution parameters.
func (d DistSpec) Lattigo() ring.DistributionParameters {
	switch d.Kind {
	case "ternaryP":
		return ring.Ternary{P: d.P}
	case "ternaryH":
		return ring.Ternary{H: d.H}
	case "gauss":
		return ring.DiscreteGaussian{Sigma: d.Sigma, Bound: d.Bound}
	}
	return nil
}

// AbsBound is the hard bound on |coefficient| of the distribution.
func (d DistSpec) AbsBound() float64 {
	if d.Kind == "gauss" {
		return math.Floor(d.Bound + 0.5)
	}
	return 1
}

// Std is the nominal standard deviation of one coefficient for a ring of degree n.
func (d DistSpec) Std(n int) float64 {
	switch d.Kind {
	case "ternaryP":
		return math.Sqrt(d.P)
	case "ternaryH":
		return math.Sqrt(float64(d.H) / float64(n))
	}
	return d.Sigma
}

// RLWESpec is a plain-data RLWE parameter literal with explicit primes.
type RLWESpec struct {
	LogN int      `json:"logN"`
	Q    []uint64 `json:"Q"`
	P    []uint64 `json:"P,omitempty"`
	CI   bool     `json:"ci,omitempty"` // conjugate-invariant ring
	Xs   DistSpec `json:"xs"`
	Xe   DistSpec `json:"xe"`
	NTT  bool     `json:"ntt"`
}

// N returns the ring degree.
func (s RLWESpec) N() int { return 1 << s.LogN }

// NthRoot returns the root order the moduli must be congruent to 1 to.
func (s RLWESpec) NthRoot() uint64 {
	if s.CI {
		return 4 << s.LogN
	}
	return 2 << s.LogN
}

// Literal returns the lattigo literal.
func (s RLWESpec) Literal() rlwe.ParametersLiteral {
	rt := ring.Standard
	if s.CI {
		rt = ring.ConjugateInvariant
	}
	return rlwe.ParametersLiteral{LogN: s.LogN, Q: s.Q, P: s.P, Xs: s.Xs.Lattigo(), Xe: s.Xe.Lattigo(), RingType: rt, NTTFlag: s.NTT}
}

var (
	paramMu    sync.Mutex
	paramCache = map[string]any{}
)

func cached[T any](key any, build func() (T, error)) (T, error) {
	js, _ := json.Marshal(key)
	k := fmt.Sprintf("%T|%s", *new(T), js)
	paramMu.Lock()
	if v, ok := paramCache[k]; ok {
		paramMu.Unlock()
		return v.(T), nil
	}
	paramMu.Unlock()
	v, err := build()
	if err != nil {
		return v, err
	}
	paramMu.Lock()
	if len(paramCache) > 256 {
		paramCache = map[string]any{}
	}
	paramCache[k] = v
	paramMu.Unlock()
	return v, nil
}

// Build constructs (and caches) the lattigo parameters. A warning-only error (sigma 0 / H 0) is not an error here.
func (s RLWESpec) Build() (rlwe.Parameters, error) {
	return cached(s, func() (rlwe.Parameters, error) {
		p, err := rlwe.NewParametersFromLiteral(s.Literal())
		if err != nil && p.RingQ() != nil {
			err = nil
		}
		return p, err
	})
}

// BGVSpec is a BGV/BFV parameter literal.
type BGVSpec struct {
	RLWESpec
	T uint64 `json:"t"`
}

// Build constructs the bgv parameters.
func (s BGVSpec) Build() (bgv.Parameters, error) {
	return cached(s, func() (bgv.Parameters, error) {
		return bgv.NewParametersFromLiteral(bgv.ParametersLiteral{LogN: s.LogN, Q: s.Q, P: s.P, Xs: s.Xs.Lattigo(), Xe: s.Xe.Lattigo(), PlaintextModulus: s.T})
	})
}

// CKKSSpec is a CKKS parameter literal.
type CKKSSpec struct {
	RLWESpec
	LogScale int `json:"logScale"`
}

// Build constructs the ckks parameters.
func (s CKKSSpec) Build() (ckks.Parameters, error) {
	return cached(s, func() (ckks.Parameters, error) {
		rt := ring.Standard
		if s.CI {
			rt = ring.ConjugateInvariant
		}
		return ckks.NewParametersFromLiteral(ckks.ParametersLiteral{LogN: s.LogN, Q: s.Q, P: s.P, Xs: s.Xs.Lattigo(), Xe: s.Xe.Lattigo(), RingType: rt, LogDefaultScale: s.LogScale})
	})
}

// RLWEOpts bounds the RLWE literal generator.
type RLWEOpts struct {
	MinLogN, MaxLogN int
	MinQ, MaxQ       int // number of Q primes
	MinP, MaxP       int // number of P primes
	MinBits, MaxBits int // prime sizes
	AllowCI          bool
	NTT              *bool // nil: drawn
	DefaultDists     bool  // Xs ternary 1/2... only default-like distributions
	PBits            int   // if >0, P primes have about this size (>= max Q size is what callers usually need)
}

// GenSizes draws n prime sizes in [lo,hi] biased to the extremes.
func GenSizes(t *rapid.T, n, lo, hi int, label string) []int {
	out := make([]int, n)
	for i := range out {
		switch rapid.IntRange(0, 5).Draw(t, fmt.Sprintf("%s_szk%d", label, i)) {
		case 0:
			out[i] = lo
		case 1:
			out[i] = hi
		default:
			out[i] = rapid.IntRange(lo, hi).Draw(t, fmt.Sprintf("%s_sz%d", label, i))
		}
	}
	return out
}

// GenPrimes draws distinct NTT-friendly primes of the given sizes.
func GenPrimes(t *rapid.T, sizes []int, m uint64, used map[uint64]bool, label string) []uint64 {
	picks := make([]int, len(sizes))
	for i := range picks {
		picks[i] = rapid.IntRange(0, 23).Draw(t, fmt.Sprintf("%s_pick%d", label, i))
	}
	// sizes below the smallest admissible prime are lifted
	minb := MinPrimeBits(m)
	sz := append([]int(nil), sizes...)
	for i := range sz {
		if sz[i] < minb {
			sz[i] = minb
		}
	}
	ps, err := DistinctPrimes(sz, m, func(i, avail int) int { return picks[i] }, used)
	if err != nil {
		t.Fatalf("prime generation: %v", err)
	}
	return ps
}

// GenDist draws a secret (secret=true) or error distribution.
func GenDist(t *rapid.T, secret bool, n int, label string) DistSpec {
	if secret {
		switch rapid.IntRange(0, 5).Draw(t, label+"_kind") {
		case 0:
			return DistSpec{Kind: "ternaryP", P: 1.0 / 3}
		case 1:
			return DistSpec{Kind: "ternaryP", P: 0.5}
		case 2:
			return DistSpec{Kind: "ternaryP", P: 2.0 / 3}
		case 3:
			hs := []int{1, 2, n / 4, n / 2, n - 1, n}
			return DistSpec{Kind: "ternaryH", H: hs[rapid.IntRange(0, len(hs)-1).Draw(t, label+"_h")]}
		case 4:
			return DistSpec{Kind: "gauss", Sigma: 3.2, Bound: 19.2}
		default:
			return DistSpec{Kind: "ternaryP", P: 0.5}
		}
	}
	switch rapid.IntRange(0, 4).Draw(t, label+"_kind") {
	case 0:
		return DistSpec{Kind: "gauss", Sigma: 1, Bound: 6}
	case 1:
		return DistSpec{Kind: "gauss", Sigma: 8, Bound: 48}
	case 2:
		return DistSpec{Kind: "ternaryP", P: 0.5}
	default:
		return DistSpec{Kind: "gauss", Sigma: 3.2, Bound: 19.2}
	}
}

// DefaultXs / DefaultXe mirror lattigo's defaults.
var (
	DefaultXs = DistSpec{Kind: "ternaryP", P: 0.5}
	DefaultXe = DistSpec{Kind: "gauss", Sigma: 3.2, Bound: 19.2}
)

// GenRLWESpec draws an RLWE literal with explicit, independently generated primes.
func GenRLWESpec(t *rapid.T, o RLWEOpts) RLWESpec {
	var s RLWESpec
	s.LogN = rapid.IntRange(o.MinLogN, o.MaxLogN).Draw(t, "logN")
	if o.AllowCI {
		s.CI = rapid.IntRange(0, 2).Draw(t, "ringType") == 0
	}
	if o.NTT != nil {
		s.NTT = *o.NTT
	} else {
		s.NTT = rapid.Bool().Draw(t, "nttFlag")
	}
	nQ := rapid.IntRange(o.MinQ, o.MaxQ).Draw(t, "nQ")
	nP := rapid.IntRange(o.MinP, o.MaxP).Draw(t, "nP")
	m := s.NthRoot()
	used := map[uint64]bool{}
	s.Q = GenPrimes(t, GenSizes(t, nQ, o.MinBits, o.MaxBits, "q"), m, used, "q")
	if nP > 0 {
		var psz []int
		if o.PBits > 0 {
			psz = make([]int, nP)
			for i := range psz {
				psz[i] = o.PBits
			}
		} else {
			psz = GenSizes(t, nP, o.MinBits, o.MaxBits, "p")
		}
		s.P = GenPrimes(t, psz, m, used, "p")
	}
	if o.DefaultDists {
		s.Xs, s.Xe = DefaultXs, DefaultXe
	} else {
		s.Xs = GenDist(t, true, s.N(), "xs")
		s.Xe = GenDist(t, false, s.N(), "xe")
	}
	return s
}

// GenPlainModulus draws a prime t ≡ 1 mod 2n with n = 2^logn (n >= 8) of the given bit size, not in `avoid`.
func GenPlainModulus(t *rapid.T, logn int, bitsz int, avoid map[uint64]bool) uint64 {
	ps := GenPrimes(t, []int{bitsz}, uint64(2)<<logn, avoid, "t")
	return ps[0]
}

// SecretL1 returns a worst-case bound on the 1-norm of a secret drawn from d in degree n.
func SecretL1(d DistSpec, n int) float64 {
	switch d.Kind {
	case "ternaryH":
		return float64(d.H)
	case "gauss":
		return float64(n) * d.AbsBound()
	}
	return float64(n)
}
