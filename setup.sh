#!/bin/sh
# Offline warm-up: compile the harness and every check package against /repo's current tree.
set -e
cd "$(dirname "$0")"
export GOFLAGS=-mod=mod GOPROXY=off GOSUMDB=off GOTOOLCHAIN=local
mkdir -p .bin .run evidence
go build ./internal/...
for d in checks/*/; do
  id=$(basename "$d")
  extra=""
  [ "$id" = "c10" ] && extra="-race"
  go test -c -tags verif -vet=off $extra -o ".bin/$id.test" "./checks/$id"
done
echo "setup ok"
