#!/bin/sh
# Offline warm-up: compile the harness and every check package against /repo's current tree.
# (Each ./check run rebuilds its own package anyway; this only warms the build cache.)
cd "$(dirname "$0")"
export GOFLAGS=-mod=mod GOPROXY=off GOSUMDB=off GOTOOLCHAIN=local
mkdir -p .bin .run evidence
go build ./internal/... || { echo "setup: harness library does not build"; exit 1; }
for d in checks/*/; do
  id=$(basename "$d")
  extra=""
  [ "$id" = "c10" ] && extra="-race"
  go test -c -tags verif -vet=off $extra -o ".bin/$id.test" "./checks/$id" || echo "setup: warning: $id does not build yet"
done
echo "setup ok"
